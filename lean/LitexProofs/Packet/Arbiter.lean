import LitexModel.Packet.Arbiter
/-
  Arbiter / Dispatcher: transfer logs, the "one source / one destination per packet" predicates and the
  inductive invariants behind `arbiter_atomic` and `dispatcher_atomic`.
-/
namespace Litex.Packet
open Litex Litex.Stream

/-! ### Round-robin facts needed here (SP_WITHDRAW) -/

theorem rr_scan_lt (n g : Nat) (req : Nat → Bool) (hn : 0 < n) (hg : g < n) (fuel k : Nat) :
    RoundRobin.scan n g req fuel k < n := by
  induction fuel generalizing k with
  | zero => simpa [RoundRobin.scan] using hg
  | succ f ih =>
    simp only [RoundRobin.scan]
    split
    · exact Nat.mod_lt _ hn
    · exact ih _

theorem rr_next_lt (n g : Nat) (req : Nat → Bool) (hn : 2 ≤ n) (hg : g < n) :
    RoundRobin.next .withdraw n g req < n := by
  unfold RoundRobin.next
  have : ¬ n ≤ 1 := by omega
  simp only [this, ↓reduceIte, hg]
  split
  · exact hg
  · exact rr_scan_lt n g req (by omega) hg _ _

/-- The owner keeps the grant as long as it requests. -/
theorem rr_next_of_req (n g : Nat) (req : Nat → Bool) (hn : 2 ≤ n) (hg : g < n) (h : req g = true) :
    RoundRobin.next .withdraw n g req = g := by
  unfold RoundRobin.next
  have : ¬ n ≤ 1 := by omega
  simp [this, hg, h]

/-! ### Arbiter -/

/-- The beat handed to the slave in this cycle (if any), tagged with the master it comes from. -/
def arbXfer (n : Nat) (s : ArbState) (i : ArbIn) : List (Nat × Beat) :=
  if ((arbiter n).out s i).slave.valid && i.ready then [(s.grant, ((arbiter n).out s i).slave)] else []

/-- All beats handed to the slave while running `ins` from `s`. -/
def arbLog (n : Nat) (s : ArbState) : List ArbIn → List (Nat × Beat)
  | [] => []
  | i :: is => arbXfer n s i ++ arbLog n ((arbiter n).next s i) is

/-- Beats of master `k` accepted (its valid and its ready) while running `ins` from `s`. -/
def arbAccepted (n k : Nat) (s : ArbState) : List ArbIn → List Beat
  | [] => []
  | i :: is =>
    (if (i.masters.getD k Beat.idle).valid && (((arbiter n).out s i).readys.getD k false)
      then [i.masters.getD k Beat.idle] else []) ++ arbAccepted n k ((arbiter n).next s i) is

/-- One source per packet: `owner` is the master whose packet is in progress (its last transferred beat was not
    a last beat); every beat comes from the owner if there is one; a last beat releases ownership. -/
def atomicFrom : Option Nat → List (Nat × Beat) → Prop
  | _, [] => True
  | owner, (m, b) :: r => (∀ o, owner = some o → m = o) ∧ atomicFrom (if b.last then none else some m) r

/-- The invariant: while a packet of master `o` is in progress, the grant points at `o` and `o`'s Status has
    its `ongoing` register set. -/
def arbInv (n : Nat) (s : ArbState) (owner : Option Nat) : Prop :=
  s.grant < n ∧ ∀ o, owner = some o → s.grant = o ∧ s.ongoing.getD o false = true

theorem getD_map_range (n k : Nat) (f : Nat → Bool) (hk : k < n) :
    ((List.range n).map f).getD k false = f k := by
  simp [List.getD, hk]

theorem arbiter_atomic_from (n : Nat) (hn : 2 ≤ n) (ins : List ArbIn) :
    ∀ (s : ArbState) (owner : Option Nat), arbInv n s owner → atomicFrom owner (arbLog n s ins) := by
  induction ins with
  | nil => intro s owner _; simp [arbLog, atomicFrom]
  | cons i is ih =>
    intro s owner ⟨hg, hown⟩
    have hgn := rr_next_lt n s.grant (fun k => decide (k < n) && arbRequest s i k) hn hg
    simp only [arbLog, arbXfer]
    -- the granted master's beat
    generalize hb : i.masters.getD s.grant Beat.idle = b
    have hb' : i.masters[s.grant]?.getD Beat.idle = b := by simpa using hb
    have hslave : ((arbiter n).out s i).slave = b := by simp [arbiter, hg, hb']
    rw [hslave]
    -- the request of the granted master
    have hreq : arbRequest s i s.grant = ((b.valid || s.ongoing.getD s.grant false) && !(b.valid && b.last && i.ready)) := by
      simp [arbRequest, arbStatusIn, status, StatusIn.lastHs, hb']
    cases hx : (b.valid && i.ready)
    · -- no transfer: ownership unchanged
      simp only [Bool.false_eq_true, ↓reduceIte, List.nil_append]
      apply ih
      refine ⟨hgn, ?_⟩
      intro o ho
      obtain ⟨h1, h2⟩ := hown o ho
      subst h1
      have hr : arbRequest s i s.grant = true := by
        rw [hreq, h2]; revert hx; cases b.valid <;> cases i.ready <;> cases b.last <;> simp
      constructor
      · simp only [arbiter]
        exact rr_next_of_req n s.grant _ hn hg (by simp [hg, hr])
      · simp only [arbiter]
        rw [getD_map_range n s.grant _ hg]; exact hr
    · simp only [↓reduceIte, List.cons_append, List.nil_append, atomicFrom]
      refine ⟨fun o ho => ((hown o ho).1), ?_⟩
      apply ih
      refine ⟨hgn, ?_⟩
      intro o ho
      cases hl : b.last
      · simp only [hl, Bool.false_eq_true, ↓reduceIte, Option.some.injEq] at ho
        subst ho
        have hr : arbRequest s i s.grant = true := by
          rw [hreq]; revert hx; simp [hl]; cases b.valid <;> simp
        constructor
        · simp only [arbiter]
          exact rr_next_of_req n s.grant _ hn hg (by simp [hg, hr])
        · simp only [arbiter]
          rw [getD_map_range n s.grant _ hg]; exact hr
      · simp [hl] at ho

/-- No loss, duplication or reordering per master: what master `k` got accepted is exactly the slave's stream
    restricted to the beats tagged `k`. -/
theorem arbiter_accepted_eq (n : Nat) (hn : 2 ≤ n) (k : Nat) (hk : k < n) (ins : List ArbIn) :
    ∀ (s : ArbState), s.grant < n →
      arbAccepted n k s ins = ((arbLog n s ins).filter (fun x => x.1 == k)).map (fun x => x.2) := by
  induction ins with
  | nil => intro s _; simp [arbAccepted, arbLog]
  | cons i is ih =>
    intro s hg
    have hgn := rr_next_lt n s.grant (fun k => decide (k < n) && arbRequest s i k) hn hg
    simp only [arbAccepted, arbLog, arbXfer, List.filter_append, List.map_append]
    rw [ih _ (by simpa [arbiter] using hgn)]
    congr 1
    have hslave : ((arbiter n).out s i).slave = i.masters.getD s.grant Beat.idle := by simp [arbiter, hg]
    have hrdy : ((arbiter n).out s i).readys.getD k false = (k == s.grant && i.ready) := by
      simp only [arbiter]; exact getD_map_range n k _ hk
    rw [hslave, hrdy]
    by_cases hkg : k = s.grant
    · subst hkg
      generalize i.masters.getD s.grant Beat.idle = b
      cases b.valid <;> cases i.ready <;> simp
    · have : (s.grant == k) = false := by simp; omega
      have h2 : (k == s.grant) = false := by simp; omega
      generalize i.masters.getD s.grant Beat.idle = b
      cases b.valid <;> cases i.ready <;> simp [this, h2]

/-! ### Dispatcher -/

/-- A beat transferred at the master in this cycle: (destination slave or `none` = drained, `sel` input of this
    cycle, the beat). -/
def dispXfer (m : Nat) (oneHot : Bool) (s : DispState) (i : DispIn) : List (Option Nat × Nat × Beat) :=
  if i.master.valid && dispReady m oneHot s i then
    [(dispTarget m oneHot (dispSel s i), i.sel, i.master)] else []

def dispLog (m : Nat) (oneHot : Bool) (s : DispState) : List DispIn → List (Option Nat × Nat × Beat)
  | [] => []
  | i :: is => dispXfer m oneHot s i ++ dispLog m oneHot ((dispatcher m oneHot).next s i) is

/-- One destination per packet: `cur = none` at a packet boundary — then the destination is the slave
    addressed by the `sel` input of the cycle in which the first beat is transferred; `cur = some d` while a
    packet is in progress — then every beat goes to `d`, whatever `sel` does. -/
def routedFrom (m : Nat) (oneHot : Bool) : Option (Option Nat) → List (Option Nat × Nat × Beat) → Prop
  | _, [] => True
  | cur, (dest, sel, b) :: r =>
    (match cur with
      | none => dest = dispTarget m oneHot sel
      | some d => dest = d) ∧
    routedFrom m oneHot (if b.last then none else some dest) r

def dispInv (m : Nat) (oneHot : Bool) (s : DispState) (cur : Option (Option Nat)) : Prop :=
  match cur with
  | none => s.first = true
  | some d => s.first = false ∧ dispTarget m oneHot s.selOngoing = d

theorem dispatcher_atomic_from (m : Nat) (oneHot : Bool) (ins : List DispIn) :
    ∀ (s : DispState) (cur : Option (Option Nat)), dispInv m oneHot s cur →
      routedFrom m oneHot cur (dispLog m oneHot s ins) := by
  induction ins with
  | nil => intro s cur _; simp [dispLog, routedFrom]
  | cons i is ih =>
    intro s cur hinv
    simp only [dispLog, dispXfer]
    cases hx : (i.master.valid && dispReady m oneHot s i)
    · simp only [Bool.false_eq_true, ↓reduceIte, List.nil_append]
      apply ih
      cases cur with
      | none =>
        simp only [dispInv] at hinv ⊢
        simp only [Bool.and_eq_false_iff] at hx
        rcases hx with hx | hx <;>
          simp [dispatcher, status, StatusIn.lastHs, StatusIn.hs, hinv, hx]
      | some d =>
        simp only [dispInv] at hinv ⊢
        obtain ⟨h1, h2⟩ := hinv
        simp only [Bool.and_eq_false_iff] at hx
        rcases hx with hx | hx <;>
          simp [dispatcher, status, StatusIn.lastHs, StatusIn.hs, h1, h2, hx]
    · simp only [↓reduceIte, List.cons_append, List.nil_append, routedFrom]
      simp only [Bool.and_eq_true] at hx
      obtain ⟨hv, hr⟩ := hx
      cases cur with
      | none =>
        simp only [dispInv] at hinv
        refine ⟨by simp [dispSel, hinv], ?_⟩
        apply ih
        cases hl : i.master.last
        · simp [dispInv, dispatcher, status, StatusIn.lastHs, StatusIn.hs, hinv, hv, hr, hl, dispSel]
        · simp [dispInv, dispatcher, status, StatusIn.lastHs, StatusIn.hs, hinv, hv, hr, hl]
      | some d =>
        simp only [dispInv] at hinv
        obtain ⟨h1, h2⟩ := hinv
        refine ⟨by simp [dispSel, h1, h2], ?_⟩
        apply ih
        cases hl : i.master.last
        · simp [dispInv, dispatcher, status, StatusIn.lastHs, StatusIn.hs, h1, h2, hv, hr, hl, dispSel]
        · simp [dispInv, dispatcher, status, StatusIn.lastHs, StatusIn.hs, h1, hv, hr, hl]

end Litex.Packet
