import LitexModel.Event.Core
/-
  C15 helper lemmas: trace indexing for `evMgr`, the per-source step equations, and the closed-form
  characterisation of `pending` over an arbitrary input trace.  Core Lean only.
-/
namespace Litex.Event
open Litex

/-- The idle input (nothing triggered, nothing written, no register selected ⇒ `decode` of a huge index fails
    only if it is ≥ 3·nwords; the value is irrelevant: it is only used beyond the end of a trace). -/
def In.idle : In := { trig := [], adr := 0, we := false, datW := 0 }

/-- State in cycle `t` of the run over `ins` (cycles are numbered from 0; defined for `t ≤ ins.length`). -/
def stAt (c : Cfg) (ins : List In) (t : Nat) : St := (evMgr c).run (ins.take t)
/-- Input in cycle `t`. -/
def inAt (ins : List In) (t : Nat) : In := ins.getD t In.idle

def trigAt (ins : List In) (t k : Nat) : Bool := (inAt ins t).trigOf k
/-- The trigger one cycle earlier; 0 before the first cycle (reset value of `trigger_d`). -/
def prevTrig (ins : List In) : Nat → Nat → Bool
  | 0, _ => false
  | t + 1, k => trigAt ins t k
/-- Event of source `k` in cycle `t`, defined on the trigger waveform alone. -/
def eventAt (c : Cfg) (ins : List In) (t k : Nat) : Bool := (c.kind k).event (prevTrig ins t k) (trigAt ins t k)
/-- `source.clear` of source `k` in cycle `t`. -/
def clearAt (c : Cfg) (ins : List In) (t k : Nat) : Bool := (stAt c ins t).clear k
/-- The source's `pending` register in cycle `t` (pulse and process sources). -/
def pendRegAt (c : Cfg) (ins : List In) (t k : Nat) : Bool := ((stAt c ins t).bit k).pending
/-- `source.pending` = bit `k` of the `pending` CSR in cycle `t`. -/
def pendingAt (c : Cfg) (ins : List In) (t k : Nat) : Bool := pendingVis c (stAt c ins t) (inAt ins t) k
def enableAt (c : Cfg) (ins : List In) (t k : Nat) : Bool := ((stAt c ins t).bit k).en
def rAt (c : Cfg) (ins : List In) (t k : Nat) : Bool := ((stAt c ins t).bit k).r
def irqAt (c : Cfg) (ins : List In) (t : Nat) : Bool := irqOf c (stAt c ins t) (inAt ins t)
def statusAt (c : Cfg) (ins : List In) (t k : Nat) : Bool := statusBit c (inAt ins t) k
def datRAt (c : Cfg) (ins : List In) (t : Nat) : Nat := (stAt c ins t).datR

variable {c : Cfg} {ins : List In} {t k : Nat}

theorem stAt_zero : stAt c ins 0 = (evMgr c).init := by simp [stAt, Machine.run, Machine.runFrom]

theorem stAt_succ (h : t < ins.length) :
    stAt c ins (t + 1) = (evMgr c).next (stAt c ins t) (inAt ins t) := by
  unfold stAt inAt Machine.run
  rw [List.take_succ_eq_append_getElem h, Machine.runFrom_append]
  simp [Machine.runFrom, List.getD_eq_getElem?_getD, h]

theorem stAt_length : stAt c ins ins.length = (evMgr c).run ins := by simp [stAt]

theorem init_bit (k : Nat) : ((evMgr c).init).bit k = Bit.zero := by
  unfold St.bit evMgr
  by_cases hk : k < c.n <;> simp [List.getD_eq_getElem?_getD, hk]

theorem next_bit (s : St) (i : In) (hk : k < c.n) : (((evMgr c).next s i).bit k) = nextBit c s i k := by
  simp [St.bit, evMgr, List.getD_eq_getElem?_getD, hk]

theorem next_re (s : St) (i : In) : ((evMgr c).next s i).re = commits c i := rfl
theorem next_datR (s : St) (i : In) : ((evMgr c).next s i).datR = readWord c s i := rfl

/-! ### per-source step equations on traces -/

theorem trigD_eq (hk : k < c.n) (ht : t ≤ ins.length)
    (hkind : c.kind k = .rising ∨ c.kind k = .falling) :
    ((stAt c ins t).bit k).trigD = prevTrig ins t k := by
  cases t with
  | zero => simp [stAt_zero, init_bit, Bit.zero, prevTrig]
  | succ t =>
    rw [stAt_succ (by omega), next_bit _ _ hk]
    rcases hkind with h | h <;> simp [nextBit, h, Kind.trigDNext, prevTrig, trigAt]

theorem eventBit_eq (hk : k < c.n) (ht : t ≤ ins.length) :
    eventBit c (stAt c ins t) (inAt ins t) k = eventAt c ins t k := by
  unfold eventBit eventAt
  cases hkind : c.kind k with
  | pulse => simp [Kind.event, trigAt]
  | level => simp [Kind.event]
  | rising => rw [trigD_eq hk ht (Or.inl hkind)]; rfl
  | falling => rw [trigD_eq hk ht (Or.inr hkind)]; rfl

theorem pendReg_zero : pendRegAt c ins 0 k = false := by
  simp [pendRegAt, stAt_zero, init_bit, Bit.zero]

theorem pendReg_succ (hk : k < c.n) (ht : t < ins.length) :
    pendRegAt c ins (t + 1) k =
      (c.kind k).pendingNext (pendRegAt c ins t k) (clearAt c ins t k) (eventAt c ins t k) := by
  unfold pendRegAt clearAt
  rw [stAt_succ ht, next_bit _ _ hk, ← eventBit_eq hk (Nat.le_of_lt ht)]
  rfl

theorem pendingNext_of_ne_level {kd : Kind} (h : kd ≠ .level) (p cl ev : Bool) :
    kd.pendingNext p cl ev = ((p && !cl) || ev) := by
  cases kd <;> cases p <;> cases cl <;> cases ev <;> simp_all [Kind.pendingNext]

theorem pendingAt_of_ne_level (h : c.kind k ≠ .level) : pendingAt c ins t k = pendRegAt c ins t k := by
  unfold pendingAt pendRegAt pendingVis
  cases hkd : c.kind k <;> simp_all [Kind.pendingVis]

theorem clear_zero : clearAt c ins 0 k = false := by
  simp [clearAt, St.clear, stAt_zero, evMgr]

theorem r_zero : rAt c ins 0 k = false := by
  simp [rAt, stAt_zero, init_bit, Bit.zero]

theorem r_succ (hk : k < c.n) (ht : t < ins.length) :
    rAt c ins (t + 1) k = (wrBit c (inAt ins t) .pending k).getD (rAt c ins t k) := by
  unfold rAt
  rw [stAt_succ ht, next_bit _ _ hk]
  rfl

theorem enable_zero : enableAt c ins 0 k = false := by
  simp [enableAt, stAt_zero, init_bit, Bit.zero]

theorem enable_succ (hk : k < c.n) (ht : t < ins.length) :
    enableAt c ins (t + 1) k = (wrBit c (inAt ins t) .enable k).getD (enableAt c ins t k) := by
  unfold enableAt
  rw [stAt_succ ht, next_bit _ _ hk]
  rfl

theorem clear_succ (ht : t < ins.length) :
    clearAt c ins (t + 1) k = (commits c (inAt ins t) && rAt c ins (t + 1) k) := by
  unfold clearAt St.clear rAt
  rw [stAt_succ ht, next_re]

/-! ### closed form of `pending` over a trace -/

/-- A pulse/process source is pending in cycle `T` exactly when some earlier cycle `u` carried an event that no
    later cycle (strictly between `u` and `T`) cleared. -/
theorem pendReg_iff (hk : k < c.n) (hkind : c.kind k ≠ .level) :
    ∀ T, T ≤ ins.length →
      (pendRegAt c ins T k = true ↔
        ∃ u, u < T ∧ eventAt c ins u k = true ∧ ∀ v, u < v → v < T → clearAt c ins v k = false) := by
  intro T
  induction T with
  | zero => intro _; simp [pendReg_zero]
  | succ T ih =>
    intro hT
    have hT' : T < ins.length := by omega
    rw [pendReg_succ hk hT', pendingNext_of_ne_level hkind]
    have ih := ih (by omega)
    constructor
    · intro h
      by_cases hev : eventAt c ins T k = true
      · exact ⟨T, by omega, hev, fun v h1 h2 => by omega⟩
      · simp [hev] at h
        obtain ⟨u, hu, heu, hcl⟩ := ih.mp h.1
        refine ⟨u, by omega, heu, fun v h1 h2 => ?_⟩
        by_cases hvT : v = T
        · subst hvT; exact h.2
        · exact hcl v h1 (by omega)
    · rintro ⟨u, hu, heu, hcl⟩
      by_cases huT : u = T
      · subst huT; simp [heu]
      · have hp : pendRegAt c ins T k = true := ih.mpr ⟨u, by omega, heu, fun v h1 h2 => hcl v h1 (by omega)⟩
        have hc : clearAt c ins T k = false := hcl T (by omega) (by omega)
        simp [hp, hc]

/-! ### irq -/

theorem irqOf_iff (s : St) (i : In) :
    irqOf c s i = true ↔ ∃ k, k < c.n ∧ pendingVis c s i k = true ∧ (s.bit k).en = true := by
  simp [irqOf, List.any_eq_true]

/-! ### the most recent value written to a bit position of `pending` / `enable` -/

/-- Most recent value the bus wrote to bit `k` of register `reg` strictly before cycle `t`. -/
def lastWr (c : Cfg) (ins : List In) (reg : Reg) : Nat → Nat → Option Bool
  | 0, _ => none
  | t + 1, k => (wrBit c (inAt ins t) reg k).orElse fun _ => lastWr c ins reg t k

theorem r_eq_lastWr (hk : k < c.n) : ∀ t, t ≤ ins.length → rAt c ins t k = (lastWr c ins .pending t k).getD false := by
  intro t
  induction t with
  | zero => intro _; simp [r_zero, lastWr]
  | succ t ih =>
    intro ht
    rw [r_succ hk (by omega), ih (by omega), lastWr]
    cases wrBit c (inAt ins t) .pending k <;> simp

theorem enable_eq_lastWr (hk : k < c.n) :
    ∀ t, t ≤ ins.length → enableAt c ins t k = (lastWr c ins .enable t k).getD false := by
  intro t
  induction t with
  | zero => intro _; simp [enable_zero, lastWr]
  | succ t ih =>
    intro ht
    rw [enable_succ hk (by omega), ih (by omega), lastWr]
    cases wrBit c (inAt ins t) .enable k <;> simp

end Litex.Event
