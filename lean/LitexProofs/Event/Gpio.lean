import LitexModel.Event.Gpio
import LitexProofs.Event.Bus
/-
  C15 helper lemmas for the GPIO IRQ client: the event-manager part of `gpioIrq` runs on the derived trigger trace.
-/
namespace Litex.Event
open Litex

theorem gpio_run_ev (n bw : Nat) (little : Bool) :
    ∀ (ins : List GpioIn) (s : GpioSt),
      ((gpioIrq n bw little).runFrom s ins).ev =
        (evMgr (gpioCfg n bw little)).runFrom s.ev (gpioDerive n s.inD ins) := by
  intro ins
  induction ins with
  | nil => intro s; rfl
  | cons i is ih =>
    intro s
    simp only [Machine.runFrom, gpioDerive]
    rw [ih]
    rfl

theorem gpioDerive_length (n : Nat) : ∀ (ins : List GpioIn) (inD : List Bool), (gpioDerive n inD ins).length = ins.length := by
  intro ins
  induction ins with
  | nil => intro _; rfl
  | cons i is ih => intro inD; simp [gpioDerive, ih]

theorem gpio_cfg_n (n bw : Nat) (little : Bool) : (gpioCfg n bw little).n = n := by simp [gpioCfg, Cfg.n]

theorem gpio_cfg_kind (n bw : Nat) (little : Bool) {k : Nat} (hk : k < n) : (gpioCfg n bw little).kind k = .rising := by
  simp [gpioCfg, Cfg.kind, List.getD_eq_getElem?_getD, hk]

end Litex.Event

namespace Litex.Event
open Litex

def GpioIn.idle : GpioIn := { pads := [], mode := [], edge := [], adr := 0, we := false, datW := 0 }

def gpioInAt (gins : List GpioIn) (t : Nat) : GpioIn := gins.getD t GpioIn.idle
def padAt (gins : List GpioIn) (t k : Nat) : Bool := (gpioInAt gins t).pads.getD k false
def modeAt (gins : List GpioIn) (t k : Nat) : Bool := (gpioInAt gins t).mode.getD k false
/-- `in_d` in cycle `t` (0 in the first cycle). -/
def prevPad (gins : List GpioIn) : Nat → Nat → Bool
  | 0, _ => false
  | t + 1, k => padAt gins t k
/-- The synchronised pad value differs from the one of the previous cycle. -/
def changeAt (gins : List GpioIn) (t k : Nat) : Bool := padAt gins t k != prevPad gins t k

/-- The whole trigger trace seen by the event manager from reset. -/
def gpioTrace (n : Nat) (gins : List GpioIn) : List In := gpioDerive n (List.replicate n false) gins

theorem gpioDerive_getD (n : Nat) :
    ∀ (gins : List GpioIn) (inD : List Bool) (t : Nat), t < gins.length →
      (gpioDerive n inD gins).getD t In.idle =
        gpioEvIn n (match t with | 0 => inD | t' + 1 => gpioNextD n (gins.getD t' GpioIn.idle)) (gins.getD t GpioIn.idle) := by
  intro gins
  induction gins with
  | nil => intro inD t ht; simp at ht
  | cons i is ih =>
    intro inD t ht
    cases t with
    | zero => simp [gpioDerive]
    | succ t =>
      have ht' : t < is.length := by simpa using ht
      simp only [gpioDerive, List.getD_cons_succ]
      rw [ih _ t ht']
      cases t with
      | zero => simp
      | succ t => simp

theorem range_map_getD {α : Type} (f : Nat → α) (d : α) {n k : Nat} (hk : k < n) :
    ((List.range n).map f).getD k d = f k := by
  simp [List.getD_eq_getElem?_getD, hk]

theorem replicate_getD_false (n k : Nat) : (List.replicate n false).getD k false = false := by
  by_cases hk : k < n <;> simp [List.getD_eq_getElem?_getD, hk]

theorem gpio_trig_change {n : Nat} {gins : List GpioIn} {t k : Nat} (hk : k < n) (ht : t < gins.length)
    (hmode : modeAt gins t k = true) : trigAt (gpioTrace n gins) t k = changeAt gins t k := by
  unfold trigAt inAt gpioTrace
  rw [gpioDerive_getD n gins _ t ht]
  unfold modeAt gpioInAt at hmode
  unfold changeAt padAt gpioInAt In.trigOf gpioEvIn
  simp only
  rw [range_map_getD _ _ hk]
  unfold gpioTrig
  rw [hmode]
  cases t with
  | zero => simp only [prevPad, replicate_getD_false]; rfl
  | succ t =>
    simp only [prevPad, padAt, gpioInAt, gpioNextD]
    rw [range_map_getD _ _ hk]
    rfl

/-! ### non-interference between pads: everything pad `k` does depends on pad `k` alone -/

/-- Two GPIO inputs that agree on everything that concerns pad `k`: its synchronised value, its mode and edge bits,
    and the bus access restricted to its bit position. -/
def GpioAgreeOn (bw k : Nat) (i₁ i₂ : GpioIn) : Prop :=
  i₁.pads.getD k false = i₂.pads.getD k false ∧ i₁.mode.getD k false = i₂.mode.getD k false ∧
  i₁.edge.getD k false = i₂.edge.getD k false ∧ i₁.we = i₂.we ∧ i₁.adr = i₂.adr ∧
  i₁.datW.testBit (k % bw) = i₂.datW.testBit (k % bw)

def GpioAgreeTraces (bw k : Nat) : List GpioIn → List GpioIn → Prop
  | [], [] => True
  | a :: as, b :: bs => GpioAgreeOn bw k a b ∧ GpioAgreeTraces bw k as bs
  | _, _ => False

theorem gpioDerive_agree (n bw : Nat) (little : Bool) {k : Nat} (hk : k < n) :
    ∀ (g₁ g₂ : List GpioIn) (d₁ d₂ : List Bool), GpioAgreeTraces bw k g₁ g₂ → d₁.getD k false = d₂.getD k false →
      AgreeTraces (gpioCfg n bw little) k (gpioDerive n d₁ g₁) (gpioDerive n d₂ g₂) := by
  intro g₁
  induction g₁ with
  | nil =>
    intro g₂ d₁ d₂ h _
    cases g₂ with
    | nil => trivial
    | cons _ _ => simp [GpioAgreeTraces] at h
  | cons a as ih =>
    intro g₂ d₁ d₂ h hd
    cases g₂ with
    | nil => simp [GpioAgreeTraces] at h
    | cons b bs =>
      obtain ⟨⟨hp, hm, he, hwe, hadr, hdat⟩, hrest⟩ := h
      refine ⟨⟨?_, hwe, hadr, hdat⟩, ih bs _ _ hrest ?_⟩
      · unfold In.trigOf gpioEvIn
        simp only
        rw [range_map_getD _ _ hk, range_map_getD _ _ hk]
        unfold gpioTrig
        rw [hp, hm, he, hd]
      · unfold gpioNextD
        rw [range_map_getD _ _ hk, range_map_getD _ _ hk]
        exact hp

end Litex.Event
