import LitexModel.Event.SocIrq
import LitexProofs.Event.Bus
/-
  C15 helper lemmas for the SoC interrupt vector: the numbers `irqAlloc` hands out are pairwise distinct, below
  `n_locs` and different from the CPU's own lines; with distinct numbers bit `locs[j]` of `cpu.interrupt` is exactly
  the `irq` of manager `j` and every other bit is 0.
-/
namespace Litex.Event
open Litex

theorem irqAdd_spec {nl : Nat} {used : List Nat} {r : Option Nat} {n : Nat} (h : irqAdd nl used r = some n) :
    n < nl ∧ n ∉ used ∧ (∀ m, r = some m → n = m) := by
  cases r with
  | none =>
    have h' : (List.range nl).find? (fun n => !used.contains n) = some n := h
    have h1 := List.find?_some h'
    have h2 := List.mem_of_find?_eq_some h'
    refine ⟨by simpa using h2, ?_, fun m hm => by cases hm⟩
    simpa using h1
  | some m =>
    simp only [irqAdd] at h
    split at h
    · cases h
    · rename_i hc
      cases h
      simp only [Bool.or_eq_true, decide_eq_true_eq, not_or] at hc
      refine ⟨by omega, ?_, fun m' hm => by cases hm; rfl⟩
      simpa using hc.1

/-- `alloc` hands out the LOWEST free number. -/
theorem irqAdd_alloc_least {nl : Nat} {used : List Nat} {n : Nat} (h : irqAdd nl used none = some n) :
    ∀ m, m < n → m ∈ used := by
  intro m hm
  have h' : (List.range nl).find? (fun n => !used.contains n) = some n := h
  rw [List.find?_range_eq_some] at h'
  have := h'.2.2 m hm
  simpa using this

theorem irqAlloc_spec {nl : Nat} :
    ∀ (reqs : List (Option Nat)) (used locs : List Nat), irqAlloc nl used reqs = some locs →
      locs.length = reqs.length ∧ locs.Nodup ∧ (∀ l ∈ locs, l < nl ∧ l ∉ used) ∧
      (∀ (j m : Nat), reqs[j]? = some (some m) → locs[j]? = some m) := by
  intro reqs
  induction reqs with
  | nil =>
    intro used locs h
    simp only [irqAlloc, Option.some.injEq] at h
    subst h
    simp
  | cons r rs ih =>
    intro used locs h
    simp only [irqAlloc] at h
    split at h
    · cases h
    · rename_i n hn
      cases hrest : irqAlloc nl (n :: used) rs with
      | none => simp [hrest] at h
      | some rest =>
        simp only [hrest, Option.map_some, Option.some.injEq] at h
        subst h
        obtain ⟨h1, h2, h3, h4⟩ := ih (n :: used) rest hrest
        obtain ⟨a1, a2, a3⟩ := irqAdd_spec hn
        refine ⟨by simp [h1], ?_, ?_, ?_⟩
        · refine List.nodup_cons.mpr ⟨fun hmem => ?_, h2⟩
          exact (h3 n hmem).2 (by simp)
        · intro l hl
          rcases List.mem_cons.mp hl with rfl | hl
          · exact ⟨a1, a2⟩
          · exact ⟨(h3 l hl).1, fun hu => (h3 l hl).2 (by simp [hu])⟩
        · intro j m hj
          cases j with
          | zero =>
            simp only [List.getElem?_cons_zero, Option.some.injEq] at hj
            simp [a3 m hj]
          | succ j =>
            simp only [List.getElem?_cons_succ] at hj ⊢
            exact h4 j m hj

/-! ### the vector -/

theorem eq_of_mem_of_fst_eq {ps : List (Nat × Bool)} (hnd : (ps.map (·.1)).Nodup) {p q : Nat × Bool}
    (hp : p ∈ ps) (hq : q ∈ ps) (h : p.1 = q.1) : p = q := by
  induction ps with
  | nil => cases hp
  | cons a as ih =>
    simp only [List.map_cons, List.nodup_cons, List.mem_map, not_exists, not_and] at hnd
    rcases List.mem_cons.mp hp with rfl | hp' <;> rcases List.mem_cons.mp hq with rfl | hq'
    · rfl
    · exact absurd h.symm (hnd.1 q hq')
    · exact absurd h (hnd.1 p hp')
    · exact ih hnd.2 hp' hq'

theorem map_fst_zip_nodup {locs : List Nat} {irqs : List Bool} (hnd : locs.Nodup) :
    ((locs.zip irqs).map (·.1)).Nodup := by
  have hsub : List.Sublist ((locs.zip irqs).map (·.1)) locs := by
    induction locs generalizing irqs with
    | nil => simp
    | cons l ls ih =>
      cases irqs with
      | nil => simp
      | cons q qs =>
        simp only [List.zip_cons_cons, List.map_cons]
        exact List.Sublist.cons_cons _ (ih (List.nodup_cons.mp hnd).2)
  exact List.Nodup.sublist hsub hnd

/-- Distinct numbers: bit `locs[j]` is the `irq` of manager `j`. -/
theorem cpuInterruptBit_nodup {locs : List Nat} {irqs : List Bool} (hnd : locs.Nodup) (hlen : locs.length = irqs.length)
    {j : Nat} (hj : j < locs.length) :
    cpuInterruptBit locs irqs locs[j] = irqs[j]'(by omega) := by
  have hmem : (locs[j], irqs[j]'(by omega)) ∈ locs.zip irqs := by
    refine List.mem_iff_getElem.mpr ⟨j, by simp [List.length_zip]; omega, ?_⟩
    simp [List.getElem_zip]
  unfold cpuInterruptBit
  cases hf : (locs.zip irqs).reverse.find? (fun p => p.1 == locs[j]) with
  | none =>
    have := List.find?_eq_none.mp hf (locs[j], irqs[j]'(by omega)) (by simpa using hmem)
    simp at this
  | some p =>
    have h1 := List.find?_some hf
    have h2 : p ∈ locs.zip irqs := by simpa using List.mem_of_find?_eq_some hf
    have := eq_of_mem_of_fst_eq (map_fst_zip_nodup hnd) h2 hmem (by simpa using h1)
    simp [this]

/-- A bit that no peripheral is wired to is 0. -/
theorem cpuInterruptBit_unused {locs : List Nat} {irqs : List Bool} {b : Nat} (hb : b ∉ locs) :
    cpuInterruptBit locs irqs b = false := by
  unfold cpuInterruptBit
  cases hf : (locs.zip irqs).reverse.find? (fun p => p.1 == b) with
  | none => rfl
  | some p =>
    have h1 := List.find?_some hf
    have h2 : p ∈ locs.zip irqs := by simpa using List.mem_of_find?_eq_some hf
    have : p.1 ∈ locs := (List.of_mem_zip (a := p.1) (b := p.2) h2).1
    have hpb : p.1 = b := by simpa using h1
    exact absurd (hpb ▸ this) hb

theorem cpuInterrupt_getD {width : Nat} {locs : List Nat} {irqs : List Bool} {b : Nat} (hb : b < width) :
    (cpuInterrupt width locs irqs).getD b false = cpuInterruptBit locs irqs b := by
  simp [cpuInterrupt, List.getD_eq_getElem?_getD, hb]

/-- The SoC machine steps exactly as the product of its managers (`shared`). -/
theorem socIrq_runFrom (width : Nat) (locs : List Nat) (cs : List Cfg) :
    ∀ (ins : List (List In)) (ss : List St), (socIrq width locs cs).runFrom ss ins = (shared cs).runFrom ss ins := by
  intro ins
  induction ins with
  | nil => intro _; rfl
  | cons i is ih => intro ss; simp only [Machine.runFrom]; exact ih _

end Litex.Event
