import LitexModel.Event.Producers
import LitexProofs.Event.Gpio
/-
  C15 helper lemmas for the event producers (`gpioSync`, `timer`, `uart`): a composite machine whose component `proj s`
  steps as an inner machine on an input computed from the composite state runs that inner machine on the derived
  input trace; the derived trace element of cycle `t`; the trigger waveforms of the producers.
-/
namespace Litex.Event
open Litex

section generic
variable {ι σ ο ι' σ' ο' : Type}

/-- The inputs the inner machine receives while the composite `M` runs over `ins` from `s`. -/
def innerTraceFrom (M : Machine ι σ ο) (f : σ → ι → ι') : σ → List ι → List ι'
  | _, [] => []
  | s, i :: is => f s i :: innerTraceFrom M f (M.next s i) is

theorem innerTraceFrom_length (M : Machine ι σ ο) (f : σ → ι → ι') :
    ∀ (ins : List ι) (s : σ), (innerTraceFrom M f s ins).length = ins.length := by
  intro ins
  induction ins with
  | nil => intro _; rfl
  | cons i is ih => intro s; simp [innerTraceFrom, ih]

theorem run_proj (M : Machine ι σ ο) (M' : Machine ι' σ' ο') (proj : σ → σ') (f : σ → ι → ι')
    (h : ∀ s i, proj (M.next s i) = M'.next (proj s) (f s i)) :
    ∀ (ins : List ι) (s : σ), proj (M.runFrom s ins) = M'.runFrom (proj s) (innerTraceFrom M f s ins) := by
  intro ins
  induction ins with
  | nil => intro s; rfl
  | cons i is ih =>
    intro s
    simp only [Machine.runFrom, innerTraceFrom]
    rw [ih, h]

/-- Element `t` of the derived trace: computed from the composite state in cycle `t` and the input of cycle `t`. -/
theorem innerTraceFrom_getD (M : Machine ι σ ο) (f : σ → ι → ι') (d : ι') (di : ι) :
    ∀ (ins : List ι) (s : σ) (t : Nat), t < ins.length →
      (innerTraceFrom M f s ins).getD t d = f (M.runFrom s (ins.take t)) (ins.getD t di) := by
  intro ins
  induction ins with
  | nil => intro s t ht; simp at ht
  | cons i is ih =>
    intro s t ht
    cases t with
    | zero => simp [innerTraceFrom, Machine.runFrom]
    | succ t =>
      have ht' : t < is.length := by simpa using ht
      simp only [innerTraceFrom, List.getD_cons_succ, List.take_succ_cons, Machine.runFrom]
      exact ih _ t ht'

theorem run_take_succ (M : Machine ι σ ο) (di : ι) (ins : List ι) {t : Nat} (ht : t < ins.length) :
    M.run (ins.take (t + 1)) = M.next (M.run (ins.take t)) (ins.getD t di) := by
  unfold Machine.run
  rw [List.take_succ_eq_append_getElem ht, Machine.runFrom_append]
  simp [Machine.runFrom, List.getD_eq_getElem?_getD, ht]

end generic

/-! ## Timer -/

def TimerIn.idle : TimerIn := { en := false, load := 0, reload := 0, adr := 0, we := false, datW := 0 }
def timerInAt (tins : List TimerIn) (t : Nat) : TimerIn := tins.getD t TimerIn.idle

/-- The counter in cycle `t` (0 at reset), a function of the `_en`/`_load`/`_reload` values of the earlier cycles. -/
def timerValueAt (tins : List TimerIn) : Nat → Nat
  | 0 => 0
  | t + 1 => timerValueNext (timerValueAt tins t) (timerInAt tins t)

/-- The trigger trace the timer's event manager sees. -/
def timerTrace (bw : Nat) (little : Bool) (tins : List TimerIn) : List In :=
  innerTraceFrom (timer bw little) (fun s i => timerEvIn s.value i) (timer bw little).init tins

theorem timer_run_ev (bw : Nat) (little : Bool) (tins : List TimerIn) :
    ((timer bw little).run tins).ev = (evMgr (timerCfg bw little)).run (timerTrace bw little tins) :=
  run_proj (timer bw little) (evMgr (timerCfg bw little)) (·.ev) (fun s i => timerEvIn s.value i)
    (fun _ _ => rfl) tins _

theorem timerTrace_length (bw : Nat) (little : Bool) (tins : List TimerIn) :
    (timerTrace bw little tins).length = tins.length := innerTraceFrom_length _ _ _ _

theorem timer_value_run (bw : Nat) (little : Bool) (tins : List TimerIn) :
    ∀ t, t ≤ tins.length → ((timer bw little).run (tins.take t)).value = timerValueAt tins t := by
  intro t
  induction t with
  | zero => intro _; rfl
  | succ t ih =>
    intro ht
    rw [run_take_succ _ TimerIn.idle tins (by omega)]
    show timerValueNext _ _ = _
    rw [ih (by omega)]
    rfl

theorem timer_trig (bw : Nat) (little : Bool) (tins : List TimerIn) {t : Nat} (ht : t < tins.length) :
    trigAt (timerTrace bw little tins) t 0 = decide (timerValueAt tins t = 0) := by
  unfold trigAt inAt timerTrace
  rw [innerTraceFrom_getD _ _ In.idle TimerIn.idle tins _ t ht]
  have := timer_value_run bw little tins t (by omega)
  unfold Machine.run at this
  simp [In.trigOf, timerEvIn, this]

/-- The bus part of the derived trace is the bus part of the timer's input. -/
theorem timer_trace_bus (bw : Nat) (little : Bool) (tins : List TimerIn) {t : Nat} (ht : t < tins.length) :
    (inAt (timerTrace bw little tins) t).we = (timerInAt tins t).we ∧
    (inAt (timerTrace bw little tins) t).adr = (timerInAt tins t).adr ∧
    (inAt (timerTrace bw little tins) t).datW = (timerInAt tins t).datW := by
  unfold inAt timerTrace
  rw [innerTraceFrom_getD _ _ In.idle TimerIn.idle tins _ t ht]
  exact ⟨rfl, rfl, rfl⟩

theorem timer_cfg_kind (bw : Nat) (little : Bool) : (timerCfg bw little).kind 0 = .rising := rfl
theorem timer_cfg_n (bw : Nat) (little : Bool) : (timerCfg bw little).n = 1 := rfl

/-- Countdown: enabled for `j ≤ v` cycles from a cycle in which the counter holds `v`, it holds `v - j`. -/
theorem timer_countdown (tins : List TimerIn) (t v : Nat) (hv : timerValueAt tins t = v) :
    ∀ j, j ≤ v → (∀ i, i < j → (timerInAt tins (t + i)).en = true) → timerValueAt tins (t + j) = v - j := by
  intro j
  induction j with
  | zero => intro _ _; simpa using hv
  | succ j ih =>
    intro hj hen
    have h1 := ih (by omega) (fun i hi => hen i (by omega))
    have h2 := hen j (by omega)
    rw [show t + (j + 1) = (t + j) + 1 by omega, timerValueAt, h1]
    unfold timerValueNext
    rw [h2]
    have : v - j ≠ 0 := by omega
    simp [this]
    omega

/-! ## UART -/

def UartIn.idle : UartIn :=
  { sinkValid := false, srcReady := false, rxtxRe := false, rxtxWe := false, adr := 0, we := false, datW := 0 }
def uartInAt (uins : List UartIn) (t : Nat) : UartIn := uins.getD t UartIn.idle

section uart
variable (dtx drx : Nat) (rxWe : Bool) (bw : Nat) (little : Bool)

/-- State of the UART model in cycle `t`. -/
def uartStAt (uins : List UartIn) (t : Nat) : UartSt := (uart dtx drx rxWe bw little).run (uins.take t)

def uartTrace (uins : List UartIn) : List In :=
  innerTraceFrom (uart dtx drx rxWe bw little) (uartEvIn dtx) (uart dtx drx rxWe bw little).init uins

theorem uart_run_ev (uins : List UartIn) :
    ((uart dtx drx rxWe bw little).run uins).ev =
      (evMgr (uartCfg bw little)).run (uartTrace dtx drx rxWe bw little uins) :=
  run_proj (uart dtx drx rxWe bw little) (evMgr (uartCfg bw little)) (·.ev) (uartEvIn dtx) (fun _ _ => rfl) uins _

theorem uartTrace_length (uins : List UartIn) : (uartTrace dtx drx rxWe bw little uins).length = uins.length :=
  innerTraceFrom_length _ _ _ _

theorem uartStAt_succ (uins : List UartIn) {t : Nat} (ht : t < uins.length) :
    uartStAt dtx drx rxWe bw little uins (t + 1) =
      (uart dtx drx rxWe bw little).next (uartStAt dtx drx rxWe bw little uins t) (uartInAt uins t) :=
  run_take_succ _ UartIn.idle uins ht

theorem uart_trig_tx (uins : List UartIn) {t : Nat} (ht : t < uins.length) :
    trigAt (uartTrace dtx drx rxWe bw little uins) t 0 = (uartStAt dtx drx rxWe bw little uins t).tx.writable dtx := by
  unfold trigAt inAt uartTrace
  rw [innerTraceFrom_getD _ _ In.idle UartIn.idle uins _ t ht]
  rfl

theorem uart_trig_rx (uins : List UartIn) {t : Nat} (ht : t < uins.length) :
    trigAt (uartTrace dtx drx rxWe bw little uins) t 1 = (uartStAt dtx drx rxWe bw little uins t).rx.rd := by
  unfold trigAt inAt uartTrace
  rw [innerTraceFrom_getD _ _ In.idle UartIn.idle uins _ t ht]
  rfl

/-- The event manager inside the UART in cycle `t` is the generic one on the derived trace. -/
theorem uart_ev_stAt (uins : List UartIn) (t : Nat) :
    (uartStAt dtx drx rxWe bw little uins t).ev = stAt (uartCfg bw little) (uartTrace dtx drx rxWe bw little uins) t := by
  unfold uartStAt stAt uartTrace
  rw [uart_run_ev]
  congr 1
  unfold uartTrace
  -- the derived trace of a prefix is the prefix of the derived trace
  have : ∀ (ins : List UartIn) (s : UartSt) (t : Nat),
      innerTraceFrom (uart dtx drx rxWe bw little) (uartEvIn dtx) s (ins.take t) =
        (innerTraceFrom (uart dtx drx rxWe bw little) (uartEvIn dtx) s ins).take t := by
    intro ins
    induction ins with
    | nil => intro s t; simp [innerTraceFrom]
    | cons i is ih =>
      intro s t
      cases t with
      | zero => simp [innerTraceFrom]
      | succ t => simp [innerTraceFrom, ih]
  exact this uins _ t

end uart

/-- A character pushed into an empty FIFO sits in the inner FIFO one cycle later, whatever the read side does … -/
theorem fifoNext_empty_push {d : Nat} (hd : 0 < d) (re : Bool) :
    fifoNext d FifoSt.empty true re = { lvl := 1, rd := false } := by
  have : (0 != d) = true := by simp; omega
  cases re <;> simp [fifoNext, FifoSt.empty, FifoSt.writable, FifoSt.refill, this]

/-- … and reaches the output register in the cycle after. -/
theorem fifoNext_refill_rd (d : Nat) (we re : Bool) : (fifoNext d { lvl := 1, rd := false } we re).rd = true := by
  cases re <;> simp [fifoNext, FifoSt.refill]

theorem uart_cfg_kind (bw : Nat) (little : Bool) {k : Nat} (hk : k < 2) : (uartCfg bw little).kind k = .rising := by
  match k, hk with
  | 0, _ => rfl
  | 1, _ => rfl
theorem uart_cfg_n (bw : Nat) (little : Bool) : (uartCfg bw little).n = 2 := rfl

/-- The FIFO level never exceeds the depth. -/
theorem fifoNext_le (d : Nat) (f : FifoSt) (we re : Bool) (h : f.lvl ≤ d) : (fifoNext d f we re).lvl ≤ d := by
  unfold fifoNext FifoSt.writable
  by_cases hd : f.lvl = d
  · simp [hd]; split <;> omega
  · have : (f.lvl != d) = true := by simpa using hd
    simp only [this, Bool.and_true]
    split
    · split <;> omega
    · split <;> omega

/-! ## MultiReg + GPIO -/

def GpioRawIn.idle : GpioRawIn := { raw := [], mode := [], edge := [], adr := 0, we := false, datW := 0 }
def gpioRawInAt (gins : List GpioRawIn) (t : Nat) : GpioRawIn := gins.getD t GpioRawIn.idle
def rawAt (gins : List GpioRawIn) (t k : Nat) : Bool := (gpioRawInAt gins t).raw.getD k false

/-- What `_GPIOIRQ` receives: the configuration and bus of the same cycle and the pads after the synchroniser. -/
def syncTrace (n bw : Nat) (little : Bool) (gins : List GpioRawIn) : List GpioIn :=
  innerTraceFrom (gpioSync n bw little) (fun s i => i.toIn s.r1) (gpioSync n bw little).init gins

theorem gpioSync_run_g (n bw : Nat) (little : Bool) (gins : List GpioRawIn) :
    ((gpioSync n bw little).run gins).g = (gpioIrq n bw little).run (syncTrace n bw little gins) :=
  run_proj (gpioSync n bw little) (gpioIrq n bw little) (·.g) (fun s i => i.toIn s.r1) (fun _ _ => rfl) gins _

theorem syncTrace_length (n bw : Nat) (little : Bool) (gins : List GpioRawIn) :
    (syncTrace n bw little gins).length = gins.length := innerTraceFrom_length _ _ _ _

/-- A waveform delayed by one / two cycles, 0 before (reset value of the flip-flops). -/
def delay1 (f : Nat → Bool) : Nat → Bool
  | 0 => false
  | t + 1 => f t
def delay2 (f : Nat → Bool) : Nat → Bool
  | 0 => false
  | 1 => false
  | t + 2 => f t

/-- The two flip-flops in cycle `t`: `r0` = raw pads of cycle `t-1`, `r1` = raw pads of cycle `t-2` (0 before). -/
theorem gpioSync_regs (n bw : Nat) (little : Bool) (gins : List GpioRawIn) {k : Nat} (hk : k < n) :
    ∀ t, t ≤ gins.length →
      (((gpioSync n bw little).run (gins.take t)).r0.getD k false = delay1 (fun t => rawAt gins t k) t) ∧
      (((gpioSync n bw little).run (gins.take t)).r1.getD k false = delay2 (fun t => rawAt gins t k) t) := by
  intro t
  induction t with
  | zero =>
    intro _
    simp [Machine.run, Machine.runFrom, gpioSync, List.getD_eq_getElem?_getD, hk, delay1, delay2]
  | succ t ih =>
    intro ht
    obtain ⟨h0, h1⟩ := ih (by omega)
    rw [run_take_succ _ GpioRawIn.idle gins (by omega)]
    constructor
    · show ((List.range n).map _).getD k false = _
      rw [range_map_getD _ _ hk]
      rfl
    · show ((gpioSync n bw little).run (gins.take t)).r0.getD k false = _
      rw [h0]
      cases t <;> rfl

/-- The pads seen by the IRQ logic are the raw pads two cycles earlier. -/
theorem sync_pad (n bw : Nat) (little : Bool) (gins : List GpioRawIn) {k t : Nat} (hk : k < n) (ht : t < gins.length) :
    padAt (syncTrace n bw little gins) t k = delay2 (fun t => rawAt gins t k) t := by
  unfold padAt gpioInAt syncTrace
  rw [innerTraceFrom_getD _ _ GpioIn.idle GpioRawIn.idle gins _ t ht]
  exact (gpioSync_regs n bw little gins hk t (by omega)).2

/-- The raw pad differs from its value one cycle earlier (0 before the first cycle). -/
def rawChangeAt (gins : List GpioRawIn) (k t : Nat) : Bool := rawAt gins t k != delay1 (fun t => rawAt gins t k) t

/-- A change seen by the IRQ logic is a change of the raw pad two cycles earlier. -/
theorem sync_change (n bw : Nat) (little : Bool) (gins : List GpioRawIn) {k t : Nat} (hk : k < n) (ht : t < gins.length) :
    changeAt (syncTrace n bw little gins) t k = delay2 (rawChangeAt gins k) t := by
  unfold changeAt
  match t with
  | 0 => rw [sync_pad n bw little gins hk ht]; rfl
  | 1 =>
    rw [sync_pad n bw little gins hk ht]
    simp only [prevPad]
    rw [sync_pad n bw little gins hk (by omega)]; rfl
  | t + 2 =>
    rw [sync_pad n bw little gins hk ht]
    simp only [prevPad]
    rw [sync_pad n bw little gins hk (by omega)]
    cases t <;> rfl

theorem sync_mode (n bw : Nat) (little : Bool) (gins : List GpioRawIn) {k t : Nat} (ht : t < gins.length) :
    modeAt (syncTrace n bw little gins) t k = (gpioRawInAt gins t).mode.getD k false := by
  unfold modeAt gpioInAt syncTrace
  rw [innerTraceFrom_getD _ _ GpioIn.idle GpioRawIn.idle gins _ t ht]
  rfl

end Litex.Event
