import LitexProofs.Event.Bus
/-
  C15 — software access disciplines for a `pending` register that spans several bus words.

  `pending.r` keeps, per word, the last value written ("stale words"); a write of the committing word applies
  `pending.r[k]` as the clear of EVERY source `k`, also of those in words this write did not touch.  This file
  characterises exactly which access disciplines are safe:

  * a *transaction* is the run of bus cycles after the previous commit up to and including the next commit;
  * `freshWr` is what the current transaction wrote to a bit position;
  * `SafeCommit` ("fresh or zero"): every one a commit applies was written in its own transaction;
  * sufficiency: under `SafeCommit` the clear is exactly the fresh value (`clear_eq_fresh`), so an event is never
    lost before software acknowledges it (`event_not_lost_until_acked_disciplined`), for any number of words;
  * necessity: a commit that is not safe applies a clear nobody asked for (`stale_commit_spurious_clear`) and
    loses a pending event (`stale_commit_loses_event`); `safe_iff_no_spurious_clear` is the equivalence;
  * the generated whole-register accessors (`WholeRegister`) and every one-word configuration are disciplined.
  Core Lean only.
-/
namespace Litex.Event
open Litex

variable {c : Cfg} {ins : List In} {t k : Nat}

/-! ### definitions -/

/-- The most recent value written to bit position `k` of `pending` within the transaction that ends at cycle
    `t`: cycles `t, t-1, …` down to (not including) the most recent cycle `p < t` that wrote the committing word.
    `none` = this transaction has not written the word holding `k`. -/
def freshWr (c : Cfg) (ins : List In) : Nat → Nat → Option Bool
  | 0, k => wrBit c (inAt ins 0) .pending k
  | t + 1, k => (wrBit c (inAt ins (t + 1)) .pending k).orElse fun _ =>
      if commits c (inAt ins t) then none else freshWr c ins t k

/-- "Fresh or zero": every one that the commit of cycle `t` applies was written in this transaction. -/
def SafeCommit (c : Cfg) (ins : List In) (t : Nat) : Prop :=
  commits c (inAt ins t) = true →
    ∀ k, k < c.n → (lastWr c ins .pending (t + 1) k).getD false = true → freshWr c ins t k = some true

/-- Every commit of the trace is safe. -/
def Disciplined (c : Cfg) (ins : List In) : Prop := ∀ t, t < ins.length → SafeCommit c ins t

/-- Every transaction writes every word of `pending` (what the generated `*_ev_pending_write` accessors do). -/
def WholeRegister (c : Cfg) (ins : List In) : Prop :=
  ∀ t, t < ins.length → commits c (inAt ins t) = true → ∀ k, k < c.n → freshWr c ins t k ≠ none

/-! ### `freshWr` against `lastWr` and the clear -/

/-- A write in cycle `t` itself is fresh. -/
theorem freshWr_of_wr {b : Bool} (h : wrBit c (inAt ins t) .pending k = some b) : freshWr c ins t k = some b := by
  cases t with
  | zero => simpa [freshWr] using h
  | succ t => simp [freshWr, h]

/-- A fresh write is the last write. -/
theorem freshWr_eq_lastWr_of_some {b : Bool} :
    ∀ t, freshWr c ins t k = some b → lastWr c ins .pending (t + 1) k = some b := by
  intro t
  induction t with
  | zero =>
    intro h
    have h' : wrBit c (inAt ins 0) .pending k = some b := by simpa [freshWr] using h
    simp [lastWr, h']
  | succ t ih =>
    intro h
    rw [lastWr]
    rw [freshWr] at h
    cases hw : wrBit c (inAt ins (t + 1)) .pending k with
    | some x => simpa [hw] using h
    | none =>
      cases hc : commits c (inAt ins t) with
      | true => simp [hw, hc] at h
      | false =>
        have h' : freshWr c ins t k = some b := by simpa [hw, hc] using h
        simpa using ih h'

/-- The clear in cycle `t+1`: the commit of cycle `t` applies the last value written to position `k`. -/
theorem clear_eq_commit_lastWr (hk : k < c.n) (ht : t < ins.length) :
    clearAt c ins (t + 1) k = (commits c (inAt ins t) && (lastWr c ins .pending (t + 1) k).getD false) := by
  rw [clear_succ ht, r_eq_lastWr hk (t + 1) (by omega)]

/-! ### disciplines that are safe -/

theorem wholeRegister_disciplined (h : WholeRegister c ins) : Disciplined c ins := by
  intro t ht hc k hk hl
  have hne := h t ht hc k hk
  cases hf : freshWr c ins t k with
  | none => exact absurd hf hne
  | some b =>
    have := freshWr_eq_lastWr_of_some t hf
    rw [this] at hl
    simpa using hl

/-- One word (`n ≤ bus width`): the committing write itself writes every bit, every trace is disciplined. -/
theorem singleWord_disciplined (hn : 0 < c.n) (hw : c.n ≤ c.bw) (ins : List In) : Disciplined c ins := by
  intro t _ hc k hk hl
  rw [commits_single hn hw] at hc
  simp only [Bool.and_eq_true, decide_eq_true_eq] at hc
  have hwr : wrBit c (inAt ins t) .pending k = some ((inAt ins t).datW.testBit k) := by
    rw [wrBit_single hk hw]; simp [hc.1, hc.2]
  rw [lastWr, hwr] at hl
  have hb : (inAt ins t).datW.testBit k = true := by simpa using hl
  rw [freshWr_of_wr hwr, hb]

/-! ### sufficiency: under the discipline the clear is exactly what the transaction wrote -/

theorem clear_only_if_fresh_one (hk : k < c.n) (ht : t < ins.length) (hs : SafeCommit c ins t)
    (hcl : clearAt c ins (t + 1) k = true) : freshWr c ins t k = some true := by
  rw [clear_eq_commit_lastWr hk ht] at hcl
  simp only [Bool.and_eq_true] at hcl
  exact hs hcl.1 k hk hcl.2

theorem clear_eq_fresh (hk : k < c.n) (ht : t < ins.length) (hs : SafeCommit c ins t) :
    clearAt c ins (t + 1) k = (commits c (inAt ins t) && (freshWr c ins t k).getD false) := by
  rw [clear_eq_commit_lastWr hk ht]
  cases hc : commits c (inAt ins t) with
  | false => simp
  | true =>
    cases hl : (lastWr c ins .pending (t + 1) k).getD false with
    | true => simp [hs hc k hk hl]
    | false =>
      cases hf : freshWr c ins t k with
      | none => simp
      | some b =>
        have := freshWr_eq_lastWr_of_some t hf
        rw [this] at hl
        simpa using hl.symm

/-! ### necessity: a commit that is not safe clears what nobody asked for, and loses an event -/

theorem stale_commit_spurious_clear (hk : k < c.n) (ht : t < ins.length)
    (hc : commits c (inAt ins t) = true) (hl : (lastWr c ins .pending (t + 1) k).getD false = true)
    (hf : freshWr c ins t k ≠ some true) :
    clearAt c ins (t + 1) k = true ∧ freshWr c ins t k ≠ some true := by
  refine ⟨?_, hf⟩
  rw [clear_eq_commit_lastWr hk ht, hc, hl]
  rfl

theorem stale_commit_loses_event (hk : k < c.n) (hkind : c.kind k ≠ .level) (ht : t + 1 < ins.length)
    (hc : commits c (inAt ins t) = true) (hl : (lastWr c ins .pending (t + 1) k).getD false = true)
    (_hf : freshWr c ins t k ≠ some true)
    (_hp : pendingAt c ins (t + 1) k = true) (hev : eventAt c ins (t + 1) k = false) :
    pendingAt c ins (t + 2) k = false := by
  have hcl : clearAt c ins (t + 1) k = true := by
    rw [clear_eq_commit_lastWr hk (by omega), hc, hl]; rfl
  rw [pendingAt_of_ne_level hkind, pendReg_succ hk ht, pendingNext_of_ne_level hkind, hcl, hev]
  simp

/-- `SafeCommit` is exactly "no clear is applied that this transaction did not ask for". -/
theorem safe_iff_no_spurious_clear (ht : t < ins.length) :
    SafeCommit c ins t ↔ ∀ k, k < c.n → clearAt c ins (t + 1) k = true → freshWr c ins t k = some true := by
  constructor
  · intro hs k hk hcl
    exact clear_only_if_fresh_one hk ht hs hcl
  · intro h hc k hk hl
    apply h k hk
    rw [clear_eq_commit_lastWr hk ht, hc, hl]
    rfl

/-! ### never lost, for any number of words -/

/-- Under the discipline an event in cycle `u` is pending in every later cycle `T` unless some transaction that
    commits in a cycle `v` with `u ≤ v`, `v + 1 < T` wrote a one to bit `k`. -/
theorem event_not_lost_until_acked_disciplined (hk : k < c.n) (hkind : c.kind k ≠ .level)
    (hd : Disciplined c ins) {u T : Nat} (hu : u < T) (hT : T ≤ ins.length)
    (hev : eventAt c ins u k = true)
    (hno : ∀ v, u ≤ v → v + 1 < T → ¬ (commits c (inAt ins v) = true ∧ freshWr c ins v k = some true)) :
    pendingAt c ins T k = true := by
  rw [pendingAt_of_ne_level hkind, pendReg_iff hk hkind T hT]
  refine ⟨u, hu, hev, fun v h1 h2 => ?_⟩
  obtain ⟨v', rfl⟩ : ∃ v', v = v' + 1 := ⟨v - 1, by omega⟩
  have hv' : v' < ins.length := by omega
  rw [clear_eq_fresh hk hv' (hd v' hv')]
  have := hno v' (by omega) h2
  cases hc : commits c (inAt ins v') with
  | false => simp
  | true =>
    cases hf : freshWr c ins v' k with
    | none => simp
    | some b =>
      cases b with
      | false => simp
      | true => exact absurd ⟨hc, hf⟩ this

/-! ### non-vacuity and the stale-word witness (concrete runs, checked by evaluation) -/

def dWr (adr dat : Nat) (trig : List Bool := []) : In := { trig := trig, adr := adr, we := true, datW := dat }
def dIdle (trig : List Bool := []) : In := { trig := trig, adr := 99, we := false, datW := 0 }

/-- Three sources on a 2-bit bus (`pending` = words [bits 0,1] and [bit 2]); a whole-register write of 0b101 (word 1
    first, then the committing word 0): at the commit every position is fresh, the clear is the fresh value, and
    only the acknowledged sources stop pending. -/
example :
    let c : Cfg := { kinds := [.pulse, .rising, .pulse], bw := 2, little := false }
    let ins := [dIdle [true, true, true], dWr 2 0b1, dWr 3 0b01, dIdle, dIdle]
    commits c (inAt ins 2) = true ∧ commits c (inAt ins 1) = false ∧
    (List.range 3).map (freshWr c ins 2) = [some true, some false, some true] ∧
    (List.range 3).map (freshWr c ins 1) = [none, none, some true] ∧
    (List.range 3).map (clearAt c ins 3) = [true, false, true] ∧
    (List.range 3).map (pendingAt c ins 3) = [true, true, true] ∧
    (List.range 3).map (pendingAt c ins 4) = [false, true, false] := by decide

/-- The stale-word witness (two sources on a 1-bit bus): the whole-register write in cycles 1–2 leaves a one in word
    1 of `pending.r`; the commit of cycle 5 writes word 0 alone (`freshWr … 1 = none`), is not safe, and clears the
    new event of source 1. -/
example :
    let c : Cfg := { kinds := [.pulse, .pulse], bw := 1, little := false }
    let ins := [dIdle [false, true], dWr 2 1, dWr 3 0, dIdle, dIdle [true, true], dWr 3 1, dIdle, dIdle]
    commits c (inAt ins 5) = true ∧ freshWr c ins 5 1 = none ∧ clearAt c ins 6 1 = true ∧
    pendingAt c ins 6 1 = true ∧ pendingAt c ins 7 1 = false := by decide

/-- The same trace is therefore not `Disciplined`, while its first transaction (commit in cycle 2) is safe at
    position 1: the hypotheses of `stale_commit_loses_event` are satisfiable and `SafeCommit` is not trivial. -/
example :
    let c : Cfg := { kinds := [.pulse, .pulse], bw := 1, little := false }
    let ins := [dIdle [false, true], dWr 2 1, dWr 3 0, dIdle, dIdle [true, true], dWr 3 1, dIdle, dIdle]
    (lastWr c ins .pending 6 1).getD false = true ∧ freshWr c ins 5 1 ≠ some true ∧
    eventAt c ins 6 1 = false ∧ c.kind 1 ≠ .level ∧
    commits c (inAt ins 2) = true ∧ freshWr c ins 2 1 = some true ∧ freshWr c ins 2 0 = some false := by decide

/-- … and it is not `Disciplined` (the commit of cycle 5 is not safe at position 1). -/
example :
    let c : Cfg := { kinds := [.pulse, .pulse], bw := 1, little := false }
    let ins := [dIdle [false, true], dWr 2 1, dWr 3 0, dIdle, dIdle [true, true], dWr 3 1, dIdle, dIdle]
    ¬ Disciplined c ins := by
  intro c ins h
  have h5 := h 5 (by decide) (by decide) 1 (by decide) (by decide)
  revert h5
  decide

/-- Non-vacuity of `wholeRegister_disciplined`: a trace of two whole-register transactions (three sources, two
    words) satisfies `WholeRegister`, hence is `Disciplined`. -/
example :
    let c : Cfg := { kinds := [.pulse, .rising, .pulse], bw := 2, little := false }
    let ins := [dIdle [true, true, true], dWr 2 0b1, dWr 3 0b01, dIdle, dWr 2 0, dWr 3 0b10, dIdle]
    WholeRegister c ins ∧ Disciplined c ins := by
  intro c ins
  have h : WholeRegister c ins := by unfold WholeRegister; decide
  exact ⟨h, wholeRegister_disciplined h⟩

end Litex.Event
