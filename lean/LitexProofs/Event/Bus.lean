import LitexProofs.Event.Basic
/-
  C15 helper lemmas about the bus side: address decoding when the registers fit one bus word, the value read
  back (`packFrom`), bit-locality (non-interference), and the SharedIRQ product.
-/
namespace Litex.Event
open Litex

variable {c : Cfg} {ins : List In} {t k : Nat}

/-! ### registers that fit one bus word (`n ≤ bus width`): status = index 0, pending = 1, enable = 2 -/

theorem nwords_one (hn : 0 < c.n) (hw : c.n ≤ c.bw) : c.nwords = 1 := by
  unfold Cfg.nwords
  have hb : 0 < c.bw := by omega
  rw [Nat.div_eq_iff hb]
  omega

theorem decode_single (hn : 0 < c.n) (hw : c.n ≤ c.bw) (a : Nat) :
    c.decode a = if a = 0 then some (Reg.status, 0) else if a = 1 then some (Reg.pending, 0)
                 else if a = 2 then some (Reg.enable, 0) else none := by
  unfold Cfg.decode
  simp only [nwords_one hn hw, Nat.mod_one, Nat.div_one]
  by_cases h0 : a = 0
  · subst h0; simp
  by_cases h1 : a = 1
  · subst h1; simp
  by_cases h2 : a = 2
  · subst h2; simp
  · have : ¬ a < 3 * 1 := by omega
    simp [h0, h1, h2, this]

theorem commitWord_single (hn : 0 < c.n) (hw : c.n ≤ c.bw) : c.commitWord = 0 := by
  unfold Cfg.commitWord; rw [nwords_one hn hw]; simp

/-- One-word case: the bus writes bit `k` of `reg` exactly when it writes that register's address. -/
theorem wrBit_single (hk : k < c.n) (hw : c.n ≤ c.bw) (i : In) (reg : Reg) :
    wrBit c i reg k =
      if i.we = true ∧ i.adr = (match reg with | .status => 0 | .pending => 1 | .enable => 2)
      then some (i.datW.testBit k) else none := by
  have hn : 0 < c.n := by omega
  have hkb : k < c.bw := by omega
  unfold wrBit
  rw [decode_single hn hw, Nat.div_eq_of_lt hkb, Nat.mod_eq_of_lt hkb]
  cases hwe : i.we
  · simp
  · by_cases h0 : i.adr = 0
    · cases reg <;> simp [h0]
    by_cases h1 : i.adr = 1
    · cases reg <;> simp [h1]
    by_cases h2 : i.adr = 2
    · cases reg <;> simp [h2]
    · cases reg <;> simp [h0, h1, h2]

theorem commits_single (hn : 0 < c.n) (hw : c.n ≤ c.bw) (i : In) :
    commits c i = (i.we && decide (i.adr = 1)) := by
  unfold commits
  rw [decode_single hn hw, commitWord_single hn hw]
  by_cases h0 : i.adr = 0
  · simp [h0]
  by_cases h1 : i.adr = 1
  · simp [h1]
  by_cases h2 : i.adr = 2
  · simp [h2]
  · simp [h0, h1, h2]

/-! ### the value read back -/

theorem packFrom_lt (f : Nat → Bool) (n : Nat) : ∀ w lo, packFrom f n w lo < 2 ^ w := by
  intro w
  induction w with
  | zero => intro lo; simp [packFrom]
  | succ w ih =>
    intro lo
    have := ih (lo + 1)
    unfold packFrom
    split <;> omega

theorem packFrom_testBit (f : Nat → Bool) (n : Nat) :
    ∀ w lo j, (packFrom f n w lo).testBit j = (decide (j < w) && decide (lo + j < n) && f (lo + j)) := by
  intro w
  induction w with
  | zero => intro lo j; simp [packFrom]
  | succ w ih =>
    intro lo j
    unfold packFrom
    cases j with
    | zero =>
      rw [Nat.testBit_zero]
      by_cases h : (lo < n && f lo) = true
      · have h' := h; simp only [Bool.and_eq_true, decide_eq_true_eq] at h'
        rw [if_pos h]; simp [h'.1, h'.2]
      · rw [if_neg h]
        have : (decide (lo < n) && f lo) = false := by simpa using h
        simp [this]
    | succ j =>
      rw [Nat.testBit_succ]
      have hdiv : ((if (lo < n && f lo) = true then 1 else 0) + 2 * packFrom f n w (lo + 1)) / 2
            = packFrom f n w (lo + 1) := by
        split <;> omega
      rw [hdiv, ih]
      have : lo + 1 + j = lo + (j + 1) := by omega
      simp [this]

/-! ### bit-locality: everything source `k` does depends only on its own trigger and its own bit position -/

/-- Two inputs that agree on everything that concerns source `k`. -/
def AgreeOn (c : Cfg) (k : Nat) (i₁ i₂ : In) : Prop :=
  i₁.trigOf k = i₂.trigOf k ∧ i₁.we = i₂.we ∧ i₁.adr = i₂.adr ∧
    i₁.datW.testBit (k % c.bw) = i₂.datW.testBit (k % c.bw)

theorem wrBit_agree {i₁ i₂ : In} (h : AgreeOn c k i₁ i₂) (reg : Reg) : wrBit c i₁ reg k = wrBit c i₂ reg k := by
  obtain ⟨_, h2, h3, h4⟩ := h
  unfold wrBit
  rw [h2, h3, h4]

theorem commits_agree {i₁ i₂ : In} (h : AgreeOn c k i₁ i₂) : commits c i₁ = commits c i₂ := by
  obtain ⟨_, h2, h3, _⟩ := h
  unfold commits
  rw [h2, h3]

theorem nextBit_agree {s₁ s₂ : St} {i₁ i₂ : In} (hb : s₁.bit k = s₂.bit k) (hre : s₁.re = s₂.re)
    (h : AgreeOn c k i₁ i₂) : nextBit c s₁ i₁ k = nextBit c s₂ i₂ k := by
  unfold nextBit eventBit St.clear
  rw [wrBit_agree h, wrBit_agree h, hb, hre, h.1]

/-- Two input traces of the same length that agree, cycle by cycle, on everything that concerns source `k`. -/
def AgreeTraces (c : Cfg) (k : Nat) : List In → List In → Prop
  | [], [] => True
  | a :: as, b :: bs => AgreeOn c k a b ∧ AgreeTraces c k as bs
  | _, _ => False

theorem runFrom_agree (hk : k < c.n) :
    ∀ (ins₁ ins₂ : List In) (s₁ s₂ : St), AgreeTraces c k ins₁ ins₂ →
      s₁.bit k = s₂.bit k → s₁.re = s₂.re →
      ((evMgr c).runFrom s₁ ins₁).bit k = ((evMgr c).runFrom s₂ ins₂).bit k ∧
      ((evMgr c).runFrom s₁ ins₁).re = ((evMgr c).runFrom s₂ ins₂).re := by
  intro ins₁
  induction ins₁ with
  | nil =>
    intro ins₂ s₁ s₂ h hb hre
    cases ins₂ with
    | nil => exact ⟨hb, hre⟩
    | cons _ _ => simp [AgreeTraces] at h
  | cons a as ih =>
    intro ins₂ s₁ s₂ h hb hre
    cases ins₂ with
    | nil => simp [AgreeTraces] at h
    | cons b bs =>
      obtain ⟨hi, hrest⟩ := h
      simp only [Machine.runFrom]
      apply ih bs _ _ hrest
      · rw [next_bit _ _ hk, next_bit _ _ hk]; exact nextBit_agree hb hre hi
      · rw [next_re, next_re]; exact commits_agree hi

/-! ### SharedIRQ -/

theorem sharedOuts_getElem :
    ∀ (cs : List Cfg) (ss : List St) (is : List In) (j : Nat) (hc : j < cs.length) (hs : j < ss.length)
      (hi : j < is.length) (h : j < (sharedOuts cs ss is).length),
      (sharedOuts cs ss is)[j] = (evMgr cs[j]).out ss[j] is[j] := by
  intro cs
  induction cs with
  | nil => intro ss is j hc; simp at hc
  | cons c cs ih =>
    intro ss is j hc hs hi h
    match ss, is with
    | [], _ => simp at hs
    | _ :: _, [] => simp at hi
    | s :: ss, i :: is =>
      cases j with
      | zero => simp [sharedOuts]
      | succ j =>
        simp only [sharedOuts, List.getElem_cons_succ]
        exact ih ss is j (by simpa using hc) (by simpa using hs) (by simpa using hi) _

theorem sharedOuts_length :
    ∀ (cs : List Cfg) (ss : List St) (is : List In), ss.length = cs.length → is.length = cs.length →
      (sharedOuts cs ss is).length = cs.length := by
  intro cs
  induction cs with
  | nil => intro ss is _ _; simp [sharedOuts]
  | cons c cs ih =>
    intro ss is hs hi
    match ss, is with
    | [], _ => simp at hs
    | _ :: _, [] => simp at hi
    | s :: ss, i :: is => simp [sharedOuts, ih ss is (by simpa using hs) (by simpa using hi)]

theorem sharedNext_length :
    ∀ (cs : List Cfg) (ss : List St) (is : List In), ss.length = cs.length → is.length = cs.length →
      (sharedNext cs ss is).length = cs.length := by
  intro cs
  induction cs with
  | nil => intro ss is _ _; simp [sharedNext]
  | cons c cs ih =>
    intro ss is hs hi
    match ss, is with
    | [], _ => simp at hs
    | _ :: _, [] => simp at hi
    | s :: ss, i :: is => simp [sharedNext, ih ss is (by simpa using hs) (by simpa using hi)]

theorem sharedNext_getElem :
    ∀ (cs : List Cfg) (ss : List St) (is : List In) (j : Nat) (hc : j < cs.length) (hs : j < ss.length)
      (hi : j < is.length) (h : j < (sharedNext cs ss is).length),
      (sharedNext cs ss is)[j] = (evMgr cs[j]).next ss[j] is[j] := by
  intro cs
  induction cs with
  | nil => intro ss is j hc; simp at hc
  | cons c cs ih =>
    intro ss is j hc hs hi h
    match ss, is with
    | [], _ => simp at hs
    | _ :: _, [] => simp at hi
    | s :: ss, i :: is =>
      cases j with
      | zero => simp [sharedNext]
      | succ j =>
        simp only [sharedNext, List.getElem_cons_succ]
        exact ih ss is j (by simpa using hc) (by simpa using hs) (by simpa using hi) _

end Litex.Event
