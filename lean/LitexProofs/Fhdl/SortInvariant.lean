import LitexProofs.Fhdl.BlockEquiv
/-
  The side conditions and well-formedness predicates do not depend on the order of the case items, so they
  may be stated on the statements as written (dictionary order) although the printer sorts the items.
-/
namespace Litex.C01

/-! #### insertItem -/

theorem itemsOk_insertItem (k : Int) (kw : Nat) (ks : Bool) (body : Stmts) :
    ∀ items, itemsOk (insertItem k kw ks body items) = itemsOk (.cons k kw ks body items)
  | .nil => rfl
  | .cons k' kw' ks' body' rest => by
    have ih := itemsOk_insertItem k kw ks body rest
    simp only [insertItem]
    split
    · rfl
    · simp only [itemsOk] at ih ⊢
      rw [ih]
      simp only [Bool.and_assoc, Bool.and_left_comm]

theorem itemsIn_insertItem (W : Nat) (sg : Bool) (k : Int) (kw : Nat) (ks : Bool) (body : Stmts) :
    ∀ items, itemsIn W sg (insertItem k kw ks body items) = itemsIn W sg (.cons k kw ks body items)
  | .nil => rfl
  | .cons k' kw' ks' body' rest => by
    have ih := itemsIn_insertItem W sg k kw ks body rest
    simp only [insertItem]
    split
    · rfl
    · simp only [itemsIn] at ih ⊢
      rw [ih]
      simp only [Bool.and_left_comm]

theorem itemsWidth_insertItem (k : Int) (kw : Nat) (ks : Bool) (body : Stmts) :
    ∀ items, itemsWidth (printItems (insertItem k kw ks body items)) = itemsWidth (printItems (.cons k kw ks body items))
  | .nil => rfl
  | .cons k' kw' ks' body' rest => by
    have ih := itemsWidth_insertItem k kw ks body rest
    simp only [insertItem]
    split
    · rfl
    · simp only [printItems, itemsWidth] at ih ⊢
      rw [ih]
      omega

theorem itemsSigned_insertItem (k : Int) (kw : Nat) (ks : Bool) (body : Stmts) :
    ∀ items, itemsSigned (printItems (insertItem k kw ks body items)) = itemsSigned (printItems (.cons k kw ks body items))
  | .nil => rfl
  | .cons k' kw' ks' body' rest => by
    have ih := itemsSigned_insertItem k kw ks body rest
    simp only [insertItem]
    split
    · rfl
    · simp only [printItems, itemsSigned] at ih ⊢
      rw [ih]
      simp only [Bool.and_left_comm]

theorem fitsItems_insertItem (ρ : Env) (k : Int) (kw : Nat) (ks : Bool) (body : Stmts) :
    ∀ items, fitsItems ρ (insertItem k kw ks body items) = fitsItems ρ (.cons k kw ks body items)
  | .nil => rfl
  | .cons k' kw' ks' body' rest => by
    have ih := fitsItems_insertItem ρ k kw ks body rest
    simp only [insertItem]
    split
    · rfl
    · simp only [fitsItems] at ih ⊢
      rw [ih]
      simp only [Bool.and_left_comm]

theorem wfItems_insertItem (wd : Nat → Nat) (k : Int) (kw : Nat) (ks : Bool) (body : Stmts) :
    ∀ items, wfItems wd (insertItem k kw ks body items) ↔ wfItems wd (.cons k kw ks body items)
  | .nil => Iff.rfl
  | .cons k' kw' ks' body' rest => by
    have ih := wfItems_insertItem wd k kw ks body rest
    simp only [insertItem]
    split
    · exact Iff.rfl
    · simp only [wfItems] at ih ⊢
      rw [ih]
      constructor
      · rintro ⟨a, b, c⟩; exact ⟨b, a, c⟩
      · rintro ⟨a, b, c⟩; exact ⟨b, a, c⟩

/-! #### sortItems -/

theorem itemsOk_sortItems : ∀ items, itemsOk (sortItems items) = itemsOk items
  | .nil => rfl
  | .cons k kw ks body rest => by
    simp only [sortItems, itemsOk_insertItem, itemsOk, itemsOk_sortItems rest]

theorem itemsIn_sortItems (W : Nat) (sg : Bool) : ∀ items, itemsIn W sg (sortItems items) = itemsIn W sg items
  | .nil => rfl
  | .cons k kw ks body rest => by
    simp only [sortItems, itemsIn_insertItem, itemsIn, itemsIn_sortItems W sg rest]

theorem itemsWidth_sortItems : ∀ items, itemsWidth (printItems (sortItems items)) = itemsWidth (printItems items)
  | .nil => rfl
  | .cons k kw ks body rest => by
    simp only [sortItems, itemsWidth_insertItem, printItems, itemsWidth, itemsWidth_sortItems rest]

theorem itemsSigned_sortItems : ∀ items, itemsSigned (printItems (sortItems items)) = itemsSigned (printItems items)
  | .nil => rfl
  | .cons k kw ks body rest => by
    simp only [sortItems, itemsSigned_insertItem, printItems, itemsSigned, itemsSigned_sortItems rest]

theorem fitsItems_sortItems (ρ : Env) : ∀ items, fitsItems ρ (sortItems items) = fitsItems ρ items
  | .nil => rfl
  | .cons k kw ks body rest => by
    simp only [sortItems, fitsItems_insertItem, fitsItems, fitsItems_sortItems ρ rest]

theorem wfItems_sortItems (wd : Nat → Nat) : ∀ items, wfItems wd (sortItems items) ↔ wfItems wd items
  | .nil => Iff.rfl
  | .cons k kw ks body rest => by
    simp only [sortItems, wfItems_insertItem, wfItems, wfItems_sortItems wd rest]

/-! #### sortBodies (changes the bodies only) -/

theorem itemsOk_sortBodies : ∀ items, itemsOk (sortBodies items) = itemsOk items
  | .nil => rfl
  | .cons k kw ks body rest => by simp only [sortBodies, itemsOk, itemsOk_sortBodies rest]

theorem itemsIn_sortBodies (W : Nat) (sg : Bool) : ∀ items, itemsIn W sg (sortBodies items) = itemsIn W sg items
  | .nil => rfl
  | .cons k kw ks body rest => by simp only [sortBodies, itemsIn, itemsIn_sortBodies W sg rest]

theorem itemsWidth_sortBodies : ∀ items, itemsWidth (printItems (sortBodies items)) = itemsWidth (printItems items)
  | .nil => rfl
  | .cons k kw ks body rest => by simp only [sortBodies, printItems, itemsWidth, itemsWidth_sortBodies rest]

theorem itemsSigned_sortBodies : ∀ items, itemsSigned (printItems (sortBodies items)) = itemsSigned (printItems items)
  | .nil => rfl
  | .cons k kw ks body rest => by simp only [sortBodies, printItems, itemsSigned, itemsSigned_sortBodies rest]

theorem fitsCase_sort (ρ : Env) (test : Expr) (items : Items) :
    fitsCase ρ test (sortItems (sortBodies items)) = fitsCase ρ test items := by
  simp only [fitsCase, itemsWidth_sortItems, itemsWidth_sortBodies, itemsSigned_sortItems, itemsSigned_sortBodies,
    itemsOk_sortItems, itemsOk_sortBodies, itemsIn_sortItems, itemsIn_sortBodies]

mutual
theorem fitsS_sortS (ρ : Env) : ∀ s, fitsS ρ (sortS s) = fitsS ρ s
  | .assign l r => rfl
  | .ite c t f => by simp only [sortS, fitsS, fitsSs_sortSs ρ t, fitsSs_sortSs ρ f]
  | .case test items hasD d => by
    simp only [sortS, fitsS, fitsCase_sort, fitsItems_sortItems, fitsItems_sortBodies ρ items, fitsSs_sortSs ρ d]
theorem fitsSs_sortSs (ρ : Env) : ∀ ss, fitsSs ρ (sortSs ss) = fitsSs ρ ss
  | .nil => rfl
  | .cons s ss => by simp only [sortSs, fitsSs, fitsS_sortS ρ s, fitsSs_sortSs ρ ss]
theorem fitsItems_sortBodies (ρ : Env) : ∀ items, fitsItems ρ (sortBodies items) = fitsItems ρ items
  | .nil => rfl
  | .cons k kw ks body rest => by
    simp only [sortBodies, fitsItems, fitsSs_sortSs ρ body, fitsItems_sortBodies ρ rest]
end

mutual
theorem wfS_sortS (wd : Nat → Nat) : ∀ s, wfS wd (sortS s) ↔ wfS wd s
  | .assign l r => Iff.rfl
  | .ite c t f => by simp only [sortS, wfS, wfSs_sortSs wd t, wfSs_sortSs wd f]
  | .case test items hasD d => by
    simp only [sortS, wfS, wfItems_sortItems, wfItems_sortBodies wd items, wfSs_sortSs wd d]
theorem wfSs_sortSs (wd : Nat → Nat) : ∀ ss, wfSs wd (sortSs ss) ↔ wfSs wd ss
  | .nil => Iff.rfl
  | .cons s ss => by simp only [sortSs, wfSs, wfS_sortS wd s, wfSs_sortSs wd ss]
theorem wfItems_sortBodies (wd : Nat → Nat) : ∀ items, wfItems wd (sortBodies items) ↔ wfItems wd items
  | .nil => Iff.rfl
  | .cons k kw ks body rest => by
    simp only [sortBodies, wfItems, wfSs_sortSs wd body, wfItems_sortBodies wd rest]
end

/-- **Block theorem** for `_generate_node`: the printed statements (case items sorted) keep `Rel`. -/
theorem rel_printStmts (wd : Nat → Nat) (ρ : Env) (ss : Stmts) (m : Mods) (p : Pending)
    (h : Rel wd ρ m p) (hd : distinctSs ss) (hf : fitsSs ρ ss = true) (hw : wfSs wd ss) :
    Rel wd ρ (execFs ρ ss m) (execVs ρ (printStmts ss) p) := by
  rw [← execFs_sortSs ρ ss hd m]
  exact rel_execSs wd ρ (sortSs ss) m p h (by rw [fitsSs_sortSs]; exact hf) ((wfSs_sortSs wd ss).2 hw)

end Litex.C01
