import LitexModel.Fhdl.Memory
import LitexProofs.Fhdl.IntLemmas
/-
  One clock edge of the memory.py port template = one edge of the simulator's MemoryToArray semantics.
-/
namespace Litex.C01

theorem writeF_eq_writeV (c : MemCfg) (i : MemIn) (word : Int) (hc : memCfgOk c = true) :
    writeF c i word = writeV c i word := by
  simp only [memCfgOk, Bool.and_eq_true, Bool.or_eq_true, decide_eq_true_eq] at hc
  unfold writeF writeV MemCfg.gran
  by_cases hg : c.g = 0
  · simp [hg]
  · have hlt : c.g < c.w := by rcases hc.1 with h | h; exact absurd h hg; exact h
    have hne : c.g ≠ c.w := by omega
    simp only [hg, if_false, hne]
    rfl

theorem idxF_of_lt (c : MemCfg) {a : Nat} (h : a < c.depth) : idxF c a = a := by
  unfold idxF; omega

/-- NO_CHANGE read condition: the simulator's `~we` (masked) and the text's `!we` agree when the enables are
    all clear or all set. -/
theorem nc_cond (n : Nat) (hn : 0 < n) (we : Int) (h : tn n we = 0 ∨ tn n we = p2 n - 1) :
    (tn n (notI we) ≠ 0) ↔ (tn n we = 0) := by
  have hnot := tn_not n we
  have hp : (2 : Int) ≤ p2 n := by
    have := p2_le (Nat.succ_le_of_lt hn)
    have h1 : p2 (Nat.succ 0) = 2 := rfl
    omega
  rcases h with h | h
  · rw [h] at hnot; constructor
    · intro _; exact h
    · intro _; omega
  · rw [h] at hnot; constructor
    · intro hh; omega
    · intro hh; omega

theorem memEdge_equiv (c : MemCfg) (st : MemSt) (i : MemIn) (hc : memCfgOk c = true)
    (hs : memStOk c st = true) (hi : memInOk c i = true) : memEdgeF c st i = memEdgeV c st i := by
  have hc' := hc
  simp only [memCfgOk, Bool.and_eq_true, Bool.or_eq_true, decide_eq_true_eq] at hc'
  simp only [memStOk, Bool.and_eq_true, decide_eq_true_eq] at hs
  simp only [memInOk, Bool.and_eq_true, Bool.or_eq_true, decide_eq_true_eq, Bool.not_eq_true'] at hi
  obtain ⟨⟨hadr, hrst⟩, hnc⟩ := hi
  unfold memEdgeF memEdgeV
  simp only [hrst, Bool.false_eq_true, if_false, idxF_of_lt c hadr, writeF_eq_writeV c i _ hc, hs.1, hadr, if_true]
  cases hm : c.mode <;> simp only []
  -- NO_CHANGE
  have hall : tn c.nwe i.we = 0 ∨ tn c.nwe i.we = p2 c.nwe - 1 := by
    rcases hnc with (h | h) | h
    · exact absurd hm h
    · exact Or.inl h
    · exact Or.inr h
  have := nc_cond c.nwe hc'.2 i.we hall
  by_cases hz : tn c.nwe i.we = 0
  · simp [hz, this.2 hz]
  · have : ¬ (tn c.nwe (notI i.we) ≠ 0) := fun hh => hz (this.1 hh)
    simp [hz, this]

theorem memStOk_edgeV (c : MemCfg) (st : MemSt) (i : MemIn) (hs : memStOk c st = true) (hi : memInOk c i = true) :
    memStOk c (memEdgeV c st i) = true := by
  simp only [memStOk, Bool.and_eq_true, decide_eq_true_eq] at hs ⊢
  simp only [memInOk, Bool.and_eq_true, decide_eq_true_eq] at hi
  have hadr := hi.1.1
  have hlen : (st.words.set i.adr (writeV c i (st.words.getD i.adr 0))).length = c.depth := by
    rw [List.length_set]; exact hs.1
  unfold memEdgeV
  cases hm : c.mode <;> simp only [hs.1, hadr, if_true, hlen, true_and]
  · split
    · exact hadr
    · exact hs.2
  · exact hs.2
  · exact hs.2
  · exact hs.2

theorem memRead_equiv (c : MemCfg) (st : MemSt) (adr : Nat) (hs : memStOk c st = true) (ha : adr < c.depth) :
    memReadF c st adr = memReadV c st adr := by
  simp only [memStOk, Bool.and_eq_true, decide_eq_true_eq] at hs
  unfold memReadF memReadV
  cases c.mode <;> simp only [idxF_of_lt c ha, idxF_of_lt c hs.2]

theorem memRun_equiv (c : MemCfg) (hc : memCfgOk c = true) :
    ∀ (is : List MemIn) (st : MemSt), memStOk c st = true → (∀ i ∈ is, memInOk c i = true) →
      memRunF c st is = memRunV c st is
  | [], _, _, _ => rfl
  | i :: is, st, hs, hi => by
    have hi0 := hi i (by simp)
    have he := memEdge_equiv c st i hc hs hi0
    have hs' := memStOk_edgeV c st i hs hi0
    have hadr : i.adr < c.depth := by
      simp only [memInOk, Bool.and_eq_true, decide_eq_true_eq] at hi0; exact hi0.1.1
    simp only [memRunF, memRunV, he]
    rw [memRead_equiv c _ i.adr hs' hadr, memRun_equiv c hc is _ hs' (fun j hj => hi j (by simp [hj]))]

theorem memStOk_init (c : MemCfg) (hd : 0 < c.depth) : memStOk c (memInit c) = true := by
  simp only [memStOk, memInit, padInit, Bool.and_eq_true, decide_eq_true_eq, List.length_append, List.length_map,
    List.length_take, List.length_replicate]
  refine ⟨?_, decide_eq_true hd⟩
  omega

end Litex.C01
