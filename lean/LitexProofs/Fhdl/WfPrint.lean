import LitexProofs.Verilog.Congr
import LitexProofs.Fhdl.ModuleEquiv
/-
  Well-formedness (every signal node carries its declared width) is carried by the printer from the FHDL
  tree to the Verilog text.
-/
namespace Litex.C01

mutual
def wfE (wd : Nat → Nat) : Expr → Prop
  | .const _ _ _ => True
  | .sig i w _ => w = wd i
  | .op1 _ a => wfE wd a
  | .op2 _ a b => wfE wd a ∧ wfE wd b
  | .mux c a b => wfE wd c ∧ wfE wd a ∧ wfE wd b
  | .slice a _ _ => wfE wd a
  | .cat l => wfEL wd l
  | .rep a _ => wfE wd a
def wfEL (wd : Nat → Nat) : List Expr → Prop
  | [] => True
  | e :: es => wfE wd e ∧ wfEL wd es
end

theorem wfV_toSignedV (wd : Nat → Nat) (r : VExpr) (h : wfV wd r) : wfV wd (toSignedV r) := by
  simp only [toSignedV, wfV, wfVL]; exact ⟨trivial, h, trivial⟩

theorem wfV_ite_prom (wd : Nat → Nat) (b : Bool) (r : VExpr) (h : wfV wd r) :
    wfV wd (if b then toSignedV r else r) := by
  cases b
  · simpa using h
  · simpa using wfV_toSignedV wd r h

theorem wfVL_append (wd : Nat → Nat) : ∀ (xs : List VExpr) (e : VExpr), wfVL wd xs → wfV wd e → wfVL wd (xs ++ [e])
  | [], e, _, he => by simp only [List.nil_append, wfVL]; exact ⟨he, trivial⟩
  | x :: xs, e, h, he => by
    simp only [wfVL] at h
    simp only [List.cons_append, wfVL]
    exact ⟨h.1, wfVL_append wd xs e h.2 he⟩

theorem wfV_printConstU (wd : Nat → Nat) (v : Int) (w : Nat) : wfV wd (printConstU v w) := by
  unfold printConstU; split <;> simp [wfV]

theorem wfV_printConst (wd : Nat → Nat) (v : Int) (w : Nat) (s : Bool) : wfV wd (printConst v w s).1 := by
  cases s <;> simp [printConst, wfV, wfV_printConstU]

mutual
theorem wfV_printE (wd : Nat → Nat) : ∀ (e : Expr), wfE wd e → wfV wd (printE e).1
  | .const v w s, _ => by simp only [printE]; exact wfV_printConst wd v w s
  | .sig i w s, h => by simp only [wfE] at h; simp only [printE, wfV]; omega
  | .op1 .neg a, h => by
    simp only [wfE] at h
    simp only [printE, wfV]
    cases hs : (printE a).2 <;> simp only [if_true, Bool.false_eq_true, if_false]
    · exact wfV_toSignedV wd _ (wfV_printE wd a h)
    · exact wfV_printE wd a h
  | .op1 .not a, h => by
    simp only [wfE] at h
    simp only [printE, wfV]
    exact wfV_printE wd a h
  | .op2 o a b, h => by
    simp only [wfE] at h
    simp only [printE]
    split
    · simp only [wfV]; exact ⟨wfV_printE wd a h.1, wfV_printE wd b h.2⟩
    · simp only [wfV]
      exact ⟨wfV_ite_prom wd _ _ (wfV_printE wd a h.1), wfV_ite_prom wd _ _ (wfV_printE wd b h.2)⟩
  | .mux c a b, h => by
    simp only [wfE] at h
    simp only [printE, wfV]
    exact ⟨wfV_printE wd c h.1, wfV_ite_prom wd _ _ (wfV_printE wd a h.2.1),
      wfV_ite_prom wd _ _ (wfV_printE wd b h.2.2)⟩
  | .slice a lo hi, h => by
    simp only [wfE] at h
    have := wfV_printE wd a h
    simp only [printE]
    split
    · cases (printE a).2 <;> simpa [wfV, wfVL] using this
    · split <;> simpa [wfV] using this
  | .cat l, h => by
    simp only [wfE] at h
    simp only [printE, wfV]
    exact wfVL_printList wd l h
  | .rep a n, h => by
    simp only [wfE] at h
    simp only [printE, wfV]
    exact wfV_printE wd a h
theorem wfVL_printList (wd : Nat → Nat) : ∀ (l : List Expr), wfEL wd l → wfVL wd (printList l).reverse
  | [], _ => by simp [printList, wfVL]
  | e :: es, h => by
    simp only [wfEL] at h
    simp only [printList, List.reverse_cons]
    exact wfVL_append wd _ _ (wfVL_printList wd es h.2) (wfV_printE wd e h.1)
end

/-! ### statements -/

mutual
def wfSE (wd : Nat → Nat) : Stmt → Prop
  | .assign l r => wfE wd l ∧ wfE wd r
  | .ite c t f => wfE wd c ∧ wfSEs wd t ∧ wfSEs wd f
  | .case test items _ d => wfE wd test ∧ wfSEItems wd items ∧ wfSEs wd d
def wfSEs (wd : Nat → Nat) : Stmts → Prop
  | .nil => True
  | .cons s ss => wfSE wd s ∧ wfSEs wd ss
def wfSEItems (wd : Nat → Nat) : Items → Prop
  | .nil => True
  | .cons _ _ _ body rest => wfSEs wd body ∧ wfSEItems wd rest
end

theorem wfLeaf_of_wfE (wd : Nat → Nat) (e : Expr) (h : wfE wd e) : wfLeaf wd e := by
  cases e with
  | sig i w s => simpa [wfE, wfLeaf] using h
  | slice a lo hi =>
    cases a <;> simp only [wfLeaf]
    simpa [wfE] using h
  | _ => simp [wfLeaf]

theorem wfTarget_of_wfE (wd : Nat → Nat) (l : Expr) (h : wfE wd l) : wfTarget wd l := by
  cases l with
  | cat es =>
    simp only [wfE] at h
    simp only [wfTarget]
    induction es with
    | nil => simp
    | cons e es ih =>
      simp only [wfEL] at h
      intro x hx
      simp only [List.mem_cons] at hx
      rcases hx with rfl | hx
      · exact wfLeaf_of_wfE wd _ h.1
      · exact ih h.2 x hx
  | sig i w s => exact wfLeaf_of_wfE wd _ h
  | slice a lo hi => exact wfLeaf_of_wfE wd _ h
  | const v w s => simp [wfTarget, wfLeaf]
  | op1 o a => simp [wfTarget, wfLeaf]
  | op2 o a b => simp [wfTarget, wfLeaf]
  | mux c a b => simp [wfTarget, wfLeaf]
  | rep a n => simp [wfTarget, wfLeaf]

mutual
theorem wfS_of_wfSE (wd : Nat → Nat) : ∀ s, wfSE wd s → wfS wd s
  | .assign l r, h => by simp only [wfSE] at h; simp only [wfS]; exact wfTarget_of_wfE wd l h.1
  | .ite c t f, h => by
    simp only [wfSE] at h; simp only [wfS]
    exact ⟨wfSs_of_wfSEs wd t h.2.1, wfSs_of_wfSEs wd f h.2.2⟩
  | .case test items hd d, h => by
    simp only [wfSE] at h; simp only [wfS]
    exact ⟨wfItems_of_wfSEItems wd items h.2.1, wfSs_of_wfSEs wd d h.2.2⟩
theorem wfSs_of_wfSEs (wd : Nat → Nat) : ∀ ss, wfSEs wd ss → wfSs wd ss
  | .nil, _ => trivial
  | .cons s ss, h => by
    simp only [wfSEs] at h; simp only [wfSs]
    exact ⟨wfS_of_wfSE wd s h.1, wfSs_of_wfSEs wd ss h.2⟩
theorem wfItems_of_wfSEItems (wd : Nat → Nat) : ∀ items, wfSEItems wd items → wfItems wd items
  | .nil, _ => trivial
  | .cons k kw ks body rest, h => by
    simp only [wfSEItems] at h; simp only [wfItems]
    exact ⟨wfSs_of_wfSEs wd body h.1, wfItems_of_wfSEItems wd rest h.2⟩
end

mutual
theorem wfVS_printS (wd : Nat → Nat) : ∀ s, wfSE wd s → wfVS wd (printS s)
  | .assign l r, h => by simp only [wfSE] at h; simp only [printS, wfVS]; exact wfV_printE wd r h.2
  | .ite c t f, h => by
    simp only [wfSE] at h; simp only [printS, wfVS]
    exact ⟨wfV_printE wd c h.1, wfVSs_printSs wd t h.2.1, wfVSs_printSs wd f h.2.2⟩
  | .case test items hd d, h => by
    simp only [wfSE] at h; simp only [printS, wfVS]
    exact ⟨wfV_printE wd test h.1, wfVItems_printItems wd items h.2.1, wfVSs_printSs wd d h.2.2⟩
theorem wfVSs_printSs (wd : Nat → Nat) : ∀ ss, wfSEs wd ss → wfVSs wd (printSs ss)
  | .nil, _ => by simp [printSs, wfVSs]
  | .cons s ss, h => by
    simp only [wfSEs] at h
    have hgen : wfVSs wd (.cons (printS s) (printSs ss)) := by
      simp only [wfVSs]; exact ⟨wfVS_printS wd s h.1, wfVSs_printSs wd ss h.2⟩
    cases s with
    | assign l r => simpa [printSs] using hgen
    | ite c t f => simpa [printSs] using hgen
    | case test items hasD d =>
      cases items with
      | cons k kw ks body rest => simpa [printSs] using hgen
      | nil =>
        cases hasD
        · simp only [printSs]; exact wfVSs_printSs wd ss h.2
        · simpa [printSs] using hgen
theorem wfVItems_printItems (wd : Nat → Nat) : ∀ items, wfSEItems wd items → wfVItems wd (printItems items)
  | .nil, _ => by simp [printItems, wfVItems]
  | .cons k kw ks body rest, h => by
    simp only [wfSEItems] at h
    simp only [printItems, wfVItems]
    exact ⟨wfV_printConstU wd k kw, wfVSs_printSs wd body h.1, wfVItems_printItems wd rest h.2⟩
end

/-! sorting keeps `wfSE` -/

theorem wfSEItems_insertItem (wd : Nat → Nat) (k : Int) (kw : Nat) (ks : Bool) (body : Stmts) :
    ∀ items, wfSEItems wd (insertItem k kw ks body items) ↔ wfSEItems wd (.cons k kw ks body items)
  | .nil => Iff.rfl
  | .cons k' kw' ks' body' rest => by
    have ih := wfSEItems_insertItem wd k kw ks body rest
    simp only [insertItem]
    split
    · exact Iff.rfl
    · simp only [wfSEItems] at ih ⊢
      rw [ih]
      constructor
      · rintro ⟨a, b, c⟩; exact ⟨b, a, c⟩
      · rintro ⟨a, b, c⟩; exact ⟨b, a, c⟩

theorem wfSEItems_sortItems (wd : Nat → Nat) : ∀ items, wfSEItems wd (sortItems items) ↔ wfSEItems wd items
  | .nil => Iff.rfl
  | .cons k kw ks body rest => by
    simp only [sortItems, wfSEItems_insertItem, wfSEItems, wfSEItems_sortItems wd rest]

mutual
theorem wfSE_sortS (wd : Nat → Nat) : ∀ s, wfSE wd (sortS s) ↔ wfSE wd s
  | .assign l r => Iff.rfl
  | .ite c t f => by simp only [sortS, wfSE, wfSEs_sortSs wd t, wfSEs_sortSs wd f]
  | .case test items hasD d => by
    simp only [sortS, wfSE, wfSEItems_sortItems, wfSEItems_sortBodies wd items, wfSEs_sortSs wd d]
theorem wfSEs_sortSs (wd : Nat → Nat) : ∀ ss, wfSEs wd (sortSs ss) ↔ wfSEs wd ss
  | .nil => Iff.rfl
  | .cons s ss => by simp only [sortSs, wfSEs, wfSE_sortS wd s, wfSEs_sortSs wd ss]
theorem wfSEItems_sortBodies (wd : Nat → Nat) : ∀ items, wfSEItems wd (sortBodies items) ↔ wfSEItems wd items
  | .nil => Iff.rfl
  | .cons k kw ks body rest => by
    simp only [sortBodies, wfSEItems, wfSEs_sortSs wd body, wfSEItems_sortBodies wd rest]
end

theorem wfVSs_printStmts (wd : Nat → Nat) (ss : Stmts) (h : wfSEs wd ss) : wfVSs wd (printStmts ss) :=
  wfVSs_printSs wd _ ((wfSEs_sortSs wd ss).2 h)

theorem wfVSs_append (wd : Nat → Nat) : ∀ (a b : VStmts), wfVSs wd a → wfVSs wd b → wfVSs wd (VStmts.append a b)
  | .nil, b, _, hb => hb
  | .cons s ss, b, ha, hb => by
    simp only [wfVSs] at ha
    simp only [VStmts.append, wfVSs]
    exact ⟨ha.1, wfVSs_append wd ss b ha.2 hb⟩

theorem wfSEs_resetStmts (sigs : Array SigDecl) : ∀ (l : List Nat), wfSEs (wdOf sigs) (resetStmts sigs l)
  | [] => trivial
  | i :: is => by
    simp only [resetStmts, wfSEs, wfSE, wfE, wdOf, widthOf]
    exact ⟨⟨trivial, trivial⟩, wfSEs_resetStmts sigs is⟩

end Litex.C01
