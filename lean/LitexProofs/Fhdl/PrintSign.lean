import LitexProofs.Fhdl.BlockEquiv
/-
  The printer's own sign flag (second component of `_generate_expression`, which decides where
  `$signed({1'd0, x})` promotions are inserted) agrees with the self-determined type IEEE 1364 gives the printed
  text — since the repairs of `_generate_constant` (signed literals), `_generate_operator` (comparisons unsigned)
  (comparisons unsigned, shifts typed by their left operand) and `_generate_slice` (selects unsigned, 1-bit signed
  operands wrapped) — for every expression.
-/
namespace Litex.C01

theorem selfSigned_toSignedV (r : VExpr) : selfSigned (toSignedV r) = true := rfl

theorem selfSigned_prom (b : Bool) (r : VExpr) (s : Bool) (h : s = selfSigned r) :
    selfSigned (if b then toSignedV r else r) = (b || s) := by
  cases b <;> simp [selfSigned_toSignedV, h]

theorem printE_sign : ∀ (e : Expr), (printE e).2 = selfSigned (printE e).1
  | .const v w s => by
    cases s <;> simp [printE, printConst, selfSigned, selfSigned_printConstU]
  | .sig i w s => by simp [printE, selfSigned]
  | .op1 .neg a => by
    have ih := printE_sign a
    simp only [printE, selfSigned]
    cases hs : (printE a).2
    · simp [selfSigned_toSignedV]
    · rw [hs] at ih; simp [← ih]
  | .op1 .not a => by
    simpa [printE, selfSigned] using printE_sign a
  | .op2 o a b => by
    have iha := printE_sign a
    have ihb := printE_sign b
    simp only [printE]
    by_cases hsft : o.isShift = true
    · have hv : (vop o).isCmp = false := by cases o <;> simp_all [vop, VBin.isCmp, Op2.isShift]
      have hvs : (vop o).isShift = true := by cases o <;> simp_all [vop, VBin.isShift, Op2.isShift]
      simp only [hsft, if_true, selfSigned, hv, hvs, Bool.false_eq_true, if_false, ← iha]
    · have hsft' : o.isShift = false := by simpa using hsft
      simp only [hsft', Bool.false_eq_true, if_false]
      by_cases hc : o.isCmp = true
      · have hv : (vop o).isCmp = true := by cases o <;> simp_all [vop, VBin.isCmp, Op2.isCmp]
        simp [selfSigned, hv, hc]
      · have hc' : o.isCmp = false := by simpa using hc
        have hv : (vop o).isCmp = false := by cases o <;> simp_all [vop, VBin.isCmp, Op2.isCmp]
        have hvs : (vop o).isShift = false := by cases o <;> simp_all [vop, VBin.isShift, Op2.isShift]
        simp only [selfSigned, hv, hvs, Bool.false_eq_true, if_false, hc', Bool.not_false, Bool.true_and]
        rw [selfSigned_prom _ _ _ iha, selfSigned_prom _ _ _ ihb]
        cases (printE a).2 <;> cases (printE b).2 <;> rfl
  | .mux c a b => by
    have iha := printE_sign a
    have ihb := printE_sign b
    simp only [printE, selfSigned]
    rw [selfSigned_prom _ _ _ iha, selfSigned_prom _ _ _ ihb]
    cases (printE a).2 <;> cases (printE b).2 <;> rfl
  | .slice a lo hi => by
    have ih := printE_sign a
    simp only [printE]
    split
    · cases hs : (printE a).2
      · rw [hs] at ih; simp [← ih]
      · simp [selfSigned]
    · split <;> simp [selfSigned]
  | .cat l => by simp [printE, selfSigned]
  | .rep a n => by simp [printE, selfSigned]

end Litex.C01
