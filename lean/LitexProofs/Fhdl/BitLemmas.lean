import LitexProofs.Fhdl.IntLemmas
/-
  Bit-level characterisation of the integer and/or/xor of `IntBits.lean`: bit `i` of an integer (two's
  complement, infinitely sign-extended), and truncation commuting with the three operators.
-/
namespace Litex.C01

/-- Bit `i` of the infinite two's-complement expansion. -/
def ibit : Int → Nat → Bool
  | .ofNat a, i => a.testBit i
  | .negSucc n, i => !n.testBit i

/-- The `W`-bit pattern of `x` as a natural number. -/
def tnNat (W : Nat) : Int → Nat
  | .ofNat a => a % 2 ^ W
  | .negSucc n => 2 ^ W - (n % 2 ^ W + 1)

theorem tn_eq_tnNat (W : Nat) (x : Int) : tn W x = (tnNat W x : Int) := by
  cases x with
  | ofNat a =>
    show (a : Int) % p2 W = ((a % 2 ^ W : Nat) : Int)
    rw [← p2_natCast]; exact (Int.natCast_mod a (2 ^ W)).symm
  | negSucc n =>
    show Int.negSucc n % p2 W = ((2 ^ W - (n % 2 ^ W + 1) : Nat) : Int)
    rw [Int.negSucc_emod n (p2_pos W), ← p2_natCast, ← Int.natCast_mod]
    have : n % 2 ^ W < 2 ^ W := Nat.mod_lt _ (Nat.two_pow_pos W)
    omega

theorem testBit_tnNat (W : Nat) (x : Int) (i : Nat) :
    (tnNat W x).testBit i = (decide (i < W) && ibit x i) := by
  cases x with
  | ofNat a => simp [tnNat, ibit, Nat.testBit_mod_two_pow]
  | negSucc n =>
    have h : n % 2 ^ W < 2 ^ W := Nat.mod_lt _ (Nat.two_pow_pos W)
    simp only [tnNat, ibit, Nat.testBit_two_pow_sub_succ h, Nat.testBit_mod_two_pow]
    cases decide (i < W) <;> simp

theorem ibit_landI (x y : Int) (i : Nat) : ibit (landI x y) i = (ibit x i && ibit y i) := by
  cases x <;> cases y <;> simp [landI, ibit, Nat.testBit_and, Nat.testBit_or, Nat.testBit_xor] <;>
    (rename_i a b; cases a.testBit i <;> cases b.testBit i <;> rfl)

theorem ibit_lorI (x y : Int) (i : Nat) : ibit (lorI x y) i = (ibit x i || ibit y i) := by
  cases x <;> cases y <;> simp [lorI, ibit, Nat.testBit_and, Nat.testBit_or, Nat.testBit_xor] <;>
    (rename_i a b; cases a.testBit i <;> cases b.testBit i <;> rfl)

theorem ibit_xorI (x y : Int) (i : Nat) : ibit (xorI x y) i = (ibit x i ^^ ibit y i) := by
  cases x <;> cases y <;> simp [xorI, ibit, Nat.testBit_xor]

theorem tnNat_natCast (W : Nat) (a : Nat) : tnNat W (a : Int) = a % 2 ^ W := rfl

theorem tn_landI (W : Nat) (x y : Int) : landI (tn W x) (tn W y) = tn W (landI x y) := by
  rw [tn_eq_tnNat W x, tn_eq_tnNat W y, tn_eq_tnNat W (landI x y)]
  show Int.ofNat (tnNat W x &&& tnNat W y) = _
  congr 1
  apply Nat.eq_of_testBit_eq
  intro i
  simp only [Nat.testBit_and, testBit_tnNat, ibit_landI]
  cases decide (i < W) <;> simp

theorem tn_lorI (W : Nat) (x y : Int) : lorI (tn W x) (tn W y) = tn W (lorI x y) := by
  rw [tn_eq_tnNat W x, tn_eq_tnNat W y, tn_eq_tnNat W (lorI x y)]
  show Int.ofNat (tnNat W x ||| tnNat W y) = _
  congr 1
  apply Nat.eq_of_testBit_eq
  intro i
  simp only [Nat.testBit_or, testBit_tnNat, ibit_lorI]
  cases decide (i < W) <;> simp

theorem tn_xorI (W : Nat) (x y : Int) : xorI (tn W x) (tn W y) = tn W (xorI x y) := by
  rw [tn_eq_tnNat W x, tn_eq_tnNat W y, tn_eq_tnNat W (xorI x y)]
  show Int.ofNat (tnNat W x ^^^ tnNat W y) = _
  congr 1
  apply Nat.eq_of_testBit_eq
  intro i
  simp only [Nat.testBit_xor, testBit_tnNat, ibit_xorI]
  cases decide (i < W) <;> simp

end Litex.C01
