import LitexProofs.Fhdl.WfPrint
/-
  Module level: one comb evaluation + commit, the settle loop and a clock edge of the printed module keep the
  Verilog bit-vector state equal to the bit patterns of the simulator state.
-/
namespace Litex.C01

/-- The Verilog state holds, for every signal, the declared-width bit pattern of the simulator's value. -/
def StRel (sigs : Array SigDecl) (aF aV : Array Int) : Prop :=
  aV.size = aF.size ∧ ∀ i, aV.getD i 0 = tn (wdOf sigs i) (aF.getD i 0)

theorem getD_setIfInBounds (a : Array Int) (i j : Nat) (v : Int) :
    (a.setIfInBounds i v).getD j 0 = if i = j ∧ i < a.size then v else a.getD j 0 := by
  simp only [Array.getD_eq_getD_getElem?, Array.getElem?_setIfInBounds]
  by_cases hij : i = j
  · subst hij
    by_cases hi : i < a.size
    · simp [hi]
    · simp [hi]
  · simp [hij]

theorem commitF_size (a : Array Int) : ∀ (m : Mods), (commitF a m).size = a.size
  | [] => rfl
  | iv :: m => by
    simp only [commitF, List.foldr_cons, Array.size_setIfInBounds]
    exact commitF_size a m

theorem commitF_getD (a : Array Int) (i : Nat) (hi : i < a.size) :
    ∀ (m : Mods), (commitF a m).getD i 0 = readPost (envA a) m i
  | [] => by simp [commitF, readPost, lookupM, envA]
  | (j, v) :: m => by
    have ih := commitF_getD a i hi m
    have hs := commitF_size a m
    simp only [commitF, List.foldr_cons] at ih hs ⊢
    rw [getD_setIfInBounds, readPost_cons, hs]
    by_cases hji : j = i
    · subst hji; simp [hi]
    · simp [hji, ih]

theorem commitV_size (sigs : Array SigDecl) (a : Array Int) : ∀ (p : Pending), (commitV sigs a p).size = a.size
  | [] => rfl
  | u :: p => by
    simp only [commitV, List.foldr_cons, Array.size_setIfInBounds]
    exact commitV_size sigs a p

theorem commitV_getD (sigs : Array SigDecl) (a : Array Int) (i : Nat) (hi : i < a.size) :
    ∀ (p : Pending), (commitV sigs a p).getD i 0 = applyPending i (wdOf sigs i) (a.getD i 0) p
  | [] => by simp [commitV, applyPending]
  | u :: p => by
    have ih := commitV_getD sigs a i hi p
    have hs := commitV_size sigs a p
    simp only [commitV, List.foldr_cons] at ih hs ⊢
    rw [getD_setIfInBounds, hs]
    simp only [applyPending]
    by_cases hui : u.id = i
    · simp only [hui, true_and, hi, if_true, ih, wdOf]
    · simp only [hui, false_and, if_false]
      exact ih

theorem getD_of_ge (a : Array Int) (i : Nat) (hi : ¬ i < a.size) : a.getD i 0 = 0 := by
  simp [Array.getD_eq_getD_getElem?, Array.getElem?_eq_none (Nat.le_of_not_lt hi)]

/-- Commit turns corresponding tables into corresponding states. -/
theorem stRel_commit {sigs : Array SigDecl} {aF aV : Array Int} {m : Mods} {p : Pending}
    (h : StRel sigs aF aV) (hr : Rel (wdOf sigs) (envA aF) m p) :
    StRel sigs (commitF aF m) (commitV sigs aV p) := by
  refine ⟨by rw [commitV_size, commitF_size]; exact h.1, ?_⟩
  intro i
  by_cases hi : i < aF.size
  · rw [commitV_getD sigs aV i (by rw [h.1]; exact hi), commitF_getD aF i hi, h.2 i]
    exact hr i
  · rw [getD_of_ge _ i (by rw [commitV_size, h.1]; exact hi), getD_of_ge _ i (by rw [commitF_size]; exact hi)]
    simp [tn]

theorem envA_bits {sigs : Array SigDecl} {aF aV : Array Int} (h : StRel sigs aF aV) :
    envA aV = bitsEnv (wdOf sigs) (envA aF) := by
  funext i
  simp only [envA, bitsEnv]
  exact h.2 i

/-! ### comb pass -/

/-- What a comb group must satisfy in state `ρ`. -/
def GroupOk (sigs : Array SigDecl) (ρ : Env) (g : CombGroup) : Prop :=
  wfSEs (wdOf sigs) g.stmts ∧ distinctSs g.stmts ∧ fitsSs ρ g.stmts = true ∧
  resetsOk sigs (sortByName sigs g.targets) = true ∧
  (useWire g.stmts = none ∨
    ∃ i w s r, g.stmts = .cons (.assign (.sig i w s) r) .nil ∧ g.targets = [i])

def combStepF (sigs : Array SigDecl) (ρ : Env) (m : Mods) (g : CombGroup) : Mods :=
  execFs ρ g.stmts (execFs ρ (resetStmts sigs (sortByName sigs g.targets)) m)

def combStepV (ρ : Nat → Int) (p : Pending) (it : VItem) : Pending :=
  match it with
  | .assign l r => nbaAssign l (assignV ρ (selfWidth l) r) p
  | .comb body => execVs ρ body p
  | .sync _ _ => p

theorem combPassF_eq (f : FModule) (a : Array Int) :
    combPassF f a = f.comb.foldl (combStepF f.sigs (envA a)) [] := rfl

theorem combPassV_eq (items : List VItem) (a : Array Int) :
    combPassV items a = items.foldl (combStepV (envA a)) [] := by
  unfold combPassV
  congr 1

theorem group_step (sigs : Array SigDecl) (ρ : Env) (g : CombGroup) (m : Mods) (p : Pending)
    (h : Rel (wdOf sigs) ρ m p) (hg : GroupOk sigs ρ g) :
    Rel (wdOf sigs) ρ (combStepF sigs ρ m g)
      (combStepV (bitsEnv (wdOf sigs) ρ) p (printCombGroup sigs g)) := by
  obtain ⟨hwf, hd, hf, hr, hshape⟩ := hg
  rcases hshape with hnone | ⟨i, w, s, r, hst, htg⟩
  · -- always @(*) block
    have hprint : printCombGroup sigs g =
        .comb (VStmts.append (printSs (resetStmts sigs (sortByName sigs g.targets))) (printStmts g.stmts)) := by
      simp only [printCombGroup, hnone]
    rw [hprint]
    simp only [combStepV, combStepF]
    have hwfV : wfVSs (wdOf sigs)
        (VStmts.append (printSs (resetStmts sigs (sortByName sigs g.targets))) (printStmts g.stmts)) := by
      apply wfVSs_append
      · have := wfVSs_printStmts (wdOf sigs) _ (wfSEs_resetStmts sigs (sortByName sigs g.targets))
        unfold printStmts at this
        rwa [sortSs_resetStmts] at this
      · exact wfVSs_printStmts _ _ hwf
    rw [execVs_congr _ ρ _ p hwfV]
    exact comb_block_equiv sigs ρ g m p _ hprint h hr hd hf (wfSs_of_wfSEs _ _ hwf)
  · -- continuous assignment
    have hg' : g = { targets := [i], stmts := .cons (.assign (.sig i w s) r) .nil } := by
      cases g; simp_all
    subst hg'
    simp only [fitsSs, fitsS, fitsAssign, Bool.and_eq_true, targetOk, leafOk, decide_eq_true_eq] at hf
    simp only [wfSEs, wfSE, wfE] at hwf
    have hsw : selfWidth (printE (Expr.sig i w s)).1 = w := by simp [printE, selfWidth]
    rw [hsw] at hf
    have := wire_group_equiv sigs ρ i w s r m p h hwf.1.1 hf.1.1 hf.1.2
    simp only at this
    rw [this.1]
    simp only [combStepV, combStepF, selfWidth]
    rw [assignV_congr _ ρ _ _ (wfV_printE _ r hwf.1.2)]
    exact this.2

theorem rel_comb_fold (sigs : Array SigDecl) (ρ : Env) :
    ∀ (gs : List CombGroup) (m : Mods) (p : Pending), Rel (wdOf sigs) ρ m p → (∀ g ∈ gs, GroupOk sigs ρ g) →
      Rel (wdOf sigs) ρ (gs.foldl (combStepF sigs ρ) m)
        ((gs.map (printCombGroup sigs)).foldl (combStepV (bitsEnv (wdOf sigs) ρ)) p)
  | [], m, p, h, _ => by simpa using h
  | g :: gs, m, p, h, hg => by
    simp only [List.foldl_cons, List.map_cons]
    exact rel_comb_fold sigs ρ gs _ _ (group_step sigs ρ g m p h (hg g (by simp)))
      (fun g' hg' => hg g' (by simp [hg']))

theorem combStepV_sync_fold (ρ : Nat → Int) (ds : List SyncDom) (p : Pending) :
    (ds.map (fun d => VItem.sync d.clk (printStmts d.stmts))).foldl (combStepV ρ) p = p := by
  induction ds generalizing p with
  | nil => rfl
  | cons d ds ih => simp only [List.map_cons, List.foldl_cons, combStepV]; exact ih p

/-- One comb evaluation of the printed module corresponds to one comb evaluation of the simulator. -/
theorem rel_combPass (f : FModule) (aF aV : Array Int) (h : StRel f.sigs aF aV)
    (hg : ∀ g ∈ f.comb, GroupOk f.sigs (envA aF) g) :
    Rel (wdOf f.sigs) (envA aF) (combPassF f aF) (combPassV (printModule f) aV) := by
  rw [combPassF_eq, combPassV_eq, envA_bits h]
  unfold printModule
  rw [List.foldl_append, combStepV_sync_fold]
  exact rel_comb_fold f.sigs (envA aF) f.comb [] [] (rel_nil _ _) hg

theorem stRel_iter (f : FModule) (aF aV : Array Int) (h : StRel f.sigs aF aV)
    (hg : ∀ g ∈ f.comb, GroupOk f.sigs (envA aF) g) :
    StRel f.sigs (iterF f aF) (iterV f.sigs (printModule f) aV) :=
  stRel_commit h (rel_combPass f aF aV h hg)

/-! ### clock edge -/

def DomOk (sigs : Array SigDecl) (ρ : Env) (d : SyncDom) : Prop :=
  wfSEs (wdOf sigs) d.stmts ∧ distinctSs d.stmts ∧ fitsSs ρ d.stmts = true

def syncStepF (ρ : Env) (clks : List Nat) (m : Mods) (d : SyncDom) : Mods :=
  if clks.contains d.clk then execFs ρ d.stmts m else m

def syncStepV (ρ : Nat → Int) (clks : List Nat) (p : Pending) (it : VItem) : Pending :=
  match it with
  | .sync clk body => if clks.contains clk then execVs ρ body p else p
  | _ => p

theorem syncPassV_eq (items : List VItem) (a : Array Int) (clks : List Nat) :
    syncPassV items a clks = items.foldl (syncStepV (envA a) clks) [] := by
  unfold syncPassV
  congr 1

theorem syncStepV_comb_fold (sigs : Array SigDecl) (ρ : Nat → Int) (clks : List Nat) (gs : List CombGroup) (p : Pending) :
    (gs.map (printCombGroup sigs)).foldl (syncStepV ρ clks) p = p := by
  induction gs generalizing p with
  | nil => rfl
  | cons g gs ih =>
    simp only [List.map_cons, List.foldl_cons]
    have : syncStepV ρ clks p (printCombGroup sigs g) = p := by
      unfold printCombGroup
      split <;> rfl
    rw [this]
    exact ih p

theorem rel_sync_fold (sigs : Array SigDecl) (ρ : Env) (clks : List Nat) :
    ∀ (ds : List SyncDom) (m : Mods) (p : Pending), Rel (wdOf sigs) ρ m p → (∀ d ∈ ds, DomOk sigs ρ d) →
      Rel (wdOf sigs) ρ (ds.foldl (syncStepF ρ clks) m)
        ((ds.map (fun d => VItem.sync d.clk (printStmts d.stmts))).foldl (syncStepV (bitsEnv (wdOf sigs) ρ) clks) p)
  | [], m, p, h, _ => by simpa using h
  | d :: ds, m, p, h, hd => by
    simp only [List.foldl_cons, List.map_cons]
    apply rel_sync_fold sigs ρ clks ds _ _ _ (fun d' hd' => hd d' (by simp [hd']))
    obtain ⟨hwf, hdist, hf⟩ := hd d (by simp)
    simp only [syncStepF, syncStepV]
    split
    · rw [execVs_congr _ ρ _ p (wfVSs_printStmts _ _ hwf)]
      exact sync_block_equiv _ ρ d m p h hdist hf (wfSs_of_wfSEs _ _ hwf)
    · exact h

/-- A rising edge of the clocks `clks`: the registers of the printed module take the bit patterns of the
    simulator's registers. -/
theorem stRel_sync (f : FModule) (aF aV : Array Int) (clks : List Nat) (h : StRel f.sigs aF aV)
    (hd : ∀ d ∈ sortDoms f.sync, DomOk f.sigs (envA aF) d) :
    StRel f.sigs (commitF aF (syncPassF f aF clks)) (commitV f.sigs aV (syncPassV (printModule f) aV clks)) := by
  apply stRel_commit h
  rw [syncPassV_eq, envA_bits h]
  unfold printModule syncPassF
  rw [List.foldl_append, syncStepV_comb_fold]
  exact rel_sync_fold f.sigs (envA aF) clks (sortDoms f.sync) [] [] (rel_nil _ _) hd

/-! ### settle loop -/

theorem stRel_eq_of_eq {sigs : Array SigDecl} {aF aV aV' : Array Int}
    (h : StRel sigs aF aV) (h' : StRel sigs aF aV') : aV' = aV := by
  apply Array.ext (by rw [h.1, h'.1])
  intro i h1 h2
  have e1 := h.2 i
  have e2 := h'.2 i
  simp only [Array.getD_eq_getD_getElem?, Array.getElem?_eq_getElem h1, Array.getElem?_eq_getElem h2,
    Option.getD_some] at e1 e2
  rw [e1, e2]

theorem settleV_fix (sigs : Array SigDecl) (items : List VItem) (b : Array Int) (hfix : iterV sigs items b = b) :
    ∀ fuel, settleV sigs items fuel b = b
  | 0 => rfl
  | fuel + 1 => by simp [settleV, hfix]

/-- The comb side conditions hold in every state the simulator's settle loop visits. -/
def SettleOk (f : FModule) : Nat → Array Int → Prop
  | 0, _ => True
  | fuel + 1, a => (∀ g ∈ f.comb, GroupOk f.sigs (envA a) g) ∧ SettleOk f fuel (iterF f a)

/-- **Settle.**  If the simulator's comb propagation reaches its fix-point within `fuel` rounds, the printed
    module's settles in the corresponding state. -/
theorem stRel_settle (f : FModule) :
    ∀ (fuel : Nat) (aF aV : Array Int), StRel f.sigs aF aV → SettleOk f fuel aF →
      iterF f (settleF f fuel aF) = settleF f fuel aF →
      StRel f.sigs (settleF f fuel aF) (settleV f.sigs (printModule f) fuel aV)
  | 0, aF, aV, h, _, _ => by simpa [settleF, settleV] using h
  | fuel + 1, aF, aV, h, hok, hfix => by
    simp only [SettleOk] at hok
    have hstep := stRel_iter f aF aV h hok.1
    by_cases hF : iterF f aF = aF
    · -- simulator already stable: so is the text
      have hV : iterV f.sigs (printModule f) aV = aV := by
        rw [hF] at hstep
        exact stRel_eq_of_eq h hstep
      simp only [settleF, settleV, hF, hV, beq_self_eq_true, if_true]
      exact h
    · have hF' : (iterF f aF == aF) = false := by simpa using hF
      simp only [settleF, hF', Bool.false_eq_true, if_false] at hfix ⊢
      have ih := stRel_settle f fuel (iterF f aF) (iterV f.sigs (printModule f) aV) hstep hok.2 hfix
      by_cases hV : iterV f.sigs (printModule f) aV = aV
      · -- the text stabilised earlier: it stays there
        simp only [settleV, hV, beq_self_eq_true, if_true]
        rw [hV] at ih
        rwa [settleV_fix _ _ aV hV fuel] at ih
      · have hV' : (iterV f.sigs (printModule f) aV == aV) = false := by simpa using hV
        simp only [settleV, hV', Bool.false_eq_true, if_false]
        exact ih

/-! ### whole cycles and runs -/

theorem stRel_setInputs (sigs : Array SigDecl) :
    ∀ (ins : List (Nat × Int)) (aF aV : Array Int), StRel sigs aF aV →
      StRel sigs (setInputsF sigs aF ins) (setInputsV sigs aV ins)
  | [], aF, aV, h => h
  | (i, x) :: ins, aF, aV, h => by
    simp only [setInputsF, setInputsV, List.foldl_cons]
    apply stRel_setInputs sigs ins
    refine ⟨by simp only [Array.size_setIfInBounds]; exact h.1, ?_⟩
    intro j
    rw [getD_setIfInBounds, getD_setIfInBounds, h.1]
    by_cases hc : i = j ∧ i < aF.size
    · rw [if_pos hc, if_pos hc, ← hc.1, wdOf, widthOf, tn_truncS]
    · rw [if_neg hc, if_neg hc]
      exact h.2 j

/-- The side conditions hold along the simulator's run (in every state its settle loops visit and at every
    clock edge), and every settle loop reaches its fix-point within `fuel` rounds. -/
def RunOk (f : FModule) (fuel : Nat) : Array Int → List Cycle → Prop
  | _, [] => True
  | a, c :: cs =>
    SettleOk f fuel (setInputsF f.sigs a c.ins) ∧
    iterF f (settledF f fuel a c) = settledF f fuel a c ∧
    (∀ d ∈ sortDoms f.sync, DomOk f.sigs (envA (settledF f fuel a c)) d) ∧
    RunOk f fuel (edgeF f (settledF f fuel a c) c) cs

/-- **Module theorem**: cycle for cycle, for every input sequence and every choice of ticking clocks, the
    settled state of the printed module is the bit pattern of the simulator's settled state. -/
theorem run_equiv (f : FModule) (fuel : Nat) :
    ∀ (cs : List Cycle) (aF aV : Array Int), StRel f.sigs aF aV → RunOk f fuel aF cs →
      List.Forall₂ (StRel f.sigs) (runF f fuel aF cs) (runV f.sigs (printModule f) fuel aV cs)
  | [], _, _, _, _ => List.Forall₂.nil
  | c :: cs, aF, aV, h, hok => by
    simp only [RunOk] at hok
    obtain ⟨hs, hfix, hd, hrest⟩ := hok
    have h1 : StRel f.sigs (settledF f fuel aF c) (settledV f.sigs (printModule f) fuel aV c) :=
      stRel_settle f fuel _ _ (stRel_setInputs f.sigs c.ins aF aV h) hs hfix
    have h2 := stRel_sync f _ _ c.clks h1 hd
    simp only [runF, runV]
    exact List.Forall₂.cons h1 (run_equiv f fuel cs _ _ h2 hrest)

end Litex.C01
