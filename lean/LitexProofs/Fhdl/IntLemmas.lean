import LitexModel.Fhdl.IntBits
import Mathlib.Tactic.Ring
import Mathlib.Tactic.Linarith
/-
  Arithmetic facts about `tn` (truncation to `w` bits), `toS` (two's-complement reading), `ext` style
  extensions and the integer bitwise operators of `LitexModel/Fhdl/IntBits.lean`.
-/
namespace Litex.C01

theorem p2_pos (w : Nat) : 0 < p2 w := Int.pow_pos (by decide)

theorem p2_ne (w : Nat) : p2 w ≠ 0 := Int.ne_of_gt (p2_pos w)

theorem p2_add (a b : Nat) : p2 (a + b) = p2 a * p2 b := Int.pow_add 2 a b

theorem p2_zero : p2 0 = 1 := rfl

theorem p2_succ (w : Nat) : p2 (w + 1) = 2 * p2 w := by
  unfold p2; rw [Int.pow_succ]; omega

theorem p2_dvd {a b : Nat} (h : a ≤ b) : p2 a ∣ p2 b := by
  obtain ⟨k, rfl⟩ := Nat.exists_eq_add_of_le h
  exact ⟨p2 k, p2_add a k⟩

theorem p2_le {a b : Nat} (h : a ≤ b) : p2 a ≤ p2 b := by
  obtain ⟨k, rfl⟩ := Nat.exists_eq_add_of_le h
  rw [p2_add]
  have := p2_pos a; have := p2_pos k
  nlinarith

theorem p2_pred {w : Nat} (h : 0 < w) : p2 w = 2 * p2 (w - 1) := by
  obtain ⟨k, rfl⟩ : ∃ k, w = k + 1 := ⟨w - 1, by omega⟩
  simp [p2_succ]

theorem p2_natCast (w : Nat) : ((2 ^ w : Nat) : Int) = p2 w := by
  unfold p2; exact Int.natCast_pow 2 w

theorem tn_nonneg (w : Nat) (x : Int) : 0 ≤ tn w x := Int.emod_nonneg _ (p2_ne w)

theorem tn_lt (w : Nat) (x : Int) : tn w x < p2 w := Int.emod_lt_of_pos _ (p2_pos w)

theorem tn_of_range {w : Nat} {x : Int} (h0 : 0 ≤ x) (h1 : x < p2 w) : tn w x = x :=
  Int.emod_eq_of_lt h0 h1

@[simp] theorem tn_tn_same (w : Nat) (x : Int) : tn w (tn w x) = tn w x := Int.emod_emod _ _

theorem tn_tn {w W : Nat} (h : w ≤ W) (x : Int) : tn w (tn W x) = tn w x :=
  Int.emod_emod_of_dvd x (p2_dvd h)

theorem tn_add (W : Nat) (x y : Int) : tn W (tn W x + tn W y) = tn W (x + y) := by
  unfold tn; rw [← Int.add_emod]

theorem tn_sub (W : Nat) (x y : Int) : tn W (tn W x - tn W y) = tn W (x - y) := by
  unfold tn; rw [← Int.sub_emod]

theorem tn_mul (W : Nat) (x y : Int) : tn W (tn W x * tn W y) = tn W (x * y) := by
  unfold tn; rw [← Int.mul_emod]

theorem tn_mul_left (W : Nat) (x y : Int) : tn W (tn W x * y) = tn W (x * y) := by
  unfold tn; rw [Int.mul_emod, Int.emod_emod, ← Int.mul_emod]

theorem tn_neg (W : Nat) (x : Int) : tn W (- tn W x) = tn W (- x) := by
  have h := tn_sub W 0 x
  have h0 : tn W 0 = 0 := by simp [tn]
  rw [h0] at h
  simpa using h

/-- `tn W x = x + k * 2^W` for some `k`. -/
theorem tn_eq_add_mul (W : Nat) (x : Int) : ∃ k : Int, tn W x = x + k * p2 W := by
  refine ⟨-(x / p2 W), ?_⟩
  have := Int.emod_add_mul_ediv x (p2 W)
  unfold tn
  linarith

theorem tn_add_mul (W : Nat) (x k : Int) : tn W (x + k * p2 W) = tn W x := by
  unfold tn; exact Int.add_mul_emod_self_right x k (p2 W)

/-- Uniqueness of the representative. -/
theorem tn_unique {W : Nat} {x r : Int} (h0 : 0 ≤ r) (h1 : r < p2 W) (k : Int) (h : x = r + k * p2 W) :
    tn W x = r := by
  rw [h, tn_add_mul, tn_of_range h0 h1]

theorem tn_not (W : Nat) (x : Int) : p2 W - 1 - tn W x = tn W (notI x) := by
  obtain ⟨k, hk⟩ := tn_eq_add_mul W x
  have h0 := tn_nonneg W x
  have h1 := tn_lt W x
  symm
  apply tn_unique (by omega) (by omega) (k - 1)
  unfold notI; rw [hk]; ring

/-! ### signed reading -/

theorem toS_tn_of_inRange {w : Nat} (hw : 0 < w) {x : Int} (h : inRange w true x = true) :
    toS w (tn w x) = x := by
  simp only [inRange, if_true, Bool.and_eq_true, decide_eq_true_eq] at h
  have hp := p2_pred hw
  have hpos := p2_pos (w - 1)
  unfold toS
  by_cases hx : 0 ≤ x
  · rw [tn_of_range hx (by omega)]
    rw [if_neg (by omega)]
  · have : tn w x = x + p2 w := tn_unique (by omega) (by omega) (-1) (by ring)
    rw [this, if_pos (by omega)]; ring

theorem tn_of_inRange_unsigned {w : Nat} {x : Int} (h : inRange w false x = true) : tn w x = x := by
  simp only [inRange, Bool.false_eq_true, if_false, Bool.and_eq_true, decide_eq_true_eq] at h
  exact tn_of_range h.1 h.2

theorem tn_toS (w : Nat) (v : Int) : tn w (toS w v) = tn w v := by
  unfold toS
  split
  · have : v - p2 w = v + (-1) * p2 w := by ring
    rw [this, tn_add_mul]
  · rfl

theorem tn_truncS (w : Nat) (s : Bool) (x : Int) : tn w (truncS w s x) = tn w x := by
  unfold truncS; split
  · rw [tn_toS, tn_tn_same]
  · rw [tn_tn_same]

theorem truncS_of_inRange {w : Nat} (hw : 0 < w) {s : Bool} {x : Int} (h : inRange w s x = true) :
    truncS w s x = x := by
  unfold truncS
  cases s
  · simp [tn_of_inRange_unsigned h]
  · simp [toS_tn_of_inRange hw h]

theorem inRange_truncS {w : Nat} (hw : 0 < w) (s : Bool) (x : Int) : inRange w s (truncS w s x) = true := by
  have h0 := tn_nonneg w x
  have h1 := tn_lt w x
  have hp := p2_pred hw
  unfold truncS inRange toS
  cases s
  · simp [h0, h1]
  · simp only [if_true, Bool.and_eq_true, decide_eq_true_eq]
    split <;> constructor <;> omega

/-- A value in range of a `w`-bit (signed/unsigned) number is zero iff its `w`-bit pattern is. -/
theorem tn_eq_zero_iff {w : Nat} (hw : 0 < w) {s : Bool} {x : Int} (h : inRange w s x = true) :
    tn w x = 0 ↔ x = 0 := by
  constructor
  · intro hz
    have := truncS_of_inRange hw h
    unfold truncS at this
    rw [hz] at this
    cases s
    · simpa using this.symm
    · have hpos := p2_pos (w - 1)
      simp only [if_true, toS] at this
      rw [if_neg (by omega)] at this
      exact this.symm
  · rintro rfl; simp [tn]

end Litex.C01
