import LitexModel.Fhdl.Lower
import LitexModel.Fhdl.Static
import LitexProofs.Verilog.Eval
/-
  `lowerSliceCat_correct` / `lowerSliceReplicate_correct`: the index arithmetic of `_lower_slice_cat` and
  `_lower_slice_replicate` preserves the value of the slice.
-/
namespace Litex.C01

/-- Slice inside the lowest part `a < 2^n` of `a + 2^n * R`. -/
theorem slice_low {n st len : Nat} (h : st + len ≤ n) {a : Int} (R : Int) :
    tn len ((a + p2 n * R) / p2 st) = tn len (a / p2 st) := by
  obtain ⟨d, rfl⟩ := Nat.exists_eq_add_of_le h
  have hp : p2 (st + len + d) * R = p2 st * (p2 d * R * p2 len) := by rw [p2_add, p2_add]; ring
  rw [hp, Int.add_mul_ediv_left _ _ (p2_ne st)]
  have : a / p2 st + p2 d * R * p2 len = a / p2 st + (p2 d * R) * p2 len := by ring
  rw [this, tn_add_mul]

/-- Skipping the lowest part. -/
theorem slice_skip {n st : Nat} (h : n ≤ st) {a : Int} (ha0 : 0 ≤ a) (ha1 : a < p2 n) (R : Int) :
    (a + p2 n * R) / p2 st = R / p2 (st - n) := by
  obtain ⟨d, rfl⟩ := Nat.exists_eq_add_of_le h
  rw [p2_add, ← Int.ediv_ediv_of_nonneg (Int.le_of_lt (p2_pos n)), Int.add_mul_ediv_left _ _ (p2_ne n),
    Int.ediv_eq_zero_of_lt ha0 ha1, Int.zero_add]
  congr 2; omega

theorem lowerCatList_past (orig : Expr) (st len : Nat) :
    ∀ (l : List Expr) (cs : Nat), st < cs → lowerCatList l orig cs st len = (orig, st)
  | [], _, _ => rfl
  | e :: es, cs, h => by
    simp only [lowerCatList]
    rw [if_neg (by omega)]
    exact lowerCatList_past orig st len es _ (by omega)

mutual
/-- **lowerSliceCat_correct.**  The slice `[start, start+length)` of `node` has the same value as the slice
    `[start', start'+length)` of the element `_lower_slice_cat` descends into. -/
theorem lowerCat_correct (ρ : Env) : ∀ (e : Expr) (st len : Nat),
    sliceVal ρ (lowerCat e st len).1 (lowerCat e st len).2 len = sliceVal ρ e st len
  | .cat l, st, len => by
    simp only [lowerCat]
    rcases lowerCatList_correct ρ l (.cat l) 0 st len (Nat.zero_le _) with h | h
    · rw [h]
    · rw [h]; simp only [sliceVal, evalF, Nat.sub_zero]
  | .const _ _ _, _, _ => rfl
  | .sig _ _ _, _, _ => rfl
  | .op1 _ _, _, _ => rfl
  | .op2 _ _ _, _, _ => rfl
  | .mux _ _ _, _, _ => rfl
  | .slice _ _ _, _, _ => rfl
  | .rep _ _, _, _ => rfl
theorem lowerCatList_correct (ρ : Env) : ∀ (l : List Expr) (orig : Expr) (cs st len : Nat), cs ≤ st →
    lowerCatList l orig cs st len = (orig, st) ∨
    sliceVal ρ (lowerCatList l orig cs st len).1 (lowerCatList l orig cs st len).2 len
      = tn len (evalCat ρ l / p2 (st - cs))
  | [], _, _, _, _, _ => Or.inl rfl
  | e :: es, orig, cs, st, len, hcs => by
    simp only [lowerCatList]
    split
    · rename_i hc
      right
      rw [lowerCat_correct ρ e (st - cs) len]
      simp only [sliceVal, evalCat]
      rw [slice_low (by omega), tn_div_tn (by omega)]
    · rename_i hc
      by_cases hnext : cs + (bitsSign e).1 ≤ st
      · rcases lowerCatList_correct ρ es orig (cs + (bitsSign e).1) st len hnext with h | h
        · exact Or.inl h
        · right
          rw [h]
          simp only [evalCat]
          rw [slice_skip (by omega) (tn_nonneg _ _) (tn_lt _ _)]
          congr 3; omega
      · left
        exact lowerCatList_past orig st len es _ (by omega)
end

theorem replV_succ_slice (w : Nat) (t : Int) (n : Nat) : replV w t (n + 1) = t + p2 w * replV w t n := rfl

/-- Slice of `n` copies of the `w`-bit pattern `t` that lies inside one copy. -/
theorem slice_replV {w len : Nat} (hw : 0 < w) {t : Int} (ht0 : 0 ≤ t) (ht1 : t < p2 w) :
    ∀ (n st : Nat), st + len ≤ n * w → st / w = (st + len - 1) / w → 0 < len →
      tn len (replV w t n / p2 st) = tn len (t / p2 (st % w))
  | 0, st, h, _, hl => by omega
  | n + 1, st, h, hsame, hl => by
    rw [replV_succ_slice]
    by_cases hst : st < w
    · -- inside the lowest copy
      have h0 : st / w = 0 := Nat.div_eq_of_lt hst
      have h1 : (st + len - 1) / w = 0 := by rw [← hsame]; exact h0
      have h2 : st + len - 1 < w := by
        rcases Nat.lt_or_ge (st + len - 1) w with h | h
        · exact h
        · have := Nat.div_pos h hw; omega
      rw [slice_low (by omega), Nat.mod_eq_of_lt hst]
    · have hge : w ≤ st := Nat.le_of_not_lt hst
      rw [slice_skip hge ht0 ht1]
      have hmod : st % w = (st - w) % w := by
        conv_lhs => rw [show st = (st - w) + w by omega]
        exact Nat.add_mod_right _ _
      rw [hmod]
      apply slice_replV hw ht0 ht1 n (st - w) (by rw [Nat.add_mul] at h; omega) _ hl
      have e1 : st / w = (st - w) / w + 1 := by
        conv_lhs => rw [show st = (st - w) + w by omega]
        exact Nat.add_div_right _ hw
      have e2 : (st + len - 1) / w = (st - w + len - 1) / w + 1 := by
        conv_lhs => rw [show st + len - 1 = (st - w + len - 1) + w by omega]
        exact Nat.add_div_right _ hw
      omega

/-- **lowerSliceReplicate_correct.**  For a slice inside the replicated value (`start + length ≤ len(node)`,
    which `_Value.__getitem__` guarantees), of positive length. -/
theorem lowerRep_correct (ρ : Env) : ∀ (e : Expr) (st len : Nat), 0 < len → st + len ≤ (bitsSign e).1 →
    sliceVal ρ (lowerRep e st len).1 (lowerRep e st len).2 len = sliceVal ρ e st len
  | .rep v n, st, len, hl, hb => by
    simp only [lowerRep]
    split
    · rename_i hsame
      simp only [bitsSign] at hb
      have hw : 0 < (bitsSign v).1 := by
        rcases Nat.eq_zero_or_pos (bitsSign v).1 with h | h
        · rw [h] at hb; omega
        · exact h
      have hin : st % (bitsSign v).1 + len ≤ (bitsSign v).1 := by
        have h1 := Nat.div_add_mod st (bitsSign v).1
        have h2 := Nat.div_add_mod (st + len - 1) (bitsSign v).1
        have h3 := Nat.mod_lt (st + len - 1) hw
        rw [← hsame] at h2
        omega
      rw [lowerRep_correct ρ v (st % (bitsSign v).1) len hl hin]
      simp only [sliceVal, evalF]
      rw [slice_replV hw (tn_nonneg _ _) (tn_lt _ _) n st (by rw [Nat.mul_comm]; exact hb) hsame hl,
        tn_div_tn hin]
    · rfl
  | .const _ _ _, _, _, _, _ => rfl
  | .sig _ _ _, _, _, _, _ => rfl
  | .op1 _ _, _, _, _, _ => rfl
  | .op2 _ _ _, _, _, _, _ => rfl
  | .mux _ _ _, _, _, _, _ => rfl
  | .slice _ _ _, _, _, _, _ => rfl
  | .cat _, _, _, _, _ => rfl

/-! ### dropping a slice that covers its node exactly -/

theorem evalCat_range (ρ : Env) : ∀ (l : List Expr), 0 ≤ evalCat ρ l ∧ evalCat ρ l < p2 (catBits l)
  | [] => by simp [evalCat, catBits, p2_zero]
  | e :: es => by
    have ih := evalCat_range ρ es
    have h0 := tn_nonneg (bitsSign e).1 (evalF ρ e)
    have h1 := tn_lt (bitsSign e).1 (evalF ρ e)
    have hp := p2_pos (bitsSign e).1
    simp only [evalCat, catBits, p2_add]
    constructor
    · nlinarith [ih.1]
    · nlinarith [ih.1, ih.2]

/-- A dropped slice was the identity: an unsigned signal (with a value in its declared range), a `Cat` and a
    `Replicate` evaluate to a non-negative number of their own width. -/
theorem lowerDrop_correct (ρ : Env) (e : Expr) (st len : Nat) (h : dropsSlice e st len = true)
    (hρ : envOk ρ e = true) : sliceVal ρ e st len = evalF ρ e := by
  simp only [dropsSlice, Bool.and_eq_true, decide_eq_true_eq] at h
  obtain ⟨⟨hst, hlen⟩, hk⟩ := h
  subst hst
  subst hlen
  simp only [sliceVal, p2_zero, Int.ediv_one]
  cases e with
  | sig i w s =>
    simp only [Bool.not_eq_true'] at hk
    subst hk
    simp only [envOk] at hρ
    simp only [bitsSign, evalF]
    exact tn_of_inRange_unsigned hρ
  | cat l =>
    simp only [bitsSign, evalF]
    have := evalCat_range ρ l
    exact tn_of_range this.1 this.2
  | rep a n =>
    simp only [bitsSign, evalF]
    have := replV_range (tn_nonneg (bitsSign a).1 (evalF ρ a)) (tn_lt (bitsSign a).1 (evalF ρ a)) n
    rw [Nat.mul_comm] at this
    exact tn_of_range this.1 this.2
  | const v w s => simp at hk
  | op1 o a => simp at hk
  | op2 o a b => simp at hk
  | mux c a b => simp at hk
  | slice a lo hi => simp at hk

end Litex.C01
