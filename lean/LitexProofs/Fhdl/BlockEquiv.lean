import LitexProofs.Fhdl.StmtEquiv
import LitexProofs.Fhdl.PrintCorrect
/-
  Block equivalence: executing the printed statements under the Verilog rules keeps the update queue in
  correspondence with the simulator's modifications (`Rel`), given the side condition `fitsSs`.
-/
namespace Litex.C01

mutual
def wfS (wd : Nat → Nat) : Stmt → Prop
  | .assign l _ => wfTarget wd l
  | .ite _ t f => wfSs wd t ∧ wfSs wd f
  | .case _ items _ d => wfItems wd items ∧ wfSs wd d
def wfSs (wd : Nat → Nat) : Stmts → Prop
  | .nil => True
  | .cons s ss => wfS wd s ∧ wfSs wd ss
def wfItems (wd : Nat → Nat) : Items → Prop
  | .nil => True
  | .cons _ _ _ body rest => wfSs wd body ∧ wfItems wd rest
end

theorem selfWidth_printConstU (k : Int) (kw : Nat) : selfWidth (printConstU k kw) = kw := by
  unfold printConstU; split <;> simp [selfWidth]

theorem selfWidth_printConst (k : Int) (kw : Nat) (ks : Bool) : selfWidth (printConst k kw ks).1 = kw := by
  cases ks <;> simp [printConst, selfWidth, selfWidth_printConstU]

theorem selfSigned_printConstU (k : Int) (kw : Nat) : selfSigned (printConstU k kw) = false := by
  unfold printConstU; split <;> simp [selfSigned]

/-- A printed case key evaluates, in an unsigned `W ≥ kw`-bit context, to the key modulo `2^W`. -/
theorem evalV_printConstU (ρ : Nat → Int) (k : Int) (kw : Nat) (W : Nat) (hW : kw ≤ W)
    (hk : k.natAbs < 2 ^ kw) : evalV ρ W false (printConstU k kw) = tn W k := by
  have hlt : (k.natAbs : Int) < p2 kw := by rw [← p2_natCast]; exact_mod_cast hk
  have hle := p2_le hW
  unfold printConstU
  split
  · rename_i h0
    simp only [evalV, ext, Bool.false_and, Bool.false_eq_true, if_false]
    rw [Int.toNat_of_nonneg h0, tn_of_range h0 (by omega), tn_of_range h0 (by omega)]
  · rename_i h0
    simp only [evalV, ext, Bool.false_and, Bool.false_eq_true, if_false]
    rw [tn_of_range (by omega) hlt]
    congr 1; omega

/-- Equal `W`-bit patterns mean equal numbers when both are in one common `W`-bit reading. -/
theorem tn_inj {W : Nat} (hW : 0 < W) {a b : Int}
    (h : (inRange W false a = true ∧ inRange W false b = true) ∨ (inRange W true a = true ∧ inRange W true b = true)) :
    tn W a = tn W b ↔ a = b := by
  constructor
  · intro hab
    rcases h with ⟨ha, hb⟩ | ⟨ha, hb⟩
    · rw [tn_of_inRange_unsigned ha, tn_of_inRange_unsigned hb] at hab; exact hab
    · have h1 := toS_tn_of_inRange hW ha
      have h2 := toS_tn_of_inRange hW hb
      rw [← h1, ← h2, hab]
  · rintro rfl; rfl

theorem itemsSigned_printItems_cons (k : Int) (kw : Nat) (ks : Bool) (body : Stmts) (rest : Items) :
    itemsSigned (printItems (.cons k kw ks body rest)) = false := by
  simp [printItems, itemsSigned, selfSigned_printConstU]

theorem itemsWidth_printItems_ge (k : Int) (kw : Nat) (ks : Bool) (body : Stmts) (rest : Items) :
    kw ≤ itemsWidth (printItems (.cons k kw ks body rest)) ∧
    itemsWidth (printItems rest) ≤ itemsWidth (printItems (.cons k kw ks body rest)) := by
  simp only [printItems, itemsWidth, selfWidth_printConstU]; omega

/-- The two outcomes of a `case` lookup correspond. -/
def RelOpt (wd : Nat → Nat) (ρ : Env) : Option Mods → Option Pending → Prop
  | some m, some p => Rel wd ρ m p
  | none, none => True
  | _, _ => False

mutual
theorem rel_execS (wd : Nat → Nat) (ρ : Env) :
    ∀ (s : Stmt) (m : Mods) (p : Pending), Rel wd ρ m p → fitsS ρ s = true → wfS wd s →
      Rel wd ρ (execF ρ s m) (execV ρ (printS s) p)
  | .assign l r, m, p, h, hf, hw => by
    simp only [fitsS, fitsAssign, Bool.and_eq_true] at hf
    simp only [wfS] at hw
    simp only [execF, printS, execV]
    rw [assign_correct ρ r _ hf.2]
    apply rel_target h l hf.1 hw
    unfold storeF
    rw [selfWidth_print_target l hf.1, tn_tn_same]
  | .ite c t f, m, p, h, hf, hw => by
    simp only [fitsS, fitsCond, condOk, Bool.and_eq_true, beq_iff_eq, decide_eq_decide] at hf
    simp only [wfS] at hw
    obtain ⟨⟨⟨hfit, hz⟩, hft⟩, hff⟩ := hf
    simp only [execF, printS, execV]
    rw [printE_correct ρ c _ (Nat.le_refl _) hfit]
    by_cases hc : tn (bitsSign c).1 (evalF ρ c) = 0
    · rw [if_neg (by simpa using hc), if_neg (by simpa using hz.2 hc)]
      exact rel_execSs wd ρ f m p h hff hw.2
    · rw [if_pos hc, if_pos (fun hh => hc (hz.1 hh))]
      exact rel_execSs wd ρ t m p h hft hw.1
  | .case test items hasD d, m, p, h, hf, hw => by
    simp only [fitsS, Bool.and_eq_true] at hf
    simp only [wfS] at hw
    obtain ⟨⟨hcase, hitems⟩, hd⟩ := hf
    simp only [execF, printS, execV]
    cases items with
    | nil =>
      simp only [execItems, printItems, execVItems]
      cases hasD
      · simpa using h
      · simpa using rel_execSs wd ρ d m p h hd hw.2
    | cons k kw ks body rest =>
      simp only [fitsCase, Bool.and_eq_true, Bool.or_eq_true, decide_eq_true_eq] at hcase
      obtain ⟨⟨⟨⟨⟨⟨hP, hV⟩, hW0⟩, hok⟩, hn0⟩, hrange⟩, hcommon⟩ := hcase
      rw [itemsSigned_printItems_cons] at hV ⊢
      simp only [Bool.and_false] at hV ⊢
      rw [evalV_ideal ρ _ _ _ (Nat.le_max_left _ _) hV, printE_ideal ρ test hP]
      rw [truncS_of_inRange hn0 hrange]
      have hopt := rel_execItems wd ρ (max (selfWidth (printE test).1) (itemsWidth (printItems (.cons k kw ks body rest))))
        (evalF ρ test) hW0 (.cons k kw ks body rest) m p h hitems hw.1 (Nat.le_max_right _ _) hok hcommon
      generalize execItems ρ (.cons k kw ks body rest) (evalF ρ test) m = ro at hopt
      generalize execVItems ρ _ false _ (printItems (.cons k kw ks body rest)) p = vo at hopt
      cases ro <;> cases vo <;> simp only [RelOpt] at hopt
      · cases hasD
        · simpa using h
        · simpa using rel_execSs wd ρ d m p h hd hw.2
      · exact hopt
theorem rel_execSs (wd : Nat → Nat) (ρ : Env) :
    ∀ (ss : Stmts) (m : Mods) (p : Pending), Rel wd ρ m p → fitsSs ρ ss = true → wfSs wd ss →
      Rel wd ρ (execFs ρ ss m) (execVs ρ (printSs ss) p)
  | .nil, m, p, h, _, _ => by simpa [execFs, printSs, execVs] using h
  | .cons s ss, m, p, h, hf, hw => by
    simp only [fitsSs, Bool.and_eq_true] at hf
    simp only [wfSs] at hw
    have hstep := rel_execS wd ρ s m p h hf.1 hw.1
    have hgen : Rel wd ρ (execFs ρ (.cons s ss) m) (execVs ρ (.cons (printS s) (printSs ss)) p) := by
      simp only [execFs, execVs]
      exact rel_execSs wd ρ ss _ _ hstep hf.2 hw.2
    cases s with
    | assign l r => simpa [printSs] using hgen
    | ite c t f => simpa [printSs] using hgen
    | case test items hasD d =>
      cases items with
      | cons k kw ks body rest => simpa [printSs] using hgen
      | nil =>
        cases hasD
        · -- an empty Case prints nothing and executes nothing
          simp only [printSs, execFs, execF, execItems]
          exact rel_execSs wd ρ ss m p h hf.2 hw.2
        · simpa [printSs] using hgen
theorem rel_execItems (wd : Nat → Nat) (ρ : Env) (W : Nat) (t : Int) (hW0 : 0 < W) :
    ∀ (items : Items) (m : Mods) (p : Pending), Rel wd ρ m p → fitsItems ρ items = true → wfItems wd items →
      itemsWidth (printItems items) ≤ W → itemsOk items = true →
      ((inRange W false t = true ∧ itemsIn W false items = true) ∨
       (inRange W true t = true ∧ itemsIn W true items = true)) →
      RelOpt wd ρ (execItems ρ items t m) (execVItems ρ W false (tn W t) (printItems items) p)
  | .nil, m, p, _, _, _, _, _, _ => by simp [execItems, printItems, execVItems, RelOpt]
  | .cons k kw ks body rest, m, p, h, hf, hw, hWi, hok, hcommon => by
    simp only [fitsItems, Bool.and_eq_true] at hf
    simp only [wfItems] at hw
    simp only [itemsOk, Bool.and_eq_true, decide_eq_true_eq] at hok
    have hge := itemsWidth_printItems_ge k kw ks body rest
    simp only [execItems, printItems, execVItems]
    rw [evalV_printConstU ρ k kw W (by omega) hok.1.1]
    have hiff : tn W k = tn W t ↔ k = t := by
      apply tn_inj hW0
      rcases hcommon with ⟨h1, h2⟩ | ⟨h1, h2⟩
      · simp only [itemsIn, Bool.and_eq_true] at h2; exact Or.inl ⟨h2.1, h1⟩
      · simp only [itemsIn, Bool.and_eq_true] at h2; exact Or.inr ⟨h2.1, h1⟩
    by_cases hk : k = t
    · rw [if_pos hk, if_pos (hiff.2 hk)]
      simp only [RelOpt]
      exact rel_execSs wd ρ body m p h hf.1 hw.1
    · rw [if_neg hk, if_neg (fun hh => hk (hiff.1 hh))]
      apply rel_execItems wd ρ W t hW0 rest m p h hf.2 hw.2 (by omega) hok.2
      rcases hcommon with ⟨h1, h2⟩ | ⟨h1, h2⟩
      · simp only [itemsIn, Bool.and_eq_true] at h2; exact Or.inl ⟨h1, h2.2⟩
      · simp only [itemsIn, Bool.and_eq_true] at h2; exact Or.inr ⟨h1, h2.2⟩
end

end Litex.C01
