import LitexProofs.Fhdl.RangeLemmas
import LitexProofs.Fhdl.PrintIdeal
/-
  Soundness of `staticallyFits`: the static side condition implies the dynamic one (`Fits`) for every
  valuation whose signal values are in their declared ranges.
-/
namespace Litex.C01

theorem truncS_bounds (w : Nat) (s : Bool) (x : Int) :
    (if s then (-(p2 (w - 1)), p2 (w - 1) - 1) else ((0 : Int), p2 w - 1)).1 ≤ truncS w s x ∧
    truncS w s x ≤ (if s then (-(p2 (w - 1)), p2 (w - 1) - 1) else ((0 : Int), p2 w - 1)).2 := by
  have h0 := tn_nonneg w x
  have h1 := tn_lt w x
  cases s
  · simp only [truncS, Bool.false_eq_true, if_false]; omega
  · simp only [truncS, if_true]
    by_cases hw : 0 < w
    · have := inRange_truncS hw true x
      simp only [truncS, inRange, if_true, Bool.and_eq_true, decide_eq_true_eq] at this
      omega
    · have hw0 : w = 0 := by omega
      subst hw0
      have : tn 0 x = 0 := by simp only [p2_zero] at h1; omega
      rw [this]
      simp [toS, p2]

theorem toS_bounds (w : Nat) (x : Int) :
    -(p2 (w - 1)) ≤ toS w (tn w x) ∧ toS w (tn w x) ≤ p2 (w - 1) - 1 := by
  have := truncS_bounds w true x
  simpa [truncS] using this

mutual
theorem bounds_sound (ρ : Nat → Int) : ∀ (v : VExpr), (bounds v).1 ≤ ideal ρ v ∧ ideal ρ v ≤ (bounds v).2
  | .lit w s v => by simp [bounds, ideal]
  | .id i w s => by simp only [bounds, ideal]; exact truncS_bounds w s (ρ i)
  | .un .neg a => by have := bounds_sound ρ a; simp only [bounds, ideal]; omega
  | .un .not a => by have := bounds_sound ρ a; simp only [bounds, ideal, notI]; omega
  | .bin o a b => by
    simp only [bounds, ideal]
    exact bndBin_sound o (bounds_sound ρ a) (bounds_sound ρ b)
  | .cond c a b => by
    have ha := bounds_sound ρ a
    have hb := bounds_sound ρ b
    simp only [bounds, ideal]
    split <;> omega
  | .psel a hi lo => by
    have h0 := tn_nonneg (hi - lo + 1) (ideal ρ a / p2 lo)
    have h1 := tn_lt (hi - lo + 1) (ideal ρ a / p2 lo)
    simp only [bounds, ideal]; omega
  | .bsel a i => by
    have h0 := tn_nonneg 1 (ideal ρ a / p2 i)
    have h1 := tn_lt 1 (ideal ρ a / p2 i)
    have h2 : p2 1 = 2 := rfl
    simp only [bounds, ideal]
    omega
  | .concat l => by
    have := idealConcat_range ρ l
    have := concatHi_sound ρ l
    simp only [bounds, ideal]; omega
  | .repl n a => by
    have := replV_range (tn_nonneg (selfWidth a) (ideal ρ a)) (tn_lt (selfWidth a) (ideal ρ a)) n
    simp only [bounds, ideal]; omega
  | .signed a => by
    have ha := bounds_sound ρ a
    simp only [bounds, ideal]
    split
    · rename_i h
      simp only [Bool.and_eq_true, decide_eq_true_eq, inRangeB] at h
      obtain ⟨hw, h1, h2⟩ := h
      simp only [inRange, if_true, Bool.and_eq_true, decide_eq_true_eq] at h1 h2
      have : inRange (selfWidth a) true (ideal ρ a) = true := by
        simp only [inRange, if_true, Bool.and_eq_true, decide_eq_true_eq]; omega
      rw [toS_tn_of_inRange hw this]
      exact ha
    · exact toS_bounds _ _
theorem concatHi_sound (ρ : Nat → Int) : ∀ (l : List VExpr), idealConcat ρ l ≤ concatHi l
  | [] => by simp [idealConcat, concatHi]
  | e :: es => by
    have ih := concatHi_sound ρ es
    have he := bounds_sound ρ e
    have h0 := tn_nonneg (selfWidth e) (ideal ρ e)
    have h1 := tn_lt (selfWidth e) (ideal ρ e)
    have hp := p2_pos (concatWidth es)
    simp only [idealConcat, concatHi]
    split
    · rename_i h
      have : tn (selfWidth e) (ideal ρ e) = ideal ρ e := tn_of_range (by omega) (by omega)
      rw [this]
      nlinarith
    · nlinarith
end

/-- `inRange` is convex. -/
theorem inRange_of_bounds {w : Nat} {s : Bool} {b : Int × Int} {x : Int} (h : inRangeB w s b = true)
    (h1 : b.1 ≤ x) (h2 : x ≤ b.2) : inRange w s x = true := by
  simp only [inRangeB, Bool.and_eq_true] at h
  obtain ⟨ha, hb⟩ := h
  cases s <;>
    simp only [inRange, if_true, Bool.false_eq_true, if_false, Bool.and_eq_true, decide_eq_true_eq] at ha hb ⊢ <;>
    omega

theorem fitsAt_of_sfitsAt {w W : Nat} {sg : Bool} {b : Int × Int} {x : Int} (h : sfitsAt w W sg b = true)
    (h1 : b.1 ≤ x) (h2 : x ≤ b.2) : fitsAt w W sg x = true := by
  simp only [sfitsAt, Bool.and_eq_true, Bool.or_eq_true, decide_eq_true_eq] at h
  simp only [fitsAt, Bool.and_eq_true, Bool.or_eq_true, decide_eq_true_eq]
  refine ⟨h.1, ?_⟩
  rcases h.2 with h | h
  · exact Or.inl h
  · exact Or.inr (inRange_of_bounds h h1 h2)

mutual
theorem sfitsV_sound (ρ : Nat → Int) :
    ∀ (e : VExpr) (W : Nat) (sg : Bool), sfitsV e W sg = true → fitsV ρ e W sg = true
  | .lit w s v, W, sg, h => by
    simp only [sfitsV] at h
    simp only [fitsV]
    have := bounds_sound ρ (.lit w s v)
    exact fitsAt_of_sfitsAt h this.1 this.2
  | .id i w s, W, sg, h => by
    simp only [sfitsV] at h
    simp only [fitsV]
    have := bounds_sound ρ (.id i w s)
    exact fitsAt_of_sfitsAt h this.1 this.2
  | .un _ a, W, sg, h => by
    simp only [sfitsV] at h
    simp only [fitsV]
    exact sfitsV_sound ρ a W sg h
  | .bin o a b, W, sg, h => by
    have ba := bounds_sound ρ a
    have bb := bounds_sound ρ b
    by_cases hc : o.isCmp = true
    · simp only [sfitsV, hc, if_true, Bool.and_eq_true, decide_eq_true_eq] at h
      obtain ⟨⟨⟨⟨⟨hw', ha⟩, hb⟩, hra⟩, hrb⟩, hres⟩ := h
      simp only [fitsV, hc, if_true, Bool.and_eq_true, decide_eq_true_eq]
      refine ⟨⟨⟨⟨⟨hw', sfitsV_sound ρ a _ _ ha⟩, sfitsV_sound ρ b _ _ hb⟩, inRange_of_bounds hra ba.1 ba.2⟩,
        inRange_of_bounds hrb bb.1 bb.2⟩, ?_⟩
      rw [idealBin_cmp hc]
      have := b2i_le (cmpV o (ideal ρ a) (ideal ρ b))
      exact fitsAt_of_sfitsAt hres this.1 this.2
    · have hc' : o.isCmp = false := by simpa using hc
      by_cases hsft : o.isShift = true
      · simp only [sfitsV, hc', hsft, if_true, Bool.false_eq_true, if_false, Bool.and_eq_true] at h
        obtain ⟨⟨⟨ha, hb⟩, hrb⟩, hextra⟩ := h
        simp only [fitsV, hc', hsft, if_true, Bool.false_eq_true, if_false, Bool.and_eq_true]
        refine ⟨⟨⟨sfitsV_sound ρ a _ _ ha, sfitsV_sound ρ b _ _ hb⟩, inRange_of_bounds hrb bb.1 bb.2⟩, ?_⟩
        cases o <;> simp_all only [VBin.isShift, VBin.isCmp, Bool.false_eq_true, reduceCtorEq]
        simp only [Bool.and_eq_true, decide_eq_true_eq] at hextra ⊢
        exact ⟨hextra.1, inRange_of_bounds hextra.2 ba.1 ba.2⟩
      · have hsft' : o.isShift = false := by simpa using hsft
        simp only [sfitsV, hc', hsft', Bool.false_eq_true, if_false, Bool.and_eq_true] at h
        simp only [fitsV, hc', hsft', Bool.false_eq_true, if_false, Bool.and_eq_true]
        exact ⟨sfitsV_sound ρ a _ _ h.1, sfitsV_sound ρ b _ _ h.2⟩
  | .cond c a b, W, sg, h => by
    simp only [sfitsV, Bool.and_eq_true] at h
    obtain ⟨⟨hc, ha⟩, hb⟩ := h
    simp only [fitsV, Bool.and_eq_true]
    exact ⟨⟨sfitsV_sound ρ c _ _ hc, sfitsV_sound ρ a _ _ ha⟩, sfitsV_sound ρ b _ _ hb⟩
  | .psel a hi lo, W, sg, h => by
    simp only [sfitsV, Bool.and_eq_true, decide_eq_true_eq] at h
    obtain ⟨⟨⟨ha, hhi⟩, hlo⟩, hf⟩ := h
    simp only [fitsV, Bool.and_eq_true, decide_eq_true_eq]
    have := bounds_sound ρ (.psel a hi lo)
    simp only [bounds, ideal] at this
    exact ⟨⟨⟨sfitsV_sound ρ a _ _ ha, hhi⟩, hlo⟩, fitsAt_of_sfitsAt hf this.1 this.2⟩
  | .bsel a i, W, sg, h => by
    simp only [sfitsV, Bool.and_eq_true, decide_eq_true_eq] at h
    obtain ⟨⟨ha, hi⟩, hf⟩ := h
    simp only [fitsV, Bool.and_eq_true, decide_eq_true_eq]
    have := bounds_sound ρ (.bsel a i)
    simp only [bounds, ideal] at this
    exact ⟨⟨sfitsV_sound ρ a _ _ ha, hi⟩, fitsAt_of_sfitsAt hf this.1 this.2⟩
  | .concat l, W, sg, h => by
    simp only [sfitsV, Bool.and_eq_true] at h
    simp only [fitsV, Bool.and_eq_true]
    have := bounds_sound ρ (.concat l)
    simp only [bounds, ideal] at this
    exact ⟨sfitsConcat_sound ρ l h.1, fitsAt_of_sfitsAt h.2 this.1 this.2⟩
  | .repl n a, W, sg, h => by
    simp only [sfitsV, Bool.and_eq_true] at h
    simp only [fitsV, Bool.and_eq_true]
    have := bounds_sound ρ (.repl n a)
    simp only [bounds, ideal] at this
    exact ⟨sfitsV_sound ρ a _ _ h.1, fitsAt_of_sfitsAt h.2 this.1 this.2⟩
  | .signed a, W, sg, h => by
    simp only [sfitsV, Bool.and_eq_true] at h
    simp only [fitsV, Bool.and_eq_true]
    have := bounds_sound ρ (.signed a)
    simp only [ideal] at this
    exact ⟨sfitsV_sound ρ a _ _ h.1, fitsAt_of_sfitsAt h.2 this.1 this.2⟩
theorem sfitsConcat_sound (ρ : Nat → Int) : ∀ (l : List VExpr), sfitsConcat l = true → fitsConcat ρ l = true
  | [], _ => rfl
  | e :: es, h => by
    simp only [sfitsConcat, Bool.and_eq_true] at h
    simp only [fitsConcat, Bool.and_eq_true]
    exact ⟨sfitsV_sound ρ e _ _ h.1, sfitsConcat_sound ρ es h.2⟩
end

theorem promOk_of_spromOk (ρ : Env) (e : Expr) (b : Bool) (hf : fitsP ρ e = true) (h : spromOk b e = true) :
    promOk ρ b e = true := by
  cases b
  · simp [promOk]
  · simp only [spromOk, Bool.not_true, Bool.false_or] at h
    simp only [promOk, Bool.not_true, Bool.false_or]
    have := bounds_sound ρ (printE e).1
    rw [printE_ideal ρ e hf] at this
    exact inRange_of_bounds h this.1 this.2

/-- Static `condOk` is sound. -/
theorem condOk_of_scondOk (ρ : Env) (c : Expr) (hf : fitsP ρ c = true) (h : scondOk c = true) :
    condOk ρ c = true := by
  simp only [scondOk, Bool.or_eq_true, decide_eq_true_eq] at h
  simp only [condOk, beq_iff_eq, decide_eq_decide]
  rcases h with heq | hb
  · rw [heq]
  · have hb' := bounds_sound ρ (printE c).1
    rw [printE_ideal ρ c hf] at hb'
    have hr := inRange_of_bounds hb hb'.1 hb'.2
    simp only [inRange, Bool.false_eq_true, if_false, Bool.and_eq_true, decide_eq_true_eq] at hr
    have h1 : tn (selfWidth (printE c).1) (evalF ρ c) = evalF ρ c :=
      tn_of_range hr.1 (Int.lt_of_lt_of_le hr.2 (p2_le (Nat.min_le_left _ _)))
    have h2 : tn (bitsSign c).1 (evalF ρ c) = evalF ρ c :=
      tn_of_range hr.1 (Int.lt_of_lt_of_le hr.2 (p2_le (Nat.min_le_right _ _)))
    rw [h1, h2]

mutual
theorem sfitsP_sound (ρ : Env) : ∀ (e : Expr), sfitsP e = true → envOk ρ e = true → fitsP ρ e = true
  | .const v w s, h, _ => by simpa [sfitsP, fitsP] using h
  | .sig i w s, h, he => by
    simp only [sfitsP, decide_eq_true_eq] at h
    simp only [envOk] at he
    simp [fitsP, h, he]
  | .op1 .neg a, h, he => by
    simp only [sfitsP, Bool.and_eq_true] at h
    simp only [envOk] at he
    have ha := sfitsP_sound ρ a h.1 he
    simp only [fitsP, Bool.and_eq_true]
    exact ⟨ha, promOk_of_spromOk ρ a _ ha h.2⟩
  | .op1 .not a, h, he => by
    simp only [sfitsP] at h
    simp only [envOk] at he
    simp only [fitsP]
    exact sfitsP_sound ρ a h he
  | .op2 o a b, h, he => by
    simp only [sfitsP, Bool.and_eq_true, Bool.or_eq_true] at h
    simp only [envOk, Bool.and_eq_true] at he
    obtain ⟨⟨h1, h2⟩, h3⟩ := h
    have ha := sfitsP_sound ρ a h1 he.1
    have hb := sfitsP_sound ρ b h2 he.2
    simp only [fitsP, Bool.and_eq_true, Bool.or_eq_true]
    refine ⟨⟨ha, hb⟩, ?_⟩
    rcases h3 with h3 | h3
    · exact Or.inl h3
    · exact Or.inr ⟨promOk_of_spromOk ρ a _ ha h3.1, promOk_of_spromOk ρ b _ hb h3.2⟩
  | .mux c a b, h, he => by
    simp only [sfitsP, Bool.and_eq_true] at h
    simp only [envOk, Bool.and_eq_true] at he
    obtain ⟨⟨⟨⟨⟨h1, h2⟩, h3⟩, h4⟩, h5⟩, h6⟩ := h
    have hc := sfitsP_sound ρ c h1 he.1.1
    have ha := sfitsP_sound ρ a h2 he.1.2
    have hb := sfitsP_sound ρ b h3 he.2
    simp only [fitsP, Bool.and_eq_true]
    exact ⟨⟨⟨⟨⟨hc, ha⟩, hb⟩, promOk_of_spromOk ρ a _ ha h4⟩, promOk_of_spromOk ρ b _ hb h5⟩,
      condOk_of_scondOk ρ c hc h6⟩
  | .slice a lo hi, h, he => by
    simp only [sfitsP, Bool.and_eq_true] at h
    simp only [envOk] at he
    obtain ⟨⟨⟨h1, h2⟩, h3⟩, h4⟩ := h
    simp only [fitsP, Bool.and_eq_true]
    exact ⟨⟨⟨sfitsP_sound ρ a h1 he, h2⟩, h3⟩, h4⟩
  | .cat l, h, he => by
    simp only [sfitsP] at h
    simp only [envOk] at he
    simp only [fitsP]
    exact sfitsPList_sound ρ l h he
  | .rep a n, h, he => by
    simp only [sfitsP, Bool.and_eq_true] at h
    simp only [envOk] at he
    simp only [fitsP, Bool.and_eq_true]
    exact ⟨⟨sfitsP_sound ρ a h.1.1 he, h.1.2⟩, h.2⟩
theorem sfitsPList_sound (ρ : Env) :
    ∀ (l : List Expr), sfitsPList l = true → envOkList ρ l = true → fitsPList ρ l = true
  | [], _, _ => rfl
  | e :: es, h, he => by
    simp only [sfitsPList, Bool.and_eq_true] at h
    simp only [envOkList, Bool.and_eq_true] at he
    simp only [fitsPList, Bool.and_eq_true]
    exact ⟨⟨sfitsP_sound ρ e h.1.1 he.1, h.1.2⟩, sfitsPList_sound ρ es h.2 he.2⟩
end

end Litex.C01
