import LitexProofs.Fhdl.PrintIdeal
namespace Litex.C01

theorem printE_correct (ρ : Env) (e : Expr) (W : Nat)
    (hW : selfWidth (printE e).1 ≤ W) (h : Fits ρ e W = true) :
    evalV ρ W (selfSigned (printE e).1) (printE e).1 = tn W (evalF ρ e) := by
  simp only [Fits, Bool.and_eq_true] at h
  rw [evalV_ideal ρ _ W _ hW h.2, printE_ideal ρ e h.1]

theorem assign_correct (ρ : Env) (e : Expr) (lw : Nat)
    (h : Fits ρ e (max lw (selfWidth (printE e).1)) = true) :
    assignV ρ lw (printE e).1 = storeF ρ lw e := by
  unfold assignV storeF
  rw [printE_correct ρ e _ (Nat.le_max_right _ _) h, tn_tn (Nat.le_max_left _ _)]

end Litex.C01
