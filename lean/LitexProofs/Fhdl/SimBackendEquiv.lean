import LitexProofs.Fhdl.SimFilter
/-
  The simulation-flavoured comb back-end (`convert(regular_comb=False)`): the per-target `always @(*)` blocks /
  continuous assignments emitted by `_generate_combinatorial_logic_sim` together compute what the simulator
  computes on the unfiltered statement list — block level, comb pass, settle loop, whole runs.
-/
namespace Litex.C01

/-! ### the printer with the filter executes like the unfiltered printer on the filtered statements -/

theorem itemsWidth_printItemsF (t : Nat) : ∀ items,
    itemsWidth (printItemsF t items) = itemsWidth (printItems (filterItems t items))
  | .nil => rfl
  | .cons k kw ks body rest => by
    simp only [printItemsF, filterItems, printItems, itemsWidth, itemsWidth_printItemsF t rest]

theorem itemsSigned_printItemsF (t : Nat) : ∀ items,
    itemsSigned (printItemsF t items) = itemsSigned (printItems (filterItems t items))
  | .nil => rfl
  | .cons k kw ks body rest => by
    simp only [printItemsF, filterItems, printItems, itemsSigned, itemsSigned_printItemsF t rest]

theorem printSs_cons_filterS (t : Nat) (s : Stmt) (ht : t ∈ targetsS s) (rest : Stmts) :
    printSs (.cons (filterS t s) rest) = .cons (printS (filterS t s)) (printSs rest) := by
  cases s with
  | assign l r => simp [filterS, printSs]
  | ite c a b => simp [filterS, printSs]
  | case test items hasD d =>
    cases items with
    | cons k kw ks body rest' => simp [filterS, filterItems, printSs]
    | nil =>
      cases hasD with
      | false => simp [targetsS, targetsItems] at ht
      | true => simp [filterS, filterItems, printSs]

mutual
theorem execV_printSF (ρ : Nat → Int) (t : Nat) : ∀ (s : Stmt) (p : Pending),
    execV ρ (printSF t s) p = execV ρ (printS (filterS t s)) p
  | .assign l r, p => rfl
  | .ite c a b, p => by
    simp only [printSF, filterS, printS, execV, execVs_printSsF ρ t a, execVs_printSsF ρ t b]
  | .case test items hasD d, p => by
    simp only [printSF, filterS, printS, execV, itemsWidth_printItemsF, itemsSigned_printItemsF,
      execVItems_printItemsF ρ t, execVs_printSsF ρ t d]
theorem execVs_printSsF (ρ : Nat → Int) (t : Nat) : ∀ (ss : Stmts) (p : Pending),
    execVs ρ (printSsF t ss) p = execVs ρ (printSs (filterSs t ss)) p
  | .nil, p => rfl
  | .cons s ss, p => by
    by_cases ht : t ∈ targetsS s
    · simp only [printSsF, filterSs, if_pos ht]
      rw [printSs_cons_filterS t s ht]
      simp only [execVs, execV_printSF ρ t s, execVs_printSsF ρ t ss]
    · simp only [printSsF, filterSs, if_neg ht]
      exact execVs_printSsF ρ t ss p
theorem execVItems_printItemsF (ρ : Nat → Int) (t : Nat) : ∀ (items : Items) (W : Nat) (sg : Bool) (tv : Int)
    (p : Pending), execVItems ρ W sg tv (printItemsF t items) p =
      execVItems ρ W sg tv (printItems (filterItems t items)) p
  | .nil, _, _, _, _ => rfl
  | .cons k kw ks body rest, W, sg, tv, p => by
    simp only [printItemsF, filterItems, printItems, execVItems, execVs_printSsF ρ t body,
      execVItems_printItemsF ρ t rest]
end

/-! ### the side conditions survive the filter -/

theorem itemsOk_filterItems (t : Nat) : ∀ items, itemsOk (filterItems t items) = itemsOk items
  | .nil => rfl
  | .cons k kw ks body rest => by simp only [filterItems, itemsOk, itemsOk_filterItems t rest]

theorem itemsIn_filterItems (t W : Nat) (sg : Bool) : ∀ items, itemsIn W sg (filterItems t items) = itemsIn W sg items
  | .nil => rfl
  | .cons k kw ks body rest => by simp only [filterItems, itemsIn, itemsIn_filterItems t W sg rest]

theorem itemsWidth_filterItems (t : Nat) : ∀ items,
    itemsWidth (printItems (filterItems t items)) = itemsWidth (printItems items)
  | .nil => rfl
  | .cons k kw ks body rest => by simp only [filterItems, printItems, itemsWidth, itemsWidth_filterItems t rest]

theorem itemsSigned_filterItems (t : Nat) : ∀ items,
    itemsSigned (printItems (filterItems t items)) = itemsSigned (printItems items)
  | .nil => rfl
  | .cons k kw ks body rest => by simp only [filterItems, printItems, itemsSigned, itemsSigned_filterItems t rest]

theorem fitsCase_filter (ρ : Env) (t : Nat) (test : Expr) (items : Items) :
    fitsCase ρ test (filterItems t items) = fitsCase ρ test items := by
  simp only [fitsCase, itemsWidth_filterItems, itemsSigned_filterItems, itemsOk_filterItems, itemsIn_filterItems]

mutual
theorem fitsS_filterS (ρ : Env) (t : Nat) : ∀ s, fitsS ρ s = true → fitsS ρ (filterS t s) = true
  | .assign l r, h => h
  | .ite c a b, h => by
    simp only [fitsS, Bool.and_eq_true] at h
    simp only [filterS, fitsS, Bool.and_eq_true]
    exact ⟨⟨h.1.1, fitsSs_filterSs ρ t a h.1.2⟩, fitsSs_filterSs ρ t b h.2⟩
  | .case test items hasD d, h => by
    simp only [fitsS, Bool.and_eq_true] at h
    simp only [filterS, fitsS, Bool.and_eq_true, fitsCase_filter]
    exact ⟨⟨h.1.1, fitsItems_filterItems ρ t items h.1.2⟩, fitsSs_filterSs ρ t d h.2⟩
theorem fitsSs_filterSs (ρ : Env) (t : Nat) : ∀ ss, fitsSs ρ ss = true → fitsSs ρ (filterSs t ss) = true
  | .nil, _ => rfl
  | .cons s ss, h => by
    simp only [fitsSs, Bool.and_eq_true] at h
    simp only [filterSs]
    split
    · simp only [fitsSs, Bool.and_eq_true]
      exact ⟨fitsS_filterS ρ t s h.1, fitsSs_filterSs ρ t ss h.2⟩
    · exact fitsSs_filterSs ρ t ss h.2
theorem fitsItems_filterItems (ρ : Env) (t : Nat) : ∀ items, fitsItems ρ items = true →
    fitsItems ρ (filterItems t items) = true
  | .nil, _ => rfl
  | .cons k kw ks body rest, h => by
    simp only [fitsItems, Bool.and_eq_true] at h
    simp only [filterItems, fitsItems, Bool.and_eq_true]
    exact ⟨fitsSs_filterSs ρ t body h.1, fitsItems_filterItems ρ t rest h.2⟩
end

mutual
theorem wfSE_filterS (wd : Nat → Nat) (t : Nat) : ∀ s, wfSE wd s → wfSE wd (filterS t s)
  | .assign l r, h => h
  | .ite c a b, h => by
    simp only [wfSE] at h
    simp only [filterS, wfSE]
    exact ⟨h.1, wfSEs_filterSs wd t a h.2.1, wfSEs_filterSs wd t b h.2.2⟩
  | .case test items hasD d, h => by
    simp only [wfSE] at h
    simp only [filterS, wfSE]
    exact ⟨h.1, wfSEItems_filterItems wd t items h.2.1, wfSEs_filterSs wd t d h.2.2⟩
theorem wfSEs_filterSs (wd : Nat → Nat) (t : Nat) : ∀ ss, wfSEs wd ss → wfSEs wd (filterSs t ss)
  | .nil, _ => trivial
  | .cons s ss, h => by
    simp only [wfSEs] at h
    simp only [filterSs]
    split
    · simp only [wfSEs]
      exact ⟨wfSE_filterS wd t s h.1, wfSEs_filterSs wd t ss h.2⟩
    · exact wfSEs_filterSs wd t ss h.2
theorem wfSEItems_filterItems (wd : Nat → Nat) (t : Nat) : ∀ items, wfSEItems wd items →
    wfSEItems wd (filterItems t items)
  | .nil, _ => trivial
  | .cons k kw ks body rest, h => by
    simp only [wfSEItems] at h
    simp only [filterItems, wfSEItems]
    exact ⟨wfSEs_filterSs wd t body h.1, wfSEItems_filterItems wd t rest h.2⟩
end

/-! sorting the case items keeps `leafTargets` -/

theorem leafTargetsItems_insertItem (k : Int) (kw : Nat) (ks : Bool) (body : Stmts) : ∀ items,
    leafTargetsItems (insertItem k kw ks body items) = (leafTargetsSs body && leafTargetsItems items)
  | .nil => rfl
  | .cons k' kw' ks' body' rest => by
    simp only [insertItem]
    split
    · simp only [leafTargetsItems]
    · simp only [leafTargetsItems, leafTargetsItems_insertItem k kw ks body rest]
      cases leafTargetsSs body <;> cases leafTargetsSs body' <;> simp

theorem leafTargetsItems_sortItems : ∀ items, leafTargetsItems (sortItems items) = leafTargetsItems items
  | .nil => rfl
  | .cons k kw ks body rest => by
    simp only [sortItems, leafTargetsItems_insertItem, leafTargetsItems, leafTargetsItems_sortItems rest]

mutual
theorem leafTargetsS_sortS : ∀ s, leafTargetsS (sortS s) = leafTargetsS s
  | .assign l r => rfl
  | .ite c a b => by simp only [sortS, leafTargetsS, leafTargetsSs_sortSs a, leafTargetsSs_sortSs b]
  | .case test items hasD d => by
    simp only [sortS, leafTargetsS, leafTargetsItems_sortItems, leafTargetsItems_sortBodies items,
      leafTargetsSs_sortSs d]
theorem leafTargetsSs_sortSs : ∀ ss, leafTargetsSs (sortSs ss) = leafTargetsSs ss
  | .nil => rfl
  | .cons s ss => by simp only [sortSs, leafTargetsSs, leafTargetsS_sortS s, leafTargetsSs_sortSs ss]
theorem leafTargetsItems_sortBodies : ∀ items, leafTargetsItems (sortBodies items) = leafTargetsItems items
  | .nil => rfl
  | .cons k kw ks body rest => by
    simp only [sortBodies, leafTargetsItems, leafTargetsSs_sortSs body, leafTargetsItems_sortBodies rest]
end

/-! ### membership of a single surviving top-level statement -/

def memSs (s : Stmt) : Stmts → Prop
  | .nil => False
  | .cons s' ss => s = s' ∨ memSs s ss

theorem memSs_of_stmtsFor (t : Nat) (s : Stmt) : ∀ (ss : Stmts), stmtsFor t ss = .cons s .nil → memSs s ss
  | .nil, h => by simp [stmtsFor] at h
  | .cons s' ss, h => by
    simp only [stmtsFor] at h
    split at h
    · injection h with h1 _
      exact Or.inl h1.symm
    · exact Or.inr (memSs_of_stmtsFor t s ss h)

theorem fitsS_of_mem (ρ : Env) (s : Stmt) : ∀ ss, memSs s ss → fitsSs ρ ss = true → fitsS ρ s = true
  | .nil, h, _ => h.elim
  | .cons s' ss, h, hf => by
    simp only [fitsSs, Bool.and_eq_true] at hf
    rcases h with h | h
    · subst h; exact hf.1
    · exact fitsS_of_mem ρ s ss h hf.2

theorem wfSE_of_mem (wd : Nat → Nat) (s : Stmt) : ∀ ss, memSs s ss → wfSEs wd ss → wfSE wd s
  | .nil, h, _ => h.elim
  | .cons s' ss, h, hf => by
    simp only [wfSEs] at hf
    rcases h with h | h
    · subst h; exact hf.1
    · exact wfSE_of_mem wd s ss h hf.2

theorem useWire_some {x : Stmts} {l r : Expr} (h : useWire x = some (l, r)) :
    x = .cons (.assign l r) .nil ∧ ∀ a lo hi, l ≠ .slice a lo hi := by
  unfold useWire at h
  split at h
  · rename_i l' r'
    split at h
    · cases h
    · rename_i hns
      injection h with h
      injection h with h1 h2
      subst h1; subst h2
      exact ⟨rfl, fun a lo hi he => hns a lo hi he⟩
  · cases h

/-! ### resets -/

theorem mem_insertByName (sigs : Array SigDecl) (i u : Nat) : ∀ (l : List Nat),
    u ∈ insertByName sigs i l ↔ u = i ∨ u ∈ l
  | [] => by simp [insertByName]
  | j :: js => by
    simp only [insertByName]
    split
    · simp
    · simp only [List.mem_cons, mem_insertByName sigs i u js]
      constructor
      · rintro (h | h | h)
        · exact Or.inr (Or.inl h)
        · exact Or.inl h
        · exact Or.inr (Or.inr h)
      · rintro (h | h | h)
        · exact Or.inr (Or.inl h)
        · exact Or.inl h
        · exact Or.inr (Or.inr h)

theorem mem_sortByName (sigs : Array SigDecl) (u : Nat) : ∀ (l : List Nat), u ∈ sortByName sigs l ↔ u ∈ l
  | [] => by simp [sortByName]
  | i :: is => by simp [sortByName, mem_insertByName, mem_sortByName sigs u is]

/-- The value the reset default stores into signal `u`. -/
def resetVal (sigs : Array SigDecl) (u : Nat) : Int :=
  truncS (sigs.getD u default).w (sigs.getD u default).s (sigs.getD u default).reset

theorem lookup_resetStmts (sigs : Array SigDecl) (ρ : Env) (u : Nat) : ∀ (l : List Nat) (m : Mods),
    lookupM (execFs ρ (resetStmts sigs l) m) u = if u ∈ l then some (resetVal sigs u) else lookupM m u
  | [], m => by simp [resetStmts, execFs]
  | i :: is, m => by
    simp only [resetStmts, execFs, execF, assignT, evalF]
    rw [lookup_resetStmts sigs ρ u is, lookupM_cons]
    by_cases h1 : u ∈ is
    · simp [h1]
    · by_cases h2 : i = u
      · subst h2; simp [h1, resetVal]
      · have : ¬ u = i := fun h => h2 h.symm
        simp [h1, h2, this]

theorem resetsOk_of_mem (sigs : Array SigDecl) (t : Nat) : ∀ (l : List Nat), resetsOk sigs l = true → t ∈ l →
    resetsOk sigs [t] = true
  | [], _, h => by simp at h
  | i :: is, hr, h => by
    simp only [resetsOk, Bool.and_eq_true] at hr
    simp only [List.mem_cons] at h
    rcases h with h | h
    · subst h; simp only [resetsOk, Bool.and_eq_true]; exact ⟨hr.1, trivial⟩
    · exact resetsOk_of_mem sigs t is hr.2 h

/-! ### one target -/

/-- What a comb group must satisfy in state `ρ` for the per-target back-end. -/
def GroupOkSim (sigs : Array SigDecl) (ρ : Env) (g : CombGroup) : Prop :=
  wfSEs (wdOf sigs) g.stmts ∧ distinctSs g.stmts ∧ fitsSs ρ g.stmts = true ∧
  resetsOk sigs g.targets = true ∧ leafTargetsSs g.stmts = true ∧
  g.targets.Nodup ∧ ∀ u ∈ targetsSs g.stmts, u ∈ g.targets

theorem target_step (sigs : Array SigDecl) (ρ : Env) (g : CombGroup) (hg : GroupOkSim sigs ρ g) (m0 : Mods)
    (t : Nat) (ht : t ∈ g.targets) (M : Mods) (p : Pending) (h : Rel (wdOf sigs) ρ M p) :
    ∃ M', Rel (wdOf sigs) ρ M' (combStepV (bitsEnv (wdOf sigs) ρ) p (printTargetSim sigs g.stmts t)) ∧
      (∀ u, u ≠ t → lookupM M' u = lookupM M u) ∧
      lookupM M' t = lookupM (combStepF sigs ρ m0 g) t := by
  obtain ⟨hwf, hd, hf, hr, hleaf, _, _⟩ := hg
  have hMr : lookupM (execFs ρ (resetStmts sigs (sortByName sigs g.targets)) m0) t = some (resetVal sigs t) := by
    rw [lookup_resetStmts, if_pos ((mem_sortByName sigs t _).2 ht)]
  unfold printTargetSim
  cases hw : useWire (stmtsFor t g.stmts) with
  | none =>
    simp only [combStepV]
    have hS_fit : fitsSs ρ (sortSs g.stmts) = true := by rw [fitsSs_sortSs]; exact hf
    have hS_wf : wfSEs (wdOf sigs) (sortSs g.stmts) := (wfSEs_sortSs _ _).2 hwf
    have hS_leaf : leafTargetsSs (sortSs g.stmts) = true := by rw [leafTargetsSs_sortSs]; exact hleaf
    have hrt : resetsOk sigs [t] = true := resetsOk_of_mem sigs t _ hr ht
    -- defaults
    have h1 : Rel (wdOf sigs) ρ (execFs ρ (resetStmts sigs [t]) M)
        (execVs ρ (printSs (resetStmts sigs [t])) p) :=
      rel_execSs _ ρ _ M p h (fits_resetStmts ρ sigs _ hrt) (wf_resetStmts sigs _)
    -- filtered statements
    have h2 := rel_execSs (wdOf sigs) ρ (filterSs t (sortSs g.stmts)) _ _ h1
      (fitsSs_filterSs ρ t _ hS_fit) (wfSs_of_wfSEs _ _ (wfSEs_filterSs _ t _ hS_wf))
    refine ⟨execFs ρ (filterSs t (sortSs g.stmts)) (execFs ρ (resetStmts sigs [t]) M), ?_, ?_, ?_⟩
    · rw [execVs_append, execVs_congr _ ρ _ p (wfVSs_printSs _ _ (wfSEs_resetStmts sigs [t]))]
      unfold printStmtsF
      rw [execVs_printSsF, execVs_congr _ ρ _ _ (wfVSs_printSs _ _ (wfSEs_filterSs _ t _ hS_wf))]
      exact h2
    · intro u hu
      rw [filter_otherSs ρ t u hu _ hS_leaf, lookup_resetStmts]
      simp [hu]
    · unfold combStepF
      rw [← execFs_sortSs ρ g.stmts hd]
      apply filter_sameSs ρ t _ hS_leaf
      rw [hMr, lookup_resetStmts]
      simp
  | some lr =>
    obtain ⟨l, r⟩ := lr
    obtain ⟨hx, hns⟩ := useWire_some hw
    have hmem := memSs_of_stmtsFor t _ _ hx
    have hfs := fitsS_of_mem ρ _ _ hmem hf
    have hws := wfSE_of_mem _ _ _ hmem hwf
    have hls := leaf_of_stmtsFor t _ _ hleaf hx
    have htl := mem_targets_of_stmtsFor t _ _ hx
    simp only [leafTargetsS] at hls
    simp only [targetsS] at htl
    cases l with
    | sig i w s =>
      simp only [targetsE, List.mem_singleton] at htl
      subst htl
      simp only [fitsS, fitsAssign, Bool.and_eq_true, targetOk, leafOk, decide_eq_true_eq] at hfs
      simp only [wfSE, wfE] at hws
      have hsw : selfWidth (printE (Expr.sig t w s)).1 = w := by simp [printE, selfWidth]
      rw [hsw] at hfs
      have hstep : Rel (wdOf sigs) ρ (assignT ρ (.sig t w s) (evalF ρ r) M)
          (nbaAssign (printE (.sig t w s)).1 (assignV ρ w (printE r).1) p) := by
        apply rel_target h (.sig t w s) (by simp [targetOk, leafOk, hfs.1]) hws.1
        rw [assign_correct ρ r w hfs.2]
        simp only [bitsSign, storeF, tn_tn_same]
      refine ⟨assignT ρ (.sig t w s) (evalF ρ r) M, ?_, ?_, ?_⟩
      · simp only [combStepV, hsw]
        rw [assignV_congr _ ρ _ _ (wfV_printE _ r hws.2)]
        exact hstep
      · intro u hu
        simp only [assignT, lookupM_cons]
        rw [if_neg (fun hh => hu hh.symm)]
      · unfold combStepF
        rw [← filter_sameSs ρ t g.stmts hleaf _ _ rfl, filterSs_of_stmtsFor_assign t _ _ _ hx]
        simp only [execFs, execF, assignT, lookupM_cons, if_true]
    | slice a lo hi => exact absurd rfl (hns a lo hi)
    | const v w s => simp [leafOk] at hls
    | op1 o a => simp [leafOk] at hls
    | op2 o a b => simp [leafOk] at hls
    | mux c a b => simp [leafOk] at hls
    | cat es => simp [leafOk] at hls
    | rep a n => simp [leafOk] at hls

theorem targets_fold (sigs : Array SigDecl) (ρ : Env) (g : CombGroup) (hg : GroupOkSim sigs ρ g) (m0 : Mods) :
    ∀ (ts : List Nat), (∀ t ∈ ts, t ∈ g.targets) → ts.Nodup → ∀ (M : Mods) (p : Pending),
      Rel (wdOf sigs) ρ M p →
      ∃ M', Rel (wdOf sigs) ρ M'
          ((ts.map (printTargetSim sigs g.stmts)).foldl (combStepV (bitsEnv (wdOf sigs) ρ)) p) ∧
        ∀ u, lookupM M' u = if u ∈ ts then lookupM (combStepF sigs ρ m0 g) u else lookupM M u
  | [], _, _, M, p, h => ⟨M, by simpa using h, by simp⟩
  | t :: ts, hsub, hnd, M, p, h => by
    simp only [List.nodup_cons] at hnd
    obtain ⟨M1, hr1, ho1, hs1⟩ := target_step sigs ρ g hg m0 t (hsub t (by simp)) M p h
    obtain ⟨M2, hr2, hl2⟩ := targets_fold sigs ρ g hg m0 ts (fun x hx => hsub x (by simp [hx])) hnd.2 M1 _ hr1
    refine ⟨M2, by simpa [List.map_cons, List.foldl_cons] using hr2, ?_⟩
    intro u
    rw [hl2 u]
    by_cases hu : u ∈ ts
    · simp [hu]
    · by_cases hut : u = t
      · subst hut; simp [hu, hs1]
      · simp [hu, hut, ho1 u hut]

/-- **Per-target blocks = unfiltered statement list** (one group): the items `_generate_combinatorial_logic_sim`
    emits for the targets of a group, executed together, keep `Rel` with the simulator's default-then-statements
    evaluation of the whole group. -/
theorem sim_group_step (sigs : Array SigDecl) (ρ : Env) (g : CombGroup) (m : Mods) (p : Pending)
    (h : Rel (wdOf sigs) ρ m p) (hg : GroupOkSim sigs ρ g) :
    Rel (wdOf sigs) ρ (combStepF sigs ρ m g)
      ((printCombGroupSim sigs g).foldl (combStepV (bitsEnv (wdOf sigs) ρ)) p) := by
  obtain ⟨M', hr, hl⟩ := targets_fold sigs ρ g hg m g.targets (fun _ h => h) hg.2.2.2.2.2.1 m p h
  unfold printCombGroupSim
  apply rel_congr _ hr
  intro u
  apply readPost_of_lookup
  rw [hl u]
  by_cases hu : u ∈ g.targets
  · simp [hu]
  · simp only [hu, if_false]
    unfold combStepF
    rw [nowriteSs ρ u g.stmts hg.2.2.2.2.1 (fun hh => hu (hg.2.2.2.2.2.2 u hh)), lookup_resetStmts,
      if_neg (fun hh => hu ((mem_sortByName sigs u _).1 hh))]

theorem rel_comb_fold_sim (sigs : Array SigDecl) (ρ : Env) :
    ∀ (gs : List CombGroup) (m : Mods) (p : Pending), Rel (wdOf sigs) ρ m p → (∀ g ∈ gs, GroupOkSim sigs ρ g) →
      Rel (wdOf sigs) ρ (gs.foldl (combStepF sigs ρ) m)
        ((gs.flatMap (printCombGroupSim sigs)).foldl (combStepV (bitsEnv (wdOf sigs) ρ)) p)
  | [], m, p, h, _ => by simpa using h
  | g :: gs, m, p, h, hg => by
    simp only [List.foldl_cons, List.flatMap_cons, List.foldl_append]
    exact rel_comb_fold_sim sigs ρ gs _ _ (sim_group_step sigs ρ g m p h (hg g (by simp)))
      (fun g' hg' => hg g' (by simp [hg']))

/-! ### module level -/

theorem rel_combPass_sim (f : FModule) (aF aV : Array Int) (h : StRel f.sigs aF aV)
    (hg : ∀ g ∈ f.comb, GroupOkSim f.sigs (envA aF) g) :
    Rel (wdOf f.sigs) (envA aF) (combPassF f aF) (combPassV (printModuleSim f) aV) := by
  rw [combPassF_eq, combPassV_eq, envA_bits h]
  unfold printModuleSim
  rw [List.foldl_append, combStepV_sync_fold]
  exact rel_comb_fold_sim f.sigs (envA aF) f.comb [] [] (rel_nil _ _) hg

theorem stRel_iter_sim (f : FModule) (aF aV : Array Int) (h : StRel f.sigs aF aV)
    (hg : ∀ g ∈ f.comb, GroupOkSim f.sigs (envA aF) g) :
    StRel f.sigs (iterF f aF) (iterV f.sigs (printModuleSim f) aV) :=
  stRel_commit h (rel_combPass_sim f aF aV h hg)

theorem syncStepV_targets_fold (sigs : Array SigDecl) (ρ : Nat → Int) (clks : List Nat) (ss : Stmts) :
    ∀ (ts : List Nat) (p : Pending), (ts.map (printTargetSim sigs ss)).foldl (syncStepV ρ clks) p = p
  | [], p => rfl
  | t :: ts, p => by
    simp only [List.map_cons, List.foldl_cons]
    have : syncStepV ρ clks p (printTargetSim sigs ss t) = p := by
      unfold printTargetSim
      split <;> rfl
    rw [this]
    exact syncStepV_targets_fold sigs ρ clks ss ts p

theorem syncStepV_comb_fold_sim (sigs : Array SigDecl) (ρ : Nat → Int) (clks : List Nat) :
    ∀ (gs : List CombGroup) (p : Pending),
      (gs.flatMap (printCombGroupSim sigs)).foldl (syncStepV ρ clks) p = p
  | [], p => rfl
  | g :: gs, p => by
    simp only [List.flatMap_cons, List.foldl_append]
    unfold printCombGroupSim
    rw [syncStepV_targets_fold]
    exact syncStepV_comb_fold_sim sigs ρ clks gs p

theorem stRel_sync_sim (f : FModule) (aF aV : Array Int) (clks : List Nat) (h : StRel f.sigs aF aV)
    (hd : ∀ d ∈ sortDoms f.sync, DomOk f.sigs (envA aF) d) :
    StRel f.sigs (commitF aF (syncPassF f aF clks)) (commitV f.sigs aV (syncPassV (printModuleSim f) aV clks)) := by
  apply stRel_commit h
  rw [syncPassV_eq, envA_bits h]
  unfold printModuleSim syncPassF
  rw [List.foldl_append, syncStepV_comb_fold_sim]
  exact rel_sync_fold f.sigs (envA aF) clks (sortDoms f.sync) [] [] (rel_nil _ _) hd

def SettleOkSim (f : FModule) : Nat → Array Int → Prop
  | 0, _ => True
  | fuel + 1, a => (∀ g ∈ f.comb, GroupOkSim f.sigs (envA a) g) ∧ SettleOkSim f fuel (iterF f a)

theorem stRel_settle_sim (f : FModule) :
    ∀ (fuel : Nat) (aF aV : Array Int), StRel f.sigs aF aV → SettleOkSim f fuel aF →
      iterF f (settleF f fuel aF) = settleF f fuel aF →
      StRel f.sigs (settleF f fuel aF) (settleV f.sigs (printModuleSim f) fuel aV)
  | 0, aF, aV, h, _, _ => by simpa [settleF, settleV] using h
  | fuel + 1, aF, aV, h, hok, hfix => by
    simp only [SettleOkSim] at hok
    have hstep := stRel_iter_sim f aF aV h hok.1
    by_cases hF : iterF f aF = aF
    · have hV : iterV f.sigs (printModuleSim f) aV = aV := by
        rw [hF] at hstep
        exact stRel_eq_of_eq h hstep
      simp only [settleF, settleV, hF, hV, beq_self_eq_true, if_true]
      exact h
    · have hF' : (iterF f aF == aF) = false := by simpa using hF
      simp only [settleF, hF', Bool.false_eq_true, if_false] at hfix ⊢
      have ih := stRel_settle_sim f fuel (iterF f aF) (iterV f.sigs (printModuleSim f) aV) hstep hok.2 hfix
      by_cases hV : iterV f.sigs (printModuleSim f) aV = aV
      · simp only [settleV, hV, beq_self_eq_true, if_true]
        rw [hV] at ih
        rwa [settleV_fix _ _ aV hV fuel] at ih
      · have hV' : (iterV f.sigs (printModuleSim f) aV == aV) = false := by simpa using hV
        simp only [settleV, hV', Bool.false_eq_true, if_false]
        exact ih

def RunOkSim (f : FModule) (fuel : Nat) : Array Int → List Cycle → Prop
  | _, [] => True
  | a, c :: cs =>
    SettleOkSim f fuel (setInputsF f.sigs a c.ins) ∧
    iterF f (settledF f fuel a c) = settledF f fuel a c ∧
    (∀ d ∈ sortDoms f.sync, DomOk f.sigs (envA (settledF f fuel a c)) d) ∧
    RunOkSim f fuel (edgeF f (settledF f fuel a c) c) cs

theorem run_equiv_sim (f : FModule) (fuel : Nat) :
    ∀ (cs : List Cycle) (aF aV : Array Int), StRel f.sigs aF aV → RunOkSim f fuel aF cs →
      List.Forall₂ (StRel f.sigs) (runF f fuel aF cs) (runV f.sigs (printModuleSim f) fuel aV cs)
  | [], _, _, _, _ => List.Forall₂.nil
  | c :: cs, aF, aV, h, hok => by
    simp only [RunOkSim] at hok
    obtain ⟨hs, hfix, hd, hrest⟩ := hok
    have h1 : StRel f.sigs (settledF f fuel aF c) (settledV f.sigs (printModuleSim f) fuel aV c) :=
      stRel_settle_sim f fuel _ _ (stRel_setInputs f.sigs c.ins aF aV h) hs hfix
    have h2 := stRel_sync_sim f _ _ c.clks h1 hd
    simp only [runF, runV]
    exact List.Forall₂.cons h1 (run_equiv_sim f fuel cs _ _ h2 hrest)

end Litex.C01
