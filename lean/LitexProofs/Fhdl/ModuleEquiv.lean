import LitexProofs.Fhdl.SortInvariant
/-
  Comb groups and sync domains: the item printed by `_generate_combinatorial_logic_synth` /
  `_generate_synchronous_logic` keeps the update queue in correspondence with the simulator's modifications.
-/
namespace Litex.C01

theorem execVs_append (ρ : Nat → Int) : ∀ (a b : VStmts) (p : Pending),
    execVs ρ (VStmts.append a b) p = execVs ρ b (execVs ρ a p)
  | .nil, b, p => rfl
  | .cons s ss, b, p => by simp only [VStmts.append, execVs, execVs_append ρ ss b]

/-- Declared widths. -/
def wdOf (sigs : Array SigDecl) : Nat → Nat := widthOf sigs

/-- The reset value of every listed signal is printable in its declared width/sign (`constOk`). -/
def resetsOk (sigs : Array SigDecl) : List Nat → Bool
  | [] => true
  | i :: is =>
    constOk (sigs.getD i default).reset (sigs.getD i default).w (sigs.getD i default).s && resetsOk sigs is

theorem fitsV_printConst (ρ : Nat → Int) (v : Int) (w : Nat) (s sg : Bool) (hw : 0 < w) :
    fitsV ρ (printConst v w s).1 w sg = true := by
  cases s
  · simp only [printConst, Bool.false_eq_true, if_false]
    unfold printConstU
    split <;> simp [fitsV, fitsAt, hw]
  · simp [printConst, fitsV, fitsAt, hw]

theorem fits_resetStmts (ρ : Env) (sigs : Array SigDecl) :
    ∀ (l : List Nat), resetsOk sigs l = true → fitsSs ρ (resetStmts sigs l) = true
  | [], _ => rfl
  | i :: is, h => by
    simp only [resetsOk, Bool.and_eq_true] at h
    have hw0 : 0 < (sigs.getD i default).w := by
      have := h.1
      simp only [constOk, Bool.and_eq_true, decide_eq_true_eq] at this
      exact this.2
    simp only [resetStmts, fitsSs, fitsS, fitsAssign, targetOk, leafOk, Fits, fitsP, Bool.and_eq_true,
      decide_eq_true_eq]
    refine ⟨⟨hw0, h.1, ?_⟩, fits_resetStmts ρ sigs is h.2⟩
    have hsw : selfWidth (printE (Expr.const (sigs.getD i default).reset (sigs.getD i default).w
        (sigs.getD i default).s)).1 = (sigs.getD i default).w := by
      simp only [printE]; exact selfWidth_printConst _ _ _
    have hsw2 : selfWidth (printE (Expr.sig i (sigs.getD i default).w (sigs.getD i default).s)).1
        = (sigs.getD i default).w := by simp [printE, selfWidth]
    rw [hsw, hsw2, Nat.max_self]
    simp only [printE]
    exact fitsV_printConst ρ _ _ _ _ hw0

theorem wf_resetStmts (sigs : Array SigDecl) : ∀ (l : List Nat), wfSs (wdOf sigs) (resetStmts sigs l)
  | [] => trivial
  | i :: is => by
    simp only [resetStmts, wfSs, wfS, wfTarget, wfLeaf, wdOf, widthOf]
    exact ⟨trivial, wf_resetStmts sigs is⟩

theorem distinct_resetStmts (sigs : Array SigDecl) : ∀ (l : List Nat), distinctSs (resetStmts sigs l)
  | [] => trivial
  | i :: is => by
    simp only [resetStmts, distinctSs, distinctS]
    exact ⟨trivial, distinct_resetStmts sigs is⟩

theorem sortSs_resetStmts (sigs : Array SigDecl) : ∀ (l : List Nat), sortSs (resetStmts sigs l) = resetStmts sigs l
  | [] => rfl
  | i :: is => by simp only [resetStmts, sortSs, sortS, sortSs_resetStmts sigs is]

/-- **comb_block_equiv** — a group printed as `always @(*)`: defaults (reset values, sorted by name) then the
    statements, all non-blocking. -/
theorem comb_block_equiv (sigs : Array SigDecl) (ρ : Env) (g : CombGroup) (m : Mods) (p : Pending)
    (body : VStmts) (hprint : printCombGroup sigs g = .comb body)
    (h : Rel (wdOf sigs) ρ m p)
    (hr : resetsOk sigs (sortByName sigs g.targets) = true)
    (hd : distinctSs g.stmts) (hf : fitsSs ρ g.stmts = true) (hw : wfSs (wdOf sigs) g.stmts) :
    Rel (wdOf sigs) ρ
      (execFs ρ g.stmts (execFs ρ (resetStmts sigs (sortByName sigs g.targets)) m))
      (execVs ρ body p) := by
  unfold printCombGroup at hprint
  split at hprint
  · cases hprint
  · injection hprint with hb
    subst hb
    rw [execVs_append]
    apply rel_printStmts _ ρ g.stmts _ _ _ hd hf hw
    have := rel_printStmts (wdOf sigs) ρ (resetStmts sigs (sortByName sigs g.targets)) m p h
      (distinct_resetStmts sigs _) (fits_resetStmts ρ sigs _ hr) (wf_resetStmts sigs _)
    unfold printStmts at this
    rwa [sortSs_resetStmts] at this

theorem readPost_shadow (ρ : Env) (m : Mods) (i : Nat) (v v0 : Int) (j : Nat) :
    readPost ρ ((i, v) :: (i, v0) :: m) j = readPost ρ ((i, v) :: m) j := by
  simp only [readPost_cons]; split <;> rfl

theorem rel_congr {wd : Nat → Nat} {ρ : Env} {m m' : Mods} {p : Pending}
    (hv : ∀ i, readPost ρ m i = readPost ρ m' i) (h : Rel wd ρ m p) : Rel wd ρ m' p := by
  intro i; rw [← hv i]; exact h i

/-- **wire_vs_always** — a group consisting of one whole-signal assignment is printed as a continuous
    `assign`; the simulator's default-then-assign leaves the same view. -/
theorem wire_group_equiv (sigs : Array SigDecl) (ρ : Env) (i w : Nat) (s : Bool) (r : Expr) (m : Mods) (p : Pending)
    (h : Rel (wdOf sigs) ρ m p) (hwd : w = wdOf sigs i) (hw0 : 0 < w)
    (hf : Fits ρ r (max w (selfWidth (printE r).1)) = true) :
    let g : CombGroup := { targets := [i], stmts := .cons (.assign (.sig i w s) r) .nil }
    printCombGroup sigs g = .assign (.id i w s) (printE r).1 ∧
    Rel (wdOf sigs) ρ
      (execFs ρ g.stmts (execFs ρ (resetStmts sigs (sortByName sigs g.targets)) m))
      (nbaAssign (.id i w s) (assignV ρ w (printE r).1) p) := by
  intro g
  refine ⟨by simp [g, printCombGroup, useWire, printE], ?_⟩
  have hstep : Rel (wdOf sigs) ρ (assignT ρ (.sig i w s) (evalF ρ r) m)
      (nbaAssign (printE (.sig i w s)).1 (assignV ρ w (printE r).1) p) := by
    apply rel_target h (.sig i w s) (by simp [targetOk, leafOk, hw0]) hwd
    rw [assign_correct ρ r w hf]
    simp only [bitsSign, storeF, tn_tn_same]
  simp only [printE] at hstep
  apply rel_congr _ hstep
  intro j
  simp only [g, sortByName, insertByName, resetStmts, execFs, execF, assignT]
  rw [readPost_shadow]

/-- **sync_block_equiv** — one clock domain printed as `always @(posedge clk)`. -/
theorem sync_block_equiv (wd : Nat → Nat) (ρ : Env) (d : SyncDom) (m : Mods) (p : Pending)
    (h : Rel wd ρ m p) (hd : distinctSs d.stmts) (hf : fitsSs ρ d.stmts = true) (hw : wfSs wd d.stmts) :
    Rel wd ρ (execFs ρ d.stmts m) (execVs ρ (printStmts d.stmts) p) :=
  rel_printStmts wd ρ d.stmts m p h hd hf hw

end Litex.C01
