import LitexProofs.Fhdl.AssignMerge
import LitexProofs.Fhdl.StaticSound
/-
  Statement-level equivalence: the printed procedural block schedules updates that correspond (`Rel`) to the
  modifications the simulator records, under the side condition `fitsSs`; and sorting the case items (as the
  printer does) does not change what the simulator executes when the keys are distinct.
-/
namespace Litex.C01

/-! ### targets -/

def wfTarget (wd : Nat → Nat) : Expr → Prop
  | .cat l => ∀ e ∈ l, wfLeaf wd e
  | e => wfLeaf wd e

theorem nbaAssign_leaf (e : Expr) (hl : leafOk e = true) (y : Int) (p : Pending) :
    nbaAssign (printE e).1 y p = nbaLeaf (printE e).1 y p := by
  cases e with
  | sig i w s => simp [printE, nbaAssign]
  | slice a lo hi =>
    cases a with
    | sig i w s =>
      rw [printE_slice_sig]
      by_cases hw1 : w = 1
      · rw [if_pos hw1]; cases s <;> simp [nbaAssign, nbaConcatL, nbaLeaf]
      · rw [if_neg hw1]
        by_cases hgt : hi - lo > 1
        · rw [if_pos hgt]; simp [nbaAssign]
        · rw [if_neg hgt]; simp [nbaAssign]
    | _ => simp [leafOk] at hl
  | _ => simp [leafOk] at hl

theorem selfWidth_printList (l : List Expr) (hl : l.all leafOk = true) :
    concatWidth (printList l).reverse = catBits l := by
  induction l with
  | nil => simp [printList, concatWidth, catBits]
  | cons e es ih =>
    simp only [List.all_cons, Bool.and_eq_true] at hl
    simp only [printList, List.reverse_cons, concatWidth_append, catBits, ih hl.2, selfWidth_print_leaf e hl.1]
    omega

theorem selfWidth_print_target (l : Expr) (hl : targetOk l = true) : selfWidth (printE l).1 = (bitsSign l).1 := by
  cases l with
  | cat es =>
    simp only [targetOk] at hl
    simp only [printE, selfWidth, bitsSign]
    exact selfWidth_printList es hl
  | sig i w s => exact selfWidth_print_leaf _ (by simpa [targetOk] using hl)
  | slice a lo hi => exact selfWidth_print_leaf _ (by simpa [targetOk] using hl)
  | const v w s => simp [targetOk, leafOk] at hl
  | op1 o a => simp [targetOk, leafOk] at hl
  | op2 o a b => simp [targetOk, leafOk] at hl
  | mux c a b => simp [targetOk, leafOk] at hl
  | rep a n => simp [targetOk, leafOk] at hl

/-- **assign_slices_merge**: one assignment to a signal, a slice or a flat `Cat` keeps the Verilog update
    queue and the simulator's modification table in correspondence. -/
theorem rel_target {wd : Nat → Nat} {ρ : Env} {m : Mods} {p : Pending} (h : Rel wd ρ m p)
    (l : Expr) (hl : targetOk l = true) (hw : wfTarget wd l) (x y : Int)
    (hxy : tn (bitsSign l).1 x = tn (bitsSign l).1 y) :
    Rel wd ρ (assignT ρ l x m) (nbaAssign (printE l).1 y p) := by
  cases l with
  | cat es =>
    simp only [targetOk] at hl
    simp only [wfTarget] at hw
    simp only [bitsSign] at hxy
    simp only [assignT, printE, nbaAssign, List.reverse_reverse]
    exact rel_cat es h hl hw x y hxy
  | sig i w s =>
    have hl' : leafOk (.sig i w s) = true := by simpa [targetOk] using hl
    rw [nbaAssign_leaf _ hl']
    exact rel_leaf h _ hl' hw x y hxy
  | slice a lo hi =>
    have hl' : leafOk (.slice a lo hi) = true := by simpa [targetOk] using hl
    rw [nbaAssign_leaf _ hl']
    exact rel_leaf h _ hl' hw x y hxy
  | const v w s => simp [targetOk, leafOk] at hl
  | op1 o a => simp [targetOk, leafOk] at hl
  | op2 o a b => simp [targetOk, leafOk] at hl
  | mux c a b => simp [targetOk, leafOk] at hl
  | rep a n => simp [targetOk, leafOk] at hl

/-! ### case items sorted by key -/

def keysOf : Items → List Int
  | .nil => []
  | .cons k _ _ _ rest => k :: keysOf rest

mutual
/-- Keys of every `Case` are pairwise distinct (they are dictionary keys hashed by value). -/
def distinctS : Stmt → Prop
  | .assign _ _ => True
  | .ite _ t f => distinctSs t ∧ distinctSs f
  | .case _ items _ d => (keysOf items).Nodup ∧ distinctItems items ∧ distinctSs d
def distinctSs : Stmts → Prop
  | .nil => True
  | .cons s ss => distinctS s ∧ distinctSs ss
def distinctItems : Items → Prop
  | .nil => True
  | .cons _ _ _ body rest => distinctSs body ∧ distinctItems rest
end

theorem keysOf_insertItem (k : Int) (kw : Nat) (ks : Bool) (body : Stmts) (x : Int) :
    ∀ (items : Items), x ∈ keysOf (insertItem k kw ks body items) ↔ x = k ∨ x ∈ keysOf items
  | .nil => by simp [insertItem, keysOf]
  | .cons k' kw' ks' body' rest => by
    have ih := keysOf_insertItem k kw ks body x rest
    simp only [insertItem]
    split
    · simp [keysOf]
    · simp only [keysOf, List.mem_cons, ih]
      constructor
      · rintro (h | h | h)
        · exact Or.inr (Or.inl h)
        · exact Or.inl h
        · exact Or.inr (Or.inr h)
      · rintro (h | h | h)
        · exact Or.inr (Or.inl h)
        · exact Or.inl h
        · exact Or.inr (Or.inr h)

theorem keysOf_sortItems (x : Int) : ∀ (items : Items), x ∈ keysOf (sortItems items) ↔ x ∈ keysOf items
  | .nil => by simp [sortItems]
  | .cons k kw ks body rest => by
    simp [sortItems, keysOf, keysOf_insertItem, keysOf_sortItems x rest]

theorem keysOf_sortBodies : ∀ (items : Items), keysOf (sortBodies items) = keysOf items
  | .nil => by simp [sortBodies, keysOf]
  | .cons k kw ks body rest => by simp [sortBodies, keysOf, keysOf_sortBodies rest]

theorem execItems_insertItem (ρ : Env) (k : Int) (kw : Nat) (ks : Bool) (body : Stmts) (v : Int) (m : Mods) :
    ∀ (items : Items), k ∉ keysOf items →
    execItems ρ (insertItem k kw ks body items) v m =
      if k = v then some (execFs ρ body m) else execItems ρ items v m
  | .nil, _ => by simp [insertItem, execItems]
  | .cons k' kw' ks' body' rest, hk => by
    simp only [keysOf, List.mem_cons, not_or] at hk
    have ih := execItems_insertItem ρ k kw ks body v m rest hk.2
    simp only [insertItem]
    split
    · simp [execItems]
    · simp only [execItems, ih]
      by_cases h1 : k' = v
      · have : k ≠ v := fun h => hk.1 (h.trans h1.symm)
        simp [h1, this]
      · simp [h1]

theorem execItems_sortItems (ρ : Env) (v : Int) (m : Mods) :
    ∀ (items : Items), (keysOf items).Nodup → execItems ρ (sortItems items) v m = execItems ρ items v m
  | .nil, _ => by simp [sortItems]
  | .cons k kw ks body rest, hd => by
    simp only [keysOf, List.nodup_cons] at hd
    simp only [sortItems]
    rw [execItems_insertItem ρ k kw ks body v m _ (by rw [keysOf_sortItems]; exact hd.1),
      execItems_sortItems ρ v m rest hd.2]
    simp [execItems]

mutual
/-- **case_sorted_equiv**: executing the statements with every `Case` sorted by key (what the printer emits)
    is what the simulator executes on the dictionary order, when the keys are pairwise distinct. -/
theorem execF_sortS (ρ : Env) : ∀ (s : Stmt), distinctS s → ∀ m, execF ρ (sortS s) m = execF ρ s m
  | .assign l r, _, m => rfl
  | .ite c t f, hd, m => by
    simp only [distinctS] at hd
    simp only [sortS, execF, execFs_sortSs ρ t hd.1, execFs_sortSs ρ f hd.2]
  | .case test items hasD d, hd, m => by
    simp only [distinctS] at hd
    simp only [sortS, execF]
    rw [execItems_sortItems ρ _ _ _ (by rw [keysOf_sortBodies]; exact hd.1), execItems_sortBodies ρ items hd.2.1,
      execFs_sortSs ρ d hd.2.2]
theorem execFs_sortSs (ρ : Env) : ∀ (ss : Stmts), distinctSs ss → ∀ m, execFs ρ (sortSs ss) m = execFs ρ ss m
  | .nil, _, m => rfl
  | .cons s ss, hd, m => by
    simp only [distinctSs] at hd
    simp only [sortSs, execFs, execF_sortS ρ s hd.1, execFs_sortSs ρ ss hd.2]
theorem execItems_sortBodies (ρ : Env) :
    ∀ (items : Items), distinctItems items → ∀ v m, execItems ρ (sortBodies items) v m = execItems ρ items v m
  | .nil, _, v, m => rfl
  | .cons k kw ks body rest, hd, v, m => by
    simp only [distinctItems] at hd
    simp only [sortBodies, execItems, execFs_sortSs ρ body hd.1, execItems_sortBodies ρ rest hd.2]
end

end Litex.C01
