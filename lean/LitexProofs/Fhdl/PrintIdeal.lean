import LitexModel.Fhdl.Print
import LitexProofs.Verilog.Eval
/-
  First stage of the printer theorem: the text printed by `printE`, read over unbounded integers (`ideal`),
  denotes exactly `evalF` — under the printer-side side condition `fitsP`.
-/
namespace Litex.C01

theorem idealBin_vop (o : Op2) (x y : Int) : idealBin (vop o) x y = evalOp2 o x y := by
  cases o <;> simp [vop, idealBin, evalOp2, cmpV]

/-- `$signed({1'd0, r})` denotes `r` when `r` is a non-negative number of its own width. -/
theorem ideal_toSignedV (ρ : Env) (r : VExpr) (h : inRange (selfWidth r) false (ideal ρ r) = true) :
    ideal ρ (toSignedV r) = ideal ρ r := by
  have ht := tn_of_inRange_unsigned h
  simp only [inRange, Bool.false_eq_true, if_false, Bool.and_eq_true, decide_eq_true_eq] at h
  have hp : p2 (1 + (selfWidth r + 0)) = 2 * p2 (selfWidth r) := by
    rw [Nat.add_zero, Nat.add_comm, p2_succ]
  have hpos := p2_pos (selfWidth r)
  simp only [toSignedV, ideal, idealConcat, selfWidth, concatWidth, truncS, Bool.false_eq_true, if_false]
  have h0 : tn 1 (tn 1 (0 : Nat)) = 0 := by simp [tn]
  rw [h0, ht]
  simp only [p2_zero, Int.zero_mul, Int.zero_add, Int.mul_one, Int.add_zero]
  rw [tn_of_range h.1 (by omega)]
  unfold toS
  rw [if_neg]
  simp only [Nat.add_zero, Nat.add_sub_cancel_left]
  omega

theorem selfWidth_toSignedV (r : VExpr) : selfWidth (toSignedV r) = selfWidth r + 1 := by
  simp [toSignedV, selfWidth, concatWidth]; omega

theorem idealConcat_append (ρ : Env) (xs : List VExpr) (e : VExpr) :
    idealConcat ρ (xs ++ [e]) = idealConcat ρ xs * p2 (selfWidth e) + tn (selfWidth e) (ideal ρ e) := by
  induction xs with
  | nil => simp [idealConcat, concatWidth, p2_zero]
  | cons x xs ih =>
    simp only [List.cons_append, idealConcat, ih, concatWidth_append, p2_add]
    ring

/-- If promoted, the operand is a non-negative number of its printed width. -/
theorem ideal_prom (ρ : Env) (e : Expr) (b : Bool) (hi : ideal ρ (printE e).1 = evalF ρ e)
    (h : promOk ρ b e = true) :
    ideal ρ (if b then toSignedV (printE e).1 else (printE e).1) = evalF ρ e := by
  cases b
  · simpa using hi
  · simp only [promOk, Bool.not_true, Bool.false_or] at h
    rw [← hi] at h
    simp only [if_true]
    rw [ideal_toSignedV ρ _ h, hi]

theorem printE_slice_sig (i w : Nat) (s : Bool) (lo hi : Nat) :
    printE (.slice (.sig i w s) lo hi) =
      if w = 1 then (if s then .concat [.id i w s] else .id i w s, false)
      else if hi - lo > 1 then (.psel (.id i w s) (hi - 1) lo, false) else (.bsel (.id i w s) lo, false) := by
  rfl

/-- The unsigned constant text denotes the constant. -/
theorem ideal_printConstU (ρ : Env) (v : Int) (w : Nat) (h : v.natAbs < 2 ^ w) :
    ideal ρ (printConstU v w) = v := by
  have hlt : (v.natAbs : Int) < p2 w := by rw [← p2_natCast]; exact_mod_cast h
  unfold printConstU
  split
  · rename_i hv
    simp only [ideal, truncS, Bool.false_eq_true, if_false]
    rw [Int.toNat_of_nonneg hv]
    exact tn_of_range hv (by omega)
  · rename_i hv
    simp only [ideal, truncS, Bool.false_eq_true, if_false]
    rw [tn_of_range (by omega) hlt]
    omega

/-- `_generate_constant`: the printed literal denotes the constant's value. -/
theorem ideal_printConst (ρ : Env) (v : Int) (w : Nat) (s : Bool) (h : constOk v w s = true) :
    ideal ρ (printConst v w s).1 = v := by
  simp only [constOk, Bool.and_eq_true, decide_eq_true_eq] at h
  cases s
  · simp only [Bool.false_eq_true, if_false, decide_eq_true_eq] at h
    simp only [printConst, Bool.false_eq_true, if_false]
    exact ideal_printConstU ρ v w h.1
  · simp only [if_true] at h
    simp only [printConst, if_true, ideal, truncS]
    rw [Int.toNat_of_nonneg (tn_nonneg w v), tn_tn (Nat.le_refl w)]
    exact toS_tn_of_inRange h.2 h.1

mutual
theorem printE_ideal (ρ : Env) : ∀ (e : Expr), fitsP ρ e = true → ideal ρ (printE e).1 = evalF ρ e
  | .const v w s, h => by
    simp only [fitsP] at h
    simp only [printE, evalF]
    exact ideal_printConst ρ v w s h
  | .sig i w s, h => by
    simp only [fitsP, Bool.and_eq_true, decide_eq_true_eq] at h
    simp only [printE, ideal, evalF]
    exact truncS_of_inRange h.2 h.1
  | .op1 .neg a, h => by
    simp only [fitsP, Bool.and_eq_true] at h
    have ih := printE_ideal ρ a h.1
    simp only [printE, ideal, evalF]
    have := ideal_prom ρ a (!(printE a).2) ih h.2
    cases hs : (printE a).2 <;> simp only [hs, Bool.not_true, Bool.not_false, if_true, Bool.false_eq_true, if_false] at this ⊢
    · rw [this]
    · rw [this]
  | .op1 .not a, h => by
    simp only [fitsP] at h
    simp only [printE, ideal, evalF, printE_ideal ρ a h]
  | .op2 o a b, h => by
    simp only [fitsP, Bool.and_eq_true, Bool.or_eq_true] at h
    obtain ⟨⟨ha, hb⟩, hprom⟩ := h
    have iha := printE_ideal ρ a ha
    have ihb := printE_ideal ρ b hb
    simp only [printE, evalF]
    by_cases hsft : o.isShift = true
    · simp only [hsft, if_true, ideal, iha, ihb, idealBin_vop]
    · simp only [hsft, Bool.false_eq_true, if_false, ideal]
      rcases hprom with hprom | hprom
      · exact absurd hprom hsft
      · have h1 := ideal_prom ρ a _ iha hprom.1
        have h2 := ideal_prom ρ b _ ihb hprom.2
        simp only [Bool.and_eq_true, Bool.not_eq_true'] at h1 h2 ⊢
        rw [h1, h2, idealBin_vop]
  | .mux c a b, h => by
    simp only [fitsP, Bool.and_eq_true] at h
    obtain ⟨⟨⟨⟨⟨hc, ha⟩, hb⟩, hpa⟩, hpb⟩, hcond⟩ := h
    have ihc := printE_ideal ρ c hc
    have iha := printE_ideal ρ a ha
    have ihb := printE_ideal ρ b hb
    have h1 := ideal_prom ρ a _ iha hpa
    have h2 := ideal_prom ρ b _ ihb hpb
    simp only [Bool.and_eq_true, Bool.not_eq_true'] at h1 h2
    simp only [condOk, beq_iff_eq, decide_eq_decide] at hcond
    simp only [printE, ideal, evalF, Bool.and_eq_true, Bool.not_eq_true', ihc, h1, h2]
    by_cases hz : tn (bitsSign c).1 (evalF ρ c) = 0
    · rw [if_neg (by simpa using hcond.2 hz), if_neg (by simpa using hz)]
    · rw [if_pos (fun hh => hz (hcond.1 hh)), if_pos hz]
  | .slice a lo hi, h => by
    simp only [fitsP, Bool.and_eq_true, decide_eq_true_eq] at h
    obtain ⟨⟨⟨ha, hsig⟩, hlo⟩, hhi⟩ := h
    cases a with
    | sig i w s =>
      simp only [fitsP, Bool.and_eq_true, decide_eq_true_eq] at ha
      simp only [bitsSign] at hhi
      have hv := truncS_of_inRange ha.2 ha.1
      rw [printE_slice_sig]
      simp only [evalF]
      by_cases hw1 : w = 1
      · rw [if_pos hw1]
        subst hw1
        have : lo = 0 := by omega
        subst this
        have : hi = 1 := by omega
        subst this
        cases s
        · simp only [Bool.false_eq_true, if_false, ideal, truncS] at hv ⊢
          simp [p2_zero, hv]
        · -- signed 1-bit operand: `{x}` is the unsigned 1-bit view
          simp only [if_true, ideal, idealConcat, selfWidth, concatWidth, p2_zero, Int.mul_one, Int.add_zero,
            tn_truncS, Int.ediv_one, Nat.sub_zero]
      · rw [if_neg hw1]
        by_cases hgt : hi - lo > 1
        · rw [if_pos hgt]
          simp only [ideal, hv]
          congr 1; omega
        · rw [if_neg hgt]
          simp only [ideal, hv]
          congr 1; omega
    | _ => simp [isSig] at hsig
  | .cat l, h => by
    simp only [fitsP] at h
    simp only [printE, ideal, evalF]
    exact printList_ideal ρ l h
  | .rep a n, h => by
    simp only [fitsP, Bool.and_eq_true, decide_eq_true_eq] at h
    simp only [printE, ideal, evalF, printE_ideal ρ a h.1.1, h.1.2]
theorem printList_ideal (ρ : Env) :
    ∀ (l : List Expr), fitsPList ρ l = true → idealConcat ρ (printList l).reverse = evalCat ρ l
  | [], _ => rfl
  | e :: es, h => by
    simp only [fitsPList, Bool.and_eq_true, decide_eq_true_eq] at h
    simp only [printList, List.reverse_cons, idealConcat_append, evalCat,
      printList_ideal ρ es h.2, printE_ideal ρ e h.1.1, h.1.2]
    ring
end

end Litex.C01
