import LitexModel.Fhdl.ArraySel
import LitexProofs.Fhdl.IntLemmas
/-
  The lowered `Case(key, …).makedefault()` executes the body the simulator's `_array_index` selects — for EVERY key
  value (negative, beyond the number of choices, signed).
-/
namespace Litex.C01

theorem execItems_arrayItems (ρ : Env) (k : Int) (m : Mods) : ∀ (bs : List Stmts) (i : Nat),
    execItems ρ (arrayItems i bs) k m =
      if (i : Int) ≤ k ∧ k < i + bs.length then some (execFs ρ (bs.getD (k - i).toNat .nil) m) else none
  | [], i => by
    simp only [arrayItems, execItems, List.length_nil]
    rw [if_neg]; omega
  | b :: bs, i => by
    simp only [arrayItems, execItems]
    by_cases hik : (i : Int) = k
    · subst hik
      rw [if_pos rfl, if_pos (by simp only [List.length_cons]; omega)]
      simp
    · rw [if_neg hik, execItems_arrayItems ρ k m bs (i + 1)]
      by_cases hc : ((i : Int) + 1 ≤ k ∧ k < (i : Int) + 1 + bs.length)
      · have hc' : ((i + 1 : Nat) : Int) ≤ k ∧ k < ((i + 1 : Nat) : Int) + bs.length := by
          constructor <;> push_cast <;> omega
        rw [if_pos hc', if_pos (by simp only [List.length_cons]; push_cast; omega)]
        have : (k - (i : Int)).toNat = (k - ((i + 1 : Nat) : Int)).toNat + 1 := by push_cast; omega
        rw [this]
        simp
      · have hc' : ¬ (((i + 1 : Nat) : Int) ≤ k ∧ k < ((i + 1 : Nat) : Int) + bs.length) := by
          push_cast; omega
        rw [if_neg hc', if_neg (by simp only [List.length_cons]; push_cast; omega)]

theorem getD_dropLast : ∀ (bs : List Stmts) (j : Nat), j + 1 < bs.length →
    bs.dropLast.getD j .nil = bs.getD j .nil
  | [], j, h => by simp at h
  | [b], j, h => by simp at h
  | b :: c :: bs, 0, _ => by simp [List.dropLast]
  | b :: c :: bs, j + 1, h => by
    have := getD_dropLast (c :: bs) j (by simpa using h)
    simpa [List.dropLast] using this

theorem getD_irrel : ∀ (bs : List Stmts) (j : Nat) (d d' : Stmts), j < bs.length → bs.getD j d = bs.getD j d'
  | [], j, _, _, h => by simp at h
  | b :: bs, 0, _, _, _ => by simp
  | b :: bs, j + 1, d, d', h => by
    have := getD_irrel bs j d d' (by simpa using h)
    simpa using this

theorem getLastD_eq_getD : ∀ (bs : List Stmts) (d : Stmts), bs.getLastD d = bs.getD (bs.length - 1) d
  | [], d => by simp
  | [b], d => by simp
  | b :: c :: bs, d => by
    have ih := getLastD_eq_getD (c :: bs) b
    simp only [List.getLastD_cons] at ih ⊢
    rw [ih]
    simp only [List.length_cons, Nat.add_sub_cancel]
    have : (b :: c :: bs).getD (bs.length + 1) d = (c :: bs).getD bs.length d := by simp
    rw [this]
    exact getD_irrel (c :: bs) bs.length b d (by simp)

/-- **array_select_correct** -/
theorem arrayCase_exec (ρ : Env) (test : Expr) (bodies : List Stmts) (h : bodies ≠ []) (m : Mods) :
    execF ρ (arrayCase test bodies) m =
      execFs ρ (bodies.getD (arrayIndex (bitsSign test).1 (bitsSign test).2 bodies.length (evalF ρ test)) .nil) m := by
  have hlen : 0 < bodies.length := List.length_pos_iff.mpr h
  simp only [arrayCase, execF, execItems_arrayItems, arrayIndex, List.length_dropLast]
  generalize truncS (bitsSign test).1 (bitsSign test).2 (evalF ρ test) = k
  by_cases h1 : ((0 : Nat) : Int) ≤ k ∧ k < ((0 : Nat) : Int) + ((bodies.length - 1 : Nat) : Int)
  · rw [if_pos h1]
    have h2 : 0 ≤ k ∧ k < (bodies.length : Int) := by omega
    rw [if_pos h2]
    simp only [Nat.cast_zero, Int.sub_zero]
    exact congrArg (fun b => execFs ρ b m) (getD_dropLast bodies k.toNat (by omega))
  · rw [if_neg h1]
    simp only [if_true]
    rw [getLastD_eq_getD bodies .nil]
    by_cases h2 : 0 ≤ k ∧ k < (bodies.length : Int)
    · rw [if_pos h2]
      have : k.toNat = bodies.length - 1 := by omega
      rw [this]
    · rw [if_neg h2]

end Litex.C01
