import LitexModel.Fhdl.FitsStmt
import LitexProofs.Fhdl.PrintIdeal
/-
  `assign_slices_merge`: the simulator's assignment with pending-modification read-back and the Verilog
  non-blocking update queue stay in correspondence.

  `Rel wd ρ m p`: applying the scheduled Verilog updates `p` (oldest first) to the bit patterns of the committed
  values gives, for every signal, the bit pattern of the simulator's post-commit view `readPost ρ m`.
-/
namespace Litex.C01

def Rel (wd : Nat → Nat) (ρ : Env) (m : Mods) (p : Pending) : Prop :=
  ∀ i, applyPending i (wd i) (tn (wd i) (ρ i)) p = tn (wd i) (readPost ρ m i)

theorem rel_nil (wd : Nat → Nat) (ρ : Env) : Rel wd ρ [] [] := by
  intro i; simp [applyPending, readPost, lookupM]

theorem readPost_cons (ρ : Env) (m : Mods) (i j : Nat) (v : Int) :
    readPost ρ ((i, v) :: m) j = if i = j then v else readPost ρ m j := by
  unfold readPost
  simp only [lookupM]
  split <;> simp

/-- Width/sign annotations of the signal nodes of a target agree with the declarations. -/
def wfLeaf (wd : Nat → Nat) : Expr → Prop
  | .sig i w _ => w = wd i
  | .slice (.sig i w _) _ _ => w = wd i
  | _ => True

theorem applyUpd1_whole (w : Nat) (c y : Int) (i : Nat) (hc0 : 0 ≤ c) (hc1 : c < p2 w) :
    applyUpd1 w c ⟨i, 0, w, tn w y⟩ = tn w y := by
  simp only [applyUpd1, p2_zero, Int.ediv_one, Int.mul_one, tn_tn_same]
  rw [tn_of_range hc0 hc1]
  have : c - c + tn w y = tn w y := by omega
  rw [this, tn_tn_same]

/-- Replacing bits `[lo, lo+len)` commutes with truncation to `w ≥ lo + len` bits. -/
theorem setBits_tn {w lo len : Nat} (h : lo + len ≤ w) (full v : Int) :
    tn w (tn w full - tn len (tn w full / p2 lo) * p2 lo + tn len v * p2 lo) = tn w (setBits full lo len v) := by
  unfold setBits
  rw [tn_div_tn h]
  obtain ⟨k, hk⟩ := tn_eq_add_mul w full
  rw [hk]
  have : full + k * p2 w - tn len (full / p2 lo) * p2 lo + tn len v * p2 lo
       = (full - tn len (full / p2 lo) * p2 lo + tn len v * p2 lo) + k * p2 w := by ring
  rw [this, tn_add_mul]

theorem rel_leaf {wd : Nat → Nat} {ρ : Env} {m : Mods} {p : Pending} (h : Rel wd ρ m p)
    (e : Expr) (hl : leafOk e = true) (hw : wfLeaf wd e) (x y : Int)
    (hxy : tn (bitsSign e).1 x = tn (bitsSign e).1 y) :
    Rel wd ρ (assignT ρ e x m) (nbaLeaf (printE e).1 y p) := by
  cases e with
  | sig i w s =>
    simp only [wfLeaf] at hw
    simp only [bitsSign] at hxy
    simp only [assignT, printE, nbaLeaf]
    intro j
    rw [readPost_cons]
    simp only [applyPending]
    by_cases hij : i = j
    · subst hij
      simp only [if_true]
      have hr := h i
      rw [← hw] at hr ⊢
      rw [applyUpd1_whole w _ y i (by rw [hr]; exact tn_nonneg _ _) (by rw [hr]; exact tn_lt _ _)]
      rw [tn_truncS, hxy]
    · simp only [hij, if_false]
      exact h j
  | slice a lo hi =>
    cases a with
    | sig i w s =>
      simp only [leafOk, Bool.and_eq_true, decide_eq_true_eq] at hl
      obtain ⟨⟨hlo, hhi⟩, hw0⟩ := hl
      simp only [wfLeaf] at hw
      simp only [bitsSign] at hxy
      have hev : evalF (readPost ρ m) (.sig i w s) = readPost ρ m i := rfl
      simp only [assignT, hev]
      rw [printE_slice_sig]
      intro j
      rw [readPost_cons]
      have hr := h i
      rw [← hw] at hr
      by_cases hw1 : w = 1
      · -- 1-bit signal printed without a select
        rw [if_pos hw1]
        subst hw1
        have : lo = 0 := by omega
        subst this
        have : hi = 1 := by omega
        subst this
        -- `x` or, for a signed signal, `{x}`: the same scheduled update
        have hnl : nbaLeaf (if s = true then VExpr.concat [VExpr.id i 1 s] else VExpr.id i 1 s, false).1 y p
            = ⟨i, 0, 1, tn 1 y⟩ :: p := by cases s <;> simp [nbaLeaf]
        rw [hnl]
        simp only [applyPending]
        by_cases hij : i = j
        · subst hij
          simp only [if_true]
          rw [← hw]
          rw [applyUpd1_whole 1 _ y i (by rw [hr]; exact tn_nonneg _ _) (by rw [hr]; exact tn_lt _ _)]
          rw [tn_truncS]
          have := setBits_tn (w := 1) (lo := 0) (len := 1) (by omega) (readPost ρ m i) x
          rw [← this]
          simp only [p2_zero, Int.ediv_one, Int.mul_one, tn_tn_same]
          have h3 : tn 1 (readPost ρ m i) - tn 1 (readPost ρ m i) + tn 1 x = tn 1 x := by omega
          rw [h3, tn_tn_same]
          exact hxy.symm
        · simp only [hij, if_false]
          exact h j
      · rw [if_neg hw1]
        have key : ∀ (u : Upd), u = ⟨i, lo, hi - lo, tn (hi - lo) y⟩ →
            (if u.id = j then applyUpd1 (wd j) (applyPending j (wd j) (tn (wd j) (ρ j)) p) u
             else applyPending j (wd j) (tn (wd j) (ρ j)) p) =
            tn (wd j) (if i = j then truncS w s (setBits (readPost ρ m i) lo (hi - lo) x) else readPost ρ m j) := by
          intro u hu
          subst hu
          by_cases hij : i = j
          · subst hij
            simp only [if_true]
            rw [← hw, hr, tn_truncS]
            simp only [applyUpd1, tn_tn_same]
            rw [← hxy]
            exact setBits_tn (by omega) _ _
          · simp only [hij, if_false]
            exact h j
        by_cases hgt : hi - lo > 1
        · rw [if_pos hgt]
          simp only [nbaLeaf, applyPending]
          have : hi - 1 - lo + 1 = hi - lo := by omega
          rw [this]
          exact key _ rfl
        · rw [if_neg hgt]
          simp only [nbaLeaf, applyPending]
          have : hi - lo = 1 := by omega
          rw [this] at key
          rw [this]
          exact key _ rfl
    | _ => simp [leafOk] at hl
  | _ => simp [leafOk] at hl

theorem selfWidth_print_leaf (e : Expr) (hl : leafOk e = true) : selfWidth (printE e).1 = (bitsSign e).1 := by
  cases e with
  | sig i w s => simp [printE, selfWidth, bitsSign]
  | slice a lo hi =>
    cases a with
    | sig i w s =>
      simp only [leafOk, Bool.and_eq_true, decide_eq_true_eq] at hl
      rw [printE_slice_sig]
      simp only [bitsSign]
      by_cases hw1 : w = 1
      · rw [if_pos hw1]; cases s <;> simp [selfWidth, concatWidth] <;> omega
      · rw [if_neg hw1]
        by_cases hgt : hi - lo > 1
        · rw [if_pos hgt]; simp only [selfWidth]; omega
        · rw [if_neg hgt]; simp only [selfWidth]; omega
    | _ => simp [leafOk] at hl
  | _ => simp [leafOk] at hl

/-- `Cat` targets: both sides walk the elements from the least significant end. -/
theorem rel_cat {wd : Nat → Nat} {ρ : Env} :
    ∀ (l : List Expr) {m : Mods} {p : Pending}, Rel wd ρ m p → l.all leafOk = true → (∀ e ∈ l, wfLeaf wd e) →
      ∀ (x y : Int), tn (catBits l) x = tn (catBits l) y →
      Rel wd ρ (assignCat ρ l x m) (nbaConcatL (printList l) y p)
  | [], _, _, h, _, _, _, _, _ => by simpa [assignCat, printList, nbaConcatL] using h
  | e :: es, m, p, h, hl, hw, x, y, hxy => by
    simp only [List.all_cons, Bool.and_eq_true] at hl
    simp only [assignCat, printList, nbaConcatL]
    have hsw := selfWidth_print_leaf e hl.1
    rw [hsw]
    simp only [catBits] at hxy
    have hlow : tn (bitsSign e).1 x = tn (bitsSign e).1 y := by
      have := congrArg (tn (bitsSign e).1) hxy
      rwa [tn_tn (by omega), tn_tn (by omega)] at this
    apply rel_cat es (rel_leaf h e hl.1 (hw e (by simp)) _ _ (by rw [tn_tn_same]; exact hlow)) hl.2
      (fun e' he' => hw e' (by simp [he']))
    -- high parts agree modulo the remaining width
    have hx := tn_div_tn (w := (bitsSign e).1 + catBits es) (lo := (bitsSign e).1) (n := catBits es) (by omega) x
    have hy := tn_div_tn (w := (bitsSign e).1 + catBits es) (lo := (bitsSign e).1) (n := catBits es) (by omega) y
    rw [← hx, ← hy, hxy]

end Litex.C01
