import LitexModel.Fhdl.MemoryN
import LitexProofs.Fhdl.MemoryEquiv
/-
  Memories with several ports: one instant (any set of rising clocks) of the memory.py templates = one instant of
  the simulator's MemoryToArray semantics, and whole runs.
-/
namespace Litex.C01

theorem effMode_of_kept (c : MemCfgN) (p : PortCfg) (h : modeKept c p = true) : effMode c p = p.mode := by
  simp only [modeKept, Bool.or_eq_true, Bool.not_eq_true', decide_eq_true_eq] at h
  unfold effMode
  rcases h with (h | h) | h
  · simp [h]
  · simp [h]
  · simp [h]

theorem portWriteV_length (pc : MemCfg) (hw : Bool) (words : List Int) (i : MemIn) :
    (portWriteV pc hw words i).length = words.length := by
  unfold portWriteV
  split
  · rw [List.length_set]
  · rfl

theorem portWrite_equiv (pc : MemCfg) (hw : Bool) (words : List Int) (i : MemIn) (hc : memCfgOk pc = true)
    (ha : i.adr < pc.depth) (hl : words.length = pc.depth) :
    portWriteF pc hw words i = portWriteV pc hw words i := by
  unfold portWriteF portWriteV
  rw [idxF_of_lt pc ha, writeF_eq_writeV pc i _ hc]
  cases hw
  · simp
  · simp [hl, ha]

theorem portReg_equiv (pc : MemCfg) (hw : Bool) (old : List Int) (s : PortSt) (i : MemIn)
    (hc : memCfgOk pc = true) (hi : memInOk pc i = true) (hnc : pc.mode ≠ .noChange ∨ hw = true) :
    portRegF pc hw old s i = portRegV pc pc.mode old s i := by
  have hc' := hc
  simp only [memCfgOk, Bool.and_eq_true, Bool.or_eq_true, decide_eq_true_eq] at hc'
  simp only [memInOk, Bool.and_eq_true, Bool.or_eq_true, decide_eq_true_eq, Bool.not_eq_true'] at hi
  obtain ⟨⟨hadr, _⟩, hwe⟩ := hi
  unfold portRegF portRegV
  simp only [idxF_of_lt pc hadr]
  cases hm : pc.mode <;> simp only []
  -- NO_CHANGE
  have hw1 : hw = true := by
    rcases hnc with h | h
    · exact absurd hm h
    · exact h
  have hall : tn pc.nwe i.we = 0 ∨ tn pc.nwe i.we = p2 pc.nwe - 1 := by
    rcases hwe with (h | h) | h
    · exact absurd hm h
    · exact Or.inl h
    · exact Or.inr h
  have := nc_cond pc.nwe hc'.2 i.we hall
  simp only [hw1, if_true]
  by_cases hz : tn pc.nwe i.we = 0
  · simp [hz, this.2 hz]
  · have : ¬ (tn pc.nwe (notI i.we) ≠ 0) := fun hh => hz (this.1 hh)
    simp [hz, this]

theorem stepPorts_equiv (c : MemCfgN) (old : List Int) (clks : List Nat) :
    ∀ (ports : List PortCfg) (ss : List PortSt) (is : List MemIn) (words : List Int),
      ports.all (portOk c) = true → insOk c ports is = true → words.length = c.depth →
      stepPortsF c old clks ports ss is words = stepPortsV c old clks ports ss is words
  | [], _, _, _, _, _, _ => by simp [stepPortsF, stepPortsV]
  | p :: ps, [], _, _, _, _, _ => by simp [stepPortsF, stepPortsV]
  | p :: ps, s :: ss, [], _, _, _, _ => by simp [stepPortsF, stepPortsV]
  | p :: ps, s :: ss, i :: is, words, hp, hi, hl => by
    simp only [List.all_cons, Bool.and_eq_true] at hp
    simp only [insOk, Bool.and_eq_true] at hi
    obtain ⟨⟨⟨hcfg, hkept⟩, hnc⟩, hrest⟩ := (by simpa only [portOk, Bool.and_eq_true] using hp :
      ((memCfgOk (p.cfg c) = true ∧ modeKept c p = true) ∧ (decide (p.mode ≠ .noChange) || p.hasWe) = true) ∧
        ps.all (portOk c) = true)
    have hadr : i.adr < c.depth := by
      have := hi.1
      simp only [memInOk, Bool.and_eq_true, decide_eq_true_eq] at this
      exact this.1.1
    have hnc' : (p.cfg c).mode ≠ .noChange ∨ p.hasWe = true := by
      simp only [Bool.or_eq_true, decide_eq_true_eq] at hnc
      exact hnc
    have hW := portWrite_equiv (p.cfg c) p.hasWe words i hcfg hadr hl
    have hR := portReg_equiv (p.cfg c) p.hasWe old s i hcfg hi.1 hnc'
    have hmode : effMode c p = (p.cfg c).mode := effMode_of_kept c p hkept
    simp only [stepPortsF, stepPortsV, hmode, hW, hR]
    have hl' : (if clks.contains p.clk = true then portWriteV (p.cfg c) p.hasWe words i else words).length = c.depth := by
      split
      · rw [portWriteV_length]; exact hl
      · exact hl
    rw [stepPorts_equiv c old clks ps ss is _ hrest hi.2 hl']

/-- **One instant, several ports**: whatever clocks rise, the words and every port's registers after the instant
    are the same in the simulator and in the text. -/
theorem memEdgeN_equiv (c : MemCfgN) (st : MemStN) (clks : List Nat) (ins : List MemIn)
    (hc : memCfgOkN c = true) (hs : memStOkN c st = true) (hi : insOk c c.ports ins = true) :
    edgeFN c st clks ins = edgeVN c st clks ins := by
  simp only [memStOkN, Bool.and_eq_true, decide_eq_true_eq] at hs
  unfold edgeFN edgeVN
  rw [stepPorts_equiv c st.words clks c.ports st.ps ins st.words hc hi hs.1.1]

/-! ### reads -/

theorem reads_equiv (c : MemCfgN) (words : List Int) (hl : words.length = c.depth) :
    ∀ (ports : List PortCfg) (ss : List PortSt) (is : List MemIn),
      ports.all (portOk c) = true → insOk c ports is = true → portsStOk c.depth ss = true →
      readsF c words ports ss is = readsV c words ports ss is
  | [], _, _, _, _, _ => by simp [readsF, readsV]
  | p :: ps, [], _, _, _, _ => by simp [readsF, readsV]
  | p :: ps, s :: ss, [], _, _, _ => by simp [readsF, readsV]
  | p :: ps, s :: ss, i :: is, hp, hi, hs => by
    simp only [List.all_cons, Bool.and_eq_true, portOk] at hp
    simp only [insOk, Bool.and_eq_true] at hi
    simp only [portsStOk, Bool.and_eq_true, decide_eq_true_eq] at hs
    have hadr : i.adr < c.depth := by
      have := hi.1
      simp only [memInOk, Bool.and_eq_true, decide_eq_true_eq] at this
      exact this.1.1
    have hmode : effMode c p = p.mode := effMode_of_kept c p hp.1.1.2
    have hcfg : { p.cfg c with mode := effMode c p } = p.cfg c := by rw [hmode]; rfl
    simp only [readsF, readsV, hcfg]
    rw [memRead_equiv (p.cfg c) _ i.adr (by simp [memStOk, hl, hs.1, PortCfg.cfg]) hadr,
      reads_equiv c words hl ps ss is hp.2 hi.2 hs.2]

/-! ### the state invariant -/

theorem stepPortsV_ok (c : MemCfgN) (old : List Int) (clks : List Nat) :
    ∀ (ports : List PortCfg) (ss : List PortSt) (is : List MemIn) (words : List Int),
      insOk c ports is = true → words.length = c.depth → ss.length = ports.length → portsStOk c.depth ss = true →
      (stepPortsV c old clks ports ss is words).1.length = c.depth ∧
      (stepPortsV c old clks ports ss is words).2.length = ports.length ∧
      portsStOk c.depth (stepPortsV c old clks ports ss is words).2 = true
  | [], [], _, words, _, hl, _, _ => by simp [stepPortsV, hl, portsStOk]
  | [], _ :: _, _, _, _, _, hlen, _ => by simp at hlen
  | _ :: _, [], _, _, _, _, hlen, _ => by simp at hlen
  | p :: ps, s :: ss, [], _, hi, _, _, _ => by simp [insOk] at hi
  | p :: ps, s :: ss, i :: is, words, hi, hl, hlen, hs => by
    simp only [insOk, Bool.and_eq_true] at hi
    simp only [portsStOk, Bool.and_eq_true, decide_eq_true_eq] at hs
    simp only [List.length_cons, Nat.add_right_cancel_iff] at hlen
    have hadr : i.adr < c.depth := by
      have := hi.1
      simp only [memInOk, Bool.and_eq_true, decide_eq_true_eq] at this
      exact this.1.1
    have hl' : (if clks.contains p.clk = true then portWriteV (p.cfg c) p.hasWe words i else words).length = c.depth := by
      split
      · rw [portWriteV_length]; exact hl
      · exact hl
    have ih := stepPortsV_ok c old clks ps ss is _ hi.2 hl' hlen hs.2
    simp only [stepPortsV, List.length_cons, portsStOk, Bool.and_eq_true, decide_eq_true_eq]
    refine ⟨ih.1, by rw [ih.2.1], ?_, ih.2.2⟩
    split
    · unfold portRegV
      cases effMode c p <;> simp only []
      · split
        · exact hadr
        · exact hs.1
      · exact hs.1
      · exact hs.1
      · exact hs.1
    · exact hs.1

theorem memStOkN_edgeV (c : MemCfgN) (st : MemStN) (clks : List Nat) (ins : List MemIn)
    (hs : memStOkN c st = true) (hi : insOk c c.ports ins = true) : memStOkN c (edgeVN c st clks ins) = true := by
  simp only [memStOkN, Bool.and_eq_true, decide_eq_true_eq] at hs ⊢
  have := stepPortsV_ok c st.words clks c.ports st.ps ins st.words hi hs.1.1 hs.1.2 hs.2
  unfold edgeVN
  exact ⟨⟨this.1, this.2.1⟩, this.2.2⟩

theorem memReadN_equiv (c : MemCfgN) (st : MemStN) (ins : List MemIn) (hc : memCfgOkN c = true)
    (hs : memStOkN c st = true) (hi : insOk c c.ports ins = true) : readFN c st ins = readVN c st ins := by
  simp only [memStOkN, Bool.and_eq_true, decide_eq_true_eq] at hs
  exact reads_equiv c st.words hs.1.1 c.ports st.ps ins hc hi hs.2

theorem memRunN_equiv (c : MemCfgN) (hc : memCfgOkN c = true) :
    ∀ (sched : List (List Nat × List MemIn)) (st : MemStN), memStOkN c st = true →
      (∀ x ∈ sched, insOk c c.ports x.2 = true) → runFN c st sched = runVN c st sched
  | [], _, _, _ => rfl
  | (clks, ins) :: rest, st, hs, hi => by
    have hi0 := hi (clks, ins) (by simp)
    have he := memEdgeN_equiv c st clks ins hc hs hi0
    have hs' := memStOkN_edgeV c st clks ins hs hi0
    simp only [runFN, runVN, he]
    rw [memReadN_equiv c _ ins hc hs' hi0, memRunN_equiv c hc rest _ hs' (fun x hx => hi x (by simp [hx]))]

theorem portsStOk_init (depth : Nat) (hd : 0 < depth) : ∀ (ports : List PortCfg),
    portsStOk depth (ports.map fun _ => (⟨0, 0⟩ : PortSt)) = true
  | [] => rfl
  | _ :: ps => by simp [portsStOk, hd, portsStOk_init depth hd ps]

theorem memStOkN_init (c : MemCfgN) (hd : 0 < c.depth) : memStOkN c (memInitN c) = true := by
  simp only [memStOkN, memInitN, padInit, Bool.and_eq_true, decide_eq_true_eq, List.length_append, List.length_map,
    List.length_take, List.length_replicate]
  refine ⟨⟨?_, trivial⟩, portsStOk_init c.depth hd c.ports⟩
  omega

end Litex.C01
