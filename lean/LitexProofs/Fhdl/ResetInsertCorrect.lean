import LitexModel.Fhdl.ResetInsert
import LitexProofs.Fhdl.SimBackendEquiv
/-
  Reset insertion: with the reset signal low the inserted statement list executes like the original one; with it
  high every non-reset-less target of the domain ends with its reset value and nothing else changes.
-/
namespace Litex.C01

theorem execFs_append (ρ : Env) : ∀ (a b : Stmts) (m : Mods), execFs ρ (a.append b) m = execFs ρ b (execFs ρ a m)
  | .nil, _, _ => rfl
  | .cons s ss, b, m => by simp only [Stmts.append, execFs, execFs_append ρ ss b]

theorem mem_insertNat (i u : Nat) : ∀ (l : List Nat), u ∈ insertNat i l ↔ u = i ∨ u ∈ l
  | [] => by simp [insertNat]
  | j :: js => by
    simp only [insertNat]
    split
    · simp
    · split
      · rename_i h; subst h; simp
      · simp only [List.mem_cons, mem_insertNat i u js]
        constructor
        · rintro (h | h | h)
          · exact Or.inr (Or.inl h)
          · exact Or.inl h
          · exact Or.inr (Or.inr h)
        · rintro (h | h | h)
          · exact Or.inr (Or.inl h)
          · exact Or.inl h
          · exact Or.inr (Or.inr h)

theorem mem_sortDedup (u : Nat) : ∀ (l : List Nat), u ∈ sortDedup l ↔ u ∈ l
  | [] => by simp [sortDedup]
  | i :: is => by simp [sortDedup, mem_insertNat, mem_sortDedup u is]

theorem mem_resetTargets (rl : List Nat) (ss : Stmts) (u : Nat) :
    u ∈ resetTargets rl ss ↔ u ∈ targetsSs ss ∧ u ∉ rl := by
  simp [resetTargets, mem_sortDedup]

theorem insertReset_inactive (sigs : Array SigDecl) (ρ : Env) (rst : Nat) (rl : List Nat) (ss : Stmts) (m : Mods)
    (h : tn (sigs.getD rst default).w (ρ rst) = 0) :
    execFs ρ (insertReset sigs rst rl ss) m = execFs ρ ss m := by
  unfold insertReset
  rw [execFs_append]
  simp only [execFs, execF, sigExpr, bitsSign, evalF, h, ne_eq, not_true_eq_false, if_false]

theorem insertReset_active (sigs : Array SigDecl) (ρ : Env) (rst : Nat) (rl : List Nat) (ss : Stmts) (m : Mods)
    (h : tn (sigs.getD rst default).w (ρ rst) ≠ 0) (u : Nat) :
    lookupM (execFs ρ (insertReset sigs rst rl ss) m) u =
      if u ∈ targetsSs ss ∧ u ∉ rl then some (resetVal sigs u) else lookupM (execFs ρ ss m) u := by
  unfold insertReset
  rw [execFs_append]
  simp only [execFs, execF, sigExpr, bitsSign, evalF, h, ne_eq, not_false_eq_true, if_true]
  rw [lookup_resetStmts]
  simp only [mem_resetTargets]

end Litex.C01
