import LitexProofs.Fhdl.StaticSound
import LitexModel.Fhdl.FitsStmt
/-
  Soundness of the static side conditions for statements: `sfitsSs ss` implies `fitsSs ρ ss` for every valuation
  whose signal values are in their declared ranges.
-/
namespace Litex.C01

mutual
def envOkS (ρ : Env) : Stmt → Bool
  | .assign _ r => envOk ρ r
  | .ite c t f => envOk ρ c && envOkSs ρ t && envOkSs ρ f
  | .case test items _ d => envOk ρ test && envOkItems ρ items && envOkSs ρ d
def envOkSs (ρ : Env) : Stmts → Bool
  | .nil => true
  | .cons s ss => envOkS ρ s && envOkSs ρ ss
def envOkItems (ρ : Env) : Items → Bool
  | .nil => true
  | .cons _ _ _ body rest => envOkSs ρ body && envOkItems ρ rest
end

theorem staticallyFits_Fits (e : Expr) (W : Nat) (h : staticallyFits e W = true) (ρ : Env) (hρ : envOk ρ e = true) :
    Fits ρ e W = true := by
  simp only [staticallyFits, Bool.and_eq_true] at h
  simp only [Fits, Bool.and_eq_true]
  exact ⟨sfitsP_sound ρ e h.1 hρ, sfitsV_sound ρ _ _ _ h.2⟩

theorem sfitsAssign_sound (ρ : Env) (l r : Expr) (h : sfitsAssign l r = true) (hρ : envOk ρ r = true) :
    fitsAssign ρ l r = true := by
  simp only [sfitsAssign, Bool.and_eq_true] at h
  simp only [fitsAssign, Bool.and_eq_true]
  exact ⟨h.1, staticallyFits_Fits r _ h.2 ρ hρ⟩

theorem sfitsCond_sound (ρ : Env) (c : Expr) (h : sfitsCond c = true) (hρ : envOk ρ c = true) :
    fitsCond ρ c = true := by
  simp only [sfitsCond, Bool.and_eq_true] at h
  have hfit := staticallyFits_Fits c _ h.1 ρ hρ
  simp only [fitsCond, Bool.and_eq_true]
  refine ⟨hfit, ?_⟩
  simp only [Fits, Bool.and_eq_true] at hfit
  exact condOk_of_scondOk ρ c hfit.1 h.2

theorem sfitsCase_sound (ρ : Env) (test : Expr) (items : Items) (h : sfitsCase test items = true)
    (hρ : envOk ρ test = true) : fitsCase ρ test items = true := by
  simp only [sfitsCase, Bool.and_eq_true, Bool.or_eq_true, decide_eq_true_eq] at h
  obtain ⟨⟨⟨⟨⟨⟨hP, hV⟩, hW⟩, hok⟩, hn⟩, hr⟩, hc⟩ := h
  have hP' := sfitsP_sound ρ test hP hρ
  have hb := bounds_sound ρ (printE test).1
  rw [printE_ideal ρ test hP'] at hb
  simp only [fitsCase, Bool.and_eq_true, Bool.or_eq_true, decide_eq_true_eq]
  refine ⟨⟨⟨⟨⟨⟨hP', sfitsV_sound ρ _ _ _ hV⟩, hW⟩, hok⟩, hn⟩, inRange_of_bounds hr hb.1 hb.2⟩, ?_⟩
  rcases hc with ⟨h1, h2⟩ | ⟨h1, h2⟩
  · exact Or.inl ⟨inRange_of_bounds h1 hb.1 hb.2, h2⟩
  · exact Or.inr ⟨inRange_of_bounds h1 hb.1 hb.2, h2⟩

mutual
theorem sfitsS_sound (ρ : Env) : ∀ s, sfitsS s = true → envOkS ρ s = true → fitsS ρ s = true
  | .assign l r, h, he => by
    simp only [sfitsS] at h; simp only [envOkS] at he; simp only [fitsS]
    exact sfitsAssign_sound ρ l r h he
  | .ite c t f, h, he => by
    simp only [sfitsS, Bool.and_eq_true] at h
    simp only [envOkS, Bool.and_eq_true] at he
    simp only [fitsS, Bool.and_eq_true]
    exact ⟨⟨sfitsCond_sound ρ c h.1.1 he.1.1, sfitsSs_sound ρ t h.1.2 he.1.2⟩, sfitsSs_sound ρ f h.2 he.2⟩
  | .case test items hd d, h, he => by
    simp only [sfitsS, Bool.and_eq_true] at h
    simp only [envOkS, Bool.and_eq_true] at he
    simp only [fitsS, Bool.and_eq_true]
    exact ⟨⟨sfitsCase_sound ρ test items h.1.1 he.1.1, sfitsItems_sound ρ items h.1.2 he.1.2⟩,
      sfitsSs_sound ρ d h.2 he.2⟩
theorem sfitsSs_sound (ρ : Env) : ∀ ss, sfitsSs ss = true → envOkSs ρ ss = true → fitsSs ρ ss = true
  | .nil, _, _ => rfl
  | .cons s ss, h, he => by
    simp only [sfitsSs, Bool.and_eq_true] at h
    simp only [envOkSs, Bool.and_eq_true] at he
    simp only [fitsSs, Bool.and_eq_true]
    exact ⟨sfitsS_sound ρ s h.1 he.1, sfitsSs_sound ρ ss h.2 he.2⟩
theorem sfitsItems_sound (ρ : Env) : ∀ items, sfitsItems items = true → envOkItems ρ items = true →
    fitsItems ρ items = true
  | .nil, _, _ => rfl
  | .cons k kw ks body rest, h, he => by
    simp only [sfitsItems, Bool.and_eq_true] at h
    simp only [envOkItems, Bool.and_eq_true] at he
    simp only [fitsItems, Bool.and_eq_true]
    exact ⟨sfitsSs_sound ρ body h.1 he.1, sfitsItems_sound ρ rest h.2 he.2⟩
end

end Litex.C01
