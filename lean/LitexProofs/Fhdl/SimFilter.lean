import LitexModel.Fhdl.SimBackend
import LitexProofs.Fhdl.ModuleStep
/-
  The per-target filter of the simulation-flavoured comb back-end (`_generate_node(..., target_filter=t)`):
  FHDL-level facts.  For statements whose assignments each drive ONE signal (`leafTargetsSs`):
    * `filter_other`  the statements kept for target `t` write `t` only;
    * `filter_same`   on `t` they compute what the unfiltered list computes;
    * `nowrite`       statements that do not have `u` among their targets do not write `u`;
  and the side conditions of the block theorem survive the filter.
-/
namespace Litex.C01

theorem lookupM_cons (m : Mods) (i u : Nat) (v : Int) :
    lookupM ((i, v) :: m) u = if i = u then some v else lookupM m u := rfl

theorem readPost_of_lookup {ρ : Env} {m m' : Mods} {i : Nat} (h : lookupM m i = lookupM m' i) :
    readPost ρ m i = readPost ρ m' i := by
  simp only [readPost, h]

/-! ### one assignment to a leaf target -/

theorem assignT_other (ρ : Env) (l : Expr) (hl : leafOk l = true) (u : Nat) (hu : u ∉ targetsE l) (x : Int)
    (m : Mods) : lookupM (assignT ρ l x m) u = lookupM m u := by
  cases l with
  | sig i w s =>
    simp only [targetsE, List.mem_singleton] at hu
    simp only [assignT, lookupM_cons]
    rw [if_neg (fun h => hu h.symm)]
  | slice a lo hi =>
    cases a with
    | sig i w s =>
      simp only [targetsE, List.mem_singleton] at hu
      simp only [assignT, lookupM_cons]
      rw [if_neg (fun h => hu h.symm)]
    | _ => simp [leafOk] at hl
  | _ => simp [leafOk] at hl

theorem assignT_same (ρ : Env) (l : Expr) (hl : leafOk l = true) (t : Nat) (ht : t ∈ targetsE l) (x : Int)
    (m m' : Mods) (h : lookupM m t = lookupM m' t) :
    lookupM (assignT ρ l x m) t = lookupM (assignT ρ l x m') t := by
  cases l with
  | sig i w s =>
    simp only [assignT, lookupM_cons]
    split <;> simp [h]
  | slice a lo hi =>
    cases a with
    | sig i w s =>
      simp only [targetsE, List.mem_singleton] at ht
      subst ht
      simp only [assignT, lookupM_cons, evalF, if_true, readPost_of_lookup h]
    | _ => simp [leafOk] at hl
  | _ => simp [leafOk] at hl

theorem targetsE_leaf (l : Expr) (hl : leafOk l = true) : ∃ i, targetsE l = [i] := by
  cases l with
  | sig i w s => exact ⟨i, rfl⟩
  | slice a lo hi =>
    cases a with
    | sig i w s => exact ⟨i, rfl⟩
    | _ => simp [leafOk] at hl
  | _ => simp [leafOk] at hl

/-! ### statements that do not target `u` do not write `u` -/

mutual
theorem nowriteS (ρ : Env) (u : Nat) : ∀ (s : Stmt), leafTargetsS s = true → u ∉ targetsS s → ∀ m,
    lookupM (execF ρ s m) u = lookupM m u
  | .assign l r, hl, hu, m => by
    simp only [leafTargetsS] at hl
    simp only [targetsS] at hu
    simp only [execF]
    exact assignT_other ρ l hl u hu _ m
  | .ite c a b, hl, hu, m => by
    simp only [leafTargetsS, Bool.and_eq_true] at hl
    simp only [targetsS, List.mem_append, not_or] at hu
    simp only [execF]
    split
    · exact nowriteSs ρ u a hl.1 hu.1 m
    · exact nowriteSs ρ u b hl.2 hu.2 m
  | .case test items hasD d, hl, hu, m => by
    simp only [leafTargetsS, Bool.and_eq_true] at hl
    simp only [targetsS, List.mem_append, not_or] at hu
    simp only [execF]
    have hi := nowriteItems ρ u items hl.1 hu.1
      (truncS (bitsSign test).1 (bitsSign test).2 (evalF ρ test)) m
    generalize execItems ρ items (truncS (bitsSign test).1 (bitsSign test).2 (evalF ρ test)) m = ro at hi
    cases ro with
    | some m' => exact hi m' rfl
    | none =>
      cases hasD with
      | false => rfl
      | true =>
        simp only [if_true] at hu ⊢
        exact nowriteSs ρ u d hl.2 hu.2 m
theorem nowriteSs (ρ : Env) (u : Nat) : ∀ (ss : Stmts), leafTargetsSs ss = true → u ∉ targetsSs ss → ∀ m,
    lookupM (execFs ρ ss m) u = lookupM m u
  | .nil, _, _, m => rfl
  | .cons s ss, hl, hu, m => by
    simp only [leafTargetsSs, Bool.and_eq_true] at hl
    simp only [targetsSs, List.mem_append, not_or] at hu
    simp only [execFs]
    rw [nowriteSs ρ u ss hl.2 hu.2, nowriteS ρ u s hl.1 hu.1]
theorem nowriteItems (ρ : Env) (u : Nat) : ∀ (items : Items), leafTargetsItems items = true →
    u ∉ targetsItems items → ∀ v m m', execItems ρ items v m = some m' → lookupM m' u = lookupM m u
  | .nil, _, _, v, m, m', h => by simp [execItems] at h
  | .cons k kw ks body rest, hl, hu, v, m, m', h => by
    simp only [leafTargetsItems, Bool.and_eq_true] at hl
    simp only [targetsItems, List.mem_append, not_or] at hu
    simp only [execItems] at h
    split at h
    · injection h with h
      rw [← h]
      exact nowriteSs ρ u body hl.1 hu.1 m
    · exact nowriteItems ρ u rest hl.2 hu.2 v m m' h
end

/-! ### the statements kept for `t` write `t` only -/

mutual
theorem filter_otherS (ρ : Env) (t u : Nat) (hut : u ≠ t) : ∀ (s : Stmt), leafTargetsS s = true →
    t ∈ targetsS s → ∀ m, lookupM (execF ρ (filterS t s) m) u = lookupM m u
  | .assign l r, hl, ht, m => by
    simp only [leafTargetsS] at hl
    simp only [targetsS] at ht
    simp only [filterS, execF]
    apply assignT_other ρ l hl u _ _ m
    obtain ⟨i, hi⟩ := targetsE_leaf l hl
    rw [hi] at ht ⊢
    simp only [List.mem_singleton] at ht ⊢
    rw [← ht]; exact hut
  | .ite c a b, hl, _, m => by
    simp only [leafTargetsS, Bool.and_eq_true] at hl
    simp only [filterS, execF]
    split
    · exact filter_otherSs ρ t u hut a hl.1 m
    · exact filter_otherSs ρ t u hut b hl.2 m
  | .case test items hasD d, hl, _, m => by
    simp only [leafTargetsS, Bool.and_eq_true] at hl
    simp only [filterS, execF]
    have hi := filter_otherItems ρ t u hut items hl.1
      (truncS (bitsSign test).1 (bitsSign test).2 (evalF ρ test)) m
    generalize execItems ρ (filterItems t items) (truncS (bitsSign test).1 (bitsSign test).2 (evalF ρ test)) m = ro at hi
    cases ro with
    | some m' => exact hi m' rfl
    | none =>
      cases hasD with
      | false => rfl
      | true =>
        simp only [if_true]
        exact filter_otherSs ρ t u hut d hl.2 m
theorem filter_otherSs (ρ : Env) (t u : Nat) (hut : u ≠ t) : ∀ (ss : Stmts), leafTargetsSs ss = true → ∀ m,
    lookupM (execFs ρ (filterSs t ss) m) u = lookupM m u
  | .nil, _, m => rfl
  | .cons s ss, hl, m => by
    simp only [leafTargetsSs, Bool.and_eq_true] at hl
    simp only [filterSs]
    split
    · rename_i ht
      simp only [execFs]
      rw [filter_otherSs ρ t u hut ss hl.2, filter_otherS ρ t u hut s hl.1 ht]
    · exact filter_otherSs ρ t u hut ss hl.2 m
theorem filter_otherItems (ρ : Env) (t u : Nat) (hut : u ≠ t) : ∀ (items : Items), leafTargetsItems items = true →
    ∀ v m m', execItems ρ (filterItems t items) v m = some m' → lookupM m' u = lookupM m u
  | .nil, _, v, m, m', h => by simp [filterItems, execItems] at h
  | .cons k kw ks body rest, hl, v, m, m', h => by
    simp only [leafTargetsItems, Bool.and_eq_true] at hl
    simp only [filterItems, execItems] at h
    split at h
    · injection h with h
      rw [← h]
      exact filter_otherSs ρ t u hut body hl.1 m
    · exact filter_otherItems ρ t u hut rest hl.2 v m m' h
end

/-! ### on `t` the kept statements compute what the whole list computes -/

mutual
theorem filter_sameS (ρ : Env) (t : Nat) : ∀ (s : Stmt), leafTargetsS s = true → ∀ m m',
    lookupM m t = lookupM m' t → lookupM (execF ρ (filterS t s) m) t = lookupM (execF ρ s m') t
  | .assign l r, hl, m, m', h => by
    simp only [leafTargetsS] at hl
    simp only [filterS, execF]
    by_cases ht : t ∈ targetsE l
    · exact assignT_same ρ l hl t ht _ m m' h
    · rw [assignT_other ρ l hl t ht, assignT_other ρ l hl t ht, h]
  | .ite c a b, hl, m, m', h => by
    simp only [leafTargetsS, Bool.and_eq_true] at hl
    simp only [filterS, execF]
    split
    · exact filter_sameSs ρ t a hl.1 m m' h
    · exact filter_sameSs ρ t b hl.2 m m' h
  | .case test items hasD d, hl, m, m', h => by
    simp only [leafTargetsS, Bool.and_eq_true] at hl
    simp only [filterS, execF]
    have hi := filter_sameItems ρ t items hl.1
      (truncS (bitsSign test).1 (bitsSign test).2 (evalF ρ test)) m m' h
    generalize execItems ρ (filterItems t items) (truncS (bitsSign test).1 (bitsSign test).2 (evalF ρ test)) m = ro at hi
    generalize execItems ρ items (truncS (bitsSign test).1 (bitsSign test).2 (evalF ρ test)) m' = ro' at hi
    cases ro <;> cases ro' <;> simp only [Option.map, reduceCtorEq, Option.some.injEq] at hi
    · cases hasD with
      | false => exact h
      | true =>
        simp only [if_true]
        exact filter_sameSs ρ t d hl.2 m m' h
    · exact hi
theorem filter_sameSs (ρ : Env) (t : Nat) : ∀ (ss : Stmts), leafTargetsSs ss = true → ∀ m m',
    lookupM m t = lookupM m' t → lookupM (execFs ρ (filterSs t ss) m) t = lookupM (execFs ρ ss m') t
  | .nil, _, m, m', h => h
  | .cons s ss, hl, m, m', h => by
    simp only [leafTargetsSs, Bool.and_eq_true] at hl
    simp only [filterSs]
    split
    · simp only [execFs]
      exact filter_sameSs ρ t ss hl.2 _ _ (filter_sameS ρ t s hl.1 m m' h)
    · rename_i ht
      simp only [execFs]
      apply filter_sameSs ρ t ss hl.2
      rw [nowriteS ρ t s hl.1 ht]
      exact h
theorem filter_sameItems (ρ : Env) (t : Nat) : ∀ (items : Items), leafTargetsItems items = true → ∀ v m m',
    lookupM m t = lookupM m' t →
    (execItems ρ (filterItems t items) v m).map (fun x => lookupM x t) =
      (execItems ρ items v m').map (fun x => lookupM x t)
  | .nil, _, v, m, m', _ => rfl
  | .cons k kw ks body rest, hl, v, m, m', h => by
    simp only [leafTargetsItems, Bool.and_eq_true] at hl
    simp only [filterItems, execItems]
    split
    · simp only [Option.map]
      rw [filter_sameSs ρ t body hl.1 m m' h]
    · exact filter_sameItems ρ t rest hl.2 v m m' h
end

/-- A single top-level statement for `t` is all that survives the filter. -/
theorem filterSs_of_stmtsFor_nil (t : Nat) : ∀ (ss : Stmts), stmtsFor t ss = .nil → filterSs t ss = .nil
  | .nil, _ => rfl
  | .cons s ss, h => by
    simp only [stmtsFor] at h
    simp only [filterSs]
    split at h
    · cases h
    · rename_i ht
      rw [if_neg ht]
      exact filterSs_of_stmtsFor_nil t ss h

theorem filterSs_of_stmtsFor_assign (t : Nat) (l r : Expr) : ∀ (ss : Stmts),
    stmtsFor t ss = .cons (.assign l r) .nil → filterSs t ss = .cons (.assign l r) .nil
  | .nil, h => by simp [stmtsFor] at h
  | .cons s ss, h => by
    simp only [stmtsFor] at h
    simp only [filterSs]
    split at h
    · rename_i ht
      rw [if_pos ht]
      injection h with h1 h2
      subst h1
      rw [filterSs_of_stmtsFor_nil t ss h2]
      rfl
    · rename_i ht
      rw [if_neg ht]
      exact filterSs_of_stmtsFor_assign t l r ss h

theorem mem_targets_of_stmtsFor (t : Nat) (s : Stmt) : ∀ (ss : Stmts),
    stmtsFor t ss = .cons s .nil → t ∈ targetsS s
  | .nil, h => by simp [stmtsFor] at h
  | .cons s' ss, h => by
    simp only [stmtsFor] at h
    split at h
    · rename_i ht
      injection h with h1 _
      subst h1; exact ht
    · exact mem_targets_of_stmtsFor t s ss h

theorem leaf_of_stmtsFor (t : Nat) (s : Stmt) : ∀ (ss : Stmts), leafTargetsSs ss = true →
    stmtsFor t ss = .cons s .nil → leafTargetsS s = true
  | .nil, _, h => by simp [stmtsFor] at h
  | .cons s' ss, hl, h => by
    simp only [leafTargetsSs, Bool.and_eq_true] at hl
    simp only [stmtsFor] at h
    split at h
    · injection h with h1 _
      subst h1; exact hl.1
    · exact leaf_of_stmtsFor t s ss hl.2 h

end Litex.C01
