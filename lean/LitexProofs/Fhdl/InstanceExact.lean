import LitexModel.Fhdl.Instance
import Mathlib.Data.List.Perm.Basic
namespace Litex.C01

theorem filter_dirs_perm (l : List InstPort) :
    (l.filter (fun p => p.dir == .input) ++ (l.filter (fun p => p.dir == .output) ++
      l.filter (fun p => p.dir == .inout))).Perm l := by
  induction l with
  | nil => simp
  | cons p ps ih =>
    cases hd : p.dir <;> simp only [List.filter_cons, hd, beq_self_eq_true, if_true, reduceCtorEq, beq_iff_eq,
      if_false, List.cons_append]
    · exact List.Perm.cons p ih
    · exact (List.perm_middle).trans (List.Perm.cons p ih)
    · refine List.Perm.trans ?_ (List.Perm.cons p ih)
      rw [← List.append_assoc]
      exact (List.perm_middle).trans (by rw [List.append_assoc])

/-- The emitted connection list is, up to order, exactly the Instance's port items, each with the expression
    printer's text of its expression (nothing dropped, nothing duplicated, nothing invented). -/
theorem printInstance_ports_perm (ps : List InstParam) (qs : List InstPort) :
    (printInstance ps qs).ports.Perm (qs.map printPort) :=
  (filter_dirs_perm qs).map printPort

theorem printInstance_params (ps : List InstParam) (qs : List InstPort) :
    (printInstance ps qs).params = ps.map fun p => (p.name, printParam p.v) := rfl

end Litex.C01
