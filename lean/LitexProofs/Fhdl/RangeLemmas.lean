import LitexModel.Fhdl.Static
import LitexProofs.Fhdl.BitLemmas
import LitexProofs.Verilog.Eval
/-
  Soundness of the value-range analysis `bounds` (every unbounded value of a Verilog expression lies between
  the two bounds, for every valuation).
-/
namespace Litex.C01

theorem natCast_lt_p2 {a n : Nat} : (a : Int) < p2 n ↔ a < 2 ^ n := by
  rw [← p2_natCast]; exact Int.ofNat_lt

theorem blen_spec (x : Int) : -(p2 (blen x)) < x ∧ x < p2 (blen x) := by
  have h : x.natAbs < 2 ^ (blen x) := Nat.lt_log2_self
  have h' : (x.natAbs : Int) < p2 (blen x) := natCast_lt_p2.2 h
  omega

/-- `x ∈ [-2^n, 2^n)` in constructor form. -/
theorem hull_cases {n : Nat} {x : Int} (h0 : -(p2 n) ≤ x) (h1 : x < p2 n) :
    (∃ a : Nat, x = Int.ofNat a ∧ a < 2 ^ n) ∨ (∃ m : Nat, x = Int.negSucc m ∧ m < 2 ^ n) := by
  cases x with
  | ofNat a => left; exact ⟨a, rfl, natCast_lt_p2.1 h1⟩
  | negSucc m =>
    right; refine ⟨m, rfl, ?_⟩
    apply natCast_lt_p2.1
    have : Int.negSucc m = -((m : Int) + 1) := rfl
    omega

theorem b2i_le (c : Bool) : 0 ≤ b2i c ∧ b2i c ≤ 1 := by cases c <;> simp [b2i]

theorem ofNat_hull {a n : Nat} (h : a < 2 ^ n) : -(p2 n) ≤ Int.ofNat a ∧ Int.ofNat a < p2 n := by
  have h1 := natCast_lt_p2.2 h
  have h2 := p2_pos n
  constructor
  · show -(p2 n) ≤ (a : Int); omega
  · exact h1

theorem negSucc_hull {m n : Nat} (h : m < 2 ^ n) : -(p2 n) ≤ Int.negSucc m ∧ Int.negSucc m < p2 n := by
  have := natCast_lt_p2.2 h
  have := p2_pos n
  have : Int.negSucc m = -((m : Int) + 1) := rfl
  omega

theorem landI_hull {n : Nat} {x y : Int} (hx0 : -(p2 n) ≤ x) (hx1 : x < p2 n) (hy0 : -(p2 n) ≤ y) (hy1 : y < p2 n) :
    -(p2 n) ≤ landI x y ∧ landI x y < p2 n := by
  rcases hull_cases hx0 hx1 with ⟨a, rfl, ha⟩ | ⟨a, rfl, ha⟩ <;>
  rcases hull_cases hy0 hy1 with ⟨b, rfl, hb⟩ | ⟨b, rfl, hb⟩ <;> simp only [landI]
  · exact ofNat_hull (Nat.and_lt_two_pow a hb)
  · exact ofNat_hull (Nat.xor_lt_two_pow ha (Nat.lt_of_le_of_lt Nat.and_le_left ha))
  · exact ofNat_hull (Nat.xor_lt_two_pow hb (Nat.lt_of_le_of_lt Nat.and_le_left hb))
  · exact negSucc_hull (Nat.or_lt_two_pow ha hb)

theorem lorI_hull {n : Nat} {x y : Int} (hx0 : -(p2 n) ≤ x) (hx1 : x < p2 n) (hy0 : -(p2 n) ≤ y) (hy1 : y < p2 n) :
    -(p2 n) ≤ lorI x y ∧ lorI x y < p2 n := by
  rcases hull_cases hx0 hx1 with ⟨a, rfl, ha⟩ | ⟨a, rfl, ha⟩ <;>
  rcases hull_cases hy0 hy1 with ⟨b, rfl, hb⟩ | ⟨b, rfl, hb⟩ <;> simp only [lorI]
  · exact ofNat_hull (Nat.or_lt_two_pow ha hb)
  · exact negSucc_hull (Nat.xor_lt_two_pow hb (Nat.lt_of_le_of_lt Nat.and_le_left hb))
  · exact negSucc_hull (Nat.xor_lt_two_pow ha (Nat.lt_of_le_of_lt Nat.and_le_left ha))
  · exact negSucc_hull (Nat.and_lt_two_pow a hb)

theorem xorI_hull {n : Nat} {x y : Int} (hx0 : -(p2 n) ≤ x) (hx1 : x < p2 n) (hy0 : -(p2 n) ≤ y) (hy1 : y < p2 n) :
    -(p2 n) ≤ xorI x y ∧ xorI x y < p2 n := by
  rcases hull_cases hx0 hx1 with ⟨a, rfl, ha⟩ | ⟨a, rfl, ha⟩ <;>
  rcases hull_cases hy0 hy1 with ⟨b, rfl, hb⟩ | ⟨b, rfl, hb⟩ <;> simp only [xorI]
  · exact ofNat_hull (Nat.xor_lt_two_pow ha hb)
  · exact negSucc_hull (Nat.xor_lt_two_pow ha hb)
  · exact negSucc_hull (Nat.xor_lt_two_pow ha hb)
  · exact ofNat_hull (Nat.xor_lt_two_pow ha hb)

/-- `x & y` with a non-negative `x < 2^n` is a non-negative number below `2^n`, whatever `y`. -/
theorem landI_nonneg_left {n : Nat} {x : Int} (h0 : 0 ≤ x) (h1 : x < p2 n) (y : Int) :
    0 ≤ landI x y ∧ landI x y < p2 n := by
  cases x with
  | negSucc m => exact absurd h0 (by simp)
  | ofNat a =>
    have ha : a < 2 ^ n := natCast_lt_p2.1 h1
    cases y with
    | ofNat b =>
      simp only [landI]
      exact ⟨Int.natCast_nonneg _, natCast_lt_p2.2 (Nat.lt_of_le_of_lt Nat.and_le_left ha)⟩
    | negSucc m =>
      simp only [landI]
      exact ⟨Int.natCast_nonneg _,
        natCast_lt_p2.2 (Nat.xor_lt_two_pow ha (Nat.lt_of_le_of_lt Nat.and_le_left ha))⟩

theorem landI_nonneg_right {n : Nat} {y : Int} (h0 : 0 ≤ y) (h1 : y < p2 n) (x : Int) :
    0 ≤ landI x y ∧ landI x y < p2 n := by
  cases y with
  | negSucc m => exact absurd h0 (by simp)
  | ofNat b =>
    have hb : b < 2 ^ n := natCast_lt_p2.1 h1
    cases x with
    | ofNat a =>
      simp only [landI]
      exact ⟨Int.natCast_nonneg _, natCast_lt_p2.2 (Nat.lt_of_le_of_lt Nat.and_le_right hb)⟩
    | negSucc m =>
      simp only [landI]
      exact ⟨Int.natCast_nonneg _,
        natCast_lt_p2.2 (Nat.xor_lt_two_pow hb (Nat.lt_of_le_of_lt Nat.and_le_left hb))⟩

theorem lorI_nonneg {n : Nat} {x y : Int} (hx0 : 0 ≤ x) (hx1 : x < p2 n) (hy0 : 0 ≤ y) (hy1 : y < p2 n) :
    0 ≤ lorI x y ∧ lorI x y < p2 n := by
  cases x with
  | negSucc m => exact absurd hx0 (by simp)
  | ofNat a =>
    cases y with
    | negSucc m => exact absurd hy0 (by simp)
    | ofNat b =>
      simp only [lorI]
      exact ⟨Int.natCast_nonneg _, natCast_lt_p2.2 (Nat.or_lt_two_pow (natCast_lt_p2.1 hx1) (natCast_lt_p2.1 hy1))⟩

theorem xorI_nonneg {n : Nat} {x y : Int} (hx0 : 0 ≤ x) (hx1 : x < p2 n) (hy0 : 0 ≤ y) (hy1 : y < p2 n) :
    0 ≤ xorI x y ∧ xorI x y < p2 n := by
  cases x with
  | negSucc m => exact absurd hx0 (by simp)
  | ofNat a =>
    cases y with
    | negSucc m => exact absurd hy0 (by simp)
    | ofNat b =>
      simp only [xorI]
      exact ⟨Int.natCast_nonneg _, natCast_lt_p2.2 (Nat.xor_lt_two_pow (natCast_lt_p2.1 hx1) (natCast_lt_p2.1 hy1))⟩

/-- All four bounds, hence everything between them, lie in the signed hull. -/
theorem hullS_spec {a b : Int × Int} {x y : Int} (hx : a.1 ≤ x ∧ x ≤ a.2) (hy : b.1 ≤ y ∧ y ≤ b.2) :
    ∃ n, hullS a b = (-(p2 n), p2 n - 1) ∧ -(p2 n) ≤ x ∧ x < p2 n ∧ -(p2 n) ≤ y ∧ y < p2 n := by
  refine ⟨max (max (blen a.1) (blen a.2)) (max (blen b.1) (blen b.2)), rfl, ?_⟩
  have h1 := blen_spec a.1
  have h2 := blen_spec a.2
  have h3 := blen_spec b.1
  have h4 := blen_spec b.2
  have m1 : p2 (blen a.1) ≤ p2 (max (max (blen a.1) (blen a.2)) (max (blen b.1) (blen b.2))) := p2_le (by omega)
  have m2 : p2 (blen a.2) ≤ p2 (max (max (blen a.1) (blen a.2)) (max (blen b.1) (blen b.2))) := p2_le (by omega)
  have m3 : p2 (blen b.1) ≤ p2 (max (max (blen a.1) (blen a.2)) (max (blen b.1) (blen b.2))) := p2_le (by omega)
  have m4 : p2 (blen b.2) ≤ p2 (max (max (blen a.1) (blen a.2)) (max (blen b.1) (blen b.2))) := p2_le (by omega)
  omega

theorem toNat_mono {a b : Int} (h : a ≤ b) : a.toNat ≤ b.toNat := by omega

theorem bndBin_sound (o : VBin) {a b : Int × Int} {x y : Int} (hx : a.1 ≤ x ∧ x ≤ a.2) (hy : b.1 ≤ y ∧ y ≤ b.2) :
    (bndBin o a b).1 ≤ idealBin o x y ∧ idealBin o x y ≤ (bndBin o a b).2 := by
  cases o
  case add => simp only [bndBin, idealBin]; omega
  case sub => simp only [bndBin, idealBin]; omega
  case mul =>
    simp only [bndBin, idealBin]
    split
    · rename_i h
      constructor
      · exact Int.mul_le_mul hx.1 hy.1 h.2 (by omega)
      · exact Int.mul_le_mul hx.2 hy.2 (by omega) (by omega)
    · have hA : x.natAbs ≤ max a.1.natAbs a.2.natAbs := by omega
      have hB : y.natAbs ≤ max b.1.natAbs b.2.natAbs := by omega
      have hm : (x * y).natAbs ≤ max a.1.natAbs a.2.natAbs * max b.1.natAbs b.2.natAbs := by
        rw [Int.natAbs_mul]; exact Nat.mul_le_mul hA hB
      have : ((x * y).natAbs : Int) ≤ ((max a.1.natAbs a.2.natAbs * max b.1.natAbs b.2.natAbs : Nat) : Int) :=
        Int.ofNat_le.2 hm
      constructor <;> simp only <;> omega
  case shl =>
    simp only [bndBin, idealBin, shlI]
    have hk1 := p2_le (toNat_mono hy.1)
    have hk2 := p2_le (toNat_mono hy.2)
    have hp1 := p2_pos b.1.toNat
    have hp := p2_pos y.toNat
    constructor
    · split
      · rename_i hneg
        calc a.1 * p2 b.2.toNat ≤ a.1 * p2 y.toNat := by nlinarith
          _ ≤ x * p2 y.toNat := by nlinarith
      · rename_i hpos
        calc a.1 * p2 b.1.toNat ≤ a.1 * p2 y.toNat := by nlinarith
          _ ≤ x * p2 y.toNat := by nlinarith
    · split
      · rename_i hneg
        calc x * p2 y.toNat ≤ a.2 * p2 y.toNat := by nlinarith
          _ ≤ a.2 * p2 b.1.toNat := by nlinarith
      · rename_i hpos
        calc x * p2 y.toNat ≤ a.2 * p2 y.toNat := by nlinarith
          _ ≤ a.2 * p2 b.2.toNat := by nlinarith
  case shr =>
    simp only [bndBin, idealBin, shrI]
    split
    · rename_i heq
      have : y.toNat = b.1.toNat := by
        have := toNat_mono hy.1; have := toNat_mono hy.2; omega
      rw [this]
      exact ⟨Int.ediv_le_ediv (p2_pos _) hx.1, Int.ediv_le_ediv (p2_pos _) hx.2⟩
    · have hp := p2_pos y.toNat
      by_cases hx0 : 0 ≤ x
      · have h1 : 0 ≤ x / p2 y.toNat := Int.ediv_nonneg hx0 (by omega)
        have h2 : x / p2 y.toNat ≤ x := Int.ediv_le_self _ hx0
        simp only; omega
      · have h1 : x / p2 y.toNat < 0 := Int.ediv_neg_of_neg_of_pos (by omega) hp
        have h2 : x ≤ x / p2 y.toNat := by
          apply Int.le_ediv_of_mul_le hp
          nlinarith
        simp only; omega
  case and =>
    simp only [bndBin, idealBin]
    split
    · have := landI_nonneg_left (n := blen a.2) (x := x) (by omega) (by have := blen_spec a.2; omega) y
      simp only; omega
    · split
      · have := landI_nonneg_right (n := blen b.2) (y := y) (by omega) (by have := blen_spec b.2; omega) x
        simp only; omega
      · obtain ⟨n, hn, h1, h2, h3, h4⟩ := hullS_spec hx hy
        rw [hn]
        have := landI_hull h1 h2 h3 h4
        simp only; omega
  case xor =>
    simp only [bndBin, idealBin]
    split
    · rename_i h
      have m1 : p2 (blen a.2) ≤ p2 (max (blen a.2) (blen b.2)) := p2_le (by omega)
      have m2 : p2 (blen b.2) ≤ p2 (max (blen a.2) (blen b.2)) := p2_le (by omega)
      have := xorI_nonneg (n := max (blen a.2) (blen b.2)) (x := x) (y := y) (by omega)
        (by have := blen_spec a.2; omega) (by omega) (by have := blen_spec b.2; omega)
      simp only; omega
    · obtain ⟨n, hn, h1, h2, h3, h4⟩ := hullS_spec hx hy
      rw [hn]
      have := xorI_hull h1 h2 h3 h4
      simp only; omega
  case or =>
    simp only [bndBin, idealBin]
    split
    · rename_i h
      have m1 : p2 (blen a.2) ≤ p2 (max (blen a.2) (blen b.2)) := p2_le (by omega)
      have m2 : p2 (blen b.2) ≤ p2 (max (blen a.2) (blen b.2)) := p2_le (by omega)
      have := lorI_nonneg (n := max (blen a.2) (blen b.2)) (x := x) (y := y) (by omega)
        (by have := blen_spec a.2; omega) (by omega) (by have := blen_spec b.2; omega)
      simp only; omega
    · obtain ⟨n, hn, h1, h2, h3, h4⟩ := hullS_spec hx hy
      rw [hn]
      have := lorI_hull h1 h2 h3 h4
      simp only; omega
  all_goals
    simp only [bndBin, idealBin]
    exact b2i_le _

end Litex.C01
