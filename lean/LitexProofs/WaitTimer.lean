import LitexModel.WaitTimer
/-
  `WaitTimer(t)`: the register always equals `t - min t (streak)`, where `streak` is the number of
  consecutive cycles `wait` has been held up to now.  Hence `done` exactly after `t` consecutive waiting
  cycles, never before, and the count is reloaded by any cycle with `wait = 0`.
-/
namespace Litex

/-- Induction from the right (core Lean has no `List.reverseRecOn`). -/
theorem snoc_induction {α : Type} {P : List α → Prop} (nil : P [])
    (snoc : ∀ (l : List α) (a : α), P l → P (l ++ [a])) : ∀ l, P l := by
  intro l
  rw [← List.reverse_reverse l]
  induction l.reverse with
  | nil => exact nil
  | cons a l ih => rw [List.reverse_cons]; exact snoc _ _ ih

end Litex

namespace Litex.WaitTimer

theorem next_spec (t k : Nat) (w : Bool) :
    next t (t - min t k) w = t - min t (streakStep k w) := by
  cases w
  · simp [next, streakStep]
  · simp only [next, done, streakStep, if_true, beq_iff_eq]
    split <;> omega

/-- Generalised invariant: if the register holds `t - min t k` (a streak of `k` so far), it holds
    `t - min t k'` after any further history, `k'` being the continued streak. -/
theorem runFrom_spec (t : Nat) (ws : List Bool) : ∀ k : Nat,
    runFrom t (t - min t k) ws = t - min t (streakFrom k ws) := by
  induction ws with
  | nil => intro k; rfl
  | cons w ws ih =>
    intro k
    show runFrom t (next t (t - min t k) w) ws = _
    rw [next_spec, ih]
    rfl

theorem run_spec (t : Nat) (ws : List Bool) : run t ws = t - min t (streak ws) := by
  have h := runFrom_spec t ws 0
  simpa [run, runFrom, Machine.run, machine, streak] using h

theorem streakFrom_append (k : Nat) (a b : List Bool) :
    streakFrom k (a ++ b) = streakFrom (streakFrom k a) b := by
  simp [streakFrom, List.foldl_append]

theorem streakFrom_replicate_true (k n : Nat) : streakFrom k (List.replicate n true) = k + n := by
  induction n generalizing k with
  | zero => rfl
  | succ n ih =>
    simp only [List.replicate_succ, streakFrom, List.foldl_cons] at ih ⊢
    rw [ih]; simp [streakStep]; omega

/-- The streak after `… , false, true × n` is exactly `n`. -/
theorem streak_false_trues (pre : List Bool) (n : Nat) :
    streak (pre ++ false :: List.replicate n true) = n := by
  unfold streak
  rw [streakFrom_append]
  show streakFrom (streakStep _ false) (List.replicate n true) = n
  rw [streakFrom_replicate_true]; simp [streakStep]

theorem streak_trues (n : Nat) : streak (List.replicate n true) = n := by
  unfold streak; rw [streakFrom_replicate_true]; simp

/-- The streak never exceeds the length of the history. -/
theorem streakFrom_le (k : Nat) (ws : List Bool) : streakFrom k ws ≤ k + ws.length := by
  induction ws generalizing k with
  | nil => simp [streakFrom]
  | cons w ws ih =>
    have := ih (streakStep k w)
    simp only [streakFrom, List.foldl_cons, List.length_cons] at this ⊢
    cases w <;> simp [streakStep] at this ⊢ <;> omega

/-- The register never exceeds `t`. -/
theorem run_le (t : Nat) (ws : List Bool) : run t ws ≤ t := by
  rw [run_spec]; omega

end Litex.WaitTimer
