import LitexModel.Fhdl.Module
import LitexProofs.Fhdl.IntLemmas
/-
  Verilog evaluation reads an identifier only through the low `w` bits of its value, so evaluating on the
  bit-vector state (`tn (wd i) (ρ i)`) or on the simulator's signed values `ρ` is the same, provided every
  identifier node carries at most its declared width.
-/
namespace Litex.C01

mutual
def wfV (wd : Nat → Nat) : VExpr → Prop
  | .lit _ _ _ => True
  | .id i w _ => w ≤ wd i
  | .un _ a => wfV wd a
  | .bin _ a b => wfV wd a ∧ wfV wd b
  | .cond c a b => wfV wd c ∧ wfV wd a ∧ wfV wd b
  | .psel a _ _ => wfV wd a
  | .bsel a _ => wfV wd a
  | .concat l => wfVL wd l
  | .repl _ a => wfV wd a
  | .signed a => wfV wd a
def wfVL (wd : Nat → Nat) : List VExpr → Prop
  | [] => True
  | e :: es => wfV wd e ∧ wfVL wd es
end

/-- The bit-vector view of a valuation. -/
def bitsEnv (wd : Nat → Nat) (ρ : Nat → Int) : Nat → Int := fun i => tn (wd i) (ρ i)

mutual
theorem evalV_congr (wd : Nat → Nat) (ρ : Nat → Int) :
    ∀ (v : VExpr) (W : Nat) (sg : Bool), wfV wd v → evalV (bitsEnv wd ρ) W sg v = evalV ρ W sg v
  | .lit w s x, W, sg, _ => by simp only [evalV]
  | .id i w s, W, sg, h => by
    simp only [wfV] at h
    simp only [evalV, bitsEnv, tn_tn h]
  | .un .neg a, W, sg, h => by
    simp only [wfV] at h
    simp only [evalV, evalV_congr wd ρ a W sg h]
  | .un .not a, W, sg, h => by
    simp only [wfV] at h
    simp only [evalV, evalV_congr wd ρ a W sg h]
  | .bin o a b, W, sg, h => by
    simp only [wfV] at h
    simp only [evalV, evalV_congr wd ρ a _ _ h.1, evalV_congr wd ρ b _ _ h.2]
  | .cond c a b, W, sg, h => by
    simp only [wfV] at h
    simp only [evalV, evalV_congr wd ρ c _ _ h.1, evalV_congr wd ρ a _ _ h.2.1, evalV_congr wd ρ b _ _ h.2.2]
  | .psel a hi lo, W, sg, h => by
    simp only [wfV] at h
    simp only [evalV, evalV_congr wd ρ a _ _ h]
  | .bsel a i, W, sg, h => by
    simp only [wfV] at h
    simp only [evalV, evalV_congr wd ρ a _ _ h]
  | .concat l, W, sg, h => by
    simp only [wfV] at h
    simp only [evalV, evalConcat_congr wd ρ l h]
  | .repl n a, W, sg, h => by
    simp only [wfV] at h
    simp only [evalV, evalV_congr wd ρ a _ _ h]
  | .signed a, W, sg, h => by
    simp only [wfV] at h
    simp only [evalV, evalV_congr wd ρ a _ _ h]
theorem evalConcat_congr (wd : Nat → Nat) (ρ : Nat → Int) :
    ∀ (l : List VExpr), wfVL wd l → evalConcat (bitsEnv wd ρ) l = evalConcat ρ l
  | [], _ => rfl
  | e :: es, h => by
    simp only [wfVL] at h
    simp only [evalConcat, evalV_congr wd ρ e _ _ h.1, evalConcat_congr wd ρ es h.2]
end

theorem assignV_congr (wd : Nat → Nat) (ρ : Nat → Int) (lw : Nat) (v : VExpr) (h : wfV wd v) :
    assignV (bitsEnv wd ρ) lw v = assignV ρ lw v := by
  simp only [assignV, evalV_congr wd ρ v _ _ h]

mutual
def wfVS (wd : Nat → Nat) : VStmt → Prop
  | .nba _ r => wfV wd r
  | .ite c t _ f => wfV wd c ∧ wfVSs wd t ∧ wfVSs wd f
  | .case test items _ d => wfV wd test ∧ wfVItems wd items ∧ wfVSs wd d
def wfVSs (wd : Nat → Nat) : VStmts → Prop
  | .nil => True
  | .cons s ss => wfVS wd s ∧ wfVSs wd ss
def wfVItems (wd : Nat → Nat) : VItems → Prop
  | .nil => True
  | .cons k body rest => wfV wd k ∧ wfVSs wd body ∧ wfVItems wd rest
end

mutual
theorem execV_congr (wd : Nat → Nat) (ρ : Nat → Int) :
    ∀ (s : VStmt) (p : Pending), wfVS wd s → execV (bitsEnv wd ρ) s p = execV ρ s p
  | .nba l r, p, h => by
    simp only [wfVS] at h
    simp only [execV, assignV_congr wd ρ _ r h]
  | .ite c t he f, p, h => by
    simp only [wfVS] at h
    simp only [execV, evalV_congr wd ρ c _ _ h.1, execVs_congr wd ρ t p h.2.1, execVs_congr wd ρ f p h.2.2]
  | .case test items hd d, p, h => by
    simp only [wfVS] at h
    simp only [execV, evalV_congr wd ρ test _ _ h.1, execVItems_congr wd ρ _ _ _ items p h.2.1,
      execVs_congr wd ρ d p h.2.2]
theorem execVs_congr (wd : Nat → Nat) (ρ : Nat → Int) :
    ∀ (ss : VStmts) (p : Pending), wfVSs wd ss → execVs (bitsEnv wd ρ) ss p = execVs ρ ss p
  | .nil, p, _ => rfl
  | .cons s ss, p, h => by
    simp only [wfVSs] at h
    simp only [execVs, execV_congr wd ρ s p h.1, execVs_congr wd ρ ss _ h.2]
theorem execVItems_congr (wd : Nat → Nat) (ρ : Nat → Int) (W : Nat) (sg : Bool) (tv : Int) :
    ∀ (items : VItems) (p : Pending), wfVItems wd items →
      execVItems (bitsEnv wd ρ) W sg tv items p = execVItems ρ W sg tv items p
  | .nil, p, _ => rfl
  | .cons k body rest, p, h => by
    simp only [wfVItems] at h
    simp only [execVItems, evalV_congr wd ρ k _ _ h.1, execVs_congr wd ρ body p h.2.1,
      execVItems_congr wd ρ W sg tv rest p h.2.2]
end

end Litex.C01
