import LitexModel.Verilog.Expr
import LitexProofs.Fhdl.BitLemmas
/-
  Context-determined Verilog evaluation agrees with the unbounded reading of the same expression, modulo
  `2^W`, under the side condition `fitsV` (IEEE 1364-2005 §5.4/5.5 sizing versus exact integers).
-/
namespace Litex.C01

/-- Extension of the `w`-bit pattern of `x` to the context `(W, sg)` yields the `W`-bit pattern of `x`. -/
theorem ext_tn {w W : Nat} {sg : Bool} {x : Int} (hwW : w ≤ W) (h : fitsAt w W sg x = true) :
    ext w W sg (tn w x) = tn W x := by
  simp only [fitsAt, Bool.and_eq_true, Bool.or_eq_true, decide_eq_true_eq] at h
  obtain ⟨hw, h⟩ := h
  have hp := p2_pred hw
  have hpos := p2_pos (w - 1)
  have hle := p2_le hwW
  rcases h with rfl | h
  · unfold ext; split <;> simp
  · cases sg
    · have := tn_of_inRange_unsigned h
      simp only [inRange, Bool.false_eq_true, if_false, Bool.and_eq_true, decide_eq_true_eq] at h
      simp only [ext, Bool.false_and, Bool.false_eq_true, if_false, this]
      exact (tn_of_range h.1 (by omega)).symm
    · simp only [inRange, if_true, Bool.and_eq_true, decide_eq_true_eq] at h
      simp only [ext, Bool.true_and, decide_eq_true_eq]
      by_cases hx : 0 ≤ x
      · have ht : tn w x = x := tn_of_range hx (by omega)
        rw [ht, if_neg (by omega)]
        exact (tn_of_range hx (by omega)).symm
      · have ht : tn w x = x + p2 w := tn_unique (by omega) (by omega) (-1) (by ring)
        rw [ht, if_pos (by omega)]
        symm
        apply tn_unique (by omega) (by omega) (-1)
        ring

theorem replV_range {w : Nat} {v : Int} (h0 : 0 ≤ v) (h1 : v < p2 w) (n : Nat) :
    0 ≤ replV w v n ∧ replV w v n < p2 (n * w) := by
  induction n with
  | zero => simp [replV, p2_zero]
  | succ n ih =>
    have hp := p2_pos w
    have : p2 ((n + 1) * w) = p2 w * p2 (n * w) := by
      rw [← p2_add]; congr 1; ring
    rw [this]
    simp only [replV]
    constructor
    · nlinarith [ih.1]
    · nlinarith [ih.1, ih.2]

theorem concatWidth_append (xs : List VExpr) (e : VExpr) :
    concatWidth (xs ++ [e]) = concatWidth xs + selfWidth e := by
  induction xs with
  | nil => simp [concatWidth]
  | cons x xs ih => simp [concatWidth, ih]; omega

theorem idealConcat_range (ρ : Nat → Int) (l : List VExpr) :
    0 ≤ idealConcat ρ l ∧ idealConcat ρ l < p2 (concatWidth l) := by
  induction l with
  | nil => simp [idealConcat, concatWidth, p2_zero]
  | cons e es ih =>
    simp only [idealConcat, concatWidth, p2_add]
    have h0 := tn_nonneg (selfWidth e) (ideal ρ e)
    have h1 := tn_lt (selfWidth e) (ideal ρ e)
    have hp := p2_pos (concatWidth es)
    constructor
    · nlinarith [ih.1]
    · nlinarith [ih.1, ih.2]

/-- Bits `[lo, lo+n)` of `x` can be read from any truncation that keeps them. -/
theorem tn_div_tn {w lo n : Nat} (h : lo + n ≤ w) (x : Int) :
    tn n (tn w x / p2 lo) = tn n (x / p2 lo) := by
  obtain ⟨k, hk⟩ := tn_eq_add_mul w x
  obtain ⟨d, rfl⟩ := Nat.exists_eq_add_of_le h
  have hw : p2 (lo + n + d) = p2 n * p2 d * p2 lo := by rw [p2_add, p2_add]; ring
  rw [hk, hw]
  have : x + k * (p2 n * p2 d * p2 lo) = x + (k * p2 d * p2 n) * p2 lo := by ring
  rw [this, Int.add_mul_ediv_right _ _ (p2_ne lo)]
  have : x / p2 lo + k * p2 d * p2 n = x / p2 lo + (k * p2 d) * p2 n := by ring
  rw [this, tn_add_mul]

theorem idealBin_cmp {o : VBin} (h : o.isCmp = true) (x y : Int) : idealBin o x y = b2i (cmpV o x y) := by
  cases o <;> simp_all [VBin.isCmp, idealBin]

theorem b2i_range (b : Bool) : 0 ≤ b2i b ∧ b2i b < p2 1 := by
  cases b <;> simp [b2i, p2]

/-- Reading back an in-range value from its `w`-bit pattern, signed or not. -/
theorem readback {w : Nat} (hw : 0 < w) {s : Bool} {x : Int} (h : inRange w s x = true) :
    (if s then toS w (tn w x) else tn w x) = x := by
  have := truncS_of_inRange hw h
  unfold truncS at this
  exact this

mutual
/-- **Verilog sizing vs exact integers.**  In a context of `W ≥ selfWidth e` bits with propagated type `sg`,
    an expression satisfying `fitsV` evaluates to its unbounded value modulo `2^W`. -/
theorem evalV_ideal (ρ : Nat → Int) :
    ∀ (e : VExpr) (W : Nat) (sg : Bool), selfWidth e ≤ W → fitsV ρ e W sg = true →
      evalV ρ W sg e = tn W (ideal ρ e)
  | .lit w s v, W, sg, hW, h => by
    simp only [fitsV] at h
    simp only [evalV, ideal]
    rw [← tn_truncS w s v]
    exact ext_tn hW h
  | .id i w s, W, sg, hW, h => by
    simp only [fitsV] at h
    simp only [evalV, ideal]
    rw [← tn_truncS w s (ρ i)]
    exact ext_tn hW h
  | .un .neg a, W, sg, hW, h => by
    simp only [fitsV] at h
    simp only [evalV, ideal]
    rw [evalV_ideal ρ a W sg hW h, tn_neg]
  | .un .not a, W, sg, hW, h => by
    simp only [fitsV] at h
    simp only [evalV, ideal]
    rw [evalV_ideal ρ a W sg hW h, tn_not]
  | .bin o a b, W, sg, hW, h => by
    simp only [selfWidth] at hW
    by_cases hc : o.isCmp = true
    · simp only [fitsV, hc, if_true, Bool.and_eq_true, decide_eq_true_eq] at h
      obtain ⟨⟨⟨⟨⟨hw', ha⟩, hb⟩, hra⟩, hrb⟩, hres⟩ := h
      simp only [evalV, ideal, hc, if_true]
      rw [evalV_ideal ρ a _ _ (Nat.le_max_left _ _) ha, evalV_ideal ρ b _ _ (Nat.le_max_right _ _) hb]
      have hxa := readback hw' hra
      have hxb := readback hw' hrb
      have hcmp : (if (selfSigned a && selfSigned b) = true then
            cmpV o (toS (max (selfWidth a) (selfWidth b)) (tn (max (selfWidth a) (selfWidth b)) (ideal ρ a)))
                   (toS (max (selfWidth a) (selfWidth b)) (tn (max (selfWidth a) (selfWidth b)) (ideal ρ b)))
          else cmpV o (tn (max (selfWidth a) (selfWidth b)) (ideal ρ a))
                      (tn (max (selfWidth a) (selfWidth b)) (ideal ρ b))) = cmpV o (ideal ρ a) (ideal ρ b) := by
        cases hs : (selfSigned a && selfSigned b) <;> simp only [hs, if_true, Bool.false_eq_true, if_false] at hxa hxb ⊢
        · rw [hxa, hxb]
        · rw [hxa, hxb]
      rw [hcmp, idealBin_cmp hc]
      rw [idealBin_cmp hc] at hres
      have hr := b2i_range (cmpV o (ideal ρ a) (ideal ρ b))
      have := ext_tn (by simp [hc] at hW; omega) hres
      rwa [tn_of_range hr.1 hr.2] at this
    · have hc' : o.isCmp = false := by simpa using hc
      by_cases hsft : o.isShift = true
      · simp only [fitsV, hc', hsft, if_true, Bool.false_eq_true, if_false, Bool.and_eq_true] at h
        obtain ⟨⟨⟨ha, hb⟩, hrb⟩, hextra⟩ := h
        simp only [hc', hsft, if_true, Bool.false_eq_true, if_false] at hW
        simp only [evalV, ideal, hc', hsft, if_true, Bool.false_eq_true, if_false]
        rw [evalV_ideal ρ a W sg hW ha, evalV_ideal ρ b _ _ (Nat.le_refl _) hb, tn_of_inRange_unsigned hrb]
        cases o <;> simp_all only [VBin.isShift, VBin.isCmp, Bool.false_eq_true, reduceCtorEq] <;>
          simp only [idealBin, shlI, shrI]
        · exact tn_mul_left W _ _
        · simp only [Bool.and_eq_true, decide_eq_true_eq] at hextra
          obtain ⟨hWpos, hra⟩ := hextra
          have hx := readback hWpos hra
          cases sg <;> simp only [if_true, Bool.false_eq_true, if_false] at hx ⊢
          · rw [hx]
            simp only [inRange, Bool.false_eq_true, if_false, Bool.and_eq_true, decide_eq_true_eq] at hra
            have hp := p2_pos (ideal ρ b).toNat
            have h1 : 0 ≤ ideal ρ a / p2 (ideal ρ b).toNat := Int.ediv_nonneg hra.1 (by omega)
            have h2 : ideal ρ a / p2 (ideal ρ b).toNat ≤ ideal ρ a := Int.ediv_le_self _ hra.1
            exact (tn_of_range h1 (by omega)).symm
          · rw [hx]
      · have hsft' : o.isShift = false := by simpa using hsft
        simp only [fitsV, hc', hsft', Bool.false_eq_true, if_false, Bool.and_eq_true] at h
        simp only [hc', hsft', Bool.false_eq_true, if_false] at hW
        simp only [evalV, ideal, hc', hsft', Bool.false_eq_true, if_false]
        rw [evalV_ideal ρ a W sg (by omega) h.1, evalV_ideal ρ b W sg (by omega) h.2]
        cases o <;> simp_all only [VBin.isShift, VBin.isCmp, Bool.false_eq_true, reduceCtorEq] <;>
          simp only [arithV, idealBin]
        · exact tn_add W _ _
        · exact tn_sub W _ _
        · exact tn_mul W _ _
        · exact tn_landI W _ _
        · exact tn_xorI W _ _
        · exact tn_lorI W _ _
  | .cond c a b, W, sg, hW, h => by
    simp only [fitsV, Bool.and_eq_true] at h
    obtain ⟨⟨hc, ha⟩, hb⟩ := h
    simp only [selfWidth] at hW
    simp only [evalV, ideal]
    rw [evalV_ideal ρ c _ _ (Nat.le_refl _) hc]
    split
    · exact evalV_ideal ρ a W sg (by omega) ha
    · exact evalV_ideal ρ b W sg (by omega) hb
  | .psel a hi lo, W, sg, hW, h => by
    simp only [fitsV, Bool.and_eq_true, decide_eq_true_eq] at h
    obtain ⟨⟨⟨ha, hhi⟩, hlo⟩, hf⟩ := h
    simp only [selfWidth] at hW
    simp only [evalV, ideal]
    rw [evalV_ideal ρ a _ _ (Nat.le_refl _) ha, tn_div_tn (by omega)]
    have := ext_tn hW hf
    rwa [tn_tn_same] at this
  | .bsel a i, W, sg, hW, h => by
    simp only [fitsV, Bool.and_eq_true, decide_eq_true_eq] at h
    obtain ⟨⟨ha, hi⟩, hf⟩ := h
    simp only [selfWidth] at hW
    simp only [evalV, ideal]
    rw [evalV_ideal ρ a _ _ (Nat.le_refl _) ha, tn_div_tn (by omega)]
    have := ext_tn hW hf
    rwa [tn_tn_same] at this
  | .concat l, W, sg, hW, h => by
    simp only [fitsV, Bool.and_eq_true] at h
    simp only [selfWidth] at hW
    simp only [evalV, ideal]
    rw [evalConcat_ideal ρ l h.1]
    have hr := idealConcat_range ρ l
    have := ext_tn hW h.2
    rwa [tn_of_range hr.1 hr.2] at this
  | .repl n a, W, sg, hW, h => by
    simp only [fitsV, Bool.and_eq_true] at h
    simp only [selfWidth] at hW
    simp only [evalV, ideal]
    rw [evalV_ideal ρ a _ _ (Nat.le_refl _) h.1]
    have hr := replV_range (tn_nonneg (selfWidth a) (ideal ρ a)) (tn_lt (selfWidth a) (ideal ρ a)) n
    have := ext_tn hW h.2
    rwa [tn_of_range hr.1 hr.2] at this
  | .signed a, W, sg, hW, h => by
    simp only [fitsV, Bool.and_eq_true] at h
    simp only [selfWidth] at hW
    simp only [evalV, ideal]
    rw [evalV_ideal ρ a _ _ (Nat.le_refl _) h.1]
    have := ext_tn hW h.2
    rwa [tn_toS, tn_tn_same] at this
theorem evalConcat_ideal (ρ : Nat → Int) :
    ∀ (l : List VExpr), fitsConcat ρ l = true → evalConcat ρ l = idealConcat ρ l
  | [], _ => rfl
  | e :: es, h => by
    simp only [fitsConcat, Bool.and_eq_true] at h
    simp only [evalConcat, idealConcat]
    rw [evalV_ideal ρ e _ _ (Nat.le_refl _) h.1, evalConcat_ideal ρ es h.2]
end

end Litex.C01
