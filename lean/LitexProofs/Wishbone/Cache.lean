import LitexModel.Wishbone.Cache
import LitexProofs.Wishbone.SramBus
import Mathlib.Tactic.Ring
/-
  `wishbone.Cache` in front of a slave that implements a byte memory: abstraction function, coherence invariant
  and the per-state step lemmas (IDLE / TEST_HIT / EVICT / REFILL).

  Geometry.  A line has `LB = nbs·2^wordbits = nbm·2^offsetbits` bytes.  Master word address `a` lies in global
  line `G = a / 2^offsetbits` (cache line `G mod 2^linebits`, tag `G / 2^linebits`), at master-word position
  `chunk (a mod 2^offsetbits)` inside the line.  Byte `x` of the backing memory lies in global line `x / LB`.
-/
namespace Litex.WbMem
open Litex

namespace Cache
variable (c : CacheCfg)

/-- Line size in bytes. -/
abbrev LB : Nat := lineBytes c

/-- Tag memory entry of line `l`. -/
def T (tags : List (Nat × Bool)) (l : Nat) : Nat × Bool := tags.getD l (0, false)

/-- Global line number of a master word address. -/
def gline (a : Nat) : Nat := a / 2 ^ c.offsetbits

/-- Word-address map seen by the master: the words of a line are stored at `chunk` positions
    (`reverse = true`: most significant position first; identity otherwise). -/
def fmap (a : Nat) : Nat := gline c a * 2 ^ c.offsetbits + chunk c (a % 2 ^ c.offsetbits)

/-- **Abstraction function**: the memory the master sees — a byte whose line is cached with the matching tag
    comes from the data memory, every other byte from the backing memory. -/
def absMem (data : List Byte) (tags : List (Nat × Bool)) (Ms : Mem) : Mem := fun x =>
  if (T tags (x / LB c % 2 ^ c.linebits)).1 = x / LB c / 2 ^ c.linebits
  then data.getD (x / LB c % 2 ^ c.linebits * LB c + x % LB c) 0 else Ms x

/-- **Coherence**: a clean line holds exactly the backing bytes of the line its tag names. -/
def Coherent (data : List Byte) (tags : List (Nat × Bool)) (Ms : Mem) : Prop :=
  ∀ l, l < 2 ^ c.linebits → (T tags l).2 = false → ∀ j, j < LB c →
    data.getD (l * LB c + j) 0 = Ms ((l + 2 ^ c.linebits * (T tags l).1) * LB c + j)

/-- Geometry side conditions (they mirror what `Cache.__init__` computes from the two interfaces);
    `NG` bounds the global line numbers the master can address. -/
structure Geo (NG : Nat) : Prop where
  nbm_pos : 0 < c.nbm
  nbs_pos : 0 < c.nbs
  line    : c.nbm * 2 ^ c.offsetbits = c.nbs * 2 ^ c.wordbits
  saw     : NG * 2 ^ c.wordbits ≤ 2 ^ c.saw
  tag     : NG ≤ 2 ^ c.linebits * 2 ^ c.tagbits
  lines   : 2 ^ c.linebits ≤ NG

/-- Well-formedness of the two memories. -/
def WF (NG : Nat) (data : List Byte) (tags : List (Nat × Bool)) : Prop :=
  tags.length = 2 ^ c.linebits ∧ data.length = 2 ^ c.linebits * LB c ∧
  ∀ l, l < 2 ^ c.linebits → l + 2 ^ c.linebits * (T tags l).1 < NG

variable {c}

theorem Geo.LB_pos {NG : Nat} (g : Geo c NG) : 0 < LB c := Nat.mul_pos g.nbs_pos (Nat.two_pow_pos _)

theorem Geo.LB_eq {NG : Nat} (g : Geo c NG) : LB c = c.nbm * 2 ^ c.offsetbits := g.line.symm

/-! ### arithmetic of line/byte decomposition -/

theorem div_block (L l j : Nat) (hj : j < L) : (l * L + j) / L = l := by
  have hL : 0 < L := by omega
  rw [Nat.mul_comm, Nat.mul_add_div hL, Nat.div_eq_of_lt hj, Nat.add_zero]

theorem mod_block (L l j : Nat) (hj : j < L) : (l * L + j) % L = j := by
  rw [Nat.mul_comm, Nat.mul_add_mod, Nat.mod_eq_of_lt hj]

theorem gsplit_mod (n l t : Nat) (hl : l < n) : (l + n * t) % n = l := by
  rw [Nat.add_mul_mod_self_left, Nat.mod_eq_of_lt hl]

theorem gsplit_div (n l t : Nat) (hl : l < n) : (l + n * t) / n = t := by
  have hn : 0 < n := by omega
  rw [Nat.add_mul_div_left _ _ hn, Nat.div_eq_of_lt hl, Nat.zero_add]

theorem chunk_lt (o : Nat) (ho : o < 2 ^ c.offsetbits) : chunk c o < 2 ^ c.offsetbits := by
  unfold chunk noff; split <;> omega

/-- Byte address of lane `k` of master word `a` (through `fmap`): global line, position in the line. -/
theorem fmap_byte {NG : Nat} (g : Geo c NG) (a k : Nat) (hk : k < c.nbm) :
    fmap c a * c.nbm + k = gline c a * LB c + (chunk c (a % 2 ^ c.offsetbits) * c.nbm + k) ∧
    chunk c (a % 2 ^ c.offsetbits) * c.nbm + k < LB c := by
  have ho := chunk_lt (c := c) (a % 2 ^ c.offsetbits) (Nat.mod_lt _ (Nat.two_pow_pos _))
  refine ⟨?_, ?_⟩
  · rw [g.LB_eq]; unfold fmap; ring
  · rw [g.LB_eq]
    calc chunk c (a % 2 ^ c.offsetbits) * c.nbm + k < chunk c (a % 2 ^ c.offsetbits) * c.nbm + c.nbm := by omega
      _ = (chunk c (a % 2 ^ c.offsetbits) + 1) * c.nbm := by ring
      _ ≤ 2 ^ c.offsetbits * c.nbm := Nat.mul_le_mul_right _ ho
      _ = c.nbm * 2 ^ c.offsetbits := Nat.mul_comm _ _

theorem adrLine_eq (a : Nat) : adrLine c a = gline c a % 2 ^ c.linebits := rfl

theorem adrTag_eq {NG : Nat} (g : Geo c NG) (a : Nat) (ha : gline c a < NG) :
    adrTag c a = gline c a / 2 ^ c.linebits := by
  unfold adrTag gline
  rw [Nat.pow_add, ← Nat.div_div_eq_div_mul]
  apply Nat.mod_eq_of_lt
  rw [Nat.div_lt_iff_lt_mul (Nat.two_pow_pos _), Nat.mul_comm]
  exact Nat.lt_of_lt_of_le ha g.tag

theorem gline_split (a : Nat) :
    gline c a = adrLine c a + 2 ^ c.linebits * (gline c a / 2 ^ c.linebits) := by
  rw [adrLine_eq, Nat.add_comm]; exact (Nat.div_add_mod _ _).symm

/-! ### tag / data memory updates -/

theorem T_set (tags : List (Nat × Bool)) (l l' : Nat) (v : Nat × Bool) (hl : l < tags.length) :
    T (tags.set l v) l' = if l' = l then v else T tags l' := by
  unfold T
  rw [List.getD_eq_getElem?_getD, List.getElem?_set]
  by_cases h : l = l'
  · subst h; simp [hl]
  · have : ¬ l' = l := fun e => h e.symm
    simp [h, this]

/-! ### the register-update function, field by field -/

variable (c)

def dataNext (s : CacheState) (r : Req) (rsp : Rsp) : List Byte :=
  if (s.fsm == .refill && rsp.ack) = true then
    writeLanes s.data (adrLine c r.adr * lineBytes c + s.word * c.nbs) (List.replicate c.nbs true) rsp.dat c.nbs
  else if (r.active && r.we && mack c s r) = true then
    writeLanes s.data (adrLine c r.adr * lineBytes c + chunk c (adrOffset c r.adr) * c.nbm) r.sel r.dat c.nbm
  else s.data

def tagWe (s : CacheState) (r : Req) (rsp : Rsp) : Bool :=
  match s.fsm with
  | .testHit => if hit c s r then r.we else !(tagDo s).2
  | .evict => rsp.ack && lastWord c s
  | _ => false

def tagsNext (s : CacheState) (r : Req) (rsp : Rsp) : List (Nat × Bool) :=
  if tagWe c s r rsp = true then
    s.tags.set (adrLine c r.adr) (adrTag c r.adr, s.fsm == .testHit && hit c s r && r.we)
  else s.tags

def wordNext (s : CacheState) (rsp : Rsp) : Nat :=
  if (match s.fsm with
      | .testHit => true
      | .evict => rsp.ack && lastWord c s
      | _ => false) = true then 0
  else if ((s.fsm == .evict || s.fsm == .refill) && rsp.ack) = true then (s.word + 1) % 2 ^ c.wordbits
  else s.word

def fsmNext (s : CacheState) (r : Req) (rsp : Rsp) : CacheFsm :=
  match s.fsm with
  | .idle => if r.active then .testHit else .idle
  | .testHit => if hit c s r then .idle else if (tagDo s).2 then .evict else .refill
  | .evict => if rsp.ack && lastWord c s then .refill else .evict
  | .refill => if rsp.ack && lastWord c s then .testHit else .refill

theorem next_eq (s : CacheState) (r : Req) (rsp : Rsp) :
    Cache.next c s r rsp =
      { data := dataNext c s r rsp, tags := tagsNext c s r rsp, lineReg := adrLine c r.adr,
        offR := adrOffset c r.adr, word := wordNext c s rsp, fsm := fsmNext c s r rsp } := by
  cases h : s.fsm <;> simp [Cache.next, dataNext, tagsNext, tagWe, wordNext, fsmNext, h]

variable {c}

/-! ### coordinates -/

theorem byte_coords {NG : Nat} (g : Geo c NG) (x : Nat) : ∃ G j, j < LB c ∧ x = G * LB c + j :=
  ⟨x / LB c, x % LB c, Nat.mod_lt _ g.LB_pos, by rw [Nat.mul_comm]; exact (Nat.div_add_mod _ _).symm⟩

theorem absMem_at {NG : Nat} (g : Geo c NG) (data : List Byte) (tags : List (Nat × Bool)) (Ms : Mem) (G j : Nat)
    (hj : j < LB c) :
    absMem c data tags Ms (G * LB c + j) =
      if (T tags (G % 2 ^ c.linebits)).1 = G / 2 ^ c.linebits
      then data.getD (G % 2 ^ c.linebits * LB c + j) 0 else Ms (G * LB c + j) := by
  unfold absMem
  rw [div_block _ _ _ hj, mod_block _ _ _ hj]

theorem readLanes_at (data : List Byte) (l j : Nat) (hj : j < LB c) :
    (readLanes data l (LB c)).getD j 0 = data.getD (l * LB c + j) 0 := by
  unfold readLanes; rw [window_getD _ _ _ _ _ hj]

/-- Position of a line byte inside the data memory. -/
theorem data_pos_lt {NG : Nat} (data : List Byte) (tags : List (Nat × Bool)) (hwf : WF c NG data tags) (l j : Nat)
    (hl : l < 2 ^ c.linebits) (hj : j < LB c) : l * LB c + j < data.length := by
  rw [hwf.2.1]
  calc l * LB c + j < l * LB c + LB c := by omega
    _ = (l + 1) * LB c := by ring
    _ ≤ 2 ^ c.linebits * LB c := Nat.mul_le_mul_right _ hl

/-! ### (A) read hit -/

theorem hit_read {NG : Nat} (g : Geo c NG) (data : List Byte) (tags : List (Nat × Bool)) (Ms : Mem) (a k : Nat)
    (ha : gline c a < NG) (hk : k < c.nbm) (hhit : (T tags (adrLine c a)).1 = adrTag c a) :
    (window (readLanes data (adrLine c a) (LB c)) 0 (chunk c (adrOffset c a) * c.nbm) c.nbm).getD k 0 =
      absMem c data tags Ms (fmap c a * c.nbm + k) := by
  obtain ⟨hb, hlt⟩ := fmap_byte g a k hk
  rw [hb, absMem_at g _ _ _ _ _ hlt, ← adrLine_eq, ← adrTag_eq g a ha, if_pos hhit, window_getD _ _ _ _ _ hk]
  exact readLanes_at data _ _ hlt

/-! ### (B) write hit -/

theorem hit_write {NG : Nat} (g : Geo c NG) (data : List Byte) (tags : List (Nat × Bool)) (Ms : Mem) (a : Nat)
    (sel : List Bool) (dat : List Byte) (hwf : WF c NG data tags)
    (ha : gline c a < NG) (hhit : (T tags (adrLine c a)).1 = adrTag c a) :
    (absMem c data tags Ms).writeMasked (fmap c a * c.nbm) (sel.take c.nbm) dat =
      absMem c (writeLanes data (adrLine c a * LB c + chunk c (adrOffset c a) * c.nbm) sel dat c.nbm)
        (tags.set (adrLine c a) (adrTag c a, true)) Ms := by
  funext x
  obtain ⟨G, j, hj, rfl⟩ := byte_coords g x
  have hLpos := Nat.two_pow_pos c.linebits
  have hline : adrLine c a < 2 ^ c.linebits := Nat.mod_lt _ hLpos
  have hlt : adrLine c a < tags.length := by rw [hwf.1]; exact hline
  obtain ⟨hb0, hpos0⟩ := fmap_byte g a 0 g.nbm_pos
  simp only [Nat.add_zero] at hb0 hpos0
  have hchunk : chunk c (adrOffset c a) * c.nbm + c.nbm ≤ LB c := by
    have := (fmap_byte g a (c.nbm - 1) (by have := g.nbm_pos; omega)).2
    have := g.nbm_pos
    show chunk c (a % 2 ^ c.offsetbits) * c.nbm + c.nbm ≤ LB c
    omega
  rw [absMem_at g _ _ _ _ _ hj, Mem.writeMasked_apply, take_getD, T_set _ _ _ _ hlt, writeLanes_getD, hb0]
  generalize hC : chunk c (a % 2 ^ c.offsetbits) * c.nbm = C at *
  have hC' : chunk c (adrOffset c a) * c.nbm = C := hC
  rw [hC'] at hchunk ⊢
  by_cases hG : G = gline c a
  · -- the written line
    subst hG
    rw [← adrLine_eq, ← adrTag_eq g a ha]
    simp only [if_true]
    rw [absMem_at g _ _ _ _ _ hj, ← adrLine_eq, ← adrTag_eq g a ha, if_pos hhit]
    have hdl := data_pos_lt data tags hwf _ _ hline hj
    by_cases hin : C ≤ j ∧ j < C + c.nbm
    · have e1 : gline c a * LB c + j - (gline c a * LB c + C) = j - C := by omega
      have e2 : adrLine c a * LB c + j - (adrLine c a * LB c + C) = j - C := by omega
      have h1 : gline c a * LB c + C ≤ gline c a * LB c + j := by omega
      have h2 : j - C < c.nbm := by omega
      have h3 : adrLine c a * LB c + C ≤ adrLine c a * LB c + j := by omega
      have h4 : adrLine c a * LB c + j < adrLine c a * LB c + C + c.nbm := by omega
      simp only [e1, e2, h1, h2, h3, h4, hdl, true_and, if_true, and_true]
    · have h1 : ¬ (gline c a * LB c + C ≤ gline c a * LB c + j ∧
          (if gline c a * LB c + j - (gline c a * LB c + C) < c.nbm then
            sel.getD (gline c a * LB c + j - (gline c a * LB c + C)) false else false) = true) := by
        intro ⟨x1, x2⟩
        by_cases h : gline c a * LB c + j - (gline c a * LB c + C) < c.nbm
        · exact hin ⟨by omega, by omega⟩
        · simp [h] at x2
      have h2 : ¬ (adrLine c a * LB c + C ≤ adrLine c a * LB c + j ∧ adrLine c a * LB c + j < adrLine c a * LB c + C + c.nbm ∧
          sel.getD (adrLine c a * LB c + j - (adrLine c a * LB c + C)) false = true ∧
          adrLine c a * LB c + j < data.length) := by
        intro ⟨x1, x2, _, _⟩; exact hin ⟨by omega, by omega⟩
      rw [if_neg h1, if_neg h2]
  · -- any other line: untouched
    have hGne : G * LB c + j < gline c a * LB c + C ∨ gline c a * LB c + C + c.nbm ≤ G * LB c + j := by
      rcases Nat.lt_or_gt_of_ne hG with h | h
      · left
        calc G * LB c + j < G * LB c + LB c := by omega
          _ = (G + 1) * LB c := by ring
          _ ≤ gline c a * LB c := Nat.mul_le_mul_right _ h
          _ ≤ gline c a * LB c + C := by omega
      · right
        calc gline c a * LB c + C + c.nbm ≤ gline c a * LB c + LB c := by omega
          _ = (gline c a + 1) * LB c := by ring
          _ ≤ G * LB c := Nat.mul_le_mul_right _ h
          _ ≤ G * LB c + j := by omega
    have h1 : ¬ (gline c a * LB c + C ≤ G * LB c + j ∧
        (if G * LB c + j - (gline c a * LB c + C) < c.nbm then
          sel.getD (G * LB c + j - (gline c a * LB c + C)) false else false) = true) := by
      intro ⟨x1, x2⟩
      by_cases h : G * LB c + j - (gline c a * LB c + C) < c.nbm
      · omega
      · simp [h] at x2
    rw [if_neg h1, absMem_at g _ _ _ _ _ hj]
    by_cases hl : G % 2 ^ c.linebits = adrLine c a
    · -- same cache line, other tag: backing memory on both sides
      have htag : adrTag c a ≠ G / 2 ^ c.linebits := by
        intro h
        apply hG
        rw [adrTag_eq g a ha] at h
        rw [adrLine_eq] at hl
        have e1 := Nat.div_add_mod G (2 ^ c.linebits)
        have e2 := Nat.div_add_mod (gline c a) (2 ^ c.linebits)
        rw [hl, ← h] at e1
        omega
      simp only [hl, if_true]
      rw [hhit, if_neg htag, if_neg htag]
    · simp only [hl, if_false]
      have hGl : G % 2 ^ c.linebits < 2 ^ c.linebits := Nat.mod_lt _ hLpos
      have h2 : ¬ (adrLine c a * LB c + C ≤ G % 2 ^ c.linebits * LB c + j ∧
          G % 2 ^ c.linebits * LB c + j < adrLine c a * LB c + C + c.nbm ∧
          sel.getD (G % 2 ^ c.linebits * LB c + j - (adrLine c a * LB c + C)) false = true ∧
          G % 2 ^ c.linebits * LB c + j < data.length) := by
        intro ⟨x1, x2, _, _⟩
        rcases Nat.lt_or_gt_of_ne hl with h | h
        · have : G % 2 ^ c.linebits * LB c + j < adrLine c a * LB c := by
            calc G % 2 ^ c.linebits * LB c + j < G % 2 ^ c.linebits * LB c + LB c := by omega
              _ = (G % 2 ^ c.linebits + 1) * LB c := by ring
              _ ≤ adrLine c a * LB c := Nat.mul_le_mul_right _ h
          omega
        · have : adrLine c a * LB c + LB c ≤ G % 2 ^ c.linebits * LB c := by
            calc adrLine c a * LB c + LB c = (adrLine c a + 1) * LB c := by ring
              _ ≤ G % 2 ^ c.linebits * LB c := Nat.mul_le_mul_right _ h
          omega
      rw [if_neg h2]

/-! ### blocks -/

theorem block_disjoint (L l l' j : Nat) (hne : l ≠ l') (hj : j < L) : l * L + j < l' * L ∨ l' * L + L ≤ l * L + j := by
  rcases Nat.lt_or_gt_of_ne hne with h | h
  · left
    calc l * L + j < l * L + L := by omega
      _ = (l + 1) * L := by ring
      _ ≤ l' * L := Nat.mul_le_mul_right _ h
  · right
    calc l' * L + L = (l' + 1) * L := by ring
      _ ≤ l * L := Nat.mul_le_mul_right _ h
      _ ≤ l * L + j := by omega

theorem writeLanes_outside (st : List Byte) (base : Nat) (sel : List Bool) (dat : List Byte) (n p : Nat)
    (h : p < base ∨ base + n ≤ p) : (writeLanes st base sel dat n).getD p 0 = st.getD p 0 := by
  rw [writeLanes_getD]
  have : ¬ (base ≤ p ∧ p < base + n ∧ sel.getD (p - base) false = true ∧ p < st.length) := by
    intro ⟨a, b, _, _⟩; omega
  rw [if_neg this]

/-- A write inside line `line` does not touch the bytes of another line. -/
theorem writeLanes_other_line (data : List Byte) (line off n : Nat) (sel : List Bool) (dat : List Byte) (l j : Nat)
    (hoff : off + n ≤ LB c) (hne : l ≠ line) (hj : j < LB c) :
    (writeLanes data (line * LB c + off) sel dat n).getD (l * LB c + j) 0 = data.getD (l * LB c + j) 0 := by
  apply writeLanes_outside
  rcases block_disjoint (LB c) l line j hne hj with h | h
  · left; omega
  · right; omega

theorem gnum {NG : Nat} (g : Geo c NG) (a : Nat) (ha : gline c a < NG) :
    adrLine c a + 2 ^ c.linebits * adrTag c a = gline c a := by
  rw [adrTag_eq g a ha]; exact (gline_split a).symm

theorem wf_set_tag {NG : Nat} (g : Geo c NG) (data : List Byte) (tags : List (Nat × Bool)) (hwf : WF c NG data tags)
    (a : Nat) (ha : gline c a < NG) (d : Bool) :
    WF c NG data (tags.set (adrLine c a) (adrTag c a, d)) := by
  have hline : adrLine c a < 2 ^ c.linebits := Nat.mod_lt _ (Nat.two_pow_pos _)
  refine ⟨by simp [hwf.1], hwf.2.1, ?_⟩
  intro l hl
  rw [T_set _ _ _ _ (by rw [hwf.1]; exact hline)]
  by_cases h : l = adrLine c a
  · subst h; simp only [if_true]; rw [gnum g a ha]; exact ha
  · simp only [h, if_false]; exact hwf.2.2 l hl

theorem wf_data (NG : Nat) (data data' : List Byte) (tags : List (Nat × Bool)) (hwf : WF c NG data tags)
    (hlen : data'.length = data.length) : WF c NG data' tags :=
  ⟨hwf.1, by rw [hlen]; exact hwf.2.1, hwf.2.2⟩

/-- Coherence of every line but `line`. -/
def CohOther (data : List Byte) (tags : List (Nat × Bool)) (Ms : Mem) (line : Nat) : Prop :=
  ∀ l, l < 2 ^ c.linebits → l ≠ line → (T tags l).2 = false → ∀ j, j < LB c →
    data.getD (l * LB c + j) 0 = Ms ((l + 2 ^ c.linebits * (T tags l).1) * LB c + j)

/-- The abstract memory while `line` is being replaced: its bytes come from the backing memory. -/
def HoleAbs (data : List Byte) (tags : List (Nat × Bool)) (Ms : Mem) (line : Nat) (M : Mem) : Prop :=
  ∀ x, M x = if x / LB c % 2 ^ c.linebits = line then Ms x else absMem c data tags Ms x

theorem Coherent.other {data : List Byte} {tags : List (Nat × Bool)} {Ms : Mem} (h : Coherent c data tags Ms) (line : Nat) :
    CohOther (c := c) data tags Ms line := fun l hl _ hc j hj => h l hl hc j hj

/-- (B') a write hit keeps the other lines coherent and marks the written one dirty. -/
theorem hit_write_coherent {NG : Nat} (g : Geo c NG) (data : List Byte) (tags : List (Nat × Bool)) (Ms : Mem) (a : Nat)
    (sel : List Bool) (dat : List Byte) (hwf : WF c NG data tags) (hcoh : Coherent c data tags Ms) :
    Coherent c (writeLanes data (adrLine c a * LB c + chunk c (adrOffset c a) * c.nbm) sel dat c.nbm)
      (tags.set (adrLine c a) (adrTag c a, true)) Ms := by
  have hline : adrLine c a < 2 ^ c.linebits := Nat.mod_lt _ (Nat.two_pow_pos _)
  have hchunk : chunk c (adrOffset c a) * c.nbm + c.nbm ≤ LB c := by
    have := (fmap_byte g a (c.nbm - 1) (by have := g.nbm_pos; omega)).2
    have := g.nbm_pos
    show chunk c (a % 2 ^ c.offsetbits) * c.nbm + c.nbm ≤ LB c
    omega
  intro l hl hclean j hj
  rw [T_set _ _ _ _ (by rw [hwf.1]; exact hline)] at hclean ⊢
  by_cases h : l = adrLine c a
  · subst h; simp at hclean
  · simp only [h, if_false] at hclean ⊢
    rw [writeLanes_other_line data _ _ _ _ _ _ _ hchunk h hj]
    exact hcoh l hl hclean j hj

/-! ### (C) clean miss: the tag is replaced, the line becomes a hole -/

theorem miss_clean {NG : Nat} (g : Geo c NG) (data : List Byte) (tags : List (Nat × Bool)) (Ms : Mem) (a : Nat)
    (hwf : WF c NG data tags) (hcoh : Coherent c data tags Ms) (hclean : (T tags (adrLine c a)).2 = false) :
    HoleAbs (c := c) data (tags.set (adrLine c a) (adrTag c a, false)) Ms (adrLine c a) (absMem c data tags Ms) ∧
    CohOther (c := c) data (tags.set (adrLine c a) (adrTag c a, false)) Ms (adrLine c a) := by
  have hline : adrLine c a < 2 ^ c.linebits := Nat.mod_lt _ (Nat.two_pow_pos _)
  have hlt : adrLine c a < tags.length := by rw [hwf.1]; exact hline
  refine ⟨?_, ?_⟩
  · intro x
    obtain ⟨G, j, hj, rfl⟩ := byte_coords g x
    rw [div_block _ _ _ hj, absMem_at g _ _ _ _ _ hj]
    by_cases hl : G % 2 ^ c.linebits = adrLine c a
    · simp only [hl, if_true]
      by_cases ht : (T tags (adrLine c a)).1 = G / 2 ^ c.linebits
      · rw [if_pos ht, hcoh _ hline hclean j hj, ht, ← hl]
        have e : G % 2 ^ c.linebits + 2 ^ c.linebits * (G / 2 ^ c.linebits) = G := by
          rw [Nat.add_comm]; exact Nat.div_add_mod _ _
        rw [e]
      · rw [if_neg ht]
    · simp only [hl, if_false]
      rw [absMem_at g _ _ _ _ _ hj, T_set _ _ _ _ hlt]
      simp only [hl, if_false]
  · intro l hl hne hc j hj
    rw [T_set _ _ _ _ hlt] at hc ⊢
    simp only [hne, if_false] at hc ⊢
    exact hcoh l hl hc j hj

/-! ### (D) one evicted word -/

/-- The backing memory after writing slave word `word` of the dirty line back. -/
def EvictWrite (data : List Byte) (Ms Ms' : Mem) (line Gold word : Nat) : Prop :=
  ∀ y, Ms' y = if Gold * LB c + word * c.nbs ≤ y ∧ y < Gold * LB c + word * c.nbs + c.nbs
               then data.getD (line * LB c + word * c.nbs + (y - (Gold * LB c + word * c.nbs))) 0 else Ms y

theorem evict_step {NG : Nat} (g : Geo c NG) (data : List Byte) (tags : List (Nat × Bool)) (Ms Ms' : Mem)
    (line word : Nat) (hline : line < 2 ^ c.linebits) (hword : word * c.nbs + c.nbs ≤ LB c)
    (hdirty : (T tags line).2 = true)
    (hw : EvictWrite (c := c) data Ms Ms' line (line + 2 ^ c.linebits * (T tags line).1) word)
    (hcoh : Coherent c data tags Ms)
    (hdone : ∀ j, j < word * c.nbs →
      Ms ((line + 2 ^ c.linebits * (T tags line).1) * LB c + j) = data.getD (line * LB c + j) 0) :
    absMem c data tags Ms' = absMem c data tags Ms ∧ Coherent c data tags Ms' ∧
    ∀ j, j < (word + 1) * c.nbs →
      Ms' ((line + 2 ^ c.linebits * (T tags line).1) * LB c + j) = data.getD (line * LB c + j) 0 := by
  generalize hGold : line + 2 ^ c.linebits * (T tags line).1 = Gold at *
  have hGl : Gold % 2 ^ c.linebits = line := by rw [← hGold]; exact gsplit_mod _ _ _ hline
  have hGt : Gold / 2 ^ c.linebits = (T tags line).1 := by rw [← hGold]; exact gsplit_div _ _ _ hline
  -- bytes outside the global line `Gold` are untouched
  have hout : ∀ G j, j < LB c → G ≠ Gold → Ms' (G * LB c + j) = Ms (G * LB c + j) := by
    intro G j hj hne
    rw [hw]
    have : ¬ (Gold * LB c + word * c.nbs ≤ G * LB c + j ∧ G * LB c + j < Gold * LB c + word * c.nbs + c.nbs) := by
      intro ⟨h1, h2⟩
      rcases block_disjoint (LB c) G Gold j hne hj with h | h <;> omega
    rw [if_neg this]
  refine ⟨?_, ?_, ?_⟩
  · funext x
    obtain ⟨G, j, hj, rfl⟩ := byte_coords g x
    rw [absMem_at g _ _ _ _ _ hj, absMem_at g _ _ _ _ _ hj]
    by_cases ht : (T tags (G % 2 ^ c.linebits)).1 = G / 2 ^ c.linebits
    · rw [if_pos ht, if_pos ht]
    · rw [if_neg ht, if_neg ht]
      apply hout G j hj
      intro h; subst h; apply ht; rw [hGl, hGt]
  · intro l hl hclean j hj
    rw [hcoh l hl hclean j hj]
    symm
    apply hout _ j hj
    intro h
    have : (l + 2 ^ c.linebits * (T tags l).1) % 2 ^ c.linebits = l := gsplit_mod _ _ _ hl
    rw [h, hGl] at this
    subst this
    rw [hdirty] at hclean; cases hclean
  · intro j hj
    rw [hw]
    by_cases hlo : j < word * c.nbs
    · have : ¬ (Gold * LB c + word * c.nbs ≤ Gold * LB c + j ∧ Gold * LB c + j < Gold * LB c + word * c.nbs + c.nbs) := by
        intro ⟨h1, _⟩; omega
      rw [if_neg this]; exact hdone j hlo
    · have hhi : j < word * c.nbs + c.nbs := by rw [Nat.add_mul, Nat.one_mul] at hj; exact hj
      have : Gold * LB c + word * c.nbs ≤ Gold * LB c + j ∧ Gold * LB c + j < Gold * LB c + word * c.nbs + c.nbs := by
        constructor <;> omega
      rw [if_pos this]
      congr 1; omega

/-! ### (E) last evicted word: the line is as good as clean, the tag is replaced -/

theorem evict_last {NG : Nat} (g : Geo c NG) (data : List Byte) (tags : List (Nat × Bool)) (Ms' : Mem) (a : Nat)
    (hwf : WF c NG data tags) (hcoh : Coherent c data tags Ms')
    (hall : ∀ j, j < LB c →
      Ms' ((adrLine c a + 2 ^ c.linebits * (T tags (adrLine c a)).1) * LB c + j) = data.getD (adrLine c a * LB c + j) 0) :
    HoleAbs (c := c) data (tags.set (adrLine c a) (adrTag c a, false)) Ms' (adrLine c a) (absMem c data tags Ms') ∧
    CohOther (c := c) data (tags.set (adrLine c a) (adrTag c a, false)) Ms' (adrLine c a) := by
  have hline : adrLine c a < 2 ^ c.linebits := Nat.mod_lt _ (Nat.two_pow_pos _)
  have hlt : adrLine c a < tags.length := by rw [hwf.1]; exact hline
  refine ⟨?_, ?_⟩
  · intro x
    obtain ⟨G, j, hj, rfl⟩ := byte_coords g x
    rw [div_block _ _ _ hj, absMem_at g _ _ _ _ _ hj]
    by_cases hl : G % 2 ^ c.linebits = adrLine c a
    · simp only [hl, if_true]
      by_cases ht : (T tags (adrLine c a)).1 = G / 2 ^ c.linebits
      · rw [if_pos ht, ← hall j hj, ht, ← hl]
        have e : G % 2 ^ c.linebits + 2 ^ c.linebits * (G / 2 ^ c.linebits) = G := by
          rw [Nat.add_comm]; exact Nat.div_add_mod _ _
        rw [e]
      · rw [if_neg ht]
    · simp only [hl, if_false]
      rw [absMem_at g _ _ _ _ _ hj, T_set _ _ _ _ hlt]
      simp only [hl, if_false]
  · intro l hl hne hc j hj
    rw [T_set _ _ _ _ hlt] at hc ⊢
    simp only [hne, if_false] at hc ⊢
    exact hcoh l hl hc j hj

/-! ### (F) one refilled word -/

theorem refill_step {NG : Nat} (g : Geo c NG) (data : List Byte) (tags : List (Nat × Bool)) (Ms : Mem) (M : Mem)
    (line Gnew word : Nat) (rdat : List Byte) (hwf : WF c NG data tags)
    (hline : line < 2 ^ c.linebits) (hword : word * c.nbs + c.nbs ≤ LB c)
    (hr : ∀ k, k < c.nbs → rdat.getD k 0 = Ms (Gnew * LB c + word * c.nbs + k))
    (hhole : HoleAbs (c := c) data tags Ms line M) (hoth : CohOther (c := c) data tags Ms line)
    (hdone : ∀ j, j < word * c.nbs → data.getD (line * LB c + j) 0 = Ms (Gnew * LB c + j)) :
    let data' := writeLanes data (line * LB c + word * c.nbs) (List.replicate c.nbs true) rdat c.nbs
    HoleAbs (c := c) data' tags Ms line M ∧ CohOther (c := c) data' tags Ms line ∧
    ∀ j, j < (word + 1) * c.nbs → data'.getD (line * LB c + j) 0 = Ms (Gnew * LB c + j) := by
  intro data'
  refine ⟨?_, ?_, ?_⟩
  · intro x
    rw [hhole x]
    obtain ⟨G, j, hj, rfl⟩ := byte_coords g x
    rw [div_block _ _ _ hj]
    by_cases hl : G % 2 ^ c.linebits = line
    · simp only [hl, if_true]
    · simp only [hl, if_false]
      rw [absMem_at g _ _ _ _ _ hj, absMem_at g _ _ _ _ _ hj]
      rw [writeLanes_other_line data _ _ _ _ _ _ _ hword hl hj]
  · intro l hl hne hc j hj
    rw [writeLanes_other_line data _ _ _ _ _ _ _ hword hne hj]
    exact hoth l hl hne hc j hj
  · intro j hj
    have hhi : j < word * c.nbs + c.nbs := by rw [Nat.add_mul, Nat.one_mul] at hj; exact hj
    by_cases hlo : j < word * c.nbs
    · rw [writeLanes_outside _ _ _ _ _ _ (by left; omega)]
      exact hdone j hlo
    · have hjLB : j < LB c := by omega
      have hdl := data_pos_lt data tags hwf _ _ hline hjLB
      show (writeLanes data (line * LB c + word * c.nbs) (List.replicate c.nbs true) rdat c.nbs).getD _ 0 = _
      rw [writeLanes_getD]
      have hk : line * LB c + j - (line * LB c + word * c.nbs) = j - word * c.nbs := by omega
      have hkl : j - word * c.nbs < c.nbs := by omega
      have hsel : (List.replicate c.nbs true).getD (j - word * c.nbs) false = true := by
        simp [List.getD_eq_getElem?_getD, List.getElem?_replicate, hkl]
      have : line * LB c + word * c.nbs ≤ line * LB c + j ∧ line * LB c + j < line * LB c + word * c.nbs + c.nbs ∧
          (List.replicate c.nbs true).getD (line * LB c + j - (line * LB c + word * c.nbs)) false = true ∧
          line * LB c + j < data.length := by
        rw [hk]; exact ⟨by omega, by omega, hsel, hdl⟩
      rw [if_pos this, hk, hr _ hkl]
      congr 1; omega

/-! ### (G) last refilled word: the line is valid and clean again -/

theorem refill_last {NG : Nat} (g : Geo c NG) (data' : List Byte) (tags : List (Nat × Bool)) (Ms M : Mem) (a : Nat)
    (ha : gline c a < NG) (htag : T tags (adrLine c a) = (adrTag c a, false))
    (hhole : HoleAbs (c := c) data' tags Ms (adrLine c a) M) (hoth : CohOther (c := c) data' tags Ms (adrLine c a))
    (hall : ∀ j, j < LB c → data'.getD (adrLine c a * LB c + j) 0 = Ms (gline c a * LB c + j)) :
    M = absMem c data' tags Ms ∧ Coherent c data' tags Ms := by
  have hline : adrLine c a < 2 ^ c.linebits := Nat.mod_lt _ (Nat.two_pow_pos _)
  refine ⟨?_, ?_⟩
  · funext x
    rw [hhole x]
    obtain ⟨G, j, hj, rfl⟩ := byte_coords g x
    rw [div_block _ _ _ hj]
    by_cases hl : G % 2 ^ c.linebits = adrLine c a
    · simp only [hl, if_true]
      rw [absMem_at g _ _ _ _ _ hj, hl, htag]
      by_cases ht : adrTag c a = G / 2 ^ c.linebits
      · simp only [ht, if_true]
        rw [hall j hj]
        have : G = gline c a := by
          rw [adrTag_eq g a ha] at ht
          rw [adrLine_eq] at hl
          have e1 := Nat.div_add_mod G (2 ^ c.linebits)
          have e2 := Nat.div_add_mod (gline c a) (2 ^ c.linebits)
          rw [hl, ← ht] at e1
          omega
        rw [this]
      · simp only [ht, if_false]
    · simp only [hl, if_false]
  · intro l hl hc j hj
    by_cases hne : l = adrLine c a
    · subst hne
      rw [htag]
      simp only
      rw [gnum g a ha]
      exact hall j hj
    · exact hoth l hl hne hc j hj

/-! ### the slave port of the cache -/

variable (c)

theorem toSlave_active (s : CacheState) (r : Req) :
    (toSlave c s r).active = (s.fsm == .evict || s.fsm == .refill) := by
  simp [toSlave, Req.active]

theorem word_block (word : Nat) (hw : word < 2 ^ c.wordbits) : word * c.nbs + c.nbs ≤ LB c := by
  calc word * c.nbs + c.nbs = (word + 1) * c.nbs := by ring
    _ ≤ 2 ^ c.wordbits * c.nbs := Nat.mul_le_mul_right _ hw
    _ = LB c := Nat.mul_comm _ _

variable {c}

/-- No truncation of the slave address: it is `word + 2^wordbits · G'` for the global line
    `G' = line + 2^linebits · tag_do.tag`. -/
theorem slave_adr {NG : Nat} (g : Geo c NG) (s : CacheState) (r : Req) (hw : s.word < 2 ^ c.wordbits)
    (hl : s.lineReg = adrLine c r.adr)
    (hG : adrLine c r.adr + 2 ^ c.linebits * (T s.tags (adrLine c r.adr)).1 < NG) :
    (toSlave c s r).adr * c.nbs =
      (adrLine c r.adr + 2 ^ c.linebits * (T s.tags (adrLine c r.adr)).1) * LB c + s.word * c.nbs := by
  have hadr : (toSlave c s r).adr =
      (s.word % 2 ^ c.wordbits + 2 ^ c.wordbits * (adrLine c r.adr + 2 ^ c.linebits * (T s.tags s.lineReg).1)) % 2 ^ c.saw := rfl
  rw [hadr, hl, Nat.mod_eq_of_lt hw]
  generalize adrLine c r.adr + 2 ^ c.linebits * (T s.tags (adrLine c r.adr)).1 = G at *
  have hlt : s.word + 2 ^ c.wordbits * G < 2 ^ c.saw := by
    calc s.word + 2 ^ c.wordbits * G < 2 ^ c.wordbits + 2 ^ c.wordbits * G := by omega
      _ = (G + 1) * 2 ^ c.wordbits := by ring
      _ ≤ NG * 2 ^ c.wordbits := Nat.mul_le_mul_right _ hG
      _ ≤ 2 ^ c.saw := g.saw
  rw [Nat.mod_eq_of_lt hlt]
  show _ = G * (c.nbs * 2 ^ c.wordbits) + s.word * c.nbs
  ring

theorem slave_dat (s : CacheState) (r : Req) (hw : s.word < 2 ^ c.wordbits) (d : Nat) (hd : d < c.nbs) :
    (toSlave c s r).dat.getD d 0 = s.data.getD (s.lineReg * LB c + s.word * c.nbs + d) 0 := by
  show (window (dataDo c s) 0 (s.word * c.nbs) c.nbs).getD d 0 = _
  rw [window_getD _ _ _ _ _ hd]
  have := word_block c s.word hw
  show (readLanes s.data s.lineReg (LB c)).getD _ 0 = _
  rw [readLanes_at _ _ _ (by omega), Nat.add_assoc]

theorem replicate_true_getD (n d : Nat) : (List.replicate n true).getD d false = decide (d < n) := by
  by_cases h : d < n <;> simp [List.getD_eq_getElem?_getD, List.getElem?_replicate, h]

/-- The write-back of one slave word, as `EvictWrite`. -/
theorem evict_write_of {NG : Nat} (g : Geo c NG) (s : CacheState) (r : Req) (Ms : Mem) (hw : s.word < 2 ^ c.wordbits)
    (hl : s.lineReg = adrLine c r.adr)
    (hG : adrLine c r.adr + 2 ^ c.linebits * (T s.tags (adrLine c r.adr)).1 < NG) :
    EvictWrite (c := c) s.data Ms
      (Ms.writeMasked ((toSlave c s r).adr * c.nbs) ((toSlave c s r).sel.take c.nbs) (toSlave c s r).dat)
      (adrLine c r.adr) (adrLine c r.adr + 2 ^ c.linebits * (T s.tags (adrLine c r.adr)).1) s.word := by
  intro y
  rw [Mem.writeMasked_apply, take_getD, slave_adr g s r hw hl hG]
  have hsel : (toSlave c s r).sel = List.replicate c.nbs true := rfl
  rw [hsel, replicate_true_getD]
  generalize (adrLine c r.adr + 2 ^ c.linebits * (T s.tags (adrLine c r.adr)).1) * LB c + s.word * c.nbs = B
  by_cases h : B ≤ y ∧ y < B + c.nbs
  · have hd : y - B < c.nbs := by omega
    rw [if_pos h, slave_dat s r hw _ hd, hl]
    simp [h.1, hd]
  · rw [if_neg h]
    by_cases h1 : B ≤ y
    · have : ¬ y - B < c.nbs := by omega
      simp [this]
    · simp [h1]

/-! ### the cache over a slave that implements a byte memory -/

section Over
variable {ω τ : Type} (sl : Slave ω τ) (InvS : τ → Option Req → Mem → Prop) (NG : Nat)
variable (c)

/-- The master holds `r` and the registered address fields follow it. -/
def Held (s : CacheState) (r : Req) : Prop :=
  r.active = true ∧ gline c r.adr < NG ∧ s.lineReg = adrLine c r.adr ∧ s.offR = adrOffset c r.adr

/-- Refinement relation, by FSM state. -/
def Inv (st : CacheState × τ) (p : Option Req) (M : Mem) : Prop :=
  WF c NG st.1.data st.1.tags ∧ ∃ Ms ps, InvS st.2 ps Ms ∧
  match st.1.fsm with
  | .idle => p = none ∧ ps = none ∧ M = absMem c st.1.data st.1.tags Ms ∧ Coherent c st.1.data st.1.tags Ms
  | .testHit => ∃ r, p = some r ∧ Held c NG st.1 r ∧ ps = none ∧
      M = absMem c st.1.data st.1.tags Ms ∧ Coherent c st.1.data st.1.tags Ms
  | .evict => ∃ r, p = some r ∧ Held c NG st.1 r ∧ (∀ r', ps = some r' → toSlave c st.1 r = r') ∧
      st.1.word < 2 ^ c.wordbits ∧ (T st.1.tags (adrLine c r.adr)).2 = true ∧
      M = absMem c st.1.data st.1.tags Ms ∧ Coherent c st.1.data st.1.tags Ms ∧
      ∀ j, j < st.1.word * c.nbs →
        Ms ((adrLine c r.adr + 2 ^ c.linebits * (T st.1.tags (adrLine c r.adr)).1) * LB c + j) =
          st.1.data.getD (adrLine c r.adr * LB c + j) 0
  | .refill => ∃ r, p = some r ∧ Held c NG st.1 r ∧ (∀ r', ps = some r' → toSlave c st.1 r = r') ∧
      st.1.word < 2 ^ c.wordbits ∧ T st.1.tags (adrLine c r.adr) = (adrTag c r.adr, false) ∧
      HoleAbs (c := c) st.1.data st.1.tags Ms (adrLine c r.adr) M ∧
      CohOther (c := c) st.1.data st.1.tags Ms (adrLine c r.adr) ∧
      ∀ j, j < st.1.word * c.nbs → st.1.data.getD (adrLine c r.adr * LB c + j) 0 = Ms (gline c r.adr * LB c + j)

variable {c}

section Intro
variable {InvS NG}
variable {s : CacheState} {t : τ} {M Ms : Mem} {ps : Option Req} {r : Req}

theorem Inv.mk_idle (hf : s.fsm = .idle) (hwf : WF c NG s.data s.tags) (hS : InvS t none Ms)
    (hM : M = absMem c s.data s.tags Ms) (hcoh : Coherent c s.data s.tags Ms) : Inv c InvS NG (s, t) none M := by
  refine ⟨hwf, Ms, none, hS, ?_⟩
  rw [show (s, t).1.fsm = CacheFsm.idle from hf]
  exact ⟨rfl, rfl, hM, hcoh⟩

theorem Inv.mk_testHit (hf : s.fsm = .testHit) (hwf : WF c NG s.data s.tags) (hS : InvS t none Ms)
    (hh : Held c NG s r) (hM : M = absMem c s.data s.tags Ms) (hcoh : Coherent c s.data s.tags Ms) :
    Inv c InvS NG (s, t) (some r) M := by
  refine ⟨hwf, Ms, none, hS, ?_⟩
  rw [show (s, t).1.fsm = CacheFsm.testHit from hf]
  exact ⟨r, rfl, hh, rfl, hM, hcoh⟩

theorem Inv.mk_evict (hf : s.fsm = .evict) (hwf : WF c NG s.data s.tags) (hS : InvS t ps Ms)
    (hh : Held c NG s r) (hps : ∀ r', ps = some r' → toSlave c s r = r') (hw : s.word < 2 ^ c.wordbits)
    (hd : (T s.tags (adrLine c r.adr)).2 = true) (hM : M = absMem c s.data s.tags Ms)
    (hcoh : Coherent c s.data s.tags Ms)
    (hdone : ∀ j, j < s.word * c.nbs →
        Ms ((adrLine c r.adr + 2 ^ c.linebits * (T s.tags (adrLine c r.adr)).1) * LB c + j) =
          s.data.getD (adrLine c r.adr * LB c + j) 0) :
    Inv c InvS NG (s, t) (some r) M := by
  refine ⟨hwf, Ms, ps, hS, ?_⟩
  rw [show (s, t).1.fsm = CacheFsm.evict from hf]
  exact ⟨r, rfl, hh, hps, hw, hd, hM, hcoh, hdone⟩

theorem Inv.mk_refill (hf : s.fsm = .refill) (hwf : WF c NG s.data s.tags) (hS : InvS t ps Ms)
    (hh : Held c NG s r) (hps : ∀ r', ps = some r' → toSlave c s r = r') (hw : s.word < 2 ^ c.wordbits)
    (ht : T s.tags (adrLine c r.adr) = (adrTag c r.adr, false))
    (hhole : HoleAbs (c := c) s.data s.tags Ms (adrLine c r.adr) M)
    (hoth : CohOther (c := c) s.data s.tags Ms (adrLine c r.adr))
    (hdone : ∀ j, j < s.word * c.nbs → s.data.getD (adrLine c r.adr * LB c + j) 0 = Ms (gline c r.adr * LB c + j)) :
    Inv c InvS NG (s, t) (some r) M := by
  refine ⟨hwf, Ms, ps, hS, ?_⟩
  rw [show (s, t).1.fsm = CacheFsm.refill from hf]
  exact ⟨r, rfl, hh, hps, hw, ht, hhole, hoth, hdone⟩

end Intro

theorem toSlave_congr (s s' : CacheState) (r : Req) (h1 : s'.fsm = s.fsm) (h2 : s'.word = s.word)
    (h3 : s'.lineReg = s.lineReg) (h4 : s'.tags = s.tags) (h5 : s'.data = s.data) : toSlave c s' r = toSlave c s r := by
  simp [toSlave, tagDo, dataDo, h1, h2, h3, h4, h5]

theorem lastWord_iff (s : CacheState) (hw : s.word < 2 ^ c.wordbits) : lastWord c s = true ↔ s.word + 1 = 2 ^ c.wordbits := by
  have := Nat.two_pow_pos c.wordbits
  simp only [lastWord, beq_iff_eq]; omega

/-- **The cache preserves byte-memory refinement** (master address map `fmap`: identity unless
    `reverse`), for masters that address at most `NG` global lines. -/
theorem refines (g : Geo c NG) (P : Req × ω → Prop) (PS : Req × ω → Prop)
    (hP : ∀ s r o, P (r, o) → PS (toSlave c s r, o)) (hPa : ∀ r o, P (r, o) → gline c r.adr < NG)
    (hS : Refines sl id c.nbs PS InvS) :
    Refines ((cache c).over sl) (fmap c) c.nbm P (Inv c InvS NG) := by
  intro st p M i hinv hhold hPi
  obtain ⟨r, o⟩ := i
  obtain ⟨s, t⟩ := st
  obtain ⟨hwf, Ms, ps, hSinv, hfsm⟩ := hinv
  dsimp only at hwf hSinv hfsm hhold
  let sr := toSlave c s r
  let rsp := sl.out t (sr, o)
  have hout : ((cache c).over sl).out (s, t) (r, o) = toMaster c s r rsp := rfl
  have hnext : ((cache c).over sl).next (s, t) (r, o) = (Cache.next c s r rsp, sl.next t (sr, o)) := rfl
  have hga : gline c r.adr < NG := hPa r o hPi
  have hlineLt : adrLine c r.adr < 2 ^ c.linebits := Nat.mod_lt _ (Nat.two_pow_pos _)
  rw [next_eq] at hnext
  cases hf : s.fsm with
  | idle =>
    simp only [hf] at hfsm
    obtain ⟨hp, hps, hM, hcoh⟩ := hfsm
    subst hp hps
    have hso := hS t none Ms (sr, o) hSinv (by intro r' h; cases h) (hP s r o hPi)
    have hsr : sr.active = false := by rw [toSlave_active, hf]; rfl
    have hsa : rsp.ack = false := by
      cases h : rsp.ack with
      | false => rfl
      | true => have := hso.ack_active h; rw [hsr] at this; cases this
    have hSnext := hso.no_ack hsa
    simp only [hsr, Bool.false_eq_true, if_false] at hSnext
    have hm0 : mack c s r = false := by simp [mack, hf]
    apply StepOk.mk_no_ack _ _ _ _ _ _ _ (by rw [hout]; exact hm0)
    rw [hnext]
    have hd : dataNext c s r rsp = s.data := by simp [dataNext, hf, hm0]
    have ht : tagsNext c s r rsp = s.tags := by simp [tagsNext, tagWe, hf]
    cases hact : r.active with
    | false =>
      have hfs : fsmNext c s r rsp = .idle := by simp [fsmNext, hf, hact]
      simp only [Bool.false_eq_true, if_false]
      exact Inv.mk_idle hfs (by rw [hd, ht]; exact hwf) hSnext (by rw [hd, ht]; exact hM) (by rw [hd, ht]; exact hcoh)
    | true =>
      have hfs : fsmNext c s r rsp = .testHit := by simp [fsmNext, hf, hact]
      simp only [if_true]
      exact Inv.mk_testHit hfs (by rw [hd, ht]; exact hwf) hSnext ⟨hact, hga, rfl, rfl⟩ (by rw [hd, ht]; exact hM)
        (by rw [hd, ht]; exact hcoh)
  | testHit =>
    simp only [hf] at hfsm
    obtain ⟨r0, hp, hheld, hps, hM, hcoh⟩ := hfsm
    have := hhold r0 hp; subst this
    subst hps
    obtain ⟨hact, _, hlr, hor⟩ := hheld
    have hso := hS t none Ms (sr, o) hSinv (by intro r' h; cases h) (hP s r o hPi)
    have hsr : sr.active = false := by rw [toSlave_active, hf]; rfl
    have hsa : rsp.ack = false := by
      cases h : rsp.ack with
      | false => rfl
      | true => have := hso.ack_active h; rw [hsr] at this; cases this
    have hSnext := hso.no_ack hsa
    simp only [hsr, Bool.false_eq_true, if_false] at hSnext
    have htd : tagDo s = T s.tags (adrLine c r.adr) := by simp [tagDo, T, hlr]
    cases hh : hit c s r with
    | true =>
      have hhit : (T s.tags (adrLine c r.adr)).1 = adrTag c r.adr := by
        simpa [hit, htd] using hh
      have hm1 : mack c s r = true := by simp [mack, hf, hh]
      have hfs : fsmNext c s r rsp = .idle := by simp [fsmNext, hf, hh]
      apply StepOk.mk_ack _ _ _ _ _ _ _ (by rw [hout]; exact hm1) hact
      · intro _ k hk _
        rw [hout]
        show (window (dataDo c s) 0 (chunk c s.offR * c.nbm) c.nbm).getD k 0 = _
        have : dataDo c s = readLanes s.data (adrLine c r.adr) (LB c) := by simp [dataDo, hlr]
        rw [this, hor, hM]
        exact hit_read g s.data s.tags Ms r.adr k hga hk hhit
      · rw [hnext]
        cases hwe : r.we with
        | false =>
          have hd : dataNext c s r rsp = s.data := by simp [dataNext, hf, hwe]
          have ht : tagsNext c s r rsp = s.tags := by simp [tagsNext, tagWe, hf, hh, hwe]
          simp only [Bool.false_eq_true, if_false]
          exact Inv.mk_idle hfs (by rw [hd, ht]; exact hwf) hSnext (by rw [hd, ht]; exact hM) (by rw [hd, ht]; exact hcoh)
        | true =>
          have hd : dataNext c s r rsp =
              writeLanes s.data (adrLine c r.adr * LB c + chunk c (adrOffset c r.adr) * c.nbm) r.sel r.dat c.nbm := by
            simp [dataNext, hf, hwe, hact, hm1]
          have ht : tagsNext c s r rsp = s.tags.set (adrLine c r.adr) (adrTag c r.adr, true) := by
            simp [tagsNext, tagWe, hf, hh, hwe]
          simp only [if_true]
          refine Inv.mk_idle hfs ?_ hSnext ?_ ?_
          · rw [hd, ht]; exact wf_data NG _ _ _ (wf_set_tag g _ _ hwf _ hga true) (by simp)
          · rw [hd, ht, hM]; exact hit_write g s.data s.tags Ms r.adr r.sel r.dat hwf hga hhit
          · rw [hd, ht]; exact hit_write_coherent g s.data s.tags Ms r.adr r.sel r.dat hwf hcoh
    | false =>
      have hm0 : mack c s r = false := by simp [mack, hf, hh]
      apply StepOk.mk_no_ack _ _ _ _ _ _ _ (by rw [hout]; exact hm0)
      rw [hnext]
      simp only [hact, if_true]
      have hd : dataNext c s r rsp = s.data := by simp [dataNext, hf, hm0]
      have hw0 : wordNext c s rsp = 0 := by simp [wordNext, hf]
      cases hdirty : (T s.tags (adrLine c r.adr)).2 with
      | true =>
        have hfs : fsmNext c s r rsp = .evict := by simp [fsmNext, hf, hh, htd, hdirty]
        have ht : tagsNext c s r rsp = s.tags := by simp [tagsNext, tagWe, hf, hh, htd, hdirty]
        exact Inv.mk_evict (ps := none) hfs (by rw [hd, ht]; exact hwf) hSnext ⟨hact, hga, rfl, rfl⟩
          (by intro r' h; cases h) (by rw [hw0]; exact Nat.two_pow_pos _) (by rw [ht]; exact hdirty)
          (by rw [hd, ht]; exact hM) (by rw [hd, ht]; exact hcoh) (by intro j hj; rw [hw0] at hj; simp at hj)
      | false =>
        have hfs : fsmNext c s r rsp = .refill := by simp [fsmNext, hf, hh, htd, hdirty]
        have ht : tagsNext c s r rsp = s.tags.set (adrLine c r.adr) (adrTag c r.adr, false) := by
          simp [tagsNext, tagWe, hf, hh, htd, hdirty]
        obtain ⟨hhole, hoth⟩ := miss_clean g s.data s.tags Ms r.adr hwf hcoh hdirty
        refine Inv.mk_refill (ps := none) hfs (by rw [hd, ht]; exact wf_set_tag g _ _ hwf _ hga false) hSnext
          ⟨hact, hga, rfl, rfl⟩ (by intro r' h; cases h) (by rw [hw0]; exact Nat.two_pow_pos _) ?_
          (by rw [hd, ht, hM]; exact hhole) (by rw [hd, ht]; exact hoth) (by intro j hj; rw [hw0] at hj; simp at hj)
        rw [ht, T_set _ _ _ _ (by rw [hwf.1]; exact hlineLt)]; simp
  | evict =>
    simp only [hf] at hfsm
    obtain ⟨r0, hp, hheld, hpsc, hword, hdirty, hM, hcoh, hdone⟩ := hfsm
    have := hhold r0 hp; subst this
    obtain ⟨hact, _, hlr, hor⟩ := hheld
    have hso := hS t ps Ms (sr, o) hSinv hpsc (hP s r o hPi)
    have hsr : sr.active = true := by rw [toSlave_active, hf]; rfl
    have hswe : sr.we = true := by simp [sr, toSlave, hf]
    have hm0 : mack c s r = false := by simp [mack, hf]
    have hG := hwf.2.2 _ hlineLt
    apply StepOk.mk_no_ack _ _ _ _ _ _ _ (by rw [hout]; exact hm0)
    rw [hnext]
    simp only [hact, if_true]
    have hd : dataNext c s r rsp = s.data := by simp [dataNext, hf, hm0]
    cases hsa : rsp.ack with
    | false =>
      have hSnext := hso.no_ack hsa
      simp only [hsr, if_true] at hSnext
      have hfs : fsmNext c s r rsp = .evict := by simp [fsmNext, hf, hsa]
      have ht : tagsNext c s r rsp = s.tags := by simp [tagsNext, tagWe, hf, hsa]
      have hw : wordNext c s rsp = s.word := by simp [wordNext, hf, hsa]
      refine Inv.mk_evict (ps := some sr) hfs (by rw [hd, ht]; exact hwf) hSnext ⟨hact, hga, rfl, rfl⟩ ?_
        (by rw [hw]; exact hword) (by rw [ht]; exact hdirty) (by rw [hd, ht]; exact hM) (by rw [hd, ht]; exact hcoh)
        (by rw [hw, hd, ht]; exact hdone)
      intro r' h; cases h
      exact toSlave_congr _ _ _ (by rw [hfs, hf]) hw hlr.symm ht hd
    | true =>
      obtain ⟨_, hSnext⟩ := hso.ack hsa
      simp only [hswe, if_true, id] at hSnext
      have hew := evict_write_of g s r Ms hword hlr hG
      obtain ⟨habs, hcoh', hdone'⟩ := evict_step g s.data s.tags Ms _ (adrLine c r.adr) s.word hlineLt
        (word_block c s.word hword) hdirty hew hcoh hdone
      cases hlast : lastWord c s with
      | false =>
        have hnl : s.word + 1 < 2 ^ c.wordbits := by
          have : ¬ s.word + 1 = 2 ^ c.wordbits := by rw [← lastWord_iff s hword, hlast]; simp
          omega
        have hfs : fsmNext c s r rsp = .evict := by simp [fsmNext, hf, hsa, hlast]
        have ht : tagsNext c s r rsp = s.tags := by simp [tagsNext, tagWe, hf, hsa, hlast]
        have hw : wordNext c s rsp = s.word + 1 := by simp [wordNext, hf, hsa, hlast, Nat.mod_eq_of_lt hnl]
        exact Inv.mk_evict (ps := none) hfs (by rw [hd, ht]; exact hwf) hSnext ⟨hact, hga, rfl, rfl⟩
          (by intro r' h; cases h) (by rw [hw]; exact hnl) (by rw [ht]; exact hdirty)
          (by rw [hd, ht, habs]; exact hM) (by rw [hd, ht]; exact hcoh') (by rw [hw, hd, ht]; exact hdone')
      | true =>
        have hl1 : s.word + 1 = 2 ^ c.wordbits := (lastWord_iff s hword).mp hlast
        have hfs : fsmNext c s r rsp = .refill := by simp [fsmNext, hf, hsa, hlast]
        have hne : (CacheFsm.evict == CacheFsm.testHit) = false := by decide
        have ht : tagsNext c s r rsp = s.tags.set (adrLine c r.adr) (adrTag c r.adr, false) := by
          simp [tagsNext, tagWe, hf, hsa, hlast, hne]
        have hw : wordNext c s rsp = 0 := by simp [wordNext, hf, hsa, hlast]
        have hall : ∀ j, j < LB c →
            (Ms.writeMasked (sr.adr * c.nbs) (sr.sel.take c.nbs) sr.dat)
              ((adrLine c r.adr + 2 ^ c.linebits * (T s.tags (adrLine c r.adr)).1) * LB c + j) =
            s.data.getD (adrLine c r.adr * LB c + j) 0 := by
          intro j hj
          apply hdone'
          rw [hl1]; show j < 2 ^ c.wordbits * c.nbs; rw [Nat.mul_comm]; exact hj
        obtain ⟨hhole, hoth⟩ := evict_last g s.data s.tags _ r.adr hwf hcoh' hall
        refine Inv.mk_refill (ps := none) hfs (by rw [hd, ht]; exact wf_set_tag g _ _ hwf _ hga false) hSnext
          ⟨hact, hga, rfl, rfl⟩ (by intro r' h; cases h) (by rw [hw]; exact Nat.two_pow_pos _) ?_
          (by rw [hd, ht, hM, ← habs]; exact hhole) (by rw [hd, ht]; exact hoth)
          (by intro j hj; rw [hw] at hj; simp at hj)
        rw [ht, T_set _ _ _ _ (by rw [hwf.1]; exact hlineLt)]; simp
  | refill =>
    simp only [hf] at hfsm
    obtain ⟨r0, hp, hheld, hpsc, hword, htag, hhole, hoth, hdone⟩ := hfsm
    have := hhold r0 hp; subst this
    obtain ⟨hact, _, hlr, hor⟩ := hheld
    have hso := hS t ps Ms (sr, o) hSinv hpsc (hP s r o hPi)
    have hsr : sr.active = true := by rw [toSlave_active, hf]; rfl
    have hswe : sr.we = false := by simp [sr, toSlave, hf]
    have hm0 : mack c s r = false := by simp [mack, hf]
    have hG := hwf.2.2 _ hlineLt
    have hGnew : adrLine c r.adr + 2 ^ c.linebits * (T s.tags (adrLine c r.adr)).1 = gline c r.adr := by
      rw [htag]; exact gnum g r.adr hga
    apply StepOk.mk_no_ack _ _ _ _ _ _ _ (by rw [hout]; exact hm0)
    rw [hnext]
    simp only [hact, if_true]
    have ht : tagsNext c s r rsp = s.tags := by simp [tagsNext, tagWe, hf]
    cases hsa : rsp.ack with
    | false =>
      have hSnext := hso.no_ack hsa
      simp only [hsr, if_true] at hSnext
      have hd : dataNext c s r rsp = s.data := by simp [dataNext, hf, hsa, hm0]
      have hfs : fsmNext c s r rsp = .refill := by simp [fsmNext, hf, hsa]
      have hw : wordNext c s rsp = s.word := by simp [wordNext, hf, hsa]
      refine Inv.mk_refill (ps := some sr) hfs (by rw [hd, ht]; exact hwf) hSnext ⟨hact, hga, rfl, rfl⟩ ?_
        (by rw [hw]; exact hword) (by rw [ht]; exact htag) (by rw [hd, ht]; exact hhole) (by rw [hd, ht]; exact hoth)
        (by rw [hw, hd]; exact hdone)
      intro r' h; cases h
      exact toSlave_congr _ _ _ (by rw [hfs, hf]) hw hlr.symm ht hd
    | true =>
      obtain ⟨hread, hSnext⟩ := hso.ack hsa
      simp only [hswe, Bool.false_eq_true, if_false] at hSnext
      have hd : dataNext c s r rsp =
          writeLanes s.data (adrLine c r.adr * LB c + s.word * c.nbs) (List.replicate c.nbs true) rsp.dat c.nbs := by
        simp [dataNext, hf, hsa]
      have hr : ∀ k, k < c.nbs → rsp.dat.getD k 0 = Ms (gline c r.adr * LB c + s.word * c.nbs + k) := by
        intro k hk
        have hsel : sr.sel.getD k false = true := by
          show (List.replicate c.nbs true).getD k false = true
          rw [replicate_true_getD]; simpa using hk
        have := hread hswe k hk hsel
        rw [this]
        show Ms (sr.adr * c.nbs + k) = _
        rw [slave_adr g s r hword hlr hG, hGnew]
      obtain ⟨hhole', hoth', hdone'⟩ := refill_step g s.data s.tags Ms M (adrLine c r.adr) (gline c r.adr) s.word rsp.dat
        hwf hlineLt (word_block c s.word hword) hr hhole hoth hdone
      have hwf' : WF c NG (writeLanes s.data (adrLine c r.adr * LB c + s.word * c.nbs) (List.replicate c.nbs true) rsp.dat c.nbs) s.tags :=
        wf_data NG _ _ _ hwf (by simp)
      cases hlast : lastWord c s with
      | false =>
        have hnl : s.word + 1 < 2 ^ c.wordbits := by
          have : ¬ s.word + 1 = 2 ^ c.wordbits := by rw [← lastWord_iff s hword, hlast]; simp
          omega
        have hfs : fsmNext c s r rsp = .refill := by simp [fsmNext, hf, hsa, hlast]
        have hw : wordNext c s rsp = s.word + 1 := by simp [wordNext, hf, hsa, Nat.mod_eq_of_lt hnl]
        exact Inv.mk_refill (ps := none) hfs (by rw [hd, ht]; exact hwf') hSnext ⟨hact, hga, rfl, rfl⟩
          (by intro r' h; cases h) (by rw [hw]; exact hnl) (by rw [ht]; exact htag) (by rw [hd, ht]; exact hhole')
          (by rw [hd, ht]; exact hoth') (by rw [hw, hd]; exact hdone')
      | true =>
        have hl1 : s.word + 1 = 2 ^ c.wordbits := (lastWord_iff s hword).mp hlast
        have hfs : fsmNext c s r rsp = .testHit := by simp [fsmNext, hf, hsa, hlast]
        have hall : ∀ j, j < LB c →
            (writeLanes s.data (adrLine c r.adr * LB c + s.word * c.nbs) (List.replicate c.nbs true) rsp.dat c.nbs).getD
              (adrLine c r.adr * LB c + j) 0 = Ms (gline c r.adr * LB c + j) := by
          intro j hj
          apply hdone'
          rw [hl1]; show j < 2 ^ c.wordbits * c.nbs; rw [Nat.mul_comm]; exact hj
        obtain ⟨hM', hcoh'⟩ := refill_last g _ s.tags Ms M r.adr hga htag hhole' hoth' hall
        exact Inv.mk_testHit hfs (by rw [hd, ht]; exact hwf') hSnext ⟨hact, hga, rfl, rfl⟩ (by rw [hd, ht]; exact hM')
          (by rw [hd, ht]; exact hcoh')

end Over

/-! ### power-up state -/

theorem T_replicate (n l : Nat) : T (List.replicate n (0, false)) l = (0, false) := by
  unfold T
  by_cases h : l < n <;> simp [List.getD_eq_getElem?_getD, List.getElem?_replicate, h]

theorem zeros_getD (n p : Nat) : (List.replicate n (0 : Byte)).getD p 0 = 0 := by
  by_cases h : p < n <;> simp [List.getD_eq_getElem?_getD, List.getElem?_replicate, h]

/-- The power-up state (tags 0/clean, data 0) is coherent iff the backing memory is 0 on the tag-0 lines —
    the cache has no valid bit. -/
theorem inv_init {ω τ : Type} (sl : Slave ω τ) (InvS : τ → Option Req → Mem → Prop) (NG : Nat) (g : Geo c NG)
    (M0 : Mem) (hS : InvS sl.init none M0) (hzero : ∀ x, x < 2 ^ c.linebits * LB c → M0 x = 0) :
    Inv c InvS NG ((cache c).over sl).init none M0 := by
  have hfs : ((cache c).init).fsm = .idle := rfl
  refine Inv.mk_idle (s := (cache c).init) (t := sl.init) hfs ?_ hS ?_ ?_
  · refine ⟨by simp [cache, Cache.init, nlines], by simp [cache, Cache.init, nlines], ?_⟩
    intro l hl
    show l + 2 ^ c.linebits * (T (List.replicate (nlines c) (0, false)) l).1 < NG
    rw [T_replicate]; simp only [Nat.mul_zero, Nat.add_zero]
    exact Nat.lt_of_lt_of_le hl g.lines
  · funext x
    show M0 x = absMem c (List.replicate (nlines c * lineBytes c) 0) (List.replicate (nlines c) (0, false)) M0 x
    unfold absMem
    rw [T_replicate, zeros_getD]
    simp only
    by_cases h : 0 = x / LB c / 2 ^ c.linebits
    · rw [if_pos h]
      apply hzero
      have h1 : x / LB c < 2 ^ c.linebits := by
        rcases Nat.lt_or_ge (x / LB c) (2 ^ c.linebits) with h2 | h2
        · exact h2
        · have := Nat.div_pos h2 (Nat.two_pow_pos _); omega
      exact (Nat.div_lt_iff_lt_mul g.LB_pos).mp h1
    · rw [if_neg h]
  · intro l hl _ j hj
    show (List.replicate (nlines c * lineBytes c) (0 : Byte)).getD _ 0 =
      M0 ((l + 2 ^ c.linebits * (T (List.replicate (nlines c) (0, false)) l).1) * LB c + j)
    rw [zeros_getD, T_replicate]
    simp only [Nat.mul_zero, Nat.add_zero]
    symm; apply hzero
    calc l * LB c + j < l * LB c + LB c := by omega
      _ = (l + 1) * LB c := by ring
      _ ≤ 2 ^ c.linebits * LB c := Nat.mul_le_mul_right _ hl

end Cache
end Litex.WbMem
