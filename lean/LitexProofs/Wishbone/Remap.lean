import LitexModel.Wishbone.Remap
import LitexProofs.Wishbone.SramBus
/-
  `wishbone.Remapper` (and any other adapter that only rewrites the address combinationally) preserves
  byte-memory refinement: the master sees the slave's memory through the address map.
-/
namespace Litex.WbMem
open Litex

/-- A combinational adapter that rewrites only the address. -/
def adrAdapter (h : Nat → Nat) : Adapter Unit where
  init := ()
  toSlave _ r := { r with adr := h r.adr }
  toMaster _ _ rsp := rsp
  next _ _ _ := ()

theorem remapper_eq (c : RemapCfg) : remapper c = adrAdapter (Remap.mapAdr c) := rfl

namespace AdrAdapter
variable {ω τ : Type} (h : Nat → Nat) (sl : Slave ω τ) (f : Nat → Nat) (nb : Nat)
  (InvS : τ → Option Req → Mem → Prop)

def tr (r : Req) : Req := { r with adr := h r.adr }

def Inv (st : Unit × τ) (p : Option Req) (M : Mem) : Prop := InvS st.2 (p.map (tr h)) M

/-- **Address-rewriting adapters preserve byte-memory refinement** (decoding `f ∘ h`). -/
theorem refines (P : Req × ω → Prop) (PS : Req × ω → Prop) (hP : ∀ r o, P (r, o) → PS (tr h r, o))
    (hS : Refines sl f nb PS InvS) :
    Refines ((adrAdapter h).over sl) (fun a => f (h a)) nb P (Inv h InvS) := by
  intro st p M i hinv hhold hPi
  obtain ⟨r, o⟩ := i
  obtain ⟨u, t⟩ := st
  let sr := tr h r
  let rsp := sl.out t (sr, o)
  have hout : ((adrAdapter h).over sl).out (u, t) (r, o) = rsp := rfl
  have hnext : ((adrAdapter h).over sl).next (u, t) (r, o) = ((), sl.next t (sr, o)) := rfl
  have hsact : sr.active = r.active := rfl
  have hso := hS t (p.map (tr h)) M (sr, o) hinv (by
    intro r' hr'
    cases p with
    | none => cases hr'
    | some r0 => have := hhold r0 rfl; simp only at this; subst this; simpa using hr') (hP r o hPi)
  cases hsa : rsp.ack with
  | false =>
    have hSnext := hso.no_ack hsa
    apply StepOk.mk_no_ack _ _ _ _ _ _ _ (by rw [hout]; exact hsa)
    rw [hnext]
    show InvS (sl.next t (sr, o)) (Option.map (tr h) (if r.active then some r else none)) M
    simp only [hsact] at hSnext
    cases hact : r.active <;> simpa [hact] using hSnext
  | true =>
    have hact : r.active = true := by rw [← hsact]; exact hso.ack_active hsa
    obtain ⟨hread, hSnext⟩ := hso.ack hsa
    apply StepOk.mk_ack _ _ _ _ _ _ _ (by rw [hout]; exact hsa) hact
    · intro hwe k hk hsel
      rw [hout]; exact hread hwe k hk hsel
    · rw [hnext]
      exact hSnext

end AdrAdapter

/-! ### what the address map of `Remapper` computes -/

namespace Remap
variable (c : RemapCfg)

/-- Without regions the slave address is `(origin >> shift) | (adr & mask)` (truncated to the slave width). -/
theorem mapAdr_no_regions (h : c.regions = []) (a : Nat) : mapAdr c a = adrRemap c a % 2 ^ c.saw := by
  simp [mapAdr, h, applyRegions]

/-- An address outside every source region is only origin/mask-remapped. -/
theorem applyRegions_none (a : Nat) (l : List RemapRegion) (cur : Nat)
    (h : ∀ g ∈ l, regionActive c g a = false) : applyRegions c a l cur = cur := by
  induction l generalizing cur with
  | nil => rfl
  | cons g rest ih =>
    simp only [applyRegions, h g (List.mem_cons_self ..), Bool.false_eq_true, if_false]
    exact ih cur (fun g' hg' => h g' (List.mem_cons_of_mem _ hg'))

/-- An address inside exactly the last matching source region `g` is translated to
    `dst.origin + (src_adr − src.origin)` (as a byte address, shifted back to a word address). -/
theorem applyRegions_last (a : Nat) (l1 l2 : List RemapRegion) (g : RemapRegion) (cur : Nat)
    (hg : regionActive c g a = true) (h2 : ∀ g' ∈ l2, regionActive c g' a = false) :
    applyRegions c a (l1 ++ g :: l2) cur = regionAdr c g a := by
  induction l1 generalizing cur with
  | nil => simp only [List.nil_append, applyRegions, hg, if_true]; exact applyRegions_none c a l2 _ h2
  | cons g0 rest ih => simp only [List.cons_append, applyRegions]; exact ih _

/-- The origin/mask-remapped word address fits the master's address width when the origin does. -/
theorem adrRemap_lt (ho : c.origin >>> c.shift < 2 ^ c.aw) (a : Nat) : adrRemap c a < 2 ^ c.aw := by
  unfold adrRemap
  apply Nat.or_lt_two_pow ho
  exact Nat.lt_of_le_of_lt (Nat.mod_le _ _) (Nat.mod_lt _ (Nat.two_pow_pos _))

/-- **No truncation** (all bus widths): the byte-address temporary holds the exact byte address
    `adr_remap << shift` whenever the origin lies inside the bus's address space. -/
theorem srcAdr_exact (ho : c.origin >>> c.shift < 2 ^ c.aw) (a : Nat) : srcAdr c a = adrRemap c a * 2 ^ c.shift := by
  unfold srcAdr tmpBits
  apply Nat.mod_eq_of_lt
  have h := adrRemap_lt c ho a
  calc adrRemap c a * 2 ^ c.shift < 2 ^ c.aw * 2 ^ c.shift := Nat.mul_lt_mul_of_pos_right h (Nat.two_pow_pos _)
    _ = 2 ^ (c.aw + c.shift) := (Nat.pow_add 2 c.aw c.shift).symm
    _ ≤ 2 ^ (c.aw + c.shift + 1) := Nat.pow_le_pow_right (by omega) (by omega)

end Remap
end Litex.WbMem
