import LitexProofs.Wishbone.Conv
/-
  Bounded liveness of the adapters in front of the arbitrary-latency byte memory: if the slave answers within
  `L` cycles (never more than `L` consecutive cycles without an oracle acknowledge), a request that the master
  keeps presenting is acknowledged within an explicit number of cycles.
-/
namespace Litex.WbMem
open Litex

/-- "The slave answers within `L`": `w` consecutive cycles without acknowledge so far, never more than `L`. -/
def Within (L : Nat) : Nat → List Lat → Prop
  | w, [] => w ≤ L
  | w, o :: os => if o.ack then Within L 0 os else w < L ∧ Within L (w + 1) os

instance decWithin (L : Nat) : (w : Nat) → (os : List Lat) → Decidable (Within L w os)
  | w, [] => inferInstanceAs (Decidable (w ≤ L))
  | w, o :: os =>
    if h : o.ack = true then
      match decWithin L 0 os with
      | isTrue h1 => isTrue (by simp only [Within, h, if_true]; exact h1)
      | isFalse h1 => isFalse (by simp only [Within, h, if_true]; exact h1)
    else
      match (inferInstance : Decidable (w < L)), decWithin L (w + 1) os with
      | isTrue h1, isTrue h2 => isTrue (by simp only [Within, h, if_false]; exact ⟨h1, h2⟩)
      | isFalse h1, _ => isFalse (by simp only [Within, h, if_false]; exact fun x => h1 x.1)
      | _, isFalse h2 => isFalse (by simp only [Within, h, if_false]; exact fun x => h2 x.2)

/-- Some cycle of the run in which the master keeps presenting `r` carries an acknowledge. -/
def ackedIn {ω τ : Type} (m : Slave ω τ) (r : Req) : τ → List ω → Bool
  | _, [] => false
  | s, o :: os => (m.out s (r, o)).ack || ackedIn m r (m.next s (r, o)) os

namespace Down
variable (c : DownCfg)

/-- Response of the abstract memory to the sub-word request. -/
theorem lat_ack (M0 : Mem) (s : DownState) (mem : Mem) (r : Req) (o : Lat) :
    ((latMem c.nbs M0).out mem (toSlave c s r, o)).ack = (r.active && !skip c s r && o.ack) := by
  simp only [latMem, toSlave, Req.active]
  cases r.cyc <;> cases r.stb <;> cases skip c s r <;> cases o.ack <;> rfl

/-- **Bounded liveness of the DownConverter**: a request held by the master with `count` sub-words done is
    acknowledged within `(ratio − count)·(L + 1)` cycles when the slave answers within `L` (`ratio·(L+1)` from
    the start of a request; `ratio` cycles over a zero-latency slave; skipped sub-words take one cycle). -/
theorem ack_within (L : Nat) (M0 : Mem) (r : Req) (hact : r.active = true) :
    ∀ (os : List Lat) (s : DownState) (mem : Mem) (w : Nat), s.count < c.ratio → w ≤ L → Within L w os →
      (c.ratio - s.count) * (L + 1) ≤ os.length + w →
      ackedIn ((downConv c).over (latMem c.nbs M0)) r (s, mem) os = true := by
  obtain ⟨hcyc, hstb⟩ := active_split r hact
  intro os
  induction os with
  | nil =>
    intro s mem w hcnt hw _ hlen
    exfalso
    have h1 : 1 ≤ c.ratio - s.count := by omega
    have : L + 1 ≤ (c.ratio - s.count) * (L + 1) := Nat.le_mul_of_pos_left _ h1
    simp only [List.length_nil, Nat.zero_add] at hlen
    omega
  | cons o os ih =>
    intro s mem w hcnt hw hW hlen
    simp only [ackedIn]
    let rsp := (latMem c.nbs M0).out mem (toSlave c s r, o)
    have hout : (((downConv c).over (latMem c.nbs M0)).out (s, mem) (r, o)).ack = mack c s r rsp := rfl
    have hnext : ((downConv c).over (latMem c.nbs M0)).next (s, mem) (r, o) =
        (next c s r rsp, (latMem c.nbs M0).next mem (toSlave c s r, o)) := rfl
    have hsa : rsp.ack = (!skip c s r && o.ack) := by
      have := lat_ack c M0 s mem r o; rw [hact] at this; simpa using this
    have hmack : mack c s r rsp = ((skip c s r || o.ack) && done c s) := by
      simp only [mack, hact, hsa]
      cases skip c s r <;> cases o.ack <;> cases done c s <;> rfl
    rw [hout, hnext, hmack]
    simp only [List.length_cons] at hlen
    cases hev : (skip c s r || o.ack) with
    | true =>
      cases hdn : done c s with
      | true => simp
      | false =>
        simp only [Bool.and_false, Bool.false_or]
        have hlt : s.count + 1 < c.ratio := by
          have : s.count ≠ c.ratio - 1 := by simpa [done] using hdn
          omega
        have hn : next c s r rsp = { count := s.count + 1, datR := mdat c s rsp } := by
          have hm0 : mack c s r rsp = false := by rw [hmack, hev, hdn]; rfl
          have hinc : ((toSlave c s r).stb && (toSlave c s r).cyc && rsp.ack || skip c s r) = true := by
            rw [hsa]
            simp only [toSlave, hact, Bool.true_and]
            cases hsk : skip c s r <;> cases hoa : o.ack <;> simp_all
          have hlatch : (rsp.ack || skip c s r) = true := by
            rw [hsa]; cases hsk : skip c s r <;> cases hoa : o.ack <;> simp_all
          simp only [next, hm0, hcyc, hinc, hlatch, Bool.not_true, Bool.or_self, Bool.false_eq_true, if_false, if_true,
            Nat.mod_eq_of_lt hlt]
        rw [hn]
        have hsub : (c.ratio - (s.count + 1)) * (L + 1) + (L + 1) = (c.ratio - s.count) * (L + 1) := by
          have : c.ratio - s.count = (c.ratio - (s.count + 1)) + 1 := by omega
          rw [this, Nat.add_mul, Nat.one_mul]
        cases hoa : o.ack with
        | true =>
          simp only [Within, hoa, if_true] at hW
          exact ih _ _ 0 hlt (Nat.zero_le _) hW (by show (c.ratio - (s.count + 1)) * (L + 1) ≤ os.length + 0; omega)
        | false =>
          simp only [Within, hoa, Bool.false_eq_true, if_false] at hW
          exact ih _ _ (w + 1) hlt hW.1 hW.2 (by show (c.ratio - (s.count + 1)) * (L + 1) ≤ os.length + (w + 1); omega)
    | false =>
      have hsk : skip c s r = false := by cases h : skip c s r <;> simp_all
      have hoa : o.ack = false := by cases h : o.ack <;> simp_all
      simp only [Bool.false_and, Bool.false_or]
      have hn : next c s r rsp = s := by
        have hm0 : mack c s r rsp = false := by rw [hmack, hev]; rfl
        have hra : rsp.ack = false := by rw [hsa, hoa]; simp
        simp [next, hm0, hra, hsk, hcyc]
      rw [hn]
      simp only [Within, hoa, Bool.false_eq_true, if_false] at hW
      exact ih _ _ (w + 1) hcnt hW.1 hW.2 (by omega)

end Down
end Litex.WbMem
