import LitexModel.Wishbone.Sram
import LitexProofs.Wishbone.SramBus
/-
  `wishbone.SRAM`, classic cycles: the refinement relation to the byte memory and its preservation by every
  clock cycle.  (An incrementing-burst cycle `cti = 2` on a bursting bus is excluded here by `NoBurst`; bursts
  are treated in `SramBurst.lean`.)
-/
namespace Litex.WbMem
open Litex

theorem Mem.writeMasked_idem (m : Mem) (base : Nat) (sel : List Bool) (dat : List Byte) :
    (m.writeMasked base sel dat).writeMasked base sel dat = m.writeMasked base sel dat := by
  funext a; simp only [Mem.writeMasked_apply]; split <;> rfl

namespace Sram
variable (c : SramCfg)

/-- The cycle is served as a classic cycle: the bus has no burst support, or `cti ≠ 2`. -/
def NoBurst (i : Req × Unit) : Prop := adrBurst c i.1 = false

/-- The completed-cycle view of a request (word address decoded by the memory). -/
def opOf (r : Req) : Op := { adr := c.idx r.adr, we := r.we, sel := r.sel, dat := r.dat }

/-- Operations that count for the byte-memory history: everything, except writes to a read-only memory. -/
def keep (op : Op) : Bool := !(op.we && c.readOnly)

/-- Refinement relation.  No request outstanding: `ack` is low and the store *is* the abstract memory.
    Request `r` outstanding (presented last cycle, acknowledged in this one): `ack` is high, the read port is
    addressed at `r`, and the store already contains `r`'s write (it is written in every strobe cycle). -/
def Inv (s : SramState) (p : Option Req) (M : Mem) : Prop :=
  s.mem.length = c.depth * c.nb ∧
  match p with
  | none => s.ack = false ∧ Mem.ofList s.mem = M
  | some r => r.active = true ∧ s.ack = true ∧ s.adrReg = c.idx r.adr ∧
      Mem.ofList s.mem = if r.we && !c.readOnly then M.apply ((opOf c r).write c.nb) else M

theorem idx_lt (hd : 0 < c.depth) (a : Nat) : c.idx a < c.depth := by
  unfold SramCfg.idx; omega

theorem word_in_store (hd : 0 < c.depth) (a : Nat) : c.idx a * c.nb + c.nb ≤ c.depth * c.nb := by
  have h := idx_lt c hd a
  calc c.idx a * c.nb + c.nb = (c.idx a + 1) * c.nb := by rw [Nat.add_mul, Nat.one_mul]
    _ ≤ c.depth * c.nb := Nat.mul_le_mul_right _ h

theorem inv_init (init : List Byte) : Inv c (Sram.init c init) none (Mem.ofList (initMem c init)) := by
  simp [Inv, Sram.init, initMem]

theorem step_ok (hd : 0 < c.depth) (init : List Byte) (s : SramState) (p : Option Req) (M : Mem) (i : Req × Unit)
    (hinv : Inv c s p M) (hhold : ∀ r, p = some r → i.1 = r) (hP : NoBurst c i) :
    StepOk (sram c init) c.idx c.nb (keep c) (Inv c) s i M := by
  obtain ⟨r, u⟩ := i
  obtain ⟨hlen, hrest⟩ := hinv
  have hnb : adrBurst c r = false := hP
  have hpa : portAdr c s r = c.idx r.adr := by simp [portAdr, hnb]
  cases p with
  | none =>
    obtain ⟨hack, hmem⟩ := hrest
    have hop : opNow (sram c init) c.idx s (r, u) = [] := by simp [opNow, sram, Sram.out, hack]
    refine ⟨by simp [sram, Sram.out, hack], by simp [hop, Consistent], ?_⟩
    rw [hop]
    simp only [List.filter_nil, applyOps, pendingAfter, sram, Sram.out, hack]
    cases hact : r.active with
    | false => simp [Inv, Sram.next, hact, hlen, hmem]
    | true =>
      simp only [Bool.not_false, Bool.and_true, if_true, Inv, Sram.next, hact, hpa, hack, Bool.true_and,
        Bool.true_or, true_and, writeLanes_length]
      refine ⟨?_, ?_⟩
      · split <;> simp [hlen]
      · cases hwe : r.we <;> cases hro : c.readOnly <;> simp [hmem]
        rw [ofList_writeLanes _ _ _ _ _ (by rw [hlen]; exact word_in_store c hd r.adr), hmem]
        rfl
  | some r0 =>
    have hr : r = r0 := hhold r0 rfl
    subst hr
    obtain ⟨hact, hack, hadr, hmem⟩ := hrest
    have hop : opNow (sram c init) c.idx s (r, u) =
        [{ adr := c.idx r.adr, we := r.we, sel := r.sel,
           dat := if r.we then r.dat else readLanes s.mem s.adrReg c.nb }] := by
      simp [opNow, sram, Sram.out, hack, hact]
    refine ⟨fun _ => hact, ?_, ?_⟩
    · rw [hop]
      cases hwe : r.we with
      | true =>
        cases hro : c.readOnly <;> simp [keep, hwe, hro, Consistent]
      | false =>
        simp only [keep, hwe, Bool.false_and, Bool.not_false, List.filter_cons_of_pos, List.filter_nil]
        rw [consistent_single]
        intro _ k hk _
        simp only [Bool.false_eq_true, if_false]
        rw [readLanes_getD _ _ _ _ hk, hadr]
        simp only [hwe, Bool.false_and, Bool.false_eq_true, if_false] at hmem
        rw [hmem]
    · rw [hop]
      have hpend : pendingAfter (sram c init) s (r, u) = none := by simp [pendingAfter, sram, Sram.out, hack]
      rw [hpend]
      simp only [Inv, sram, Sram.next, hact, hpa, hack, hnb, Bool.not_true, Bool.or_false, Bool.and_false, true_and]
      cases hwe : r.we with
      | false =>
        simp only [hwe, Bool.false_and, Bool.false_eq_true, if_false] at hmem
        simp [keep, hwe, applyOps, hlen, hmem]
      | true =>
        cases hro : c.readOnly with
        | true =>
          simp only [hwe, hro, Bool.not_true, Bool.and_false, Bool.false_eq_true, if_false] at hmem
          simp [keep, hwe, hro, applyOps, hlen, hmem]
        | false =>
          simp only [hwe, hro, Bool.not_false, Bool.and_true, if_true] at hmem
          simp only [keep, hwe, hro, Bool.and_false, Bool.not_false, List.filter_cons_of_pos, List.filter_nil,
            applyOps, if_true, Bool.and_true, writeLanes_length, hlen, true_and]
          rw [ofList_writeLanes _ _ _ _ _ (by rw [hlen]; exact word_in_store c hd r.adr), hmem]
          exact Mem.writeMasked_idem _ _ _ _

/-- A read/write SRAM implements a byte memory (interface form of `step_ok`). -/
theorem refines (hd : 0 < c.depth) (hrw : c.readOnly = false) (init : List Byte) :
    Refines (sram c init) c.idx c.nb (NoBurst c) (Inv c) := by
  intro s p M i hinv hhold hP
  have h := step_ok c hd init s p M i hinv hhold hP
  have hk : keep c = fun _ => true := by funext op; simp [keep, hrw]
  rw [hk] at h
  exact h

/-- `bits_for(2^n - 1) = n` for `n ≥ 1`. -/
theorem bitsFor_pow2 (n : Nat) (hn : 0 < n) : bitsFor (2 ^ n - 1) = n := by
  have h1 : 2 ^ n - 1 ≠ 0 := by
    have : 2 ≤ 2 ^ n := by
      calc 2 = 2 ^ 1 := rfl
        _ ≤ 2 ^ n := Nat.pow_le_pow_right (by omega) hn
    omega
  simp only [bitsFor, h1, if_false]
  have hlt : (2 ^ n - 1).log2 < n := (Nat.log2_lt h1).mpr (by have := Nat.two_pow_pos n; omega)
  have hge : ¬ (2 ^ n - 1).log2 < n - 1 := by
    rw [Nat.log2_lt h1]
    have : 2 ^ n = 2 * 2 ^ (n - 1) := by
      rw [← Nat.pow_succ']; congr 1; omega
    have := Nat.two_pow_pos (n - 1)
    omega
  omega

/-- For a power-of-two depth that the bus address can reach, the decoded word index is `adr mod depth`. -/
theorem idx_pow2 (n : Nat) (hdepth : c.depth = 2 ^ n) (haw : n ≤ c.aw) (a : Nat) : c.idx a = a % c.depth := by
  unfold SramCfg.idx SramCfg.abits
  rw [hdepth]
  cases n with
  | zero =>
    simp [bitsFor, Nat.mod_one]
  | succ n =>
    rw [bitsFor_pow2 _ (Nat.succ_pos n), Nat.min_eq_left haw]
    have := Nat.mod_lt a (Nat.two_pow_pos (n + 1))
    omega

end Sram
end Litex.WbMem
