import LitexModel.Wishbone.SramBus
import LitexProofs.Mem
/-
  Generic facts for the C07 refinement proofs:
  * list/lane helpers (`window`, `writeLanes`, `readLanes`, `selNone`),
  * `Consistent` over concatenated histories,
  * the induction principle `refines_of_inv`: a relation between machine state, the request the master is
    holding and the abstract byte memory that is preserved by every cycle yields flat-memory consistency of
    the complete history of completed bus cycles, for every input sequence of a protocol-following master.
-/
namespace Litex.WbMem
open Litex

/-! ### lanes -/

theorem getD_eq_getElem {α : Type} (l : List α) (i : Nat) (d : α) (h : i < l.length) : l.getD i d = l[i] := by
  simp [List.getD_eq_getElem?_getD, List.getElem?_eq_getElem h]

@[simp] theorem window_length {α : Type} (l : List α) (d : α) (off n : Nat) : (window l d off n).length = n := by
  simp [window]

theorem window_getD {α : Type} (l : List α) (d : α) (off n k : Nat) (h : k < n) :
    (window l d off n).getD k d = l.getD (off + k) d := by
  simp [window, List.getD_eq_getElem?_getD, h]

theorem window_getD_ge {α : Type} (l : List α) (d : α) (off n k : Nat) (h : n ≤ k) :
    (window l d off n).getD k d = d := by
  rw [Mem.getD_of_length_le]; simpa using h

theorem take_getD {α : Type} (l : List α) (d : α) (n k : Nat) :
    (l.take n).getD k d = if k < n then l.getD k d else d := by
  simp only [List.getD_eq_getElem?_getD, List.getElem?_take]
  split <;> simp

theorem selNone_iff (sel : List Bool) (n : Nat) : selNone sel n = true ↔ ∀ k, k < n → sel.getD k false = false := by
  simp [selNone, List.all_eq_true]

@[simp] theorem writeLanes_length (st : List Byte) (base : Nat) (sel : List Bool) (dat : List Byte) (n : Nat) :
    (writeLanes st base sel dat n).length = st.length := by
  induction n with
  | zero => rfl
  | succ n ih => simp only [writeLanes]; split <;> simp [ih]

theorem writeLanes_getD (st : List Byte) (base : Nat) (sel : List Bool) (dat : List Byte) (n a : Nat) :
    (writeLanes st base sel dat n).getD a 0 =
      if base ≤ a ∧ a < base + n ∧ sel.getD (a - base) false = true ∧ a < st.length then dat.getD (a - base) 0
      else st.getD a 0 := by
  induction n with
  | zero =>
    have : ¬ (base ≤ a ∧ a < base + 0 ∧ sel.getD (a - base) false = true ∧ a < st.length) := by
      intro ⟨x, y, _, _⟩; omega
    simp only [writeLanes]; rw [if_neg this]
  | succ n ih =>
    simp only [writeLanes]
    by_cases hs : sel.getD n false = true
    · simp only [hs, if_true]
      rw [List.getD_eq_getElem?_getD, List.getElem?_set]
      by_cases hEq : base + n = a
      · subst hEq
        simp only [if_true, writeLanes_length, Nat.add_sub_cancel_left, hs, Nat.le_add_right, true_and]
        by_cases hl : base + n < st.length
        · simp [hl]
        · have : st.length ≤ base + n := by omega
          simp [hl, List.getElem?_eq_none this]
      · simp only [hEq, if_false]
        rw [← List.getD_eq_getElem?_getD, ih]
        by_cases h1 : base ≤ a ∧ a < base + n ∧ sel.getD (a - base) false = true ∧ a < st.length
        · have h2 : base ≤ a ∧ a < base + (n + 1) ∧ sel.getD (a - base) false = true ∧ a < st.length := by
            obtain ⟨x, y, z, w⟩ := h1; exact ⟨x, by omega, z, w⟩
          rw [if_pos h1, if_pos h2]
        · have h2 : ¬ (base ≤ a ∧ a < base + (n + 1) ∧ sel.getD (a - base) false = true ∧ a < st.length) := by
            intro ⟨x, y, z, w⟩; exact h1 ⟨x, by omega, z, w⟩
          rw [if_neg h1, if_neg h2]
    · have hs' : sel.getD n false = false := by simpa using hs
      simp only [hs', Bool.false_eq_true, if_false]
      rw [ih]
      by_cases hEq : base + n = a
      · subst hEq
        have h1 : ¬ (base ≤ base + n ∧ base + n < base + n ∧ sel.getD (base + n - base) false = true ∧ base + n < st.length) := by
          intro ⟨_, y, _, _⟩; omega
        have h2 : ¬ (base ≤ base + n ∧ base + n < base + (n + 1) ∧ sel.getD (base + n - base) false = true ∧ base + n < st.length) := by
          intro ⟨_, _, z, _⟩; rw [Nat.add_sub_cancel_left, hs'] at z; cases z
        rw [if_neg h1, if_neg h2]
      · by_cases h1 : base ≤ a ∧ a < base + n ∧ sel.getD (a - base) false = true ∧ a < st.length
        · have h2 : base ≤ a ∧ a < base + (n + 1) ∧ sel.getD (a - base) false = true ∧ a < st.length := by
            obtain ⟨x, y, z, w⟩ := h1; exact ⟨x, by omega, z, w⟩
          rw [if_pos h1, if_pos h2]
        · have h2 : ¬ (base ≤ a ∧ a < base + (n + 1) ∧ sel.getD (a - base) false = true ∧ a < st.length) := by
            intro ⟨x, y, z, w⟩; exact h1 ⟨x, by omega, z, w⟩
          rw [if_neg h1, if_neg h2]

/-- Writing `n` lanes inside the store is the specification's masked write. -/
theorem ofList_writeLanes (st : List Byte) (base : Nat) (sel : List Bool) (dat : List Byte) (n : Nat)
    (h : base + n ≤ st.length) :
    Mem.ofList (writeLanes st base sel dat n) = (Mem.ofList st).writeMasked base (sel.take n) dat := by
  funext a
  simp only [Mem.ofList, writeLanes_getD, Mem.writeMasked_apply, take_getD]
  by_cases h1 : base ≤ a ∧ a < base + n ∧ sel.getD (a - base) false = true ∧ a < st.length
  · obtain ⟨x, y, z, w⟩ := h1
    have : a - base < n := by omega
    simp [x, y, z, w, this]
  · rw [if_neg h1]
    by_cases h2 : a - base < n
    · have : ¬ (base ≤ a ∧ sel.getD (a - base) false = true) := by
        intro ⟨x, z⟩; exact h1 ⟨x, by omega, z, by omega⟩
      simp only [h2, if_true]; rw [if_neg this]
    · simp [h2]

theorem readLanes_getD (st : List Byte) (idx nb k : Nat) (h : k < nb) :
    (readLanes st idx nb).getD k 0 = Mem.ofList st (idx * nb + k) := by
  unfold readLanes Mem.ofList; rw [window_getD _ _ _ _ _ h]

/-! ### histories -/

theorem applyOps_append (nb : Nat) (m : Mem) (a b : List Op) :
    applyOps nb m (a ++ b) = applyOps nb (applyOps nb m a) b := by
  induction a generalizing m with
  | nil => rfl
  | cons op rest ih => simp [applyOps, ih]

theorem consistent_append (nb : Nat) (m : Mem) (a b : List Op) :
    Consistent nb m (a ++ b) ↔ Consistent nb m a ∧ Consistent nb (applyOps nb m a) b := by
  induction a generalizing m with
  | nil => simp [Consistent, applyOps]
  | cons op rest ih =>
    simp only [List.cons_append, Consistent, applyOps]
    split
    · exact ih _
    · rw [ih]; exact and_assoc.symm

theorem consistent_single (nb : Nat) (m : Mem) (op : Op) :
    Consistent nb m [op] ↔ (op.we = false → op.readOk nb m) := by
  simp only [Consistent]
  cases h : op.we <;> simp

/-- What one cycle must establish for the refinement argument: acknowledges only go to presented strobes, a
    completing read returns the abstract memory's bytes, and the relation is re-established for the memory
    updated by the completing cycle (`keep` filters the operations that count: everything for a read/write
    memory, reads only for a read-only one). -/
def StepOk {ω τ : Type} (m : Slave ω τ) (f : Nat → Nat) (nb : Nat) (keep : Op → Bool)
    (Inv : τ → Option Req → Mem → Prop) (s : τ) (i : Req × ω) (M : Mem) : Prop :=
  ((m.out s i).ack = true → i.1.active = true) ∧
  Consistent nb M ((opNow m f s i).filter keep) ∧
  Inv (m.next s i) (pendingAfter m s i) (applyOps nb M ((opNow m f s i).filter keep))

/-- **Refinement principle.**  If `Inv` (relating machine state, the request the master is holding, and the
    abstract byte memory) is preserved by every cycle in which the master honours the hold rule and presents an
    input allowed by `P`, then for *every* input sequence of a protocol-following master the completed bus
    cycles form a history of a flat byte memory, and no acknowledge is ever given without a strobe. -/
theorem refines_of_inv {ω τ : Type} (m : Slave ω τ) (f : Nat → Nat) (nb : Nat) (keep : Op → Bool)
    (P : Req × ω → Prop) (Inv : τ → Option Req → Mem → Prop)
    (hstep : ∀ s p M i, Inv s p M → (∀ r, p = some r → i.1 = r) → P i → StepOk m f nb keep Inv s i M) :
    ∀ (ins : List (Req × ω)) (s : τ) (p : Option Req) (M : Mem), Inv s p M → ClassicFrom m s p ins →
      (∀ i ∈ ins, P i) →
      Consistent nb M ((opsFrom m f s ins).filter keep) ∧ AckOnlyStrobedFrom m s ins := by
  intro ins
  induction ins with
  | nil => intro s p M _ _ _; simp [opsFrom, Consistent, AckOnlyStrobedFrom]
  | cons i is ih =>
    intro s p M hinv hcl hP
    obtain ⟨hhold, hrest⟩ := hcl
    obtain ⟨hack, hcons, hnext⟩ := hstep s p M i hinv hhold (hP i (List.mem_cons_self ..))
    obtain ⟨h1, h2⟩ := ih _ _ _ hnext hrest (fun j hj => hP j (List.mem_cons_of_mem _ hj))
    refine ⟨?_, hack, h2⟩
    simp only [opsFrom, List.filter_append]
    rw [consistent_append]
    exact ⟨hcons, h1⟩

end Litex.WbMem

namespace Litex.WbMem
open Litex

/-- A history of reads only is consistent iff every read returned the memory content. -/
theorem consistent_reads (nb : Nat) (m : Mem) (l : List Op) (h : ∀ op ∈ l, op.we = false) :
    Consistent nb m l ↔ ∀ op ∈ l, op.readOk nb m := by
  induction l with
  | nil => simp [Consistent]
  | cons op rest ih =>
    have h1 : op.we = false := h op (List.mem_cons_self ..)
    have h2 := ih (fun o ho => h o (List.mem_cons_of_mem _ ho))
    simp only [Consistent, h1, Bool.false_eq_true, if_false, h2, List.mem_cons, forall_eq_or_imp]

/-! ### Decidability of the protocol predicates on concrete runs (used by the non-vacuity examples) -/

instance decHold (p : Option Req) (x : Req) : Decidable (∀ r, p = some r → x = r) :=
  match p with
  | none => isTrue (by intro r h; cases h)
  | some r0 =>
    if h : x = r0 then isTrue (by intro r hr; cases hr; exact h)
    else isFalse (fun hh => h (hh r0 rfl))

instance decClassicFrom {ω τ : Type} (m : Slave ω τ) : (s : τ) → (p : Option Req) → (ins : List (Req × ω)) →
    Decidable (ClassicFrom m s p ins)
  | _, _, [] => isTrue trivial
  | s, p, i :: is =>
    match decHold p i.1, decClassicFrom m (m.next s i) (pendingAfter m s i) is with
    | isTrue h1, isTrue h2 => isTrue ⟨h1, h2⟩
    | isFalse h1, _ => isFalse (fun h => h1 h.1)
    | _, isFalse h2 => isFalse (fun h => h2 h.2)

instance decClassic {ω τ : Type} (m : Slave ω τ) (ins : List (Req × ω)) : Decidable (Classic m ins) :=
  decClassicFrom m m.init none ins

end Litex.WbMem

namespace Litex.WbMem
open Litex

/-! ### The refinement interface: what it means for a slave to implement a byte memory

  `Refines sl f nb P Inv`: every cycle of `sl` (for inputs allowed by `P`, master honouring the hold rule)
  preserves `Inv` and completes bus cycles consistently with the abstract byte memory.  Adapters are proved
  against this interface (`Refines slave → Refines (adapter.over slave)`), so refinements compose along any
  chain master → adapter → … → memory. -/
def Refines {ω τ : Type} (sl : Slave ω τ) (f : Nat → Nat) (nb : Nat) (P : Req × ω → Prop)
    (Inv : τ → Option Req → Mem → Prop) : Prop :=
  ∀ s p M i, Inv s p M → (∀ r, p = some r → i.1 = r) → P i → StepOk sl f nb (fun _ => true) Inv s i M

section
variable {ω τ : Type} {sl : Slave ω τ} {f : Nat → Nat} {nb : Nat} {Inv : τ → Option Req → Mem → Prop}
  {s : τ} {i : Req × ω} {M : Mem}

theorem StepOk.ack_active (h : StepOk sl f nb (fun _ => true) Inv s i M) (ha : (sl.out s i).ack = true) :
    i.1.active = true := h.1 ha

/-- A cycle without acknowledge: the abstract memory is unchanged and the presented strobe stays outstanding. -/
theorem StepOk.no_ack (h : StepOk sl f nb (fun _ => true) Inv s i M) (hn : (sl.out s i).ack = false) :
    Inv (sl.next s i) (if i.1.active then some i.1 else none) M := by
  have h3 := h.2.2
  have hop : opNow sl f s i = [] := by simp [opNow, hn]
  rw [hop] at h3
  simpa [pendingAfter, hn, applyOps] using h3

/-- A cycle with acknowledge: the strobe was presented, a read returned the abstract memory's bytes on the
    selected lanes, and the abstract memory takes the masked write. -/
theorem StepOk.ack (h : StepOk sl f nb (fun _ => true) Inv s i M) (ha : (sl.out s i).ack = true) :
    (i.1.we = false → ∀ k, k < nb → i.1.sel.getD k false = true →
        (sl.out s i).dat.getD k 0 = M (f i.1.adr * nb + k)) ∧
    Inv (sl.next s i) none (if i.1.we then M.writeMasked (f i.1.adr * nb) (i.1.sel.take nb) i.1.dat else M) := by
  have hact := h.1 ha
  have hop : opNow sl f s i =
      [{ adr := f i.1.adr, we := i.1.we, sel := i.1.sel, dat := if i.1.we then i.1.dat else (sl.out s i).dat }] := by
    simp [opNow, ha, hact]
  obtain ⟨_, h2, h3⟩ := h
  rw [hop] at h2 h3
  simp only [List.filter_cons_of_pos, List.filter_nil] at h2 h3
  rw [consistent_single] at h2
  refine ⟨?_, ?_⟩
  · intro hwe k hk hsel
    have := h2 hwe k hk hsel
    simpa [hwe] using this
  · have hp : pendingAfter sl s i = none := by simp [pendingAfter, ha]
    rw [hp] at h3
    simp only [applyOps] at h3
    cases hwe : i.1.we
    · simpa [hwe] using h3
    · simp only [hwe, if_true] at h3 ⊢; exact h3

end

/-- Building `StepOk` for a cycle without acknowledge. -/
theorem StepOk.mk_no_ack {ω τ : Type} (sl : Slave ω τ) (f : Nat → Nat) (nb : Nat) (Inv : τ → Option Req → Mem → Prop)
    (s : τ) (i : Req × ω) (M : Mem) (hn : (sl.out s i).ack = false)
    (hinv : Inv (sl.next s i) (if i.1.active then some i.1 else none) M) :
    StepOk sl f nb (fun _ => true) Inv s i M := by
  have hop : opNow sl f s i = [] := by simp [opNow, hn]
  refine ⟨(by rw [hn]; intro h; cases h), (by rw [hop]; simp [Consistent]), ?_⟩
  rw [hop]
  simpa [pendingAfter, hn, applyOps] using hinv

/-- Building `StepOk` for a cycle with acknowledge. -/
theorem StepOk.mk_ack {ω τ : Type} (sl : Slave ω τ) (f : Nat → Nat) (nb : Nat) (Inv : τ → Option Req → Mem → Prop)
    (s : τ) (i : Req × ω) (M : Mem) (ha : (sl.out s i).ack = true) (hact : i.1.active = true)
    (hread : i.1.we = false → ∀ k, k < nb → i.1.sel.getD k false = true →
        (sl.out s i).dat.getD k 0 = M (f i.1.adr * nb + k))
    (hinv : Inv (sl.next s i) none (if i.1.we then M.writeMasked (f i.1.adr * nb) (i.1.sel.take nb) i.1.dat else M)) :
    StepOk sl f nb (fun _ => true) Inv s i M := by
  have hop : opNow sl f s i =
      [{ adr := f i.1.adr, we := i.1.we, sel := i.1.sel, dat := if i.1.we then i.1.dat else (sl.out s i).dat }] := by
    simp [opNow, ha, hact]
  refine ⟨fun _ => hact, ?_, ?_⟩
  · rw [hop]
    simp only [List.filter_cons_of_pos, List.filter_nil]
    rw [consistent_single]
    intro hwe k hk hsel
    simp only at hwe
    have := hread hwe k hk hsel
    simpa [hwe] using this
  · rw [hop]
    have hp : pendingAfter sl s i = none := by simp [pendingAfter, ha]
    rw [hp]
    simp only [List.filter_cons_of_pos, List.filter_nil, applyOps]
    cases hwe : i.1.we
    · simpa [hwe] using hinv
    · simp only [hwe, if_true] at hinv ⊢; exact hinv

/-- The abstract slave implements its own memory, for every latency oracle. -/
theorem latMem_refines (nb : Nat) (M0 : Mem) :
    Refines (latMem nb M0) id nb (fun _ => True) (fun t _ M => t = M) := by
  intro t p M i hinv _ _
  subst hinv
  obtain ⟨r, o⟩ := i
  have hackEq : ((latMem nb M0).out t (r, o)).ack = (r.active && o.ack) := rfl
  cases hack : (r.active && o.ack) with
  | false =>
    apply StepOk.mk_no_ack _ _ _ _ _ _ _ (by rw [hackEq, hack])
    show (if (r.active && o.ack && r.we) = true then _ else t) = t
    rw [hack]; rfl
  | true =>
    have hact : r.active = true := by cases h1 : r.active <;> simp_all
    apply StepOk.mk_ack _ _ _ _ _ _ _ (by rw [hackEq, hack]) hact
    · intro _ k hk hsel
      show ((List.range nb).map fun k => if r.sel.getD k false then t (r.adr * nb + k) else o.junk.getD k 0).getD k 0 = _
      rw [List.getD_eq_getElem?_getD, List.getElem?_map, List.getElem?_range hk]
      simp only [Option.map_some, Option.getD_some]
      simp only at hsel
      rw [hsel]; rfl
    · show (if (r.active && o.ack && r.we) = true then _ else t) = _
      rw [hack]
      cases r.we <;> rfl

/-- From the per-cycle interface to whole runs (the statement the property makes). -/
theorem Refines.run {ω τ : Type} {sl : Slave ω τ} {f : Nat → Nat} {nb : Nat} {P : Req × ω → Prop}
    {Inv : τ → Option Req → Mem → Prop} (h : Refines sl f nb P Inv) (M0 : Mem) (h0 : Inv sl.init none M0)
    (ins : List (Req × ω)) (hm : Classic sl ins) (hP : ∀ i ∈ ins, P i) :
    Consistent nb M0 (ops sl f ins) ∧ AckOnlyStrobed sl ins := by
  have := refines_of_inv sl f nb (fun _ => true) P Inv h ins sl.init none M0 h0 hm hP
  have hk : (opsFrom sl f sl.init ins).filter (fun _ => true) = opsFrom sl f sl.init ins :=
    List.filter_eq_self.mpr (fun _ _ => rfl)
  rw [hk] at this
  exact this

end Litex.WbMem

namespace Litex.WbMem
open Litex

/-- Restricting the inputs (and renaming the address decoding where it agrees on them) keeps a refinement. -/
theorem Refines.restrict {ω τ : Type} {sl : Slave ω τ} {f : Nat → Nat} {nb : Nat} {P : Req × ω → Prop}
    {Inv : τ → Option Req → Mem → Prop} (h : Refines sl f nb P Inv) (P' : Req × ω → Prop) (f' : Nat → Nat)
    (hPf : ∀ i, P' i → P i ∧ f' i.1.adr = f i.1.adr) : Refines sl f' nb P' Inv := by
  intro s p M i hinv hhold hP'
  obtain ⟨hPi, hf⟩ := hPf i hP'
  have hs := h s p M i hinv hhold hPi
  have hop : opNow sl f' s i = opNow sl f s i := by simp [opNow, hf]
  unfold StepOk at hs ⊢
  rw [hop]; exact hs

end Litex.WbMem
