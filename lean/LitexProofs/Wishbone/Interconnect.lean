import LitexModel.Wishbone.Interconnect
import LitexProofs.RoundRobin
/-
  Helper lemmas for the Wishbone interconnect models (used by `LitexProps/C06.lean`; C11 builds its timeout
  theorems on the same definitions).
-/
namespace Litex.Wishbone
open Litex

/-! ### OR-reductions -/

theorem orAll_true {m : Nat} {f : Nat → Bool} : orAll m f = true ↔ ∃ j, j < m ∧ f j = true := by
  induction m with
  | zero => simp [orAll]
  | succ k ih =>
    simp only [orAll, Bool.or_eq_true, ih]
    constructor
    · rintro (⟨j, hj, h⟩ | h)
      · exact ⟨j, by omega, h⟩
      · exact ⟨k, by omega, h⟩
    · rintro ⟨j, hj, h⟩
      by_cases hjk : j = k
      · subst hjk; exact Or.inr h
      · exact Or.inl ⟨j, by omega, h⟩

theorem orAll_false {m : Nat} {f : Nat → Bool} : orAll m f = false ↔ ∀ j, j < m → f j = false := by
  rw [← Bool.not_eq_true, orAll_true]
  constructor
  · intro h j hj
    cases hf : f j
    · rfl
    · exact absurd ⟨j, hj, hf⟩ h
  · rintro h ⟨j, hj, hf⟩
    rw [h j hj] at hf
    exact absurd hf (by simp)

/-- If at most slave `k` can contribute, the OR over all slaves is slave `k`'s bit. -/
theorem orAll_unique {m k : Nat} {f : Nat → Bool} (hk : k < m) (h : ∀ j, j < m → j ≠ k → f j = false) :
    orAll m f = f k := by
  cases hf : f k
  · rw [orAll_false]
    intro j hj
    by_cases hjk : j = k
    · subst hjk; exact hf
    · exact h j hj hjk
  · rw [orAll_true]; exact ⟨k, hk, hf⟩

theorem orDat_zero {m : Nat} {f : Nat → Nat} (h : ∀ j, j < m → f j = 0) : orDat m f = 0 := by
  induction m with
  | zero => rfl
  | succ k ih =>
    simp only [orDat]
    rw [ih (fun j hj => h j (by omega)), h k (by omega)]
    rfl

/-- One-hot mux: if only slave `k` contributes, the OR is slave `k`'s word. -/
theorem orDat_unique {m k : Nat} {f : Nat → Nat} (hk : k < m) (h : ∀ j, j < m → j ≠ k → f j = 0) :
    orDat m f = f k := by
  induction m with
  | zero => omega
  | succ n ih =>
    simp only [orDat]
    by_cases hkn : k = n
    · subst hkn
      rw [orDat_zero (fun j hj => h j (by omega) (by omega))]
      exact Nat.zero_or _
    · rw [ih (by omega) (fun j hj hne => h j (by omega) hne), h n (by omega) (fun h => hkn h.symm)]
      exact Nat.or_zero _

/-! ### Side conditions the theorems name -/

/-- The address predicates of the `m` slaves are pairwise disjoint (what `SoCBusHandler` guarantees for
    non-overlapping regions, see C13). -/
def DisjointDec (m : Nat) (dec : Nat → Nat → Bool) : Prop :=
  ∀ a j k, j < m → k < m → dec j a = true → dec k a = true → j = k

/-- A slave terminates a cycle (`ack` or `err`). -/
def sTerm (x : BusIn) (j : Nat) : Bool := (x.ss j).ack || (x.ss j).err
/-- A master sees a termination. -/
def mTerm (o : BusOut) (i : Nat) : Bool := (o.toM i).ack || (o.toM i).err

/-- Environment assumption on the slaves in one cycle: a slave answers only a strobe presented to it. -/
def SlavesBehaved (m : Nat) (o : BusOut) (x : BusIn) : Prop :=
  ∀ j, j < m → sTerm x j = true → (o.toS j).cyc = true ∧ (o.toS j).stb = true

/-! ### Shared-bus address width -/

theorem foldl_max_ge (l : List Nat) : ∀ init, init ≤ l.foldl max init ∧ ∀ w ∈ l, w ≤ l.foldl max init := by
  induction l with
  | nil => intro init; simp
  | cons a rest ih =>
    intro init
    have h := ih (max init a)
    simp only [List.foldl_cons, List.mem_cons]
    refine ⟨by have := h.1; omega, ?_⟩
    rintro w (rfl | hw)
    · have := h.1; omega
    · exact h.2 w hw

/-- The shared bus is at least as wide as every master (`max([m.adr_width …])`): an address that fits its
    master's `adr_width` travels unchanged. -/
theorem ShCfg.busAdr_of_fits (c : ShCfg) (w a : Nat) (hw : w ∈ c.aws) (ha : a < 2 ^ w) : c.busAdr a = a := by
  unfold ShCfg.busAdr ShCfg.busWidth
  have hne : c.aws.isEmpty = false := by
    cases h : c.aws with
    | nil => rw [h] at hw; simp at hw
    | cons _ _ => rfl
  simp only [hne, Bool.false_eq_true, if_false]
  apply Nat.mod_eq_of_lt
  have := (foldl_max_ge c.aws 0).2 w hw
  exact Nat.lt_of_lt_of_le ha (Nat.pow_le_pow_right (by omega) this)

theorem ShCfg.busAdr_unbounded (c : ShCfg) (a : Nat) (h : c.aws = []) : c.busAdr a = a := by
  simp [ShCfg.busAdr, ShCfg.busWidth, h]

/-! ### Shared interconnect: reachable-state invariant -/

namespace Shared
variable (c : ShCfg)

/-- The grant is a valid master index (in every reachable state, for `n > 0`). -/
theorem grant_lt_next (s : ShState) (x : BusIn) (h : s.grant < c.n) : (next c s x).grant < c.n :=
  RoundRobin.next_lt .withdraw (fun i => (x.ms i).cyc) true h

theorem grant_lt_run (hn : 0 < c.n) (ins : List BusIn) : ((machine c).run ins).grant < c.n := by
  unfold Machine.run
  exact Machine.invariant_runFrom (machine c) (fun s => s.grant < c.n) (fun s x h => grant_lt_next c s x h) ins
    (init c) hn

theorem grant_lt_runFrom (s : ShState) (h : s.grant < c.n) (ins : List BusIn) :
    ((machine c).runFrom s ins).grant < c.n :=
  Machine.invariant_runFrom (machine c) (fun s => s.grant < c.n) (fun s x h => grant_lt_next c s x h) ins s h

/-- Registered select after a step = the decode of the address that was on the bus in that step. -/
theorem selR_next (hreg : c.reg = true) (s : ShState) (x : BusIn) (j : Nat) (hj : j < c.m) :
    (next c s x).selR.getD j false = sel c s x j := by
  simp [next, hreg, hj]

/-- Request vectors seen by the arbiter along a run. -/
def reqs (ins : List BusIn) : List ((Nat → Bool) × Bool) := ins.map fun x => ((fun i => (x.ms i).cyc), true)

theorem run_grant (s : ShState) (ins : List BusIn) :
    ((machine c).runFrom s ins).grant = RoundRobin.run .withdraw c.n s.grant (reqs ins) := by
  induction ins generalizing s with
  | nil => rfl
  | cons x rest ih =>
    simp only [Machine.runFrom, reqs, List.map_cons, RoundRobin.run]
    rw [ih]
    rfl

end Shared

/-! ### Crossbar -/

namespace Crossbar
variable (c : XbCfg)

theorem grant_next (s : XbState) (x : BusIn) (j : Nat) (hj : j < c.m) :
    grant (next c s x) j = RoundRobin.next .withdraw c.n (grant s j) (colReq c x j) := by
  simp [grant, next, hj]

/-- Every column grant is a valid master index. -/
def GrantsOk (s : XbState) : Prop := ∀ j, j < c.m → grant s j < c.n

theorem grantsOk_next (s : XbState) (x : BusIn) (h : GrantsOk c s) : GrantsOk c (next c s x) := by
  intro j hj
  rw [grant_next c s x j hj]
  exact RoundRobin.next_lt .withdraw (colReq c x j) true (h j hj)

theorem grantsOk_init (hn : 0 < c.n) : GrantsOk c (init c) := by
  intro j hj
  simp [grant, init, hj, hn]

theorem grantsOk_run (hn : 0 < c.n) (ins : List BusIn) : GrantsOk c ((machine c).run ins) := by
  unfold Machine.run
  exact Machine.invariant_runFrom (machine c) (GrantsOk c) (fun s x h => grantsOk_next c s x h) ins
    (init c) (grantsOk_init c hn)

theorem grantsOk_runFrom (s : XbState) (h : GrantsOk c s) (ins : List BusIn) :
    GrantsOk c ((machine c).runFrom s ins) :=
  Machine.invariant_runFrom (machine c) (GrantsOk c) (fun s x h => grantsOk_next c s x h) ins s h

theorem selR_next (hreg : c.reg = true) (s : XbState) (x : BusIn) (i j : Nat) (hi : i < c.n) (hj : j < c.m) :
    ((next c s x).selR.getD i []).getD j false = sel c x i j := by
  simp [next, hreg, hi, hj]

/-- Request vectors seen by the arbiter of column `j` along a run. -/
def reqs (j : Nat) (ins : List BusIn) : List ((Nat → Bool) × Bool) := ins.map fun x => (colReq c x j, true)

theorem run_grant (j : Nat) (hj : j < c.m) (s : XbState) (ins : List BusIn) :
    grant ((machine c).runFrom s ins) j = RoundRobin.run .withdraw c.n (grant s j) (reqs c j ins) := by
  induction ins generalizing s with
  | nil => rfl
  | cons x rest ih =>
    simp only [Machine.runFrom, reqs, List.map_cons, RoundRobin.run]
    rw [ih]
    simp only [machine]
    rw [grant_next c s x j hj]
    rfl

end Crossbar

end Litex.Wishbone
