import LitexProofs.Wishbone.Conv
import LitexProofs.Wishbone.SramBurst
/-
  `wishbone.DownConverter` in front of a burst-capable slave, driven by a burst master:
  linear bursts (`bte = 0`) are forwarded as one long linear burst of sub-words (`cti = 2` on every sub-word,
  `cti = 7` on the last sub-word of the last beat); wrapping bursts are degraded to classic sub-word cycles by
  the guard `If(master.bte != 0, slave.cti.eq(CTI_BURST_NONE))`.  Refinement relation indexed by the burst
  obligations (`Expect`) on both ports.
-/
namespace Litex.WbMem
open Litex

/-! ### facts about the obligation automaton -/

theorem burstAdr_linear (a0 k : Nat) : burstAdr a0 0 k = a0 + k := by simp [burstAdr, wrapBits]

theorem Expect.next_inactive (e : Expect) (r : Req) (ack : Bool) (h : r.active = false) : e.next r ack = .free := by
  simp [Expect.next, h]

theorem Expect.next_noack (e : Expect) (r : Req) (h : r.active = true) : e.next r false = .hold r := by
  simp [Expect.next, h]

theorem Expect.next_ack_end (e : Expect) (r : Req) (h : r.active = true) (hc : r.cti ≠ 2) : e.next r true = .free := by
  simp [Expect.next, h, hc]

/-- After an acknowledged incrementing beat the burst goes on; on a linear burst the next address is `adr + 1`. -/
theorem Expect.next_ack_burst (mw : Bool) (e : Expect) (r : Req) (h : r.active = true) (hc : r.cti = 2)
    (hall : e.allows mw r) :
    ∃ a0 k, e.next r true = .cont a0 r.we r.bte k ∧ (r.bte = 0 → a0 + k = r.adr + 1) := by
  cases e with
  | free => exact ⟨r.adr, 1, by simp [Expect.next, h, hc], fun _ => rfl⟩
  | hold r0 => exact ⟨r.adr, 1, by simp [Expect.next, h, hc], fun _ => rfl⟩
  | cont a0 we bte k =>
    obtain ⟨_, hadr, hwe, hbte, _, _⟩ := hall
    refine ⟨a0, k + 1, by simp [Expect.next, h, hc, hwe, hbte], ?_⟩
    intro hb
    rw [hadr, ← hbte, hb, burstAdr_linear]; omega

namespace Down
variable (c : DownCfg)

/-- What the slave port is owed while the master holds `r` with `s.count` sub-words done: nothing, the
    sub-word request presented last cycle, or the continuation of the linear sub-word burst. -/
def SlaveExp (s : DownState) (r : Req) (eS : Expect) : Prop :=
  eS = .free ∨ eS = .hold (toSlave c s r) ∨
  ∃ a0 j, eS = .cont a0 r.we 0 j ∧ a0 + j = s.count + c.ratio * r.adr ∧ r.bte = 0 ∧ (r.cti = 2 ∨ r.cti = 7)

/-- Link between the master's obligation, the converter state and the slave's obligation. -/
def Link (g : Nat → Nat) (s : DownState) (eM eS : Expect) (Ms M : Mem) : Prop :=
  match eM with
  | .free => s.count = 0 ∧ eS = .free ∧ Ms = M
  | .hold r => r.active = true ∧ Serving c g s Ms r M ∧ SlaveExp c s r eS
  | .cont a0 we bte k => s.count = 0 ∧ Ms = M ∧
      (if bte = 0 then ∃ aS j, eS = .cont aS we 0 j ∧ aS + j = c.ratio * (a0 + k) else eS = .free)

theorem scti_cases (s : DownState) (r : Req) :
    scti c s r = if r.bte ≠ 0 then 0 else if r.cti = 2 then 2 else if r.cti = 7 then (if done c s then 7 else 2) else 0 := rfl

theorem scti_burst (s : DownState) (r : Req) (hb : r.bte = 0) (hc : r.cti = 2 ∨ r.cti = 7) :
    scti c s r = 2 ∨ (scti c s r = 7 ∧ done c s = true ∧ r.cti = 7) := by
  rw [scti_cases]
  rcases hc with h | h
  · left; simp [hb, h]
  · cases hd : done c s
    · left; simp [hb, h]
    · right; simp [hb, h]

/-- The slave's obligation is met by the request the converter presents. -/
theorem slave_allows (s : DownState) (r : Req) (eS : Expect) (hact : r.active = true) (h : SlaveExp c s r eS) :
    eS.allows true (toSlave c s r) := by
  rcases h with h | h | ⟨a0, j, h, hsum, hb, hc⟩
  · subst h; trivial
  · subst h; rfl
  · subst h
    have hs := scti_burst c s r hb hc
    have hne : scti c s r ≠ 0 := by rcases hs with h | h <;> omega
    have hskip : skip c s r = false := by
      simp only [skip, Bool.and_eq_false_iff, beq_eq_false_iff_ne]; right; exact hne
    refine ⟨?_, ?_, ?_, rfl, ?_, ?_⟩
    · rw [toSlave_active, hact, hskip]; rfl
    · rw [burstAdr_linear, hsum]; rfl
    · simp [toSlave, hact]
    · show scti c s r = 2 ∨ scti c s r = 7
      rcases hs with h | h
      · left; exact h
      · right; exact h.1
    · intro _ _ hw; simp [wrapBits] at hw

section Over
variable {ω τ : Type} (sl : Slave ω τ) (f g : Nat → Nat) (InvS : τ → Expect → Mem → Prop)

/-- Refinement relation of the converter over a burst-capable slave. -/
def BInvD (st : DownState × τ) (eM : Expect) (M : Mem) : Prop :=
  st.1.count < c.ratio ∧ ∃ Ms eS, InvS st.2 eS Ms ∧ Link c g st.1 eM eS Ms M

/-- After the slave acknowledged a sub-word: its new obligation, in terms of the next sub-word address. -/
theorem slave_next_ack (s : DownState) (r : Req) (eS : Expect) (hact : r.active = true)
    (hsa : (toSlave c s r).active = true) (hall : eS.allows true (toSlave c s r)) :
    (scti c s r = 2 → ∃ a0 j, eS.next (toSlave c s r) true = .cont a0 r.we 0 j ∧
        a0 + j = s.count + c.ratio * r.adr + 1) ∧
    (scti c s r ≠ 2 → eS.next (toSlave c s r) true = .free) := by
  refine ⟨?_, ?_⟩
  · intro h2
    obtain ⟨a0, j, hn, hsum⟩ := Expect.next_ack_burst true eS (toSlave c s r) hsa h2 hall
    have hwe : (toSlave c s r).we = r.we := by simp [toSlave, hact]
    have hbte : (toSlave c s r).bte = 0 := rfl
    rw [hwe, hbte] at hn
    exact ⟨a0, j, hn, hsum rfl⟩
  · intro h2
    exact Expect.next_ack_end eS _ hsa h2

/-- **DownConverter preserves burst refinement**: over a slave that implements a byte memory for burst masters,
    the converter implements one for burst masters too — wrapping bursts of *any* length included (the narrow
    slave only ever sees linear bursts and classic cycles). -/
theorem brefines (hfg : ∀ a k, k < c.ratio → f (k + c.ratio * a) = k + c.ratio * g a)
    (mw : Bool) (P : Req × ω → Prop) (PS : Req × ω → Prop)
    (hP : ∀ s r o, s.count < c.ratio → P (r, o) → PS (toSlave c s r, o))
    (hS : BRefines sl f c.nbs true PS InvS) :
    BRefines ((downConv c).over sl) g c.nbm mw P (BInvD c g InvS) := by
  intro st eM M i hinv hallM hPi
  obtain ⟨r, o⟩ := i
  obtain ⟨s, t⟩ := st
  obtain ⟨hcnt, Ms, eS, hSinv, hlink⟩ := hinv
  dsimp only at hcnt hSinv hlink hallM
  let sr := toSlave c s r
  let rsp := sl.out t (sr, o)
  have hout : ((downConv c).over sl).out (s, t) (r, o) = toMaster c s r rsp := rfl
  have hnext : ((downConv c).over sl).next (s, t) (r, o) = (next c s r rsp, sl.next t (sr, o)) := rfl
  have hsact : sr.active = (r.active && !skip c s r) := toSlave_active c s r
  cases hact : r.active with
  | false =>
    -- the master presents nothing: it owed nothing
    have hfree : eM = .free := by
      cases eM with
      | free => rfl
      | hold r0 => have : r = r0 := hallM; subst this; rw [hlink.1] at hact; cases hact
      | cont a0 we bte k => rw [hallM.1] at hact; cases hact
    subst hfree
    obtain ⟨hc0, heS, hMs⟩ := hlink
    subst heS hMs
    have hskip : skip c s r = false := by simp [skip, hact]
    have hsr : sr.active = false := by rw [hsact, hact]; rfl
    have hso := hS t .free Ms (sr, o) hSinv trivial (hP s r o hcnt hPi)
    have hsa : rsp.ack = false := by
      cases h : rsp.ack with
      | false => rfl
      | true => have := hso.ack_active h; rw [hsr] at this; cases this
    have hSnext := hso.no_ack hsa
    rw [Expect.next_inactive _ _ _ hsr] at hSnext
    have hm0 : mack c s r rsp = false := by simp [mack, hact]
    apply BStepOk'.mk_no_ack _ _ _ _ _ _ _ _ (by rw [hout]; exact hm0)
    rw [hnext, Expect.next_inactive _ _ _ hact]
    have hcount : (next c s r rsp).count = 0 := by
      simp only [next, hm0, hsa, hskip, Bool.and_false, Bool.or_false, Bool.false_or]
      split <;> simp [hc0]
    exact ⟨by rw [hcount]; exact ratio_pos c, Ms, .free, hSnext, hcount, rfl, rfl⟩
  | true =>
    obtain ⟨hcyc, hstb⟩ := active_split r hact
    -- unify the three shapes: `r` is being served with `count` sub-words done
    have hcur : Serving c g s Ms r M ∧ SlaveExp c s r eS := by
      cases eM with
      | free =>
        obtain ⟨hc0, heS, hMs⟩ := hlink
        subst heS hMs
        exact ⟨serving_of_idle c g s Ms r hc0, Or.inl rfl⟩
      | hold r0 => have : r = r0 := hallM; subst this; exact ⟨hlink.2.1, hlink.2.2⟩
      | cont a0 we bte k =>
        obtain ⟨hc0, hMs, hes⟩ := hlink
        obtain ⟨_, hadr, hwe, hbte, hcti, _⟩ := hallM
        subst hMs
        refine ⟨serving_of_idle c g s Ms r hc0, ?_⟩
        by_cases hb : bte = 0
        · simp only [hb, if_true] at hes
          obtain ⟨aS, j, he, hsum⟩ := hes
          right; right
          refine ⟨aS, j, by rw [he, hwe], ?_, by rw [hbte, hb], hcti⟩
          rw [hsum, hc0, hadr, hb, burstAdr_linear]; omega
        · simp only [hb, if_false] at hes
          exact Or.inl hes
    obtain ⟨hServ, hSE⟩ := hcur
    have hallS := slave_allows c s r eS hact hSE
    have hso := hS t eS Ms (sr, o) hSinv hallS (hP s r o hcnt hPi)
    have hmackEq : mack c s r rsp = ((rsp.ack || skip c s r) && done c s) := by simp [mack, hact]
    -- the master's new obligation after an acknowledge, and the slave's matching one
    have hfinish : ∀ (Ms' : Mem) (eS' : Expect) (M' : Mem), InvS (sl.next t (sr, o)) eS' Ms' → Ms' = M' →
        done c s = true → (scti c s r = 2 → ∃ a0 j, eS' = .cont a0 r.we 0 j ∧ a0 + j = s.count + c.ratio * r.adr + 1) →
        (scti c s r ≠ 2 → eS' = .free) →
        BInvD c g InvS ({ count := 0, datR := (next c s r rsp).datR }, sl.next t (sr, o)) (eM.next r true) M' := by
      intro Ms' eS' M' hS' hMs' hdn h2 hn2
      subst hMs'
      have hlast : s.count + 1 = c.ratio := by
        have : s.count = c.ratio - 1 := by simpa [done] using hdn
        have := ratio_pos c; omega
      refine ⟨ratio_pos c, Ms', eS', hS', ?_⟩
      by_cases hc2 : r.cti = 2
      · obtain ⟨a0', k', hn, hsum⟩ := Expect.next_ack_burst mw eM r hact hc2 hallM
        rw [hn]
        refine ⟨rfl, rfl, ?_⟩
        by_cases hb : r.bte = 0
        · simp only [hb, if_true]
          have hs2 : scti c s r = 2 := by rw [scti_cases]; simp [hb, hc2]
          obtain ⟨a0, j, he, hsj⟩ := h2 hs2
          refine ⟨a0, j, he, ?_⟩
          rw [hsj, hsum hb]
          have : s.count + c.ratio * r.adr + 1 = c.ratio * r.adr + (s.count + 1) := by omega
          rw [this, hlast]; ring
        · simp only [hb, if_false]
          apply hn2
          rw [scti_cases]; simp [hb]
      · rw [Expect.next_ack_end _ _ hact hc2]
        refine ⟨rfl, ?_, rfl⟩
        apply hn2
        rw [scti_cases]
        by_cases hb : r.bte = 0
        · simp only [hb, ne_eq, not_true_eq_false, if_false, hc2]
          split
          · simp [hdn]
          · omega
        · simp [hb]
    cases hsk : skip c s r with
    | true =>
      have hsr : sr.active = false := by rw [hsact, hsk]; simp
      have hsa : rsp.ack = false := by
        cases h : rsp.ack with
        | false => rfl
        | true => have := hso.ack_active h; rw [hsr] at this; cases this
      have hSnext := hso.no_ack hsa
      rw [Expect.next_inactive _ _ _ hsr] at hSnext
      have hS' := serving_advance c f g hfg s Ms Ms r M rsp hcnt hServ (Or.inl ⟨hsk, rfl⟩)
      have hs0 : scti c s r = 0 := by simp only [skip, Bool.and_eq_true, beq_iff_eq] at hsk; exact hsk.2
      cases hdn : done c s with
      | false =>
        have hm0 : mack c s r rsp = false := by rw [hmackEq, hdn]; simp
        have hlt : s.count + 1 < c.ratio := by
          have : s.count ≠ c.ratio - 1 := by simpa [done] using hdn
          omega
        apply BStepOk'.mk_no_ack _ _ _ _ _ _ _ _ (by rw [hout]; exact hm0)
        rw [hnext, Expect.next_noack _ _ hact]
        have hn : next c s r rsp = { count := s.count + 1, datR := mdat c s rsp } := by
          simp only [next, hm0, hcyc, hsa, hsk, Bool.not_true, Bool.or_self, Bool.false_eq_true, if_false,
            Bool.or_true, Bool.and_false, Bool.false_or, if_true, Nat.mod_eq_of_lt hlt]
        rw [hn]
        exact ⟨hlt, Ms, .free, hSnext, hact, hS', Or.inl rfl⟩
      | true =>
        have hm1 : mack c s r rsp = true := by rw [hmackEq, hdn, hsk]; simp
        have hlast : s.count + 1 = c.ratio := by
          have : s.count = c.ratio - 1 := by simpa [done] using hdn
          have := ratio_pos c; omega
        have hld : lanesDone c { count := s.count + 1, datR := mdat c s rsp } = c.nbm := by
          simp only [lanesDone, hlast]; rfl
        obtain ⟨hmem', hrd'⟩ := hS'
        rw [hld] at hmem' hrd'
        apply BStepOk'.mk_ack _ _ _ _ _ _ _ _ (by rw [hout]; exact hm1) hact
        · intro hwe k hk hsel
          have := hrd' hwe k hk hsel
          simp only [hlast, Nat.sub_self, Nat.zero_mul, Nat.zero_add] at this
          rw [hout]; exact this
        · rw [hnext]
          have hcount : (next c s r rsp).count = 0 := by simp [next, hm1]
          have hst : next c s r rsp = { count := 0, datR := (next c s r rsp).datR } := by
            rw [← hcount]
          rw [hst]
          exact hfinish Ms .free _ hSnext hmem' hdn (by intro h; omega) (fun _ => rfl)
    | false =>
      have hsr_act : sr.active = true := by rw [hsact, hact, hsk]; rfl
      have hswe : sr.we = r.we := by simp [sr, toSlave, hact]
      cases hsa : rsp.ack with
      | false =>
        have hSnext := hso.no_ack hsa
        rw [Expect.next_noack _ _ hsr_act] at hSnext
        have hm0 : mack c s r rsp = false := by rw [hmackEq, hsa, hsk]; simp
        apply BStepOk'.mk_no_ack _ _ _ _ _ _ _ _ (by rw [hout]; exact hm0)
        rw [hnext, Expect.next_noack _ _ hact]
        have hn : next c s r rsp = s := by simp [next, hm0, hsa, hsk, hcyc]
        rw [hn]
        exact ⟨hcnt, Ms, .hold sr, hSnext, hact, hServ, Or.inr (Or.inl rfl)⟩
      | true =>
        obtain ⟨hread, hSnext⟩ := hso.ack hsa
        simp only [hswe] at hread hSnext
        have hS' := serving_advance c f g hfg s Ms _ r M rsp hcnt hServ (Or.inr ⟨hsk, rfl, hread⟩)
        obtain ⟨hn2, hnn2⟩ := slave_next_ack c s r eS hact hsr_act hallS
        have hsrcs : sr.stb = true ∧ sr.cyc = true := by
          have := active_split sr hsr_act; exact ⟨this.2, this.1⟩
        cases hdn : done c s with
        | false =>
          have hm0 : mack c s r rsp = false := by rw [hmackEq, hdn]; simp
          have hlt : s.count + 1 < c.ratio := by
            have : s.count ≠ c.ratio - 1 := by simpa [done] using hdn
            omega
          apply BStepOk'.mk_no_ack _ _ _ _ _ _ _ _ (by rw [hout]; exact hm0)
          rw [hnext, Expect.next_noack _ _ hact]
          have hn : next c s r rsp = { count := s.count + 1, datR := mdat c s rsp } := by
            have h1 : (toSlave c s r).stb = true := hsrcs.1
            have h2 : (toSlave c s r).cyc = true := hsrcs.2
            simp only [next, hm0, hcyc, hsa, hsk, h1, h2, Bool.not_true, Bool.or_self, Bool.false_eq_true, if_false,
              Bool.or_false, Bool.and_self, if_true, Nat.mod_eq_of_lt hlt]
          rw [hn]
          refine ⟨hlt, _, _, hSnext, hact, hS', ?_⟩
          by_cases h2 : scti c s r = 2
          · obtain ⟨a0, j, he, hsum⟩ := hn2 h2
            right; right
            have hbc : r.bte = 0 ∧ (r.cti = 2 ∨ r.cti = 7) := by
              rw [scti_cases] at h2
              by_cases hb : r.bte = 0
              · refine ⟨hb, ?_⟩
                simp only [hb, ne_eq, not_true_eq_false, if_false] at h2
                by_cases h : r.cti = 2
                · left; exact h
                · simp only [h, if_false] at h2
                  by_cases h7 : r.cti = 7
                  · right; exact h7
                  · simp [h7] at h2
              · simp [hb] at h2
            exact ⟨a0, j, he, by rw [hsum]; show _ = s.count + 1 + c.ratio * r.adr; omega, hbc.1, hbc.2⟩
          · left; exact hnn2 h2
        | true =>
          have hm1 : mack c s r rsp = true := by rw [hmackEq, hdn, hsa]; simp
          have hlast : s.count + 1 = c.ratio := by
            have : s.count = c.ratio - 1 := by simpa [done] using hdn
            have := ratio_pos c; omega
          have hld : lanesDone c { count := s.count + 1, datR := mdat c s rsp } = c.nbm := by
            simp only [lanesDone, hlast]; rfl
          obtain ⟨hmem', hrd'⟩ := hS'
          rw [hld] at hmem' hrd'
          apply BStepOk'.mk_ack _ _ _ _ _ _ _ _ (by rw [hout]; exact hm1) hact
          · intro hwe k hk hsel
            have := hrd' hwe k hk hsel
            simp only [hlast, Nat.sub_self, Nat.zero_mul, Nat.zero_add] at this
            rw [hout]; exact this
          · rw [hnext]
            have hcount : (next c s r rsp).count = 0 := by simp [next, hm1]
            have hst : next c s r rsp = { count := 0, datR := (next c s r rsp).datR } := by
              rw [← hcount]
            rw [hst]
            exact hfinish _ _ _ hSnext hmem' hdn hn2 hnn2

end Over
end Down
end Litex.WbMem
