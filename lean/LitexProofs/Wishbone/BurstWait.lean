import LitexProofs.Wishbone.ConvBurst
/-
  Burst masters that insert wait states (`stb` low between two beats, `cyc` held or dropped, anything on the other
  lines): the burst refinement interface `BRefines` extended by one obligation per slave — a cycle without strobe
  between two beats leaves the slave in a state from which any new cycle is served (`WaitOk`).
-/
namespace Litex.WbMem
open Litex

theorem Expect.isCont_next (e : Expect) (i : Req) (ack : Bool) :
    (e.next i ack).isCont = (i.active && ack && i.cti == 2) := by
  unfold Expect.next
  cases hact : i.active <;> cases ack <;> simp [Expect.isCont]
  cases hc : (i.cti == 2)
  · simp at hc; simp [hc]
  · simp at hc; simp [hc]; cases e <;> simp

/-- Masters without wait states are a special case. -/
theorem BurstFrom.toW {ω τ : Type} (m : Slave ω τ) (mw : Bool) :
    ∀ (ins : List (Req × ω)) (s : τ) (e : Expect), BurstFrom m mw s e ins → BurstFromW m mw s e ins := by
  intro ins
  induction ins with
  | nil => intro _ _ _; trivial
  | cons i is ih => intro s e h; exact ⟨Or.inl h.1, ih _ _ h.2⟩

/-- A cycle without strobe between two beats of a burst: nothing completes, and the slave is ready for any new
    cycle afterwards. -/
def WaitOk {ω τ : Type} (sl : Slave ω τ) (P : Req × ω → Prop) (InvB : τ → Expect → Mem → Prop) : Prop :=
  ∀ s e M i, InvB s e M → e.isCont = true → i.1.active = false → P i → InvB (sl.next s i) .free M

/-- From the per-cycle burst interface plus `WaitOk` to whole runs of masters with wait states. -/
theorem BRefines.runW {ω τ : Type} {sl : Slave ω τ} {f : Nat → Nat} {nb : Nat} {mw : Bool} {P : Req × ω → Prop}
    {InvB : τ → Expect → Mem → Prop} (h : BRefines sl f nb mw P InvB) (hw : WaitOk sl P InvB) :
    ∀ (ins : List (Req × ω)) (s : τ) (e : Expect) (M : Mem), InvB s e M → BurstFromW sl mw s e ins →
      (∀ i ∈ ins, P i) → Consistent nb M (opsFrom sl f s ins) ∧ AckStrobedOrPreFrom sl s e.isCont ins := by
  intro ins
  induction ins with
  | nil => intro s e M _ _ _; simp [opsFrom, Consistent, AckStrobedOrPreFrom]
  | cons i is ih =>
    intro s e M hinv hb hP
    obtain ⟨hall, hrest⟩ := hb
    rcases hall with hall | ⟨hc, hina⟩
    · obtain ⟨hack, hcons, hnext⟩ := h s e M i hinv hall (hP i (List.mem_cons_self ..))
      obtain ⟨h1, h2⟩ := ih _ _ _ hnext hrest (fun j hj => hP j (List.mem_cons_of_mem _ hj))
      rw [Expect.isCont_next] at h2
      refine ⟨?_, fun ha => Or.inl (hack ha), h2⟩
      simp only [opsFrom]
      rw [consistent_append]
      exact ⟨hcons, h1⟩
    · have hop : opNow sl f s i = [] := by simp [opNow, hina]
      have hnext := hw s e M i hinv hc hina (hP i (List.mem_cons_self ..))
      rw [Expect.next_inactive _ _ _ hina] at hrest
      obtain ⟨h1, h2⟩ := ih _ _ _ hnext hrest (fun j hj => hP j (List.mem_cons_of_mem _ hj))
      refine ⟨?_, fun _ => Or.inr hc, ?_⟩
      · simp only [opsFrom, hop, List.nil_append]; exact h1
      · simpa [hina, Expect.isCont] using h2

/-- The bursting SRAM: a wait state resets the burst address counter and the acknowledge; the next beat is served
    at the address the master presents (the counter is latched again from it). -/
theorem Sram.waitOk (c : SramCfg) (init : List Byte) :
    WaitOk (sram c init) (fun i => i.1.adr < 2 ^ c.aw) (Sram.BInv c) := by
  intro s e M i hinv hc hina _
  obtain ⟨r, u⟩ := i
  dsimp only at hina
  cases e with
  | free => simp [Expect.isCont] at hc
  | hold r0 => simp [Expect.isCont] at hc
  | cont a0 we bte k =>
    obtain ⟨hlen, _, _, _, _, _, _, _, hmem⟩ := hinv
    simp [Sram.BInv, sram, Sram.next, hina, hlen, hmem]

namespace Down
variable (c : DownCfg) {ω τ : Type} (sl : Slave ω τ) (f g : Nat → Nat) (InvS : τ → Expect → Mem → Prop)

/-- The DownConverter's acknowledge is gated by the master's strobe, over any slave and for any master. -/
theorem ack_only_strobed : ∀ (ins : List (Req × ω)) (st : DownState × τ),
    AckOnlyStrobedFrom ((downConv c).over sl) st ins := by
  intro ins
  induction ins with
  | nil => intro _; trivial
  | cons i is ih =>
    intro st
    refine ⟨?_, ih _⟩
    intro ha
    have : mack c st.1 i.1 (sl.out st.2 (toSlave c st.1 i.1, i.2)) = true := ha
    simp only [mack, Bool.and_eq_true] at this
    exact this.1.1

/-- A master wait state in front of the DownConverter is a wait state (or an idle cycle) for its slave. -/
theorem waitOk (P : Req × ω → Prop) (PS : Req × ω → Prop)
    (hP : ∀ s r o, s.count < c.ratio → P (r, o) → PS (toSlave c s r, o))
    (hS : BRefines sl f c.nbs true PS InvS) (hSw : WaitOk sl PS InvS) :
    WaitOk ((downConv c).over sl) P (BInvD c g InvS) := by
  intro st e M i hinv hc hina hPi
  obtain ⟨r, o⟩ := i
  obtain ⟨s, t⟩ := st
  dsimp only at hina
  cases e with
  | free => simp [Expect.isCont] at hc
  | hold r0 => simp [Expect.isCont] at hc
  | cont a0 we bte k =>
    obtain ⟨hcnt, Ms, eS, hSinv, hc0, hMs, hes⟩ := hinv
    dsimp only at hcnt hSinv hc0
    subst hMs
    let sr := toSlave c s r
    let rsp := sl.out t (sr, o)
    have hnext : ((downConv c).over sl).next (s, t) (r, o) = (next c s r rsp, sl.next t (sr, o)) := rfl
    have hsr : sr.active = false := by rw [toSlave_active, hina]; rfl
    have hPS := hP s r o hcnt hPi
    have hSnext : InvS (sl.next t (sr, o)) .free Ms := by
      by_cases hb : bte = 0
      · simp only [hb, if_true] at hes
        obtain ⟨aS, j, he, _⟩ := hes
        subst he
        exact hSw t _ Ms (sr, o) hSinv rfl hsr hPS
      · simp only [hb, if_false] at hes
        subst hes
        have hso := hS t .free Ms (sr, o) hSinv trivial hPS
        have hsa : rsp.ack = false := by
          cases h : rsp.ack with
          | false => rfl
          | true => have := hso.ack_active h; rw [hsr] at this; cases this
        have := hso.no_ack hsa
        rwa [Expect.next_inactive _ _ _ hsr] at this
    have hm0 : mack c s r rsp = false := by simp [mack, hina]
    have hskip : skip c s r = false := by simp [skip, hina]
    have hstb : (toSlave c s r).stb = false := by simp [toSlave, hina]
    have hcount : (next c s r rsp).count = 0 := by
      simp only [next, hm0, hskip, hstb, Bool.false_and, Bool.or_false, Bool.false_or]
      split <;> simp [hc0]
    rw [hnext]
    exact ⟨by rw [hcount]; exact ratio_pos c, Ms, .free, hSnext, hcount, rfl, rfl⟩

end Down

/-! Decidability (for the non-vacuity examples). -/

instance decAllowsW (mw : Bool) (e : Expect) (i : Req) : Decidable (e.allowsW mw i) := by
  unfold Expect.allowsW; exact inferInstance

instance decBurstFromW {ω τ : Type} (m : Slave ω τ) (mw : Bool) : (s : τ) → (e : Expect) → (ins : List (Req × ω)) →
    Decidable (BurstFromW m mw s e ins)
  | _, _, [] => isTrue trivial
  | s, e, i :: is =>
    match decAllowsW mw e i.1, decBurstFromW m mw (m.next s i) (e.next i.1 (m.out s i).ack) is with
    | isTrue h1, isTrue h2 => isTrue ⟨h1, h2⟩
    | isFalse h1, _ => isFalse (fun h => h1 h.1)
    | _, isFalse h2 => isFalse (fun h => h2 h.2)

instance decBurstMasterW {ω τ : Type} (m : Slave ω τ) (mw : Bool) (ins : List (Req × ω)) :
    Decidable (BurstMasterW m mw ins) := decBurstFromW m mw m.init .free ins

instance decAckPreFrom {ω τ : Type} (m : Slave ω τ) : (s : τ) → (pre : Bool) → (ins : List (Req × ω)) →
    Decidable (AckStrobedOrPreFrom m s pre ins)
  | _, _, [] => isTrue trivial
  | s, pre, i :: is =>
    match (inferInstance : Decidable ((m.out s i).ack = true → i.1.active = true ∨ pre = true)),
          decAckPreFrom m (m.next s i) (i.1.active && (m.out s i).ack && i.1.cti == 2) is with
    | isTrue h1, isTrue h2 => isTrue ⟨h1, h2⟩
    | isFalse h1, _ => isFalse (fun h => h1 h.1)
    | _, isFalse h2 => isFalse (fun h => h2 h.2)

instance decAckOnlyFrom {ω τ : Type} (m : Slave ω τ) : (s : τ) → (ins : List (Req × ω)) →
    Decidable (AckOnlyStrobedFrom m s ins)
  | _, [] => isTrue trivial
  | s, i :: is =>
    match (inferInstance : Decidable ((m.out s i).ack = true → i.1.active = true)), decAckOnlyFrom m (m.next s i) is with
    | isTrue h1, isTrue h2 => isTrue ⟨h1, h2⟩
    | isFalse h1, _ => isFalse (fun h => h1 h.1)
    | _, isFalse h2 => isFalse (fun h => h2 h.2)

instance decAckOnly {ω τ : Type} (m : Slave ω τ) (ins : List (Req × ω)) : Decidable (AckOnlyStrobed m ins) :=
  decAckOnlyFrom m m.init ins

instance decAckPre {ω τ : Type} (m : Slave ω τ) (ins : List (Req × ω)) : Decidable (AckStrobedOrPre m ins) :=
  decAckPreFrom m m.init false ins

end Litex.WbMem
