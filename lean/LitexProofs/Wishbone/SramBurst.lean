import LitexModel.Wishbone.SramBurst
import LitexProofs.Wishbone.Sram
/-
  `wishbone.SRAM` on a bursting bus: incrementing / wrapping bursts of a registered-feedback master.
  Refinement relation indexed by what the master owes next (`Expect`) and its preservation by every cycle.
-/
namespace Litex.WbMem
open Litex

namespace Sram
variable (c : SramCfg)

theorem wrapBits_le (bte : Nat) : wrapBits bte ≤ 4 := by
  unfold wrapBits; split <;> omega

theorem idx_mod_aw (x : Nat) : c.idx (x % 2 ^ c.aw) = c.idx x := by
  unfold SramCfg.idx
  rw [Nat.mod_mod_of_dvd _ (Nat.pow_dvd_pow 2 (Nat.min_le_right _ _))]

/-- The block of `2^K` words containing `a0 < 2^aw` lies below `2^aw`. -/
theorem block_le (a0 K aw : Nat) (hK : K ≤ aw) (ha : a0 < 2 ^ aw) : a0 / 2 ^ K * 2 ^ K + 2 ^ K ≤ 2 ^ aw := by
  have h1 : a0 / 2 ^ K < 2 ^ (aw - K) := by
    rw [Nat.div_lt_iff_lt_mul (Nat.two_pow_pos K), ← Nat.pow_add, Nat.sub_add_cancel hK]; exact ha
  calc a0 / 2 ^ K * 2 ^ K + 2 ^ K = (a0 / 2 ^ K + 1) * 2 ^ K := by rw [Nat.add_mul, Nat.one_mul]
    _ ≤ 2 ^ (aw - K) * 2 ^ K := Nat.mul_le_mul_right _ h1
    _ = 2 ^ aw := by rw [← Nat.pow_add, Nat.sub_add_cancel hK]

/-- **The burst address counter computes the burst address**: with `offset = a0 mod 2^K` and
    `counter = block(a0) + j`, `adr_next` addresses the same word as beat `j` of the burst from `a0`
    (inside the wrap block: `j < 2^K` when wrapping). -/
theorem adrNext_eq (haw : 4 ≤ c.aw) (s : SramState) (r : Req) (a0 j : Nat) (ha : a0 < 2 ^ c.aw)
    (hoff : s.offset = a0 % 2 ^ wrapBits r.bte)
    (hcnt : s.counter = (a0 / 2 ^ wrapBits r.bte * 2 ^ wrapBits r.bte + j) % 2 ^ c.aw)
    (hj : wrapBits r.bte ≠ 0 → j < 2 ^ wrapBits r.bte) :
    c.idx (adrNext c s r) = c.idx (burstAdr a0 r.bte j) := by
  unfold adrNext burstAdr
  simp only
  generalize hK : wrapBits r.bte = K at *
  by_cases hK0 : K = 0
  · subst hK0
    simp only [Nat.pow_zero, Nat.div_one, Nat.mul_one, Nat.mod_one, Nat.add_zero, if_true] at *
    rw [hcnt, Nat.mod_mod, idx_mod_aw]
  · have hKle : K ≤ c.aw := by have := wrapBits_le r.bte; omega
    have hjK := hj hK0
    have hblk := block_le a0 K c.aw hKle ha
    have hpos := Nat.two_pow_pos K
    have hB : a0 / 2 ^ K * 2 ^ K + j < 2 ^ c.aw := by omega
    rw [hcnt, hoff, Nat.mod_eq_of_lt hB]
    simp only [hK0, if_false]
    have e1 : (a0 / 2 ^ K * 2 ^ K + j) / 2 ^ K = a0 / 2 ^ K := by
      rw [Nat.mul_comm, Nat.mul_add_div hpos, Nat.div_eq_of_lt hjK, Nat.add_zero]
    have e2 : (a0 / 2 ^ K * 2 ^ K + j + a0 % 2 ^ K) % 2 ^ K = (a0 + j) % 2 ^ K := by
      have : a0 / 2 ^ K * 2 ^ K + j + a0 % 2 ^ K = a0 + j := by
        have := Nat.div_add_mod a0 (2 ^ K); rw [Nat.mul_comm] at this; omega
      rw [this]
    rw [e1, e2]
    have hlt : a0 / 2 ^ K * 2 ^ K + (a0 + j) % 2 ^ K < 2 ^ c.aw := by
      have := Nat.mod_lt (a0 + j) hpos; omega
    rw [Nat.mod_eq_of_lt hlt]

theorem burstAdr_zero (a0 bte : Nat) : burstAdr a0 bte 0 = a0 := by
  unfold burstAdr
  split
  · rfl
  · rw [Nat.add_zero, Nat.mul_comm]; exact Nat.div_add_mod a0 _

/-- Refinement relation on a bursting bus, indexed by the master's obligation. -/
def BInv (s : SramState) (e : Expect) (M : Mem) : Prop :=
  s.mem.length = c.depth * c.nb ∧
  match e with
  | .free => s.ack = false ∧ s.latched = false ∧ Mem.ofList s.mem = M
  | .hold r => r.active = true ∧ r.adr < 2 ^ c.aw ∧ s.ack = true ∧ s.adrReg = c.idx r.adr ∧
      Mem.ofList s.mem = (if r.we then M.apply ((opOf c r).write c.nb) else M) ∧
      (if r.cti = 2 then
         s.latched = true ∧ s.offset = r.adr % 2 ^ wrapBits r.bte ∧
         s.counter = (r.adr / 2 ^ wrapBits r.bte * 2 ^ wrapBits r.bte + (if r.we then 0 else 1)) % 2 ^ c.aw
       else s.latched = false)
  | .cont a0 we bte k => a0 < 2 ^ c.aw ∧ 1 ≤ k ∧ s.ack = true ∧ s.latched = true ∧
      s.offset = a0 % 2 ^ wrapBits bte ∧
      s.counter = (a0 / 2 ^ wrapBits bte * 2 ^ wrapBits bte + (k + (if we then 0 else 1))) % 2 ^ c.aw ∧
      (we = false → s.adrReg = c.idx (burstAdr a0 bte k)) ∧ Mem.ofList s.mem = M

/-- One cycle: what `StepOk` says, with the burst obligation in place of the hold rule. -/
def BStepOk (init : List Byte) (s : SramState) (e : Expect) (i : Req × Unit) (M : Mem) : Prop :=
  (((sram c init).out s i).ack = true → i.1.active = true) ∧
  Consistent c.nb M (opNow (sram c init) c.idx s i) ∧
  BInv c ((sram c init).next s i) (e.next i.1 ((sram c init).out s i).ack) (applyOps c.nb M (opNow (sram c init) c.idx s i))

theorem write_word (hd : 0 < c.depth) (s : SramState) (hlen : s.mem.length = c.depth * c.nb) (r : Req) (a : Nat)
    (ha : c.idx a = c.idx r.adr) :
    Mem.ofList (writeLanes s.mem (c.idx a * c.nb) r.sel r.dat c.nb) =
      (Mem.ofList s.mem).apply ((opOf c r).write c.nb) := by
  rw [ofList_writeLanes _ _ _ _ _ (by rw [hlen]; exact word_in_store c hd a), ha]
  rfl

theorem bstep_ok (hd : 0 < c.depth) (hrw : c.readOnly = false) (hb : c.burst = true) (haw : 4 ≤ c.aw)
    (init : List Byte) (s : SramState) (e : Expect) (M : Mem) (i : Req × Unit)
    (hinv : BInv c s e M) (hall : e.allows true i.1) (hadr : i.1.adr < 2 ^ c.aw) :
    BStepOk c init s e i M := by
  obtain ⟨r, u⟩ := i
  obtain ⟨hlen, hrest⟩ := hinv
  dsimp only at hall hadr
  have hab : adrBurst c r = (r.cti == 2) := by simp [adrBurst, hb]
  have hout : ((sram c init).out s (r, u)).ack = s.ack := rfl
  have hamod : r.adr % 2 ^ c.aw = r.adr := Nat.mod_eq_of_lt hadr
  cases e with
  | free =>
    obtain ⟨hack, hlat, hmem⟩ := hrest
    have hpa : portAdr c s r = c.idx r.adr := by simp [portAdr, hlat]
    have hop : opNow (sram c init) c.idx s (r, u) = [] := by simp [opNow, hout, hack]
    refine ⟨(by rw [hout, hack]; intro h; cases h), (by rw [hop]; simp [Consistent]), ?_⟩
    rw [hop, hout, hack]
    simp only [applyOps, Expect.next]
    cases hact : r.active with
    | false =>
      simp only [Bool.not_false, if_true, BInv, sram, Sram.next, hact, Bool.false_and, hrw, Bool.not_false,
        Bool.true_and, Bool.false_eq_true, if_false, hlen, hmem, true_and, and_self]
    | true =>
      simp only [Bool.not_true, Bool.false_eq_true, if_false, Bool.not_false, if_true, BInv, sram, Sram.next, hact,
        hrw, Bool.true_and, hpa, hack, Bool.true_or, writeLanes_length, hlat, hamod, hab]
      refine ⟨by split <;> simp [hlen], trivial, hadr, trivial, trivial, ?_, ?_⟩
      · cases hwe : r.we
        · simp [hmem]
        · simp only [if_true]; rw [write_word c hd s hlen r r.adr rfl, hmem]
      · by_cases hcti : r.cti = 2
        · simp [hcti]
        · simp [hcti]
  | hold r0 =>
    have hr : r = r0 := hall
    subst hr
    obtain ⟨hact, _, hack, hadrReg, hmem, hbst⟩ := hrest
    have hop : opNow (sram c init) c.idx s (r, u) =
        [{ adr := c.idx r.adr, we := r.we, sel := r.sel,
           dat := if r.we then r.dat else readLanes s.mem s.adrReg c.nb }] := by
      simp [opNow, sram, Sram.out, hack, hact]
    refine ⟨fun _ => hact, ?_, ?_⟩
    · rw [hop, consistent_single]
      intro hwe k hk _
      simp only at hwe
      simp only [hwe, Bool.false_eq_true, if_false] at hmem ⊢
      rw [readLanes_getD _ _ _ _ hk, hadrReg, hmem]
    · rw [hop, hout, hack]
      simp only [Expect.next, hact, Bool.not_true, Bool.false_eq_true, if_false]
      by_cases hcti : r.cti = 2
      · -- first beat of a burst acknowledged: the counter takes over
        simp only [hcti, if_true] at hbst
        obtain ⟨hlat, hoff, hcnt⟩ := hbst
        have hab' : adrBurst c r = true := by rw [hab, hcti]; rfl
        have hnext := adrNext_eq c haw s r r.adr (if r.we then 0 else 1) hadr hoff hcnt (by
          intro hK
          have : 2 ≤ wrapBits r.bte := by unfold wrapBits at hK ⊢; split at hK <;> simp_all
          have : 2 ^ 2 ≤ 2 ^ wrapBits r.bte := Nat.pow_le_pow_right (by omega) this
          split <;> omega)
        have hpa : portAdr c s r = c.idx (burstAdr r.adr r.bte (if r.we then 0 else 1)) := by
          simp [portAdr, hab', hlat, hnext]
        simp only [hcti, beq_self_eq_true, if_true, BInv, sram, Sram.next, hact, hrw, Bool.not_false, Bool.true_and,
          hpa, hack, hab', Bool.or_true, hlat, if_true, hoff, hcnt, writeLanes_length, applyOps]
        refine ⟨by split <;> simp [hlen], hadr, Nat.le_refl 1, trivial, trivial, trivial, ?_, ?_, ?_⟩
        · cases hwe : r.we
          · simp only [Bool.false_eq_true, if_false, Nat.mod_mod]
            rw [Nat.add_mod, Nat.mod_mod, ← Nat.add_mod]
          · simp only [if_true, Nat.add_zero, Nat.mod_mod]
            rw [Nat.add_mod, Nat.mod_mod, ← Nat.add_mod]
        · intro hwe; simp [hwe]
        · cases hwe : r.we
          · simp only [hwe, Bool.false_eq_true, if_false] at hmem ⊢; exact hmem
          · simp only [hwe, if_true] at hmem ⊢
            rw [burstAdr_zero]
            rw [write_word c hd s hlen r r.adr rfl, hmem]
            exact Mem.writeMasked_idem _ _ _ _
      · -- a single-beat cycle (classic, constant address, lone end of burst)
        simp only [hcti, if_false] at hbst
        have hab' : adrBurst c r = false := by rw [hab]; simpa using hcti
        have hpa : portAdr c s r = c.idx r.adr := by simp [portAdr, hab']
        have hne : (r.cti == 2) = false := by simpa using hcti
        simp only [hne, Bool.false_eq_true, if_false, BInv, sram, Sram.next, hact, hrw, Bool.not_false, Bool.true_and,
          hpa, hack, hab', Bool.not_true, Bool.or_false, writeLanes_length, applyOps]
        refine ⟨by split <;> simp [hlen], trivial, trivial, ?_⟩
        cases hwe : r.we
        · simp only [hwe, Bool.false_eq_true, if_false] at hmem ⊢; exact hmem
        · simp only [hwe, if_true] at hmem ⊢
          rw [write_word c hd s hlen r r.adr rfl, hmem]
          exact Mem.writeMasked_idem _ _ _ _
  | cont a0 we bte k =>
    obtain ⟨ha0, hk1, hack, hlat, hoff, hcnt, hrd, hmem⟩ := hrest
    obtain ⟨hact, hradr, hrwe, hrbte, hcti, hwrap⟩ := hall
    subst hrwe hrbte
    have hop : opNow (sram c init) c.idx s (r, u) =
        [{ adr := c.idx r.adr, we := r.we, sel := r.sel,
           dat := if r.we then r.dat else readLanes s.mem s.adrReg c.nb }] := by
      simp [opNow, sram, Sram.out, hack, hact]
    refine ⟨fun _ => hact, ?_, ?_⟩
    · rw [hop, consistent_single]
      intro hwe j hj _
      simp only at hwe
      simp only [hwe, Bool.false_eq_true, if_false]
      rw [readLanes_getD _ _ _ _ hj, hrd hwe, hmem, hradr]
    · rw [hop, hout, hack]
      simp only [Expect.next, hact, Bool.not_true, Bool.false_eq_true, if_false]
      rcases hcti with hcti | hcti
      · -- the burst goes on
        have hab' : adrBurst c r = true := by rw [hab, hcti]; rfl
        have hw := hwrap rfl hcti
        -- write port / read port address of this cycle
        have hnextW := adrNext_eq c haw s r a0 (k + (if r.we then 0 else 1)) ha0 hoff hcnt (by
          intro hK; have := hw hK; split <;> omega)
        have hpa : portAdr c s r = c.idx (burstAdr a0 r.bte (k + (if r.we then 0 else 1))) := by
          simp [portAdr, hab', hlat, hnextW]
        simp only [hcti, beq_self_eq_true, if_true, BInv, sram, Sram.next, hact, hrw, Bool.not_false, Bool.true_and,
          hpa, hack, hab', Bool.or_true, hlat, hoff, hcnt, writeLanes_length, applyOps]
        refine ⟨by split <;> simp [hlen], ha0, by omega, trivial, trivial, trivial, ?_, ?_, ?_⟩
        · rw [Nat.add_mod, Nat.mod_mod, ← Nat.add_mod]
          congr 1; omega
        · intro hwe; simp [hwe]
        · cases hwe : r.we
          · simp [hmem]
          · simp only [if_true, Nat.add_zero]
            rw [write_word c hd s hlen r _ (by rw [hradr]), hmem]
            rfl
      · -- last beat (cti = 7): served at the presented address, then the bus is free
        have hab' : adrBurst c r = false := by rw [hab, hcti]; rfl
        have hpa : portAdr c s r = c.idx r.adr := by simp [portAdr, hab']
        have hne : (r.cti == 2) = false := by rw [hcti]; rfl
        simp only [hne, Bool.false_eq_true, if_false, BInv, sram, Sram.next, hact, hrw, Bool.not_false, Bool.true_and,
          hpa, hack, hab', Bool.not_true, Bool.or_false, writeLanes_length, applyOps]
        refine ⟨by split <;> simp [hlen], trivial, trivial, ?_⟩
        cases hwe : r.we
        · simp [hmem]
        · simp only [if_true]
          rw [write_word c hd s hlen r r.adr rfl, hmem]
          rfl

/-- Whole runs of a burst master. -/
theorem burst_run (hd : 0 < c.depth) (hrw : c.readOnly = false) (hb : c.burst = true) (haw : 4 ≤ c.aw)
    (init : List Byte) :
    ∀ (ins : List (Req × Unit)) (s : SramState) (e : Expect) (M : Mem), BInv c s e M →
      BurstFrom (sram c init) true s e ins → (∀ i ∈ ins, i.1.adr < 2 ^ c.aw) →
      Consistent c.nb M (opsFrom (sram c init) c.idx s ins) ∧ AckOnlyStrobedFrom (sram c init) s ins := by
  intro ins
  induction ins with
  | nil => intro s e M _ _ _; simp [opsFrom, Consistent, AckOnlyStrobedFrom]
  | cons i is ih =>
    intro s e M hinv hb' hP
    obtain ⟨hall, hrest⟩ := hb'
    obtain ⟨hack, hcons, hnext⟩ := bstep_ok c hd hrw hb haw init s e M i hinv hall (hP i (List.mem_cons_self ..))
    obtain ⟨h1, h2⟩ := ih _ _ _ hnext hrest (fun j hj => hP j (List.mem_cons_of_mem _ hj))
    refine ⟨?_, hack, h2⟩
    simp only [opsFrom]
    rw [consistent_append]
    exact ⟨hcons, h1⟩

theorem binv_init (init : List Byte) : BInv c (Sram.init c init) .free (Mem.ofList (initMem c init)) := by
  simp [BInv, Sram.init, initMem]

end Sram

instance decAllows (mw : Bool) (e : Expect) (i : Req) : Decidable (e.allows mw i) := by
  cases e <;> unfold Expect.allows <;> exact inferInstance

instance decBurstFrom {ω τ : Type} (m : Slave ω τ) (mw : Bool) : (s : τ) → (e : Expect) → (ins : List (Req × ω)) →
    Decidable (BurstFrom m mw s e ins)
  | _, _, [] => isTrue trivial
  | s, e, i :: is =>
    match decAllows mw e i.1, decBurstFrom m mw (m.next s i) (e.next i.1 (m.out s i).ack) is with
    | isTrue h1, isTrue h2 => isTrue ⟨h1, h2⟩
    | isFalse h1, _ => isFalse (fun h => h1 h.1)
    | _, isFalse h2 => isFalse (fun h => h2 h.2)

instance decBurstMaster {ω τ : Type} (m : Slave ω τ) (mw : Bool) (ins : List (Req × ω)) :
    Decidable (BurstMaster m mw ins) := decBurstFrom m mw m.init .free ins

end Litex.WbMem

namespace Litex.WbMem
open Litex

/-! ### The burst refinement interface (any slave): `Refines` with the burst obligation in place of the hold rule -/

def BStepOk' {ω τ : Type} (sl : Slave ω τ) (f : Nat → Nat) (nb : Nat) (InvB : τ → Expect → Mem → Prop)
    (s : τ) (e : Expect) (i : Req × ω) (M : Mem) : Prop :=
  ((sl.out s i).ack = true → i.1.active = true) ∧
  Consistent nb M (opNow sl f s i) ∧
  InvB (sl.next s i) (e.next i.1 (sl.out s i).ack) (applyOps nb M (opNow sl f s i))

/-- `BRefines sl f nb mw P InvB`: every cycle in which the master honours its burst obligation (`Expect.allows mw`)
    preserves `InvB` and completes bus cycles consistently with the abstract byte memory. -/
def BRefines {ω τ : Type} (sl : Slave ω τ) (f : Nat → Nat) (nb : Nat) (mw : Bool) (P : Req × ω → Prop)
    (InvB : τ → Expect → Mem → Prop) : Prop :=
  ∀ s e M i, InvB s e M → e.allows mw i.1 → P i → BStepOk' sl f nb InvB s e i M

section
variable {ω τ : Type} {sl : Slave ω τ} {f : Nat → Nat} {nb : Nat} {InvB : τ → Expect → Mem → Prop}
  {s : τ} {e : Expect} {i : Req × ω} {M : Mem}

theorem BStepOk'.ack_active (h : BStepOk' sl f nb InvB s e i M) (ha : (sl.out s i).ack = true) :
    i.1.active = true := h.1 ha

theorem BStepOk'.no_ack (h : BStepOk' sl f nb InvB s e i M) (hn : (sl.out s i).ack = false) :
    InvB (sl.next s i) (e.next i.1 false) M := by
  have h3 := h.2.2
  have hop : opNow sl f s i = [] := by simp [opNow, hn]
  rw [hop, hn] at h3
  simpa [applyOps] using h3

theorem BStepOk'.ack (h : BStepOk' sl f nb InvB s e i M) (ha : (sl.out s i).ack = true) :
    (i.1.we = false → ∀ k, k < nb → i.1.sel.getD k false = true →
        (sl.out s i).dat.getD k 0 = M (f i.1.adr * nb + k)) ∧
    InvB (sl.next s i) (e.next i.1 true)
      (if i.1.we then M.writeMasked (f i.1.adr * nb) (i.1.sel.take nb) i.1.dat else M) := by
  have hact := h.1 ha
  have hop : opNow sl f s i =
      [{ adr := f i.1.adr, we := i.1.we, sel := i.1.sel, dat := if i.1.we then i.1.dat else (sl.out s i).dat }] := by
    simp [opNow, ha, hact]
  obtain ⟨_, h2, h3⟩ := h
  rw [hop] at h2 h3
  rw [consistent_single] at h2
  refine ⟨?_, ?_⟩
  · intro hwe k hk hsel
    have := h2 hwe k hk hsel
    simpa [hwe] using this
  · rw [ha] at h3
    simp only [applyOps] at h3
    cases hwe : i.1.we
    · simpa [hwe] using h3
    · simp only [hwe, if_true] at h3 ⊢; exact h3

end

theorem BStepOk'.mk_no_ack {ω τ : Type} (sl : Slave ω τ) (f : Nat → Nat) (nb : Nat) (InvB : τ → Expect → Mem → Prop)
    (s : τ) (e : Expect) (i : Req × ω) (M : Mem) (hn : (sl.out s i).ack = false)
    (hinv : InvB (sl.next s i) (e.next i.1 false) M) : BStepOk' sl f nb InvB s e i M := by
  have hop : opNow sl f s i = [] := by simp [opNow, hn]
  refine ⟨(by rw [hn]; intro h; cases h), (by rw [hop]; simp [Consistent]), ?_⟩
  rw [hop, hn]; simpa [applyOps] using hinv

theorem BStepOk'.mk_ack {ω τ : Type} (sl : Slave ω τ) (f : Nat → Nat) (nb : Nat) (InvB : τ → Expect → Mem → Prop)
    (s : τ) (e : Expect) (i : Req × ω) (M : Mem) (ha : (sl.out s i).ack = true) (hact : i.1.active = true)
    (hread : i.1.we = false → ∀ k, k < nb → i.1.sel.getD k false = true →
        (sl.out s i).dat.getD k 0 = M (f i.1.adr * nb + k))
    (hinv : InvB (sl.next s i) (e.next i.1 true)
      (if i.1.we then M.writeMasked (f i.1.adr * nb) (i.1.sel.take nb) i.1.dat else M)) :
    BStepOk' sl f nb InvB s e i M := by
  have hop : opNow sl f s i =
      [{ adr := f i.1.adr, we := i.1.we, sel := i.1.sel, dat := if i.1.we then i.1.dat else (sl.out s i).dat }] := by
    simp [opNow, ha, hact]
  refine ⟨fun _ => hact, ?_, ?_⟩
  · rw [hop, consistent_single]
    intro hwe k hk hsel
    simp only at hwe
    have := hread hwe k hk hsel
    simpa [hwe] using this
  · rw [hop, ha]
    simp only [applyOps]
    cases hwe : i.1.we
    · simpa [hwe] using hinv
    · simp only [hwe, if_true] at hinv ⊢; exact hinv

/-- From the per-cycle burst interface to whole runs. -/
theorem BRefines.run {ω τ : Type} {sl : Slave ω τ} {f : Nat → Nat} {nb : Nat} {mw : Bool} {P : Req × ω → Prop}
    {InvB : τ → Expect → Mem → Prop} (h : BRefines sl f nb mw P InvB) :
    ∀ (ins : List (Req × ω)) (s : τ) (e : Expect) (M : Mem), InvB s e M → BurstFrom sl mw s e ins →
      (∀ i ∈ ins, P i) → Consistent nb M (opsFrom sl f s ins) ∧ AckOnlyStrobedFrom sl s ins := by
  intro ins
  induction ins with
  | nil => intro s e M _ _ _; simp [opsFrom, Consistent, AckOnlyStrobedFrom]
  | cons i is ih =>
    intro s e M hinv hb hP
    obtain ⟨hall, hrest⟩ := hb
    obtain ⟨hack, hcons, hnext⟩ := h s e M i hinv hall (hP i (List.mem_cons_self ..))
    obtain ⟨h1, h2⟩ := ih _ _ _ hnext hrest (fun j hj => hP j (List.mem_cons_of_mem _ hj))
    refine ⟨?_, hack, h2⟩
    simp only [opsFrom]
    rw [consistent_append]
    exact ⟨hcons, h1⟩

/-- The bursting SRAM in interface form. -/
theorem Sram.brefines (c : SramCfg) (hd : 0 < c.depth) (hrw : c.readOnly = false) (hb : c.burst = true)
    (haw : 4 ≤ c.aw) (init : List Byte) :
    BRefines (sram c init) c.idx c.nb true (fun i => i.1.adr < 2 ^ c.aw) (Sram.BInv c) :=
  fun s e M i hinv hall hP => Sram.bstep_ok c hd hrw hb haw init s e M i hinv hall hP

end Litex.WbMem
