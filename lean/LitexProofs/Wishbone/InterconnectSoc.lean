import LitexModel.Wishbone.InterconnectSoc
import LitexProofs.Wishbone.Interconnect
import LitexProofs.Soc.AcceptedDisjoint
import LitexProofs.Soc.Finalize
import LitexProofs.Export.Adapt
/-
  Helper lemmas for the address-map glue of `SoCBusHandler` (C06): `check_regions_overlap` as computed
  (`checkRegionsOverlap`) against C13's `anyOverlap`, and the C06 region predicate `regionDec` against C13's
  `decoderAccepts`, so that C13's interface theorems (`LitexProofs/Soc/AcceptedDisjoint.lean`) discharge the
  `DisjointDec` hypothesis of the routing theorems.  Core Lean only.
-/
namespace Litex.Wishbone
open Litex Litex.Soc

/-- Without `check_linker` the pair test is C13's `overlapPair`. -/
theorem ovPair_false_eq (r0 r1 : Region) : ovPair false r0 r1 = overlapPair r0 r1 := by
  unfold ovPair overlapPair
  cases r0.linker <;> cases r1.linker <;> simp

theorem findOverlapWith_none (cl : Bool) (r0 : Region) :
    ∀ (l : List Region) (k : Nat), findOverlapWith cl r0 l k = none ↔ l.any (ovPair cl r0) = false := by
  intro l
  induction l with
  | nil => intro k; simp [findOverlapWith]
  | cons r1 rs ih =>
    intro k
    unfold findOverlapWith
    cases h : ovPair cl r0 r1
    · simp [h, ih]
    · simp [h]

/-- The reported position is inside the scanned list and names a region that the pair test reports. -/
theorem findOverlapWith_some (cl : Bool) (r0 : Region) :
    ∀ (l : List Region) (k p : Nat), findOverlapWith cl r0 l k = some p →
      k ≤ p ∧ ∃ r1, l[p - k]? = some r1 ∧ ovPair cl r0 r1 = true ∧
        ∀ q, q < p - k → ∀ r, l[q]? = some r → ovPair cl r0 r = false := by
  intro l
  induction l with
  | nil => intro k p h; simp [findOverlapWith] at h
  | cons r1 rs ih =>
    intro k p h
    unfold findOverlapWith at h
    cases hp : ovPair cl r0 r1
    · rw [hp] at h
      simp only [Bool.false_eq_true, if_false] at h
      obtain ⟨hle, r, hr, hov, hfirst⟩ := ih (k + 1) p h
      refine ⟨by omega, r, ?_, hov, ?_⟩
      · have : p - k = (p - (k + 1)) + 1 := by omega
        rw [this, List.getElem?_cons_succ]; exact hr
      · intro q hq r' hr'
        cases q with
        | zero => simp at hr'; rw [← hr']; exact hp
        | succ q' =>
          rw [List.getElem?_cons_succ] at hr'
          exact hfirst q' (by omega) r' hr'
    · rw [hp] at h
      simp only [if_true, Option.some.injEq] at h
      subst h
      exact ⟨Nat.le_refl _, r1, by simp, hp, fun q hq => by omega⟩

/-- **`check_regions_overlap(regions) is None` is exactly C13's `anyOverlap = false`.** -/
theorem firstOverlapFrom_none_iff (l : List Region) :
    ∀ i, firstOverlapFrom false i l = none ↔ anyOverlap l = false := by
  induction l with
  | nil => intro i; simp [firstOverlapFrom, anyOverlap]
  | cons r0 rs ih =>
    intro i
    unfold firstOverlapFrom
    have hfun : ovPair false r0 = overlapPair r0 := funext (ovPair_false_eq r0)
    cases h : findOverlapWith false r0 rs (i + 1) with
    | none =>
      have h' := (findOverlapWith_none false r0 rs (i + 1)).1 h
      rw [hfun] at h'
      simp only [anyOverlap, h', Bool.false_or]
      exact ih (i + 1)
    | some k =>
      have hne : ¬ (rs.any (overlapPair r0) = false) := by
        intro hf
        rw [← hfun] at hf
        have := (findOverlapWith_none false r0 rs (i + 1)).2 hf
        rw [h] at this
        exact absurd this (by simp)
      have : rs.any (overlapPair r0) = true := by
        cases hh : rs.any (overlapPair r0)
        · exact absurd hh hne
        · rfl
      simp [anyOverlap, this]

theorem checkRegionsOverlap_none_iff (l : List Region) :
    checkRegionsOverlap false l = none ↔ anyOverlap l = false :=
  firstOverlapFrom_none_iff l 0

/-- A reported pair is a real one: positions `i < k` of the list whose regions the pair test reports. -/
theorem firstOverlapFrom_some (cl : Bool) (l : List Region) :
    ∀ (b i k : Nat), firstOverlapFrom cl b l = some (i, k) →
      b ≤ i ∧ i < k ∧ ∃ r0 r1, l[i - b]? = some r0 ∧ l[k - b]? = some r1 ∧ ovPair cl r0 r1 = true := by
  induction l with
  | nil => intro b i k h; simp [firstOverlapFrom] at h
  | cons r0 rs ih =>
    intro b i k h
    unfold firstOverlapFrom at h
    cases hf : findOverlapWith cl r0 rs (b + 1) with
    | some p =>
      rw [hf] at h
      simp only [Option.some.injEq, Prod.mk.injEq] at h
      obtain ⟨rfl, rfl⟩ := h
      obtain ⟨hle, r1, hr1, hov, _⟩ := findOverlapWith_some cl r0 rs (b + 1) p hf
      refine ⟨Nat.le_refl _, by omega, r0, r1, by simp, ?_, hov⟩
      have : p - b = (p - (b + 1)) + 1 := by omega
      rw [this, List.getElem?_cons_succ]; exact hr1
    | none =>
      rw [hf] at h
      obtain ⟨hle, hlt, r, r', hr, hr', hov⟩ := ih (b + 1) i k h
      refine ⟨by omega, hlt, r, r', ?_, ?_, hov⟩
      · have : i - b = (i - (b + 1)) + 1 := by omega
        rw [this, List.getElem?_cons_succ]; exact hr
      · have : k - b = (k - (b + 1)) + 1 := by omega
        rw [this, List.getElem?_cons_succ]; exact hr'

/-- C06's `regionDec` (the predicate `SoCRegion(origin, size).decoder(bus)` returns) is C13's `decoderAccepts`
    for a decoded region, whatever its `cached`/`linker` flags. -/
theorem regionDec_eq_decoderAccepts (o sz dw aw a : Nat) (c l : Bool) :
    regionDec o sz dw aw a = decoderAccepts aw dw ⟨o, sz, c, l, true⟩ a := by
  rfl

/-- The `(origin, size)` list a `SocCfg` carries for a list of region records. -/
def pairsOf (rs : List Region) : List (Nat × Nat) := rs.map fun r => (r.origin, r.size)

theorem socDec_eq (c : SocCfg) (rs : List Region) (hr : c.regions = pairsOf rs) (j : Nat) (hj : j < rs.length)
    (hd : rs[j].decode = true) (a : Nat) : c.dec j a = decoderAccepts c.aw c.dw rs[j] a := by
  have : c.regions[j]? = some (rs[j].origin, rs[j].size) := by
    rw [hr, pairsOf, List.getElem?_map, List.getElem?_eq_getElem hj]; rfl
  unfold SocCfg.dec
  rw [this]
  show regionDec _ _ _ _ _ = _
  rw [regionDec_eq_decoderAccepts _ _ _ _ _ rs[j].cached rs[j].linker]
  have : (⟨rs[j].origin, rs[j].size, rs[j].cached, rs[j].linker, true⟩ : Region) = rs[j] := by
    cases hrj : rs[j] with
    | mk o s c l d => rw [hrj] at hd; simp at hd; subst hd; rfl
  rw [this]

/-- Per-region side conditions under which `SoCRegion.decoder` is exact (C13): not a linker region, decoded,
    origin aligned on `size_pow2` (checked by `decoder()` itself), window of at least one bus word. -/
def RegionsDecodable (dw : Nat) (rs : List Region) : Prop :=
  ∀ r ∈ rs, r.linker = false ∧ r.decode = true ∧ r.aligned = true ∧ dw / 8 ≤ r.p2

/-- An accepted region list: two different positions never both accept an in-range word address. -/
theorem accepted_index_disjoint (aw dw sh : Nat) (rs : List Region) (hdw : dw / 8 = 2 ^ sh) (hsh : sh ≤ aw)
    (hacc : checkRegionsOverlap false rs = none) (hall : RegionsDecodable dw rs)
    (a : Nat) (ha : a < 2 ^ (aw - sh)) (j k : Nat) (hj : j < rs.length) (hk : k < rs.length)
    (h1 : decoderAccepts aw dw rs[j] a = true) (h2 : decoderAccepts aw dw rs[k] a = true) : j = k := by
  have hp := accepted_regions_pairwise_disjoint_decoders aw dw sh rs hdw hsh
    ((checkRegionsOverlap_none_iff rs).1 hacc) hall
  rw [List.pairwise_iff_getElem] at hp
  rcases Nat.lt_trichotomy j k with hlt | heq | hgt
  · exact absurd ⟨h1, h2⟩ (hp j k hj hk hlt a ha)
  · exact heq
  · exact absurd ⟨h2, h1⟩ (hp k j hk hj hgt a ha)

/-! ### `add_master(region=…)`: the remapper confines the master to its region -/

/-- For a region of `2^k` bytes (`k ≥ sh`) whose origin is aligned on its size and which lies inside the address
    space, the remapped word address always denotes a byte address inside `[origin, origin + 2^k)`. -/
theorem remapAdr_confined (origin k sh aw a : Nat) (hk : sh ≤ k) (hal : origin % 2 ^ k = 0)
    (hfit : origin + 2 ^ k ≤ 2 ^ aw) :
    origin ≤ remapAdr origin (2 ^ k) sh aw a * 2 ^ sh ∧ remapAdr origin (2 ^ k) sh aw a * 2 ^ sh < origin + 2 ^ k := by
  obtain ⟨q, hq⟩ := Nat.dvd_of_mod_eq_zero hal
  have hka : k ≤ aw := by
    have : 2 ^ k ≤ 2 ^ aw := by omega
    exact (Nat.pow_le_pow_iff_right (by decide)).1 this
  have hsplit : (2 : Nat) ^ k = 2 ^ (k - sh) * 2 ^ sh := by rw [← Nat.pow_add]; congr 1; omega
  have hsplitA : (2 : Nat) ^ aw = 2 ^ (aw - sh) * 2 ^ sh := by rw [← Nat.pow_add]; congr 1; omega
  have hpos : 0 < 2 ^ sh := Nat.two_pow_pos sh
  -- origin >>> sh = q * 2^(k-sh)
  have horg : origin >>> sh = q * 2 ^ (k - sh) := by
    rw [Nat.shiftRight_eq_div_pow, hq, hsplit, Nat.mul_comm (2 ^ (k - sh) * 2 ^ sh) q, ← Nat.mul_assoc,
      Nat.mul_div_cancel _ hpos]
  unfold remapAdr
  rw [Nat.log2_two_pow, horg]
  generalize hr : a % 2 ^ (aw - sh) % 2 ^ (k - sh) = r
  have hrlt : r < 2 ^ (k - sh) := by rw [← hr]; exact Nat.mod_lt _ (Nat.two_pow_pos _)
  have hor : q * 2 ^ (k - sh) ||| r = q * 2 ^ (k - sh) + r := by
    rw [← Nat.shiftLeft_eq, ← Nat.shiftLeft_add_eq_or_of_lt hrlt]
  rw [hor]
  -- the sum fits the address signal
  have hq1 : (q + 1) * 2 ^ (k - sh) ≤ 2 ^ (aw - sh) := by
    have h1 : (q + 1) * 2 ^ (k - sh) * 2 ^ sh ≤ 2 ^ (aw - sh) * 2 ^ sh := by
      rw [Nat.mul_assoc, ← hsplit, ← hsplitA, Nat.add_mul, Nat.one_mul, Nat.mul_comm q]
      omega
    exact Nat.le_of_mul_le_mul_right h1 hpos
  have hlt : q * 2 ^ (k - sh) + r < 2 ^ (aw - sh) := by
    rw [Nat.add_mul, Nat.one_mul] at hq1
    omega
  rw [Nat.mod_eq_of_lt hlt, Nat.add_mul, Nat.mul_assoc, ← hsplit, hq, Nat.mul_comm q]
  have hr2 : r * 2 ^ sh < 2 ^ k := by
    rw [hsplit]; exact Nat.mul_lt_mul_of_pos_right hrlt hpos
  omega

/-- A port without remapper presents the master's address unchanged. -/
theorem portAdr_none (c : SocRCfg) (i a : Nat) (h : c.remaps[i]? = none ∨ c.remaps[i]? = some none) :
    c.portAdr i a = a := by
  unfold SocRCfg.portAdr
  rcases h with h | h <;> rw [h]

/-! ### `add_adapter` addressing conversion (C14's `convM2S`/`convS2M` and its address-preservation lemmas) -/

/-- A byte-addressed master port driving byte address `a` puts the bus word `a / 2^sh` on the bus
    (C14 `Export.masterBus_spec`: the SoC bus sees the access's own bus word). -/
theorem masterAdr_byte (c : SocRCfg) (i a : Nat) (hb : c.mByte.getD i false = true)
    (ha : a < 2 ^ c.soc.aw) (hs : c.sh ≤ c.soc.aw) : c.masterAdr i a = a / 2 ^ c.sh := by
  have h := (Export.masterBus_spec .wbbyte false c.sh c.soc.aw a ha hs).1
  have e : Export.masterBus .wbbyte false c.sh c.soc.aw a =
      Export.convM2S false true c.sh (c.soc.aw - c.sh) (a % 2 ^ c.soc.aw) * 2 ^ c.sh := rfl
  rw [e, Nat.mul_div_cancel _ (Nat.two_pow_pos _), Nat.mod_eq_of_lt ha] at h
  unfold SocRCfg.masterAdr
  rw [if_pos hb]; exact h

theorem masterAdr_word (c : SocRCfg) (i a : Nat) (hb : c.mByte.getD i false = false) : c.masterAdr i a = a := by
  unfold SocRCfg.masterAdr
  rw [if_neg (by rw [hb]; simp)]

/-- A byte-addressed slave port sees the base byte address of the bus word (C14 `Export.chainWord_eq`: the word index
    at the slave is the bus word). -/
theorem slaveAdr_byte (c : SocRCfg) (j w : Nat) (hb : c.sByte.getD j false = true)
    (hw : w < 2 ^ (c.soc.aw - c.sh)) : c.slaveAdr j w = w * 2 ^ c.sh ∧ c.slaveAdr j w / 2 ^ c.sh = w := by
  have e : c.slaveAdr j w = w * 2 ^ c.sh := by
    unfold SocRCfg.slaveAdr
    rw [if_pos hb]
    simp [Export.convS2M, Nat.mod_eq_of_lt hw]
  exact ⟨e, by rw [e, Nat.mul_div_cancel _ (Nat.two_pow_pos _)]⟩

theorem slaveAdr_word (c : SocRCfg) (j w : Nat) (hb : c.sByte.getD j false = false) : c.slaveAdr j w = w := by
  unfold SocRCfg.slaveAdr
  rw [if_neg (by rw [hb]; simp)]

/-- An aligned region of at least one bus word contains a byte address iff it contains the base of its bus word. -/
theorem inWindow_word_base (r : Region) (sh a : Nat) (hal : r.origin % r.p2 = 0) (hw : 2 ^ sh ≤ r.p2) :
    r.InWindow (a / 2 ^ sh * 2 ^ sh) ↔ r.InWindow a := by
  have hp2 : r.p2 = 2 ^ Soc.clog2 r.size := rfl
  have hsh : sh ≤ Soc.clog2 r.size := by
    rw [hp2] at hw; exact (Nat.pow_le_pow_iff_right (by decide)).1 hw
  have hsplit : r.p2 = 2 ^ (Soc.clog2 r.size - sh) * 2 ^ sh := by
    rw [hp2, ← Nat.pow_add]; congr 1; omega
  obtain ⟨q, hq⟩ := Nat.dvd_of_mod_eq_zero hal
  have hW : 0 < 2 ^ sh := Nat.two_pow_pos sh
  generalize hu : 2 ^ (Soc.clog2 r.size - sh) = P at hsplit
  have ho : r.origin = (P * q) * 2 ^ sh := by
    rw [hq, hsplit, Nat.mul_assoc, Nat.mul_assoc, Nat.mul_comm (2 ^ sh) q]
  have he : r.origin + r.p2 = (P * q + P) * 2 ^ sh := by rw [ho, hsplit, Nat.add_mul]
  have hdm := Nat.div_mul_le_self a (2 ^ sh)
  unfold Region.InWindow
  rw [he, ho]
  constructor
  · rintro ⟨h1, h2⟩
    refine ⟨Nat.le_trans h1 hdm, ?_⟩
    have : a / 2 ^ sh < P * q + P := Nat.lt_of_mul_lt_mul_right h2
    exact (Nat.div_lt_iff_lt_mul hW).1 this
  · rintro ⟨h1, h2⟩
    refine ⟨Nat.mul_le_mul_right _ ((Nat.le_div_iff_mul_le hW).2 h1), Nat.lt_of_le_of_lt hdm h2⟩

/-! ### Whole build histories (C13's handler invariant carried through `glueRun`) -/

/-- Every accepted call of a build script preserves C13's handler invariant. -/
theorem glueRun_inv : ∀ (ops : List GlueOp) (s : BusH Nat) (k : Nat) (s' : BusH Nat),
    BusH.Inv s → glueRun s k ops = .inr s' → BusH.Inv s' := by
  intro ops
  induction ops with
  | nil => intro s k s' hi h; simp [glueRun] at h; subst h; exact hi
  | cons op ops ih =>
    intro s k s' hi h
    unfold glueRun at h
    cases ha : s.apply (op.toBusOp k) with
    | error e => rw [ha] at h; cases h
    | ok s1 => rw [ha] at h; exact ih s1 (k + 1) s' (BusH.apply_inv hi ha) h

theorem glueRun_widths : ∀ (ops : List GlueOp) (s : BusH Nat) (k : Nat) (s' : BusH Nat),
    glueRun s k ops = .inr s' → s'.aw = s.aw ∧ s'.dw = s.dw := by
  intro ops
  induction ops with
  | nil => intro s k s' h; simp [glueRun] at h; subst h; exact ⟨rfl, rfl⟩
  | cons op ops ih =>
    intro s k s' h
    unfold glueRun at h
    cases ha : s.apply (op.toBusOp k) with
    | error e => rw [ha] at h; cases h
    | ok s1 =>
      rw [ha] at h
      have h1 := BusH.apply_widths ha
      have h2 := ih s1 (k + 1) s' h
      exact ⟨h2.1.trans h1.1, h2.2.trans h1.2⟩

/-- The regions handed to the interconnect (one per slave, in slave order) are pairwise accepted. -/
theorem slaveRegions_pairwise_ok {s : BusH Nat} (hi : BusH.Inv s) :
    s.slaveRegions.Pairwise (fun p q => overlapPair p.2 q.2 = false) := by
  unfold BusH.slaveRegions
  have hnd : s.slaves.Pairwise (· ≠ ·) := hi.slaves_nodup
  refine List.Pairwise.filterMap _ ?_ hnd
  intro a a' hne b hb b' hb'
  cases hra : s.regionOf a with
  | none => simp [hra] at hb
  | some r =>
    cases hra' : s.regionOf a' with
    | none => simp [hra'] at hb'
    | some r' =>
      simp [hra] at hb
      simp [hra'] at hb'
      subst hb hb'
      exact BusH.regions_pair_ok hi (BusH.regionOf_some hra) (BusH.regionOf_some hra') hne

theorem slaveRegions_accepted {s : BusH Nat} (hi : BusH.Inv s) :
    checkRegionsOverlap false (s.slaveRegions.map (·.2)) = none := by
  rw [checkRegionsOverlap_none_iff, anyOverlap_eq_false_iff, List.pairwise_map]
  exact slaveRegions_pairwise_ok hi

end Litex.Wishbone
