import LitexProofs.Wishbone.Cache
import LitexProofs.Wishbone.ConvLive
/-
  Bounded liveness of `wishbone.Cache` in front of the arbitrary-latency byte memory: hit in 2 cycles, any miss
  within `3 + 2·2^wordbits·(L+1)` cycles (eviction and refill of `2^wordbits` slave words each answered within
  `L`), by a rank function on the FSM state that decreases in every cycle without acknowledge.
-/
namespace Litex.WbMem
open Litex

namespace Cache
variable (c : CacheCfg)

/-- What the progress argument needs to know about the state while the master holds `r`. -/
def J (s : CacheState) (r : Req) : Prop :=
  s.tags.length = 2 ^ c.linebits ∧
  match s.fsm with
  | .idle => True
  | .testHit => s.lineReg = adrLine c r.adr
  | .evict => s.lineReg = adrLine c r.adr ∧ s.word < 2 ^ c.wordbits
  | .refill => s.lineReg = adrLine c r.adr ∧ s.word < 2 ^ c.wordbits ∧ (T s.tags (adrLine c r.adr)).1 = adrTag c r.adr

/-- Cycles still needed at most (`w`: cycles the slave has already been silent). -/
def rank (L : Nat) (s : CacheState) (r : Req) (w : Nat) : Nat :=
  match s.fsm with
  | .idle => 3 + 2 * (2 ^ c.wordbits * (L + 1))
  | .testHit => if hit c s r then 1 else 2 + 2 * (2 ^ c.wordbits * (L + 1))
  | .evict => 1 + 2 ^ c.wordbits * (L + 1) + (2 ^ c.wordbits - s.word) * (L + 1) - w
  | .refill => 1 + (2 ^ c.wordbits - s.word) * (L + 1) - w

theorem lat_ack (M0 : Mem) (s : CacheState) (mem : Mem) (r : Req) (o : Lat) :
    ((latMem c.nbs M0).out mem (toSlave c s r, o)).ack = ((s.fsm == .evict || s.fsm == .refill) && o.ack) := by
  show ((toSlave c s r).active && o.ack) = _
  rw [toSlave_active]

/-- **Bounded liveness of the cache**: from any FSM state (with the registered line address following the held
    request) the request is acknowledged within `rank` cycles — from IDLE: 2 cycles on a hit, at most
    `3 + 2·2^wordbits·(L+1)` on a miss with dirty eviction. -/
theorem ack_within (L : Nat) (M0 : Mem) (r : Req) (hact : r.active = true) :
    ∀ (os : List Lat) (s : CacheState) (mem : Mem) (w : Nat), J c s r → w ≤ L → Within L w os →
      rank c L s r w ≤ os.length → ackedIn ((cache c).over (latMem c.nbs M0)) r (s, mem) os = true := by
  have hline : adrLine c r.adr < 2 ^ c.linebits := Nat.mod_lt _ (Nat.two_pow_pos _)
  have hWpos : 0 < 2 ^ c.wordbits := Nat.two_pow_pos _
  intro os
  induction os with
  | nil =>
    intro s mem w hJ hw _ hlen
    exfalso
    simp only [List.length_nil, Nat.le_zero_eq] at hlen
    unfold rank at hlen
    unfold J at hJ
    cases hf : s.fsm <;> simp only [hf] at hlen hJ
    · omega
    · split at hlen <;> omega
    · have h1 : 1 ≤ 2 ^ c.wordbits - s.word := by have := hJ.2.2; omega
      have : L + 1 ≤ (2 ^ c.wordbits - s.word) * (L + 1) := Nat.le_mul_of_pos_left _ h1
      omega
    · have h1 : 1 ≤ 2 ^ c.wordbits - s.word := by have := hJ.2.2.1; omega
      have : L + 1 ≤ (2 ^ c.wordbits - s.word) * (L + 1) := Nat.le_mul_of_pos_left _ h1
      omega
  | cons o os ih =>
    intro s mem w hJ hw hW hlen
    simp only [ackedIn]
    let rsp := (latMem c.nbs M0).out mem (toSlave c s r, o)
    have hout : (((cache c).over (latMem c.nbs M0)).out (s, mem) (r, o)).ack = mack c s r := rfl
    have hnext : ((cache c).over (latMem c.nbs M0)).next (s, mem) (r, o) =
        (Cache.next c s r rsp, (latMem c.nbs M0).next mem (toSlave c s r, o)) := rfl
    rw [hout, hnext, next_eq]
    simp only [List.length_cons] at hlen
    obtain ⟨htl, hJf⟩ := hJ
    -- the oracle's silence counter after this cycle
    have hW' : ∃ w', w' ≤ L ∧ Within L w' os ∧ (o.ack = true → w' = 0) ∧ (o.ack = false → w' = w + 1) := by
      cases hoa : o.ack with
      | true => simp only [Within, hoa, if_true] at hW; exact ⟨0, Nat.zero_le _, hW, fun _ => rfl, fun h => (by cases h)⟩
      | false =>
        simp only [Within, hoa, Bool.false_eq_true, if_false] at hW
        exact ⟨w + 1, hW.1, hW.2, fun h => (by cases h), fun _ => rfl⟩
    obtain ⟨w', hw', hWn, hwa, hwn⟩ := hW'
    have hsa : rsp.ack = ((s.fsm == .evict || s.fsm == .refill) && o.ack) := lat_ack c M0 s mem r o
    cases hf : s.fsm with
    | idle =>
      simp only [hf] at hJf hlen
      have hm0 : mack c s r = false := by simp [mack, hf]
      rw [hm0, Bool.false_or]
      have hfs : fsmNext c s r rsp = .testHit := by simp [fsmNext, hf, hact]
      have ht : tagsNext c s r rsp = s.tags := by simp [tagsNext, tagWe, hf]
      apply ih _ _ w' ⟨by rw [ht]; exact htl, by simp only [hfs]⟩ hw' hWn
      unfold rank at hlen ⊢
      simp only [hf] at hlen
      simp only [hfs]
      split <;> omega
    | testHit =>
      simp only [hf] at hJf
      cases hh : hit c s r with
      | true => simp [mack, hf, hh]
      | false =>
        have hm0 : mack c s r = false := by simp [mack, hf, hh]
        rw [hm0, Bool.false_or]
        have hrank : 2 + 2 * (2 ^ c.wordbits * (L + 1)) ≤ os.length + 1 := by
          unfold rank at hlen; simp only [hf, hh, Bool.false_eq_true, if_false] at hlen; exact hlen
        have hw0 : wordNext c s rsp = 0 := by simp [wordNext, hf]
        have htd : tagDo s = T s.tags (adrLine c r.adr) := by simp [tagDo, T, hJf]
        cases hdirty : (T s.tags (adrLine c r.adr)).2 with
        | true =>
          have hfs : fsmNext c s r rsp = .evict := by simp [fsmNext, hf, hh, htd, hdirty]
          have ht : tagsNext c s r rsp = s.tags := by simp [tagsNext, tagWe, hf, hh, htd, hdirty]
          apply ih _ _ w' ⟨by rw [ht]; exact htl, by simp only [hfs, hw0]; exact ⟨trivial, hWpos⟩⟩ hw' hWn
          unfold rank
          simp only [hfs, hw0, Nat.sub_zero]
          omega
        | false =>
          have hfs : fsmNext c s r rsp = .refill := by simp [fsmNext, hf, hh, htd, hdirty]
          have ht : tagsNext c s r rsp = s.tags.set (adrLine c r.adr) (adrTag c r.adr, false) := by
            simp [tagsNext, tagWe, hf, hh, htd, hdirty]
          apply ih _ _ w' ⟨by rw [ht]; simp [htl], by
            simp only [hfs, hw0, ht]
            refine ⟨trivial, hWpos, ?_⟩
            rw [T_set _ _ _ _ (by rw [htl]; exact hline)]; simp⟩ hw' hWn
          unfold rank
          simp only [hfs, hw0, Nat.sub_zero]
          omega
    | evict =>
      simp only [hf] at hJf
      obtain ⟨hlr, hword⟩ := hJf
      have hm0 : mack c s r = false := by simp [mack, hf]
      rw [hm0, Bool.false_or]
      have hra : rsp.ack = o.ack := by rw [hsa, hf]; simp
      have hA : L + 1 ≤ (2 ^ c.wordbits - s.word) * (L + 1) := Nat.le_mul_of_pos_left _ (by omega)
      have hrank : 1 + 2 ^ c.wordbits * (L + 1) + (2 ^ c.wordbits - s.word) * (L + 1) - w ≤ os.length + 1 := by
        unfold rank at hlen; simp only [hf] at hlen; exact hlen
      cases hoa : o.ack with
      | false =>
        have hfs : fsmNext c s r rsp = .evict := by simp [fsmNext, hf, hra, hoa]
        have ht : tagsNext c s r rsp = s.tags := by simp [tagsNext, tagWe, hf, hra, hoa]
        have hwd : wordNext c s rsp = s.word := by simp [wordNext, hf, hra, hoa]
        apply ih _ _ w' ⟨by rw [ht]; exact htl, by simp only [hfs, hwd]; exact ⟨trivial, hword⟩⟩ hw' hWn
        unfold rank
        simp only [hfs, hwd]
        have := hwn hoa
        omega
      | true =>
        have hw0 := hwa hoa
        cases hlast : lastWord c s with
        | false =>
          have hnl : s.word + 1 < 2 ^ c.wordbits := by
            have : ¬ s.word + 1 = 2 ^ c.wordbits := by rw [← lastWord_iff s hword, hlast]; simp
            omega
          have hfs : fsmNext c s r rsp = .evict := by simp [fsmNext, hf, hra, hoa, hlast]
          have ht : tagsNext c s r rsp = s.tags := by simp [tagsNext, tagWe, hf, hra, hoa, hlast]
          have hwd : wordNext c s rsp = s.word + 1 := by simp [wordNext, hf, hra, hoa, hlast, Nat.mod_eq_of_lt hnl]
          apply ih _ _ w' ⟨by rw [ht]; exact htl, by simp only [hfs, hwd]; exact ⟨trivial, hnl⟩⟩ hw' hWn
          unfold rank
          simp only [hfs, hwd]
          have hsub : (2 ^ c.wordbits - (s.word + 1)) * (L + 1) + (L + 1) = (2 ^ c.wordbits - s.word) * (L + 1) := by
            have : 2 ^ c.wordbits - s.word = (2 ^ c.wordbits - (s.word + 1)) + 1 := by omega
            rw [this, Nat.add_mul, Nat.one_mul]
          omega
        | true =>
          have hne : (CacheFsm.evict == CacheFsm.testHit) = false := by decide
          have hfs : fsmNext c s r rsp = .refill := by simp [fsmNext, hf, hra, hoa, hlast]
          have ht : tagsNext c s r rsp = s.tags.set (adrLine c r.adr) (adrTag c r.adr, false) := by
            simp [tagsNext, tagWe, hf, hra, hoa, hlast, hne]
          have hwd : wordNext c s rsp = 0 := by simp [wordNext, hf, hra, hoa, hlast]
          apply ih _ _ w' ⟨by rw [ht]; simp [htl], by
            simp only [hfs, hwd, ht]
            refine ⟨trivial, hWpos, ?_⟩
            rw [T_set _ _ _ _ (by rw [htl]; exact hline)]; simp⟩ hw' hWn
          unfold rank
          simp only [hfs, hwd, Nat.sub_zero]
          omega
    | refill =>
      simp only [hf] at hJf
      obtain ⟨hlr, hword, htag⟩ := hJf
      have hm0 : mack c s r = false := by simp [mack, hf]
      rw [hm0, Bool.false_or]
      have hra : rsp.ack = o.ack := by rw [hsa, hf]; simp
      have hA : L + 1 ≤ (2 ^ c.wordbits - s.word) * (L + 1) := Nat.le_mul_of_pos_left _ (by omega)
      have hrank : 1 + (2 ^ c.wordbits - s.word) * (L + 1) - w ≤ os.length + 1 := by
        unfold rank at hlen; simp only [hf] at hlen; exact hlen
      have ht : tagsNext c s r rsp = s.tags := by simp [tagsNext, tagWe, hf]
      cases hoa : o.ack with
      | false =>
        have hfs : fsmNext c s r rsp = .refill := by simp [fsmNext, hf, hra, hoa]
        have hwd : wordNext c s rsp = s.word := by simp [wordNext, hf, hra, hoa]
        apply ih _ _ w' ⟨by rw [ht]; exact htl, by simp only [hfs, hwd, ht]; exact ⟨trivial, hword, htag⟩⟩ hw' hWn
        unfold rank
        simp only [hfs, hwd]
        have := hwn hoa
        omega
      | true =>
        have hw0 := hwa hoa
        cases hlast : lastWord c s with
        | false =>
          have hnl : s.word + 1 < 2 ^ c.wordbits := by
            have : ¬ s.word + 1 = 2 ^ c.wordbits := by rw [← lastWord_iff s hword, hlast]; simp
            omega
          have hfs : fsmNext c s r rsp = .refill := by simp [fsmNext, hf, hra, hoa, hlast]
          have hwd : wordNext c s rsp = s.word + 1 := by simp [wordNext, hf, hra, hoa, Nat.mod_eq_of_lt hnl]
          apply ih _ _ w' ⟨by rw [ht]; exact htl, by simp only [hfs, hwd, ht]; exact ⟨trivial, hnl, htag⟩⟩ hw' hWn
          unfold rank
          simp only [hfs, hwd]
          have hsub : (2 ^ c.wordbits - (s.word + 1)) * (L + 1) + (L + 1) = (2 ^ c.wordbits - s.word) * (L + 1) := by
            have : 2 ^ c.wordbits - s.word = (2 ^ c.wordbits - (s.word + 1)) + 1 := by omega
            rw [this, Nat.add_mul, Nat.one_mul]
          omega
        | true =>
          have hfs : fsmNext c s r rsp = .testHit := by simp [fsmNext, hf, hra, hoa, hlast]
          apply ih _ _ w' ⟨by rw [ht]; exact htl, by simp only [hfs]⟩ hw' hWn
          unfold rank
          simp only [hfs]
          -- the refilled line now hits
          have hhit : hit c { data := dataNext c s r rsp, tags := tagsNext c s r rsp, lineReg := adrLine c r.adr,
                               offR := adrOffset c r.adr, word := wordNext c s rsp, fsm := CacheFsm.testHit } r = true := by
            simp only [hit, tagDo, ht]
            have : s.tags.getD (adrLine c r.adr) (0, false) = T s.tags (adrLine c r.adr) := rfl
            rw [this, htag]; simp
          rw [hhit]
          simp only [if_true]
          omega

/-- From IDLE: the miss bound, explicit in `wordbits` and `L`. -/
theorem idle_bound (L : Nat) (s : CacheState) (r : Req) (w : Nat) (h : s.fsm = .idle) :
    rank c L s r w = 3 + 2 * (2 ^ c.wordbits * (L + 1)) := by simp [rank, h]

end Cache
end Litex.WbMem
