import LitexModel.Wishbone.AddrGlue
import LitexProofs.Wishbone.Conv
import LitexProofs.Wishbone.Remap
/-
  `SoCBusHandler.add_adapter` on a word-addressed Wishbone interface in front of a byte-addressed bus:
  `wishbone.Converter` (width) followed by the addressing re-wiring with the shift of the CONVERTED width.
-/
namespace Litex.WbMem
open Litex Litex.Bridge.Adapter

theorem lg_bus (sh : Nat) : lg (8 * 2 ^ sh) = sh := by
  unfold lg
  rw [Nat.mul_div_cancel_left _ (by decide : 0 < 8), Nat.log2_two_pow]

/-- The address on the byte-addressed bus for sub-word `count` of wide word `a` (through b2-c09's byte map of the
    addressing glue): the sub-word address shifted by `log2(bus bytes)`. -/
theorem glueSubAddr_eq (c : DownCfg) (sh count a : Nat) :
    glueSubAddr c sh count a = wordToByte sh (count + c.ratio * a) := by
  simp [glueSubAddr, elemByte, glueElem, lg_bus, Down.toSlave, wordToByte]

theorem byteToWord_wordToByte (sh a : Nat) : byteToWord sh (wordToByte sh a) = a := by
  simp [byteToWord, wordToByte, Nat.mul_div_cancel _ (Nat.two_pow_pos sh)]

/-- A byte-addressed Wishbone slave of `nb` lanes: a byte memory behind the `adr[sh:]` wiring every byte-addressed
    LiteX slave/bridge applies. -/
def byteMem (nb sh : Nat) (M0 : Mem) : Slave Lat (Unit × Mem) := (adrAdapter (byteToWord sh)).over (latMem nb M0)

/-- The byte-addressed bus seen through the word->byte re-wiring of `add_adapter`. -/
def gluedMem (nb sh : Nat) (M0 : Mem) : Slave Lat (Unit × (Unit × Mem)) :=
  (adrAdapter (wordToByte sh)).over (byteMem nb sh M0)

theorem gluedMem_refines (nb sh : Nat) (M0 : Mem) :
    Refines (gluedMem nb sh M0) (fun a => byteToWord sh (wordToByte sh a)) nb (fun _ => True)
      (AdrAdapter.Inv (wordToByte sh) (AdrAdapter.Inv (byteToWord sh) (fun t _ M => t = M))) := by
  have hB := AdrAdapter.refines (byteToWord sh) (latMem nb M0) id nb (fun t _ M => t = M) (fun _ => True)
    (fun _ => True) (fun _ _ _ => trivial) (latMem_refines nb M0)
  exact AdrAdapter.refines (wordToByte sh) (byteMem nb sh M0) (fun a => id (byteToWord sh a)) nb _ (fun _ => True)
    (fun _ => True) (fun _ _ _ => trivial) hB

end Litex.WbMem
