import LitexModel.Wishbone.ToCsrBank
import LitexProofs.Wishbone.ToCsr
import LitexProofs.Csr.Bank
/-
  `wishbone.Wishbone2CSR` over a CSR side that behaves like a register file on its mapped addresses
  (`CsrSideOk`): refinement to the byte memory formed by the register contents — and `csr_bus.CSRBank`
  (b-c12's model) with one-word `CSRStorage` registers is such a side.
-/
namespace Litex.WbMem
open Litex

/-- The CSR side is a register file on the addresses `Mapped`: `V` reads the register contents as a byte memory
    (CSR word `a` at bytes `a*nb ..`); a cycle without `we` changes nothing (no read side effects), a `we` cycle
    on a mapped address replaces exactly that word, and `dat_r` shows one cycle later the word addressed. -/
structure CsrSideOk {ω κ : Type} (side : CsrSide ω κ) (nb : Nat) (V : κ → Mem) (Mapped : Nat → Prop) : Prop where
  quiet : ∀ s q o, q.we = false → V (side.next s q o) = V s
  write : ∀ s q o, q.we = true → Mapped q.adr → q.dat.length = nb → (∀ b ∈ q.dat, b < 256) →
    V (side.next s q o) = (V s).writeMasked (q.adr * nb) (List.replicate nb true) q.dat
  read : ∀ s q o, Mapped q.adr → side.datR (side.next s q o) = (V s).readBytes (q.adr * nb) nb

namespace ToCsr
variable (c : ToCsrCfg) {ω κ : Type} (side : CsrSide ω κ) (V : κ → Mem) (Mapped : Nat → Prop)

/-- Inputs of the theorem: all-or-nothing write selects (the CSR bus has no byte enables), a mapped CSR address,
    data lines carrying bytes. -/
def PB (i : Req × ω) : Prop :=
  (i.1.we = true → (selNone i.1.sel c.nb = true ∨ ∀ k, k < c.nb → i.1.sel.getD k false = true)) ∧
  Mapped (csrAdr c i.1) ∧ ∀ b ∈ i.1.dat, b < 256

theorem window_bytes (l : List Byte) (n : Nat) (h : ∀ b ∈ l, b < 256) : ∀ b ∈ window l 0 0 n, b < 256 := by
  intro b hb
  simp only [window, List.mem_map, List.mem_range] at hb
  obtain ⟨i, _, rfl⟩ := hb
  simp only [Nat.zero_add, List.getD_eq_getElem?_getD]
  cases hi : l[i]? with
  | none => simp
  | some x => simp only [Option.getD_some]; exact h x (List.mem_of_getElem? hi)

def InvOn (st : ToCsrState × κ) (p : Option Req) (M : Mem) : Prop :=
  match st.1.fsm with
  | .idle => c.register = true ∧ p = none ∧ st.1.csr.we = false ∧ V st.2 = M
  | .writeRead =>
    if c.register then ∃ r, p = some r ∧ r.active = true ∧ st.1.csr = latch c r ∧ V st.2 = M
    else p = none ∧ V st.2 = M
  | .ack => ∃ r, p = some r ∧ r.active = true ∧ (c.register = true → st.1.csr.we = false) ∧
      V st.2 = after c r M ∧ side.datR st.2 = M.readBytes (csrAdr c r * c.nb) c.nb

/-- The CSR access made for `r`: register contents and `dat_r` afterwards. -/
theorem access (h : CsrSideOk side c.nb V Mapped) (t : κ) (o : ω) (r : Req) (M : Mem) (hV : V t = M)
    (hm : Mapped (csrAdr c r)) (hb : ∀ b ∈ r.dat, b < 256) :
    V (side.next t (latch c r) o) = after c r M ∧
    side.datR (side.next t (latch c r) o) = M.readBytes (csrAdr c r * c.nb) c.nb := by
  refine ⟨?_, by rw [← hV]; exact h.read t (latch c r) o hm⟩
  unfold after
  cases hw : (r.we && anySel c r) with
  | false =>
    simp only [Bool.false_eq_true, if_false]
    rw [← hV]; exact h.quiet t _ o hw
  | true =>
    simp only [if_true]
    rw [← hV]
    exact h.write t (latch c r) o hw hm (by simp [latch]) (window_bytes _ _ hb)

theorem refinesOn (h : CsrSideOk side c.nb V Mapped) :
    Refines (wb2csrOn c side) (adrMap c) c.nb (PB c Mapped) (InvOn c side V) := by
  intro st p M i hinv hhold hP
  obtain ⟨r, u⟩ := i
  obtain ⟨s, t⟩ := st
  obtain ⟨hsel, hmap, hbytes⟩ := hP
  dsimp only at hsel hmap hbytes
  have hout : (wb2csrOn c side).out (s, t) (r, u) = rsp c s (side.datR t) := rfl
  have hnext : (wb2csrOn c side).next (s, t) (r, u) = (next c s r, side.next t (csrOut c s r) u) := rfl
  cases hf : s.fsm with
  | idle =>
    simp only [InvOn, hf] at hinv
    obtain ⟨hreg, hp, hwe, hregs⟩ := hinv
    subst hp
    have hack : ((wb2csrOn c side).out (s, t) (r, u)).ack = false := by simp [hout, rsp, hf]
    apply StepOk.mk_no_ack _ _ _ _ _ _ _ hack
    rw [hnext]
    have hq : csrOut c s r = s.csr := by simp [csrOut, hreg]
    have hV' : V (side.next t (csrOut c s r) u) = M := by rw [hq, h.quiet t _ u hwe, hregs]
    cases hact : r.active with
    | false =>
      simp only [pendingAfter, hact, Bool.false_and, Bool.false_eq_true, if_false, InvOn, next, hreg, hf, if_true]
      exact ⟨trivial, trivial, hwe, hV'⟩
    | true =>
      simp only [pendingAfter, hact, hack, Bool.not_false, Bool.and_self, if_true, InvOn, next, hreg, hf]
      exact ⟨r, rfl, hact, rfl, hV'⟩
  | writeRead =>
    simp only [InvOn, hf] at hinv
    have hack : ((wb2csrOn c side).out (s, t) (r, u)).ack = false := by simp [hout, rsp, hf]
    apply StepOk.mk_no_ack _ _ _ _ _ _ _ hack
    rw [hnext]
    cases hreg : c.register with
    | true =>
      simp only [hreg, if_true] at hinv
      obtain ⟨r0, hp, hact, hcsr, hregs⟩ := hinv
      have := hhold r0 hp; simp only at this; subst this
      have hq : csrOut c s r = latch c r := by simp [csrOut, hreg, hcsr]
      obtain ⟨ha1, ha2⟩ := access c side V Mapped h t u r M hregs hmap hbytes
      simp only [pendingAfter, hact, hack, Bool.not_false, Bool.and_self, if_true, InvOn, next, hreg, hf, hq]
      exact ⟨r, rfl, hact, fun _ => trivial, ha1, ha2⟩
    | false =>
      simp only [hreg, Bool.false_eq_true, if_false] at hinv
      obtain ⟨hp, hregs⟩ := hinv
      subst hp
      cases hact : r.active with
      | false =>
        have hq : (csrOut c s r).we = false := by simp [csrOut, hreg, hf, hact]
        simp only [pendingAfter, hact, Bool.false_and, Bool.false_eq_true, if_false, InvOn, next, hreg, hf]
        exact ⟨trivial, by rw [h.quiet t _ u hq, hregs]⟩
      | true =>
        have hq : csrOut c s r = latch c r := by simp [csrOut, hreg, hf, hact, latch]
        obtain ⟨ha1, ha2⟩ := access c side V Mapped h t u r M hregs hmap hbytes
        simp only [pendingAfter, hact, hack, Bool.not_false, Bool.and_self, if_true, InvOn, next, hreg, hf, hq,
          Bool.false_eq_true, if_false]
        exact ⟨r, rfl, hact, (by intro h; cases h), ha1, ha2⟩
  | ack =>
    simp only [InvOn, hf] at hinv
    obtain ⟨r0, hp, hact, hcw, hregs, hdatR⟩ := hinv
    have := hhold r0 hp; simp only at this; subst this
    have hack : ((wb2csrOn c side).out (s, t) (r, u)).ack = true := by simp [hout, rsp, hf]
    apply StepOk.mk_ack _ _ _ _ _ _ _ hack hact
    · intro _ k hk _
      rw [hout]
      simp only [rsp, hf]
      rw [window_getD _ _ _ _ _ hk, Nat.zero_add, hdatR, Mem.readBytes_getD _ _ _ _ hk]
      rfl
    · rw [hnext]
      have hqwe : (csrOut c s r).we = false := by
        cases hreg : c.register with
        | true => simp [csrOut, hreg, hcw hreg]
        | false => simp [csrOut, hreg, hf, zeroCsr]
      have hafter := after_eq c r M hsel
      have hV' : V (side.next t (csrOut c s r) u) =
          (if r.we then M.writeMasked (adrMap c r.adr * c.nb) (r.sel.take c.nb) r.dat else M) := by
        rw [h.quiet t _ u hqwe, hregs, hafter]
      cases hreg : c.register with
      | true =>
        simp only [InvOn, next, hreg, hf]
        exact ⟨trivial, trivial, hcw hreg, hV'⟩
      | false =>
        simp only [InvOn, next, hreg, hf, Bool.false_eq_true, if_false]
        exact ⟨trivial, hV'⟩

theorem invOn_init (M : Mem) (hV : V side.init = M) : InvOn c side V (wb2csrOn c side).init none M := by
  cases hreg : c.register <;> simp [InvOn, wb2csrOn, ToCsr.init, hreg, zeroCsr, hV]

end ToCsr
end Litex.WbMem
