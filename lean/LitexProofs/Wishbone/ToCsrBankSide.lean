import LitexProofs.Wishbone.ToCsrBank
namespace Litex.WbMem
open Litex Litex.Csr

/-! ### bytes of bus words -/

theorem wordBytes_mod (n v : Nat) : wordBytes n (v % 2 ^ (8 * n)) = wordBytes n v := by
  induction n generalizing v with
  | zero => rfl
  | succ n ih =>
    have h256 : (2 : Nat) ^ (8 * (n + 1)) = 256 * 2 ^ (8 * n) := by
      rw [show 8 * (n + 1) = 8 + 8 * n by omega, Nat.pow_add]
    simp only [wordBytes]
    rw [h256, Nat.mod_mul_right_mod, Nat.mod_mul_right_div_self, ih]

theorem wordBytes_bytesWord (l : List Byte) (h : ∀ b ∈ l, b < 256) : wordBytes l.length (bytesWord l) = l := by
  induction l with
  | nil => rfl
  | cons b bs ih =>
    have hb : b < 256 := h b (List.mem_cons_self ..)
    have hbs := ih (fun x hx => h x (List.mem_cons_of_mem _ hx))
    simp only [List.length_cons, wordBytes, bytesWord]
    rw [Nat.mod_eq_of_lt hb]
    have e1 : (b + 256 * bytesWord bs) % 256 = b := by rw [Nat.add_mul_mod_self_left, Nat.mod_eq_of_lt hb]
    have e2 : (b + 256 * bytesWord bs) / 256 = bytesWord bs := by
      rw [Nat.add_mul_div_left _ _ (by decide : 0 < 256), Nat.div_eq_of_lt hb, Nat.zero_add]
    rw [e1, e2, hbs]

theorem list_eq_map_getD {α : Type} (l : List α) (d : α) : l = (List.range l.length).map (fun i => l.getD i d) := by
  apply List.ext_getElem
  · simp
  · intro i h1 h2
    simp [List.getD_eq_getElem?_getD, List.getElem?_eq_getElem h1]


theorem bytes_setSlice (nb v x : Nat) : wordBytes nb (setSlice 0 (8 * nb) v x) = wordBytes nb x := by
  rw [← wordBytes_mod nb (setSlice 0 (8 * nb) v x), ← wordBytes_mod nb x]
  have := slice_setSlice_same 0 (8 * nb) v x
  rw [slice_zero] at this
  unfold trunc at this
  rw [this]

/-! ### `CSRBank` of one-word `CSRStorage` registers is a register file -/

/-- Every register of the bank is a `CSRStorage` exactly one bus word wide, without `write_from_dev`; the
    simple CSRs fit the page. -/
def PlainBank (nb : Nat) (b : BankCfg) : Prop :=
  b.bw = 8 * nb ∧ 0 < nb ∧ b.Fits ∧ ∀ r ∈ b.regs, r.kind = .storage ∧ r.size = b.bw ∧ r.wfd = false

/-- Register contents as a byte memory: CSR word `a` at bytes `a*nb ..`, 0 where the bank has no register. -/
def bankV (nb : Nat) (b : BankCfg) (s : BankState) : Mem := fun x =>
  match b.hit (x / nb) with
  | some sc => (wordBytes nb (s.reg sc.reg).val).getD (x % nb) 0
  | none => 0

/-- The CSR address decodes to a register of the bank. -/
def bankMapped (b : BankCfg) (a : Nat) : Prop := (b.hit a).isSome = true

instance (b : BankCfg) (a : Nat) : Decidable (bankMapped b a) := by unfold bankMapped; infer_instance

section
variable (nb : Nat) (b : BankCfg) (hp : PlainBank nb b)
include hp

theorem plain_spec (k : Nat) (hk : k < b.regs.length) :
    (b.spec k).kind = .storage ∧ (b.spec k).size = b.bw ∧ (b.spec k).wfd = false := by
  apply hp.2.2.2
  simp only [BankCfg.spec, List.getD_eq_getElem?_getD, List.getElem?_eq_getElem hk, Option.getD_some]
  exact List.getElem_mem hk

theorem plain_bw_pos : 0 < b.bw := by have := hp.1; have := hp.2.1; omega

theorem plain_nwords : nwords b.bw b.bw = 1 := by
  have h := plain_bw_pos nb b hp
  unfold nwords
  rw [show b.bw + b.bw - 1 = (b.bw - 1) + 1 * b.bw by omega, Nat.add_mul_div_right _ _ h,
    Nat.div_eq_of_lt (by omega)]

/-- What a hit is in a plain bank: word 0 of register `k`, bits `[0, bw)`. -/
theorem plain_hit (a : Nat) (sc : Simple) (h : b.hit a = some sc) :
    ∃ k, k < b.regs.length ∧ sc = b.simple k 0 ∧ a = b.wordAdr k 0 ∧ sc.reg = k ∧ sc.lo = 0 ∧ sc.nbits = b.bw ∧
      b.ValidWord k 0 := by
  obtain ⟨k, j, hv, hsc, ha⟩ := BankCfg.hit_inv b a sc h
  obtain ⟨hkind, hsize, _⟩ := plain_spec nb b hp k hv.1
  have hne : (b.spec k).kind ≠ .raw := by rw [hkind]; decide
  have hj : j = 0 := by
    have := hv.2
    rw [show b.regs.getD k default = b.spec k from rfl, regWords_of_not_raw _ _ hne, hsize,
      plain_nwords nb b hp] at this
    omega
  subst hj
  obtain ⟨hlo, hnb⟩ := simple_lo b k 0 hne
  refine ⟨k, hv.1, hsc, ha, by rw [hsc, BankCfg.simple_reg], by rw [hsc, hlo, Nat.zero_mul], ?_, hv⟩
  rw [hsc, hnb, hsize]; simp [wordBits]

/-- Next value of a register of a plain bank. -/
theorem plain_next_val (s : BankState) (i : BankIn) (k : Nat) (hk : k < b.regs.length) :
    (((bank b).next s i).reg k).val =
      match (if i.bus.we then b.hitReg i.bus.adr k else none) with
      | none => (s.reg k).val
      | some sc => setSlice sc.lo sc.nbits (s.reg k).val i.bus.datW := by
  obtain ⟨hkind, hsize, hwfd⟩ := plain_spec nb b hp k hk
  rw [next_reg b s i k hk]
  have hat : isAtomic b.bw (b.spec k) = false := by
    simp [isAtomic, hsize, plain_nwords nb b hp]
  generalize (if i.bus.we then b.hitReg i.bus.adr k else none) = w
  cases w <;> simp [regNext, hkind, devVal, hwfd, hat]

theorem bank_sideOk : CsrSideOk (bankSide nb b) nb (bankV nb b) (bankMapped b) := by
  have hnb := hp.2.1
  have hbw := hp.1
  have hfit := hp.2.2.1
  refine ⟨?_, ?_, ?_⟩
  · -- no `we`: the registers keep their contents (no read side effects)
    intro s q dev hwe
    funext x
    simp only [bankV, bankSide]
    cases hh : b.hit (x / nb) with
    | none => rfl
    | some sc =>
      obtain ⟨k, hk, _, _, hreg, _, _, _⟩ := plain_hit nb b hp _ sc hh
      simp only [hreg]
      rw [plain_next_val nb b hp s _ k hk]
      simp [busOfCsrReq, hwe]
  · -- `we` on a mapped address: exactly that word is replaced
    intro s q dev hwe hmap hlen hbytes
    obtain ⟨sc0, hh0⟩ := Option.isSome_iff_exists.mp hmap
    obtain ⟨k0, hk0, hsc0, ha0, hreg0, hlo0, hnb0, hv0⟩ := plain_hit nb b hp _ sc0 hh0
    funext x
    rw [Mem.writeMasked_apply, ToCsr.replicate_getD]
    simp only [bankV, bankSide]
    by_cases hx : x / nb = q.adr
    · have hle : q.adr * nb ≤ x := by rw [← hx]; exact Nat.div_mul_le_self x nb
      have hsub : x - q.adr * nb = x % nb := by
        have := Nat.div_add_mod x nb; rw [hx, Nat.mul_comm] at this; omega
      have hlt : x % nb < nb := Nat.mod_lt _ hnb
      simp only [hle, hsub, hlt, decide_true, and_self, if_true, hx, hh0, hreg0]
      rw [plain_next_val nb b hp s _ k0 hk0]
      have hq : b.hitReg q.adr k0 = some sc0 := by
        rw [ha0, BankCfg.hitReg_wordAdr b k0 0 hfit hv0, hsc0]
      simp only [busOfCsrReq, hwe, if_true, hq, hlo0, hnb0, hbw]
      have hwb := wordBytes_bytesWord q.dat hbytes
      rw [hlen] at hwb
      rw [bytes_setSlice nb, hwb]
    · have hcond : ¬ (q.adr * nb ≤ x ∧ decide (x - q.adr * nb < nb) = true) := by
        intro ⟨h1, h2⟩
        have h2' : x - q.adr * nb < nb := of_decide_eq_true h2
        apply hx
        have : x = (x - q.adr * nb) + q.adr * nb := by omega
        rw [this, Nat.add_mul_div_right _ _ hnb, Nat.div_eq_of_lt h2', Nat.zero_add]
      simp only [hcond, if_false]
      cases hh : b.hit (x / nb) with
      | none => rfl
      | some sc =>
        obtain ⟨k, hk, _, ha, hreg, _, _, _⟩ := plain_hit nb b hp _ sc hh
        simp only [hreg]
        rw [plain_next_val nb b hp s _ k hk]
        have hne : k ≠ k0 := by
          intro he; apply hx; rw [ha, ha0, he]
        have hq : b.hitReg q.adr k = none := by
          rw [ha0]; exact BankCfg.hitReg_wordAdr_other b k0 0 k hfit hv0 hne
        simp [busOfCsrReq, hq]
  · -- `dat_r` one cycle after addressing a mapped word: its bytes
    intro s q dev hmap
    obtain ⟨sc0, hh0⟩ := Option.isSome_iff_exists.mp hmap
    obtain ⟨k0, hk0, _, _, hreg0, hlo0, hnb0, _⟩ := plain_hit nb b hp _ sc0 hh0
    obtain ⟨hkind, _, _⟩ := plain_spec nb b hp k0 hk0
    have hd : ((bank b).next s { bus := busOfCsrReq q, dev := dev }).datR = slice 0 (8 * nb) (s.reg k0).val := by
      rw [next_datR]
      simp only [busOfCsrReq, hh0, hreg0, wordVal, hkind, hlo0, hnb0, hbw]
    simp only [bankSide, hd]
    rw [slice_zero]
    unfold trunc
    rw [wordBytes_mod]
    rw [list_eq_map_getD (wordBytes nb (s.reg k0).val) 0, wordBytes_length]
    unfold Mem.readBytes
    apply List.map_congr_left
    intro i hi
    have hi' : i < nb := List.mem_range.mp hi
    have h1 : (q.adr * nb + i) / nb = q.adr := by
      rw [Nat.add_comm, Nat.add_mul_div_right _ _ hnb, Nat.div_eq_of_lt hi', Nat.zero_add]
    have h2 : (q.adr * nb + i) % nb = i := by
      rw [Nat.add_comm, Nat.add_mul_mod_self_right, Nat.mod_eq_of_lt hi']
    simp only [bankV, h1, hh0, hreg0, h2]

end

end Litex.WbMem
