import LitexModel.Wishbone.ToCsr
import LitexProofs.Wishbone.SramBus
/-
  `wishbone.Wishbone2CSR` in front of a CSR register file (`csrFile`): refinement to the byte memory formed by
  the CSR words, for both `register` modes.  The CSR bus has no byte enables, so the flat-memory statement
  needs every write to select all lanes or none (`FullSelWrites`).
-/
namespace Litex.WbMem
open Litex

namespace ToCsr
variable (c : ToCsrCfg)

/-- Address decoding: `wishbone.adr[shift:]` truncated to the CSR address width. -/
def adrMap (a : Nat) : Nat := (a >>> c.shift) % 2 ^ c.caw

theorem csrAdr_eq (r : Req) : csrAdr c r = adrMap c r.adr := rfl

/-- Writes select all byte lanes or none (the CSR bus cannot express anything else). -/
def FullSelWrites (i : Req × Unit) : Prop :=
  i.1.we = true → (selNone i.1.sel c.nb = true ∨ ∀ k, k < c.nb → i.1.sel.getD k false = true)

/-- The CSR request latched (registered mode) / driven (un-registered mode) for request `r`. -/
def latch (r : Req) : CsrReq :=
  { adr := csrAdr c r, we := r.we && anySel c r, re := !r.we && anySel c r, dat := window r.dat 0 0 c.nb }

/-- Register file content after the CSR access made for `r`. -/
def after (r : Req) (M : Mem) : Mem :=
  if r.we && anySel c r then M.writeMasked (csrAdr c r * c.nb) (List.replicate c.nb true) (window r.dat 0 0 c.nb) else M

theorem replicate_getD (n k : Nat) : (List.replicate n true).getD k false = decide (k < n) := by
  by_cases h : k < n
  · simp [List.getD_eq_getElem?_getD, List.getElem?_replicate, h]
  · simp [List.getD_eq_getElem?_getD, List.getElem?_replicate, h]

/-- With all-or-nothing write selects, the whole-word CSR write is the masked byte write. -/
theorem after_eq (r : Req) (M : Mem) (hP : r.we = true → (selNone r.sel c.nb = true ∨ ∀ k, k < c.nb → r.sel.getD k false = true)) :
    after c r M = if r.we then M.writeMasked (adrMap c r.adr * c.nb) (r.sel.take c.nb) r.dat else M := by
  unfold after
  cases hwe : r.we with
  | false => rfl
  | true =>
    simp only [Bool.true_and, if_true]
    rcases hP hwe with hn | hall
    · have : anySel c r = false := by simp [anySel, hn]
      rw [this]
      simp only [Bool.false_eq_true, if_false]
      symm
      apply Mem.writeMasked_none
      intro i
      rw [take_getD]
      rw [selNone_iff] at hn
      split
      · exact hn _ ‹_›
      · rfl
    · by_cases hnb : c.nb = 0
      · -- degenerate: no lanes at all
        have e1 : ∀ M' : Mem, M'.writeMasked (csrAdr c r * c.nb) (List.replicate c.nb true) (window r.dat 0 0 c.nb) = M' := by
          intro M'; apply Mem.writeMasked_none; intro i; simp [hnb]
        have e2 : M.writeMasked (adrMap c r.adr * c.nb) (r.sel.take c.nb) r.dat = M := by
          apply Mem.writeMasked_none; intro i; simp [hnb]
        simp only [e1, e2]; split <;> rfl
      · have hpos : 0 < c.nb := Nat.pos_of_ne_zero hnb
        have hany : anySel c r = true := by
          cases hz : selNone r.sel c.nb with
          | false => simp [anySel, hz]
          | true =>
            rw [selNone_iff] at hz
            have a := hz 0 hpos; have b := hall 0 hpos; rw [a] at b; cases b
        rw [hany]; simp only [if_true]
        funext x
        simp only [Mem.writeMasked_apply, take_getD, replicate_getD, csrAdr_eq]
        by_cases h1 : adrMap c r.adr * c.nb ≤ x
        · by_cases h2 : x - adrMap c r.adr * c.nb < c.nb
          · simp only [h1, h2, decide_true, true_and, if_true, hall _ h2, window_getD _ _ _ _ _ h2, Nat.zero_add]
          · simp [h2]
        · simp [h1]

/-- Refinement relation (see the timeline in the file header of the model). -/
def Inv (st : ToCsrState × CsrFileState) (p : Option Req) (M : Mem) : Prop :=
  match st.1.fsm with
  | .idle => c.register = true ∧ p = none ∧ st.1.csr.we = false ∧ st.2.regs = M
  | .writeRead =>
    if c.register then ∃ r, p = some r ∧ r.active = true ∧ st.1.csr = latch c r ∧ st.2.regs = M
    else p = none ∧ st.2.regs = M
  | .ack => ∃ r, p = some r ∧ r.active = true ∧ (c.register = true → st.1.csr.we = false) ∧
      st.2.regs = after c r M ∧ st.2.datR = M.readBytes (csrAdr c r * c.nb) c.nb

theorem inv_init (init : Mem) : Inv c (wb2csrOver c init).init none init := by
  cases hreg : c.register <;> simp [Inv, wb2csrOver, ToCsr.init, hreg, csrFile, zeroCsr]

theorem refines (init : Mem) :
    Refines (wb2csrOver c init) (adrMap c) c.nb (FullSelWrites c) (Inv c) := by
  intro st p M i hinv hhold hP
  obtain ⟨r, u⟩ := i
  obtain ⟨s, cf⟩ := st
  have hout : (wb2csrOver c init).out (s, cf) (r, u) = rsp c s cf.datR := rfl
  have hnext : (wb2csrOver c init).next (s, cf) (r, u) =
      (next c s r, (csrFile c.nb init).next cf (csrOut c s r)) := rfl
  cases hf : s.fsm with
  | idle =>
    simp only [Inv, hf] at hinv
    obtain ⟨hreg, hp, hwe, hregs⟩ := hinv
    subst hp
    have hack : ((wb2csrOver c init).out (s, cf) (r, u)).ack = false := by simp [hout, rsp, hf]
    apply StepOk.mk_no_ack _ _ _ _ _ _ _ hack
    rw [hnext]
    have hq : csrOut c s r = s.csr := by simp [csrOut, hreg]
    cases hact : r.active with
    | false =>
      simp only [Bool.false_eq_true, if_false, Inv, next, hreg, hf, hact, if_true, hq, csrFile, hwe, hregs, and_self]
    | true =>
      simp only [if_true, Inv, next, hreg, hf, hact, hq, csrFile, hwe, hregs, Bool.false_eq_true, if_false]
      exact ⟨r, rfl, hact, rfl, trivial⟩
  | writeRead =>
    simp only [Inv, hf] at hinv
    have hack : ((wb2csrOver c init).out (s, cf) (r, u)).ack = false := by simp [hout, rsp, hf]
    apply StepOk.mk_no_ack _ _ _ _ _ _ _ hack
    rw [hnext]
    cases hreg : c.register with
    | true =>
      simp only [hreg, if_true] at hinv
      obtain ⟨r0, hp, hact, hcsr, hregs⟩ := hinv
      have := hhold r0 hp; simp only at this; subst this
      have hq : csrOut c s r = latch c r := by simp [csrOut, hreg, hcsr]
      simp only [hact, if_true, Inv, next, hreg, hf, hq, csrFile]
      refine ⟨r, rfl, hact, fun _ => trivial, ?_, ?_⟩
      · simp only [latch, after, hregs]
      · simp only [latch, hregs]
    | false =>
      simp only [hreg, Bool.false_eq_true, if_false] at hinv
      obtain ⟨hp, hregs⟩ := hinv
      subst hp
      cases hact : r.active with
      | false =>
        have hq : (csrOut c s r).we = false := by simp [csrOut, hreg, hf, hact]
        simp only [Bool.false_eq_true, if_false, Inv, next, hreg, hf, hact, csrFile, hq, hregs, and_self]
      | true =>
        have hq : csrOut c s r = latch c r := by simp [csrOut, hreg, hf, hact, latch]
        simp only [if_true, Inv, next, hreg, hf, hact, hq, csrFile, Bool.false_eq_true, if_false]
        refine ⟨r, rfl, hact, (by intro h; cases h), ?_, ?_⟩
        · simp only [latch, after, hregs]
        · simp only [latch, hregs]
  | ack =>
    simp only [Inv, hf] at hinv
    obtain ⟨r0, hp, hact, hcw, hregs, hdatR⟩ := hinv
    have := hhold r0 hp; simp only at this; subst this
    have hack : ((wb2csrOver c init).out (s, cf) (r, u)).ack = true := by simp [hout, rsp, hf]
    apply StepOk.mk_ack _ _ _ _ _ _ _ hack hact
    · intro _ k hk _
      rw [hout]
      simp only [rsp, hf]
      rw [window_getD _ _ _ _ _ hk, Nat.zero_add, hdatR, Mem.readBytes_getD _ _ _ _ hk]
      rfl
    · rw [hnext]
      have hqwe : (csrOut c s r).we = false := by
        cases hreg : c.register with
        | true => simp [csrOut, hreg, hcw hreg]
        | false => simp [csrOut, hreg, hf, zeroCsr]
      have hafter := after_eq c r M hP
      cases hreg : c.register with
      | true =>
        simp only [Inv, next, hreg, hf, if_true, csrFile, hqwe, Bool.false_eq_true, if_false, hcw hreg, hregs,
          true_and, hafter]
      | false =>
        simp only [Inv, next, hreg, hf, Bool.false_eq_true, if_false, csrFile, hqwe, hregs, true_and, hafter]

end ToCsr

/-! ### decidability of `Consistent` on concrete histories (negative witnesses in `LitexProps`) -/

instance decReadOk (nb : Nat) (m : Mem) (op : Op) : Decidable (op.readOk nb m) := by
  unfold Op.readOk; exact inferInstance

instance decConsistent (nb : Nat) : (m : Mem) → (l : List Op) → Decidable (Consistent nb m l)
  | _, [] => isTrue trivial
  | m, op :: rest =>
    if h : op.we = true then
      match decConsistent nb (m.apply (op.write nb)) rest with
      | isTrue h1 => isTrue (by simp only [Consistent, h, if_true]; exact h1)
      | isFalse h1 => isFalse (by simp only [Consistent, h, if_true]; exact h1)
    else
      match decReadOk nb m op, decConsistent nb m rest with
      | isTrue h1, isTrue h2 => isTrue (by simp only [Consistent, h, if_false]; exact ⟨h1, h2⟩)
      | isFalse h1, _ => isFalse (by simp only [Consistent, h, if_false]; exact fun x => h1 x.1)
      | _, isFalse h2 => isFalse (by simp only [Consistent, h, if_false]; exact fun x => h2 x.2)

end Litex.WbMem
