import LitexModel.Wishbone.Conv
import LitexProofs.Wishbone.SramBus
import Mathlib.Tactic.Ring
/-
  `wishbone.DownConverter` and `wishbone.UpConverter` in front of the abstract byte memory with arbitrary
  latency (`latMem`): refinement relations and their preservation by every clock cycle.
-/
namespace Litex.WbMem
open Litex

/-! ### byte-memory lemmas about sub-word sequences -/

/-- Writing sub-word `[a, a+n)` of a master word on top of its first `a` lanes gives its first `a+n` lanes. -/
theorem writeMasked_extend (M : Mem) (base a n : Nat) (sel : List Bool) (dat : List Byte) :
    (M.writeMasked base (sel.take a) dat).writeMasked (base + a) ((window sel false a n).take n) (window dat 0 a n) =
      M.writeMasked base (sel.take (a + n)) dat := by
  funext x
  simp only [Mem.writeMasked_apply, take_getD]
  by_cases h1 : base + a ≤ x
  · by_cases h2 : x - (base + a) < n
    · have e1 : a + (x - (base + a)) = x - base := by omega
      have h3 : x - base < a + n := by omega
      have h4 : ¬ x - base < a := by omega
      have h5 : base ≤ x := by omega
      simp only [h1, h2, h3, h4, h5, if_true, true_and, window_getD _ _ _ _ _ h2, e1, if_false, Bool.false_eq_true,
        and_false]
    · have h3 : ¬ x - base < a + n := by omega
      have h4 : ¬ x - base < a := by omega
      simp only [h2, h3, h4, if_false, Bool.false_eq_true, and_false]
  · have h3 : ¬ (base + a ≤ x ∧ (if x - (base + a) < n then (window sel false a n).getD (x - (base + a)) false else false) = true) :=
      fun h => h1 h.1
    rw [if_neg h3]
    by_cases h5 : base ≤ x
    · have h4 : x - base < a := by omega
      have h6 : x - base < a + n := by omega
      simp only [h4, h6, if_true]
    · simp only [h5, false_and, if_false]

/-- A sub-word with no lane selected does not change the picture. -/
theorem writeMasked_skip (M : Mem) (base a n : Nat) (sel : List Bool) (dat : List Byte)
    (h : selNone (window sel false a n) n = true) :
    M.writeMasked base (sel.take a) dat = M.writeMasked base (sel.take (a + n)) dat := by
  funext x
  simp only [Mem.writeMasked_apply, take_getD]
  rw [selNone_iff] at h
  by_cases h5 : base ≤ x
  · by_cases h4 : x - base < a
    · have h6 : x - base < a + n := by omega
      simp only [h4, h6, if_true]
    · by_cases h6 : x - base < a + n
      · have h7 : x - base - a < n := by omega
        have := h _ h7
        rw [window_getD _ _ _ _ _ h7] at this
        have e : a + (x - base - a) = x - base := by omega
        rw [e] at this
        simp only [h4, h6, if_true, if_false, this, Bool.false_eq_true, and_false]
      · simp only [h4, h6, if_false]
  · simp only [h5, false_and, if_false]

namespace Down
variable (c : DownCfg)

theorem mdat_getD_lo (s : DownState) (rsp : Rsp) (j : Nat) (h : j < c.nbm - c.nbs) :
    (mdat c s rsp).getD j 0 = s.datR.getD (c.nbs + j) 0 := by
  unfold mdat
  rw [List.getD_eq_getElem?_getD, List.getElem?_append_left (by simpa using h), ← List.getD_eq_getElem?_getD,
    window_getD _ _ _ _ _ h]

theorem mdat_getD_hi (s : DownState) (rsp : Rsp) (j : Nat) (h1 : c.nbm - c.nbs ≤ j) (h2 : j - (c.nbm - c.nbs) < c.nbs) :
    (mdat c s rsp).getD j 0 = rsp.dat.getD (j - (c.nbm - c.nbs)) 0 := by
  unfold mdat
  rw [List.getD_eq_getElem?_getD, List.getElem?_append_right (by simpa using h1), ← List.getD_eq_getElem?_getD]
  simp only [window_length]
  rw [window_getD _ _ _ _ _ h2, Nat.zero_add]

/-- Progress of the request being served, in lanes. -/
def lanesDone (s : DownState) : Nat := s.count * c.nbs

/-- What holds while request `r` is being served with `s.count` sub-words done: the slave's abstract memory
    `Ms` is the master-level abstract memory plus the first `count` sub-words of a write; the top of the read
    shift register holds the selected bytes of the first `count` sub-words of a read.  `g` is the address
    decoding seen by the master. -/
def Serving (g : Nat → Nat) (s : DownState) (Ms : Mem) (r : Req) (M : Mem) : Prop :=
  Ms = (if r.we then M.writeMasked (g r.adr * c.nbm) (r.sel.take (lanesDone c s)) r.dat else M) ∧
  (r.we = false → ∀ j, j < lanesDone c s → r.sel.getD j false = true →
      s.datR.getD ((c.ratio - s.count) * c.nbs + j) 0 = M (g r.adr * c.nbm + j))

theorem serving_of_idle (g : Nat → Nat) (s : DownState) (M : Mem) (r : Req) (h : s.count = 0) :
    Serving c g s M r M := by
  refine ⟨?_, ?_⟩
  · have : (M.writeMasked (g r.adr * c.nbm) (r.sel.take (lanesDone c s)) r.dat) = M := by
      apply Mem.writeMasked_none; intro i; simp [lanesDone, h]
    rw [this]; split <;> rfl
  · intro _ j hj; simp [lanesDone, h] at hj

/-- One sub-word step extends `Serving` by one sub-word: either the sub-word is skipped (no lane selected, the
    slave memory is untouched) or the slave acknowledged it (its abstract memory took the masked sub-word
    write, resp. the returned data carries the memory bytes on the selected lanes). -/
theorem serving_advance (f g : Nat → Nat) (hfg : ∀ a k, k < c.ratio → f (k + c.ratio * a) = k + c.ratio * g a)
    (s : DownState) (Ms Ms' : Mem) (r : Req) (M : Mem) (rsp : Rsp)
    (hcnt : s.count < c.ratio) (hs : Serving c g s Ms r M)
    (hadv : (skip c s r = true ∧ Ms' = Ms) ∨
            (skip c s r = false ∧
             Ms' = (if r.we then Ms.writeMasked (f (toSlave c s r).adr * c.nbs) ((toSlave c s r).sel.take c.nbs)
                                  (toSlave c s r).dat else Ms) ∧
             (r.we = false → ∀ k, k < c.nbs → (toSlave c s r).sel.getD k false = true →
                 rsp.dat.getD k 0 = Ms (f (toSlave c s r).adr * c.nbs + k)))) :
    Serving c g { count := s.count + 1, datR := mdat c s rsp } Ms' r M := by
  obtain ⟨hmem, hrd⟩ := hs
  have hnbm : c.nbm = c.ratio * c.nbs := rfl
  have hadr : f (toSlave c s r).adr * c.nbs = g r.adr * c.nbm + lanesDone c s := by
    have : (toSlave c s r).adr = s.count + c.ratio * r.adr := rfl
    rw [this, hfg _ _ hcnt]
    simp only [lanesDone, hnbm]; ring
  have hld' : lanesDone c { count := s.count + 1, datR := mdat c s rsp } = lanesDone c s + c.nbs := by
    simp only [lanesDone]; ring
  obtain ⟨d, hd⟩ : ∃ d, c.ratio = s.count + 1 + d := ⟨c.ratio - s.count - 1, by omega⟩
  have e1 : (s.count + 1 + d - (s.count + 1)) = d := by omega
  have e2 : (s.count + 1 + d - s.count) = d + 1 := by omega
  have e3 : (s.count + 1 + d) * c.nbs - c.nbs = s.count * c.nbs + d * c.nbs := by
    rw [show (s.count + 1 + d) * c.nbs = s.count * c.nbs + d * c.nbs + c.nbs by ring]; omega
  -- lanes already in the shift register move down by one sub-word
  have hold : r.we = false → ∀ j, j < lanesDone c s → r.sel.getD j false = true →
      (mdat c s rsp).getD ((c.ratio - (s.count + 1)) * c.nbs + j) 0 = M (g r.adr * c.nbm + j) := by
    intro hwe j hlo hsel
    have h := hrd hwe j hlo hsel
    have hpos : (c.ratio - (s.count + 1)) * c.nbs + j < c.nbm - c.nbs := by
      simp only [lanesDone] at hlo
      rw [hnbm, hd, e1, e3]; omega
    rw [mdat_getD_lo c s rsp _ hpos, ← h]
    congr 1
    rw [hd, e1, e2]; ring
  rcases hadv with ⟨hsk, hMs⟩ | ⟨hsk, hMs, hread⟩
  · -- skipped sub-word: all its lanes are unselected
    have hsn : selNone (window r.sel false (lanesDone c s) c.nbs) c.nbs = true := by
      simp only [skip, Bool.and_eq_true] at hsk; exact hsk.1.2
    refine ⟨?_, ?_⟩
    · rw [hMs, hmem, hld']
      cases r.we
      · rfl
      · simp only [if_true]; exact writeMasked_skip M _ _ _ _ _ hsn
    · intro hwe j hj hsel
      rw [hld'] at hj
      rw [selNone_iff] at hsn
      by_cases hlo : j < lanesDone c s
      · exact hold hwe j hlo hsel
      · exfalso
        have hk : j - lanesDone c s < c.nbs := by omega
        have := hsn _ hk
        rw [window_getD _ _ _ _ _ hk] at this
        have e : lanesDone c s + (j - lanesDone c s) = j := by omega
        rw [e, hsel] at this; cases this
  · refine ⟨?_, ?_⟩
    · rw [hMs, hmem, hld']
      cases hwe : r.we
      · rfl
      · simp only [if_true]
        rw [hadr]
        exact writeMasked_extend M _ _ _ _ _
    · intro hwe j hj hsel
      rw [hld'] at hj
      have hmemM : Ms = M := by rw [hmem, hwe]; rfl
      show (mdat c s rsp).getD ((c.ratio - (s.count + 1)) * c.nbs + j) 0 = _
      by_cases hlo : j < lanesDone c s
      · exact hold hwe j hlo hsel
      · have hk : j - lanesDone c s < c.nbs := by omega
        have hge : c.nbm - c.nbs ≤ (c.ratio - (s.count + 1)) * c.nbs + j := by
          simp only [lanesDone] at hlo
          rw [hnbm, hd, e1, e3]; omega
        have hidx : (c.ratio - (s.count + 1)) * c.nbs + j - (c.nbm - c.nbs) = j - lanesDone c s := by
          simp only [lanesDone] at hlo ⊢
          rw [hnbm, hd, e1, e3]; omega
        rw [mdat_getD_hi c s rsp _ hge (by rw [hidx]; exact hk), hidx]
        have hselk : (toSlave c s r).sel.getD (j - lanesDone c s) false = true := by
          simp only [toSlave, ssel]
          rw [window_getD _ _ _ _ _ hk]
          have e : s.count * c.nbs + (j - lanesDone c s) = j := by simp only [lanesDone] at hlo ⊢; omega
          rw [e, hsel]
        rw [hread hwe _ hk hselk, hmemM, hadr]
        congr 1; omega

/-- Address decoding of a narrow memory of `ratio·dm` words seen through the converter. -/
theorem mod_split (ratio dm a k : Nat) (hk : k < ratio) (hdm : 0 < dm) :
    (k + ratio * a) % (ratio * dm) = k + ratio * (a % dm) := by
  have h1 : k + ratio * a = k + ratio * (a % dm) + ratio * dm * (a / dm) := by
    have := Nat.div_add_mod a dm
    calc k + ratio * a = k + ratio * (dm * (a / dm) + a % dm) := by rw [this]
      _ = k + ratio * (a % dm) + ratio * dm * (a / dm) := by
        rw [Nat.mul_add, Nat.mul_assoc]; omega
  have h2 : k + ratio * (a % dm) < ratio * dm := by
    have := Nat.mod_lt a hdm
    calc k + ratio * (a % dm) < ratio + ratio * (a % dm) := by omega
      _ = ratio * (a % dm + 1) := by rw [Nat.mul_add, Nat.mul_one, Nat.add_comm]
      _ ≤ ratio * dm := Nat.mul_le_mul_left _ this
  rw [h1, Nat.add_mul_mod_self_left, Nat.mod_eq_of_lt h2]

/-! #### the converter over any slave that implements a byte memory -/

theorem ratio_pos : 0 < c.ratio := Nat.two_pow_pos _

theorem active_split (r : Req) (h : r.active = true) : r.cyc = true ∧ r.stb = true := by
  simpa [Req.active] using h

section Over
variable {ω τ : Type} (sl : Slave ω τ) (f g : Nat → Nat) (InvS : τ → Option Req → Mem → Prop)

/-- Refinement relation of the converter over a slave with relation `InvS`: nothing outstanding — counter at
    0 and the slave's abstract memory is the master's; request `r` outstanding — `Serving`, and the slave's
    outstanding request (if any) is the sub-word request currently presented. -/
def Inv (st : DownState × τ) (p : Option Req) (M : Mem) : Prop :=
  st.1.count < c.ratio ∧
  match p with
  | none => st.1.count = 0 ∧ InvS st.2 none M
  | some r => r.active = true ∧ ∃ Ms ps, InvS st.2 ps Ms ∧ (∀ r', ps = some r' → toSlave c st.1 r = r') ∧
      Serving c g st.1 Ms r M

theorem toSlave_active (s : DownState) (r : Req) : (toSlave c s r).active = (r.active && !skip c s r) := by
  simp only [toSlave, Req.active]; cases r.cyc <;> cases r.stb <;> cases skip c s r <;> rfl

/-- **DownConverter preserves byte-memory refinement**: if the slave implements a byte memory (decoding `f`),
    so does the converter in front of it (decoding `g`, with `f (k + ratio·a) = k + ratio·g a`). -/
theorem refines (hfg : ∀ a k, k < c.ratio → f (k + c.ratio * a) = k + c.ratio * g a)
    (P : Req × ω → Prop) (PS : Req × ω → Prop) (hP : ∀ s r o, P (r, o) → PS (toSlave c s r, o))
    (hS : Refines sl f c.nbs PS InvS) :
    Refines ((downConv c).over sl) g c.nbm P (Inv c g InvS) := by
  intro st p M i hinv hhold hPi
  obtain ⟨r, o⟩ := i
  obtain ⟨s, t⟩ := st
  obtain ⟨hcnt, hrest⟩ := hinv
  dsimp only at hcnt hrest hhold
  -- the slave's view of this cycle
  let sr := toSlave c s r
  let rsp := sl.out t (sr, o)
  have hout : ((downConv c).over sl).out (s, t) (r, o) = toMaster c s r rsp := rfl
  have hnext : ((downConv c).over sl).next (s, t) (r, o) = (next c s r rsp, sl.next t (sr, o)) := rfl
  have hsact : sr.active = (r.active && !skip c s r) := toSlave_active c s r
  cases hact : r.active with
  | false =>
    have hp : p = none := by
      cases p with
      | none => rfl
      | some r0 => have := hhold r0 rfl; subst this; rw [hrest.1] at hact; cases hact
    subst hp
    obtain ⟨hc0, hSinv⟩ := hrest
    have hskip : skip c s r = false := by simp [skip, hact]
    have hso := hS t none M (sr, o) hSinv (by intro r' h; cases h) (hP s r o hPi)
    have hsa : rsp.ack = false := by
      cases h : rsp.ack with
      | false => rfl
      | true => have := hso.ack_active h; rw [hsact, hact] at this; cases this
    have hSnext := hso.no_ack hsa
    have hsr_inact : sr.active = false := by rw [hsact, hact]; rfl
    simp only [hsr_inact, Bool.false_eq_true, if_false] at hSnext
    have hm0 : mack c s r rsp = false := by simp [mack, hact]
    apply StepOk.mk_no_ack _ _ _ _ _ _ _ (by rw [hout]; exact hm0)
    simp only [hact, Bool.false_eq_true, if_false]
    rw [hnext]
    have hcount : (next c s r rsp).count = 0 := by
      simp only [next, hm0, hsa, hskip, Bool.and_false, Bool.or_false, Bool.false_or]
      split <;> simp [hc0]
    exact ⟨by rw [hcount]; exact ratio_pos c, hcount, hSnext⟩
  | true =>
    obtain ⟨hcyc, hstb⟩ := active_split r hact
    -- unify the two shapes of the invariant
    have hshape : ∃ Ms ps, InvS t ps Ms ∧ (∀ r', ps = some r' → sr = r') ∧ Serving c g s Ms r M := by
      cases p with
      | none => exact ⟨M, none, hrest.2, (by intro r' h; cases h), serving_of_idle c g s M r hrest.1⟩
      | some r0 => have := hhold r0 rfl; subst this; exact hrest.2
    obtain ⟨Ms, ps, hSinv, hps, hServ⟩ := hshape
    have hso := hS t ps Ms (sr, o) hSinv hps (hP s r o hPi)
    have hmackEq : mack c s r rsp = ((rsp.ack || skip c s r) && done c s) := by simp [mack, hact]
    cases hsk : skip c s r with
    | true =>
      -- no slave cycle for this sub-word
      have hsr_inact : sr.active = false := by rw [hsact, hsk]; simp
      have hsa : rsp.ack = false := by
        cases h : rsp.ack with
        | false => rfl
        | true => have := hso.ack_active h; rw [hsr_inact] at this; cases this
      have hSnext := hso.no_ack hsa
      simp only [hsr_inact, Bool.false_eq_true, if_false] at hSnext
      have hS' := serving_advance c f g hfg s Ms Ms r M rsp hcnt hServ (Or.inl ⟨hsk, rfl⟩)
      cases hdn : done c s with
      | false =>
        have hm0 : mack c s r rsp = false := by rw [hmackEq, hdn]; simp
        have hlt : s.count + 1 < c.ratio := by
          have : s.count ≠ c.ratio - 1 := by simpa [done] using hdn
          omega
        apply StepOk.mk_no_ack _ _ _ _ _ _ _ (by rw [hout]; exact hm0)
        simp only [hact, if_true]
        rw [hnext]
        have hn : next c s r rsp = { count := s.count + 1, datR := mdat c s rsp } := by
          simp only [next, hm0, hcyc, hsa, hsk, Bool.not_true, Bool.or_self, Bool.false_eq_true, if_false,
            Bool.or_true, Bool.and_false, Bool.false_or, if_true, Nat.mod_eq_of_lt hlt]
        rw [hn]
        exact ⟨hlt, hact, Ms, none, hSnext, (by intro r' h; cases h), hS'⟩
      | true =>
        have hm1 : mack c s r rsp = true := by rw [hmackEq, hdn, hsk]; simp
        have hlast : s.count + 1 = c.ratio := by
          have : s.count = c.ratio - 1 := by simpa [done] using hdn
          have := ratio_pos c; omega
        have hld : lanesDone c { count := s.count + 1, datR := mdat c s rsp } = c.nbm := by
          simp only [lanesDone, hlast]; rfl
        obtain ⟨hmem', hrd'⟩ := hS'
        rw [hld] at hmem' hrd'
        apply StepOk.mk_ack _ _ _ _ _ _ _ (by rw [hout]; exact hm1) hact
        · intro hwe k hk hsel
          have := hrd' hwe k hk hsel
          simp only [hlast, Nat.sub_self, Nat.zero_mul, Nat.zero_add] at this
          rw [hout]; exact this
        · rw [hnext]
          have hcount : (next c s r rsp).count = 0 := by simp [next, hm1]
          refine ⟨by rw [hcount]; exact ratio_pos c, hcount, ?_⟩
          show InvS (sl.next t (sr, o)) none _
          rw [← hmem']; exact hSnext
    | false =>
      have hsr_act : sr.active = true := by rw [hsact, hact, hsk]; rfl
      have hswe : sr.we = r.we := by simp [sr, toSlave, hact]
      cases hsa : rsp.ack with
      | false =>
        -- waiting for the slave
        have hSnext := hso.no_ack hsa
        simp only [hsr_act, if_true] at hSnext
        have hm0 : mack c s r rsp = false := by rw [hmackEq, hsa, hsk]; simp
        apply StepOk.mk_no_ack _ _ _ _ _ _ _ (by rw [hout]; exact hm0)
        simp only [hact, if_true]
        rw [hnext]
        have hn : next c s r rsp = s := by simp [next, hm0, hsa, hsk, hcyc]
        rw [hn]
        exact ⟨hcnt, hact, Ms, some sr, hSnext, (by intro r' h; cases h; rfl), hServ⟩
      | true =>
        obtain ⟨hread, hSnext⟩ := hso.ack hsa
        simp only [hswe] at hread hSnext
        have hS' := serving_advance c f g hfg s Ms _ r M rsp hcnt hServ (Or.inr ⟨hsk, rfl, hread⟩)
        have hsrcs : sr.stb = true ∧ sr.cyc = true := by
          have := active_split sr hsr_act; exact ⟨this.2, this.1⟩
        cases hdn : done c s with
        | false =>
          have hm0 : mack c s r rsp = false := by rw [hmackEq, hdn]; simp
          have hlt : s.count + 1 < c.ratio := by
            have : s.count ≠ c.ratio - 1 := by simpa [done] using hdn
            omega
          apply StepOk.mk_no_ack _ _ _ _ _ _ _ (by rw [hout]; exact hm0)
          simp only [hact, if_true]
          rw [hnext]
          have hn : next c s r rsp = { count := s.count + 1, datR := mdat c s rsp } := by
            have h1 : (toSlave c s r).stb = true := hsrcs.1
            have h2 : (toSlave c s r).cyc = true := hsrcs.2
            simp only [next, hm0, hcyc, hsa, hsk, h1, h2, Bool.not_true, Bool.or_self, Bool.false_eq_true, if_false,
              Bool.or_false, Bool.and_self, if_true, Nat.mod_eq_of_lt hlt]
          rw [hn]
          exact ⟨hlt, hact, _, none, hSnext, (by intro r' h; cases h), hS'⟩
        | true =>
          have hm1 : mack c s r rsp = true := by rw [hmackEq, hdn, hsa]; simp
          have hlast : s.count + 1 = c.ratio := by
            have : s.count = c.ratio - 1 := by simpa [done] using hdn
            have := ratio_pos c; omega
          have hld : lanesDone c { count := s.count + 1, datR := mdat c s rsp } = c.nbm := by
            simp only [lanesDone, hlast]; rfl
          obtain ⟨hmem', hrd'⟩ := hS'
          rw [hld] at hmem' hrd'
          apply StepOk.mk_ack _ _ _ _ _ _ _ (by rw [hout]; exact hm1) hact
          · intro hwe k hk hsel
            have := hrd' hwe k hk hsel
            simp only [hlast, Nat.sub_self, Nat.zero_mul, Nat.zero_add] at this
            rw [hout]; exact this
          · rw [hnext]
            have hcount : (next c s r rsp).count = 0 := by simp [next, hm1]
            refine ⟨by rw [hcount]; exact ratio_pos c, hcount, ?_⟩
            show InvS (sl.next t (sr, o)) none _
            rw [← hmem']; exact hSnext

end Over

end Down

/-! ### UpConverter -/

namespace Up
variable (c : UpCfg)

theorem place_getD {α : Type} (l : List α) (d : α) (g j : Nat) (hj : j < c.nbs) :
    (place c l d g).getD j d = if j / c.nbm = g then l.getD (j % c.nbm) d else d := by
  simp only [place, List.getD_eq_getElem?_getD, List.getElem?_map, List.getElem?_range hj, Option.map_some,
    Option.getD_some]

theorem place_getD_ge {α : Type} (l : List α) (d : α) (g j : Nat) (hj : c.nbs ≤ j) :
    (place c l d g).getD j d = d := by
  rw [Mem.getD_of_length_le]; simpa [place] using hj

theorem lane_lt : lane c r < c.ratio := Nat.mod_lt _ (Nat.two_pow_pos _)

theorem adr_split (r : Req) : (r.adr / c.ratio) * c.nbs + lane c r * c.nbm = r.adr * c.nbm := by
  have h := Nat.div_add_mod r.adr c.ratio
  have hnbs : c.nbs = c.ratio * c.nbm := rfl
  simp only [lane, hnbs]
  calc r.adr / c.ratio * (c.ratio * c.nbm) + r.adr % c.ratio * c.nbm
      = (c.ratio * (r.adr / c.ratio) + r.adr % c.ratio) * c.nbm := by ring
    _ = r.adr * c.nbm := by rw [h]

/-- The wide masked write made by the converter (at slave byte base `B`) is the narrow write of the master
    (at byte base `T = B + lane·nbm`). -/
theorem write_eq (hpos : 0 < c.nbm) (M : Mem) (r : Req) (B T : Nat) (hsplit : B + lane c r * c.nbm = T) :
    M.writeMasked B ((place c r.sel false (lane c r)).take c.nbs) (place c r.dat 0 (lane c r)) =
      M.writeMasked T (r.sel.take c.nbm) r.dat := by
  funext x
  have hl := lane_lt c (r := r)
  have hnbs : c.nbs = c.ratio * c.nbm := rfl
  have hgl : (lane c r + 1) * c.nbm ≤ c.nbs := by rw [hnbs]; exact Nat.mul_le_mul_right _ hl
  have hgl' : lane c r * c.nbm + c.nbm ≤ c.nbs := by rw [← Nat.succ_mul]; exact hgl
  simp only [Mem.writeMasked_apply, take_getD]
  generalize hL : lane c r * c.nbm = L at *
  by_cases h1 : B ≤ x
  · by_cases h2 : x - B < c.nbs
    · rw [place_getD c _ _ _ _ h2, place_getD c _ _ _ _ h2]
      by_cases h3 : (x - B) / c.nbm = lane c r
      · have hlo : L ≤ x - B := by
          rw [← hL, ← h3]; exact Nat.div_mul_le_self _ _
        have hhi : x - B < L + c.nbm := by
          rw [← hL, ← h3]
          calc x - B < ((x - B) / c.nbm + 1) * c.nbm := Nat.lt_mul_of_div_lt (Nat.lt_succ_self _) hpos
            _ = (x - B) / c.nbm * c.nbm + c.nbm := by ring
        have hmod : (x - B) % c.nbm = x - T := by
          have := Nat.div_add_mod (x - B) c.nbm
          rw [h3, Nat.mul_comm, hL] at this
          omega
        have h5 : T ≤ x := by omega
        have h6 : x - T < c.nbm := by omega
        simp only [h1, h2, h3, h5, h6, hmod, if_true, true_and]
      · have hout : ¬ (L ≤ x - B ∧ x - B < L + c.nbm) := by
          intro ⟨ha, hb⟩
          apply h3
          rw [← hL] at ha hb
          apply Nat.div_eq_of_lt_le
          · exact ha
          · calc x - B < lane c r * c.nbm + c.nbm := hb
              _ = (lane c r + 1) * c.nbm := by ring
        have h7 : ¬ (T ≤ x ∧ (if x - T < c.nbm then r.sel.getD (x - T) false else false) = true) := by
          intro ⟨ha, hb⟩
          by_cases h8 : x - T < c.nbm
          · exact hout ⟨by omega, by omega⟩
          · simp [h8] at hb
        simp only [h2, h3, if_true, if_false, Bool.false_eq_true, and_false]
        rw [if_neg h7]
    · have h7 : ¬ (T ≤ x ∧ (if x - T < c.nbm then r.sel.getD (x - T) false else false) = true) := by
        intro ⟨ha, hb⟩
        by_cases h8 : x - T < c.nbm
        · omega
        · simp [h8] at hb
      simp only [h2, if_false, Bool.false_eq_true, and_false]
      rw [if_neg h7]
  · have h7 : ¬ (T ≤ x ∧ (if x - T < c.nbm then r.sel.getD (x - T) false else false) = true) := by
      intro ⟨ha, _⟩; omega
    simp only [h1, false_and, if_false]
    rw [if_neg h7]

section Over
variable {ω τ : Type} (sl : Slave ω τ) (f g : Nat → Nat) (InvS : τ → Option Req → Mem → Prop)

/-- Refinement relation of the (combinational) converter: the slave's relation, with the master's outstanding
    request translated to the wide port. -/
def Inv (st : Unit × τ) (p : Option Req) (M : Mem) : Prop := InvS st.2 (p.map (toSlave c ())) M

/-- **UpConverter preserves byte-memory refinement** (address decoding `g a = f (a / ratio)·ratio + a % ratio`). -/
theorem refines (hpos : 0 < c.nbm) (hfg : ∀ a, g a = f (a / c.ratio) * c.ratio + a % c.ratio)
    (P : Req × ω → Prop) (PS : Req × ω → Prop) (hP : ∀ r o, P (r, o) → PS (toSlave c () r, o))
    (hS : Refines sl f c.nbs PS InvS) :
    Refines ((upConv c).over sl) g c.nbm P (Inv c InvS) := by
  intro st p M i hinv hhold hPi
  obtain ⟨r, o⟩ := i
  obtain ⟨u, t⟩ := st
  have hu : u = () := rfl
  subst hu
  let sr := toSlave c () r
  let rsp := sl.out t (sr, o)
  have hout : ((upConv c).over sl).out ((), t) (r, o) = toMaster c () r rsp := rfl
  have hnext : ((upConv c).over sl).next ((), t) (r, o) = ((), sl.next t (sr, o)) := rfl
  have hsact : sr.active = r.active := rfl
  have hso := hS t (p.map (toSlave c ())) M (sr, o) hinv (by
    intro r' h
    cases p with
    | none => cases h
    | some r0 => have := hhold r0 rfl; simp only at this; subst this; simpa using h) (hP r o hPi)
  have hnbs : c.nbs = c.ratio * c.nbm := rfl
  have hbase : f sr.adr * c.nbs + lane c r * c.nbm = g r.adr * c.nbm := by
    have : sr.adr = r.adr / c.ratio := rfl
    rw [this, hfg, hnbs]; simp only [lane]; ring
  cases hsa : rsp.ack with
  | false =>
    have hSnext := hso.no_ack hsa
    apply StepOk.mk_no_ack _ _ _ _ _ _ _ (by rw [hout]; exact hsa)
    rw [hnext]
    show InvS (sl.next t (sr, o)) (Option.map (toSlave c ()) (if r.active then some r else none)) M
    simp only [hsact] at hSnext
    cases hact : r.active <;> simpa [hact] using hSnext
  | true =>
    have hact : r.active = true := by rw [← hsact]; exact hso.ack_active hsa
    obtain ⟨hread, hSnext⟩ := hso.ack hsa
    apply StepOk.mk_ack _ _ _ _ _ _ _ (by rw [hout]; exact hsa) hact
    · intro hwe k hk hsel
      rw [hout]
      show (window rsp.dat 0 (lane c r * c.nbm) c.nbm).getD k 0 = _
      rw [window_getD _ _ _ _ _ hk]
      have hl := lane_lt c (r := r)
      have hj : lane c r * c.nbm + k < c.nbs := by
        calc lane c r * c.nbm + k < lane c r * c.nbm + c.nbm := by omega
          _ = (lane c r + 1) * c.nbm := by ring
          _ ≤ c.nbs := by rw [hnbs]; exact Nat.mul_le_mul_right _ hl
      have hdiv : (lane c r * c.nbm + k) / c.nbm = lane c r := by
        rw [Nat.mul_comm, Nat.mul_add_div hpos, Nat.div_eq_of_lt hk, Nat.add_zero]
      have hmod : (lane c r * c.nbm + k) % c.nbm = k := by
        rw [Nat.mul_comm, Nat.mul_add_mod, Nat.mod_eq_of_lt hk]
      have hs : sr.sel.getD (lane c r * c.nbm + k) false = true := by
        show (place c r.sel false (lane c r)).getD _ false = true
        rw [place_getD c _ _ _ _ hj, hdiv, hmod]; simpa using hsel
      have := hread hwe _ hj hs
      rw [this, ← Nat.add_assoc, hbase]
    · rw [hnext]
      show InvS (sl.next t (sr, o)) (Option.map (toSlave c ()) none) _
      simp only [Option.map_none]
      have hswe : sr.we = r.we := rfl
      simp only [hswe] at hSnext
      cases hwe : r.we
      · simpa [hwe] using hSnext
      · simp only [hwe, if_true] at hSnext ⊢
        have := write_eq c hpos M r (f sr.adr * c.nbs) (g r.adr * c.nbm) hbase
        show InvS _ none (M.writeMasked (g r.adr * c.nbm) (r.sel.take c.nbm) r.dat)
        rw [← this]; exact hSnext

end Over

end Up
end Litex.WbMem
