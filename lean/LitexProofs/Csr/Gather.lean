import LitexModel.Csr.Gather
import Mathlib.Data.List.Perm.Subperm
/-
  `_sort_gathered_items`: when it returns, the slot list is a permutation of the items (plus `reserved` fillers)
  with every fixed item at its location.
-/
namespace Litex.Csr

abbrev Slots := List (Option Nat)

/-- Number of empty slots. -/
def free (l : Slots) : Nat := l.count none

/-- Items present in a slot list. -/
def somes (l : Slots) : List Nat := l.filterMap id

def nFixed : List (Option Nat) → Nat
  | [] => 0
  | some _ :: r => nFixed r + 1
  | none :: r => nFixed r

def nVar : List (Option Nat) → Nat
  | [] => 0
  | some _ :: r => nVar r
  | none :: r => nVar r + 1

theorem nFixed_add_nVar (fx : List (Option Nat)) : nFixed fx + nVar fx = fx.length := by
  induction fx with
  | nil => rfl
  | cons a r ih => cases a <;> simp [nFixed, nVar] <;> omega

theorem somes_length_add_free (l : Slots) : (somes l).length + free l = l.length := by
  induction l with
  | nil => rfl
  | cons a r ih =>
    cases a with
    | none => simp [somes, free] at ih ⊢; omega
    | some x => simp [somes, free] at ih ⊢; omega

theorem mem_of_free_pos (l : Slots) (h : 0 < free l) : none ∈ l := List.count_pos_iff.mp h

theorem mem_somes (l : Slots) (x : Nat) : x ∈ somes l ↔ ∃ p : Nat, l[p]? = some (some x) := by
  unfold somes
  rw [List.mem_filterMap]
  constructor
  · rintro ⟨a, ha, hx⟩
    simp only [id] at hx
    subst hx
    exact List.mem_iff_getElem?.mp ha
  · rintro ⟨p, hp⟩
    exact ⟨some x, List.mem_iff_getElem?.mpr ⟨p, hp⟩, rfl⟩

theorem itemsLength_ge (fx : List (Option Nat)) : ∀ l, l ≤ itemsLength l fx := by
  induction fx with
  | nil => intro l; exact Nat.le_refl _
  | cons a r ih =>
    intro l
    cases a with
    | none => exact ih l
    | some n =>
      simp only [itemsLength]
      split
      · exact Nat.le_trans (by omega) (ih (n + 1))
      · exact ih l

theorem placeFixed_spec (fx : List (Option Nat)) :
    ∀ (i : Nat) (slots slots' : Slots), placeFixed i fx slots = .ok slots' →
      slots'.length = slots.length ∧ free slots' + nFixed fx = free slots ∧
      (∀ (p x : Nat), slots[p]? = some (some x) → slots'[p]? = some (some x)) ∧
      (∀ (j n : Nat), fx[j]? = some (some n) → slots'[n]? = some (some (i + j))) := by
  induction fx with
  | nil =>
    intro i slots slots' h
    simp only [placeFixed, SortResult.ok.injEq] at h
    subst h
    exact ⟨rfl, rfl, fun _ _ h => h, fun j n h => by simp at h⟩
  | cons a r ih =>
    intro i slots slots' h
    cases a with
    | none =>
      simp only [placeFixed] at h
      obtain ⟨h1, h2, h3, h4⟩ := ih (i + 1) slots slots' h
      refine ⟨h1, by simpa [nFixed] using h2, h3, fun j n hj => ?_⟩
      cases j with
      | zero => simp at hj
      | succ j =>
        have := h4 j n (by simpa using hj)
        rw [this]; congr 2; omega
    | some n =>
      simp only [placeFixed] at h
      by_cases hn : n < slots.length
      · simp only [hn, if_true] at h
        have hget : slots.getD n none = (slots[n]'hn) := by
          simp [List.getD_eq_getElem?_getD, List.getElem?_eq_getElem hn]
        rw [hget] at h
        cases hs : slots[n]'hn with
        | some y => simp [hs] at h
        | none =>
          simp only [hs] at h
          obtain ⟨h1, h2, h3, h4⟩ := ih (i + 1) (slots.set n (some i)) slots' h
          have hfree : free (slots.set n (some i)) + 1 = free slots := by
            unfold free
            rw [List.count_set hn]
            have hpos : 0 < List.count none slots :=
              List.count_pos_iff.mpr (by rw [← hs]; exact List.getElem_mem hn)
            simp [hs]
            omega
          refine ⟨by rw [h1, List.length_set], by simp only [nFixed]; omega, fun p x hp => ?_, fun j m hj => ?_⟩
          · apply h3
            rw [List.getElem?_set]
            by_cases hpn : n = p
            · subst hpn
              rw [List.getElem?_eq_getElem hn, hs] at hp
              cases hp
            · simp [hpn, hp]
          · cases j with
            | zero =>
              simp only [List.getElem?_cons_zero, Option.some.injEq] at hj
              subst hj
              apply h3
              rw [List.getElem?_set]
              simp [hn]
            | succ j =>
              have := h4 j m (by simpa using hj)
              rw [this]; congr 2; omega
      · simp [hn] at h

theorem fillFirst_spec (v : Nat) (l : Slots) (h : none ∈ l) :
    (fillFirst v l).length = l.length ∧ free (fillFirst v l) + 1 = free l ∧
    (∃ p : Nat, (fillFirst v l)[p]? = some (some v)) ∧
    (∀ (p x : Nat), l[p]? = some (some x) → (fillFirst v l)[p]? = some (some x)) := by
  induction l with
  | nil => simp at h
  | cons a r ih =>
    cases a with
    | none =>
      refine ⟨by simp [fillFirst], by simp [fillFirst, free], ⟨0, by simp [fillFirst]⟩, fun p x hp => ?_⟩
      cases p with
      | zero => simp at hp
      | succ p => simpa [fillFirst] using hp
    | some y =>
      have hr : none ∈ r := by simpa using h
      obtain ⟨h1, h2, ⟨p, h3⟩, h4⟩ := ih hr
      refine ⟨by simp [fillFirst, h1], ?_, ⟨p + 1, by simpa [fillFirst] using h3⟩, fun q x hq => ?_⟩
      · simp only [fillFirst, free, List.count_cons] at h2 ⊢
        simp at h2 ⊢
        omega
      · cases q with
        | zero => simpa [fillFirst] using hq
        | succ q => simpa [fillFirst] using h4 q x (by simpa using hq)

theorem fillVariable_spec (fx : List (Option Nat)) :
    ∀ (i : Nat) (slots : Slots), nVar fx ≤ free slots →
      (fillVariable i fx slots).length = slots.length ∧
      free (fillVariable i fx slots) + nVar fx = free slots ∧
      (∀ (p x : Nat), slots[p]? = some (some x) → (fillVariable i fx slots)[p]? = some (some x)) ∧
      (∀ j : Nat, fx[j]? = some none → ∃ p : Nat, (fillVariable i fx slots)[p]? = some (some (i + j))) := by
  induction fx with
  | nil =>
    intro i slots _
    exact ⟨rfl, rfl, fun _ _ h => h, fun j h => by simp at h⟩
  | cons a r ih =>
    intro i slots hcap
    cases a with
    | some n =>
      simp only [fillVariable, nVar] at hcap ⊢
      obtain ⟨h1, h2, h3, h4⟩ := ih (i + 1) slots hcap
      refine ⟨h1, h2, h3, fun j hj => ?_⟩
      cases j with
      | zero => simp at hj
      | succ j =>
        obtain ⟨p, hp⟩ := h4 j (by simpa using hj)
        exact ⟨p, by rw [hp]; congr 2; omega⟩
    | none =>
      simp only [fillVariable, nVar] at hcap ⊢
      have hmem : none ∈ slots := mem_of_free_pos slots (by omega)
      obtain ⟨f1, f2, ⟨p0, f3⟩, f4⟩ := fillFirst_spec i slots hmem
      obtain ⟨h1, h2, h3, h4⟩ := ih (i + 1) (fillFirst i slots) (by omega)
      refine ⟨by rw [h1, f1], by omega, fun p x hp => h3 p x (f4 p x hp), fun j hj => ?_⟩
      cases j with
      | zero => exact ⟨p0, h3 p0 i f3⟩
      | succ j =>
        obtain ⟨p, hp⟩ := h4 j (by simpa using hj)
        exact ⟨p, by rw [hp]; congr 2; omega⟩

/-- **`_sort_gathered_items` returns a permutation placing every fixed item at its `n`.**
    Whenever the function returns (no `ValueError` conflict, no `IndexError`): the items found in the slots are
    exactly the input items, each once (the remaining slots are `reserved` fillers), every item with a fixed
    location `n` sits in slot `n`, and the list is at least as long as the input. -/
theorem sortGathered_spec (fx : List (Option Nat)) (slots : Slots) (h : sortGathered fx = .ok slots) :
    (somes slots).Perm (List.range fx.length) ∧
    (∀ (i n : Nat), fx[i]? = some (some n) → slots[n]? = some (some i)) ∧
    fx.length ≤ slots.length := by
  unfold sortGathered at h
  simp only at h
  cases hp : placeFixed 0 fx (List.replicate (itemsLength fx.length fx) none) with
  | conflict => simp [hp] at h
  | indexError => simp [hp] at h
  | ok s1 =>
    simp only [hp, SortResult.ok.injEq] at h
    obtain ⟨a1, a2, _, a4⟩ := placeFixed_spec fx 0 _ s1 hp
    have hL := itemsLength_ge fx fx.length
    have hfree0 : free (List.replicate (itemsLength fx.length fx) (none : Option Nat)) = itemsLength fx.length fx := by
      simp [free]
    rw [hfree0] at a2
    simp only [List.length_replicate] at a1
    have hsum := nFixed_add_nVar fx
    obtain ⟨b1, b2, b3, b4⟩ := fillVariable_spec fx 0 s1 (by omega)
    rw [h] at b1 b2 b3 b4
    have hlen : slots.length = itemsLength fx.length fx := by rw [b1, a1]
    have hfixed : ∀ (i n : Nat), fx[i]? = some (some n) → slots[n]? = some (some i) := by
      intro i n hi
      have := a4 i n hi
      simp only [Nat.zero_add] at this
      exact b3 n i this
    refine ⟨?_, hfixed, by omega⟩
    have hsl := somes_length_add_free slots
    have hsub : List.range fx.length ⊆ somes slots := by
      intro x hx
      have hx' : x < fx.length := List.mem_range.mp hx
      rw [mem_somes]
      cases hfx : fx[x]'hx' with
      | some n => exact ⟨n, hfixed x n (by rw [List.getElem?_eq_getElem hx', hfx])⟩
      | none =>
        obtain ⟨p, hp⟩ := b4 x (by rw [List.getElem?_eq_getElem hx', hfx])
        exact ⟨p, by simpa using hp⟩
    have hsp := List.subperm_of_subset (List.nodup_range) hsub
    exact (hsp.perm_of_length_le (by simp; omega)).symm

/-- The `IndexError` of the real code: a fixed location equal to the current length is neither inside the list
    nor extends it (`item.n > items_length` is strict). -/
theorem sortGathered_indexError_witness : sortGathered [some 1] = .indexError := by decide

theorem sortGathered_conflict_witness : sortGathered [some 0, some 0] = .conflict := by decide

theorem placeFixed_ok (fx : List (Option Nat)) :
    ∀ (i : Nat) (slots : Slots),
      (∀ n : Nat, some n ∈ fx → n < slots.length ∧ slots[n]? = some none) → (fx.filterMap id).Nodup →
      ∃ s', placeFixed i fx slots = .ok s' := by
  induction fx with
  | nil => intro i slots _ _; exact ⟨slots, rfl⟩
  | cons a r ih =>
    intro i slots h hd
    cases a with
    | none =>
      simp only [placeFixed]
      exact ih (i + 1) slots (fun n hn => h n (List.mem_cons_of_mem _ hn)) (by simpa using hd)
    | some n =>
      obtain ⟨hn, hs⟩ := h n (List.mem_cons_self ..)
      simp only [List.filterMap_cons, id, List.nodup_cons] at hd
      have hget : slots.getD n none = none := by
        simp [List.getD_eq_getElem?_getD, hs]
      simp only [placeFixed, hn, if_true, hget]
      apply ih (i + 1) (slots.set n (some i))
      · intro m hm
        obtain ⟨hm1, hm2⟩ := h m (List.mem_cons_of_mem _ hm)
        have hne : n ≠ m := by
          intro e
          subst e
          exact hd.1 (List.mem_filterMap.mpr ⟨some n, hm, rfl⟩)
        refine ⟨by rw [List.length_set]; exact hm1, ?_⟩
        rw [List.getElem?_set_ne hne]
        exact hm2
      · exact hd.2

/-- **No spurious rejection**: if the fixed locations are pairwise distinct and all lie inside the slot list the
    function allocates (`itemsLength`; in particular whenever every `n < len(items)`), it returns. -/
theorem sortGathered_ok (fx : List (Option Nat))
    (hin : ∀ n : Nat, some n ∈ fx → n < itemsLength fx.length fx) (hd : (fx.filterMap id).Nodup) :
    ∃ slots, sortGathered fx = .ok slots := by
  obtain ⟨s', hs⟩ := placeFixed_ok fx 0 (List.replicate (itemsLength fx.length fx) none)
    (fun n hn => ⟨by simpa using hin n hn, by simp [hin n hn]⟩) hd
  exact ⟨fillVariable 0 fx s', by simp [sortGathered, hs]⟩

end Litex.Csr
