import LitexModel.Csr.Layout
/-
  Lookup lemmas for the flattening of a register list into bus-word simple CSRs:
  word `j` of register `k` is found at `addrOf … k j`, and every populated word index is of that form.
-/
namespace Litex.Csr
open Litex

theorem wordOrder_length (ord : WordOrdering) (n : Nat) : (wordOrder ord n).length = n := by
  cases ord <;> simp [wordOrder]

theorem wordPos_lt (ord : WordOrdering) (n j : Nat) (h : j < n) : wordPos ord n j < n := by
  cases ord <;> simp [wordPos] <;> omega

theorem wordOrder_wordPos (ord : WordOrdering) (n j : Nat) (h : j < n) :
    (wordOrder ord n)[wordPos ord n j]? = some j := by
  cases ord
  · simp only [wordOrder, wordPos]
    rw [List.getElem?_reverse (by simp; omega)]
    simp only [List.length_range]
    rw [List.getElem?_range (by omega)]
    congr 1
    omega
  · simp only [wordOrder, wordPos]
    rw [List.getElem?_range h]

theorem wordOrder_inv (ord : WordOrdering) (n p j : Nat) (h : (wordOrder ord n)[p]? = some j) :
    j < n ∧ p = wordPos ord n j := by
  have hp : p < n := by
    have := (List.getElem?_eq_some_iff.mp h).1
    simpa [wordOrder_length] using this
  cases ord
  · simp only [wordOrder] at h
    rw [List.getElem?_reverse (by simpa using hp)] at h
    simp only [List.length_range] at h
    rw [List.getElem?_range (by omega)] at h
    have := Option.some.inj h
    simp only [wordPos]
    omega
  · simp only [wordOrder] at h
    rw [List.getElem?_range hp] at h
    have := Option.some.inj h
    simp only [wordPos]
    omega

theorem regSimples_length (bw : Nat) (ord : WordOrdering) (k : Nat) (r : RegSpec) :
    (regSimples bw ord k r).length = regWords bw r := by
  unfold regSimples regWords
  cases r.kind <;> simp [wordOrder_length]

theorem posIn_lt (bw : Nat) (ord : WordOrdering) (r : RegSpec) (j : Nat) (h : j < regWords bw r) :
    posIn bw ord r j < regWords bw r := by
  unfold posIn regWords at *
  cases hk : r.kind <;> simp [hk] at h ⊢ <;> exact wordPos_lt _ _ _ h

theorem regSimples_lookup (bw : Nat) (ord : WordOrdering) (k : Nat) (r : RegSpec) (j : Nat)
    (h : j < regWords bw r) :
    (regSimples bw ord k r)[posIn bw ord r j]? = some (mkSimple bw ord k r j) := by
  unfold regSimples posIn regWords at *
  cases hk : r.kind <;> simp [hk] at h ⊢
  · exact ⟨j, wordOrder_wordPos _ _ _ h, rfl⟩
  · exact ⟨j, wordOrder_wordPos _ _ _ h, rfl⟩
  · simp [mkSimple, hk]

theorem regSimples_inv (bw : Nat) (ord : WordOrdering) (k : Nat) (r : RegSpec) (p : Nat) (sc : Simple)
    (h : (regSimples bw ord k r)[p]? = some sc) :
    ∃ j, j < regWords bw r ∧ sc = mkSimple bw ord k r j ∧ p = posIn bw ord r j := by
  unfold regSimples posIn regWords at *
  cases hk : r.kind <;> simp [hk] at h ⊢
  · obtain ⟨j, hj, rfl⟩ := h
    obtain ⟨h1, h2⟩ := wordOrder_inv _ _ _ _ hj
    exact ⟨j, h1, rfl, h2⟩
  · obtain ⟨j, hj, rfl⟩ := h
    obtain ⟨h1, h2⟩ := wordOrder_inv _ _ _ _ hj
    exact ⟨j, h1, rfl, h2⟩
  · have hp : p = 0 := by
      have := (List.getElem?_eq_some_iff.mp h).1
      simpa using this
    subst hp
    simp at h
    exact ⟨h.symm, rfl⟩

theorem simplesFrom_length (bw : Nat) (ord : WordOrdering) (k0 : Nat) (regs : List RegSpec) :
    (simplesFrom bw ord k0 regs).length = regBase bw regs regs.length := by
  induction regs generalizing k0 with
  | nil => simp [simplesFrom, regBase]
  | cons r rs ih => simp [simplesFrom, regBase, regSimples_length, ih]

/-- Word `j` of register `k` sits at index `regBase k + posIn j`. -/
theorem simplesFrom_lookup (bw : Nat) (ord : WordOrdering) (regs : List RegSpec) (k0 k j : Nat)
    (hk : k < regs.length) (hj : j < regWords bw (regs.getD k default)) :
    (simplesFrom bw ord k0 regs)[regBase bw regs k + posIn bw ord (regs.getD k default) j]? =
      some (mkSimple bw ord (k0 + k) (regs.getD k default) j) := by
  induction regs generalizing k0 k with
  | nil => simp at hk
  | cons r rs ih =>
    cases k with
    | zero =>
      simp only [List.getD_cons_zero] at hj ⊢
      simp only [simplesFrom, regBase, Nat.zero_add, Nat.add_zero]
      rw [List.getElem?_append_left (by rw [regSimples_length]; exact posIn_lt _ _ _ _ hj)]
      exact regSimples_lookup _ _ _ _ _ hj
    | succ k =>
      simp only [List.getD_cons_succ] at hj ⊢
      simp only [simplesFrom, regBase]
      rw [List.getElem?_append_right (by rw [regSimples_length]; omega)]
      rw [regSimples_length]
      have := ih (k0 + 1) k (by simpa using hk) hj
      rw [show regWords bw r + regBase bw rs k + posIn bw ord (rs.getD k default) j - regWords bw r =
            regBase bw rs k + posIn bw ord (rs.getD k default) j by omega]
      rw [this]
      congr 2
      omega

/-- Every populated index is the index of exactly one (register, word) pair. -/
theorem simplesFrom_inv (bw : Nat) (ord : WordOrdering) (regs : List RegSpec) (k0 a : Nat) (sc : Simple)
    (h : (simplesFrom bw ord k0 regs)[a]? = some sc) :
    ∃ k j, k < regs.length ∧ j < regWords bw (regs.getD k default) ∧
      sc = mkSimple bw ord (k0 + k) (regs.getD k default) j ∧
      a = regBase bw regs k + posIn bw ord (regs.getD k default) j := by
  induction regs generalizing k0 a with
  | nil => simp [simplesFrom] at h
  | cons r rs ih =>
    simp only [simplesFrom] at h
    by_cases ha : a < (regSimples bw ord k0 r).length
    · rw [List.getElem?_append_left ha] at h
      obtain ⟨j, hj, hsc, hp⟩ := regSimples_inv _ _ _ _ _ _ h
      exact ⟨0, j, by simp, by simpa using hj, by simpa using hsc, by simpa [regBase] using hp⟩
    · rw [List.getElem?_append_right (by omega)] at h
      obtain ⟨k, j, hk, hj, hsc, hp⟩ := ih (k0 + 1) _ h
      refine ⟨k + 1, j, by simpa using hk, by simpa using hj, ?_, ?_⟩
      · simp only [List.getD_cons_succ]
        rw [hsc]
        congr 1
        omega
      · simp only [List.getD_cons_succ, regBase]
        rw [regSimples_length] at hp ha
        omega

theorem simpleCsrs_lookup (bw : Nat) (ord : WordOrdering) (regs : List RegSpec) (k j : Nat)
    (hk : k < regs.length) (hj : j < regWords bw (regs.getD k default)) :
    (simpleCsrs bw ord regs)[addrOf bw ord regs k j]? = some (mkSimple bw ord k (regs.getD k default) j) := by
  have := simplesFrom_lookup bw ord regs 0 k j hk hj
  simpa [simpleCsrs, addrOf] using this

theorem simpleCsrs_inv (bw : Nat) (ord : WordOrdering) (regs : List RegSpec) (a : Nat) (sc : Simple)
    (h : (simpleCsrs bw ord regs)[a]? = some sc) :
    ∃ k j, k < regs.length ∧ j < regWords bw (regs.getD k default) ∧
      sc = mkSimple bw ord k (regs.getD k default) j ∧ a = addrOf bw ord regs k j := by
  obtain ⟨k, j, hk, hj, hsc, ha⟩ := simplesFrom_inv bw ord regs 0 a sc h
  exact ⟨k, j, hk, hj, by simpa using hsc, by simpa [addrOf] using ha⟩

/-- `mkSimple` remembers its register; for compound CSRs also its word. -/
theorem mkSimple_reg (bw : Nat) (ord : WordOrdering) (k : Nat) (r : RegSpec) (j : Nat) :
    (mkSimple bw ord k r j).reg = k := by
  unfold mkSimple; cases r.kind <;> rfl

theorem mkSimple_word (bw : Nat) (ord : WordOrdering) (k : Nat) (r : RegSpec) (j : Nat)
    (hj : j < regWords bw r) : (mkSimple bw ord k r j).word = j := by
  unfold mkSimple regWords at *
  cases hk : r.kind <;> simp [hk] at hj ⊢
  omega

/-- **No two registers (or words) share an address.** -/
theorem addrOf_injective (bw : Nat) (ord : WordOrdering) (regs : List RegSpec) (k j k' j' : Nat)
    (hk : k < regs.length) (hj : j < regWords bw (regs.getD k default))
    (hk' : k' < regs.length) (hj' : j' < regWords bw (regs.getD k' default))
    (h : addrOf bw ord regs k j = addrOf bw ord regs k' j') : k = k' ∧ j = j' := by
  have h1 := simpleCsrs_lookup bw ord regs k j hk hj
  have h2 := simpleCsrs_lookup bw ord regs k' j' hk' hj'
  rw [h, h2] at h1
  have h3 := Option.some.inj h1
  have hkk : k' = k := by
    have := congrArg Simple.reg h3
    simpa [mkSimple_reg] using this
  subst hkk
  have := congrArg Simple.word h3
  rw [mkSimple_word _ _ _ _ _ hj, mkSimple_word _ _ _ _ _ hj'] at this
  exact ⟨rfl, this.symm⟩

theorem addrOf_lt (bw : Nat) (ord : WordOrdering) (regs : List RegSpec) (k j : Nat)
    (hk : k < regs.length) (hj : j < regWords bw (regs.getD k default)) :
    addrOf bw ord regs k j < (simpleCsrs bw ord regs).length := by
  have h1 := simpleCsrs_lookup bw ord regs k j hk hj
  exact (List.getElem?_eq_some_iff.mp h1).1

end Litex.Csr
