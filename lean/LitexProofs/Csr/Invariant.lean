import LitexProofs.Csr.Bank
/-
  Invariants of reachable bank states: every storage value fits its declared size, the back-store of an atomic
  storage has one entry per upper word.
-/
namespace Litex.Csr
open Litex

theorem word_lo_lt (bw size j : Nat) (hj : j < nwords bw size) : j * bw < size := by
  unfold nwords at hj
  by_cases hbw : bw = 0
  · subst hbw; simp at hj
  · have hpos : 0 < bw := Nat.pos_of_ne_zero hbw
    have h1 : (j + 1) * bw ≤ size + bw - 1 := (Nat.le_div_iff_mul_le hpos).mp hj
    rw [Nat.add_mul] at h1
    omega

theorem word_window_le (bw size j : Nat) (hj : j < nwords bw size) : j * bw + wordBits bw size j ≤ size := by
  have := word_lo_lt bw size j hj
  unfold wordBits
  omega

/-- Well-formed register state w.r.t. its spec. -/
def RegWF (bw : Nat) (r : RegSpec) (s : RegState) : Prop :=
  r.kind = .storage → (s.val < 2 ^ r.size ∧ (isAtomic bw r = true → s.back.length = nwords bw r.size - 1))

def BankWF (c : BankCfg) (s : BankState) : Prop :=
  ∀ k, k < c.regs.length → RegWF c.bw (c.spec k) (s.reg k)

theorem devVal_lt (r : RegSpec) (s : RegState) (d : Dev) (h : s.val < 2 ^ r.size) : devVal r s d < 2 ^ r.size := by
  unfold devVal
  split
  · exact trunc_lt _ _
  · exact h

theorem init_reg (c : BankCfg) (k : Nat) (hk : k < c.regs.length) :
    ((bank c).init.reg k) = initReg c.bw (c.spec k) := by
  simp [bank, BankState.reg, BankCfg.spec, List.getD_eq_getElem?_getD, hk]

theorem init_wf (c : BankCfg) : BankWF c (bank c).init := by
  intro k hk hkind
  rw [init_reg c k hk]
  unfold initReg
  simp only [hkind, true_and]
  refine ⟨trunc_lt _ _, fun hat => ?_⟩
  simp [hat]

theorem next_wf (c : BankCfg) (s : BankState) (i : BankIn) (h : BankWF c s) : BankWF c ((bank c).next s i) := by
  intro k hk hkind
  obtain ⟨hval, hback⟩ := h k hk hkind
  rw [next_reg c s i k hk]
  have hraw : (c.spec k).kind ≠ .raw := by rw [hkind]; decide
  have hv0 := devVal_lt (c.spec k) (s.reg k) (i.devOf k) hval
  cases hw : (if i.bus.we then c.hitReg i.bus.adr k else none) with
  | none =>
    simp only [regNext, hkind]
    exact ⟨hv0, hback⟩
  | some sc =>
    have hh : c.hitReg i.bus.adr k = some sc := by
      by_cases hwe : i.bus.we = true
      · simpa [hwe] using hw
      · simp [hwe] at hw
    obtain ⟨j, hv, hsc, _⟩ := c.hitReg_inv _ _ _ hh
    obtain ⟨hlo, hnb⟩ := simple_lo c k j hraw
    have hjw : j < nwords c.bw (c.spec k).size := by
      have := hv.2
      rwa [show c.regs.getD k default = c.spec k from rfl, regWords_of_not_raw _ _ hraw] at this
    simp only [regNext, hkind]
    by_cases hat : isAtomic c.bw (c.spec k) = true
    · simp only [hat, if_true]
      by_cases hw0 : sc.word = 0
      · simp only [hw0, if_true]
        exact ⟨trunc_lt _ _, fun _ => hback hat⟩
      · simp only [hw0, if_false]
        exact ⟨hv0, fun _ => by rw [List.length_set]; exact hback hat⟩
    · have hat' : isAtomic c.bw (c.spec k) = false := by simpa using hat
      simp only [hat']
      refine ⟨?_, fun h => by cases h⟩
      rw [hsc, hlo, hnb]
      exact setSlice_lt _ _ _ _ _ hv0 (word_window_le _ _ _ hjw)

/-- Every state reached by any history of bus accesses and device updates is well formed. -/
theorem run_wf (c : BankCfg) (ins : List BankIn) : BankWF c ((bank c).run ins) := by
  unfold Machine.run
  exact Machine.invariant_runFrom (bank c) (BankWF c) (fun s i h => next_wf c s i h) ins _ (init_wf c)

end Litex.Csr
