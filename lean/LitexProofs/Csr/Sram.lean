import LitexModel.Csr.Sram
import LitexProofs.Csr.Bits
/-
  Step lemmas for the CSR memory window.
-/
namespace Litex.Csr
open Litex

theorem sram_next_mem (c : SramCfg) (s : SramState) (i : SramIn) :
    ((sram c).next s i).mem =
      if (c.sel i.bus.adr && i.bus.we && !c.readOnly) && (i.bus.adr % 2 ^ c.wb == c.cpm - 1) then
        s.mem.set (c.clampAdr (c.portAdr i.bus.adr i.page))
          (trunc c.width (cat ((c.bw, i.bus.datW) :: s.wregs.reverse.map fun w => (c.bw, w))))
      else s.mem := rfl

theorem sram_next_read (c : SramCfg) (s : SramState) (i : SramIn) :
    sramDatR c ((sram c).next s i) =
      if c.sel i.bus.adr then
        slice ((c.cpm - 1 - i.bus.adr % 2 ^ c.wb) * c.bw) c.bw
          (trunc (c.cpm * c.bw) (((sram c).next s i).mem.getD (c.clampAdr (c.portAdr i.bus.adr i.page)) 0))
      else 0 := by
  simp [sramDatR, sram]

theorem trunc_trunc_le (a b n : Nat) (h : a ≤ b) : trunc b (trunc a n) = trunc a n := by
  apply trunc_of_lt
  exact Nat.lt_of_lt_of_le (trunc_lt a n) (Nat.pow_le_pow_right (by omega) h)

theorem trunc_trunc_ge (a b n : Nat) (h : a ≤ b) : trunc a (trunc b n) = trunc a n := by
  unfold trunc
  exact Nat.mod_mod_of_dvd n (Nat.pow_dvd_pow 2 h)

/-- Chunk `i` of a `Cat` of equally wide chunks. -/
theorem slice_cat_uniform (bw : Nat) (l : List Nat) :
    ∀ i, slice (i * bw) bw (cat (l.map fun v => (bw, v))) = (l.getD i 0) % 2 ^ bw := by
  induction l with
  | nil => intro i; simp [cat, slice]
  | cons v rest ih =>
    intro i
    cases i with
    | zero =>
      simp only [List.map_cons, cat, slice, Nat.zero_mul, Nat.pow_zero, Nat.div_one, List.getD_cons_zero]
      rw [Nat.add_mul_mod_self_left, Nat.mod_mod]
    | succ i =>
      simp only [List.map_cons, cat, List.getD_cons_succ]
      rw [← ih i]
      unfold slice
      have hpos : 0 < 2 ^ bw := Nat.two_pow_pos bw
      rw [show (i + 1) * bw = bw + i * bw by rw [Nat.add_mul]; omega, Nat.pow_add, ← Nat.div_div_eq_div_mul,
        Nat.add_mul_div_left _ _ hpos, Nat.div_eq_of_lt (Nat.mod_lt _ hpos), Nat.zero_add]

/-- **Sub-word staging order** (memory word = `cpm` bus words, any ratio): when the last sub-word of a memory word
    is written, the memory word becomes `Cat(dat_w, wregs[cpm-2], …, wregs[0])`, i.e. reading sub-word `k`
    (`slice ((cpm-1-k)*bw)`, see `sram_next_read`) returns what was staged by the write to sub-word `k`, and reading
    the last sub-word returns `dat_w`. -/
theorem sram_staging_order (c : SramCfg) (s : SramState) (i : SramIn)
    (hw : c.width = c.cpm * c.bw) (hcpm : 0 < c.cpm) (hlen : s.wregs.length = c.cpm - 1)
    (hro : c.readOnly = false) (hsel : c.sel i.bus.adr = true) (hwe : i.bus.we = true)
    (hsub : i.bus.adr % 2 ^ c.wb = c.cpm - 1)
    (hin : c.clampAdr (c.portAdr i.bus.adr i.page) < s.mem.length) :
    let word := ((sram c).next s i).mem.getD (c.clampAdr (c.portAdr i.bus.adr i.page)) 0
    slice 0 c.bw word = i.bus.datW % 2 ^ c.bw ∧
    ∀ k, k < c.cpm - 1 → slice ((c.cpm - 1 - k) * c.bw) c.bw word = (s.wregs.getD k 0) % 2 ^ c.bw := by
  intro word
  have hword : word = trunc c.width (cat ((i.bus.datW :: s.wregs.reverse).map fun v => (c.bw, v))) := by
    simp only [word, sram_next_mem, hsel, hwe, hro, hsub, Bool.not_false, Bool.and_self, beq_self_eq_true, if_true]
    rw [List.getD_eq_getElem?_getD, List.getElem?_set_self hin, Option.getD_some]
    simp [List.map_cons]
  -- the Cat is exactly `width` bits wide, truncation changes nothing
  have hlt : cat ((i.bus.datW :: s.wregs.reverse).map fun v => (c.bw, v)) < 2 ^ c.width := by
    have key : ∀ l : List Nat, cat (l.map fun v => (c.bw, v)) < 2 ^ (l.length * c.bw) := by
      intro l
      induction l with
      | nil => simp [cat]
      | cons v rest ih =>
        simp only [List.map_cons, cat, List.length_cons]
        rw [Nat.add_mul, Nat.one_mul, Nat.add_comm (rest.length * c.bw), Nat.pow_add]
        have h1 : v % 2 ^ c.bw < 2 ^ c.bw := Nat.mod_lt _ (Nat.two_pow_pos _)
        calc v % 2 ^ c.bw + 2 ^ c.bw * cat (rest.map fun v => (c.bw, v))
            < 2 ^ c.bw + 2 ^ c.bw * cat (rest.map fun v => (c.bw, v)) := by omega
          _ = 2 ^ c.bw * (cat (rest.map fun v => (c.bw, v)) + 1) := by rw [Nat.mul_add, Nat.mul_one, Nat.add_comm]
          _ ≤ 2 ^ c.bw * 2 ^ (rest.length * c.bw) := Nat.mul_le_mul_left _ ih
    have := key (i.bus.datW :: s.wregs.reverse)
    rw [hw]
    simpa [hlen, Nat.sub_add_cancel hcpm] using this
  rw [hword, trunc_of_lt hlt]
  constructor
  · have := slice_cat_uniform c.bw (i.bus.datW :: s.wregs.reverse) 0
    simpa using this
  · intro k hk
    rw [slice_cat_uniform c.bw (i.bus.datW :: s.wregs.reverse) (c.cpm - 1 - k)]
    have hidx : c.cpm - 1 - k = (c.cpm - 2 - k) + 1 := by omega
    rw [hidx, List.getD_cons_succ, List.getD_eq_getElem?_getD, List.getD_eq_getElem?_getD]
    rw [List.getElem?_reverse (by omega)]
    congr 3
    omega

end Litex.Csr
