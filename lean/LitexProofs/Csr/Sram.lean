import LitexModel.Csr.Sram
import LitexProofs.Csr.Bits
/-
  Step lemmas for the CSR memory window.
-/
namespace Litex.Csr
open Litex

theorem sram_next_mem (c : SramCfg) (s : SramState) (i : SramIn) :
    ((sram c).next s i).mem =
      if (c.sel i.bus.adr && i.bus.we && !c.readOnly) && (i.bus.adr % 2 ^ c.wb == c.cpm - 1) then
        s.mem.set (c.clampAdr (c.portAdr i.bus.adr i.page))
          (trunc c.width (cat ((c.bw, i.bus.datW) :: s.wregs.reverse.map fun w => (c.bw, w))))
      else s.mem := rfl

theorem sram_next_read (c : SramCfg) (s : SramState) (i : SramIn) :
    sramDatR c ((sram c).next s i) =
      if c.sel i.bus.adr then
        slice ((c.cpm - 1 - i.bus.adr % 2 ^ c.wb) * c.bw) c.bw
          (trunc (c.cpm * c.bw) (((sram c).next s i).mem.getD (c.clampAdr (c.portAdr i.bus.adr i.page)) 0))
      else 0 := by
  simp [sramDatR, sram]

theorem trunc_trunc_le (a b n : Nat) (h : a ≤ b) : trunc b (trunc a n) = trunc a n := by
  apply trunc_of_lt
  exact Nat.lt_of_lt_of_le (trunc_lt a n) (Nat.pow_le_pow_right (by omega) h)

theorem trunc_trunc_ge (a b n : Nat) (h : a ≤ b) : trunc a (trunc b n) = trunc a n := by
  unfold trunc
  exact Nat.mod_mod_of_dvd n (Nat.pow_dvd_pow 2 h)

end Litex.Csr
