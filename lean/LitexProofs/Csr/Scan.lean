import LitexModel.Csr.Scan
/-
  `CSRBankArray.scan`: the banks are exactly the objects with a non-empty description, in scan order; every
  gathered register keeps its index; page registers follow them and the memory windows point at them.
-/
namespace Litex.Csr
open Litex

def objBank (bw : Nat) (ord : WordOrdering) (pbits : Nat) (o : ObjDesc) : BankCfg :=
  { bw := bw, ord := ord, pbits := pbits, address := o.loc, regs := objRegs bw pbits o }

theorem scanFrom_banks (bw : Nat) (ord : WordOrdering) (pbits : Nat) (objs : List ObjDesc) (bi : Nat) :
    (scanFrom bw ord pbits bi objs).1 =
      (objs.filter fun o => !(objRegs bw pbits o).isEmpty).map (objBank bw ord pbits) := by
  induction objs generalizing bi with
  | nil => rfl
  | cons o os ih =>
    unfold scanFrom
    by_cases h : (objRegs bw pbits o).isEmpty
    · simp only [h, if_true, List.filter_cons, Bool.not_true]
      exact ih bi
    · simp only [h, List.filter_cons, Bool.not_false, if_true, List.map_cons]
      simp only [Bool.false_eq_true, if_false, ih (bi + 1), objBank]

theorem pageRegs_append (bw pbits : Nat) (a b : List MemDesc) :
    pageRegs bw pbits (a ++ b) = pageRegs bw pbits a ++ pageRegs bw pbits b := by
  simp [pageRegs, List.filterMap_append]

theorem getElem?_mid {α : Type} (A B : List α) (x : α) : (A ++ [x] ++ B)[A.length]? = some x := by
  simp

/-- Page links of one object's memory windows. -/
theorem objSlots_page (bw pbits bi : Nat) (base : List RegSpec) :
    ∀ (mems pre : List MemDesc) (slot : SramSlot) (b r : Nat),
      slot ∈ objSlots bw pbits bi (base.length + (pageRegs bw pbits pre).length) mems → slot.page = some (b, r) →
      b = bi ∧ slot.cfg.pageBits ≠ 0 ∧
      (base ++ pageRegs bw pbits (pre ++ mems))[r]? = some { kind := .storage, size := slot.cfg.pageBits } := by
  intro mems
  induction mems with
  | nil => intro pre slot b r h; simp [objSlots] at h
  | cons m ms ih =>
    intro pre slot b r hmem hpage
    have happ : pre ++ m :: ms = (pre ++ [m]) ++ ms := by simp
    unfold objSlots at hmem
    by_cases hz : (m.cfg bw pbits).pageBits = 0
    · simp only [hz, if_true, List.mem_cons] at hmem
      have hpre : pageRegs bw pbits (pre ++ [m]) = pageRegs bw pbits pre := by
        simp [pageRegs, pageReg, hz]
      cases hmem with
      | inl h => rw [h] at hpage; simp at hpage
      | inr h =>
        rw [happ]
        exact ih (pre ++ [m]) slot b r (by rw [hpre]; exact h) hpage
    · simp only [hz, if_false, List.mem_cons] at hmem
      have hpre : pageRegs bw pbits (pre ++ [m]) =
          pageRegs bw pbits pre ++ [{ kind := .storage, size := (m.cfg bw pbits).pageBits }] := by
        simp [pageRegs, pageReg, hz]
      cases hmem with
      | inl h =>
        rw [h] at hpage
        simp only [Option.some.injEq, Prod.mk.injEq] at hpage
        obtain ⟨hb, hr⟩ := hpage
        refine ⟨hb.symm, by rw [h]; exact hz, ?_⟩
        rw [happ, pageRegs_append, hpre, h, ← hr]
        have := getElem?_mid (base ++ pageRegs bw pbits pre) (pageRegs bw pbits ms)
          ({ kind := .storage, size := (m.cfg bw pbits).pageBits } : RegSpec)
        simpa [List.length_append, ← List.append_assoc] using this
      | inr h =>
        rw [happ]
        refine ih (pre ++ [m]) slot b r ?_ hpage
        rw [hpre]
        simpa [Nat.add_assoc] using h

theorem objRegs_nonempty_of_slot (bw pbits bi k : Nat) (mems : List MemDesc) (slot : SramSlot) (b r : Nat)
    (h : slot ∈ objSlots bw pbits bi k mems) (hp : slot.page = some (b, r)) : pageRegs bw pbits mems ≠ [] := by
  induction mems generalizing k with
  | nil => simp [objSlots] at h
  | cons m ms ih =>
    unfold objSlots at h
    by_cases hz : (m.cfg bw pbits).pageBits = 0
    · simp only [hz, if_true, List.mem_cons] at h
      cases h with
      | inl h => rw [h] at hp; simp at hp
      | inr h =>
        have := ih k h
        simp [pageRegs, pageReg, hz] at this ⊢
        exact this
    · simp [pageRegs, pageReg, hz]

/-- **Page links**: a memory window with a page register points at a storage of `pageBits` bits in an existing bank. -/
theorem scanFrom_page (bw : Nat) (ord : WordOrdering) (pbits : Nat) :
    ∀ (objs : List ObjDesc) (bi : Nat) (slot : SramSlot) (b r : Nat),
      slot ∈ (scanFrom bw ord pbits bi objs).2 → slot.page = some (b, r) →
      bi ≤ b ∧ slot.cfg.pageBits ≠ 0 ∧
      ((scanFrom bw ord pbits bi objs).1[b - bi]?).bind (fun c => c.regs[r]?) =
        some { kind := .storage, size := slot.cfg.pageBits } := by
  intro objs
  induction objs with
  | nil => intro bi slot b r h; simp [scanFrom] at h
  | cons o os ih =>
    intro bi slot b r hmem hpage
    unfold scanFrom at hmem ⊢
    by_cases he : (objRegs bw pbits o).isEmpty
    · simp only [he, if_true, List.mem_append] at hmem ⊢
      cases hmem with
      | inl h =>
        exfalso
        have hne := objRegs_nonempty_of_slot bw pbits bi _ o.mems slot b r h hpage
        have : objRegs bw pbits o = [] := List.isEmpty_iff.mp he
        unfold objRegs at this
        simp at this
        exact hne this.2
      | inr h => exact ih bi slot b r h hpage
    · simp only [he, Bool.false_eq_true, if_false, List.mem_append] at hmem ⊢
      cases hmem with
      | inl h =>
        have := objSlots_page bw pbits bi o.regs o.mems [] slot b r (by simpa [pageRegs] using h) hpage
        obtain ⟨hb, hz, hr⟩ := this
        subst hb
        refine ⟨Nat.le_refl _, hz, ?_⟩
        simp only [Nat.sub_self, List.getElem?_cons_zero, Option.bind_some]
        simpa [objRegs] using hr
      | inr h =>
        obtain ⟨hb, hz, hr⟩ := ih (bi + 1) slot b r h hpage
        refine ⟨by omega, hz, ?_⟩
        have : b - bi = (b - (bi + 1)) + 1 := by omega
        rw [this, List.getElem?_cons_succ]
        exact hr

end Litex.Csr
