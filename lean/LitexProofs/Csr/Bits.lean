import LitexModel.Bits
import Mathlib.Tactic.Ring
/-
  Bit-level lemmas about `setSlice`/`slice`/`trunc`/`cat` used by the CSR proofs.
-/
namespace Litex

theorem setSlice_eq (lo w n v : Nat) :
    setSlice lo w n v = 2 ^ lo * (2 ^ w * (n / 2 ^ (lo + w)) + v % 2 ^ w) + n % 2 ^ lo := by
  unfold setSlice
  rw [Nat.pow_add]
  ring

/-- Bit `b` of `setSlice lo w n v`: inside the window it is bit `b - lo` of `v`, outside it is bit `b` of `n`. -/
theorem testBit_setSlice (lo w n v b : Nat) :
    (setSlice lo w n v).testBit b =
      if lo ≤ b ∧ b < lo + w then v.testBit (b - lo) else n.testBit b := by
  rw [setSlice_eq]
  rw [Nat.testBit_two_pow_mul_add _ (Nat.mod_lt _ (Nat.two_pow_pos lo))]
  by_cases h1 : b < lo
  · simp [h1, Nat.testBit_mod_two_pow]
  · simp only [h1, if_false]
    rw [Nat.testBit_two_pow_mul_add _ (Nat.mod_lt _ (Nat.two_pow_pos w))]
    by_cases h2 : b - lo < w
    · have : lo ≤ b ∧ b < lo + w := by omega
      simp [h2, this, Nat.testBit_mod_two_pow]
    · have : ¬ (lo ≤ b ∧ b < lo + w) := by omega
      simp only [h2, this, if_false]
      rw [Nat.testBit_div_two_pow]
      congr 1
      omega

theorem testBit_slice (lo w n b : Nat) : (slice lo w n).testBit b = (decide (b < w) && n.testBit (lo + b)) := by
  unfold slice
  rw [Nat.testBit_mod_two_pow, Nat.testBit_div_two_pow, Nat.add_comm]

theorem testBit_trunc (w n b : Nat) : (trunc w n).testBit b = (decide (b < w) && n.testBit b) := by
  unfold trunc
  rw [Nat.testBit_mod_two_pow]

/-- Bits outside the written window keep their value. -/
theorem testBit_setSlice_outside (lo w n v b : Nat) (h : ¬ (lo ≤ b ∧ b < lo + w)) :
    (setSlice lo w n v).testBit b = n.testBit b := by
  rw [testBit_setSlice]; simp [h]

/-- `setSlice` keeps a value within `size` bits when the window lies inside. -/
theorem setSlice_lt (lo w n v size : Nat) (hn : n < 2 ^ size) (hw : lo + w ≤ size) :
    setSlice lo w n v < 2 ^ size := by
  apply Nat.lt_pow_two_of_testBit
  intro b hb
  rw [testBit_setSlice]
  have hb' : ¬ (lo ≤ b ∧ b < lo + w) := by omega
  simp only [hb', if_false]
  exact Nat.testBit_lt_two_pow (Nat.lt_of_lt_of_le hn (Nat.pow_le_pow_right (by omega) hb))

theorem slice_eq_of_testBit (lo w n m : Nat) (h : ∀ b, b < w → n.testBit (lo + b) = m.testBit (lo + b)) :
    slice lo w n = slice lo w m := by
  apply Nat.eq_of_testBit_eq
  intro b
  rw [testBit_slice, testBit_slice]
  by_cases hb : b < w
  · simp [hb, h b hb]
  · simp [hb]

/-- Reading a window disjoint from the written one is unaffected. -/
theorem slice_setSlice_disjoint (lo w lo' w' n v : Nat) (h : lo' + w' ≤ lo ∨ lo + w ≤ lo') :
    slice lo' w' (setSlice lo w n v) = slice lo' w' n := by
  apply slice_eq_of_testBit
  intro b hb
  apply testBit_setSlice_outside
  omega

end Litex
