import LitexProofs.Csr.Invariant
/-
  Atomic multi-word writes as software performs them: the words are written in ascending address order,
  with arbitrary other bus traffic in between.  Under ordering "big" the register never shows a torn value.
-/
namespace Litex.Csr
open Litex

/-- A cycle in which neither the bus writes a word of register `k` nor the device writes register `k`.
    (Reads anywhere, writes to other registers / banks / unpopulated words, idle cycles; any device activity on
    other registers.) -/
def Quiet (c : BankCfg) (k : Nat) (i : BankIn) : Prop :=
  (i.bus.we = false ∨ ∀ j, c.ValidWord k j → i.bus.adr ≠ c.wordAdr k j) ∧ (i.devOf k).we = false

/-- A bus write of `d` to address `a` (the device does not write register `k` in that cycle). -/
def IsWrite (k : Nat) (a d : Nat) (i : BankIn) : Prop :=
  i.bus.we = true ∧ i.bus.adr = a ∧ i.bus.datW = d ∧ (i.devOf k).we = false

/-- Software writes the data words `ds` to consecutive ascending addresses starting at `a0 + m`, with any number
    of quiet cycles before, between and after the writes. -/
inductive AscWrites (c : BankCfg) (k a0 : Nat) : Nat → List Nat → List BankIn → Prop
  | done (m : Nat) : AscWrites c k a0 m [] []
  | quiet (m : Nat) (ds : List Nat) (i : BankIn) (ins : List BankIn) :
      Quiet c k i → AscWrites c k a0 m ds ins → AscWrites c k a0 m ds (i :: ins)
  | write (m d : Nat) (ds : List Nat) (i : BankIn) (ins : List BankIn) :
      IsWrite k (a0 + m) d i → AscWrites c k a0 (m + 1) ds ins → AscWrites c k a0 m (d :: ds) (i :: ins)

theorem devVal_quiet (r : RegSpec) (s : RegState) (d : Dev) (h : d.we = false) : devVal r s d = s.val := by
  simp [devVal, h]

/-- Quiet cycle: value and back-store of the storage are unchanged. -/
theorem next_reg_quiet (c : BankCfg) (s : BankState) (i : BankIn) (k : Nat) (hk : k < c.regs.length)
    (hkind : (c.spec k).kind = .storage) (hq : Quiet c k i) :
    (((bank c).next s i).reg k).val = (s.reg k).val ∧ (((bank c).next s i).reg k).back = (s.reg k).back := by
  have hnone : (if i.bus.we then c.hitReg i.bus.adr k else none) = none := by
    cases hq.1 with
    | inl h => simp [h]
    | inr h => simp [c.hitReg_none_of_ne _ _ h]
  rw [next_reg c s i k hk, hnone]
  simp [regNext, hkind, devVal_quiet _ _ _ hq.2]

/-- Write to an upper word of an atomic storage: staged, value unchanged. -/
theorem next_reg_stage (c : BankCfg) (hfit : c.Fits) (s : BankState) (i : BankIn) (k j d : Nat)
    (hv : c.ValidWord k j) (hkind : (c.spec k).kind = .storage) (hat : isAtomic c.bw (c.spec k) = true)
    (hj : j ≠ 0) (hw : IsWrite k (c.wordAdr k j) d i) :
    (((bank c).next s i).reg k).val = (s.reg k).val ∧
    (((bank c).next s i).reg k).back = (s.reg k).back.set (j - 1) (trunc (wordBits c.bw (c.spec k).size j) d) := by
  obtain ⟨hwe, hadr, hd, hdev⟩ := hw
  have hraw : (c.spec k).kind ≠ .raw := by rw [hkind]; decide
  obtain ⟨_, hnb⟩ := simple_lo c k j hraw
  simp only [next_reg c s i k hv.1, hwe, hadr, if_true, c.hitReg_wordAdr k j hfit hv, regNext, hkind, hat,
    c.simple_word k j hv, hj, if_false, hnb, devVal_quiet _ _ _ hdev, hd, and_self]

/-- Write to word 0 of an atomic storage: commit. -/
theorem next_reg_commit (c : BankCfg) (hfit : c.Fits) (s : BankState) (i : BankIn) (k d : Nat)
    (hv : c.ValidWord k 0) (hkind : (c.spec k).kind = .storage) (hat : isAtomic c.bw (c.spec k) = true)
    (hw : IsWrite k (c.wordAdr k 0) d i) :
    (((bank c).next s i).reg k).val =
        trunc (c.spec k).size (cat ((c.bw, d) :: backPairs c.bw (c.spec k).size (s.reg k).back 1)) ∧
    (((bank c).next s i).reg k).back = (s.reg k).back := by
  obtain ⟨hwe, hadr, hd, hdev⟩ := hw
  simp only [next_reg c s i k hv.1, hwe, hadr, if_true, c.hitReg_wordAdr k 0 hfit hv, regNext, hkind, hat,
    c.simple_word k 0 hv, hd, and_self]

/-! ### Composition of the committed value -/

/-- Word `j` of the value software intends: the `j`-th word counted from the *end* of the ascending write list
    (ordering big: highest address = least significant word). -/
def wordPairsBig (bw size n : Nat) (ds : List Nat) : List (Nat × Nat) :=
  (List.range n).map fun j => (wordBits bw size j, ds.getD (n - 1 - j) 0)

theorem backPairs_map_range (bw size : Nat) (f : Nat → Nat) (m i0 : Nat) :
    backPairs bw size ((List.range' i0 m).map f) (i0 + 1) =
      (List.range' i0 m).map fun q => (wordBits bw size (q + 1), f q) := by
  induction m generalizing i0 with
  | zero => simp [backPairs]
  | succ m ih =>
    simp only [List.range'_succ, List.map_cons, backPairs]
    rw [ih (i0 + 1)]

theorem cat_trunc_congr (l : List (Nat × Nat)) (g : Nat → Nat → Nat) (hg : ∀ w v, g w v % 2 ^ w = v % 2 ^ w) :
    cat (l.map fun p => (p.1, g p.1 p.2)) = cat l := by
  induction l with
  | nil => rfl
  | cons p l ih =>
    obtain ⟨w, v⟩ := p
    simp only [List.map_cons, cat, ih, hg]

end Litex.Csr
