import LitexProofs.Csr.Invariant
/-
  Atomic multi-word writes as software performs them: the words are written in ascending address order,
  with arbitrary other bus traffic in between.  Under ordering "big" the register never shows a torn value.
-/
namespace Litex.Csr
open Litex

/-- A cycle in which neither the bus writes a word of register `k` nor the device writes register `k`.
    (Reads anywhere, writes to other registers / banks / unpopulated words, idle cycles; any device activity on
    other registers.) -/
def Quiet (c : BankCfg) (k : Nat) (i : BankIn) : Prop :=
  (i.bus.we = false ∨ ∀ j, c.ValidWord k j → i.bus.adr ≠ c.wordAdr k j) ∧ (i.devOf k).we = false

/-- A bus write of `d` to address `a` (the device does not write register `k` in that cycle). -/
def IsWrite (k : Nat) (a d : Nat) (i : BankIn) : Prop :=
  i.bus.we = true ∧ i.bus.adr = a ∧ i.bus.datW = d ∧ (i.devOf k).we = false

/-- Software writes the data words `ds` to consecutive ascending addresses starting at `a0 + m`, with any number
    of quiet cycles before, between and after the writes. -/
inductive AscWrites (c : BankCfg) (k a0 : Nat) : Nat → List Nat → List BankIn → Prop
  | done (m : Nat) : AscWrites c k a0 m [] []
  | quiet (m : Nat) (ds : List Nat) (i : BankIn) (ins : List BankIn) :
      Quiet c k i → AscWrites c k a0 m ds ins → AscWrites c k a0 m ds (i :: ins)
  | write (m d : Nat) (ds : List Nat) (i : BankIn) (ins : List BankIn) :
      IsWrite k (a0 + m) d i → AscWrites c k a0 (m + 1) ds ins → AscWrites c k a0 m (d :: ds) (i :: ins)

theorem devVal_quiet (r : RegSpec) (s : RegState) (d : Dev) (h : d.we = false) : devVal r s d = s.val := by
  simp [devVal, h]

/-- Quiet cycle: value and back-store of the storage are unchanged. -/
theorem next_reg_quiet (c : BankCfg) (s : BankState) (i : BankIn) (k : Nat) (hk : k < c.regs.length)
    (hkind : (c.spec k).kind = .storage) (hq : Quiet c k i) :
    (((bank c).next s i).reg k).val = (s.reg k).val ∧ (((bank c).next s i).reg k).back = (s.reg k).back := by
  have hnone : (if i.bus.we then c.hitReg i.bus.adr k else none) = none := by
    cases hq.1 with
    | inl h => simp [h]
    | inr h => simp [c.hitReg_none_of_ne _ _ h]
  rw [next_reg c s i k hk, hnone]
  simp [regNext, hkind, devVal_quiet _ _ _ hq.2]

/-- Write to an upper word of an atomic storage: staged, value unchanged. -/
theorem next_reg_stage (c : BankCfg) (hfit : c.Fits) (s : BankState) (i : BankIn) (k j d : Nat)
    (hv : c.ValidWord k j) (hkind : (c.spec k).kind = .storage) (hat : isAtomic c.bw (c.spec k) = true)
    (hj : j ≠ 0) (hw : IsWrite k (c.wordAdr k j) d i) :
    (((bank c).next s i).reg k).val = (s.reg k).val ∧
    (((bank c).next s i).reg k).back = (s.reg k).back.set (j - 1) (trunc (wordBits c.bw (c.spec k).size j) d) := by
  obtain ⟨hwe, hadr, hd, hdev⟩ := hw
  have hraw : (c.spec k).kind ≠ .raw := by rw [hkind]; decide
  obtain ⟨_, hnb⟩ := simple_lo c k j hraw
  simp only [next_reg c s i k hv.1, hwe, hadr, if_true, c.hitReg_wordAdr k j hfit hv, regNext, hkind, hat,
    c.simple_word k j hv, hj, if_false, hnb, devVal_quiet _ _ _ hdev, hd, and_self]

/-- Write to word 0 of an atomic storage: commit. -/
theorem next_reg_commit (c : BankCfg) (hfit : c.Fits) (s : BankState) (i : BankIn) (k d : Nat)
    (hv : c.ValidWord k 0) (hkind : (c.spec k).kind = .storage) (hat : isAtomic c.bw (c.spec k) = true)
    (hw : IsWrite k (c.wordAdr k 0) d i) :
    (((bank c).next s i).reg k).val =
        trunc (c.spec k).size (cat ((c.bw, d) :: backPairs c.bw (c.spec k).size (s.reg k).back 1)) ∧
    (((bank c).next s i).reg k).back = (s.reg k).back := by
  obtain ⟨hwe, hadr, hd, hdev⟩ := hw
  simp only [next_reg c s i k hv.1, hwe, hadr, if_true, c.hitReg_wordAdr k 0 hfit hv, regNext, hkind, hat,
    c.simple_word k 0 hv, hd, and_self]

/-! ### Composition of the committed value -/

/-- Word `j` of the value software intends: the `j`-th word counted from the *end* of the ascending write list
    (ordering big: highest address = least significant word). -/
def wordPairsBig (bw size n : Nat) (ds : List Nat) : List (Nat × Nat) :=
  (List.range n).map fun j => (wordBits bw size j, ds.getD (n - 1 - j) 0)

theorem backPairs_map_range (bw size : Nat) (f : Nat → Nat) (m i0 : Nat) :
    backPairs bw size ((List.range' i0 m).map f) (i0 + 1) =
      (List.range' i0 m).map fun q => (wordBits bw size (q + 1), f q) := by
  induction m generalizing i0 with
  | zero => simp [backPairs]
  | succ m ih =>
    simp only [List.range'_succ, List.map_cons, backPairs]
    rw [ih (i0 + 1)]

theorem cat_trunc_congr (l : List (Nat × Nat)) (g : Nat → Nat → Nat) (hg : ∀ w v, g w v % 2 ^ w = v % 2 ^ w) :
    cat (l.map fun p => (p.1, g p.1 p.2)) = cat l := by
  induction l with
  | nil => rfl
  | cons p l ih =>
    obtain ⟨w, v⟩ := p
    simp only [List.map_cons, cat, ih, hg]

theorem map_range'_succ {α : Type} (g : Nat → α) (s m : Nat) :
    (List.range' (s + 1) m).map g = (List.range' s m).map (fun q => g (q + 1)) := by
  induction m generalizing s with
  | zero => rfl
  | succ m ih => simp only [List.range'_succ, List.map_cons, ih (s + 1)]

theorem size_gt_of_atomic (bw : Nat) (r : RegSpec) (h : isAtomic bw r = true) : bw < r.size ∧ 0 < bw := by
  unfold isAtomic nwords at h
  simp only [Bool.and_eq_true, decide_eq_true_eq] at h
  have h2 := h.2
  by_cases hbw : bw = 0
  · subst hbw; simp at h2
  · have hpos : 0 < bw := Nat.pos_of_ne_zero hbw
    have := (Nat.le_div_iff_mul_le hpos).mp h2
    omega

/-- The committed value when the back-store holds the staged upper words. -/
theorem commit_value (bw size n : Nat) (ds : List Nat) (back : List Nat) (hn : 1 < n) (hsz : bw < size)
    (hback : back = (List.range' 0 (n - 1)).map fun q => trunc (wordBits bw size (q + 1)) (ds.getD (n - 2 - q) 0)) :
    cat ((bw, ds.getD (n - 1) 0) :: backPairs bw size back 1) = cat (wordPairsBig bw size n ds) := by
  have hn' : n = (n - 1) + 1 := by omega
  unfold wordPairsBig
  rw [List.range_eq_range', hn', List.range'_succ, List.map_cons, map_range'_succ]
  rw [hback, backPairs_map_range bw size _ (n - 1) 0]
  have hw0 : wordBits bw size 0 = bw := by unfold wordBits; simp; omega
  simp only [Nat.sub_zero, hw0, Nat.add_sub_cancel]
  show cat (_ :: _) = cat (_ :: _)
  simp only [cat]
  congr 2
  have := cat_trunc_congr ((List.range' 0 (n - 1)).map fun q => (wordBits bw size (q + 1), ds.getD (n - 2 - q) 0))
    (fun w v => trunc w v) (fun w v => by simp [trunc])
  rw [List.map_map] at this
  have h2 : (List.range' 0 (n - 1)).map (fun q => (wordBits bw size (q + 1), ds.getD (n - 1 - (q + 1)) 0)) =
      (List.range' 0 (n - 1)).map (fun q => (wordBits bw size (q + 1), ds.getD (n - 2 - q) 0)) := by
    apply List.map_congr_left
    intro q _
    congr 2
    omega
  rw [h2]
  exact this


theorem wordAdr_big (c : BankCfg) (k m : Nat) (hbig : c.ord = .big) (hkind : (c.spec k).kind ≠ .raw)
    (hm : m < nwords c.bw (c.spec k).size) :
    c.wordAdr k (nwords c.bw (c.spec k).size - 1) + m = c.wordAdr k (nwords c.bw (c.spec k).size - 1 - m) := by
  unfold BankCfg.wordAdr addrOf posIn
  rw [show c.regs.getD k default = c.spec k from rfl]
  cases hkd : (c.spec k).kind
  · simp only [hbig, wordPos]; omega
  · simp only [hbig, wordPos]; omega
  · exact absurd hkd hkind

section
variable (c : BankCfg) (hfit : c.Fits) (k : Nat) (hk : k < c.regs.length)
  (hkind : (c.spec k).kind = .storage) (hat : isAtomic c.bw (c.spec k) = true) (hbig : c.ord = .big)
  (ds : List Nat) (old : Nat)

/-- State invariant after `m` of the `n` words have been written. -/
def AtomicInv (m : Nat) (s : BankState) : Prop :=
  let n := nwords c.bw (c.spec k).size
  (s.reg k).back.length = n - 1 ∧
  (∀ p, p < m → p < n - 1 →
      (s.reg k).back[n - 2 - p]? = some (trunc (wordBits c.bw (c.spec k).size (n - 1 - p)) (ds.getD p 0))) ∧
  (m < n → (s.reg k).val = old) ∧
  (m = n → (s.reg k).val = trunc (c.spec k).size (cat (wordPairsBig c.bw (c.spec k).size n ds)))

include hfit hk hkind hat hbig in
theorem atomic_seq (hds : ds.length = nwords c.bw (c.spec k).size) :
    ∀ (m : Nat) (rest : List Nat) (ins : List BankIn),
      AscWrites c k (c.wordAdr k (nwords c.bw (c.spec k).size - 1)) m rest ins →
      ∀ s, rest = ds.drop m → m ≤ nwords c.bw (c.spec k).size → AtomicInv c k ds old m s →
        (∀ pre, pre <+: ins →
            (((bank c).runFrom s pre).reg k).val = old ∨
            (((bank c).runFrom s pre).reg k).val =
              trunc (c.spec k).size (cat (wordPairsBig c.bw (c.spec k).size (nwords c.bw (c.spec k).size) ds))) ∧
        (((bank c).runFrom s ins).reg k).val =
          trunc (c.spec k).size (cat (wordPairsBig c.bw (c.spec k).size (nwords c.bw (c.spec k).size) ds)) := by
  intro m rest ins h
  have hraw : (c.spec k).kind ≠ .raw := by rw [hkind]; decide
  have hn1 : 1 < nwords c.bw (c.spec k).size := by
    have := hat; unfold isAtomic at this; simp at this; exact this.2
  induction h with
  | done m =>
    intro s hrest hm hinv
    have hmn : m = nwords c.bw (c.spec k).size := by
      have := congrArg List.length hrest
      simp at this
      omega
    have hv := hinv.2.2.2 hmn
    refine ⟨fun pre hpre => ?_, hv⟩
    have : pre = [] := by simpa using hpre
    subst this
    exact Or.inr hv
  | quiet m rest i ins hq _ ih =>
    intro s hrest hm hinv
    obtain ⟨hval, hback⟩ := next_reg_quiet c s i k hk hkind hq
    have hinv' : AtomicInv c k ds old m ((bank c).next s i) := by
      unfold AtomicInv at hinv ⊢
      simp only [hval, hback]
      exact hinv
    obtain ⟨ih1, ih2⟩ := ih ((bank c).next s i) hrest hm hinv'
    refine ⟨fun pre hpre => ?_, ih2⟩
    cases pre with
    | nil =>
      by_cases hmn : m < nwords c.bw (c.spec k).size
      · exact Or.inl (hinv.2.2.1 hmn)
      · exact Or.inr (hinv.2.2.2 (by omega))
    | cons x pre' =>
      have hx := List.cons_prefix_cons.mp hpre
      rw [hx.1]
      exact ih1 pre' hx.2
  | write m d rest i ins hw _ ih =>
    intro s hrest hm hinv
    have hmn : m < nwords c.bw (c.spec k).size := by
      have := congrArg List.length hrest
      simp at this
      omega
    have hd : d = ds.getD m 0 := by
      have : (ds.drop m)[0]? = some d := by rw [← hrest]; rfl
      rw [List.getElem?_drop] at this
      simp only [Nat.add_zero] at this
      simp [List.getD_eq_getElem?_getD, this]
    have hrest' : rest = ds.drop (m + 1) := by
      have : (d :: rest).tail = (ds.drop m).tail := by rw [hrest]
      simpa [List.tail_drop] using this
    rw [wordAdr_big c k m hbig hraw hmn] at hw
    have hvw : c.ValidWord k (nwords c.bw (c.spec k).size - 1 - m) :=
      ⟨hk, by rw [show c.regs.getD k default = c.spec k from rfl, regWords_of_not_raw _ _ hraw]; omega⟩
    obtain ⟨hlen, hpt, hold, _⟩ := hinv
    have hpre0 : (s.reg k).val = old := hold hmn
    by_cases hlast : m = nwords c.bw (c.spec k).size - 1
    · -- the last (highest-address) word: word 0, commit
      have hj0 : nwords c.bw (c.spec k).size - 1 - m = 0 := by omega
      rw [hj0] at hw hvw
      obtain ⟨hval, hback⟩ := next_reg_commit c hfit s i k d hvw hkind hat hw
      have hbk : (s.reg k).back = (List.range' 0 (nwords c.bw (c.spec k).size - 1)).map fun q =>
          trunc (wordBits c.bw (c.spec k).size (q + 1)) (ds.getD (nwords c.bw (c.spec k).size - 2 - q) 0) := by
        apply List.ext_getElem?
        intro q
        by_cases hq : q < nwords c.bw (c.spec k).size - 1
        · have := hpt (nwords c.bw (c.spec k).size - 2 - q) (by omega) (by omega)
          rw [show nwords c.bw (c.spec k).size - 2 - (nwords c.bw (c.spec k).size - 2 - q) = q by omega,
              show nwords c.bw (c.spec k).size - 1 - (nwords c.bw (c.spec k).size - 2 - q) = q + 1 by omega] at this
          rw [this, List.getElem?_map, List.getElem?_range' (by omega)]
          simp
        · rw [List.getElem?_eq_none (by omega), List.getElem?_eq_none (by simp; omega)]
      have hcv := commit_value c.bw (c.spec k).size _ ds _ hn1 (size_gt_of_atomic _ _ hat).1 hbk
      have hnew : (((bank c).next s i).reg k).val =
          trunc (c.spec k).size (cat (wordPairsBig c.bw (c.spec k).size (nwords c.bw (c.spec k).size) ds)) := by
        rw [hval, hd, hlast, hcv]
      have hinv' : AtomicInv c k ds old (m + 1) ((bank c).next s i) := by
        refine ⟨by rw [hback]; exact hlen, fun p hp hp' => ?_, fun h => by omega, fun _ => hnew⟩
        rw [hback]
        exact hpt p (by omega) hp'
      obtain ⟨ih1, ih2⟩ := ih ((bank c).next s i) hrest' (by omega) hinv'
      refine ⟨fun pre hpre => ?_, ih2⟩
      cases pre with
      | nil => exact Or.inl hpre0
      | cons x pre' =>
        have hx := List.cons_prefix_cons.mp hpre
        rw [hx.1]
        exact ih1 pre' hx.2
    · -- an upper word: staged
      have hj : nwords c.bw (c.spec k).size - 1 - m ≠ 0 := by omega
      obtain ⟨hval, hback⟩ := next_reg_stage c hfit s i k _ d hvw hkind hat hj hw
      have hinv' : AtomicInv c k ds old (m + 1) ((bank c).next s i) := by
        refine ⟨by rw [hback, List.length_set]; exact hlen, fun p hp hp' => ?_, fun _ => by rw [hval]; exact hpre0,
          fun h => by omega⟩
        rw [hback]
        by_cases hpm : p = m
        · subst hpm
          rw [show nwords c.bw (c.spec k).size - 1 - p - 1 = nwords c.bw (c.spec k).size - 2 - p by omega]
          rw [List.getElem?_set_self (by omega), hd]
        · rw [List.getElem?_set_ne (by omega)]
          exact hpt p (by omega) hp'
      obtain ⟨ih1, ih2⟩ := ih ((bank c).next s i) hrest' (by omega) hinv'
      refine ⟨fun pre hpre => ?_, ih2⟩
      cases pre with
      | nil => exact Or.inl hpre0
      | cons x pre' =>
        have hx := List.cons_prefix_cons.mp hpre
        rw [hx.1]
        exact ih1 pre' hx.2
end


end Litex.Csr
