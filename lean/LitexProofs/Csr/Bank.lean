import LitexModel.Csr.Bank
import LitexProofs.Csr.Layout
import LitexProofs.Csr.Bits
/-
  Step lemmas for the CSR bank: address decode (`hit`), per-register next state, strobes.
-/
namespace Litex.Csr
open Litex

namespace BankCfg

theorem wordAdr_div (c : BankCfg) (k j : Nat) (hfit : c.Fits) (hv : c.ValidWord k j) :
    c.wordAdr k j / 2 ^ c.pbits = c.address ∧ c.wordAdr k j % 2 ^ c.pbits = addrOf c.bw c.ord c.regs k j := by
  have hlt : addrOf c.bw c.ord c.regs k j < 2 ^ c.pbits :=
    Nat.lt_of_lt_of_le (addrOf_lt _ _ _ _ _ hv.1 hv.2) hfit
  have hpos : 0 < 2 ^ c.pbits := Nat.two_pow_pos _
  unfold wordAdr
  constructor
  · rw [Nat.add_comm, Nat.mul_comm, Nat.add_mul_div_left _ _ hpos, Nat.div_eq_of_lt hlt, Nat.zero_add]
  · rw [Nat.add_comm, Nat.mul_comm, Nat.add_mul_mod_self_left, Nat.mod_eq_of_lt hlt]

/-- The address of word `j` of register `k` decodes to exactly that simple CSR. -/
theorem hit_wordAdr (c : BankCfg) (k j : Nat) (hfit : c.Fits) (hv : c.ValidWord k j) :
    c.hit (c.wordAdr k j) = some (c.simple k j) := by
  obtain ⟨h1, h2⟩ := wordAdr_div c k j hfit hv
  unfold hit sel
  rw [h1, h2]
  simp only [beq_self_eq_true, if_true]
  exact simpleCsrs_lookup _ _ _ _ _ hv.1 hv.2

/-- Whatever the decode hits is a word of a register, and the address is that word's address. -/
theorem hit_inv (c : BankCfg) (a : Nat) (sc : Simple) (h : c.hit a = some sc) :
    ∃ k j, c.ValidWord k j ∧ sc = c.simple k j ∧ a = c.wordAdr k j := by
  unfold hit sel at h
  by_cases hs : a / 2 ^ c.pbits = c.address
  · simp only [hs, beq_self_eq_true, if_true] at h
    obtain ⟨k, j, hk, hj, hsc, ha⟩ := simpleCsrs_inv _ _ _ _ _ h
    refine ⟨k, j, ⟨hk, hj⟩, hsc, ?_⟩
    unfold wordAdr
    rw [← ha, ← hs, Nat.mul_comm]
    exact (Nat.div_add_mod a (2 ^ c.pbits)).symm
  · simp [hs] at h

theorem simple_reg (c : BankCfg) (k j : Nat) : (c.simple k j).reg = k := mkSimple_reg _ _ _ _ _

theorem simple_word (c : BankCfg) (k j : Nat) (hv : c.ValidWord k j) : (c.simple k j).word = j :=
  mkSimple_word _ _ _ _ _ hv.2

theorem wordAdr_injective (c : BankCfg) (k j k' j' : Nat) (hv : c.ValidWord k j) (hv' : c.ValidWord k' j')
    (h : c.wordAdr k j = c.wordAdr k' j') : k = k' ∧ j = j' := by
  unfold wordAdr at h
  exact addrOf_injective c.bw c.ord c.regs k j k' j' hv.1 hv.2 hv'.1 hv'.2 (by omega)

theorem hitReg_wordAdr (c : BankCfg) (k j : Nat) (hfit : c.Fits) (hv : c.ValidWord k j) :
    c.hitReg (c.wordAdr k j) k = some (c.simple k j) := by
  unfold hitReg
  rw [hit_wordAdr c k j hfit hv]
  simp [simple_reg]

theorem hitReg_wordAdr_other (c : BankCfg) (k j k' : Nat) (hfit : c.Fits) (hv : c.ValidWord k j)
    (hne : k' ≠ k) : c.hitReg (c.wordAdr k j) k' = none := by
  unfold hitReg
  rw [hit_wordAdr c k j hfit hv]
  simp [simple_reg, Ne.symm hne]

/-- `hitReg a k` is `some` exactly when `a` is the address of a word of register `k`. -/
theorem hitReg_inv (c : BankCfg) (a k : Nat) (sc : Simple) (h : c.hitReg a k = some sc) :
    ∃ j, c.ValidWord k j ∧ sc = c.simple k j ∧ a = c.wordAdr k j := by
  unfold hitReg at h
  cases hh : c.hit a with
  | none => simp [hh] at h
  | some sc' =>
    simp only [hh] at h
    by_cases hr : sc'.reg = k
    · simp only [hr, if_true] at h
      obtain ⟨k', j, hv, hsc, ha⟩ := hit_inv c a sc' hh
      have : k' = k := by rw [hsc, simple_reg] at hr; exact hr
      subst this
      exact ⟨j, hv, by rw [← Option.some.inj h, hsc], ha⟩
    · simp [hr] at h

/-- An address that is not an address of a word of register `k` does not hit register `k`. -/
theorem hitReg_none_of_ne (c : BankCfg) (a k : Nat)
    (h : ∀ j, c.ValidWord k j → a ≠ c.wordAdr k j) : c.hitReg a k = none := by
  cases hh : c.hitReg a k with
  | none => rfl
  | some sc =>
    obtain ⟨j, hv, _, ha⟩ := hitReg_inv c a k sc hh
    exact absurd ha (h j hv)

theorem hit_none_of_unselected (c : BankCfg) (a : Nat) (h : a / 2 ^ c.pbits ≠ c.address) : c.hit a = none := by
  unfold hit sel
  simp [h]

end BankCfg

/-! ### Next state of one register -/

theorem next_reg (c : BankCfg) (s : BankState) (i : BankIn) (k : Nat) (hk : k < c.regs.length) :
    ((bank c).next s i).reg k =
      regNext c.bw (c.spec k) (s.reg k) (if i.bus.we then c.hitReg i.bus.adr k else none) i.bus.datW
        (i.devOf k) := by
  simp only [bank, BankState.reg, BankCfg.spec, BankIn.devOf, List.getD_eq_getElem?_getD,
    List.getElem?_mapIdx, List.getElem?_eq_getElem hk, Option.map_some, Option.getD_some]

theorem next_datR (c : BankCfg) (s : BankState) (i : BankIn) :
    ((bank c).next s i).datR =
      match c.hit i.bus.adr with
      | some sc => wordVal (c.spec sc.reg) (s.reg sc.reg) (i.devOf sc.reg) sc
      | none => 0 := rfl

theorem next_regs_length (c : BankCfg) (s : BankState) (i : BankIn) :
    ((bank c).next s i).regs.length = c.regs.length := by
  simp [bank]

theorem run_snoc (c : BankCfg) (ins : List BankIn) (i : BankIn) :
    (bank c).run (ins ++ [i]) = (bank c).next ((bank c).run ins) i := by
  simp [Machine.run, Machine.runFrom_append, Machine.runFrom]

/-- The write strobe word of a register is a valid word whenever the register has at least one word. -/
theorem lastWord_lt (ord : WordOrdering) (n : Nat) (h : 0 < n) : lastWord ord n < n := by
  cases ord <;> simp [lastWord] <;> omega

theorem regWords_of_not_raw (bw : Nat) (r : RegSpec) (h : r.kind ≠ .raw) : regWords bw r = nwords bw r.size := by
  unfold regWords; cases hk : r.kind <;> simp_all

theorem simple_last (c : BankCfg) (k j : Nat) (hkind : (c.spec k).kind ≠ .raw) :
    (c.simple k j).last = (j == lastWord c.ord (nwords c.bw (c.spec k).size)) := by
  unfold BankCfg.simple mkSimple
  cases h : (c.spec k).kind <;> simp_all

theorem simple_lo (c : BankCfg) (k j : Nat) (hkind : (c.spec k).kind ≠ .raw) :
    (c.simple k j).lo = j * c.bw ∧ (c.simple k j).nbits = wordBits c.bw (c.spec k).size j := by
  unfold BankCfg.simple mkSimple
  cases h : (c.spec k).kind <;> simp_all

end Litex.Csr
