import LitexModel.Csr.Scan
import LitexProofs.Csr.Array
/-
  The CSR bus glue is transparent when every interface carries the full address: lemmas for `LitexProps/C12.lean`.
-/
namespace Litex.Csr
open Litex

theorem IfW.like_eq (w : IfW) : IfW.like w = w := rfl

theorem IfW.clip_of_lt (w : IfW) (b : Bus) (ha : b.adr < 2 ^ w.aw) (hd : b.datW < 2 ^ w.dw) : w.clip b = b := by
  cases b
  simp only [IfW.clip, trunc] at *
  rw [Nat.mod_eq_of_lt ha, Nat.mod_eq_of_lt hd]

theorem orBus_lt (bs : List Bus) (a d : Nat) (h : ∀ b ∈ bs, b.adr < 2 ^ a ∧ b.datW < 2 ^ d) :
    (orBus bs).adr < 2 ^ a ∧ (orBus bs).datW < 2 ^ d := by
  induction bs with
  | nil => exact ⟨Nat.two_pow_pos a, Nat.two_pow_pos d⟩
  | cons b bs ih =>
    have hb := h b (List.mem_cons_self ..)
    have ht := ih (fun x hx => h x (List.mem_cons_of_mem _ hx))
    exact ⟨Nat.or_lt_two_pow hb.1 ht.1, Nat.or_lt_two_pow hb.2 ht.2⟩

theorem zipWith_clip_id (w : IfW) : ∀ (ws : List IfW) (ms : List Bus), (∀ m ∈ ws, m = w) → ms.length = ws.length →
    (∀ b ∈ ms, b.adr < 2 ^ w.aw ∧ b.datW < 2 ^ w.dw) → List.zipWith IfW.clip ws ms = ms
  | [], [], _, _, _ => rfl
  | [], _ :: _, _, h, _ => by simp at h
  | _ :: _, [], _, h, _ => by simp at h
  | x :: ws, b :: ms, hw, hl, hb => by
    have hx : x = w := hw x (List.mem_cons_self ..)
    have hb0 := hb b (List.mem_cons_self ..)
    simp only [List.zipWith_cons_cons]
    rw [hx, IfW.clip_of_lt w b hb0.1 hb0.2,
      zipWith_clip_id w ws ms (fun m hm => hw m (List.mem_cons_of_mem _ hm)) (by simpa using hl)
        (fun c hc => hb c (List.mem_cons_of_mem _ hc))]

/-- All interfaces of the glue have the widths `w`. -/
structure GlueCfg.Uniform (g : GlueCfg) (w : IfW) : Prop where
  masters_ne : g.masters ≠ []
  masters    : ∀ m ∈ g.masters, m = w
  slave      : g.slave = w

theorem GlueCfg.inter_of_uniform (g : GlueCfg) (w : IfW) (hu : g.Uniform w) : g.inter = w := by
  unfold GlueCfg.inter
  cases hm : g.masters with
  | nil => exact absurd hm hu.masters_ne
  | cons m ms =>
    simp only [List.headD_cons, IfW.like_eq]
    exact hu.masters m (by rw [hm]; exact List.mem_cons_self ..)

/-- **The glue is transparent**: when all interfaces have the same widths and the masters drive values that fit
    them, every slave sees the OR of the master signals (`InterconnectShared`), resp. the master's signals
    (`Interconnect`), unchanged. -/
theorem GlueCfg.slaveBus_shared (g : GlueCfg) (w : IfW) (hu : g.Uniform w) (hk : g.kind = .shared) (ms : List Bus)
    (hl : ms.length = g.masters.length) (hb : ∀ b ∈ ms, b.adr < 2 ^ w.aw ∧ b.datW < 2 ^ w.dw) :
    g.slaveBus ms = orBus ms := by
  unfold GlueCfg.slaveBus GlueCfg.clipMasters viaInter
  rw [hk, zipWith_clip_id w g.masters ms hu.masters hl hb, g.inter_of_uniform w hu, hu.slave]
  obtain ⟨h1, h2⟩ := orBus_lt ms w.aw w.dw hb
  simp only []
  rw [IfW.clip_of_lt w _ h1 h2, IfW.clip_of_lt w _ h1 h2]

theorem GlueCfg.slaveBus_direct (g : GlueCfg) (w : IfW) (hu : g.Uniform w) (hk : g.kind = .direct) (b : Bus)
    (ms : List Bus) (hl : (b :: ms).length = g.masters.length)
    (hb : ∀ x ∈ b :: ms, x.adr < 2 ^ w.aw ∧ x.datW < 2 ^ w.dw) :
    g.slaveBus (b :: ms) = b := by
  unfold GlueCfg.slaveBus GlueCfg.clipMasters
  rw [hk, zipWith_clip_id w g.masters (b :: ms) hu.masters hl hb, hu.slave]
  have hb0 := hb b (List.mem_cons_self ..)
  simp only [List.headD_cons]
  exact IfW.clip_of_lt w b hb0.1 hb0.2

theorem orBus_cons_zero (b : Bus) (n : Nat) : orBus (b :: List.replicate n zeroBus) = b :=
  orBus_cons_idle b n

/-! ### Locations and addresses -/

/-- A word of a bank whose location is below `2^(aw-p)` has an address that fits `aw` bits. -/
theorem loc_adr_lt (aw p loc word : Nat) (hp : p ≤ aw) (hl : loc < 2 ^ (aw - p)) (hw : word < 2 ^ p) :
    loc * 2 ^ p + word < 2 ^ aw := by
  have h1 : loc * 2 ^ p + word < (loc + 1) * 2 ^ p := by rw [Nat.add_mul, Nat.one_mul]; omega
  have h2 : (loc + 1) * 2 ^ p ≤ 2 ^ (aw - p) * 2 ^ p := Nat.mul_le_mul_right _ hl
  have h3 : 2 ^ (aw - p) * 2 ^ p = 2 ^ aw := by rw [← Nat.pow_add, Nat.sub_add_cancel hp]
  omega

theorem BankCfg.wordAdr_lt (c : BankCfg) (k j aw : Nat) (hfit : c.Fits) (hv : c.ValidWord k j)
    (hp : c.pbits ≤ aw) (hl : c.address < 2 ^ (aw - c.pbits)) : c.wordAdr k j < 2 ^ aw := by
  unfold BankCfg.wordAdr
  exact loc_adr_lt aw c.pbits c.address _ hp hl
    (Nat.lt_of_lt_of_le (addrOf_lt _ _ _ _ _ hv.1 hv.2) hfit)

/-- `SoCCSRHandler.n_locs` for 32-bit alignment and paging `4·2^p`: exactly the locations a bank select of
    `aw - p` bits can distinguish. -/
theorem csrNLocs_eq (aw p : Nat) (hp : p ≤ aw) : csrNLocs 32 aw (4 * 2 ^ p) = 2 ^ (aw - p) := by
  unfold csrNLocs
  have h4 : (32 : Nat) / 8 = 4 := rfl
  rw [h4, Nat.mul_div_mul_left _ _ (by decide : 0 < 4), Nat.pow_div hp (by decide)]

/-! ### The array behind the glue -/

theorem glue_next (g : GlueCfg) (s : ArrayState) (i : ArrayIn) :
    (glueArray g).next s i = (bankArray g.array).next s (g.inner i) := rfl

theorem glue_next_bank (g : GlueCfg) (s : ArrayState) (i : ArrayIn) (j : Nat) (hj : j < g.array.banks.length) :
    ((glueArray g).next s i).banks.getD j default =
      (bank (g.array.banks.getD j default)).next (s.banks.getD j default)
        { bus := g.slaveBus i.masters, dev := i.dev.getD j [] } := by
  rw [glue_next, array_next_bank g.array s (g.inner i) j hj]
  simp [ArrayCfg.bankIn, GlueCfg.inner, orBus]

end Litex.Csr
