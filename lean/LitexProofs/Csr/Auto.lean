import LitexModel.Csr.Auto
/-
  Gatherer order, field access resolution, field-name check.
-/
namespace Litex.Csr

theorem insertByDuid_perm (x : GItem) (l : List GItem) : (insertByDuid x l).Perm (x :: l) := by
  induction l with
  | nil => exact List.Perm.refl _
  | cons y ys ih =>
    unfold insertByDuid
    split
    · exact List.Perm.refl _
    · exact (List.Perm.cons y ih).trans (List.Perm.swap x y ys)

theorem gatherOrder_perm (items : List GItem) : (gatherOrder items).Perm items := by
  induction items with
  | nil => exact List.Perm.refl _
  | cons x xs ih => exact (insertByDuid_perm x _).trans (List.Perm.cons x ih)

theorem insertByDuid_sorted (x : GItem) (l : List GItem) (h : l.Pairwise (fun a b => a.duid ≤ b.duid)) :
    (insertByDuid x l).Pairwise (fun a b => a.duid ≤ b.duid) := by
  induction l with
  | nil => simp [insertByDuid]
  | cons y ys ih =>
    obtain ⟨hy, hys⟩ := List.pairwise_cons.mp h
    unfold insertByDuid
    split
    · rename_i hle
      refine List.pairwise_cons.mpr ⟨fun z hz => ?_, h⟩
      rcases List.mem_cons.mp hz with rfl | hz
      · exact hle
      · exact Nat.le_trans hle (hy z hz)
    · rename_i hlt
      refine List.pairwise_cons.mpr ⟨fun z hz => ?_, ih hys⟩
      have := (insertByDuid_perm x ys).mem_iff.mp hz
      rcases List.mem_cons.mp this with rfl | hz'
      · omega
      · exact hy z hz'

theorem gatherOrder_sorted (items : List GItem) :
    (gatherOrder items).Pairwise (fun a b => a.duid ≤ b.duid) := by
  induction items with
  | nil => exact List.Pairwise.nil
  | cons x xs ih => exact insertByDuid_sorted x _ ih

theorem resolveAccess_length (p : Access) : ∀ (fs : List FieldAcc) (as : List Access),
    resolveAccess p fs = some as → as.length = fs.length
  | [], as, h => by simp [resolveAccess] at h; simp [← h]
  | f :: fs, as, h => by
    unfold resolveAccess at h
    cases h1 : resolveAccess1 p f with
    | none => simp [h1] at h
    | some a =>
      cases h2 : resolveAccess p fs with
      | none => simp [h1, h2] at h
      | some as' =>
        simp [h1, h2] at h
        rw [← h]
        simp [resolveAccess_length p fs as' h2]

theorem resolveAccess_getElem (p : Access) : ∀ (fs : List FieldAcc) (as : List Access) (k : Nat) (f : FieldAcc),
    resolveAccess p fs = some as → fs[k]? = some f → (as[k]?).bind some = resolveAccess1 p f
  | [], _, k, f, _, hk => by simp at hk
  | g :: fs, as, k, f, h, hk => by
    unfold resolveAccess at h
    cases h1 : resolveAccess1 p g with
    | none => simp [h1] at h
    | some a =>
      cases h2 : resolveAccess p fs with
      | none => simp [h1, h2] at h
      | some as' =>
        simp [h1, h2] at h
        rw [← h]
        cases k with
        | zero => simp at hk; simp [← hk, h1]
        | succ k =>
          simp at hk
          simpa using resolveAccess_getElem p fs as' k f h2 hk

theorem checkNames_iff : ∀ (ns seen : List Nat),
    checkNames seen ns = true ↔ ns.Nodup ∧ ∀ n ∈ ns, n ∉ seen
  | [], seen => by simp [checkNames]
  | n :: ns, seen => by
    unfold checkNames
    by_cases h : seen.contains n = true
    · simp only [h, if_true]
      constructor
      · intro hf; cases hf
      · intro ⟨_, hall⟩
        exact absurd (List.contains_iff_mem.mp h) (hall n (List.mem_cons_self ..))
    · simp only [h, Bool.false_eq_true, if_false]
      rw [checkNames_iff ns (n :: seen)]
      have hn : n ∉ seen := fun hm => h (List.contains_iff_mem.mpr hm)
      constructor
      · intro ⟨hnd, hall⟩
        refine ⟨List.nodup_cons.mpr ⟨fun hm => (hall n hm) (List.mem_cons_self ..), hnd⟩, ?_⟩
        intro m hm
        rcases List.mem_cons.mp hm with rfl | hm
        · exact hn
        · exact fun hs => hall m hm (List.mem_cons_of_mem _ hs)
      · intro ⟨hnd, hall⟩
        obtain ⟨hnn, hnd'⟩ := List.nodup_cons.mp hnd
        refine ⟨hnd', fun m hm hs => ?_⟩
        rcases List.mem_cons.mp hs with rfl | hs
        · exact hnn hm
        · exact hall m (List.mem_cons_of_mem _ hm) hs

end Litex.Csr
