import LitexModel.Csr.Array
import LitexProofs.Csr.Bank
/-
  OR-combined CSR bus: slaves that were not addressed drive 0, so the OR of all read data is the read data of the
  addressed slave.
-/
namespace Litex.Csr
open Litex

theorem orList_zero (l : List Nat) (h : ∀ i, l.getD i 0 = 0) : orList l = 0 := by
  induction l with
  | nil => rfl
  | cons x xs ih =>
    have hx : x = 0 := by simpa using h 0
    have := ih (fun i => by simpa using h (i + 1))
    simp [orList, hx, this]

/-- If every entry except (possibly) entry `j` is zero, the OR is entry `j`. -/
theorem orList_single (l : List Nat) (j : Nat) (h : ∀ i, i ≠ j → l.getD i 0 = 0) : orList l = l.getD j 0 := by
  induction l generalizing j with
  | nil => simp [orList]
  | cons x xs ih =>
    cases j with
    | zero =>
      have := orList_zero xs (fun i => by simpa using h (i + 1) (by omega))
      simp [orList, this]
    | succ j =>
      have hx : x = 0 := by simpa using h 0 (by omega)
      have := ih j (fun i hi => by simpa using h (i + 1) (by omega))
      simp [orList, hx, this]

theorem orList_append (a b : List Nat) : orList (a ++ b) = orList a ||| orList b := by
  induction a with
  | nil => simp [orList]
  | cons x xs ih => simp [orList, ih, Nat.or_assoc]

theorem next_datR_unselected (c : BankCfg) (s : BankState) (i : BankIn) (h : c.sel i.bus.adr = false) :
    ((bank c).next s i).datR = 0 := by
  rw [next_datR]
  have : c.hit i.bus.adr = none := by simp [BankCfg.hit, h]
  rw [this]

theorem array_next_bank (c : ArrayCfg) (s : ArrayState) (i : ArrayIn) (j : Nat) (hj : j < c.banks.length) :
    ((bankArray c).next s i).banks.getD j default =
      (bank (c.banks.getD j default)).next (s.banks.getD j default) (ArrayCfg.bankIn i j) := by
  simp [bankArray, List.getD_eq_getElem?_getD, hj]

theorem array_next_bank_oob (c : ArrayCfg) (s : ArrayState) (i : ArrayIn) (j : Nat) (hj : c.banks.length ≤ j) :
    ((bankArray c).next s i).banks.getD j default = default := by
  simp [bankArray, List.getD_eq_getElem?_getD, List.getElem?_mapIdx, List.getElem?_eq_none hj]

theorem array_next_sram (c : ArrayCfg) (s : ArrayState) (i : ArrayIn) (j : Nat) (hj : j < c.srams.length) :
    ((bankArray c).next s i).srams.getD j default =
      (sram (c.srams.getD j default).cfg).next (s.srams.getD j default)
        { bus := orBus i.masters, page := ArrayCfg.pageVal s (c.srams.getD j default) } := by
  simp [bankArray, List.getD_eq_getElem?_getD, hj]

theorem sram_next_datR_unselected (c : SramCfg) (s : SramState) (i : SramIn) (h : c.sel i.bus.adr = false) :
    sramDatR c ((sram c).next s i) = 0 := by
  simp [sramDatR, sram, h]

/-- Read data the masters see. -/
def ArrayCfg.datR (c : ArrayCfg) (s : ArrayState) : Nat :=
  orList (s.banks.map (·.datR)) ||| orList (c.srams.mapIdx fun k m => sramDatR m.cfg (s.srams.getD k default))

theorem array_out_datR (c : ArrayCfg) (s : ArrayState) (i : ArrayIn) :
    ((bankArray c).out s i).datR = c.datR s := rfl

/-- With one master driving, `InterconnectShared`'s OR-reduction passes its signals unchanged when all other
    masters are idle (all-zero). -/
theorem orBus_single (b : Bus) : orBus [b] = b := by
  simp [orBus]

def idleBus : Bus := { adr := 0, re := false, we := false, datW := 0 }

theorem orBus_idle_cons (bs : List Bus) : orBus (idleBus :: bs) = orBus bs := by
  simp [orBus, idleBus]

theorem orBus_all_idle (n : Nat) : orBus (List.replicate n idleBus) = idleBus := by
  induction n with
  | zero => rfl
  | succ n ih => rw [List.replicate_succ, orBus_idle_cons, ih]

theorem orBus_cons_idle (b : Bus) (n : Nat) : orBus (b :: List.replicate n idleBus) = b := by
  show ({ adr := b.adr ||| (orBus (List.replicate n idleBus)).adr, re := b.re || (orBus (List.replicate n idleBus)).re,
          we := b.we || (orBus (List.replicate n idleBus)).we,
          datW := b.datW ||| (orBus (List.replicate n idleBus)).datW } : Bus) = b
  rw [orBus_all_idle]
  simp [idleBus]

end Litex.Csr
