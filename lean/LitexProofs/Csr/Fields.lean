import LitexModel.Csr.Layout
import Mathlib.Data.List.Forall2
/-
  `CSRFieldAggregate.check_ordering_overlap`: resolved fields keep their declared offsets, are sorted and do not
  overlap; a declared offset below the end of the preceding field is rejected.
-/
namespace Litex.Csr
open Litex

/-- First free bit after the resolved fields `fs` (which started at `off`). -/
def fieldsEnd : Nat → List FieldSpec → Nat
  | off, [] => off
  | _, f :: fs => fieldsEnd (f.offset + f.size) fs

/-- For a whole register (`off = 0`) this is `CSRFieldAggregate.get_size`. -/
theorem fieldsEnd_eq_size (fs : List FieldSpec) : fieldsEnd 0 fs = fieldsSize fs := by
  have key : ∀ (fs : List FieldSpec) (off : Nat),
      fieldsEnd off fs = match fs.getLast? with
        | some f => f.offset + f.size
        | none => off := by
    intro fs
    induction fs with
    | nil => intro off; rfl
    | cons f fs ih =>
      intro off
      simp only [fieldsEnd, ih, List.getLast?_cons]
      cases fs.getLast? <;> rfl
  exact key fs 0

/-- A resolved field agrees with its declaration. -/
def FieldMatches (d : FieldDecl) (f : FieldSpec) : Prop :=
  f.size = d.size ∧ f.reset = d.reset ∧ f.pulse = d.pulse ∧ ∀ o, d.offset = some o → f.offset = o

theorem resolve_cons (off : Nat) (d : FieldDecl) (ds : List FieldDecl) (fs : List FieldSpec)
    (h : resolveFieldsFrom off (d :: ds) = some fs) :
    ∃ f rest, fs = f :: rest ∧ FieldMatches d f ∧ off ≤ f.offset ∧ (d.offset = none → f.offset = off) ∧
      resolveFieldsFrom (f.offset + f.size) ds = some rest := by
  unfold resolveFieldsFrom at h
  cases ho : d.offset with
  | none =>
    simp only [ho] at h
    cases hr : resolveFieldsFrom (off + d.size) ds with
    | none => simp [hr] at h
    | some rest =>
      simp only [hr, Option.map_some, Option.some.injEq] at h
      exact ⟨_, rest, h.symm, ⟨rfl, rfl, rfl, fun o h => by rw [ho] at h; cases h⟩, Nat.le_refl _, fun _ => rfl, hr⟩
  | some o =>
    simp only [ho] at h
    by_cases hlt : o < off
    · simp [hlt] at h
    · simp only [hlt, if_false] at h
      cases hr : resolveFieldsFrom (o + d.size) ds with
      | none => simp [hr] at h
      | some rest =>
        simp only [hr, Option.map_some, Option.some.injEq] at h
        exact ⟨_, rest, h.symm, ⟨rfl, rfl, rfl, fun o' h' => by rw [ho] at h'; cases h'; rfl⟩, (by simp; omega),
          (fun h' => by cases h'), hr⟩

/-- All resolved fields start at or after the running offset. -/
theorem resolve_lower_bound (ds : List FieldDecl) :
    ∀ off fs, resolveFieldsFrom off ds = some fs → ∀ f ∈ fs, off ≤ f.offset := by
  induction ds with
  | nil => intro off fs h; simp [resolveFieldsFrom] at h; subst h; simp
  | cons d ds ih =>
    intro off fs h f hf
    obtain ⟨f0, rest, rfl, _, hle, _, hr⟩ := resolve_cons off d ds fs h
    cases hf with
    | head => exact hle
    | tail _ hm => exact Nat.le_trans (by omega) (ih _ _ hr f hm)

/-- **Fields sit at their declared offsets, in order, without overlap.** -/
theorem resolve_spec (ds : List FieldDecl) :
    ∀ off fs, resolveFieldsFrom off ds = some fs →
      List.Forall₂ FieldMatches ds fs ∧ List.Pairwise (fun f g => f.offset + f.size ≤ g.offset) fs := by
  induction ds with
  | nil => intro off fs h; simp [resolveFieldsFrom] at h; subst h; simp
  | cons d ds ih =>
    intro off fs h
    obtain ⟨f0, rest, rfl, hm, _, _, hr⟩ := resolve_cons off d ds fs h
    obtain ⟨h1, h2⟩ := ih _ _ hr
    exact ⟨List.Forall₂.cons hm h1, List.pairwise_cons.mpr ⟨fun g hg => resolve_lower_bound ds _ _ hr g hg, h2⟩⟩

theorem resolve_none_mono (ds : List FieldDecl) :
    ∀ off off', off ≤ off' → resolveFieldsFrom off ds = none → resolveFieldsFrom off' ds = none := by
  cases ds with
  | nil => intro off off' _ h; simp [resolveFieldsFrom] at h
  | cons d ds =>
    intro off off' hle h
    unfold resolveFieldsFrom at h ⊢
    cases ho : d.offset with
    | none =>
      simp only [ho] at h ⊢
      have : resolveFieldsFrom (off + d.size) ds = none := by
        cases hr : resolveFieldsFrom (off + d.size) ds <;> simp [hr] at h ⊢
      -- automatic offsets only move right; handled by recursion on the tail
      have := resolve_none_mono ds (off + d.size) (off' + d.size) (by omega) this
      simp [this]
    | some o =>
      simp only [ho] at h ⊢
      by_cases hlt : o < off
      · have : o < off' := by omega
        simp [this]
      · simp only [hlt, if_false] at h
        by_cases hlt' : o < off'
        · simp [hlt']
        · simp only [hlt', if_false]
          exact h

/-- **Overlap / ordering violations are rejected**: if the fields before `d` resolve and `d` declares an offset
    below the first free bit after them, the whole field list is rejected (`ValueError`). -/
theorem resolve_overlap_rejected (pre : List FieldDecl) :
    ∀ (off : Nat) (fs : List FieldSpec) (d : FieldDecl) (post : List FieldDecl) (o : Nat),
      resolveFieldsFrom off pre = some fs → d.offset = some o → o < fieldsEnd off fs →
      resolveFieldsFrom off (pre ++ d :: post) = none := by
  induction pre with
  | nil =>
    intro off fs d post o h ho hlt
    simp [resolveFieldsFrom] at h
    subst h
    simp only [fieldsEnd] at hlt
    simp [resolveFieldsFrom, ho, hlt]
  | cons p pre ih =>
    intro off fs d post o h ho hlt
    obtain ⟨f0, rest, rfl, hm, hle, hauto, hr⟩ := resolve_cons off p pre fs h
    simp only [fieldsEnd] at hlt
    have hnone := ih _ rest d post o hr ho hlt
    show resolveFieldsFrom off (p :: (pre ++ d :: post)) = none
    unfold resolveFieldsFrom
    cases hpo : p.offset with
    | none =>
      have h1 := hauto hpo
      have h2 := hm.1
      simp only []
      rw [h1, h2] at hnone
      simp [hnone]
    | some po =>
      have h1 := hm.2.2.2 po hpo
      have h2 := hm.1
      simp only []
      rw [h1, h2] at hnone
      by_cases hlt' : po < off
      · simp [hlt']
      · simp [hlt', hnone]

/-- Non-pulse storage fields show exactly their slice of the storage. -/
theorem fieldOut_plain (f : FieldSpec) (storage : Nat) (re : Bool) (h : f.pulse = false) :
    fieldOut f storage re = slice f.offset f.size storage := by
  simp [fieldOut, h]

/-- A pulse field (reset 0) is non-zero only while the write strobe is high. -/
theorem fieldOut_pulse (f : FieldSpec) (storage : Nat) (re : Bool) (hp : f.pulse = true) (hr : f.reset = 0)
    (h : fieldOut f storage re ≠ 0) : re = true ∧ fieldOut f storage re = slice f.offset f.size storage := by
  cases re
  · simp [fieldOut, hp, hr, trunc] at h
  · simp [fieldOut, hp]

end Litex.Csr
