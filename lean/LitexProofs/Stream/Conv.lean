import LitexModel.Stream.Conv
import LitexProofs.Stream.Hold
import LitexProofs.Stream.Sim
/-
  Step lemmas for the width converters.
-/
namespace Litex.Stream
open Elem
variable {α π : Type}

/-! ### Chunking -/

theorem chunkRun_snoc (r : Nat) (ts : List (Tok α)) (t : Tok α) :
    chunkRun r (ts ++ [t]) = chunkStep r (chunkRun r ts) t := by
  simp [chunkRun, List.foldl_append]

theorem chunks_snoc (r : Nat) (ts : List (Tok α)) (t : Tok α) :
    chunks r (ts ++ [t]) =
      if (chunkRest r ts).length + 1 == r || t.last then chunks r ts ++ [chunkRest r ts ++ [t]] else chunks r ts := by
  unfold chunks chunkRest
  rw [chunkRun_snoc]
  unfold chunkStep
  split <;> rfl

theorem chunkRest_snoc (r : Nat) (ts : List (Tok α)) (t : Tok α) :
    chunkRest r (ts ++ [t]) =
      if (chunkRest r ts).length + 1 == r || t.last then [] else chunkRest r ts ++ [t] := by
  unfold chunkRest
  rw [chunkRun_snoc]
  unfold chunkStep
  split <;> rfl

@[simp] theorem chunks_nil (r : Nat) : chunks r ([] : List (Tok α)) = [] := rfl
@[simp] theorem chunkRest_nil (r : Nat) : chunkRest r ([] : List (Tok α)) = [] := rfl

/-- Chunking neither loses nor reorders anything: the chunks followed by the trailing partial chunk are the
    input sequence. -/
theorem chunks_flatten (r : Nat) (ts : List (Tok α)) : (chunks r ts).flatten ++ chunkRest r ts = ts := by
  have gen : ∀ (ts : List (Tok α)) (st : List (List (Tok α)) × List (Tok α)),
      (ts.foldl (chunkStep r) st).1.flatten ++ (ts.foldl (chunkStep r) st).2 = st.1.flatten ++ st.2 ++ ts := by
    intro ts
    induction ts with
    | nil => intro st; simp
    | cons t ts ih =>
      intro st
      rw [List.foldl_cons, ih]
      unfold chunkStep
      split <;> simp
  simpa [chunks, chunkRest, chunkRun] using gen ts ([], [])

/-- What a well-formed chunk looks like. -/
def ChunkOk (r : Nat) (c : List (Tok α)) : Prop :=
  c ≠ [] ∧ c.length ≤ r ∧ (∀ t ∈ c.dropLast, t.last = false) ∧
  (c.length = r ∨ ∃ t, c.getLast? = some t ∧ t.last = true)

/-- Every chunk is non-empty, at most `r` long, carries `last` at most on its final token, and is cut short
    only by `last`; the trailing partial chunk is shorter than `r` and free of `last`. -/
theorem chunks_shape (r : Nat) (hr : 0 < r) (ts : List (Tok α)) :
    (∀ c ∈ chunks r ts, ChunkOk r c) ∧ (chunkRest r ts).length < r ∧ ∀ t ∈ chunkRest r ts, t.last = false := by
  have gen : ∀ (ts : List (Tok α)) (st : List (List (Tok α)) × List (Tok α)),
      ((∀ c ∈ st.1, ChunkOk r c) ∧ st.2.length < r ∧ ∀ t ∈ st.2, t.last = false) →
      ((∀ c ∈ (ts.foldl (chunkStep r) st).1, ChunkOk r c) ∧ (ts.foldl (chunkStep r) st).2.length < r ∧
        ∀ t ∈ (ts.foldl (chunkStep r) st).2, t.last = false) := by
    intro ts
    induction ts with
    | nil => intro st h; simpa using h
    | cons t ts ih =>
      intro st ⟨h1, h2, h3⟩
      rw [List.foldl_cons]
      apply ih
      unfold chunkStep
      split
      next hc =>
        refine ⟨?_, by simpa using hr, by simp⟩
        intro c hc'
        rcases List.mem_append.mp hc' with hc' | hc'
        · exact h1 c hc'
        · have : c = st.2 ++ [t] := by simpa using hc'
          subst this
          refine ⟨by simp, by simp; omega, by simpa using h3, ?_⟩
          simp only [Bool.or_eq_true, beq_iff_eq] at hc
          rcases hc with hc | hc
          · left; simp [hc]
          · right; exact ⟨t, by simp, hc⟩
      next hc =>
        simp only [Bool.or_eq_true, beq_iff_eq, not_or, Bool.not_eq_true] at hc
        refine ⟨h1, by simp; omega, ?_⟩
        intro x hx
        rcases List.mem_append.mp hx with hx | hx
        · exact h3 x hx
        · have : x = t := by simpa using hx
          subst this; exact hc.2
  simpa [chunks, chunkRest, chunkRun] using gen ts ([], []) ⟨by simp, by simpa using hr, by simp⟩

/-! ### _UpConverter / Pack -/

/-- The complete word waiting in the output register. -/
def UpState.inflight (s : UpState α π) : List (Tok (List α × π)) :=
  if s.strobe then [upView s.outTok] else []

/-- History relation of `upConv`. -/
def upRel (r : Nat) (p0 : π) (s : UpState α π) (a : List (Tok (α × π))) (d : List (Tok (UpWord α π))) : Prop :=
  (chunks r a).map (wordOf p0) = d.map upView ++ s.inflight ∧
  s.demux = (chunkRest r a).length ∧
  s.demux < r ∧
  s.lanes.length = r ∧
  (s.strobe = true → s.demux = 0) ∧
  (s.strobe = false →
    s.lanes.take s.demux = (chunkRest r a).map (·.data.1) ∧
    s.first = (chunkRest r a).any (·.first) ∧ s.last = (chunkRest r a).any (·.last))

theorem upConv_accNow (r : Nat) (z : α) (p0 : π) (s : UpState α π) (i : In (α × π)) :
    (upConv r z p0).accNow s i = if i.valid && (!s.strobe || i.ready) then [i.tok] else [] := rfl

theorem upConv_delNow (r : Nat) (z : α) (p0 : π) (s : UpState α π) (i : In (α × π)) :
    (upConv r z p0).delNow s i = if s.strobe && i.ready then [s.outTok] else [] := rfl

theorem take_set_succ (l : List α) (n : Nat) (x : α) (h : n < l.length) :
    (l.set n x).take (n + 1) = l.take n ++ [x] := by
  induction l generalizing n with
  | nil => simp at h
  | cons y ys ih =>
    cases n with
    | zero => simp
    | succ m =>
      have : m < ys.length := by simpa using h
      simp [ih m this]

theorem upConv_step (r : Nat) (hr : 0 < r) (z : α) (p0 : π) (s : UpState α π)
    (a : List (Tok (α × π))) (d : List (Tok (UpWord α π))) (i : In (α × π))
    (h : upRel r p0 s a d) :
    upRel r p0 ((upConv r z p0).step s i) (a ++ (upConv r z p0).accNow s i) (d ++ (upConv r z p0).delNow s i) := by
  obtain ⟨demux, strobe, lanes, param, first, last, vtc⟩ := s
  obtain ⟨iv, ⟨⟨td, tp⟩, tf, tl⟩, ir⟩ := i
  obtain ⟨h1, h2, h3, h4, h5, h6⟩ := h
  simp only at h1 h2 h3 h4 h5 h6
  rw [upConv_accNow, upConv_delNow]
  subst h2
  generalize hrest : chunkRest r a = rest at *
  have hlen : rest.length < lanes.length := by omega
  have wordOf_snoc : List.take rest.length lanes = rest.map (·.data.1) → ∀ tl,
      wordOf p0 (rest ++ [{ data := (td, tp), first := tf, last := tl }]) =
        { data := (List.take (rest.length + 1) (lanes.set rest.length td), tp),
          first := tf || rest.any (·.first), last := tl || rest.any (·.last) } := by
    intro hl tl
    simp [wordOf, take_set_succ _ _ _ hlen, hl, Bool.or_comm]
  by_cases hdm : rest.length + 1 = r <;> cases tl <;> cases strobe <;> cases iv <;> cases ir <;>
    simp [upRel, upConv, Elem.step, UpState.inflight, UpState.outTok, chunks_snoc, chunkRest_snoc, upView,
      hdm, hrest] at h1 h3 h5 h6 ⊢ <;>
    generalize chunks r a = cs at *
  all_goals
    first
    | (obtain ⟨h6a, h6b, h6c⟩ := h6
       have w := wordOf_snoc h6a
       simp_all
       done)
    | (obtain ⟨h6a, h6b, h6c⟩ := h6
       have w := wordOf_snoc h6a
       simp_all
       omega)
    | (subst h5
       have w := wordOf_snoc (by simp)
       simp_all
       done)
    | (subst h5
       have w := wordOf_snoc (by simp)
       simp_all
       omega)
    | (obtain ⟨h6a, h6b, h6c⟩ := h6
       refine ⟨h1, by omega, h4, ?_, ?_, h6c⟩
       · rw [take_set_succ _ _ _ hlen, h6a]
       · rw [h6b, Bool.or_comm])
    | (subst h5
       have hl : 0 < lanes.length := by omega
       simp_all [take_set_succ _ _ _ hl]
       omega)

/-- Every word an up-converter hands over has exactly `r` lanes (needed by the layout layer). -/
def upLenRel (r : Nat) (s : UpState α π) (_ : List (Tok (α × π))) (d : List (Tok (UpWord α π))) : Prop :=
  s.lanes.length = r ∧ ∀ t ∈ d, t.data.lanes.length = r

theorem upConv_len_step (r : Nat) (z : α) (p0 : π) (s : UpState α π)
    (a : List (Tok (α × π))) (d : List (Tok (UpWord α π))) (i : In (α × π)) (h : upLenRel r s a d) :
    upLenRel r ((upConv r z p0).step s i) (a ++ (upConv r z p0).accNow s i) (d ++ (upConv r z p0).delNow s i) := by
  obtain ⟨h1, h2⟩ := h
  rw [upConv_delNow]
  refine ⟨?_, ?_⟩
  · simp only [upConv, Elem.step]
    split <;> simp [h1]
  · intro t ht
    rcases List.mem_append.mp ht with ht | ht
    · exact h2 t ht
    · split at ht
      · have : t = s.outTok := by simpa using ht
        subst this; simpa [UpState.outTok] using h1
      · simp at ht

/-! ### _DownConverter / Unpack -/

/-- Lane `m` of a wide token, as `downConv` presents it. -/
def laneTok (r : Nat) (z : α) (t : Tok (List α × π)) (m : Nat) : Tok (α × π) :=
  { data := (t.data.1.getD m z, t.data.2), first := t.first && m == 0, last := t.last && m + 1 == r }

theorem splitTok_eq (r : Nat) (z : α) (t : Tok (List α × π)) :
    splitTok r z t = (List.range r).map (laneTok r z t) := rfl

theorem splitTok_take_succ (r : Nat) (z : α) (t : Tok (List α × π)) (m : Nat) (h : m < r) :
    (splitTok r z t).take (m + 1) = (splitTok r z t).take m ++ [laneTok r z t m] := by
  rw [splitTok_eq, ← List.map_take, ← List.map_take, List.take_range, List.take_range,
    Nat.min_eq_left (by omega), Nat.min_eq_left (by omega), List.range_succ, List.map_append]
  rfl

theorem splitTok_take_all (r : Nat) (z : α) (t : Tok (List α × π)) :
    (splitTok r z t).take r = splitTok r z t := by
  apply List.take_of_length_le
  simp [splitTok_eq]

/-- History relation of `downConv` under the producer contract: everything accepted has been delivered
    completely, plus the first `mux` lanes of the token the producer is currently holding. -/
def downPart (r : Nat) (z : α) (mux : Nat) : Option (Tok (List α × π)) → List (Tok (α × π))
  | some t => (splitTok r z t).take mux
  | none => []

def downRel (r : Nat) (z : α) (mux : Nat) (p : Option (Tok (List α × π)))
    (a : List (Tok (List α × π))) (d : List (Tok (α × π))) : Prop :=
  mux < r ∧ (p = none → mux = 0) ∧ d = a.flatMap (splitTok r z) ++ downPart r z mux p

theorem downConv_delNow (r : Nat) (z : α) (mux : Nat) (i : In (List α × π)) :
    (downConv r z).delNow mux i = if i.valid && i.ready then [laneTok r z i.tok mux] else [] := rfl
theorem downConv_accNow (r : Nat) (z : α) (mux : Nat) (i : In (List α × π)) :
    (downConv r z).accNow mux i = if i.valid && ((mux + 1 == r) && i.ready) then [i.tok] else [] := rfl
theorem downConv_stepEq (r : Nat) (z : α) (mux : Nat) (i : In (List α × π)) :
    (downConv r z).step mux i = if i.valid && i.ready then (if mux + 1 == r then 0 else mux + 1) else mux := rfl
theorem downConv_obl (r : Nat) (z : α) (mux : Nat) (i : In (List α × π)) :
    (downConv r z).obl mux i = if i.valid && !((mux + 1 == r) && i.ready) then some i.tok else none := rfl

theorem downConv_step (r : Nat) (z : α) (mux : Nat) (p : Option (Tok (List α × π)))
    (a : List (Tok (List α × π))) (d : List (Tok (α × π))) (i : In (List α × π))
    (h : downRel r z mux p a d) (hm : Elem.Meets p i) :
    downRel r z ((downConv r z).step mux i) ((downConv r z).obl mux i)
      (a ++ (downConv r z).accNow mux i) (d ++ (downConv r z).delNow mux i) := by
  obtain ⟨iv, t, ir⟩ := i
  obtain ⟨h1, h2, h3⟩ := h
  rw [downConv_delNow, downConv_accNow, downConv_stepEq, downConv_obl]
  -- the token the element looks at in this cycle, and the lanes of it already delivered
  have key : iv = true → downPart r z mux p = (splitTok r z t).take mux := by
    intro _
    cases p with
    | none => simp [h2 rfl, downPart]
    | some t' => obtain ⟨_, ht⟩ := hm t' rfl; simp only at ht; subst ht; rfl
  have hv : iv = false → p = none := by
    intro hv
    cases p with
    | none => rfl
    | some t' => obtain ⟨hv', _⟩ := hm t' rfl; simp only at hv'; simp [hv] at hv'
  cases iv with
  | false =>
    have hp := hv rfl
    subst hp
    have h3' : d = List.flatMap (splitTok r z) a := by simpa [downPart] using h3
    simpa [downRel, downPart] using ⟨h1, h2 rfl, h3'⟩
  | true =>
    have hk := key rfl
    rw [hk] at h3
    by_cases hl : mux + 1 = r
    · cases ir with
      | false => simpa [downRel, downPart, hl] using ⟨h1, h3⟩
      | true =>
        have : (splitTok r z t).take mux ++ [laneTok r z t mux] = splitTok r z t := by
          rw [← splitTok_take_succ r z t mux h1, hl, splitTok_take_all]
        simp [downRel, downPart, hl, h3, List.append_assoc, this]
        omega
    · cases ir with
      | false => simpa [downRel, downPart, hl] using ⟨h1, h3⟩
      | true =>
        simp [downRel, downPart, hl, h3, List.append_assoc, splitTok_take_succ r z t mux h1]
        omega

/-! ### valid_token_count of the down-converting elements -/

/-- History relation for the count flag (no producer contract needed): `mux` counts the source handshakes modulo
    `r`, and the flag of the `p`-th delivered token is set iff `p` is the last lane of its group of `r`. -/
def downVtcRel (r : Nat) (mux : Nat) (_ : List (Tok (List α × π))) (d : List (Tok ((α × π) × Bool))) : Prop :=
  mux < r ∧ d.length % r = mux ∧
  d.map (·.data.2) = (List.range d.length).map fun p => decide (p % r + 1 = r)

theorem succ_mod_of (L r m : Nat) (hm : L % r = m) (hr : m < r) :
    (L + 1) % r = if m + 1 = r then 0 else m + 1 := by
  have hq := Nat.div_add_mod L r
  split
  · next h =>
    have : L + 1 = r * (L / r + 1) := by rw [Nat.mul_add]; omega
    rw [this, Nat.mul_mod_right]
  · next h =>
    have : L + 1 = r * (L / r) + (m + 1) := by omega
    rw [this, Nat.mul_add_mod, Nat.mod_eq_of_lt (by omega)]

theorem downConvV_step (r : Nat) (z : α) (mux : Nat) (a : List (Tok (List α × π)))
    (d : List (Tok ((α × π) × Bool))) (i : In (List α × π)) (h : downVtcRel r mux a d) :
    downVtcRel r ((downConvV r z).step mux i) (a ++ (downConvV r z).accNow mux i)
      (d ++ (downConvV r z).delNow mux i) := by
  obtain ⟨iv, t, ir⟩ := i
  obtain ⟨h1, h2, h3⟩ := h
  have hstep : (downConvV r z).step mux ⟨iv, t, ir⟩ =
      if iv && ir then (if mux + 1 == r then 0 else mux + 1) else mux := rfl
  have hdel : ∃ tok : Tok ((α × π) × Bool), tok.data.2 = (mux + 1 == r) ∧
      (downConvV r z).delNow mux ⟨iv, t, ir⟩ = if iv && ir then [tok] else [] :=
    ⟨((downConvV r z).out mux ⟨iv, t, ir⟩).tok, rfl, by
      cases iv <;> cases ir <;> simp [Elem.delNow, Elem.out, downConvV, downConv]⟩
  obtain ⟨tok, htok, hdel⟩ := hdel
  rw [hstep, hdel]
  by_cases hh : (iv && ir) = true
  · simp only [hh, if_true]
    have hsm := succ_mod_of d.length r mux h2 h1
    refine ⟨?_, ?_, ?_⟩
    · by_cases hl : mux + 1 = r <;> simp [hl] <;> omega
    · rw [List.length_append, List.length_singleton, hsm]
      by_cases hl : mux + 1 = r <;> simp [hl]
    · rw [List.map_append, h3, List.length_append, List.length_singleton, List.range_succ, List.map_append]
      simp [htok, h2]
      by_cases hl : mux + 1 = r <;> simp [hl]
  · have : (iv && ir) = false := by simpa using hh
    simp only [this, Bool.false_eq_true, if_false, List.append_nil]
    exact ⟨h1, h2, h3⟩

end Litex.Stream
