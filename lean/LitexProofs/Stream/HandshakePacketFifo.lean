import LitexProofs.Stream.HandshakeRunC
import LitexProofs.Packet.Fifo
/-
  C04 progress for `packet.PacketFIFO` (model of b-c16: `LitexModel/Packet/Fifo.lean`, plain FIFOs).

  Documented limit of the store-and-forward FIFO: a packet longer than `payload_depth` never completes.  It is the
  explicit hypothesis `PfLegal`: the producer does not offer a non-last beat that would leave no room for the
  packet's last beat (`tailLen` = beats of the still open packet; they are all in the payload FIFO).
-/
namespace Litex.Packet
open Litex.Stream Litex.Stream.Elem

/-- Beats of the open (not yet terminated) packet at the back of the payload FIFO. -/
def tailLen (l : List (Nat × Bool)) : Nat := l.foldl (fun acc x => if x.2 then 0 else acc + 1) 0

/-- Complete packets (beats carrying `last`) in the payload FIFO. -/
def nLast (l : List (Nat × Bool)) : Nat := (l.filter (·.2)).length

theorem tailLen_append (l : List (Nat × Bool)) (x : Nat × Bool) :
    tailLen (l ++ [x]) = if x.2 then 0 else tailLen l + 1 := by
  simp [tailLen, List.foldl_append]

theorem nLast_append (l : List (Nat × Bool)) (x : Nat × Bool) :
    nLast (l ++ [x]) = nLast l + (if x.2 then 1 else 0) := by
  unfold nLast
  cases h : x.2 <;> simp [List.filter_append, h]

theorem nLast_cons (x : Nat × Bool) (xs : List (Nat × Bool)) :
    nLast (x :: xs) = (if x.2 then 1 else 0) + nLast xs := by
  unfold nLast
  cases h : x.2 <;> simp [List.filter_cons, h]; omega

theorem foldl_indep (xs : List (Nat × Bool)) : ∀ acc, 0 < nLast xs →
    xs.foldl (fun acc x => if x.2 then 0 else acc + 1) acc = xs.foldl (fun acc x => if x.2 then 0 else acc + 1) 0 := by
  induction xs with
  | nil => intro acc h; simp [nLast] at h
  | cons x xs ih =>
    intro acc h
    rw [nLast_cons] at h
    cases hx : x.2 with
    | true => simp [hx]
    | false =>
      simp only [hx, Bool.false_eq_true, if_false, Nat.zero_add] at h
      simp only [List.foldl_cons, hx, Bool.false_eq_true, if_false]
      rw [ih (acc + 1) h, ih (0 + 1) h]

theorem tailLen_tail (x : Nat × Bool) (xs : List (Nat × Bool)) (h : 0 < nLast (x :: xs)) :
    tailLen xs = tailLen (x :: xs) := by
  unfold tailLen
  rw [nLast_cons] at h
  cases hx : x.2 with
  | true => simp [hx]
  | false =>
    simp only [hx, Bool.false_eq_true, if_false, Nat.zero_add] at h
    simp only [List.foldl_cons, hx, Bool.false_eq_true, if_false]
    exact (foldl_indep xs (0 + 1) h).symm

theorem foldl_noLast (xs : List (Nat × Bool)) : ∀ acc, nLast xs = 0 →
    xs.foldl (fun acc x => if x.2 then 0 else acc + 1) acc = acc + xs.length := by
  induction xs with
  | nil => intro acc _; simp
  | cons x xs ih =>
    intro acc h
    rw [nLast_cons] at h
    cases hx : x.2 with
    | true => simp [hx] at h
    | false =>
      simp only [hx, Bool.false_eq_true, if_false, Nat.zero_add] at h
      simp only [List.foldl_cons, hx, Bool.false_eq_true, if_false, List.length_cons]
      rw [ih (acc + 1) h]; omega

/-- A payload FIFO whose open packet is shorter than its content holds a complete packet. -/
theorem nLast_pos_of_tail_lt (l : List (Nat × Bool)) (h : tailLen l < l.length) : 0 < nLast l := by
  by_cases h0 : nLast l = 0
  · have := foldl_noLast l 0 h0
    unfold tailLen at h
    omega
  · omega

/-- Occupancy bounds, one stored param per complete packet, and the open packet leaves room for its last beat. -/
def pfInv (pd qd : Nat) (s : PFState) : Prop :=
  s.pay.length ≤ pd ∧ s.par.length ≤ qd ∧ s.par.length = nLast s.pay ∧ tailLen s.pay + 1 ≤ pd

/-- The documented limit as a hypothesis on what the producer offers: a non-last beat is only offered while the
    open packet, with this beat, still leaves room for one more (its last) beat: packets ≤ `payload_depth`. -/
def PfLegal (pd : Nat) (s : PFState) (i : In PBeat) : Prop :=
  i.valid = true → i.tok.last = false → tailLen s.pay + 2 ≤ pd

/-- Cooperative and within the limit. -/
def PfCoop (pd : Nat) (s : PFState) (i : In PBeat) : Prop := Coop i ∧ PfLegal pd s i

/-- What the read side does to the two queues (the part of the step before the write). -/
theorem pf_pop (pay : List (Nat × Bool)) (par : List Nat) (r : Bool) (h : par.length = nLast pay) :
    let pay1 := if (!par.isEmpty && r && !pay.isEmpty) then pay.tail else pay
    let par1 := if (!par.isEmpty && (pay.headD (0, false)).2 && r) then par.tail else par
    par1.length = nLast pay1 ∧ tailLen pay1 = tailLen pay ∧ pay1.length ≤ pay.length ∧ par1.length ≤ par.length := by
  cases par with
  | nil => simp [h]
  | cons p ps =>
    cases pay with
    | nil => simp [nLast] at h
    | cons x xs =>
      cases r with
      | false => simp [h]
      | true =>
        have hpos : 0 < nLast (x :: xs) := by rw [← h]; simp
        have ht := tailLen_tail x xs hpos
        rw [nLast_cons] at h
        simp only [List.length_cons] at h
        cases hx : x.2 with
        | true =>
          simp only [hx, if_true] at h
          simp [hx, ht]; omega
        | false =>
          simp only [hx, Bool.false_eq_true, if_false, Nat.zero_add] at h
          simp [hx, ht]; omega

theorem packetFifo_inv_step (pd qd : Nat) (hpd : 1 ≤ pd) (s : PFState) (i : In PBeat) (h : pfInv pd qd s)
    (hl : PfLegal pd s i) : pfInv pd qd ((packetFifo pd qd).step s i) := by
  obtain ⟨pay, par⟩ := s
  obtain ⟨h1, h2, h3, h4⟩ := h
  simp only at h1 h2 h3 h4
  have hp := pf_pop pay par i.ready h3
  rw [packetFifo_step_eq]
  simp only [pfReady] at hp ⊢
  generalize hpay1 : (if (!par.isEmpty && i.ready && !pay.isEmpty) then pay.tail else pay) = pay1 at hp ⊢
  generalize hpar1 : (if (!par.isEmpty && (pay.headD (0, false)).2 && i.ready) then par.tail else par) = par1 at hp ⊢
  obtain ⟨q1, q2, q3, q4⟩ := hp
  unfold pfInv PfLegal at *
  simp only at hl ⊢
  by_cases hacc : (i.valid && (pay.length != pd && par.length != qd)) = true
  · have hv : i.valid = true := by
      cases hvv : i.valid <;> simp [hvv] at hacc ⊢
    have hroom : pay.length ≠ pd ∧ par.length ≠ qd := by
      simp only [hv, Bool.true_and, Bool.and_eq_true, bne_iff_ne, ne_eq] at hacc; exact hacc
    cases hlast : i.tok.last with
    | true =>
      simp only [hacc, hlast, Bool.and_self, if_true, List.length_append, List.length_singleton, nLast_append,
        tailLen_append, payOf]
      refine ⟨by omega, by omega, by omega, by omega⟩
    | false =>
      have := hl hv hlast
      simp only [hacc, hlast, Bool.and_false, Bool.false_eq_true, if_false, if_true, List.length_append,
        List.length_singleton, nLast_append, tailLen_append, payOf]
      refine ⟨by omega, by omega, by omega, by omega⟩
  · have hacc' : (i.valid && (pay.length != pd && par.length != qd)) = false := by
      simpa using hacc
    simp only [hacc', Bool.false_and, Bool.false_eq_true, if_false]
    refine ⟨by omega, by omega, by omega, by omega⟩

/-- **No deadlock**: in every cooperative cycle within the limit the FIFO accepts a beat or delivers one — a full
    payload FIFO holds a complete packet (`tailLen < payload_depth`), a full param FIFO is a non-empty one. -/
theorem packetFifo_hs_step (pd qd : Nat) (hqd : 1 ≤ qd) (s : PFState) (i : In PBeat) (h : pfInv pd qd s)
    (hc : PfCoop pd s i) :
    1 ≤ ((packetFifo pd qd).accNow s i).length + ((packetFifo pd qd).delNow s i).length := by
  obtain ⟨pay, par⟩ := s
  obtain ⟨h1, h2, h3, h4⟩ := h
  obtain ⟨⟨hv, hr⟩, _⟩ := hc
  simp only at h1 h2 h3 h4
  rw [packetFifo_accNow]
  by_cases hrd : pfReady pd qd ⟨pay, par⟩ = true
  · simp [hv, hrd]
  · -- not ready: one of the queues is full, hence a complete packet is stored and offered
    have hne : par ≠ [] := by
      intro hnil
      subst hnil
      simp only [pfReady, Bool.and_eq_true, bne_iff_ne, ne_eq, List.length_nil] at hrd
      by_cases hfull : pay.length = pd
      · have : 0 < nLast pay := nLast_pos_of_tail_lt pay (by omega)
        simp at h3; omega
      · exact hrd ⟨hfull, by omega⟩
    refine Nat.le_trans ?_ (Nat.le_add_left _ _)
    cases par with
    | nil => exact absurd rfl hne
    | cons p ps => simp [Elem.delNow, Elem.out, packetFifo, hr]

/-- Cycles until a complete packet is stored. -/
def pfMu (pd : Nat) (s : PFState) : Nat := if s.par.isEmpty then pd - tailLen s.pay else 0

theorem packetFifo_del_dec (pd qd : Nat) (hqd : 1 ≤ qd) (s : PFState) (i : In PBeat) (h : pfInv pd qd s)
    (hc : PfCoop pd s i) :
    1 ≤ ((packetFifo pd qd).delNow s i).length ∨ pfMu pd ((packetFifo pd qd).step s i) < pfMu pd s := by
  obtain ⟨pay, par⟩ := s
  obtain ⟨h1, h2, h3, h4⟩ := h
  obtain ⟨⟨hv, hr⟩, hl⟩ := hc
  simp only at h1 h2 h3 h4
  cases par with
  | cons p ps => left; simp [Elem.delNow, Elem.out, packetFifo, hr]
  | nil =>
    right
    -- no complete packet: everything stored is the open packet, there is room, the beat is accepted
    have hn0 : nLast pay = 0 := by simpa using h3.symm
    have htl : tailLen pay = pay.length := by
      have := foldl_noLast pay 0 hn0
      unfold tailLen; omega
    have hroom : pay.length ≠ pd := by omega
    have hq : (0 : Nat) ≠ qd := by omega
    rw [packetFifo_step_eq]
    unfold pfMu PfLegal at *
    simp only at hl ⊢
    cases hlast : i.tok.last with
    | true => simp [pfReady, hv, hroom, hq, hlast]; omega
    | false =>
      have := hl hv hlast
      simp [pfReady, hv, hroom, hq, hlast, tailLen_append, payOf]; omega

theorem pfInv_init (pd qd : Nat) (hpd : 1 ≤ pd) : pfInv pd qd (packetFifo pd qd).init := by
  simp [pfInv, packetFifo, nLast, tailLen]; omega

theorem pfInv_reach (pd qd : Nat) (hpd : 1 ≤ pd) (pre : List (In PBeat))
    (hpre : RunC (packetFifo pd qd) (PfLegal pd) (packetFifo pd qd).init pre) :
    pfInv pd qd ((packetFifo pd qd).runFrom (packetFifo pd qd).init pre) :=
  inv_runFromC _ (pfInv pd qd) (PfLegal pd) (fun s i h hl => packetFifo_inv_step pd qd hpd s i h hl) pre _
    (pfInv_init pd qd hpd) hpre

theorem packetFifo_progress_run (pd qd : Nat) (hpd : 1 ≤ pd) (hqd : 1 ≤ qd) (s : PFState) (hs : pfInv pd qd s)
    (ins : List (In PBeat)) (hins : RunC (packetFifo pd qd) (PfCoop pd) s ins) (n : Nat) (hn : n * 1 ≤ ins.length) :
    n ≤ (packetFifo pd qd).hsCount s ins :=
  count_ge_of_windowS _ (pfInv pd qd) (PfCoop pd) (fun s i h hc => packetFifo_inv_step pd qd hpd s i h hc.2)
    (packetFifo pd qd).hsCount (hsCount_append _) 1
    (fun s ins hs hc hl => by
      match ins, hl with
      | [i], _ =>
        have := packetFifo_hs_step pd qd hqd s i hs hc.1
        simpa [hsCount, accepted, delivered] using this)
    n s ins hs hins hn

theorem packetFifo_delivers_run (pd qd : Nat) (hpd : 1 ≤ pd) (hqd : 1 ≤ qd) (s : PFState) (hs : pfInv pd qd s)
    (ins : List (In PBeat)) (hins : RunC (packetFifo pd qd) (PfCoop pd) s ins) (n : Nat)
    (hn : n * (pd + 1) ≤ ins.length) : n ≤ ((packetFifo pd qd).delivered s ins).length :=
  count_ge_of_windowS _ (pfInv pd qd) (PfCoop pd) (fun s i h hc => packetFifo_inv_step pd qd hpd s i h hc.2)
    (fun s ins => ((packetFifo pd qd).delivered s ins).length) (by intro s a b; simp [delivered_append]) (pd + 1)
    (fun s ins hs hc hl =>
      window_of_measureS _ (pfInv pd qd) (PfCoop pd) (fun s i h hc => packetFifo_inv_step pd qd hpd s i h hc.2)
        (fun s i => ((packetFifo pd qd).delNow s i).length) (fun s ins => ((packetFifo pd qd).delivered s ins).length)
        (by intro s i is; simp [delivered]) (pfMu pd)
        (fun s i h hc => packetFifo_del_dec pd qd hqd s i h hc) pd s ins hs
        (by unfold pfMu; split <;> omega) hc hl)
    n s ins hs hins hn

end Litex.Packet
