import LitexModel.Stream.Status
/-
  `packet.Status`: the `first` register and the `ongoing` register expressed as functions of the complete
  history of the observed endpoint (no reference to the machine's own state).
-/
namespace Litex.Stream

theorem list_rev_induction {α : Type} {P : List α → Prop} (h0 : P [])
    (h1 : ∀ l a, P l → P (l ++ [a])) : ∀ l, P l := by
  intro l
  have h : ∀ r : List α, P r.reverse := by
    intro r
    induction r with
    | nil => exact h0
    | cons a r ih => simpa using h1 _ a ih
  simpa using h l.reverse

/-- The beats transferred so far (cycles with `valid ∧ ready`), oldest first. -/
def beats (ins : List StatusIn) : List StatusIn := ins.filter (·.hs)

/-- The cycles after the most recent last-beat handshake: the longest suffix of the history that contains no
    `valid ∧ last ∧ ready` cycle. -/
def sinceLast (ins : List StatusIn) : List StatusIn :=
  (ins.reverse.takeWhile (fun i => !i.lastHs)).reverse

theorem sinceLast_concat (ins : List StatusIn) (i : StatusIn) :
    sinceLast (ins ++ [i]) = if i.lastHs then [] else sinceLast ins ++ [i] := by
  unfold sinceLast
  cases h : i.lastHs <;> simp [h]

theorem status_run_concat (ins : List StatusIn) (i : StatusIn) :
    status.run (ins ++ [i]) = status.next (status.run ins) i := by
  simp [Machine.run, Machine.runFrom_append, Machine.runFrom]

/-- `first` after any history: true iff no beat was transferred yet or the latest transferred beat was a last
    beat. -/
theorem status_first_run (ins : List StatusIn) :
    (status.run ins).first = (((beats ins).getLast?).map (·.last)).getD true := by
  induction ins using list_rev_induction with
  | h0 => rfl
  | h1 l i ih =>
    rw [status_run_concat]
    obtain ⟨v, la, r⟩ := i
    simp only [status, beats, List.filter_append] at *
    rw [ih]
    cases v <;> cases la <;> cases r <;> simp [StatusIn.hs, StatusIn.lastHs]

/-- `ongoing` register after any history: true iff `valid` was seen since the most recent last-beat
    handshake. -/
theorem status_ongoing_run (ins : List StatusIn) :
    (status.run ins).ongoing = (sinceLast ins).any (·.valid) := by
  induction ins using list_rev_induction with
  | h0 => rfl
  | h1 l i ih =>
    rw [status_run_concat, sinceLast_concat]
    obtain ⟨v, la, r⟩ := i
    simp only [status] at *
    rw [ih]
    cases v <;> cases la <;> cases r <;> simp [StatusIn.lastHs, Bool.or_comm]

end Litex.Stream
