import LitexModel.Stream.Route
/-
  C04 for the combinational routers `Multiplexer` / `Demultiplexer`.  They are *designed* to retract when the
  selector moves, so the contract theorems carry the explicit hypothesis "the selector is held while a token
  waits" next to the producer contract of the (selected) sink.
-/
namespace Litex.Stream
variable {α : Type}

theorem getD_map_range {β : Type} (n k : Nat) (f : Nat → β) (d : β) (h : k < n) :
    ((List.range n).map f).getD k d = f k := by
  simp [List.getD, h]

theorem getD_map_range_ge {β : Type} (n k : Nat) (f : Nat → β) (d : β) (h : n ≤ k) :
    ((List.range n).map f).getD k d = d := by
  simp [List.getD, h]

/-! ### Multiplexer -/

/-- One cycle boundary of a multiplexer.  `hsel`: the selector is held while a token waits at the source.
    `hprod`: every sink's producer keeps the contract (a refused token is offered again). -/
theorem mux_hold (n : Nat) (z : Tok α) (i i' : MuxIn α)
    (hsel : (muxOut n z i).valid = true → i.ready = false → i'.sel = i.sel)
    (hprod : ∀ k, (i.sinks.getD k (false, z)).1 = true → (muxOut n z i).readies.getD k false = false →
      i'.sinks.getD k (false, z) = (true, (i.sinks.getD k (false, z)).2)) :
    (muxOut n z i).valid = true → i.ready = false →
      ((muxOut n z i').valid = true ∧ (muxOut n z i').tok = (muxOut n z i).tok) := by
  intro hv hr
  have hs := hsel hv hr
  by_cases hlt : i.sel < n
  · have hv' : (i.sinks.getD i.sel (false, z)).1 = true := by simpa [muxOut, hlt] using hv
    have hrd : (muxOut n z i).readies.getD i.sel false = false := by
      simp only [muxOut, hlt, if_true]
      rw [getD_map_range n i.sel _ false hlt]
      simp [hr]
    have hp := hprod i.sel hv' hrd
    simp only [muxOut, hlt, if_true, hs, hp]
    simp
  · simp [muxOut, hlt] at hv

/-- Trace form: along any input list on which the selector is held while a token waits and every sink producer
    keeps the contract, the source keeps the contract at every cycle boundary. -/
theorem mux_stable_trace (n : Nat) (z : Tok α) (ins : List (MuxIn α))
    (hsel : ∀ t i i', ins[t]? = some i → ins[t + 1]? = some i' →
      (muxOut n z i).valid = true → i.ready = false → i'.sel = i.sel)
    (hprod : ∀ t i i' k, ins[t]? = some i → ins[t + 1]? = some i' →
      (i.sinks.getD k (false, z)).1 = true → (muxOut n z i).readies.getD k false = false →
      i'.sinks.getD k (false, z) = (true, (i.sinks.getD k (false, z)).2)) :
    ∀ t i i', ins[t]? = some i → ins[t + 1]? = some i' → (muxOut n z i).valid = true → i.ready = false →
      ((muxOut n z i').valid = true ∧ (muxOut n z i').tok = (muxOut n z i).tok) :=
  fun t i i' h1 h2 => mux_hold n z i i' (hsel t i i' h1 h2) (fun k => hprod t i i' k h1 h2)

/-- Progress: with a legal selector, an offering selected sink and a ready consumer, the token moves in this very
    cycle (accepted at the selected sink and delivered at the source). -/
theorem mux_moves (n : Nat) (z : Tok α) (i : MuxIn α) (hlt : i.sel < n)
    (hv : (i.sinks.getD i.sel (false, z)).1 = true) (hr : i.ready = true) :
    muxDel n z i = [(i.sinks.getD i.sel (false, z)).2] ∧
    muxAccAt n z i.sel i = [(i.sinks.getD i.sel (false, z)).2] := by
  simp only [List.getD_eq_getElem?_getD] at hv ⊢
  constructor
  · simp [muxDel, muxOut, hlt, hv, hr]
  · simp [muxAccAt, muxOut, hlt, hv, hr]

/-! ### Demultiplexer -/

/-- One cycle boundary of a demultiplexer, at any source `k`.  `hsel`: the selector is held while the sink token
    is refused.  `hprod`: the sink's producer keeps the contract. -/
theorem demux_hold (n : Nat) (z : Tok α) (i i' : DemuxIn α) (k : Nat)
    (hsel : i.valid = true → (demuxOut n z i).ready = false → i'.sel = i.sel)
    (hprod : i.valid = true → (demuxOut n z i).ready = false → (i'.valid = true ∧ i'.tok = i.tok)) :
    ((demuxOut n z i).sources.getD k (false, z)).1 = true → i.readies.getD k false = false →
      (((demuxOut n z i').sources.getD k (false, z)).1 = true ∧
       ((demuxOut n z i').sources.getD k (false, z)).2 = ((demuxOut n z i).sources.getD k (false, z)).2) := by
  intro hv hr
  by_cases hk : k < n
  · simp only [demuxOut] at hv ⊢
    rw [getD_map_range n k _ _ hk] at hv ⊢
    rw [getD_map_range n k _ _ hk]
    by_cases hks : k = i.sel
    · subst hks
      simp only [beq_self_eq_true, if_true] at hv ⊢
      have hnr : (demuxOut n z i).ready = false := by
        simp only [demuxOut, hr]; simp
      have hs := hsel hv hnr
      obtain ⟨h1, h2⟩ := hprod hv hnr
      simp [hs, h1, h2]
    · have : (k == i.sel) = false := by simpa using hks
      simp [this] at hv
  · simp only [demuxOut] at hv
    rw [getD_map_range_ge n k _ _ (by omega)] at hv
    simp at hv

theorem demux_stable_trace (n : Nat) (z : Tok α) (ins : List (DemuxIn α))
    (hsel : ∀ t i i', ins[t]? = some i → ins[t + 1]? = some i' →
      i.valid = true → (demuxOut n z i).ready = false → i'.sel = i.sel)
    (hprod : ∀ t i i', ins[t]? = some i → ins[t + 1]? = some i' →
      i.valid = true → (demuxOut n z i).ready = false → (i'.valid = true ∧ i'.tok = i.tok)) :
    ∀ t i i' k, ins[t]? = some i → ins[t + 1]? = some i' →
      ((demuxOut n z i).sources.getD k (false, z)).1 = true → i.readies.getD k false = false →
      (((demuxOut n z i').sources.getD k (false, z)).1 = true ∧
       ((demuxOut n z i').sources.getD k (false, z)).2 = ((demuxOut n z i).sources.getD k (false, z)).2) :=
  fun t i i' k h1 h2 => demux_hold n z i i' k (hsel t i i' h1 h2) (hprod t i i' h1 h2)

theorem demux_moves (n : Nat) (z : Tok α) (i : DemuxIn α) (hlt : i.sel < n) (hv : i.valid = true)
    (hr : i.readies.getD i.sel false = true) :
    demuxAcc n z i = [i.tok] ∧ demuxDelAt n z i.sel i = [i.tok] := by
  simp only [List.getD_eq_getElem?_getD] at hr ⊢
  constructor
  · simp [demuxAcc, demuxOut, hlt, hv, hr]
  · simp [demuxDelAt, demuxOut, hlt, hv, hr]

end Litex.Stream
