import LitexProofs.Stream.HandshakeArbiter
/-
  C04 — Arbiter progress when only SOME masters offer: if at least one master requests and every requesting master
  (offering, or inside a packet) offers in the next cycle, a beat is transferred in that next cycle at the latest.
-/
namespace Litex.Packet
open Litex Litex.Stream

theorem arbiter_next_grant_requests (n : Nat) (hn : 2 ≤ n) (s : ArbState) (hg : s.grant < n) (i : ArbIn)
    (hsome : ∃ k, k < n ∧ arbRequest s i k = true) :
    ((arbiter n).next s i).grant < n ∧ arbRequest s i ((arbiter n).next s i).grant = true := by
  obtain ⟨k, hk, hreq⟩ := hsome
  show RoundRobin.next .withdraw n s.grant (fun j => decide (j < n) && arbRequest s i j) < n ∧
    arbRequest s i (RoundRobin.next .withdraw n s.grant (fun j => decide (j < n) && arbRequest s i j)) = true
  have hlt := RoundRobin.next_lt .withdraw (fun j => decide (j < n) && arbRequest s i j) true hg
  refine ⟨hlt, ?_⟩
  cases hown : arbRequest s i s.grant with
  | true =>
    rw [RoundRobin.next_withdraw_keep _ true hg (by simp [hg, hown])]
    exact hown
  | false =>
    have hne : k ≠ s.grant := by
      intro h; subst h; rw [hown] at hreq; cases hreq
    have h1 := RoundRobin.next_ne_self_of_other_req .withdraw (fun j => decide (j < n) && arbRequest s i j) true hg hk hne
      (by simp [hk, hreq]) (by simp [RoundRobin.enabled, hg, hown])
    have h2 := (RoundRobin.next_change_req .withdraw (fun j => decide (j < n) && arbRequest s i j) true hg h1.1).1
    simp only [Bool.and_eq_true, decide_eq_true_eq] at h2
    exact h2.2

/-- **Progress with a subset of masters offering.** -/
theorem arbiter_moves_next (n : Nat) (hn : 2 ≤ n) (s : ArbState) (hg : s.grant < n) (i i' : ArbIn)
    (hr' : i'.ready = true) (hsome : ∃ k, k < n ∧ arbRequest s i k = true)
    (hkeep : ∀ j, j < n → arbRequest s i j = true → (i'.masters.getD j Beat.idle).valid = true) :
    ((arbiter n).out ((arbiter n).next s i) i').slave.valid = true ∧
    ((arbiter n).out ((arbiter n).next s i) i').readys.getD ((arbiter n).next s i).grant false = true := by
  obtain ⟨hlt, hreq⟩ := arbiter_next_grant_requests n hn s hg i hsome
  exact arbiter_moves n _ hlt i' (hkeep _ hlt hreq) hr'

end Litex.Packet
