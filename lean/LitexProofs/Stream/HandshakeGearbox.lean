import LitexProofs.Stream.HandshakeComp
import LitexProofs.Stream.Gearbox
/-
  C04 for `stream.Gearbox`.  Stability of the source word needs the pointer/level invariant (b-c03's `gbRel`):
  a word written while the source is stalled lands in a slot that holds no unread bit, so the `o` bits selected by
  `o_count` do not move.  Progress: `io_lcm ≥ 2·max(i, o)` makes "not ready" imply "valid".
-/
namespace Litex.Stream
open Elem
variable {α : Type}

/-- Pointer/level invariant of the gearbox (the state part of `gbRel`, for some token history). -/
def gbInv (L i o : Nat) (z : α) (s : GbState α) : Prop := ∃ a d, gbRel L i o z s a d

theorem gbInv_init (L i o : Nat) (hi : 0 < i) (ho : 0 < o) (h2i : 2 * i ≤ L) (h2o : 2 * o ≤ L) (z : α) :
    gbInv L i o z (gearbox L i o z).init := by
  refine ⟨[], [], ?_⟩
  have h1 : 0 < L / i := Nat.div_pos (by omega) hi
  have h3 : 0 < L / o := Nat.div_pos (by omega) ho
  refine ⟨by simp [gearbox], h1, h3, by simp [gearbox]; omega, by simp [gearbox], ?_⟩
  simp [gearbox, bitsIn, bitsOut, inflightOf]

theorem gbInv_step (L i o : Nat) (hi : 0 < i) (ho : 0 < o) (hiL : i ∣ L) (hoL : o ∣ L) (z : α)
    (s : GbState α) (x : In (List α)) (h : gbInv L i o z s) : gbInv L i o z ((gearbox L i o z).step s x) := by
  obtain ⟨a, d, h⟩ := h
  exact ⟨_, _, gearbox_step L i o hi ho hiL hoL z s a d x h⟩

theorem gearbox_stepStable (L i o : Nat) (hi : 0 < i) (ho : 0 < o) (hiL : i ∣ L) (hoL : o ∣ L) (z : α) :
    StepStable (gearbox L i o z) (gbInv L i o z) where
  inv_step := gbInv_step L i o hi ho hiL hoL z
  hold s x x' hs _ := by
    obtain ⟨a, d, h1, h2, h3, h4, h5, _⟩ := hs
    obtain ⟨level, icount, ocount, sr⟩ := s
    obtain ⟨xv, xt, xr⟩ := x
    simp only at h1 h2 h3 h4 h5
    intro hv hr
    simp only [gearbox, Elem.out, decide_eq_true_eq] at hv
    simp only at hr
    subst hr
    obtain ⟨_, _, hi3⟩ := incMod_spec i L icount hi hiL h2
    obtain ⟨_, _, ho3⟩ := incMod_spec o L ocount ho hoL h3
    have hfitlen : (fit i z xt.data).length = i := fit_length i z xt.data
    by_cases hacc : xv = true ∧ level + i < L
    · obtain ⟨hxv, hroom⟩ := hacc
      have hw := inflightOf_write L z sr (fit i z xt.data) (o * ocount) (i * icount) level h1 h5
        (by rw [hfitlen]; exact hi3) (by rw [hfitlen]; exact hroom)
      rw [hfitlen] at hw
      have hlen' : (writeAt sr (i * icount) (fit i z xt.data)).length = L := by
        rw [writeAt_length _ _ _ (by rw [hfitlen, h1]; exact hi3)]; exact h1
      have hr1 := read_eq_take L z (writeAt sr (i * icount) (fit i z xt.data)) (o * ocount) (level + i) o
        (by omega) hlen' ho3
      have hr0 := read_eq_take L z sr (o * ocount) level o hv h1 ho3
      have hdata : ((writeAt sr (i * icount) (fit i z xt.data)).drop (o * ocount)).take o =
          (sr.drop (o * ocount)).take o := by
        rw [hr1, hw, hr0, List.take_append_of_le_length (by simp; exact hv)]
      simp only [gearbox, Elem.out, Elem.step, hxv, hroom, hv, decide_true, Bool.and_false, Bool.and_true,
        Bool.not_false, if_true, Bool.false_eq_true, if_false, decide_eq_true_eq]
      exact ⟨by omega, by rw [hdata]⟩
    · have hna : (xv && decide (level + i < L)) = false := by
        cases hx : xv <;> simp_all
      simp only [gearbox, Elem.out, Elem.step, hna, hv, decide_true, Bool.and_false, Bool.false_and,
        Bool.false_eq_true, if_false]
      exact ⟨trivial, trivial⟩

/-- In every cooperative cycle the gearbox accepts or delivers (`level < o → level + i < io_lcm`). -/
theorem gearbox_hs_window (L i o : Nat) (h2i : 2 * i ≤ L) (h2o : 2 * o ≤ L) (z : α) (s : GbState α)
    (ins : List (In (List α))) (hc : ∀ x ∈ ins, Coop x) (hlen : ins.length = 1) :
    1 ≤ (gearbox L i o z).hsCount s ins := by
  match ins, hlen with
  | [x], _ =>
    obtain ⟨hv, hr⟩ := hc x (by simp)
    obtain ⟨xv, xt, xr⟩ := x
    simp only at hv hr; subst hv; subst hr
    by_cases h : s.level + i < L
    · simp [hsCount, accepted, delivered, accNow, delNow, gearbox, Elem.out, h]
    · have : o ≤ s.level := by omega
      simp [hsCount, accepted, delivered, accNow, delNow, gearbox, Elem.out, h, this]

/-- Words still to be accepted before the source word is complete: `⌈(o − level) / i⌉`. -/
def gbMu (i o : Nat) (s : GbState α) : Nat := (o - s.level + (i - 1)) / i

theorem gearbox_measure (L i o : Nat) (hi : 0 < i) (ho : 0 < o) (hiL : i ∣ L) (hoL : o ∣ L)
    (h2i : 2 * i ≤ L) (h2o : 2 * o ≤ L) (z : α) :
    DelMeasure (gearbox L i o z) (gbInv L i o z) (gbMu i o) ((o + (i - 1)) / i) where
  inv_step := gbInv_step L i o hi ho hiL hoL z
  bound s _ := by
    unfold gbMu
    exact Nat.div_le_div_right (by omega)
  dec s x _ hc := by
    obtain ⟨hv, hr⟩ := hc
    obtain ⟨xv, xt, xr⟩ := x
    simp only at hv hr; subst hv; subst hr
    by_cases hval : o ≤ s.level
    · left; simp [delNow, gearbox, Elem.out, hval]
    · right
      have hroom : s.level + i < L := by omega
      have hlev' : ((gearbox L i o z).step s ⟨true, xt, true⟩).level = s.level + i := by
        simp [gearbox, Elem.step, hroom, hval]
      unfold gbMu
      rw [hlev']
      by_cases hx : i ≤ o - s.level
      · -- still short after this word: the ceiling drops by exactly one
        have e1 : o - s.level + (i - 1) = (o - (s.level + i) + (i - 1)) + i := by omega
        rw [e1, Nat.add_div_right _ hi]
        exact Nat.lt_succ_self _
      · -- this word completes the source word
        have e0 : o - (s.level + i) = 0 := by omega
        have hlt : (0 + (i - 1)) / i = 0 := Nat.div_eq_of_lt (by omega)
        have e1 : o - s.level + (i - 1) = (o - s.level - 1) + i := by omega
        rw [e0, hlt, e1, Nat.add_div_right _ hi]
        exact Nat.succ_pos _

end Litex.Stream
