import LitexProofs.Stream.Layout
import Mathlib.Tactic.Ring
/-
  The field-wise stride bit map of `StrideConverter` (`strideOut` up, `strideIn` down): field lemma, round trips.
-/
namespace Litex.Stream
open Litex

theorem cat_append (ps qs : List (Nat × Nat)) : cat (ps ++ qs) = cat ps + 2 ^ catWidth ps * cat qs := by
  induction ps with
  | nil => simp [cat, catWidth]
  | cons p ps ih =>
    obtain ⟨w, v⟩ := p
    simp only [List.cons_append, cat_cons, catWidth, ih, Nat.pow_add]
    ring

theorem cat_lt (ps : List (Nat × Nat)) : cat ps < 2 ^ catWidth ps := by
  induction ps with
  | nil => simp [cat, catWidth]
  | cons p ps ih =>
    obtain ⟨w, v⟩ := p
    simp only [cat_cons, catWidth, Nat.pow_add]
    have h1 : v % 2 ^ w < 2 ^ w := Nat.mod_lt _ (Nat.two_pow_pos w)
    calc v % 2 ^ w + 2 ^ w * cat ps < 2 ^ w + 2 ^ w * cat ps := by omega
      _ = 2 ^ w * (cat ps + 1) := by ring
      _ ≤ 2 ^ w * 2 ^ catWidth ps := Nat.mul_le_mul_left _ ih

/-- Bits below position `c` do not see what is added above `c`. -/
theorem slice_add_high (lo w c a b : Nat) (h : lo + w ≤ c) : slice lo w (a + 2 ^ c * b) = slice lo w a := by
  obtain ⟨k, rfl⟩ : ∃ k, c = lo + w + k := ⟨c - (lo + w), by omega⟩
  unfold slice
  have e : a + 2 ^ (lo + w + k) * b = a + (2 ^ w * (2 ^ k * b)) * 2 ^ lo := by rw [Nat.pow_add, Nat.pow_add]; ring
  rw [e, Nat.add_mul_div_right _ _ (Nat.two_pow_pos lo), Nat.add_mul_mod_self_left]

/-- Bits from position `c` on do not see a summand below `2^c`. -/
theorem slice_shift (lo w c a b : Nat) (ha : a < 2 ^ c) : slice (c + lo) w (a + 2 ^ c * b) = slice lo w b := by
  unfold slice
  rw [Nat.pow_add, ← Nat.div_div_eq_div_mul, Nat.add_mul_div_left _ _ (Nat.two_pow_pos c), Nat.div_eq_of_lt ha,
    Nat.zero_add]

/-- A slice of a slice. -/
theorem slice_slice (a w b n x : Nat) (h : a + w ≤ n) : slice a w (slice b n x) = slice (b + a) w x := by
  obtain ⟨k, rfl⟩ : ∃ k, n = a + w + k := ⟨n - (a + w), by omega⟩
  unfold slice
  rw [Nat.pow_add 2 (a + w) k, Nat.pow_add 2 a w, Nat.mul_assoc, Nat.mod_mul_right_div_self,
    Nat.mod_mul_right_mod, Nat.div_div_eq_div_mul, ← Nat.pow_add]

/-- One field block of the up-converter's stride map: slice `i` of it is field `(j, w)` of lane `i`. -/
theorem catWidth_block (lanes : List Nat) (j w : Nat) :
    catWidth (lanes.map fun p => (w, slice j w p)) = lanes.length * w := by
  induction lanes with
  | nil => simp [catWidth]
  | cons p ps ih => simp only [List.map_cons, catWidth, ih, List.length_cons]; ring

theorem slice_block (lanes : List Nat) (j w i : Nat) (hi : i < lanes.length) :
    slice (i * w) w (cat (lanes.map fun p => (w, slice j w p))) = slice j w (lanes.getD i 0) := by
  have e : (lanes.map fun p => (w, slice j w p)) = (lanes.map (slice j w)).map fun v => (w, v) := by
    simp [List.map_map, Function.comp_def]
  have h := packLanes_slice w (lanes.map (slice j w)) i (by simpa using hi)
  rw [e]
  unfold packLanes at h
  rw [h]
  simp [List.getD_eq_getElem?_getD, hi, Nat.mod_eq_of_lt (slice_lt j w _)]

/-- Core of both round trips (generalised over the offset of the remaining fields and over whatever sits below
    them in the wide word). -/
theorem stride_go (r i : Nat) (lanes : List Nat) (hr : lanes.length = r) (hi : i < r) :
    ∀ (ws : List Nat) (off c : Nat), c < 2 ^ (r * off) →
      (fieldPos.go off ws).map (fun (j, w) => (w, slice (r * j + i * w) w
        (c + 2 ^ (r * off) * cat ((fieldPos.go off ws).flatMap fun (j, w) => lanes.map fun p => (w, slice j w p))))) =
      (fieldPos.go off ws).map (fun (j, w) => (w, slice j w (lanes.getD i 0))) := by
  intro ws
  induction ws with
  | nil => intro off c _; simp [fieldPos.go]
  | cons w ws ih =>
    intro off c hc
    simp only [fieldPos.go, List.flatMap_cons, List.map_cons, cat_append, catWidth_block, hr]
    set B := cat (lanes.map fun p => (w, slice off w p)) with hB
    set R := cat ((fieldPos.go (off + w) ws).flatMap fun (j, w) => lanes.map fun p => (w, slice j w p)) with hR
    have hBlt : B < 2 ^ (r * w) := by
      have := cat_lt (lanes.map fun p => (w, slice off w p))
      rwa [catWidth_block, hr] at this
    have hY : c + 2 ^ (r * off) * (B + 2 ^ (r * w) * R) = (c + 2 ^ (r * off) * B) + 2 ^ (r * (off + w)) * R := by
      rw [Nat.mul_add r off w, Nat.pow_add]; ring
    have hc' : c + 2 ^ (r * off) * B < 2 ^ (r * (off + w)) := by
      rw [Nat.mul_add r off w, Nat.pow_add]
      calc c + 2 ^ (r * off) * B < 2 ^ (r * off) + 2 ^ (r * off) * B := by omega
        _ = 2 ^ (r * off) * (B + 1) := by ring
        _ ≤ 2 ^ (r * off) * 2 ^ (r * w) := Nat.mul_le_mul_left _ hBlt
    congr 1
    · -- the head field
      congr 1
      rw [slice_shift (i * w) w (r * off) c _ hc, slice_add_high (i * w) w (r * w) B R]
      · exact slice_block lanes off w i (by omega)
      · calc i * w + w = (i + 1) * w := by ring
          _ ≤ r * w := Nat.mul_le_mul_right w (by omega)
    · rw [hY]
      exact ih (off + w) _ hc'

/-- The narrow word reassembled from its fields. -/
theorem cat_fieldmap (x : Nat) : ∀ (ws : List Nat) (off : Nat),
    cat ((fieldPos.go off ws).map fun (j, w) => (w, slice j w x)) = slice off (sumW ws) x
  | [], off => by simp [fieldPos.go, cat, sumW, slice, Nat.mod_one]
  | w :: ws, off => by
    have ih := cat_fieldmap x ws (off + w)
    simp only [fieldPos.go, List.map_cons, cat_cons, sumW, ih]
    simp only [slice]
    rw [Nat.mod_mod, Nat.pow_add 2 off w, ← Nat.div_div_eq_div_mul, Nat.pow_add 2 w (sumW ws), Nat.mod_mul]

/-- **Down after up is the identity**: a down-converting StrideConverter recovers, from the wide word an
    up-converting one produced, exactly the `r` narrow words (for every list of field widths and every ratio). -/
theorem strideIn_strideOut (ws : List Nat) (lanes : List Nat) :
    strideIn lanes.length ws (strideOut ws lanes) = lanes.map (· % 2 ^ sumW ws) := by
  apply List.ext_getElem
  · simp [strideIn]
  · intro i h1 h2
    have hi : i < lanes.length := by simpa [strideIn] using h1
    simp only [strideIn, strideOut, List.getElem_map, List.getElem_range, fieldPos]
    have h := stride_go lanes.length i lanes rfl hi ws 0 0 (by simp)
    simp only [Nat.mul_zero, Nat.pow_zero, Nat.one_mul, Nat.zero_add] at h
    rw [h, cat_fieldmap, slice_zero]
    simp [trunc, List.getD_eq_getElem?_getD, hi]

/-- **The stride map on fields** (the documented function): in the wide word, slice `i` of wide field `k`
    (wide field `k` sits at `r·j_k`, is `r·w_k` wide) is narrow field `k` (at `j_k`, `w_k` wide) of lane `i`. -/
theorem strideOut_field (ws : List Nat) (lanes : List Nat) (i : Nat) (hi : i < lanes.length) :
    (fieldPos ws).map (fun (j, w) => slice (i * w) w (slice (lanes.length * j) (lanes.length * w) (strideOut ws lanes))) =
    (fieldPos ws).map (fun (j, w) => slice j w (lanes.getD i 0)) := by
  have h := stride_go lanes.length i lanes rfl hi ws 0 0 (by simp)
  simp only [Nat.mul_zero, Nat.pow_zero, Nat.one_mul, Nat.zero_add] at h
  have h' := congrArg (List.map Prod.snd) h
  simp only [List.map_map] at h'
  have hf : (fun (p : Nat × Nat) => match p with
      | (j, w) => slice (i * w) w (slice (lanes.length * j) (lanes.length * w) (strideOut ws lanes))) =
      (Prod.snd ∘ fun (p : Nat × Nat) => match p with
        | (j, w) => (w, slice (lanes.length * j + i * w) w (strideOut ws lanes))) := by
    funext p
    obtain ⟨j, w⟩ := p
    simp only [Function.comp]
    apply slice_slice
    calc i * w + w = (i + 1) * w := by ring
      _ ≤ lanes.length * w := Nat.mul_le_mul_right w (by omega)
  rw [hf]
  simpa [strideOut, fieldPos, Function.comp_def] using h'

/-! ### Up after down -/

theorem flatMap_congr' {α β : Type} {l : List α} {f g : α → List β} (h : ∀ a ∈ l, f a = g a) :
    l.flatMap f = l.flatMap g := by
  induction l with
  | nil => rfl
  | cons a l ih =>
    simp only [List.flatMap_cons]
    rw [h a (by simp), ih (fun b hb => h b (by simp [hb]))]

/-- A field read back from a word assembled from fields (generalised over what sits below). -/
theorem cat_field_go (g : Nat → Nat → Nat) : ∀ (ws : List Nat) (off c : Nat), c < 2 ^ off →
    (fieldPos.go off ws).map (fun (j, w) => slice j w (c + 2 ^ off * cat ((fieldPos.go off ws).map fun (j, w) => (w, g j w)))) =
    (fieldPos.go off ws).map (fun (j, w) => g j w % 2 ^ w) := by
  intro ws
  induction ws with
  | nil => intro off c _; simp [fieldPos.go]
  | cons w ws ih =>
    intro off c hc
    simp only [fieldPos.go, List.map_cons, cat_cons]
    set R := cat ((fieldPos.go (off + w) ws).map fun (j, w) => (w, g j w)) with hR
    have hY : c + 2 ^ off * (g off w % 2 ^ w + 2 ^ w * R) = (c + 2 ^ off * (g off w % 2 ^ w)) + 2 ^ (off + w) * R := by
      rw [Nat.pow_add]; ring
    have hm : g off w % 2 ^ w < 2 ^ w := Nat.mod_lt _ (Nat.two_pow_pos w)
    have hc' : c + 2 ^ off * (g off w % 2 ^ w) < 2 ^ (off + w) := by
      rw [Nat.pow_add]
      calc c + 2 ^ off * (g off w % 2 ^ w) < 2 ^ off + 2 ^ off * (g off w % 2 ^ w) := by omega
        _ = 2 ^ off * (g off w % 2 ^ w + 1) := by ring
        _ ≤ 2 ^ off * 2 ^ w := Nat.mul_le_mul_left _ hm
    congr 1
    · have := slice_shift 0 w off c (g off w % 2 ^ w + 2 ^ w * R) hc
      rw [Nat.add_zero] at this
      rw [this, slice_add_high 0 w w _ R (by omega), slice_zero, trunc, Nat.mod_mod]
    · rw [hY]
      exact ih (off + w) _ hc'

theorem slice_split (b n m x : Nat) : slice b (n + m) x = slice b n x + 2 ^ n * slice (b + n) m x := by
  unfold slice
  rw [Nat.pow_add 2 n m, Nat.mod_mul, Nat.pow_add 2 b n, Nat.div_div_eq_div_mul]

/-- Consecutive `w`-bit slices concatenated are one `r·w`-bit slice. -/
theorem cat_range_slices (w b x : Nat) : ∀ r : Nat,
    cat ((List.range r).map fun i => (w, slice (b + i * w) w x)) = slice b (r * w) x
  | 0 => by simp [cat, slice, Nat.mod_one]
  | r + 1 => by
    have ih := cat_range_slices w b x r
    have hw : catWidth ((List.range r).map fun i => (w, slice (b + i * w) w x)) = r * w := by
      clear ih
      induction r with
      | zero => simp [catWidth]
      | succ n ihn =>
        rw [List.range_succ, List.map_append]
        have : ∀ ps qs : List (Nat × Nat), catWidth (ps ++ qs) = catWidth ps + catWidth qs := by
          intro ps qs; induction ps with
          | nil => simp [catWidth]
          | cons p ps ih => obtain ⟨a, v⟩ := p; simp [catWidth, ih]; ring
        rw [this, ihn]; simp [catWidth]; ring
    rw [List.range_succ, List.map_append, cat_append, ih, hw, Nat.succ_mul, slice_split]
    simp [cat, Nat.mod_eq_of_lt (slice_lt _ _ _)]

/-- **Up after down is the identity** on the `r·Σw` payload bits of the wide word. -/
theorem strideOut_strideIn (r : Nat) (ws : List Nat) (x : Nat) :
    strideOut ws (strideIn r ws x) = x % 2 ^ (r * sumW ws) := by
  -- every field of every reassembled lane is the slice of `x` it was taken from
  have hfield : ∀ i, ∀ p ∈ fieldPos ws,
      slice p.1 p.2 (cat ((fieldPos ws).map fun (j, w) => (w, slice (r * j + i * w) w x))) =
        slice (r * p.1 + i * p.2) p.2 x := by
    intro i
    have h := cat_field_go (fun j w => slice (r * j + i * w) w x) ws 0 0 (by simp)
    simp only [Nat.pow_zero, Nat.one_mul, Nat.zero_add] at h
    have h2 := List.map_inj_left.mp h
    intro p hp
    have := h2 p (by simpa [fieldPos] using hp)
    obtain ⟨j, w⟩ := p
    simp only at this ⊢
    rw [show (fieldPos ws) = fieldPos.go 0 ws from rfl, this, Nat.mod_eq_of_lt (slice_lt _ _ _)]
  have hblocks : (fieldPos ws).flatMap (fun (j, w) => (strideIn r ws x).map fun p => (w, slice j w p)) =
      (fieldPos ws).flatMap (fun (j, w) => (List.range r).map fun i => (w, slice (r * j + i * w) w x)) := by
    apply flatMap_congr'
    intro p hp
    obtain ⟨j, w⟩ := p
    simp only [strideIn, List.map_map, Function.comp_def]
    apply List.map_congr_left
    intro i _
    have := hfield i (j, w) hp
    simp only at this
    rw [this]
  unfold strideOut
  rw [hblocks]
  -- blocks are wide fields, wide fields concatenated are the word
  have hgo : ∀ (ws : List Nat) (off : Nat),
      cat ((fieldPos.go off ws).flatMap fun (j, w) => (List.range r).map fun i => (w, slice (r * j + i * w) w x)) =
        slice (r * off) (r * sumW ws) x := by
    intro ws
    induction ws with
    | nil => intro off; simp [fieldPos.go, cat, sumW, slice, Nat.mod_one]
    | cons w ws ih =>
      intro off
      have hcw : catWidth ((List.range r).map fun i => (w, slice (r * off + i * w) w x)) = r * w := by
        have : ∀ n, catWidth ((List.range n).map fun i => (w, slice (r * off + i * w) w x)) = n * w := by
          intro n
          induction n with
          | zero => simp [catWidth]
          | succ n ihn =>
            have happ : ∀ ps qs : List (Nat × Nat), catWidth (ps ++ qs) = catWidth ps + catWidth qs := by
              intro ps qs; induction ps with
              | nil => simp [catWidth]
              | cons p ps ih => obtain ⟨a, v⟩ := p; simp [catWidth, ih]; ring
            rw [List.range_succ, List.map_append, happ, ihn]; simp [catWidth]; ring
        exact this r
      simp only [fieldPos.go, List.flatMap_cons, cat_append, hcw, cat_range_slices, ih, sumW]
      rw [Nat.mul_add r w (sumW ws), slice_split, Nat.mul_add r off w]
  have := hgo ws 0
  simpa [fieldPos, slice_zero, trunc] using this

/-! ### The encoded wide word of a StrideConverter (up) seen through its fields -/

theorem catWidth_append (ps qs : List (Nat × Nat)) : catWidth (ps ++ qs) = catWidth ps + catWidth qs := by
  induction ps with
  | nil => simp [catWidth]
  | cons p ps ih => obtain ⟨a, v⟩ := p; simp [catWidth, ih]; ring

theorem catWidth_stride (lanes : List Nat) : ∀ (ws : List Nat) (off : Nat),
    catWidth ((fieldPos.go off ws).flatMap fun (j, w) => lanes.map fun p => (w, slice j w p)) = lanes.length * sumW ws
  | [], _ => by simp [fieldPos.go, catWidth, sumW]
  | w :: ws, off => by
    simp only [fieldPos.go, List.flatMap_cons, catWidth_append, catWidth_block, catWidth_stride lanes ws (off + w), sumW]
    ring

theorem strideOut_lt (ws lanes : List Nat) : strideOut ws lanes < 2 ^ (lanes.length * sumW ws) := by
  have := cat_lt ((fieldPos ws).flatMap fun (j, w) => lanes.map fun p => (w, slice j w p))
  rwa [show fieldPos ws = fieldPos.go 0 ws from rfl, catWidth_stride] at this

theorem fieldPos_bounds : ∀ (ws : List Nat) (off : Nat), ∀ p ∈ fieldPos.go off ws, off ≤ p.1 ∧ p.1 + p.2 ≤ off + sumW ws
  | [], _, p, hp => by simp [fieldPos.go] at hp
  | w :: ws, off, p, hp => by
    simp only [fieldPos.go, List.mem_cons] at hp
    rcases hp with rfl | hp
    · simp [sumW]
    · have := fieldPos_bounds ws (off + w) p hp
      simp only [sumW]; omega

/-- Source word of a StrideConverter (up), as the driver and the real code encode it: slice `n` (the physical
    lane of sub-word `i`) of wide field `k` is field `k` of sub-word `i`; the param field holds the param. -/
theorem encStrideUp_fields (r pw : Nat) (rev : Bool) (ws : List Nat) (W : UpWord Nat Nat) (hW : W.lanes.length = r)
    (i : Nat) (hi : i < r) :
    (fieldPos ws).map (fun (j, w) =>
        slice ((if rev then r - 1 - i else i) * w) w (slice (r * j) (r * w) (encStrideUp r pw rev ws W))) =
      (fieldPos ws).map (fun (j, w) => slice j w (W.lanes.getD i 0)) ∧
    slice (r * sumW ws) pw (encStrideUp r pw rev ws W) = W.param % 2 ^ pw := by
  have hlenP : (phys rev W.lanes).length = r := by cases rev <;> simp [phys, hW]
  have hn : (if rev then r - 1 - i else i) < (phys rev W.lanes).length := by rw [hlenP]; split <;> omega
  have hlt : strideOut ws (phys rev W.lanes) < 2 ^ (r * sumW ws) := by
    have := strideOut_lt ws (phys rev W.lanes); rwa [hlenP] at this
  constructor
  · have hf := strideOut_field ws (phys rev W.lanes) _ hn
    rw [hlenP] at hf
    have hg := phys_getD rev W.lanes i (by omega)
    rw [hW] at hg
    rw [hg] at hf
    rw [← hf]
    apply List.map_congr_left
    intro p hp
    obtain ⟨j, w⟩ := p
    have hb := fieldPos_bounds ws 0 (j, w) (by simpa [fieldPos] using hp)
    simp only at hb ⊢
    congr 1
    unfold encStrideUp
    apply slice_add_high
    calc r * j + r * w = r * (j + w) := by ring
      _ ≤ r * sumW ws := Nat.mul_le_mul_left r (by omega)
  · unfold encStrideUp
    have := slice_shift 0 pw (r * sumW ws) _ (W.param % 2 ^ pw) hlt
    rw [Nat.add_zero] at this
    rw [this, slice_zero, trunc, Nat.mod_mod]

end Litex.Stream
