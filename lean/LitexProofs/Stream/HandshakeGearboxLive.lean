import LitexProofs.Stream.HandshakeGearbox
import LitexProofs.Stream.HandshakeLive
/-
  C04 — the Gearbox is a member of the composition-closed class `Live`/`Good` for every pair of widths
  (`io_lcm ≥ 2·max(i, o)`): while the source word is incomplete (`level < o`) there is room for a sink word, and the
  number of sink words still missing (`gbMu = ⌈(o − level)/i⌉`) never increases while the source is not valid.
-/
namespace Litex.Stream
open Elem
variable {α : Type}

theorem gearbox_live (L i o : Nat) (hi : 0 < i) (ho : 0 < o) (hiL : i ∣ L) (hoL : o ∣ L)
    (h2i : 2 * i ≤ L) (h2o : 2 * o ≤ L) (z : α) :
    Live (gearbox L i o z) (gbInv L i o z) (gbMu i o) ((o + (i - 1)) / i) where
  inv_step := gbInv_step L i o hi ho hiL hoL z
  bound := (gearbox_measure L i o hi ho hiL hoL h2i h2o z).bound
  off s x _ hv := by
    obtain ⟨xv, xt, xr⟩ := x
    simp only at hv; subst hv
    by_cases hval : o ≤ s.level
    · left; simp [gearbox, hval]
    · right
      have hroom : s.level + i < L := by omega
      have hlev' : ((gearbox L i o z).step s ⟨true, xt, xr⟩).level = s.level + i := by
        simp [gearbox, Elem.step, hroom, hval]
      unfold gbMu
      rw [hlev']
      by_cases hx : i ≤ o - s.level
      · have e1 : o - s.level + (i - 1) = (o - (s.level + i) + (i - 1)) + i := by omega
        rw [e1, Nat.add_div_right _ hi]
        exact Nat.lt_succ_self _
      · have e0 : o - (s.level + i) = 0 := by omega
        have hlt : (0 + (i - 1)) / i = 0 := Nat.div_eq_of_lt (by omega)
        have e1 : o - s.level + (i - 1) = (o - s.level - 1) + i := by omega
        rw [e0, hlt, e1, Nat.add_div_right _ hi]
        exact Nat.succ_pos _
  mono s x _ := by
    obtain ⟨xv, xt, xr⟩ := x
    by_cases hval : o ≤ s.level
    · left; simp [gearbox, hval]
    · right
      have hlev' : s.level ≤ ((gearbox L i o z).step s ⟨xv, xt, xr⟩).level := by
        simp only [gearbox, Elem.step, hval, decide_false, Bool.false_and, Bool.not_false, Bool.and_true,
          Bool.and_false]
        split <;> simp <;> omega
      unfold gbMu
      exact Nat.div_le_div_right (by omega)

theorem gearbox_good (i o : Nat) (hi : 0 < i) (ho : 0 < o) (z : α) :
    Good (gearbox (ioLcm i o) i o z) (gbInv (ioLcm i o) i o z) (gbMu i o) ((o + (i - 1)) / i) := by
  obtain ⟨hiL, hoL, h2i, h2o⟩ := ioLcm_facts i o hi ho
  exact ⟨gearbox_stepStable _ i o hi ho hiL hoL z, gearbox_live _ i o hi ho hiL hoL h2i h2o z⟩

end Litex.Stream
