import LitexProofs.Stream.HandshakeComp
import LitexProofs.Stream.HandshakeBasic
import LitexProofs.Stream.HandshakeConv
import LitexModel.Stream.Glue
/-
  C04 — the class `Live` of stream elements, closed under serial composition.

  `Live e Inv μ B`: `Inv` is inductive, `μ ≤ B` on `Inv`, and
    * `off`  — in every cycle in which the producer offers (valid = 1, ANY `source.ready`) the element offers on its
               source or `μ` strictly decreases (it answers a steady supply with an offer within `B + 1` cycles);
    * `mono` — in every cycle in which the element does NOT offer (any inputs) `μ` does not increase.
  One measure serves for both sides of `OfferMeasure.comp`: `Live` implies `OfferMeasure`, `DelMeasure` and `IdleMono`
  with the same `μ` (a delivery is an offer under a ready consumer), and `Live.comp` shows that `a ⟫ b` is again `Live`
  with `μ = μ_b·(B_a + 1) + μ_a`, `B = (B_b + 1)·(B_a + 1) − 1` — so the offer/measure side condition of
  `compose_progress_general` is discharged automatically for every pipeline whose members have a per-class lemma
  `X_live` below: PipeValid, PipeReady, wire/connect, SyncFIFO, SyncFIFOBuffered, _UpConverter/Pack,
  StrideConverter(up), _DownConverter/Unpack, Cast.  `Good` = `StepStable` + `Live`: stability and progress together.
-/
namespace Litex.Stream
namespace Elem
variable {α β γ σ τ : Type}

structure Live (e : Elem α β σ) (Inv : σ → Prop) (μ : σ → Nat) (B : Nat) : Prop where
  inv_step : ∀ s i, Inv s → Inv (e.step s i)
  bound : ∀ s, Inv s → μ s ≤ B
  off : ∀ s i, Inv s → i.valid = true → (e.fwd s true i.tok).1 = true ∨ μ (e.step s i) < μ s
  mono : ∀ s i, Inv s → (e.fwd s i.valid i.tok).1 = true ∨ μ (e.step s i) ≤ μ s

theorem Live.offer {e : Elem α β σ} {Inv : σ → Prop} {μ : σ → Nat} {B : Nat} (h : Live e Inv μ B) :
    OfferMeasure e Inv μ B where
  inv_step := h.inv_step
  bound := h.bound
  dec := h.off

theorem Live.measure {e : Elem α β σ} {Inv : σ → Prop} {μ : σ → Nat} {B : Nat} (h : Live e Inv μ B) :
    DelMeasure e Inv μ B where
  inv_step := h.inv_step
  bound := h.bound
  dec s i hs hc := by
    obtain ⟨hv, hr⟩ := hc
    rcases h.off s i hs hv with ho | hd
    · left
      have : (e.out s i).valid = true := by
        show (e.fwd s i.valid i.tok).1 = true
        rw [hv]; exact ho
      simp [delNow, this, hr]
    · exact Or.inr hd

theorem Live.idleMono {e : Elem α β σ} {Inv : σ → Prop} {μ : σ → Nat} {B : Nat} (h : Live e Inv μ B) :
    IdleMono e Inv μ := by
  intro s i hs hr
  rcases h.mono s i hs with ho | hm
  · left
    have : (e.out s i).valid = true := ho
    simp [delNow, this, hr]
  · exact Or.inr hm

/-- **No livelock for every `Live` element**: a delivery at least every `B + 1` cooperative cycles, from every
    reachable state. -/
theorem Live.delivers {e : Elem α β σ} {Inv : σ → Prop} {μ : σ → Nat} {B : Nat} (h : Live e Inv μ B)
    (h0 : Inv e.init) : DeliversWithin e (B + 1) :=
  h.measure.delivers h0

/-- **`Live` is closed under `⟫`.** -/
theorem Live.comp {a : Elem α β σ} {b : Elem β γ τ} {Ia : σ → Prop} {Ib : τ → Prop}
    {μa : σ → Nat} {Ba : Nat} {μb : τ → Nat} {Bb : Nat} (ha : Live a Ia μa Ba) (hb : Live b Ib μb Bb) :
    Live (a.comp b) (fun s => Ia s.1 ∧ Ib s.2) (fun s => μb s.2 * (Ba + 1) + μa s.1) (Bb * (Ba + 1) + Ba) where
  inv_step s i h := by
    rw [comp_step]
    exact ⟨ha.inv_step s.1 _ h.1, hb.inv_step s.2 _ h.2⟩
  bound s h := by
    have h1 := ha.bound s.1 h.1
    have h2 : μb s.2 * (Ba + 1) ≤ Bb * (Ba + 1) := Nat.mul_le_mul_right _ (hb.bound s.2 h.2)
    show μb s.2 * (Ba + 1) + μa s.1 ≤ Bb * (Ba + 1) + Ba
    omega
  off s i h hv := by
    show (b.fwd s.2 (a.fwd s.1 true i.tok).1 (a.fwd s.1 true i.tok).2).1 = true ∨
      μb ((a.comp b).step s i).2 * (Ba + 1) + μa ((a.comp b).step s i).1 < μb s.2 * (Ba + 1) + μa s.1
    rw [comp_step]
    show _ ∨ μb (b.step s.2 (compInB a b s i)) * (Ba + 1) + μa (a.step s.1 (compInA a b s i)) <
      μb s.2 * (Ba + 1) + μa s.1
    have hνb : μa (a.step s.1 (compInA a b s i)) ≤ Ba := ha.bound _ (ha.inv_step s.1 _ h.1)
    have hBv : (compInB a b s i).valid = (a.fwd s.1 true i.tok).1 := by
      show (a.fwd s.1 i.valid i.tok).1 = _
      rw [hv]
    have hBt : (compInB a b s i).tok = (a.fwd s.1 true i.tok).2 := by
      show (a.fwd s.1 i.valid i.tok).2 = _
      rw [hv]
    rcases ha.off s.1 (compInA a b s i) h.1 hv with hoff | hdec
    · -- `a` offers: `b` is offered a token
      have hoff' : (a.fwd s.1 true i.tok).1 = true := hoff
      rcases hb.off s.2 (compInB a b s i) h.2 (by rw [hBv]; exact hoff') with h1 | h1
      · left
        rw [hBt] at h1
        rw [hoff']
        exact h1
      · right
        have h2 : (μb (b.step s.2 (compInB a b s i)) + 1) * (Ba + 1) ≤ μb s.2 * (Ba + 1) :=
          Nat.mul_le_mul_right _ h1
        rw [Nat.succ_mul] at h2
        omega
    · -- `a` is still working towards an offer
      rcases hb.mono s.2 (compInB a b s i) h.2 with h1 | h1
      · left
        rw [hBv, hBt] at h1
        exact h1
      · right
        have h2 : μb (b.step s.2 (compInB a b s i)) * (Ba + 1) ≤ μb s.2 * (Ba + 1) := Nat.mul_le_mul_right _ h1
        have hdec' : μa (a.step s.1 (compInA a b s i)) < μa s.1 := hdec
        omega
  mono s i h := by
    show (b.fwd s.2 (compInB a b s i).valid (compInB a b s i).tok).1 = true ∨
      μb ((a.comp b).step s i).2 * (Ba + 1) + μa ((a.comp b).step s i).1 ≤ μb s.2 * (Ba + 1) + μa s.1
    rw [comp_step]
    show _ ∨ μb (b.step s.2 (compInB a b s i)) * (Ba + 1) + μa (a.step s.1 (compInA a b s i)) ≤
      μb s.2 * (Ba + 1) + μa s.1
    have hνb : μa (a.step s.1 (compInA a b s i)) ≤ Ba := ha.bound _ (ha.inv_step s.1 _ h.1)
    cases hm : (compInB a b s i).valid with
    | true =>
      -- `a` offers to `b`: `b` offers or its measure strictly drops
      rcases hb.off s.2 (compInB a b s i) h.2 hm with h1 | h1
      · left; exact h1
      · right
        have h2 : (μb (b.step s.2 (compInB a b s i)) + 1) * (Ba + 1) ≤ μb s.2 * (Ba + 1) :=
          Nat.mul_le_mul_right _ h1
        rw [Nat.succ_mul] at h2
        omega
    | false =>
      rcases hb.mono s.2 (compInB a b s i) h.2 with h1 | h1
      · left; rw [hm] at h1; exact h1
      · right
        have h2 : μb (b.step s.2 (compInB a b s i)) * (Ba + 1) ≤ μb s.2 * (Ba + 1) := Nat.mul_le_mul_right _ h1
        rcases ha.mono s.1 (compInA a b s i) h.1 with h3 | h3
        · have : (compInB a b s i).valid = true := h3
          rw [hm] at this; cases this
        · omega

/-- Transport along an equivalent invariant. -/
theorem Live.congr {e : Elem α β σ} {Inv Inv' : σ → Prop} {μ : σ → Nat} {B : Nat}
    (h : Live e Inv μ B) (hiff : ∀ s, Inv' s ↔ Inv s) : Live e Inv' μ B where
  inv_step s i hs := (hiff _).2 (h.inv_step s i ((hiff s).1 hs))
  bound s hs := h.bound s ((hiff s).1 hs)
  off s i hs hv := h.off s i ((hiff s).1 hs) hv
  mono s i hs := h.mono s i ((hiff s).1 hs)

/-- Stability and progress together. -/
structure Good (e : Elem α β σ) (Inv : σ → Prop) (μ : σ → Nat) (B : Nat) : Prop where
  stable : StepStable e Inv
  live : Live e Inv μ B

theorem Good.comp {a : Elem α β σ} {b : Elem β γ τ} {Ia : σ → Prop} {Ib : τ → Prop}
    {μa : σ → Nat} {Ba : Nat} {μb : τ → Nat} {Bb : Nat} (ha : Good a Ia μa Ba) (hb : Good b Ib μb Bb) :
    Good (a.comp b) (fun s => Ia s.1 ∧ Ib s.2) (fun s => μb s.2 * (Ba + 1) + μa s.1) (Bb * (Ba + 1) + Ba) :=
  ⟨ha.stable.comp hb.stable, ha.live.comp hb.live⟩

theorem Good.keepsContract {e : Elem α β σ} {Inv : σ → Prop} {μ : σ → Nat} {B : Nat} (h : Good e Inv μ B)
    (h0 : Inv e.init) : KeepsContract e :=
  keepsContract_of_stepStable h.stable h0

theorem Good.delivers {e : Elem α β σ} {Inv : σ → Prop} {μ : σ → Nat} {B : Nat} (h : Good e Inv μ B)
    (h0 : Inv e.init) : DeliversWithin e (B + 1) :=
  h.live.delivers h0

end Elem

open Elem
variable {α π : Type}

/-! ### Per-class lemmas -/

theorem wire_live : Live (wire (α := α)) (fun _ => True) (fun _ => 0) 0 where
  inv_step _ _ _ := trivial
  bound _ _ := Nat.le_refl _
  off _ _ _ _ := Or.inl rfl
  mono _ _ _ := Or.inr (Nat.le_refl _)

theorem mapElem_live {β : Type} (f : α → β) : Live (mapElem f) (fun _ => True) (fun _ => 0) 0 where
  inv_step _ _ _ := trivial
  bound _ _ := Nat.le_refl _
  off _ _ _ _ := Or.inl rfl
  mono _ _ _ := Or.inr (Nat.le_refl _)

theorem pipeValid_live (z : Tok α) : Live (pipeValid z) (fun _ => True) (fun s => if s.valid then 0 else 1) 1 where
  inv_step _ _ _ := trivial
  bound s _ := by split <;> omega
  off s i _ hv := by
    obtain ⟨sv, st⟩ := s
    obtain ⟨iv, it, ir⟩ := i
    simp only at hv; subst hv
    cases sv <;> simp [pipeValid, Elem.step]
  mono s i _ := by
    obtain ⟨sv, st⟩ := s
    obtain ⟨iv, it, ir⟩ := i
    cases sv <;> cases iv <;> simp [pipeValid, Elem.step]

theorem pipeReady_live (z : Tok α) : Live (pipeReady z) prInv (fun _ => 0) 0 where
  inv_step := pipeReady_inv_step z
  bound _ _ := Nat.le_refl _
  off s i hs _ := by
    obtain ⟨sv, sdv, st⟩ := s
    unfold prInv at hs
    left
    cases sv <;> simp_all [pipeReady]
  mono _ _ _ := Or.inr (Nat.le_refl _)

theorem syncFifo_live (depth : Nat) (hd : 0 < depth) (z : Tok α) :
    Live (syncFifo depth z) (fifoInv depth) (fun q => if q.isEmpty then 1 else 0) 1 where
  inv_step := syncFifo_inv_step depth z
  bound q _ := by split <;> omega
  off q i _ hv := by
    obtain ⟨iv, it, ir⟩ := i
    simp only at hv; subst hv
    cases q with
    | nil =>
      have h0 : ¬ (0 = depth) := by omega
      right
      cases ir <;> simp [syncFifo, Elem.step, h0]
    | cons x xs => left; simp [syncFifo]
  mono q i _ := by
    cases q with
    | nil => right; simp; split <;> omega
    | cons x xs => left; simp [syncFifo]

theorem syncFifoBuffered_live (depth : Nat) (hd : 1 ≤ depth) (z : Tok α) :
    Live (syncFifoBuffered depth z) (fbInv depth)
      (fun s => if s.readable then 0 else if s.q.isEmpty then 2 else 1) 2 where
  inv_step := syncFifoBuffered_inv_step depth hd z
  bound s _ := by split <;> (try split) <;> omega
  off := (syncFifoBuffered_offer depth hd z).dec
  mono s i _ := by
    obtain ⟨iv, it, ir⟩ := i
    obtain ⟨q, rd, dout⟩ := s
    cases rd with
    | true => left; simp [syncFifoBuffered]
    | false =>
      right
      cases q with
      | nil =>
        simp only [syncFifoBuffered, Elem.step]
        simp
        split <;> (try split) <;> omega
      | cons x xs => simp [syncFifoBuffered, Elem.step]

theorem upConv_live (r : Nat) (hr : 0 < r) (z : α) (p0 : π) : Live (upConv r z p0) (upInv r) (upMu r) r where
  inv_step := upConv_inv_step r hr z p0
  bound := (upConv_offer r hr z p0).bound
  off := (upConv_offer r hr z p0).dec
  mono s i hs := by
    obtain ⟨iv, it, ir⟩ := i
    unfold upInv at hs
    unfold upMu
    cases hst : s.strobe with
    | true => left; simp [upConv, hst]
    | false =>
      right
      simp only [upConv, Elem.step, hst]
      cases iv with
      | false => cases ir <;> simp
      | true =>
        by_cases hd : (s.demux + 1 == r || it.last) = true
        · cases ir <;> simp [hd]
        · simp only [Bool.not_eq_true] at hd
          cases ir <;> simp [hd] <;> omega

theorem downConv_live (r : Nat) (hr : 0 < r) (z : α) : Live (downConv (π := π) r z) (downInv r) (fun _ => 0) 0 where
  inv_step := downConv_inv_step r hr z
  bound _ _ := Nat.le_refl _
  off _ _ _ _ := Or.inl rfl
  mono _ _ _ := Or.inr (Nat.le_refl _)

theorem downConvV_live (r : Nat) (hr : 0 < r) (z : α) : Live (downConvV (π := π) r z) (downInv r) (fun _ => 0) 0 where
  inv_step := downConv_inv_step r hr z
  bound _ _ := Nat.le_refl _
  off _ _ _ _ := Or.inl rfl
  mono _ _ _ := Or.inr (Nat.le_refl _)


/-! ### `Good` per class (stability with the invariant of the liveness lemma) -/

theorem Elem.StepStable.strengthen {β σ : Type} {e : Elem α β σ} {Inv : σ → Prop} (h : StepStable e (fun _ => True))
    (hstep : ∀ s i, Inv s → Inv (e.step s i)) : StepStable e Inv where
  inv_step := hstep
  hold s i i' _ hin := h.hold s i i' trivial hin

theorem wire_good : Good (wire (α := α)) (fun _ => True) (fun _ => 0) 0 := ⟨wire_stepStable, wire_live⟩

theorem mapElem_good {β : Type} (f : α → β) : Good (mapElem f) (fun _ => True) (fun _ => 0) 0 :=
  ⟨mapElem_stepStable f, mapElem_live f⟩

theorem pipeValid_good (z : Tok α) : Good (pipeValid z) (fun _ => True) (fun s => if s.valid then 0 else 1) 1 :=
  ⟨pipeValid_stepStable z, pipeValid_live z⟩

theorem pipeReady_good (z : Tok α) : Good (pipeReady z) prInv (fun _ => 0) 0 :=
  ⟨pipeReady_stepStable z, pipeReady_live z⟩

theorem syncFifo_good (depth : Nat) (hd : 0 < depth) (z : Tok α) :
    Good (syncFifo depth z) (fifoInv depth) (fun q => if q.isEmpty then 1 else 0) 1 :=
  ⟨syncFifo_stepStable depth z, syncFifo_live depth hd z⟩

theorem syncFifoBuffered_good (depth : Nat) (hd : 1 ≤ depth) (z : Tok α) :
    Good (syncFifoBuffered depth z) (fbInv depth)
      (fun s => if s.readable then 0 else if s.q.isEmpty then 2 else 1) 2 :=
  ⟨syncFifoBuffered_stepStable depth hd z, syncFifoBuffered_live depth hd z⟩

theorem upConv_good (r : Nat) (hr : 0 < r) (z : α) (p0 : π) : Good (upConv r z p0) (upInv r) (upMu r) r :=
  ⟨(upConv_stepStable r z p0).strengthen (upConv_inv_step r hr z p0), upConv_live r hr z p0⟩

theorem downConv_good (r : Nat) (hr : 0 < r) (z : α) : Good (downConv (π := π) r z) (downInv r) (fun _ => 0) 0 :=
  ⟨(downConv_stepStable r z).strengthen (downConv_inv_step r hr z), downConv_live r hr z⟩

/-- The count flag of `_DownConverter` is a function of `mux`, which is frozen while a sub-word waits. -/
theorem downConvV_stepStable (r : Nat) (z : α) : StepStable (downConvV (π := π) r z) (fun _ => True) where
  inv_step _ _ _ := trivial
  hold s i i' _ hin := by
    intro hv hrd
    have h := (downConv_stepStable (π := π) r z).hold s i i' trivial hin hv hrd
    have hst : (downConvV (π := π) r z).step s i = s := by
      show (if (i.valid && i.ready) = true then (if (s + 1 == r) = true then 0 else s + 1) else s) = s
      rw [hrd]; simp
    have hst' : (downConv (π := π) r z).step s i = s := hst
    rw [hst'] at h
    rw [hst]
    refine ⟨h.1, ?_⟩
    have h2 := h.2
    show ({ data := (((downConv r z).fwd s i'.valid i'.tok).2.data, s + 1 == r),
            first := ((downConv r z).fwd s i'.valid i'.tok).2.first,
            last := ((downConv r z).fwd s i'.valid i'.tok).2.last } : Tok ((α × π) × Bool)) =
         { data := (((downConv r z).fwd s i.valid i.tok).2.data, s + 1 == r),
           first := ((downConv r z).fwd s i.valid i.tok).2.first,
           last := ((downConv r z).fwd s i.valid i.tok).2.last }
    have h3 : ((downConv (π := π) r z).fwd s i'.valid i'.tok).2 = ((downConv (π := π) r z).fwd s i.valid i.tok).2 := h2
    rw [h3]

theorem downConvV_good (r : Nat) (hr : 0 < r) (z : α) :
    Good (downConvV (π := π) r z) (downInv r) (fun _ => 0) 0 :=
  ⟨(downConvV_stepStable r z).strengthen (downConv_inv_step r hr z), downConvV_live r hr z⟩


/-- StrideConverter (up): the control path is that of the inner `_UpConverter`. -/
theorem strideUp_live (r : Nat) (hr : 0 < r) (z : α) (p0 : π) :
    Live (strideUp r z p0) (fun s => upInv r s.1) (fun s => upMu r s.1) r where
  inv_step s i h := strideUp_inv_step r hr z p0 s i h
  bound s hs := (upConv_live r hr z ()).bound s.1 hs
  off s i hs hv :=
    (upConv_live r hr z ()).off s.1 ⟨i.valid, ⟨(i.tok.data.1, ()), i.tok.first, i.tok.last⟩, i.ready⟩ hs hv
  mono s i hs :=
    (upConv_live r hr z ()).mono s.1 ⟨i.valid, ⟨(i.tok.data.1, ()), i.tok.first, i.tok.last⟩, i.ready⟩ hs

theorem strideUp_good (r : Nat) (hr : 0 < r) (z : α) (p0 : π) :
    Good (strideUp r z p0) (fun s => upInv r s.1) (fun s => upMu r s.1) r :=
  ⟨(strideUp_stepStable r z p0).strengthen (fun s i h => strideUp_inv_step r hr z p0 s i h), strideUp_live r hr z p0⟩

/-! ### Pipelines over an arbitrary LIST of stages (`stream.Pipeline(m_1, …, m_n)`): induction over the list -/

/-- The depth side condition of a stage (`SyncFIFO` instantiates the Migen FIFOs for depth ≥ 2 only). -/
def stageOk : Stage → Prop
  | .fifo d => 0 < d
  | .fifoB d => 1 ≤ d
  | _ => True

def stageInv : (st : Stage) → StageState α st → Prop
  | .wire, _ => True
  | .pv, _ => True
  | .pr, s => prInv s
  | .fifo d, s => fifoInv d s
  | .fifoB d, s => fbInv d s

def stageMu : (st : Stage) → StageState α st → Nat
  | .wire, _ => 0
  | .pv, s => let s' : PVState α := s; if s'.valid then 0 else 1
  | .pr, _ => 0
  | .fifo _, s => let q : List (Tok α) := s; if q.isEmpty then 1 else 0
  | .fifoB _, s => let s' : FBState α := s; if s'.readable then 0 else if s'.q.isEmpty then 2 else 1

/-- Delivery window of one stage minus one. -/
def stageB : Stage → Nat
  | .wire => 0
  | .pv => 1
  | .pr => 0
  | .fifo _ => 1
  | .fifoB _ => 2

theorem stage_stepStable (z : Tok α) : ∀ st : Stage, stageOk st → StepStable (stageElem z st) (stageInv st)
  | .wire, _ => wire_stepStable
  | .pv, _ => pipeValid_stepStable z
  | .pr, _ => pipeReady_stepStable z
  | .fifo d, _ => syncFifo_stepStable d z
  | .fifoB d, h => syncFifoBuffered_stepStable d h z

theorem stage_live (z : Tok α) : ∀ st : Stage, stageOk st → Live (stageElem z st) (stageInv st) (stageMu st) (stageB st)
  | .wire, _ => wire_live
  | .pv, _ => pipeValid_live z
  | .pr, _ => pipeReady_live z
  | .fifo d, h => syncFifo_live d h z
  | .fifoB d, h => syncFifoBuffered_live d h z

theorem stageInv_init (z : Tok α) : ∀ st : Stage, stageInv st (stageElem z st).init
  | .wire => trivial
  | .pv => trivial
  | .pr => by simp [stageInv, stageElem, prInv, pipeReady]
  | .fifo d => by simp [stageInv, stageElem, fifoInv, syncFifo]
  | .fifoB d => by simp [stageInv, stageElem, fbInv, syncFifoBuffered]

def pipeInv : (l : List Stage) → PipeState α l → Prop
  | [], _ => True
  | st :: l, s => stageInv st s.1 ∧ pipeInv l s.2

def pipeMu : (l : List Stage) → PipeState α l → Nat
  | [], _ => 0
  | st :: l, s => pipeMu l s.2 * (stageB st + 1) + stageMu st s.1

/-- `pipeB l + 1 = ∏ (stageB st + 1)`: the delivery window of the pipeline. -/
def pipeB : List Stage → Nat
  | [] => 0
  | st :: l => pipeB l * (stageB st + 1) + stageB st

theorem pipeInv_init (z : Tok α) : ∀ l : List Stage, pipeInv l (stages z l).init
  | [] => trivial
  | st :: l => ⟨stageInv_init z st, pipeInv_init z l⟩

/-- **Every pipeline of stages is `Good`** — stable and live — by induction over the stage list. -/
theorem stages_good (z : Tok α) : ∀ l : List Stage, (∀ st ∈ l, stageOk st) →
    Good (stages z l) (pipeInv l) (pipeMu l) (pipeB l)
  | [], _ => ⟨wire_stepStable, wire_live⟩
  | st :: l, h =>
    Good.comp ⟨stage_stepStable z st (h st (by simp)), stage_live z st (h st (by simp))⟩
      (stages_good z l (fun x hx => h x (by simp [hx])))

/-- `sink.ready` follows `source.ready` through every pipeline of PipeValid / connect stages (`Delay`, `Buffer(v)`). -/
def stageRT : Stage → Prop
  | .wire => True
  | .pv => True
  | _ => False

theorem stages_readyTransparent (z : Tok α) : ∀ l : List Stage, (∀ st ∈ l, stageRT st) →
    ReadyTransparent (stages z l) (pipeInv l)
  | [], _ => wire_readyTransparent
  | .wire :: l, h =>
    ReadyTransparent.comp (Ia := fun _ => True) (Ib := pipeInv l) wire_readyTransparent
      (stages_readyTransparent z l (fun x hx => h x (by simp [hx])))
  | .pv :: l, h =>
    ReadyTransparent.comp (Ia := fun _ => True) (Ib := pipeInv l)
      (fun s v t _ => (pipeValid_back z).ready s v t trivial)
      (stages_readyTransparent z l (fun x hx => h x (by simp [hx])))
  | .pr :: _, h => (h .pr (by simp)).elim
  | .fifo d :: _, h => (h (.fifo d) (by simp)).elim
  | .fifoB d :: _, h => (h (.fifoB d) (by simp)).elim

/-! ### The stage selections of Buffer / SyncFIFO / Delay / same-domain ClockDomainCrossing are always legal -/

theorem bufferStages_ok (pv pr : Bool) : ∀ st ∈ bufferStages pv pr, stageOk st := by
  intro st h
  cases pv <;> cases pr <;> simp [bufferStages] at h
  · subst h; trivial
  · subst h; trivial
  · rcases h with h | h <;> subst h <;> trivial

theorem syncFifoStages_ok (depth : Nat) (buffered : Bool) : ∀ st ∈ syncFifoStages depth buffered, stageOk st := by
  intro st h
  unfold syncFifoStages at h
  by_cases h2 : depth ≥ 2
  · simp only [h2, if_true, List.mem_singleton] at h
    subst h
    cases buffered <;> simp [stageOk] <;> omega
  · simp only [h2, if_false] at h
    by_cases h1 : depth = 1
    · simp only [h1, if_true] at h
      exact bufferStages_ok true false st h
    · simp [h1] at h

theorem delayStages_ok (n : Nat) : ∀ st ∈ delayStages n, stageOk st := by
  intro st h
  simp only [delayStages, List.mem_flatten, List.mem_replicate] at h
  obtain ⟨l, ⟨_, hl⟩, hst⟩ := h
  subst hl
  exact bufferStages_ok true false st hst

theorem cdcSameStages_ok (b : Bool) : ∀ st ∈ cdcSameStages b, stageOk st := by
  intro st h
  cases b
  · simp [cdcSameStages] at h
  · exact bufferStages_ok true false st (by simpa [cdcSameStages] using h)

theorem delayStages_rt (n : Nat) : ∀ st ∈ delayStages n, stageRT st := by
  intro st h
  simp only [delayStages, List.mem_flatten, List.mem_replicate] at h
  obtain ⟨l, ⟨_, hl⟩, hst⟩ := h
  subst hl
  simp [bufferStages] at hst
  subst hst
  trivial

/-! ### BufferizeEndpoints around ANY `Good` element -/

theorem bufferize_good {β σ : Type} (bs bd pv pr : Bool) (zi : Tok α) (zo : Tok β) {e : Elem α β σ}
    {Inv : σ → Prop} {μ : σ → Nat} {B : Nat} (he : Good e Inv μ B) :
    ∃ (I : _ → Prop) (m : _ → Nat) (K : Nat), Good (bufferize bs bd pv pr zi zo e) I m K ∧
      (Inv e.init → I (bufferize bs bd pv pr zi zo e).init) ∧
      K + 1 = (pipeB (if bd then bufferStages pv pr else []) + 1) * (B + 1) *
              (pipeB (if bs then bufferStages pv pr else []) + 1) := by
  have hs : ∀ st ∈ (if bs then bufferStages pv pr else []), stageOk st := by
    intro st h; cases bs
    · simp at h
    · exact bufferStages_ok pv pr st (by simpa using h)
  have hd : ∀ st ∈ (if bd then bufferStages pv pr else []), stageOk st := by
    intro st h; cases bd
    · simp at h
    · exact bufferStages_ok pv pr st (by simpa using h)
  refine ⟨_, _, _, Good.comp (stages_good zi _ hs) (Good.comp he (stages_good zo _ hd)), ?_, ?_⟩
  · intro h0
    exact ⟨pipeInv_init zi _, h0, pipeInv_init zo _⟩
  · generalize pipeB (if bd then bufferStages pv pr else []) = X
    generalize pipeB (if bs then bufferStages pv pr else []) = Y
    have e1 : (X + 1) * (B + 1) = X * (B + 1) + B + 1 := by rw [Nat.succ_mul]; omega
    have e2 : (X * (B + 1) + B + 1) * (Y + 1) = (X * (B + 1) + B) * (Y + 1) + Y + 1 := by
      rw [show X * (B + 1) + B + 1 = (X * (B + 1) + B) + 1 from rfl, Nat.succ_mul]; omega
    rw [e1, e2]

end Litex.Stream
