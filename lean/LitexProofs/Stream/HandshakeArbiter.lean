import LitexProofs.Packet.Fair
import LitexProofs.RoundRobin
/-
  C04 for `packet.Arbiter` (model of b-c16, round-robin lemmas of b-c06 / b-c16):
  stability of the slave side under a contract-keeping granted master, progress when every master offers, and no
  starvation: when every master offers single-beat packets each master is served within `n` cycles.
-/
namespace Litex.Packet
open Litex Litex.Stream

/-- Every master `j < n` offers a beat carrying `last`, the slave is ready. -/
def AllOfferLast (n : Nat) (i : ArbIn) : Prop :=
  i.ready = true ∧ ∀ j, j < n → (i.masters.getD j Beat.idle).valid = true ∧ (i.masters.getD j Beat.idle).last = true

/-- **Stability.**  While the slave stalls an offered beat (`slave.valid ∧ ¬slave.ready`) the grant does not move
    (the granted master's `Status.ongoing` keeps its request up), so if that master re-offers its beat unchanged —
    the stream contract: its `ready` was low — the slave sees the same beat again. -/
theorem arbiter_hold (n : Nat) (hn : 2 ≤ n) (s : ArbState) (hg : s.grant < n) (i i' : ArbIn)
    (hv : ((arbiter n).out s i).slave.valid = true) (hr : i.ready = false)
    (hprod : i'.masters.getD s.grant Beat.idle = i.masters.getD s.grant Beat.idle) :
    ((arbiter n).next s i).grant = s.grant ∧
    ((arbiter n).out ((arbiter n).next s i) i').slave = ((arbiter n).out s i).slave := by
  have hval : (i.masters.getD s.grant Beat.idle).valid = true := by
    simpa [arbiter, hg] using hv
  have hreq : arbRequest s i s.grant = true := by
    simp only [List.getD_eq_getElem?_getD] at hval
    simp [arbRequest, arbStatusIn, status, StatusIn.lastHs, hval, hr]
  have hnext : ((arbiter n).next s i).grant = s.grant := by
    show RoundRobin.next .withdraw n s.grant (fun j => decide (j < n) && arbRequest s i j) = s.grant
    exact rr_next_of_req n s.grant _ hn hg (by simp [hg, hreq])
  refine ⟨hnext, ?_⟩
  simp only [arbiter] at hnext ⊢
  simp only [hnext, hg, if_true, hprod]

/-- **Progress.**  When the granted master offers and the slave is ready, a beat is transferred in this very cycle
    (in particular whenever every master offers). -/
theorem arbiter_moves (n : Nat) (s : ArbState) (hg : s.grant < n) (i : ArbIn)
    (hv : (i.masters.getD s.grant Beat.idle).valid = true) (hr : i.ready = true) :
    ((arbiter n).out s i).slave.valid = true ∧ ((arbiter n).out s i).readys.getD s.grant false = true := by
  constructor
  · simp only [List.getD_eq_getElem?_getD] at hv
    simp [arbiter, hg, hv]
  · simp only [arbiter]
    rw [getD_map_range n s.grant _ hg]
    simp [hr]

/-- With every master offering a last beat, the pointer advances to the next master in every cycle. -/
theorem arbiter_rotates (n : Nat) (hn : 2 ≤ n) (s : ArbState) (hg : s.grant < n) (i : ArbIn)
    (h : AllOfferLast n i) : ((arbiter n).next s i).grant = (s.grant + 1) % n := by
  obtain ⟨hr, hall⟩ := h
  have hlt : (s.grant + 1) % n < n := Nat.mod_lt _ (by omega)
  have hne : (s.grant + 1) % n ≠ s.grant := by
    by_cases hw : s.grant + 1 = n
    · rw [hw, Nat.mod_self]; omega
    · rw [Nat.mod_eq_of_lt (by omega)]; omega
  have hown : arbRequest s i s.grant = false := by
    obtain ⟨h1, h2⟩ := hall s.grant hg
    simp only [List.getD_eq_getElem?_getD] at h1 h2
    simp [arbRequest, arbStatusIn, status, StatusIn.lastHs, h1, h2, hr]
  have hnxt : arbRequest s i ((s.grant + 1) % n) = true := by
    rw [arbRequest_not_granted s i _ (Ne.symm hne), (hall _ hlt).1]
    rfl
  show RoundRobin.next .withdraw n s.grant (fun j => decide (j < n) && arbRequest s i j) = (s.grant + 1) % n
  unfold RoundRobin.next RoundRobin.switch
  have h1 : ¬ n ≤ 1 := by omega
  have hfuel : n - 1 = (n - 2) + 1 := by omega
  simp only [h1, if_false, hg, if_true, hown, Bool.and_false, Bool.false_eq_true]
  rw [hfuel]
  simp [RoundRobin.scan, hlt, hnxt]

theorem dist_eq_ite (n g k : Nat) (hg : g < n) (hk : k < n) :
    RoundRobin.dist n g k = if g ≤ k then k - g else k + n - g := by
  unfold RoundRobin.dist
  split
  · have e : k + n - g = (k - g) + n := by omega
    rw [e, Nat.add_mod_right, Nat.mod_eq_of_lt (by omega)]
  · rw [Nat.mod_eq_of_lt (by omega)]

theorem succ_mod_ite (n g : Nat) (hg : g < n) : (g + 1) % n = if g + 1 = n then 0 else g + 1 := by
  split
  · rename_i h; rw [h, Nat.mod_self]
  · rw [Nat.mod_eq_of_lt (by omega)]

/-- **No starvation.**  From a state with a legal grant, if every master offers single-beat packets and the slave is
    ready in every cycle, master `k` holds the grant after exactly `dist(grant, k) ≤ n − 1` cycles — and is served in
    the following cycle (`arbiter_moves`): every master is served within `n` cycles. -/
theorem arbiter_reaches (n : Nat) (hn : 2 ≤ n) (k : Nat) (hk : k < n) :
    ∀ (d : Nat) (s : ArbState) (ins : List ArbIn), s.grant < n → RoundRobin.dist n s.grant k = d →
      ins.length = d → (∀ i ∈ ins, AllOfferLast n i) → ((arbiter n).runFrom s ins).grant = k := by
  intro d
  induction d with
  | zero =>
    intro s ins hg hd hlen _
    have : ins = [] := List.eq_nil_of_length_eq_zero hlen
    subst this
    exact RoundRobin.dist_eq_zero hg hk hd
  | succ d ih =>
    intro s ins hg hd hlen hall
    match ins, hlen with
    | i :: is, hl =>
      have hi := hall i (by simp)
      have hrot := arbiter_rotates n hn s hg i hi
      have hgk : s.grant ≠ k := by
        intro h
        rw [h, RoundRobin.dist_self n k hk] at hd
        omega
      have hg' : ((arbiter n).next s i).grant < n := by rw [hrot]; exact Nat.mod_lt _ (by omega)
      -- the requester k is waiting and the pointer moved: the distance dropped by exactly one
      have hmove : RoundRobin.dist n ((arbiter n).next s i).grant k = d := by
        have hg2 : (s.grant + 1) % n < n := Nat.mod_lt _ (by omega)
        rw [hrot, dist_eq_ite n _ k hg2 hk]
        rw [dist_eq_ite n _ k hg hk] at hd
        rw [succ_mod_ite n s.grant hg]
        split at hd <;> split <;> split <;> omega
      exact ih ((arbiter n).next s i) is hg' hmove (by simpa using hl) (fun j hj => hall j (by simp [hj]))

/-- The grant is always a master index, in every reachable state. -/
theorem arbiter_grant_lt (n : Nat) (hn : 2 ≤ n) (ins : List ArbIn) : ((arbiter n).run ins).grant < n := by
  unfold Machine.run
  exact Machine.invariant_runFrom (arbiter n) (fun s => s.grant < n)
    (fun s i hg => rr_next_lt n s.grant (fun j => decide (j < n) && arbRequest s i j) hn hg) ins _
    (by simp [arbiter]; omega)

end Litex.Packet
