import LitexModel.Stream.Basic
/-
  Step lemmas for the basic stream elements: each shows that one clock cycle preserves the element's
  history relation  `accepted = delivered ++ inflight(state)`.
-/
namespace Litex.Stream
open Elem
variable {α : Type}

/-- Tokens in flight in a `PipeValid`. -/
def PVState.inflight (s : PVState α) : List (Tok α) := if s.valid then [s.tok] else []

def pvRel (s : PVState α) (a d : List (Tok α)) : Prop := a = d ++ s.inflight

theorem pipeValid_step (z : Tok α) (s : PVState α) (a d : List (Tok α)) (i : In α)
    (h : pvRel s a d) :
    pvRel ((pipeValid z).step s i) (a ++ (pipeValid z).accNow s i) (d ++ (pipeValid z).delNow s i) := by
  obtain ⟨sv, st⟩ := s
  obtain ⟨iv, it, ir⟩ := i
  unfold pvRel at *
  subst h
  cases sv <;> cases iv <;> cases ir <;>
    simp [pipeValid, Elem.step, Elem.accNow, Elem.delNow, Elem.out, PVState.inflight]

/-- Tokens in flight in a `PipeReady`. -/
def PRState.inflight (s : PRState α) : List (Tok α) := if s.valid then [s.dtok] else []

/-- Invariant + history relation of `PipeReady`: a parked token is always a valid one. -/
def prRel (s : PRState α) (a d : List (Tok α)) : Prop :=
  (s.valid = true → s.dvalid = true) ∧ a = d ++ s.inflight

theorem pipeReady_step (z : Tok α) (s : PRState α) (a d : List (Tok α)) (i : In α)
    (h : prRel s a d) :
    prRel ((pipeReady z).step s i) (a ++ (pipeReady z).accNow s i) (d ++ (pipeReady z).delNow s i) := by
  obtain ⟨sv, sdv, st⟩ := s
  obtain ⟨iv, it, ir⟩ := i
  unfold prRel at *
  obtain ⟨h1, h2⟩ := h
  subst h2
  cases sv <;> cases sdv <;> cases iv <;> cases ir <;>
    simp_all [pipeReady, Elem.step, Elem.accNow, Elem.delNow, Elem.out, PRState.inflight]

def wireRel (_ : Unit) (a d : List (Tok α)) : Prop := a = d

theorem wire_step (s : Unit) (a d : List (Tok α)) (i : In α) (h : wireRel s a d) :
    wireRel ((wire (α := α)).step s i) (a ++ (wire (α := α)).accNow s i) (d ++ (wire (α := α)).delNow s i) := by
  obtain ⟨iv, it, ir⟩ := i
  unfold wireRel at *
  subst h
  cases iv <;> cases ir <;> simp [wire, Elem.accNow, Elem.delNow, Elem.out]

/-- SyncFIFO: the queue is exactly the in-flight tokens, and never exceeds `depth`. -/
def fifoRel (depth : Nat) (q : List (Tok α)) (a d : List (Tok α)) : Prop :=
  q.length ≤ depth ∧ a = d ++ q

theorem syncFifo_step (depth : Nat) (z : Tok α) (q : List (Tok α)) (a d : List (Tok α)) (i : In α)
    (h : fifoRel depth q a d) :
    fifoRel depth ((syncFifo depth z).step q i) (a ++ (syncFifo depth z).accNow q i)
      (d ++ (syncFifo depth z).delNow q i) := by
  obtain ⟨iv, it, ir⟩ := i
  obtain ⟨hl, h2⟩ := h
  subst h2
  unfold fifoRel
  cases q with
  | nil =>
    cases iv <;> cases ir <;>
      simp [syncFifo, Elem.step, Elem.accNow, Elem.delNow, Elem.out] <;> (try split) <;> simp_all <;> omega
  | cons x xs =>
    have hl' : xs.length + 1 ≤ depth := by simpa using hl
    by_cases hfull : xs.length + 1 = depth
    · cases iv <;> cases ir <;>
        simp [syncFifo, Elem.step, Elem.accNow, Elem.delNow, Elem.out, hfull] <;> omega
    · cases iv <;> cases ir <;>
        simp [syncFifo, Elem.step, Elem.accNow, Elem.delNow, Elem.out, hfull] <;> omega

end Litex.Stream
