import LitexModel.Stream.Glue
import LitexProofs.Stream.Pipe
/-
  Proofs about the glue models of `LitexModel/Stream/Glue.lean`: pipelines of a LIST of identity-typed stages
  (induction over the list), the stage selections of Buffer / SyncFIFO / Delay, BufferizeEndpoints around any element,
  the Converter class selection, the Monitor counters.
-/
namespace Litex.Stream
open Elem
variable {α β : Type}

/-! ### Stages -/

def stageInflight : (st : Stage) → StageState α st → List (Tok α)
  | .wire, _ => []
  | .pv, s => PVState.inflight s
  | .pr, s => PRState.inflight s
  | .fifo _, s => s
  | .fifoB _, s => FBState.inflight s

def stageRel : (st : Stage) → StageState α st → List (Tok α) → List (Tok α) → Prop
  | .wire, s, a, d => wireRel s a d
  | .pv, s, a, d => pvRel s a d
  | .pr, s, a, d => prRel s a d
  | .fifo n, s, a, d => fifoRel n s a d
  | .fifoB n, s, a, d => fbRel n s a d

theorem stage_step (z : Tok α) : ∀ (st : Stage) (s : StageState α st) (a d : List (Tok α)) (i : In α),
    stageRel st s a d →
    stageRel st ((stageElem z st).step s i) (a ++ (stageElem z st).accNow s i) (d ++ (stageElem z st).delNow s i)
  | .wire, s, a, d, i, h => wire_step s a d i h
  | .pv, s, a, d, i, h => pipeValid_step z s a d i h
  | .pr, s, a, d, i, h => pipeReady_step z s a d i h
  | .fifo n, s, a, d, i, h => syncFifo_step n z s a d i h
  | .fifoB n, s, a, d, i, h => syncFifoBuffered_step n z s a d i h

theorem stageRel_init (z : Tok α) : ∀ st : Stage, stageRel st (stageElem z st).init [] []
  | .wire => rfl
  | .pv => by simp [stageRel, stageElem, pvRel, pipeValid, PVState.inflight]
  | .pr => by simp [stageRel, stageElem, prRel, pipeReady, PRState.inflight]
  | .fifo n => by simp [stageRel, stageElem, fifoRel, syncFifo]
  | .fifoB n => by simp [stageRel, stageElem, fbRel, syncFifoBuffered, FBState.inflight]

theorem stageRel_inflight : ∀ (st : Stage) (s : StageState α st) (a d : List (Tok α)),
    stageRel st s a d → a = d ++ stageInflight st s ∧ (stageInflight st s).length ≤ stageCap st
  | .wire, _, a, d, h => ⟨by simpa [stageRel, wireRel, stageInflight] using h, by simp [stageInflight]⟩
  | .pv, s, a, d, h => ⟨h, by
      show (PVState.inflight s).length ≤ 1
      unfold PVState.inflight; split <;> simp⟩
  | .pr, s, a, d, h => ⟨h.2, by
      show (PRState.inflight s).length ≤ 1
      unfold PRState.inflight; split <;> simp⟩
  | .fifo n, s, a, d, h => ⟨h.2, h.1⟩
  | .fifoB n, s, a, d, h => ⟨h.2, by
      show (FBState.inflight s).length ≤ n + 1
      have := h.1
      unfold FBState.inflight
      split <;> simp <;> omega⟩

/-! ### Pipelines of stages -/

/-- Tokens inside a pipeline, oldest (closest to the source) first. -/
def pipeInflight : (l : List Stage) → PipeState α l → List (Tok α)
  | [], _ => []
  | st :: l, s => pipeInflight l s.2 ++ stageInflight st s.1

def pipeRel : (l : List Stage) → PipeState α l → List (Tok α) → List (Tok α) → Prop
  | [], _, a, d => a = d
  | st :: l, s, a, d => ∃ mid, stageRel st s.1 a mid ∧ pipeRel l s.2 mid d

theorem stages_step (z : Tok α) : ∀ (l : List Stage) (s : PipeState α l) (a d : List (Tok α)) (i : In α),
    pipeRel l s a d →
    pipeRel l ((stages z l).step s i) (a ++ (stages z l).accNow s i) (d ++ (stages z l).delNow s i)
  | [], s, a, d, i, h => wire_step s a d i h
  | st :: l, s, a, d, i, h =>
    comp_rel (stageElem z st) (stages z l) (stageRel st) (pipeRel l) (stage_step z st) (stages_step z l) s a d i h

theorem pipeRel_init (z : Tok α) : ∀ l : List Stage, pipeRel l (stages z l).init [] []
  | [] => rfl
  | st :: l => ⟨[], stageRel_init z st, pipeRel_init z l⟩

theorem pipeRel_inflight : ∀ (l : List Stage) (s : PipeState α l) (a d : List (Tok α)),
    pipeRel l s a d → a = d ++ pipeInflight l s ∧ (pipeInflight l s).length ≤ stagesCap l
  | [], _, a, d, h => ⟨by simpa [pipeRel, pipeInflight] using h, by simp [pipeInflight]⟩
  | st :: l, s, a, d, ⟨mid, h1, h2⟩ => by
    obtain ⟨e1, c1⟩ := stageRel_inflight st s.1 a mid h1
    obtain ⟨e2, c2⟩ := pipeRel_inflight l s.2 mid d h2
    refine ⟨?_, ?_⟩
    · rw [e1, e2, pipeInflight, List.append_assoc]
    · simp only [pipeInflight, List.length_append, stagesCap, List.map_cons, List.sum_cons] at *
      omega

theorem stagesCap_append (l1 l2 : List Stage) : stagesCap (l1 ++ l2) = stagesCap l1 + stagesCap l2 := by
  simp [stagesCap]

theorem stagesCap_buffer (pv pr : Bool) : stagesCap (bufferStages pv pr) = pv.toNat + pr.toNat := by
  cases pv <;> cases pr <;> rfl

theorem stagesCap_optBuffer (b pv pr : Bool) :
    stagesCap (if b then bufferStages pv pr else []) = if b then pv.toNat + pr.toNat else 0 := by
  cases b
  · rfl
  · simpa using stagesCap_buffer pv pr

theorem stagesCap_syncFifo (depth : Nat) (buffered : Bool) :
    stagesCap (syncFifoStages depth buffered) = depth + (if buffered && decide (2 ≤ depth) then 1 else 0) := by
  unfold syncFifoStages
  by_cases h2 : depth ≥ 2
  · cases buffered <;> simp [h2, stagesCap, stageCap]
  · by_cases h1 : depth = 1
    · subst h1; cases buffered <;> simp [stagesCap, stageCap, bufferStages]
    · have : depth = 0 := by omega
      subst this; cases buffered <;> simp [stagesCap]

theorem stagesCap_delay (n : Nat) : stagesCap (delayStages n) = n := by
  induction n with
  | zero => rfl
  | succ n ih =>
    simp only [delayStages, List.replicate_succ, List.flatten_cons] at ih ⊢
    rw [stagesCap_append, ih]
    simp [stagesCap, stageCap, bufferStages]
    omega

/-! ### Converter class selection -/

theorem two_le_div (a b : Nat) (hlt : b < a) (hd : a / b * b = a) : 2 ≤ a / b := by
  rcases Nat.lt_or_ge (a / b) 2 with h | h
  · have h1 : a / b * b ≤ 1 * b := Nat.mul_le_mul_right _ (by omega)
    rw [hd, Nat.one_mul] at h1
    omega
  · exact h

theorem converterKind_spec (nf nt : Nat) (hf : 0 < nf) (ht : 0 < nt) :
    match converterKind nf nt with
    | some (.down, r) => nf = r * nt ∧ 2 ≤ r
    | some (.up, r) => nt = r * nf ∧ 2 ≤ r
    | some (.ident, r) => nf = nt ∧ r = 1
    | none => ¬ (nt ∣ nf) ∧ ¬ (nf ∣ nt) := by
  unfold converterKind
  by_cases h1 : nf > nt
  · by_cases h2 : nf % nt = 0
    · simp only [h1, if_true, h2, bne_self_eq_false, Bool.false_eq_true, if_false]
      have hd := Nat.div_mul_cancel (Nat.dvd_of_mod_eq_zero h2)
      exact ⟨hd.symm, two_le_div nf nt h1 hd⟩
    · have hb : (nf % nt != 0) = true := by simp [h2]
      simp only [h1, if_true, hb]
      refine ⟨fun hd => h2 (Nat.mod_eq_zero_of_dvd hd), fun hd => ?_⟩
      have := Nat.le_of_dvd ht hd
      omega
  · by_cases h3 : nf < nt
    · by_cases h2 : nt % nf = 0
      · simp only [h1, if_false, h3, if_true, h2, bne_self_eq_false, Bool.false_eq_true]
        have hd := Nat.div_mul_cancel (Nat.dvd_of_mod_eq_zero h2)
        exact ⟨hd.symm, two_le_div nt nf h3 hd⟩
      · have hb : (nt % nf != 0) = true := by simp [h2]
        simp only [h1, if_false, h3, if_true, hb]
        refine ⟨fun hd => ?_, fun hd => h2 (Nat.mod_eq_zero_of_dvd hd)⟩
        have := Nat.le_of_dvd hf hd
        omega
    · simp only [h1, if_false, h3]
      exact ⟨by omega, trivial⟩

/-! ### Monitor counters -/

/-- One cycle of the specification of a counter pair `(count, latched)` under `(reset, latch, enable)`:
    `count` = number of `enable` cycles since the last `reset`, saturated at `2^w - 1`;
    `latched` = the value `count` had just before the last `latch` cycle (0 after a reset). -/
def monSpecStep (w : Nat) (c : Nat × Nat) (x : Bool × Bool × Bool) : Nat × Nat :=
  (if x.1 then 0 else if x.2.2 then min (c.1 + 1) (2 ^ w - 1) else c.1,
   if x.1 then 0 else if x.2.1 then c.1 else c.2)

/-- Specification after a history of `(reset, latch, enable)` cycles, oldest first. -/
def monSpec (w : Nat) (h : List (Bool × Bool × Bool)) : Nat × Nat := h.foldl (monSpecStep w) (0, 0)

def monRun (w : Nat) (s : MonCtr) : List (Bool × Bool × Bool) → MonCtr
  | [] => s
  | x :: xs => monRun w (monCounterNext w s x.1 x.2.1 x.2.2) xs

theorem monRun_append (w : Nat) (s : MonCtr) (xs ys : List (Bool × Bool × Bool)) :
    monRun w s (xs ++ ys) = monRun w (monRun w s xs) ys := by
  induction xs generalizing s with
  | nil => rfl
  | cons x xs ih => simp [monRun, ih]

theorem monNext_spec (w : Nat) (s : MonCtr) (x : Bool × Bool × Bool) (hb : s.count ≤ 2 ^ w - 1) :
    ((monCounterNext w s x.1 x.2.1 x.2.2).count, (monCounterNext w s x.1 x.2.1 x.2.2).latched) =
      monSpecStep w (s.count, s.latched) x ∧ (monCounterNext w s x.1 x.2.1 x.2.2).count ≤ 2 ^ w - 1 := by
  obtain ⟨xr, xl, xe⟩ := x
  have hp : 0 < 2 ^ w := Nat.two_pow_pos w
  by_cases hs : s.count = 2 ^ w - 1
  · cases xr <;> cases xl <;> cases xe <;> simp [monCounterNext, monSpecStep, hs]
  · have hlt : s.count + 1 < 2 ^ w := by omega
    have hmin : min (s.count + 1) (2 ^ w - 1) = s.count + 1 := by omega
    cases xr <;> cases xl <;> cases xe <;>
      simp [monCounterNext, monSpecStep, hs, Nat.mod_eq_of_lt hlt, hmin] <;> omega

theorem monRun_spec_from (w : Nat) : ∀ (h : List (Bool × Bool × Bool)) (s : MonCtr), s.count ≤ 2 ^ w - 1 →
    ((monRun w s h).count, (monRun w s h).latched) = h.foldl (monSpecStep w) (s.count, s.latched)
  | [], _, _ => rfl
  | x :: xs, s, hb => by
    obtain ⟨h1, h2⟩ := monNext_spec w s x hb
    rw [monRun, List.foldl_cons, ← h1]
    exact monRun_spec_from w xs _ h2

/-- The two registers follow the specification for every history. -/
theorem monCounter_spec (w : Nat) (h : List (Bool × Bool × Bool)) :
    (monRun w monCtr0 h).count = (monSpec w h).1 ∧ (monRun w monCtr0 h).latched = (monSpec w h).2 := by
  have := monRun_spec_from w h monCtr0 (by simp [monCtr0])
  exact ⟨congrArg Prod.fst this, congrArg Prod.snd this⟩

/-- The CSR status is the latched value of two cycles ago. -/
theorem monCounter_status (w : Nat) (h : List (Bool × Bool × Bool)) (x y : Bool × Bool × Bool) :
    (monRun w monCtr0 (h ++ [x, y])).m1 = (monSpec w h).2 := by
  rw [monRun_append]
  simp only [monRun, monCounterNext]
  exact (monCounter_spec w h).2


theorem monRun_count_le_from (w : Nat) : ∀ (h : List (Bool × Bool × Bool)) (s : MonCtr), s.count ≤ 2 ^ w - 1 →
    (monRun w s h).count ≤ 2 ^ w - 1
  | [], _, hb => hb
  | x :: xs, s, hb => monRun_count_le_from w xs _ (monNext_spec w s x hb).2

theorem monRun_count_le (w : Nat) (h : List (Bool × Bool × Bool)) : (monRun w monCtr0 h).count ≤ 2 ^ w - 1 :=
  monRun_count_le_from w h monCtr0 (by simp [monCtr0])

theorem monSpecStep_plain (w c l : Nat) (e : Bool) :
    monSpecStep w (c, l) (false, false, e) = (if e then min (c + 1) (2 ^ w - 1) else c, l) := by
  cases e <;> simp [monSpecStep]

theorem monSpec_count_from (w : Nat) : ∀ (es : List Bool) (c l : Nat), c + es.length ≤ 2 ^ w - 1 →
    ((es.map fun e => ((false, false, e) : Bool × Bool × Bool)).foldl (monSpecStep w) (c, l)).1 =
      c + (es.filter id).length
  | [], c, l, _ => by simp
  | e :: es, c, l, hb => by
    simp only [List.length_cons] at hb
    rw [List.map_cons, List.foldl_cons, monSpecStep_plain]
    cases e
    · rw [if_neg (by simp), monSpec_count_from w es c _ (by omega)]
      simp
    · have hm : min (c + 1) (2 ^ w - 1) = c + 1 := by omega
      rw [if_pos rfl, hm, monSpec_count_from w es (c + 1) _ (by omega)]
      simp
      omega

theorem monSpec_count_noreset (w : Nat) (es : List Bool) (hfit : es.length < 2 ^ w) :
    (monSpec w (es.map fun e => (false, false, e))).1 = (es.filter id).length := by
  have := monSpec_count_from w es 0 0 (by omega)
  simpa [monSpec] using this

theorem monitor_run_from (w : Nat) (cfg : MonCfg) (df : Bool) : ∀ (ins : List MonIn) (s : MonState),
    let s' := (monitor w cfg df).runFrom s ins
    (cfg.tokens = true → s'.tokens = monRun w s.tokens (ins.map fun i => (i.reset, i.latch, i.valid && i.ready))) ∧
    (cfg.overflows = true → s'.overflows = monRun w s.overflows (ins.map fun i => (i.reset, i.latch, i.valid && !i.ready))) ∧
    (cfg.underflows = true → s'.underflows = monRun w s.underflows (ins.map fun i => (i.reset, i.latch, !i.valid && i.ready))) ∧
    (cfg.packets = true → s'.packets = monRun w s.packets
        (ins.map fun i => (i.reset, i.latch, i.valid && (if df then i.first else i.last) && i.ready))) ∧
    (cfg.tokens = false → s'.tokens = s.tokens) ∧ (cfg.overflows = false → s'.overflows = s.overflows) ∧
    (cfg.underflows = false → s'.underflows = s.underflows) ∧ (cfg.packets = false → s'.packets = s.packets)
  | [], s => by simp [Machine.runFrom, monRun]
  | i :: is, s => by
    have ih := monitor_run_from w cfg df is ((monitor w cfg df).next s i)
    simp only [Machine.runFrom, List.map_cons, monRun] at ih ⊢
    obtain ⟨h1, h2, h3, h4, h5, h6, h7, h8⟩ := ih
    refine ⟨fun h => ?_, fun h => ?_, fun h => ?_, fun h => ?_, fun h => ?_, fun h => ?_, fun h => ?_, fun h => ?_⟩
    · rw [h1 h]; simp [monitor, monOpt, h]
    · rw [h2 h]; simp [monitor, monOpt, h]
    · rw [h3 h]; simp [monitor, monOpt, h]
    · rw [h4 h]; simp [monitor, monOpt, h]
    · rw [h5 h]; simp [monitor, monOpt, h]
    · rw [h6 h]; simp [monitor, monOpt, h]
    · rw [h7 h]; simp [monitor, monOpt, h]
    · rw [h8 h]; simp [monitor, monOpt, h]

theorem monitor_run_spec (w : Nat) (cfg : MonCfg) (df : Bool) (ins : List MonIn) :
    let s := (monitor w cfg df).runFrom (monitor w cfg df).init ins
    (cfg.tokens = true → s.tokens = monRun w monCtr0 (ins.map fun i => (i.reset, i.latch, i.valid && i.ready))) ∧
    (cfg.overflows = true → s.overflows = monRun w monCtr0 (ins.map fun i => (i.reset, i.latch, i.valid && !i.ready))) ∧
    (cfg.underflows = true → s.underflows = monRun w monCtr0 (ins.map fun i => (i.reset, i.latch, !i.valid && i.ready))) ∧
    (cfg.packets = true → s.packets = monRun w monCtr0
        (ins.map fun i => (i.reset, i.latch, i.valid && (if df then i.first else i.last) && i.ready))) ∧
    (cfg.tokens = false → s.tokens = monCtr0) ∧ (cfg.overflows = false → s.overflows = monCtr0) ∧
    (cfg.underflows = false → s.underflows = monCtr0) ∧ (cfg.packets = false → s.packets = monCtr0) :=
  monitor_run_from w cfg df ins (monitor w cfg df).init

/-! ### Selector width -/

theorem selWidth_facts (n : Nat) :
    (∀ k, k < n → k % 2 ^ selWidth n = k) ∧ 1 ≤ selWidth n ∧ (2 < n → 2 ^ (selWidth n - 1) < n) := by
  unfold selWidth bitsFor
  by_cases h : max n 2 - 1 < 2
  · simp only [h, if_true]
    refine ⟨fun k hk => Nat.mod_eq_of_lt (by omega), by omega, fun hn => by omega⟩
  · simp only [h, if_false]
    have hv : max n 2 - 1 ≠ 0 := by omega
    have h1 : max n 2 - 1 < 2 ^ (Nat.log2 (max n 2 - 1) + 1) := Nat.lt_log2_self
    have h2 : 2 ^ Nat.log2 (max n 2 - 1) ≤ max n 2 - 1 := Nat.log2_self_le hv
    refine ⟨fun k hk => Nat.mod_eq_of_lt (by omega), by omega, fun hn => ?_⟩
    rw [Nat.add_sub_cancel]
    omega

end Litex.Stream
