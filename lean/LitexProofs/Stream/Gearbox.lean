import LitexModel.Stream.Gearbox
import Mathlib.Data.Nat.ModEq
/-
  Gearbox: the circular shift register holds exactly the accepted-but-not-yet-delivered bits, in order.
-/
namespace Litex.Stream
open Elem
variable {α : Type}

/-- `level` entries of the circular register `sr` (size `L`), starting at read position `rp`. -/
def inflightOf (L : Nat) (z : α) (sr : List α) (rp level : Nat) : List α :=
  (List.range level).map fun k => sr.getD ((rp + k) % L) z

@[simp] theorem inflightOf_length (L : Nat) (z : α) (sr : List α) (rp level : Nat) :
    (inflightOf L z sr rp level).length = level := by simp [inflightOf]

@[simp] theorem fit_length (n : Nat) (z : α) (w : List α) : (fit n z w).length = n := by simp [fit]

theorem getD_writeAt (sr w : List α) (pos p : Nat) (z : α) (h : pos + w.length ≤ sr.length) :
    (writeAt sr pos w).getD p z = if pos ≤ p ∧ p < pos + w.length then w.getD (p - pos) z else sr.getD p z := by
  unfold writeAt
  simp only [List.getD_eq_getElem?_getD]
  by_cases h1 : p < pos
  · have : ¬ (pos ≤ p ∧ p < pos + w.length) := by omega
    rw [if_neg this, List.append_assoc, List.getElem?_append_left (by simp; omega), List.getElem?_take_of_lt h1]
  · by_cases h2 : p < pos + w.length
    · have : pos ≤ p ∧ p < pos + w.length := by omega
      rw [if_pos this, List.append_assoc, List.getElem?_append_right (by simp; omega),
        List.getElem?_append_left (by simp; omega)]
      simp [Nat.min_eq_left (show pos ≤ sr.length by omega)]
    · have : ¬ (pos ≤ p ∧ p < pos + w.length) := by omega
      rw [if_neg this, List.getElem?_append_right (by simp; omega), List.getElem?_drop]
      congr 2
      simp [Nat.min_eq_left (show pos ≤ sr.length by omega)]
      omega

@[simp] theorem writeAt_length (sr w : List α) (pos : Nat) (h : pos + w.length ≤ sr.length) :
    (writeAt sr pos w).length = sr.length := by
  simp [writeAt]; omega

/-- Reading `o` entries advances the read position: the rest is what was in flight minus its first `o`. -/
theorem inflightOf_read (L : Nat) (z : α) (sr : List α) (rp level o : Nat) (ho : o ≤ level) :
    inflightOf L z sr ((rp + o) % L) (level - o) = (inflightOf L z sr rp level).drop o := by
  apply List.ext_getElem
  · simp
  · intro k h1 h2
    simp [inflightOf, Nat.add_assoc, Nat.add_comm o k]

/-- The word presented at the source is the head of what is in flight. -/
theorem read_eq_take (L : Nat) (z : α) (sr : List α) (rp level o : Nat) (ho : o ≤ level) (hsr : sr.length = L)
    (hrp : rp + o ≤ L) :
    (sr.drop rp).take o = (inflightOf L z sr rp level).take o := by
  apply List.ext_getElem
  · simp; omega
  · intro k h1 h2
    have hk : k < o := by simp at h2; omega
    have hlt : rp + k < L := by omega
    simp [inflightOf, Nat.mod_eq_of_lt hlt, List.getD_eq_getElem?_getD, hsr, hlt]

theorem mod_add_small (L a wp j : Nat) (h : a % L = wp) (hj : wp + j < L) : (a + j) % L = wp + j := by
  have hjL : j < L := by omega
  rw [Nat.add_mod, h, Nat.mod_eq_of_lt hjL, Nat.mod_eq_of_lt hj]

/-- Writing a word at the write position appends it to what is in flight (the slot written holds no unread
    entry because `level + w.length < L`). -/
theorem inflightOf_write (L : Nat) (z : α) (sr w : List α) (rp wp level : Nat) (hsr : sr.length = L)
    (hwp : (rp + level) % L = wp) (hfit : wp + w.length ≤ L) (hroom : level + w.length < L) :
    inflightOf L z (writeAt sr wp w) rp (level + w.length) = inflightOf L z sr rp level ++ w := by
  apply List.ext_getElem
  · simp
  · intro k h1 h2
    have hk2 : k < level + w.length := by simpa using h1
    simp only [inflightOf, List.getElem_map, List.getElem_range]
    rw [getD_writeAt _ _ _ _ _ (by omega)]
    by_cases hk : k < level
    · -- an entry that was already in flight: its position is outside the written slot
      have hout : ¬ (wp ≤ (rp + k) % L ∧ (rp + k) % L < wp + w.length) := by
        rintro ⟨ha, hb⟩
        have hq : (rp + level + ((rp + k) % L - wp)) % L = wp + ((rp + k) % L - wp) :=
          mod_add_small L (rp + level) wp _ hwp (by omega)
        have hmod : k ≡ level + ((rp + k) % L - wp) [MOD L] := by
          apply Nat.ModEq.add_left_cancel' rp
          unfold Nat.ModEq
          rw [← Nat.add_assoc, hq]
          omega
        unfold Nat.ModEq at hmod
        rw [Nat.mod_eq_of_lt (by omega), Nat.mod_eq_of_lt (by omega)] at hmod
        omega
      rw [if_neg hout, List.getElem_append_left (by simpa using hk)]
      simp [inflightOf]
    · -- an entry of the new word
      have hpos : (rp + k) % L = wp + (k - level) := by
        have : rp + k = (rp + level) + (k - level) := by omega
        rw [this]
        exact mod_add_small L (rp + level) wp _ hwp (by omega)
      have hin : wp ≤ (rp + k) % L ∧ (rp + k) % L < wp + w.length := by omega
      rw [if_pos hin, List.getElem_append_right (by simp; omega), hpos]
      have e : wp + (k - level) - wp = k - level := by omega
      rw [e, List.getD_eq_getElem?_getD, List.getElem?_eq_getElem (by omega)]
      simp

/-! ### io_lcm -/

def dbl (l w : Nat) : Nat := if l / w < 2 then l * 2 else l

theorem ioLcm_eq (i o : Nat) : ioLcm i o = dbl (dbl (Nat.lcm i o) i) o := rfl

theorem dvd_dbl (l w v : Nat) (h : v ∣ l) : v ∣ dbl l w := by
  unfold dbl; split <;> [exact Dvd.dvd.mul_right h 2; exact h]

theorem le_dbl (l w : Nat) : l ≤ dbl l w := by unfold dbl; split <;> omega

theorem two_le_dbl (l w : Nat) (hw : 0 < w) (hl : 0 < l) (hd : w ∣ l) : 2 * w ≤ dbl l w := by
  have hle : w ≤ l := Nat.le_of_dvd hl hd
  unfold dbl
  split
  · omega
  · next h =>
    have h2 : 2 ≤ l / w := by omega
    calc 2 * w ≤ l / w * w := Nat.mul_le_mul_right w h2
      _ ≤ l := Nat.div_mul_le_self l w

theorem ioLcm_facts (i o : Nat) (hi : 0 < i) (ho : 0 < o) :
    i ∣ ioLcm i o ∧ o ∣ ioLcm i o ∧ 2 * i ≤ ioLcm i o ∧ 2 * o ≤ ioLcm i o := by
  have hli : i ∣ Nat.lcm i o := Nat.dvd_lcm_left i o
  have hlo : o ∣ Nat.lcm i o := Nat.dvd_lcm_right i o
  have hlpos : 0 < Nat.lcm i o := Nat.lcm_pos hi ho
  have h1 : 2 * i ≤ dbl (Nat.lcm i o) i := two_le_dbl _ _ hi hlpos hli
  have h1pos : 0 < dbl (Nat.lcm i o) i := by omega
  rw [ioLcm_eq]
  refine ⟨dvd_dbl _ _ _ (dvd_dbl _ _ _ hli), dvd_dbl _ _ _ (dvd_dbl _ _ _ hlo), ?_,
    two_le_dbl _ _ ho h1pos (dvd_dbl _ _ _ hlo)⟩
  exact Nat.le_trans h1 (le_dbl _ _)

/-! ### The step lemma -/

theorem incMod_spec (w L c : Nat) (hw : 0 < w) (hd : w ∣ L) (hc : c < L / w) :
    incMod c (L / w) < L / w ∧ w * incMod c (L / w) = (w * c + w) % L ∧ w * c + w ≤ L := by
  have hmul : w * (L / w) = L := Nat.mul_div_cancel' hd
  have hle : w * (c + 1) ≤ w * (L / w) := Nat.mul_le_mul_left w (by omega)
  rw [hmul, Nat.mul_succ] at hle
  unfold incMod
  by_cases h : c + 1 = L / w
  · have : w * c + w = L := by
      calc w * c + w = w * (c + 1) := (Nat.mul_succ w c).symm
        _ = w * (L / w) := by rw [h]
        _ = L := hmul
    simp [h, this]
    omega
  · have hlt : w * (c + 2) ≤ w * (L / w) := Nat.mul_le_mul_left w (by omega)
    rw [hmul, Nat.mul_succ, Nat.mul_succ] at hlt
    have hlt' : w * c + w < L := by omega
    simp [h, Nat.mod_eq_of_lt hlt', Nat.mul_succ]
    omega

/-- All bits of a token history, in stream order. -/
def bitsIn (i : Nat) (z : α) (a : List (Tok (List α))) : List α := (a.map fun t => fit i z t.data).flatten
def bitsOut (d : List (Tok (List α))) : List α := (d.map (·.data)).flatten

/-- Invariant + history relation of the gearbox. -/
def gbRel (L i o : Nat) (z : α) (s : GbState α) (a d : List (Tok (List α))) : Prop :=
  s.sr.length = L ∧ s.icount < L / i ∧ s.ocount < L / o ∧ s.level < L ∧
  (o * s.ocount + s.level) % L = i * s.icount ∧
  bitsIn i z a = bitsOut d ++ inflightOf L z s.sr (o * s.ocount) s.level

theorem gearbox_accNow (L i o : Nat) (z : α) (s : GbState α) (x : In (List α)) :
    (gearbox L i o z).accNow s x = if x.valid && decide (s.level + i < L) then [x.tok] else [] := rfl

theorem gearbox_delNow (L i o : Nat) (z : α) (s : GbState α) (x : In (List α)) :
    (gearbox L i o z).delNow s x =
      if decide (o ≤ s.level) && x.ready then
        [{ data := (s.sr.drop (o * s.ocount)).take o, first := false, last := false }] else [] := rfl

theorem gearbox_step (L i o : Nat) (hi : 0 < i) (ho : 0 < o) (hiL : i ∣ L) (hoL : o ∣ L) (z : α)
    (s : GbState α) (a d : List (Tok (List α))) (x : In (List α)) (h : gbRel L i o z s a d) :
    gbRel L i o z ((gearbox L i o z).step s x) (a ++ (gearbox L i o z).accNow s x)
      (d ++ (gearbox L i o z).delNow s x) := by
  obtain ⟨level, icount, ocount, sr⟩ := s
  obtain ⟨xv, xt, xr⟩ := x
  obtain ⟨h1, h2, h3, h4, h5, h6⟩ := h
  simp only at h1 h2 h3 h4 h5 h6
  rw [gearbox_accNow, gearbox_delNow]
  obtain ⟨hi1, hi2, hi3⟩ := incMod_spec i L icount hi hiL h2
  obtain ⟨ho1, ho2, ho3⟩ := incMod_spec o L ocount ho hoL h3
  have hfitlen : (fit i z xt.data).length = i := fit_length i z xt.data
  by_cases hacc : xv = true ∧ level + i < L <;> by_cases hdel : o ≤ level ∧ xr = true
  · -- accept and deliver in the same cycle
    obtain ⟨hv, hroom⟩ := hacc
    obtain ⟨hlev, hr⟩ := hdel
    have hw := inflightOf_write L z sr (fit i z xt.data) (o * ocount) (i * icount) level h1 h5
      (by rw [hfitlen]; exact hi3) (by rw [hfitlen]; exact hroom)
    rw [hfitlen] at hw
    have hrd := inflightOf_read L z (writeAt sr (i * icount) (fit i z xt.data)) (o * ocount) (level + i) o (by omega)
    have htk := read_eq_take L z sr (o * ocount) level o hlev h1 ho3
    refine ⟨?_, ?_, ?_, ?_, ?_, ?_⟩ <;>
      simp only [gearbox, Elem.step, hv, hr, hroom, hlev, decide_true, Bool.and_self, Bool.true_and, Bool.and_true,
        Bool.not_true, Bool.false_and, if_true, if_false, Bool.false_eq_true]
    · rw [writeAt_length _ _ _ (by rw [hfitlen, h1]; exact hi3)]; exact h1
    · exact hi1
    · exact ho1
    · omega
    · rw [hi2, ho2, Nat.mod_add_mod, ← h5, Nat.mod_add_mod]
      congr 1; omega
    · rw [ho2, show level + i - o = level + i - o from rfl, hrd, hw]
      simp only [bitsIn, bitsOut, List.map_append, List.flatten_append, List.map_cons, List.map_nil,
        List.flatten_cons, List.flatten_nil, List.append_nil] at h6 ⊢
      rw [h6, htk, List.drop_append_of_le_length (by simp; omega), List.append_assoc, List.append_assoc,
        ← List.append_assoc (List.take o _), List.take_append_drop]
  · -- accept only
    obtain ⟨hv, hroom⟩ := hacc
    have hnd : (decide (o ≤ level) && xr) = false := by
      cases hx : xr <;> simp_all
    have hw := inflightOf_write L z sr (fit i z xt.data) (o * ocount) (i * icount) level h1 h5
      (by rw [hfitlen]; exact hi3) (by rw [hfitlen]; exact hroom)
    rw [hfitlen] at hw
    refine ⟨?_, ?_, ?_, ?_, ?_, ?_⟩ <;>
      simp only [gearbox, Elem.step, hv, hroom, hnd, decide_true, Bool.and_self, Bool.true_and, Bool.and_true,
        Bool.not_true, Bool.not_false, Bool.false_and, if_true, if_false, Bool.false_eq_true]
    · rw [writeAt_length _ _ _ (by rw [hfitlen, h1]; exact hi3)]; exact h1
    · exact hi1
    · exact h3
    · rw [hi2, ← h5, Nat.mod_add_mod]
      congr 1; omega
    · rw [hw]
      simp only [bitsIn, bitsOut, List.map_append, List.flatten_append, List.map_cons, List.map_nil,
        List.flatten_cons, List.flatten_nil, List.append_nil] at h6 ⊢
      rw [h6, List.append_assoc]
  · -- deliver only
    obtain ⟨hlev, hr⟩ := hdel
    have hna : (xv && decide (level + i < L)) = false := by
      cases hx : xv <;> simp_all
    have hrd := inflightOf_read L z sr (o * ocount) level o hlev
    have htk := read_eq_take L z sr (o * ocount) level o hlev h1 ho3
    refine ⟨?_, ?_, ?_, ?_, ?_, ?_⟩ <;>
      simp only [gearbox, Elem.step, hr, hlev, hna, decide_true, Bool.and_self, Bool.true_and, Bool.and_true,
        Bool.not_true, Bool.not_false, Bool.false_and, if_true, if_false, Bool.false_eq_true]
    · exact h1
    · exact h2
    · exact ho1
    · omega
    · rw [ho2, Nat.mod_add_mod, ← h5]
      congr 1; omega
    · rw [ho2, hrd]
      simp only [bitsIn, bitsOut, List.map_append, List.flatten_append, List.map_cons, List.map_nil,
        List.flatten_cons, List.flatten_nil, List.append_nil] at h6 ⊢
      rw [h6, htk, List.append_assoc, List.take_append_drop]
  · -- idle cycle
    have hna : (xv && decide (level + i < L)) = false := by
      cases hx : xv <;> simp_all
    have hnd : (decide (o ≤ level) && xr) = false := by
      cases hx : xr <;> simp_all
    simp only [gbRel, gearbox, Elem.step, hna, hnd, Bool.not_false, Bool.and_self, Bool.false_and, if_false,
      Bool.false_eq_true, List.append_nil]
    exact ⟨h1, h2, h3, h4, h5, h6⟩

end Litex.Stream
