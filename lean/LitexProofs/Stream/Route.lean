import LitexModel.Stream.Route
import LitexModel.Stream.Conv
/-
  Per-cycle facts about Multiplexer / Demultiplexer (both are stateless).
-/
namespace Litex.Stream
variable {α : Type}

theorem getD_map_range (n k : Nat) (f : Nat → Bool) :
    ((List.range n).map f).getD k false = (decide (k < n) && f k) := by
  by_cases h : k < n <;> simp [List.getD_eq_getElem?_getD, h]

/-- In every cycle the source delivers exactly what the selected sink accepts. -/
theorem mux_cycle_sel (n : Nat) (z : Tok α) (i : MuxIn α) :
    muxDel n z i = muxAccAt n z i.sel i := by
  unfold muxDel muxAccAt muxOut
  by_cases h : i.sel < n
  · simp [h]
  · simp [h]

/-- A sink that is not selected accepts nothing. -/
theorem mux_cycle_other (n : Nat) (z : Tok α) (i : MuxIn α) (k : Nat) (hk : k ≠ i.sel) :
    muxAccAt n z k i = [] := by
  unfold muxAccAt muxOut
  by_cases h : i.sel < n
  · simp [h]
    intro _
    by_cases hkn : k < n <;> simp [hkn, hk]
  · simp [h]
    intro _
    by_cases hkn : k < n <;> simp [hkn]

/-- In every cycle the selected source delivers exactly what the sink hands over. -/
theorem demux_cycle_sel (n : Nat) (z : Tok α) (i : DemuxIn α) :
    demuxDelAt n z i.sel i = demuxAcc n z i := by
  unfold demuxDelAt demuxAcc demuxOut
  by_cases h : i.sel < n
  · simp [h, List.getD_eq_getElem?_getD]
  · simp [h, List.getD_eq_getElem?_getD]

/-- A source that is not selected delivers nothing. -/
theorem demux_cycle_other (n : Nat) (z : Tok α) (i : DemuxIn α) (k : Nat) (hk : k ≠ i.sel) :
    demuxDelAt n z k i = [] := by
  unfold demuxDelAt demuxOut
  by_cases h : k < n
  · simp [h, List.getD_eq_getElem?_getD, hk]
  · simp [h, List.getD_eq_getElem?_getD]

/-! ### Crossbar = Demultiplexer ⟫ Multiplexer -/

/-- Both selectors name the same existing port: the composition is a wire. -/
theorem crossbarOut_pass (n : Nat) (z : Tok α) (seld selm : Nat) (v : Bool) (t : Tok α) (r : Bool)
    (h : seld = selm ∧ seld < n) :
    (crossbarOut n z seld selm v t r).ready = r ∧ (crossbarOut n z seld selm v t r).valid = v ∧
    (crossbarOut n z seld selm v t r).tok = t := by
  obtain ⟨rfl, hd⟩ := h
  simp [crossbarOut, muxOut, demuxOut, hd, List.getD_eq_getElem?_getD]

/-- Otherwise it is blocked in both directions (nothing accepted, nothing delivered). -/
theorem crossbarOut_block (n : Nat) (z : Tok α) (seld selm : Nat) (v : Bool) (t : Tok α) (r : Bool)
    (h : ¬ (seld = selm ∧ seld < n)) :
    (crossbarOut n z seld selm v t r).ready = false ∧ (crossbarOut n z seld selm v t r).valid = false := by
  have he' : seld = selm → ¬ seld < n := fun e hlt => h ⟨e, hlt⟩
  by_cases hm : selm < n
  · have hne : ¬ selm = seld := by
      intro e; exact he' e.symm (e ▸ hm)
    have hm' : ¬ n ≤ selm := by omega
    by_cases hd : seld < n
    · have hne' : ¬ seld = selm := fun e => hne e.symm
      simp [crossbarOut, muxOut, demuxOut, hm, hd, hne, hne', List.getD_eq_getElem?_getD]
    · simp [crossbarOut, muxOut, demuxOut, hm, hd, hne, List.getD_eq_getElem?_getD]
  · simp [crossbarOut, muxOut, demuxOut, hm, List.getD_eq_getElem?_getD]
    intro hd
    by_cases hk : seld < n <;> simp [hk]

def xbarRel (n : Nat) (_ : Unit) (a : List (Tok (α × Nat × Nat))) (d : List (Tok α)) : Prop :=
  d = a.map (mapTok (·.1)) ∧ ∀ t ∈ a, t.data.2.1 = t.data.2.2 ∧ t.data.2.1 < n

theorem crossbar_step (n : Nat) (z : α) (s : Unit) (a : List (Tok (α × Nat × Nat))) (d : List (Tok α))
    (i : In (α × Nat × Nat)) (h : xbarRel n s a d) :
    xbarRel n ((crossbar n z).step s i) (a ++ (crossbar n z).accNow s i) (d ++ (crossbar n z).delNow s i) := by
  obtain ⟨iv, ⟨⟨td, sd, sm⟩, tf, tl⟩, ir⟩ := i
  obtain ⟨h1, h2⟩ := h
  subst h1
  by_cases hp : sd = sm ∧ sd < n
  · have hf := crossbarOut_pass n ⟨z, false, false⟩ sd sm iv ⟨td, tf, tl⟩ false hp
    have hb := crossbarOut_pass n ⟨z, false, false⟩ sd sm iv ⟨td, tf, tl⟩ ir hp
    refine ⟨?_, ?_⟩
    · cases iv <;> cases ir <;>
        simp [crossbar, Elem.accNow, Elem.delNow, Elem.out, hf.1, hf.2.1, hf.2.2, hb.1, mapTok]
    · intro t ht
      rcases List.mem_append.mp ht with ht | ht
      · exact h2 t ht
      · have : t = ⟨(td, sd, sm), tf, tl⟩ := by
          unfold Elem.accNow at ht
          split at ht
          · simpa using ht
          · simp at ht
        subst this; exact hp
  · have hf := crossbarOut_block n ⟨z, false, false⟩ sd sm iv ⟨td, tf, tl⟩ false hp
    have hb := crossbarOut_block n ⟨z, false, false⟩ sd sm iv ⟨td, tf, tl⟩ ir hp
    have ha : (crossbar n z).accNow s ⟨iv, ⟨(td, sd, sm), tf, tl⟩, ir⟩ = [] := by
      simp [crossbar, Elem.accNow, Elem.out, hb.1]
    have hd : (crossbar n z).delNow s ⟨iv, ⟨(td, sd, sm), tf, tl⟩, ir⟩ = [] := by
      simp [crossbar, Elem.delNow, Elem.out, hf.2]
    rw [ha, hd]
    simpa [xbarRel] using h2

end Litex.Stream
