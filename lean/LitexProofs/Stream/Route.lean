import LitexModel.Stream.Route
/-
  Per-cycle facts about Multiplexer / Demultiplexer (both are stateless).
-/
namespace Litex.Stream
variable {α : Type}

theorem getD_map_range (n k : Nat) (f : Nat → Bool) :
    ((List.range n).map f).getD k false = (decide (k < n) && f k) := by
  by_cases h : k < n <;> simp [List.getD_eq_getElem?_getD, h]

/-- In every cycle the source delivers exactly what the selected sink accepts. -/
theorem mux_cycle_sel (n : Nat) (z : Tok α) (i : MuxIn α) :
    muxDel n z i = muxAccAt n z i.sel i := by
  unfold muxDel muxAccAt muxOut
  by_cases h : i.sel < n
  · simp [h]
  · simp [h]

/-- A sink that is not selected accepts nothing. -/
theorem mux_cycle_other (n : Nat) (z : Tok α) (i : MuxIn α) (k : Nat) (hk : k ≠ i.sel) :
    muxAccAt n z k i = [] := by
  unfold muxAccAt muxOut
  by_cases h : i.sel < n
  · simp [h]
    intro _
    by_cases hkn : k < n <;> simp [hkn, hk]
  · simp [h]
    intro _
    by_cases hkn : k < n <;> simp [hkn]

/-- In every cycle the selected source delivers exactly what the sink hands over. -/
theorem demux_cycle_sel (n : Nat) (z : Tok α) (i : DemuxIn α) :
    demuxDelAt n z i.sel i = demuxAcc n z i := by
  unfold demuxDelAt demuxAcc demuxOut
  by_cases h : i.sel < n
  · simp [h, List.getD_eq_getElem?_getD]
  · simp [h, List.getD_eq_getElem?_getD]

/-- A source that is not selected delivers nothing. -/
theorem demux_cycle_other (n : Nat) (z : Tok α) (i : DemuxIn α) (k : Nat) (hk : k ≠ i.sel) :
    demuxDelAt n z k i = [] := by
  unfold demuxDelAt demuxOut
  by_cases h : k < n
  · simp [h, List.getD_eq_getElem?_getD, hk]
  · simp [h, List.getD_eq_getElem?_getD]

end Litex.Stream
