import LitexModel.Stream.Core
/-
  Functional simulation between two elements with the same ports: equal outputs along every run, hence equal
  accepted and delivered histories.  Used to transfer a token relation to a re-structured copy of an element
  (`strideUp` = `upConv` with the param register kept outside the converter).
-/
namespace Litex.Stream
namespace Elem
variable {α β σ τ : Type}

theorem sim_run (e1 : Elem α β σ) (e2 : Elem α β τ) (f : σ → τ)
    (hf : ∀ s v t, e1.fwd s v t = e2.fwd (f s) v t)
    (hb : ∀ s v t r, e1.bwd s v t r = e2.bwd (f s) v t r)
    (hn : ∀ s v t r, f (e1.next s v t r) = e2.next (f s) v t r) :
    ∀ (ins : List (In α)) (s : σ),
      e1.accepted s ins = e2.accepted (f s) ins ∧ e1.delivered s ins = e2.delivered (f s) ins ∧
      f (e1.runFrom s ins) = e2.runFrom (f s) ins := by
  intro ins
  induction ins with
  | nil => intro s; simp [accepted, delivered]
  | cons i is ih =>
    intro s
    have hout : e1.out s i = e2.out (f s) i := by simp [out, hf, hb]
    have hstep : f (e1.step s i) = e2.step (f s) i := by simp [step, hn]
    obtain ⟨h1, h2, h3⟩ := ih (e1.step s i)
    simp [accepted, delivered, accNow, delNow, hout, h1, h2, h3, hstep]

end Elem
end Litex.Stream
