import LitexModel.Stream.Core
/-
  Functional simulation between two elements with the same ports: equal outputs along every run, hence equal
  accepted and delivered histories.  Used to transfer a token relation to a re-structured copy of an element
  (`strideUp` = `upConv` with the param register kept outside the converter).
-/
namespace Litex.Stream
namespace Elem
variable {α β σ τ : Type}

theorem sim_run (e1 : Elem α β σ) (e2 : Elem α β τ) (f : σ → τ)
    (hf : ∀ s v t, e1.fwd s v t = e2.fwd (f s) v t)
    (hb : ∀ s v t r, e1.bwd s v t r = e2.bwd (f s) v t r)
    (hn : ∀ s v t r, f (e1.next s v t r) = e2.next (f s) v t r) :
    ∀ (ins : List (In α)) (s : σ),
      e1.accepted s ins = e2.accepted (f s) ins ∧ e1.delivered s ins = e2.delivered (f s) ins ∧
      f (e1.runFrom s ins) = e2.runFrom (f s) ins := by
  intro ins
  induction ins with
  | nil => intro s; simp [accepted, delivered]
  | cons i is ih =>
    intro s
    have hout : e1.out s i = e2.out (f s) i := by simp [out, hf, hb]
    have hstep : f (e1.step s i) = e2.step (f s) i := by simp [step, hn]
    obtain ⟨h1, h2, h3⟩ := ih (e1.step s i)
    simp [accepted, delivered, accNow, delNow, hout, h1, h2, h3, hstep]

/-- An element whose source tokens are those of another one "decorated" (`strip` removes the decoration), with
    the same handshake and state: same accepted history, delivered history equal after stripping. -/
theorem sim_strip {γ : Type} (e1 : Elem α γ σ) (e2 : Elem α β σ) (strip : Tok γ → Tok β)
    (hf : ∀ s v t, ((e1.fwd s v t).1, strip (e1.fwd s v t).2) = e2.fwd s v t)
    (hb : ∀ s v t r, e1.bwd s v t r = e2.bwd s v t r)
    (hn : ∀ s v t r, e1.next s v t r = e2.next s v t r) :
    ∀ (ins : List (In α)) (s : σ),
      e1.accepted s ins = e2.accepted s ins ∧ (e1.delivered s ins).map strip = e2.delivered s ins ∧
      e1.runFrom s ins = e2.runFrom s ins := by
  intro ins
  induction ins with
  | nil => intro s; simp [accepted, delivered]
  | cons i is ih =>
    intro s
    have hv : (e1.out s i).valid = (e2.out s i).valid := by
      have := congrArg Prod.fst (hf s i.valid i.tok); simpa [out] using this
    have ht : strip (e1.out s i).tok = (e2.out s i).tok := by
      have := congrArg Prod.snd (hf s i.valid i.tok); simpa [out] using this
    have hr : (e1.out s i).ready = (e2.out s i).ready := by simp [out, hb]
    have hstep : e1.step s i = e2.step s i := by simp [step, hn]
    obtain ⟨h1, h2, h3⟩ := ih (e2.step s i)
    refine ⟨?_, ?_, ?_⟩
    · simp [accepted, accNow, hr, hstep, h1]
    · simp only [delivered, delNow, List.map_append, hstep, h2, hv]
      congr 1
      split <;> simp [ht]
    · simp [hstep, h3]

end Elem
end Litex.Stream
