import LitexProofs.Stream.Stride
import LitexProofs.Stream.Conv
/-
  Field-level layout of `Pack` / `Unpack` (payload = any list of fields, `n` chunks) and of the down-converting
  `StrideConverter`, for the encodings the driver serves and the real code is compared through (`encUp`, `decDown`,
  `decStrideDown`).

  `Pack(layout, n)`: the source payload is `chunk0{f_0,…}, chunk1{f_0,…}, …`, i.e. chunk `c` occupies bits
  `[c·nb, (c+1)·nb)` (`nb = Σ w_k`) and field `k` of chunk `c` sits at `c·nb + j_k`.
-/
namespace Litex.Stream
open Litex

theorem catWidth_lanes (nb : Nat) (lanes : List Nat) : catWidth (lanes.map fun v => (nb, v)) = lanes.length * nb := by
  induction lanes with
  | nil => simp [catWidth]
  | cons p ps ih => simp only [List.map_cons, catWidth, ih, List.length_cons]; ring

theorem packLanes_lt (nb : Nat) (lanes : List Nat) : packLanes nb lanes < 2 ^ (lanes.length * nb) := by
  have := cat_lt (lanes.map fun v => (nb, v))
  rwa [catWidth_lanes] at this

theorem phys_length {α : Type} (rev : Bool) (l : List α) : (phys rev l).length = l.length := by
  cases rev <;> simp [phys]

/-- A field of a truncated word is the field of the word. -/
theorem slice_mod (j w nb x : Nat) (h : j + w ≤ nb) : slice j w (x % 2 ^ nb) = slice j w x := by
  have := slice_slice j w 0 nb x h
  rwa [slice_zero, trunc, Nat.zero_add] at this

/-- **Pack, field level.**  In the source word of `Pack(fields ws, n = r)` / `_UpConverter` (`encUp`), field `k` of
    chunk `c = reverse ? r-1-i : i` is field `k` of the `i`-th sub-word; above the chunks sits the param, above it
    (if reported) the token count. -/
theorem encUp_fields (r pw : Nat) (rev vtc : Bool) (ws : List Nat) (W : UpWord Nat Nat) (hW : W.lanes.length = r)
    (i : Nat) (hi : i < r) :
    (fieldPos ws).map (fun (j, w) =>
        slice ((if rev then r - 1 - i else i) * sumW ws + j) w (encUp r (sumW ws) pw rev vtc W)) =
      (fieldPos ws).map (fun (j, w) => slice j w (W.lanes.getD i 0)) ∧
    slice (r * sumW ws) pw (encUp r (sumW ws) pw rev vtc W) = W.param % 2 ^ pw ∧
    (encUp r (sumW ws) pw rev vtc W) / 2 ^ (r * sumW ws + pw) = if vtc then W.count else 0 := by
  have hlenP : (phys rev W.lanes).length = r := by rw [phys_length, hW]
  have hlt : packLanes (sumW ws) (phys rev W.lanes) < 2 ^ (r * sumW ws) := by
    have := packLanes_lt (sumW ws) (phys rev W.lanes); rwa [hlenP] at this
  have hn : (if rev then r - 1 - i else i) < r := by split <;> omega
  refine ⟨?_, ?_, ?_⟩
  · apply List.map_congr_left
    intro p hp
    obtain ⟨j, w⟩ := p
    have hb := fieldPos_bounds ws 0 (j, w) (by simpa [fieldPos] using hp)
    simp only at hb ⊢
    have hl := upconv_layout (sumW ws) rev W.lanes i (by omega)
    rw [hW] at hl
    rw [← slice_slice j w _ (sumW ws) _ (by omega)]
    unfold encUp
    rw [slice_add_high _ _ _ _ _ (by
      calc (if rev then r - 1 - i else i) * sumW ws + sumW ws = ((if rev then r - 1 - i else i) + 1) * sumW ws := by ring
        _ ≤ r * sumW ws := Nat.mul_le_mul_right _ (by omega)), hl]
    exact slice_mod j w (sumW ws) _ (by omega)
  · unfold encUp
    have := slice_shift 0 pw (r * sumW ws) _ (W.param % 2 ^ pw + 2 ^ pw * (if vtc then W.count else 0)) hlt
    rw [Nat.add_zero] at this
    rw [this, slice_add_high 0 pw pw _ _ (by omega), slice_zero, trunc, Nat.mod_mod]
  · unfold encUp
    have hm : W.param % 2 ^ pw < 2 ^ pw := Nat.mod_lt _ (Nat.two_pow_pos pw)
    rw [Nat.pow_add, ← Nat.div_div_eq_div_mul, Nat.add_mul_div_left _ _ (Nat.two_pow_pos _), Nat.div_eq_of_lt hlt,
      Nat.zero_add, Nat.add_mul_div_left _ _ (Nat.two_pow_pos _), Nat.div_eq_of_lt hm, Nat.zero_add]

theorem unpackLanes_getD (nb r x n : Nat) (hn : n < r) : (unpackLanes nb r x).getD n 0 = slice (n * nb) nb x := by
  simp [unpackLanes, List.getD_eq_getElem?_getD, hn]

/-- Logical lane `i` of what a down-converting element reads from its sink (`decDown`). -/
theorem decDown_lane (r nb pw : Nat) (rev : Bool) (d : Nat) (i : Nat) (hi : i < r) :
    (decDown r nb pw rev d []).1.getD i 0 = slice ((if rev then r - 1 - i else i) * nb) nb d := by
  have hlen : (unpackLanes nb r d).length = r := by simp [unpackLanes]
  cases rev
  · simp only [decDown, phys, Bool.false_eq_true, if_false]
    exact unpackLanes_getD nb r d i hi
  · simp only [decDown, phys, if_true, List.getD_eq_getElem?_getD]
    rw [List.getElem?_reverse (by omega), hlen]
    have := unpackLanes_getD nb r d (r - 1 - i) (by omega)
    rw [List.getD_eq_getElem?_getD] at this
    exact this

/-- **Unpack, field level.**  Field `k` of the `i`-th narrow token an `Unpack(n = r, fields ws)` /
    `_DownConverter` delivers for the wide sink word `d` is field `k` of chunk `c = reverse ? r-1-i : i` of `d`;
    the param is the field above the chunks. -/
theorem decDown_fields (r pw : Nat) (rev : Bool) (ws : List Nat) (d : Nat) (i : Nat) (hi : i < r) :
    (fieldPos ws).map (fun (j, w) => slice j w ((decDown r (sumW ws) pw rev d []).1.getD i 0)) =
      (fieldPos ws).map (fun (j, w) => slice ((if rev then r - 1 - i else i) * sumW ws + j) w d) ∧
    (decDown r (sumW ws) pw rev d []).2 = slice (r * sumW ws) pw d := by
  refine ⟨?_, rfl⟩
  apply List.map_congr_left
  intro p hp
  obtain ⟨j, w⟩ := p
  have hb := fieldPos_bounds ws 0 (j, w) (by simpa [fieldPos] using hp)
  simp only at hb ⊢
  rw [decDown_lane r (sumW ws) pw rev d i hi]
  exact slice_slice j w _ (sumW ws) d (by omega)

/-- Unpack after Pack, field level: every field of every sub-word comes back (`n` chunks, any field widths,
    both `reverse` settings as long as they agree). -/
theorem unpack_pack_fields (r : Nat) (rev : Bool) (ws : List Nat) (W : UpWord Nat Nat) (hW : W.lanes.length = r)
    (i : Nat) (hi : i < r) :
    (fieldPos ws).map (fun (j, w) => slice j w ((decDown r (sumW ws) 0 rev (encUp r (sumW ws) 0 rev false W) []).1.getD i 0)) =
      (fieldPos ws).map (fun (j, w) => slice j w (W.lanes.getD i 0)) := by
  rw [(decDown_fields r 0 rev ws _ i hi).1]
  exact (encUp_fields r 0 rev false ws W hW i hi).1

theorem strideIn_getD (r : Nat) (ws : List Nat) (x n : Nat) (hn : n < r) :
    (strideIn r ws x).getD n 0 = cat ((fieldPos ws).map fun (j, w) => (w, slice (r * j + n * w) w x)) := by
  simp [strideIn, List.getD_eq_getElem?_getD, hn]

/-- **StrideConverter (down), field level.**  Field `k` of the `i`-th narrow token is slice
    `n = reverse ? r-1-i : i` of the wide sink field `k` (which sits at `r·j_k` and is `r·w_k` wide). -/
theorem decStrideDown_fields (r pw : Nat) (rev : Bool) (ws : List Nat) (d : Nat) (i : Nat) (hi : i < r) :
    (fieldPos ws).map (fun (j, w) => slice j w ((decStrideDown r pw rev ws d []).1.getD i 0)) =
      (fieldPos ws).map (fun (j, w) => slice ((if rev then r - 1 - i else i) * w) w (slice (r * j) (r * w) d)) ∧
    (decStrideDown r pw rev ws d []).2 = slice (r * sumW ws) pw d := by
  refine ⟨?_, rfl⟩
  have hlen : (strideIn r ws d).length = r := by simp [strideIn]
  have hn : (if rev then r - 1 - i else i) < r := by split <;> omega
  have hlane : (decStrideDown r pw rev ws d []).1.getD i 0 = (strideIn r ws d).getD (if rev then r - 1 - i else i) 0 := by
    cases rev
    · simp [decStrideDown, phys]
    · simp only [decStrideDown, phys, if_true, List.getD_eq_getElem?_getD]
      rw [List.getElem?_reverse (by omega), hlen]
  rw [hlane, strideIn_getD r ws d _ hn]
  have h := cat_field_go (fun j w => slice (r * j + (if rev then r - 1 - i else i) * w) w d) ws 0 0 (by simp)
  simp only [Nat.pow_zero, Nat.one_mul, Nat.zero_add] at h
  rw [show fieldPos ws = fieldPos.go 0 ws from rfl, h]
  apply List.map_congr_left
  intro p _
  obtain ⟨j, w⟩ := p
  simp only
  rw [Nat.mod_eq_of_lt (slice_lt _ _ _)]
  symm
  apply slice_slice
  calc (if rev then r - 1 - i else i) * w + w = ((if rev then r - 1 - i else i) + 1) * w := by ring
    _ ≤ r * w := Nat.mul_le_mul_right w (by omega)

/-! ### `valid_token_count` never exceeds the ratio -/

variable {α π : Type}

def upCntRel (r : Nat) (s : UpState α π) (_ : List (Tok (α × π))) (d : List (Tok (UpWord α π))) : Prop :=
  s.demux < r ∧ s.vtc ≤ r ∧ ∀ t ∈ d, t.data.count ≤ r

theorem upConv_cnt_step (r : Nat) (hr : 0 < r) (z : α) (p0 : π) (s : UpState α π)
    (a : List (Tok (α × π))) (d : List (Tok (UpWord α π))) (i : In (α × π)) (h : upCntRel r s a d) :
    upCntRel r ((upConv r z p0).step s i) (a ++ (upConv r z p0).accNow s i) (d ++ (upConv r z p0).delNow s i) := by
  obtain ⟨h1, h2, h3⟩ := h
  rw [upConv_delNow]
  refine ⟨?_, ?_, ?_⟩
  · simp only [upConv, Elem.step]
    split
    · split
      · exact hr
      · next hl => simp at hl; omega
    · exact h1
  · simp only [upConv, Elem.step]
    split <;> omega
  · intro t ht
    rcases List.mem_append.mp ht with ht | ht
    · exact h3 t ht
    · split at ht
      · have : t = s.outTok := by simpa using ht
        subst this; simpa [UpState.outTok] using h2
      · simp at ht

end Litex.Stream
