import LitexProofs.Stream.Handshake
import LitexModel.Stream.Basic
/-
  C04 one-cycle lemmas for the basic elements (`PipeValid`, `PipeReady`, wire, `SyncFIFO`, `SyncFIFOBuffered`):
  invariants, handshake stability, and the cooperative-window lemmas used for progress.
-/
namespace Litex.Stream
open Elem
variable {α : Type}

/-! ### PipeValid -/

theorem pipeValid_stepStable (z : Tok α) : StepStable (pipeValid z) (fun _ => True) where
  inv_step _ _ _ := trivial
  hold s i i' _ _ := by
    obtain ⟨sv, st⟩ := s
    obtain ⟨iv, it, ir⟩ := i
    intro hv hr
    simp only [pipeValid, Elem.out, Elem.step] at *
    subst hv; subst hr
    simp

theorem pipeValid_hs_window (z : Tok α) (s : PVState α) (ins : List (In α))
    (hc : ∀ i ∈ ins, Coop i) (hlen : ins.length = 1) : 1 ≤ (pipeValid z).hsCount s ins := by
  match ins, hlen with
  | [i], _ =>
    obtain ⟨hv, hr⟩ := hc i (by simp)
    obtain ⟨iv, it, ir⟩ := i
    simp only at hv hr; subst hv; subst hr
    simp [hsCount, accepted, delivered, accNow, pipeValid, Elem.out]

theorem pipeValid_del_window (z : Tok α) (s : PVState α) (ins : List (In α))
    (hc : ∀ i ∈ ins, Coop i) (hlen : ins.length = 2) : 1 ≤ ((pipeValid z).delivered s ins).length := by
  match ins, hlen with
  | [i, j], _ =>
    obtain ⟨hv, hr⟩ := hc i (by simp)
    obtain ⟨hv', hr'⟩ := hc j (by simp)
    obtain ⟨iv, it, ir⟩ := i
    obtain ⟨jv, jt, jr⟩ := j
    obtain ⟨sv, st⟩ := s
    simp only at hv hr hv' hr'; subst hv; subst hr; subst hv'; subst hr'
    cases sv <;> simp [delivered, delNow, pipeValid, Elem.out, Elem.step]

/-! ### PipeReady -/

/-- A parked token is a valid one. -/
def prInv (s : PRState α) : Prop := s.valid = true → s.dvalid = true

theorem pipeReady_inv_step (z : Tok α) (s : PRState α) (i : In α) (h : prInv s) :
    prInv ((pipeReady z).step s i) := by
  obtain ⟨sv, sdv, st⟩ := s
  obtain ⟨iv, it, ir⟩ := i
  unfold prInv at *
  cases sv <;> cases sdv <;> cases iv <;> cases ir <;> simp_all [pipeReady, Elem.step]

theorem pipeReady_stepStable (z : Tok α) : StepStable (pipeReady z) prInv where
  inv_step := pipeReady_inv_step z
  hold s i i' _ hin := by
    obtain ⟨sv, sdv, st⟩ := s
    obtain ⟨iv, it, ir⟩ := i
    obtain ⟨jv, jt, jr⟩ := i'
    intro hv hr
    simp only [pipeReady, Elem.out, Elem.step, HoldsIn] at *
    subst hr
    cases sv <;> cases sdv <;> cases iv <;> simp_all

theorem pipeReady_hs_window (z : Tok α) (s : PRState α) (hs : prInv s) (ins : List (In α))
    (hc : ∀ i ∈ ins, Coop i) (hlen : ins.length = 1) : 1 ≤ ((pipeReady z).delivered s ins).length := by
  match ins, hlen with
  | [i], _ =>
    obtain ⟨hv, hr⟩ := hc i (by simp)
    obtain ⟨iv, it, ir⟩ := i
    obtain ⟨sv, sdv, st⟩ := s
    simp only at hv hr; subst hv; subst hr
    unfold prInv at hs
    cases sv <;> cases sdv <;> simp_all [delivered, delNow, pipeReady, Elem.out]

/-! ### Wire -/

theorem wire_stepStable : StepStable (wire (α := α)) (fun _ => True) where
  inv_step _ _ _ := trivial
  hold s i i' _ hin := by
    intro hv hr
    exact hin hv hr

theorem wire_del_window (s : Unit) (ins : List (In α))
    (hc : ∀ i ∈ ins, Coop i) (hlen : ins.length = 1) : 1 ≤ ((wire (α := α)).delivered s ins).length := by
  match ins, hlen with
  | [i], _ =>
    obtain ⟨hv, hr⟩ := hc i (by simp)
    obtain ⟨iv, it, ir⟩ := i
    simp only at hv hr; subst hv; subst hr
    simp [delivered, delNow, wire, Elem.out]

/-! ### SyncFIFO -/

def fifoInv (depth : Nat) (q : List (Tok α)) : Prop := q.length ≤ depth

theorem syncFifo_inv_step (depth : Nat) (z : Tok α) (q : List (Tok α)) (i : In α) (h : fifoInv depth q) :
    fifoInv depth ((syncFifo depth z).step q i) := by
  obtain ⟨iv, it, ir⟩ := i
  unfold fifoInv at *
  cases q with
  | nil => cases iv <;> cases ir <;> simp [syncFifo, Elem.step] <;> (try split) <;> simp_all <;> omega
  | cons x xs =>
    have hl' : xs.length + 1 ≤ depth := by simpa using h
    by_cases hfull : xs.length + 1 = depth
    · cases iv <;> cases ir <;> simp [syncFifo, Elem.step, hfull] <;> omega
    · cases iv <;> cases ir <;> simp [syncFifo, Elem.step, hfull] <;> omega

theorem syncFifo_stepStable (depth : Nat) (z : Tok α) : StepStable (syncFifo depth z) (fifoInv depth) where
  inv_step := syncFifo_inv_step depth z
  hold q i i' _ _ := by
    obtain ⟨iv, it, ir⟩ := i
    intro hv hr
    simp only [syncFifo, Elem.out, Elem.step] at *
    subst hr
    cases q with
    | nil => simp at hv
    | cons x xs => cases iv <;> simp <;> split <;> simp

theorem syncFifo_hs_window (depth : Nat) (hd : 0 < depth) (z : Tok α) (q : List (Tok α))
    (ins : List (In α)) (hc : ∀ i ∈ ins, Coop i) (hlen : ins.length = 1) :
    1 ≤ (syncFifo depth z).hsCount q ins := by
  match ins, hlen with
  | [i], _ =>
    obtain ⟨hv, hr⟩ := hc i (by simp)
    obtain ⟨iv, it, ir⟩ := i
    simp only at hv hr; subst hv; subst hr
    cases q with
    | nil =>
      have h0 : ¬ (0 = depth) := by omega
      simp [hsCount, accepted, delivered, accNow, delNow, syncFifo, Elem.out, h0]
    | cons x xs => simp [hsCount, accepted, delivered, accNow, delNow, syncFifo, Elem.out]

theorem syncFifo_del_window (depth : Nat) (hd : 0 < depth) (z : Tok α) (q : List (Tok α))
    (ins : List (In α)) (hc : ∀ i ∈ ins, Coop i) (hlen : ins.length = 2) :
    1 ≤ ((syncFifo depth z).delivered q ins).length := by
  match ins, hlen with
  | [i, j], _ =>
    obtain ⟨hv, hr⟩ := hc i (by simp)
    obtain ⟨hv', hr'⟩ := hc j (by simp)
    obtain ⟨iv, it, ir⟩ := i
    obtain ⟨jv, jt, jr⟩ := j
    simp only at hv hr hv' hr'; subst hv; subst hr; subst hv'; subst hr'
    cases q with
    | nil =>
      have h0 : ¬ (0 = depth) := by omega
      simp [delivered, delNow, syncFifo, Elem.out, Elem.step, h0]
    | cons x xs => simp [delivered, delNow, syncFifo, Elem.out]

/-! ### SyncFIFOBuffered -/

/-- Occupancy bound, and: while the output register is empty the inner FIFO holds at most one word (the inner
    read port fires as soon as the register is free). -/
def fbInv (depth : Nat) (s : FBState α) : Prop :=
  s.q.length ≤ depth ∧ (s.readable = false → s.q.length ≤ 1)

theorem syncFifoBuffered_inv_step (depth : Nat) (hd : 1 ≤ depth) (z : Tok α) (s : FBState α) (i : In α)
    (h : fbInv depth s) : fbInv depth ((syncFifoBuffered depth z).step s i) := by
  obtain ⟨q, rd, dout⟩ := s
  obtain ⟨iv, it, ir⟩ := i
  obtain ⟨h1, h2⟩ := h
  simp only at h1 h2
  unfold fbInv
  cases q with
  | nil =>
    cases iv <;> cases ir <;> cases rd <;> simp [syncFifoBuffered, Elem.step] <;> (try split) <;> simp_all <;> omega
  | cons x xs =>
    have hl' : xs.length + 1 ≤ depth := by simpa using h1
    by_cases hfull : xs.length + 1 = depth
    · cases iv <;> cases ir <;> cases rd <;> simp_all [syncFifoBuffered, Elem.step] <;> omega
    · cases iv <;> cases ir <;> cases rd <;> simp_all [syncFifoBuffered, Elem.step] <;> omega

theorem syncFifoBuffered_stepStable (depth : Nat) (hd : 1 ≤ depth) (z : Tok α) :
    StepStable (syncFifoBuffered depth z) (fbInv depth) where
  inv_step := syncFifoBuffered_inv_step depth hd z
  hold s i i' _ _ := by
    obtain ⟨q, rd, dout⟩ := s
    obtain ⟨iv, it, ir⟩ := i
    intro hv hr
    simp only [syncFifoBuffered, Elem.out, Elem.step] at *
    subst hr; subst hv
    simp

theorem syncFifoBuffered_hs_window (depth : Nat) (hd : 2 ≤ depth) (z : Tok α) (s : FBState α)
    (hs : fbInv depth s) (ins : List (In α)) (hc : ∀ i ∈ ins, Coop i) (hlen : ins.length = 1) :
    1 ≤ (syncFifoBuffered depth z).hsCount s ins := by
  match ins, hlen with
  | [i], _ =>
    obtain ⟨hv, hr⟩ := hc i (by simp)
    obtain ⟨iv, it, ir⟩ := i
    obtain ⟨q, rd, dout⟩ := s
    obtain ⟨h1, h2⟩ := hs
    simp only at hv hr h1 h2; subst hv; subst hr
    cases rd with
    | true => simp [hsCount, accepted, delivered, accNow, delNow, syncFifoBuffered, Elem.out]
    | false =>
      have : (q.length != depth) = true := by
        have := h2 rfl
        simp; omega
      simp [hsCount, accepted, delivered, accNow, delNow, syncFifoBuffered, Elem.out, this]

theorem syncFifoBuffered_del_window (depth : Nat) (hd : 1 ≤ depth) (z : Tok α) (s : FBState α)
    (ins : List (In α)) (hc : ∀ i ∈ ins, Coop i) (hlen : ins.length = 3) :
    1 ≤ ((syncFifoBuffered depth z).delivered s ins).length := by
  match ins, hlen with
  | [i, j, k], _ =>
    obtain ⟨hv, hr⟩ := hc i (by simp)
    obtain ⟨hv', hr'⟩ := hc j (by simp)
    obtain ⟨hv'', hr''⟩ := hc k (by simp)
    obtain ⟨iv, it, ir⟩ := i
    obtain ⟨jv, jt, jr⟩ := j
    obtain ⟨kv, kt, kr⟩ := k
    obtain ⟨q, rd, dout⟩ := s
    simp only at hv hr hv' hr' hv'' hr''
    subst hv; subst hr; subst hv'; subst hr'; subst hv''; subst hr''
    have h0 : ¬ (0 = depth) := by omega
    cases rd with
    | true => simp [delivered, delNow, syncFifoBuffered, Elem.out]
    | false =>
      cases q with
      | nil => simp [delivered, delNow, syncFifoBuffered, Elem.out, Elem.step, h0]
      | cons x xs => simp [delivered, delNow, syncFifoBuffered, Elem.out, Elem.step]

/-! ### Buffer(pipe_valid, pipe_ready) = PipeValid ⟫ PipeReady -/

def bufInv (s : PVState α × PRState α) : Prop := True ∧ prInv s.2

theorem bufferVR_stepStable (z : Tok α) : StepStable (bufferVR z) (fun s => True ∧ prInv s.2) :=
  (pipeValid_stepStable z).comp (pipeReady_stepStable z)

theorem bufferVR_hs_window (z : Tok α) (s : PVState α × PRState α) (hs : prInv s.2) (ins : List (In α))
    (hc : ∀ i ∈ ins, Coop i) (hlen : ins.length = 1) : 1 ≤ (bufferVR z).hsCount s ins := by
  match ins, hlen with
  | [i], _ =>
    obtain ⟨hv, hr⟩ := hc i (by simp)
    obtain ⟨iv, it, ir⟩ := i
    obtain ⟨⟨av, at_⟩, ⟨bv, bdv, bt⟩⟩ := s
    simp only at hv hr; subst hv; subst hr
    unfold prInv at hs
    cases av <;> cases bv <;> cases bdv <;>
      simp_all [hsCount, accepted, delivered, accNow, delNow, bufferVR, Elem.comp, pipeValid, pipeReady, Elem.out]

theorem bufferVR_del_window (z : Tok α) (s : PVState α × PRState α) (hs : prInv s.2) (ins : List (In α))
    (hc : ∀ i ∈ ins, Coop i) (hlen : ins.length = 2) : 1 ≤ ((bufferVR z).delivered s ins).length := by
  match ins, hlen with
  | [i, j], _ =>
    obtain ⟨hv, hr⟩ := hc i (by simp)
    obtain ⟨hv', hr'⟩ := hc j (by simp)
    obtain ⟨iv, it, ir⟩ := i
    obtain ⟨jv, jt, jr⟩ := j
    obtain ⟨⟨av, at_⟩, ⟨bv, bdv, bt⟩⟩ := s
    simp only at hv hr hv' hr'; subst hv; subst hr; subst hv'; subst hr'
    unfold prInv at hs
    cases av <;> cases bv <;> cases bdv <;>
      simp_all [delivered, delNow, bufferVR, Elem.comp, pipeValid, pipeReady, Elem.out, Elem.step]

end Litex.Stream
