import LitexProofs.Stream.HandshakeLive
/-
  C04 — ADDITIVE delivery bounds for pipelines of identity-typed stages.

  `Live.comp` multiplies the windows (unavoidable for rate-changing elements).  For store-and-forward stages a sharper
  potential exists: once a token is somewhere in the downstream part `b` of `a ⟫ b`, it drains towards the source
  whatever `a` does, and while `b` is empty the time to the next delivery is "time until `a` offers" + "time `b` needs
  from empty".  `Drain b Inv μ B ne` (`ne` = holds a token) captures the downstream role, `Flow` adds what the
  upstream role needs; `Flow.comp : Flow a → Drain b → Drain (a ⟫ b)` has measure `μ_b + (if ne_b then 0 else μ_a)`
  and bound `B_a + B_b`.  Every stage kind is a `Flow`; by induction every `stages l` is a `Drain` with
  `B = Σ stageLat`, i.e. a delivery at least every `1 + Σ stageLat` cooperative cycles — the values the harness measures.
-/
namespace Litex.Stream
namespace Elem
variable {α β γ σ τ : Type}

structure Drain (e : Elem α β σ) (Inv : σ → Prop) (μ : σ → Nat) (B : Nat) (ne : σ → Bool) : Prop where
  inv_step : ∀ s i, Inv s → Inv (e.step s i)
  bound : ∀ s, Inv s → μ s ≤ B
  /-- cooperative cycle: a delivery, or the measure drops and a token is held afterwards -/
  d1 : ∀ s i, Inv s → Coop i → 1 ≤ (e.delNow s i).length ∨ (μ (e.step s i) < μ s ∧ ne (e.step s i) = true)
  /-- a held token drains under a ready consumer, with or without new input -/
  d2 : ∀ s i, Inv s → i.ready = true → ne s = true →
    1 ≤ (e.delNow s i).length ∨ (μ (e.step s i) < μ s ∧ ne (e.step s i) = true)
  /-- nothing comes from nothing -/
  d3 : ∀ s i, Inv s → i.valid = false → ne s = false →
    ne (e.step s i) = false ∧ μ (e.step s i) ≤ μ s ∧ (e.fwd s false i.tok).1 = false
  /-- an empty element is ready whenever its consumer is -/
  e1 : ∀ s v t, Inv s → ne s = false → e.bwd s v t true = true

structure Flow (e : Elem α β σ) (Inv : σ → Prop) (μ : σ → Nat) (B : Nat) (ne : σ → Bool) : Prop
    extends Drain e Inv μ B ne where
  off : ∀ s i, Inv s → i.valid = true → (e.fwd s true i.tok).1 = true ∨ μ (e.step s i) < μ s
  /-- supplied and not offering: afterwards a token is held -/
  a1 : ∀ s i, Inv s → i.valid = true → (e.fwd s true i.tok).1 = false → ne (e.step s i) = true

theorem Drain.measure {e : Elem α β σ} {Inv : σ → Prop} {μ : σ → Nat} {B : Nat} {ne : σ → Bool}
    (h : Drain e Inv μ B ne) : DelMeasure e Inv μ B where
  inv_step := h.inv_step
  bound := h.bound
  dec s i hs hc := by
    rcases h.d1 s i hs hc with h1 | h1
    · exact Or.inl h1
    · exact Or.inr h1.1

theorem Drain.delivers {e : Elem α β σ} {Inv : σ → Prop} {μ : σ → Nat} {B : Nat} {ne : σ → Bool}
    (h : Drain e Inv μ B ne) (h0 : Inv e.init) : DeliversWithin e (B + 1) :=
  h.measure.delivers h0

theorem delNow_pos_iff (e : Elem α β σ) (s : σ) (i : In α) :
    1 ≤ (e.delNow s i).length ↔ ((e.out s i).valid = true ∧ i.ready = true) := by
  unfold delNow
  cases h1 : (e.out s i).valid <;> cases h2 : i.ready <;> simp

/-- **Additive composition.** -/
theorem Flow.comp {a : Elem α β σ} {b : Elem β γ τ} {Ia : σ → Prop} {Ib : τ → Prop}
    {μa : σ → Nat} {Ba : Nat} {nea : σ → Bool} {μb : τ → Nat} {Bb : Nat} {neb : τ → Bool}
    (ha : Flow a Ia μa Ba nea) (hb : Drain b Ib μb Bb neb) :
    Drain (a.comp b) (fun s => Ia s.1 ∧ Ib s.2) (fun s => μb s.2 + (if neb s.2 then 0 else μa s.1)) (Ba + Bb)
      (fun s => nea s.1 || neb s.2) where
  inv_step s i h := by
    rw [comp_step]
    exact ⟨ha.inv_step s.1 _ h.1, hb.inv_step s.2 _ h.2⟩
  bound s h := by
    have h1 := ha.bound s.1 h.1
    have h2 := hb.bound s.2 h.2
    show μb s.2 + (if neb s.2 then 0 else μa s.1) ≤ Ba + Bb
    split <;> omega
  d1 s i h hc := by
    obtain ⟨hv, hr⟩ := hc
    rw [comp_delNow, comp_step]
    show 1 ≤ (b.delNow s.2 (compInB a b s i)).length ∨
      (μb (b.step s.2 (compInB a b s i)) + (if neb (b.step s.2 (compInB a b s i)) then 0 else μa (a.step s.1 (compInA a b s i))) <
        μb s.2 + (if neb s.2 then 0 else μa s.1) ∧
       (nea (a.step s.1 (compInA a b s i)) || neb (b.step s.2 (compInB a b s i))) = true)
    cases hne : neb s.2 with
    | true =>
      rcases hb.d2 s.2 (compInB a b s i) h.2 hr hne with h1 | ⟨h1, h2⟩
      · exact Or.inl h1
      · right; rw [h2]; simp; omega
    | false =>
      rcases ha.off s.1 (compInA a b s i) h.1 hv with hoff | hdec
      · -- `a` offers: `b` sees a cooperative cycle
        have hcoopB : Coop (compInB a b s i) := by
          refine ⟨?_, hr⟩
          show (a.fwd s.1 i.valid i.tok).1 = true
          rw [hv]; exact hoff
        rcases hb.d1 s.2 (compInB a b s i) h.2 hcoopB with h1 | ⟨h1, h2⟩
        · exact Or.inl h1
        · right; rw [h2]; simp; omega
      · -- `a` does not offer yet (or does, in which case the first branch applies as well)
        cases hof : (a.fwd s.1 true i.tok).1 with
        | true =>
          have hcoopB : Coop (compInB a b s i) := by
            refine ⟨?_, hr⟩
            show (a.fwd s.1 i.valid i.tok).1 = true
            rw [hv]; exact hof
          rcases hb.d1 s.2 (compInB a b s i) h.2 hcoopB with h1 | ⟨h1, h2⟩
          · exact Or.inl h1
          · right; rw [h2]; simp; omega
        | false =>
          have hBv : (compInB a b s i).valid = false := by
            show (a.fwd s.1 i.valid i.tok).1 = false
            rw [hv]; exact hof
          obtain ⟨g1, g2, _⟩ := hb.d3 s.2 (compInB a b s i) h.2 hBv hne
          have g3 := ha.a1 s.1 (compInA a b s i) h.1 hv hof
          right
          rw [g1, g3]
          have hdec' : μa (a.step s.1 (compInA a b s i)) < μa s.1 := hdec
          simp; omega
  d2 s i h hr hne := by
    rw [comp_delNow, comp_step]
    show 1 ≤ (b.delNow s.2 (compInB a b s i)).length ∨
      (μb (b.step s.2 (compInB a b s i)) + (if neb (b.step s.2 (compInB a b s i)) then 0 else μa (a.step s.1 (compInA a b s i))) <
        μb s.2 + (if neb s.2 then 0 else μa s.1) ∧
       (nea (a.step s.1 (compInA a b s i)) || neb (b.step s.2 (compInB a b s i))) = true)
    cases hnb : neb s.2 with
    | true =>
      rcases hb.d2 s.2 (compInB a b s i) h.2 hr hnb with h1 | ⟨h1, h2⟩
      · exact Or.inl h1
      · right; rw [h2]; simp; omega
    | false =>
      have hna : nea s.1 = true := by
        have : (nea s.1 || neb s.2) = true := hne
        rw [hnb] at this; simpa using this
      -- `b` is empty, hence ready: `a` sees a ready consumer
      have hrA : (compInA a b s i).ready = true := by
        show b.bwd s.2 _ _ i.ready = true
        rw [hr]; exact hb.e1 s.2 _ _ h.2 hnb
      rcases ha.d2 s.1 (compInA a b s i) h.1 hrA hna with h1 | ⟨h1, h2⟩
      · -- `a` hands a token to `b`
        have h1' := (delNow_pos_iff a s.1 (compInA a b s i)).1 h1
        have hcoopB : Coop (compInB a b s i) := ⟨h1'.1, hr⟩
        rcases hb.d1 s.2 (compInB a b s i) h.2 hcoopB with g1 | ⟨g1, g2⟩
        · exact Or.inl g1
        · right; rw [g2]; simp; omega
      · -- `a` keeps working; does it offer?  If it does, `b` (ready) takes the token: covered by `d1` of `b`
        cases hof : (compInB a b s i).valid with
        | true =>
          have hcoopB : Coop (compInB a b s i) := ⟨hof, hr⟩
          rcases hb.d1 s.2 (compInB a b s i) h.2 hcoopB with g1 | ⟨g1, g2⟩
          · exact Or.inl g1
          · right; rw [g2]; simp; omega
        | false =>
          obtain ⟨g1, g2, _⟩ := hb.d3 s.2 (compInB a b s i) h.2 hof hnb
          right
          rw [g1, h2]
          simp; omega
  d3 s i h hv hne := by
    have hna : nea s.1 = false := by
      have : (nea s.1 || neb s.2) = false := hne
      cases h1 : nea s.1 <;> simp_all
    have hnb : neb s.2 = false := by
      have : (nea s.1 || neb s.2) = false := hne
      cases h1 : neb s.2 <;> simp_all
    obtain ⟨a1, a2, a3⟩ := ha.d3 s.1 (compInA a b s i) h.1 hv hna
    have hBv : (compInB a b s i).valid = false := by
      show (a.fwd s.1 i.valid i.tok).1 = false
      rw [hv]; exact a3
    obtain ⟨b1, b2, b3⟩ := hb.d3 s.2 (compInB a b s i) h.2 hBv hnb
    rw [comp_step]
    refine ⟨?_, ?_, ?_⟩
    · show (nea (a.step s.1 (compInA a b s i)) || neb (b.step s.2 (compInB a b s i))) = false
      rw [a1, b1]; rfl
    · show μb (b.step s.2 (compInB a b s i)) + (if neb (b.step s.2 (compInB a b s i)) then 0 else μa (a.step s.1 (compInA a b s i))) ≤
        μb s.2 + (if neb s.2 then 0 else μa s.1)
      rw [b1, hnb]; simp; omega
    · show (b.fwd s.2 (a.fwd s.1 false i.tok).1 (a.fwd s.1 false i.tok).2).1 = false
      have a3' : (a.fwd s.1 false i.tok).1 = false := a3
      rw [a3']
      have := hb.d3 s.2 ⟨false, (a.fwd s.1 false i.tok).2, i.ready⟩ h.2 rfl hnb
      exact this.2.2
  e1 s v t h hne := by
    have hna : nea s.1 = false := by
      have : (nea s.1 || neb s.2) = false := hne
      cases h1 : nea s.1 <;> simp_all
    have hnb : neb s.2 = false := by
      have : (nea s.1 || neb s.2) = false := hne
      cases h1 : neb s.2 <;> simp_all
    show a.bwd s.1 v t (b.bwd s.2 _ _ true) = true
    rw [hb.e1 s.2 _ _ h.2 hnb]
    exact ha.e1 s.1 v t h.1 hna

end Elem

open Elem
variable {α : Type}

/-! ### Every stage kind is a `Flow` -/

theorem wire_flow : Flow (wire (α := α)) (fun _ => True) (fun _ => 0) 0 (fun _ => false) where
  inv_step _ _ _ := trivial
  bound _ _ := Nat.le_refl _
  d1 s i _ hc := by
    left
    obtain ⟨hv, hr⟩ := hc
    simp [delNow, wire, Elem.out, hv, hr]
  d2 _ _ _ _ h := by cases h
  d3 _ _ _ hv _ := ⟨rfl, Nat.le_refl _, rfl⟩
  e1 _ _ _ _ _ := rfl
  off _ _ _ _ := Or.inl rfl
  a1 _ _ _ _ h := by simp [wire] at h

theorem pipeValid_flow (z : Tok α) :
    Flow (pipeValid z) (fun _ => True) (fun s => if s.valid then 0 else 1) 1 (fun s => s.valid) where
  inv_step _ _ _ := trivial
  bound s _ := by split <;> omega
  d1 s i _ hc := by
    obtain ⟨hv, hr⟩ := hc
    obtain ⟨sv, st⟩ := s
    obtain ⟨iv, it, ir⟩ := i
    simp only at hv hr; subst hv; subst hr
    cases sv <;> simp [pipeValid, Elem.step, Elem.delNow, Elem.out]
  d2 s i _ hr hne := by
    obtain ⟨sv, st⟩ := s
    obtain ⟨iv, it, ir⟩ := i
    simp only at hr hne; subst hr; subst hne
    left; simp [pipeValid, Elem.delNow, Elem.out]
  d3 s i _ hv hne := by
    obtain ⟨sv, st⟩ := s
    obtain ⟨iv, it, ir⟩ := i
    simp only at hv hne; subst hv; subst hne
    simp [pipeValid, Elem.step]
  e1 s v t _ hne := by
    obtain ⟨sv, st⟩ := s
    simp only at hne; subst hne
    simp [pipeValid]
  off := (pipeValid_live z).off
  a1 s i _ hv hof := by
    obtain ⟨sv, st⟩ := s
    obtain ⟨iv, it, ir⟩ := i
    simp only at hv; subst hv
    have : sv = false := by simpa [pipeValid] using hof
    subst this
    simp [pipeValid, Elem.step]

theorem pipeReady_flow (z : Tok α) : Flow (pipeReady z) prInv (fun _ => 0) 0 (fun s => s.valid) where
  inv_step := pipeReady_inv_step z
  bound _ _ := Nat.le_refl _
  d1 s i hs hc := by
    left
    have := pipeReady_hs_window z s hs [i] (by intro x hx; simp at hx; subst hx; exact hc) rfl
    simpa [delivered] using this
  d2 s i hs hr hne := by
    left
    obtain ⟨sv, sdv, st⟩ := s
    obtain ⟨iv, it, ir⟩ := i
    simp only at hr hne; subst hr; subst hne
    unfold prInv at hs
    have : sdv = true := hs rfl
    subst this
    simp [pipeReady, Elem.delNow, Elem.out]
  d3 s i _ hv hne := by
    obtain ⟨sv, sdv, st⟩ := s
    obtain ⟨iv, it, ir⟩ := i
    simp only at hv hne; subst hv; subst hne
    cases ir <;> simp [pipeReady, Elem.step]
  e1 s v t _ hne := by
    obtain ⟨sv, sdv, st⟩ := s
    simp only at hne; subst hne
    simp [pipeReady]
  off := (pipeReady_live z).off
  a1 s i hs hv hof := by
    exfalso
    rcases (pipeReady_live z).off s i hs hv with h | h
    · rw [h] at hof; cases hof
    · exact Nat.lt_irrefl _ h

theorem syncFifo_flow (depth : Nat) (hd : 0 < depth) (z : Tok α) :
    Flow (syncFifo depth z) (fifoInv depth) (fun q => if q.isEmpty then 1 else 0) 1 (fun q => !q.isEmpty) where
  inv_step := syncFifo_inv_step depth z
  bound q _ := by split <;> omega
  d1 q i _ hc := by
    obtain ⟨hv, hr⟩ := hc
    obtain ⟨iv, it, ir⟩ := i
    simp only at hv hr; subst hv; subst hr
    have h0 : ¬ (0 = depth) := by omega
    cases q with
    | nil => right; simp [syncFifo, Elem.step, h0]
    | cons x xs => left; simp [syncFifo, Elem.delNow, Elem.out]
  d2 q i _ hr hne := by
    obtain ⟨iv, it, ir⟩ := i
    simp only at hr; subst hr
    cases q with
    | nil => simp at hne
    | cons x xs => left; simp [syncFifo, Elem.delNow, Elem.out]
  d3 q i _ hv hne := by
    obtain ⟨iv, it, ir⟩ := i
    simp only at hv; subst hv
    cases q with
    | nil => simp [syncFifo, Elem.step]
    | cons x xs => simp at hne
  e1 q v t _ hne := by
    cases q with
    | nil =>
      have h0 : ¬ (0 = depth) := by omega
      simp [syncFifo, h0]
    | cons x xs => simp at hne
  off := (syncFifo_live depth hd z).off
  a1 q i _ hv hof := by
    obtain ⟨iv, it, ir⟩ := i
    simp only at hv; subst hv
    have h0 : ¬ (0 = depth) := by omega
    cases q with
    | nil => cases ir <;> simp [syncFifo, Elem.step, h0]
    | cons x xs => simp [syncFifo] at hof

theorem syncFifoBuffered_flow (depth : Nat) (hd : 1 ≤ depth) (z : Tok α) :
    Flow (syncFifoBuffered depth z) (fbInv depth)
      (fun s => if s.readable then 0 else if s.q.isEmpty then 2 else 1) 2 (fun s => s.readable || !s.q.isEmpty) where
  inv_step := syncFifoBuffered_inv_step depth hd z
  bound s _ := by split <;> (try split) <;> omega
  d1 s i _ hc := by
    obtain ⟨hv, hr⟩ := hc
    obtain ⟨iv, it, ir⟩ := i
    obtain ⟨q, rd, dout⟩ := s
    simp only at hv hr; subst hv; subst hr
    have h0 : ¬ (0 = depth) := by omega
    cases rd with
    | true => left; simp [syncFifoBuffered, Elem.delNow, Elem.out]
    | false =>
      right
      cases q with
      | nil => simp [syncFifoBuffered, Elem.step, h0]
      | cons x xs => simp [syncFifoBuffered, Elem.step]
  d2 s i _ hr hne := by
    obtain ⟨iv, it, ir⟩ := i
    obtain ⟨q, rd, dout⟩ := s
    simp only at hr; subst hr
    cases rd with
    | true => left; simp [syncFifoBuffered, Elem.delNow, Elem.out]
    | false =>
      right
      cases q with
      | nil => simp at hne
      | cons x xs => simp [syncFifoBuffered, Elem.step]
  d3 s i _ hv hne := by
    obtain ⟨iv, it, ir⟩ := i
    obtain ⟨q, rd, dout⟩ := s
    simp only at hv; subst hv
    cases rd with
    | true => simp at hne
    | false =>
      cases q with
      | nil => cases ir <;> simp [syncFifoBuffered, Elem.step]
      | cons x xs => simp at hne
  e1 s v t _ hne := by
    obtain ⟨q, rd, dout⟩ := s
    have h0 : ¬ (0 = depth) := by omega
    cases rd with
    | true => simp at hne
    | false =>
      cases q with
      | nil => simp [syncFifoBuffered, h0]
      | cons x xs => simp at hne
  off := (syncFifoBuffered_live depth hd z).off
  a1 s i _ hv hof := by
    obtain ⟨iv, it, ir⟩ := i
    obtain ⟨q, rd, dout⟩ := s
    simp only at hv; subst hv
    have h0 : ¬ (0 = depth) := by omega
    cases rd with
    | true => simp [syncFifoBuffered] at hof
    | false =>
      cases q with
      | nil => cases ir <;> simp [syncFifoBuffered, Elem.step, h0]
      | cons x xs => cases ir <;> simp [syncFifoBuffered, Elem.step]

/-! ### Pipelines: additive bound by induction over the stage list -/

/-- Latency contribution of a stage to the delivery window. -/
def stageLat : Stage → Nat
  | .wire => 0
  | .pv => 1
  | .pr => 0
  | .fifo _ => 1
  | .fifoB _ => 2

def stageNe : (st : Stage) → StageState α st → Bool
  | .wire, _ => false
  | .pv, s => let s' : PVState α := s; s'.valid
  | .pr, s => let s' : PRState α := s; s'.valid
  | .fifo _, s => let q : List (Tok α) := s; !q.isEmpty
  | .fifoB _, s => let s' : FBState α := s; s'.readable || !s'.q.isEmpty

theorem stage_flow (z : Tok α) : ∀ st : Stage, stageOk st →
    Flow (stageElem z st) (stageInv st) (stageMu st) (stageLat st) (stageNe st)
  | .wire, _ => wire_flow
  | .pv, _ => pipeValid_flow z
  | .pr, _ => pipeReady_flow z
  | .fifo d, h => syncFifo_flow d h z
  | .fifoB d, h => syncFifoBuffered_flow d h z

def pipeLat : List Stage → Nat
  | [] => 0
  | st :: l => stageLat st + pipeLat l

def pipeNe : (l : List Stage) → PipeState α l → Bool
  | [], _ => false
  | st :: l, s => stageNe st s.1 || pipeNe l s.2

def pipeMuAdd : (l : List Stage) → PipeState α l → Nat
  | [], _ => 0
  | st :: l, s => pipeMuAdd l s.2 + (if pipeNe l s.2 then 0 else stageMu st s.1)

theorem stages_drain (z : Tok α) : ∀ l : List Stage, (∀ st ∈ l, stageOk st) →
    Drain (stages z l) (pipeInv l) (pipeMuAdd l) (pipeLat l) (pipeNe l)
  | [], _ => wire_flow.toDrain
  | st :: l, h =>
    Flow.comp (stage_flow z st (h st (by simp))) (stages_drain z l (fun x hx => h x (by simp [hx])))

theorem pipeLat_delayStages : ∀ n : Nat, pipeLat (delayStages n) = n
  | 0 => rfl
  | n + 1 => by
    have ih := pipeLat_delayStages n
    have : delayStages (n + 1) = Stage.pv :: delayStages n := by
      simp [delayStages, List.replicate_succ, bufferStages]
    rw [this]
    simp [pipeLat, stageLat, ih]; omega

theorem pipeLat_syncFifoStages_le (depth : Nat) (buffered : Bool) : pipeLat (syncFifoStages depth buffered) ≤ 2 := by
  unfold syncFifoStages
  by_cases h2 : depth ≥ 2
  · cases buffered <;> simp [h2, pipeLat, stageLat]
  · by_cases h1 : depth = 1
    · simp [h1, bufferStages, pipeLat, stageLat]
    · simp [h2, h1, pipeLat]

end Litex.Stream
