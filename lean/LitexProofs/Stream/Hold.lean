import LitexModel.Stream.Core
/-
  Induction principle for elements whose token relation needs the *producer contract*: a producer that offered
  a token which was not accepted offers the same token again in the next cycle (combinational elements such as
  `_DownConverter`/`Unpack` read the sink several times before they accept it).
-/
namespace Litex.Stream
namespace Elem
variable {α β σ : Type}

/-- The token the producer is obliged to present again in the next cycle (offered, not accepted). -/
def obl (e : Elem α β σ) (s : σ) (i : In α) : Option (Tok α) :=
  if i.valid && !(e.out s i).ready then some i.tok else none

/-- The producer honours the contract at this cycle: a pending obligation `p` is presented. -/
def Meets (p : Option (Tok α)) (i : In α) : Prop := ∀ t, p = some t → i.valid = true ∧ i.tok = t

/-- The producer honours the contract along the whole run `ins` (started in state `s` with obligation `p`). -/
def Held (e : Elem α β σ) : σ → Option (Tok α) → List (In α) → Prop
  | _, _, [] => True
  | s, p, i :: is => Meets p i ∧ Held e (e.step s i) (e.obl s i) is

/-- The obligation left after the run. -/
def oblAfter (e : Elem α β σ) : σ → Option (Tok α) → List (In α) → Option (Tok α)
  | _, p, [] => p
  | s, _, i :: is => oblAfter e (e.step s i) (e.obl s i) is

/-- History-invariant induction under the producer contract. -/
theorem rel_run_held (e : Elem α β σ) (R : σ → Option (Tok α) → List (Tok α) → List (Tok β) → Prop)
    (hstep : ∀ s p a d i, R s p a d → Meets p i →
      R (e.step s i) (e.obl s i) (a ++ e.accNow s i) (d ++ e.delNow s i)) :
    ∀ (ins : List (In α)) (s : σ) (p : Option (Tok α)) (a : List (Tok α)) (d : List (Tok β)),
      R s p a d → e.Held s p ins →
      R (e.runFrom s ins) (e.oblAfter s p ins) (a ++ e.accepted s ins) (d ++ e.delivered s ins) := by
  intro ins
  induction ins with
  | nil => intro s p a d h _; simpa [accepted, delivered, oblAfter] using h
  | cons i is ih =>
    intro s p a d h hh
    have := ih (e.step s i) (e.obl s i) _ _ (hstep s p a d i h hh.1) hh.2
    simpa [accepted, delivered, oblAfter, List.append_assoc] using this

theorem rel_run_held_init (e : Elem α β σ) (R : σ → Option (Tok α) → List (Tok α) → List (Tok β) → Prop)
    (h0 : R e.init none [] [])
    (hstep : ∀ s p a d i, R s p a d → Meets p i →
      R (e.step s i) (e.obl s i) (a ++ e.accNow s i) (d ++ e.delNow s i)) :
    ∀ ins, e.Held e.init none ins →
      R (e.runFrom e.init ins) (e.oblAfter e.init none ins) (e.accepted e.init ins) (e.delivered e.init ins) := by
  intro ins hh
  simpa using rel_run_held e R hstep ins e.init none [] [] h0 hh

end Elem
end Litex.Stream
