import LitexProofs.Stream.HandshakeComp
import LitexProofs.Packet.Packetizer
/-
  C04 for `packet.Packetizer` / `packet.Depacketizer` with a header that is a multiple of the beat
  (`c.aligned = true`, at least one header word; models of b-c16).
-/
namespace Litex.Packet
open Litex Litex.Stream Litex.Stream.Elem

/-! ### Packetizer (aligned) -/

/-- The unaligned copy state is never entered. -/
def pkInv (s : PkState) : Prop := s.st ≠ .ucopy

theorem packetizer_inv_step (c : PkCfg) (ha : c.aligned = true) (s : PkState) (i : In HBeat) (h : pkInv s) :
    pkInv ((packetizer c).step s i) := by
  obtain ⟨st, sr, cnt, fi, dd, dl⟩ := s
  obtain ⟨iv, it, ir⟩ := i
  unfold pkInv at *
  simp only at h
  cases st with
  | idle => simp only [packetizer, Elem.step, PkCfg.copy, ha]; split <;> (try split) <;> simp
  | hdr => simp only [packetizer, Elem.step, PkCfg.copy, ha]; split <;> (try split) <;> simp
  | acopy => simp only [packetizer, Elem.step, PkCfg.copy, ha]; split <;> simp
  | ucopy => exact absurd rfl h

/-- IDLE presents the first header word combinationally from the refused (hence held) sink token; HEADER-SEND and
    ALIGNED-DATA-COPY move only on a source handshake. -/
theorem packetizer_stepStable (c : PkCfg) (ha : c.aligned = true) : StepStable (packetizer c) pkInv where
  inv_step := packetizer_inv_step c ha
  hold s i i' hs hin := by
    obtain ⟨st, sr, cnt, fi, dd, dl⟩ := s
    obtain ⟨iv, it, ir⟩ := i
    obtain ⟨jv, jt, jr⟩ := i'
    unfold pkInv at hs
    simp only at hs
    intro hv hr
    simp only at hr; subst hr
    cases st with
    | ucopy => exact absurd rfl hs
    | hdr =>
      simp only [packetizer, Elem.out, Elem.step, ha] at hv ⊢
      simp
    | idle =>
      simp only [packetizer, Elem.out, Elem.step, ha, HoldsIn] at hv hin ⊢
      cases iv with
      | false => simp at hv
      | true =>
        obtain ⟨h1, h2⟩ := hin rfl (by simp)
        subst h1; subst h2
        simp
    | acopy =>
      simp only [packetizer, Elem.out, Elem.step, ha, HoldsIn] at hv hin ⊢
      cases iv with
      | false => simp at hv
      | true =>
        obtain ⟨h1, h2⟩ := hin rfl (by simp)
        subst h1; subst h2
        simp

/-- Every cooperative cycle delivers a beat (a header word or a payload beat). -/
theorem packetizer_measure (c : PkCfg) (ha : c.aligned = true) :
    DelMeasure (packetizer c) pkInv (fun _ => 0) 0 where
  inv_step := packetizer_inv_step c ha
  bound _ _ := Nat.le_refl _
  dec s i hs hc := by
    obtain ⟨hv, hr⟩ := hc
    obtain ⟨st, sr, cnt, fi, dd, dl⟩ := s
    obtain ⟨iv, it, ir⟩ := i
    simp only at hv hr; subst hv; subst hr
    unfold pkInv at hs
    simp only at hs
    left
    cases st with
    | ucopy => exact absurd rfl hs
    | idle => simp [packetizer, Elem.delNow, Elem.out]
    | hdr => simp [packetizer, Elem.delNow, Elem.out]
    | acopy => simp [packetizer, Elem.delNow, Elem.out]

/-! ### Depacketizer (aligned) -/

/-- Never in the unaligned copy state, `sink_d` does not exist (its `last` stays 0), and while receiving the header
    the word counter is inside `1 … W − 1`. -/
def dpInv (c : PkCfg) (s : PkState) : Prop :=
  s.st ≠ .ucopy ∧ s.dLast = false ∧ (s.st = .hdr → 1 ≤ s.count ∧ s.count < c.W)

theorem depacketizer_inv_step (c : PkCfg) (ha : c.aligned = true) (hW : 1 ≤ c.W) (s : PkState) (i : In Nat)
    (h : dpInv c s) : dpInv c ((depacketizer c).step s i) := by
  obtain ⟨st, sr, cnt, fi, dd, dl⟩ := s
  obtain ⟨iv, it, ir⟩ := i
  obtain ⟨h1, h2, h3⟩ := h
  simp only at h1 h2 h3
  subst h2
  have hcm := W_le_cntMod c
  unfold dpInv
  cases st with
  | ucopy => exact absurd rfl h1
  | idle =>
    cases iv with
    | false => simp [depacketizer, Elem.step, ha]
    | true =>
      by_cases hw1 : c.W = 1
      · simp [depacketizer, Elem.step, ha, PkCfg.copy, hw1]
      · have : (c.W == 1) = false := by simpa using hw1
        simp [depacketizer, Elem.step, ha, PkCfg.copy, this]; omega
  | hdr =>
    obtain ⟨h4, h5⟩ := h3 rfl
    cases iv with
    | false => simp [depacketizer, Elem.step, ha]; omega
    | true =>
      by_cases hlast : cnt + 1 = c.W
      · simp [depacketizer, Elem.step, ha, PkCfg.copy, hlast]
      · have hmod : (cnt + 1) % c.cntMod = cnt + 1 := Nat.mod_eq_of_lt (by omega)
        simp [depacketizer, Elem.step, ha, hlast, hmod]; omega
  | acopy =>
    simp only [depacketizer, Elem.step, ha]
    split <;> simp

theorem depacketizer_stepStable (c : PkCfg) (ha : c.aligned = true) (hW : 1 ≤ c.W) :
    StepStable (depacketizer c) (dpInv c) where
  inv_step := depacketizer_inv_step c ha hW
  hold s i i' hs hin := by
    obtain ⟨st, sr, cnt, fi, dd, dl⟩ := s
    obtain ⟨iv, it, ir⟩ := i
    obtain ⟨jv, jt, jr⟩ := i'
    obtain ⟨h1, h2, _⟩ := hs
    simp only at h1 h2
    subst h2
    intro hv hr
    simp only at hr; subst hr
    cases st with
    | ucopy => exact absurd rfl h1
    | idle => simp [depacketizer, Elem.out] at hv
    | hdr => simp [depacketizer, Elem.out] at hv
    | acopy =>
      simp only [depacketizer, Elem.out, Elem.step, ha, HoldsIn, Bool.or_false] at hv hin ⊢
      subst hv
      obtain ⟨h3, h4⟩ := hin rfl (by simp)
      subst h3; subst h4
      simp

/-- Header words still to be received. -/
def dpMu (c : PkCfg) (s : PkState) : Nat :=
  match s.st with
  | .idle => c.W
  | .hdr => c.W - s.count
  | _ => 0

theorem depacketizer_measure (c : PkCfg) (ha : c.aligned = true) (hW : 1 ≤ c.W) :
    DelMeasure (depacketizer c) (dpInv c) (dpMu c) c.W where
  inv_step := depacketizer_inv_step c ha hW
  bound s _ := by
    unfold dpMu
    split <;> omega
  dec s i hs hc := by
    obtain ⟨hv, hr⟩ := hc
    obtain ⟨st, sr, cnt, fi, dd, dl⟩ := s
    obtain ⟨iv, it, ir⟩ := i
    obtain ⟨h1, h2, h3⟩ := hs
    simp only at hv hr h1 h2 h3; subst hv; subst hr; subst h2
    have hcm := W_le_cntMod c
    cases st with
    | ucopy => exact absurd rfl h1
    | acopy => left; simp [depacketizer, Elem.delNow, Elem.out]
    | idle =>
      right
      by_cases hw1 : c.W = 1
      · simp [depacketizer, Elem.step, ha, PkCfg.copy, hw1, dpMu]
      · have : (c.W == 1) = false := by simpa using hw1
        simp [depacketizer, Elem.step, ha, PkCfg.copy, this, dpMu]; omega
    | hdr =>
      right
      obtain ⟨h4, h5⟩ := h3 rfl
      by_cases hlast : cnt + 1 = c.W
      · simp [depacketizer, Elem.step, ha, PkCfg.copy, hlast, dpMu]; omega
      · have hmod : (cnt + 1) % c.cntMod = cnt + 1 := Nat.mod_eq_of_lt (by omega)
        simp [depacketizer, Elem.step, ha, hlast, hmod, dpMu]; omega

end Litex.Packet
