import LitexProofs.Stream.HandshakeComp
import LitexProofs.Stream.HandshakeBasic
import LitexModel.Stream.Conv
import LitexModel.Stream.Pipe
import LitexModel.Stream.Route
/-
  C04 one-cycle lemmas for converters (`_UpConverter`/`Pack`, `_DownConverter`/`Unpack`, `StrideConverter`),
  `Cast`, `Gate`, `Shifter`, `Delay`, and the front/back/measure instances of the basic elements.
-/
namespace Litex.Stream
open Elem
variable {α π : Type}

/-! ### Front / back / measure instances of the basic elements -/

theorem pipeValid_front (z : Tok α) : Front (pipeValid z) (fun _ => True) (fun s => s.valid) where
  inv_step _ _ _ := trivial
  offers s t _ h := h
  heats s i _ hv := by
    obtain ⟨sv, st⟩ := s
    obtain ⟨iv, it, ir⟩ := i
    simp only at hv; subst hv
    cases sv <;> cases ir <;> simp [pipeValid, Elem.step]

theorem pipeValid_back (z : Tok α) : Back (pipeValid z) (fun _ => True) (fun s => s.valid) where
  inv_step _ _ _ := trivial
  ready s v t _ := by simp [pipeValid]
  valid s v t _ := rfl
  fills s i _ h := by
    obtain ⟨sv, st⟩ := s
    obtain ⟨iv, it, ir⟩ := i
    cases sv <;> cases iv <;> cases ir <;> simp_all [pipeValid, Elem.step, Elem.accNow, Elem.out]

theorem pipeValid_measure (z : Tok α) :
    DelMeasure (pipeValid z) (fun _ => True) (fun s => if s.valid then 0 else 1) 1 where
  inv_step _ _ _ := trivial
  bound s _ := by split <;> omega
  dec s i _ hc := by
    obtain ⟨hv, hr⟩ := hc
    obtain ⟨sv, st⟩ := s
    obtain ⟨iv, it, ir⟩ := i
    simp only at hv hr; subst hv; subst hr
    cases sv <;> simp [pipeValid, Elem.step, Elem.delNow, Elem.out]

theorem pipeReady_front (z : Tok α) : Front (pipeReady z) prInv (fun _ => true) where
  inv_step := pipeReady_inv_step z
  offers s t hs _ := by
    obtain ⟨sv, sdv, st⟩ := s
    unfold prInv at hs
    cases sv <;> simp_all [pipeReady]
  heats _ _ _ _ := rfl

theorem pipeReady_measure (z : Tok α) : DelMeasure (pipeReady z) prInv (fun _ => 0) 0 where
  inv_step := pipeReady_inv_step z
  bound _ _ := Nat.le_refl _
  dec s i hs hc := by
    obtain ⟨hv, hr⟩ := hc
    obtain ⟨sv, sdv, st⟩ := s
    obtain ⟨iv, it, ir⟩ := i
    simp only at hv hr; subst hv; subst hr
    unfold prInv at hs
    left
    cases sv <;> cases sdv <;> simp_all [pipeReady, Elem.delNow, Elem.out]

theorem wire_front : Front (wire (α := α)) (fun _ => True) (fun _ => true) where
  inv_step _ _ _ := trivial
  offers _ _ _ _ := rfl
  heats _ _ _ _ := rfl

theorem wire_measure : DelMeasure (wire (α := α)) (fun _ => True) (fun _ => 0) 0 where
  inv_step _ _ _ := trivial
  bound _ _ := Nat.le_refl _
  dec s i _ hc := by
    obtain ⟨hv, hr⟩ := hc
    left
    simp [wire, Elem.delNow, Elem.out, hv, hr]

theorem syncFifo_front (depth : Nat) (hd : 2 ≤ depth) (z : Tok α) :
    Front (syncFifo depth z) (fifoInv depth) (fun q => !q.isEmpty) where
  inv_step := syncFifo_inv_step depth z
  offers q t _ h := by simpa [syncFifo] using h
  heats q i hq hv := by
    obtain ⟨iv, it, ir⟩ := i
    simp only at hv; subst hv
    unfold fifoInv at hq
    cases q with
    | nil =>
      have h0 : ¬ (0 = depth) := by omega
      simp [syncFifo, Elem.step, h0]
    | cons x xs =>
      by_cases hfull : xs.length + 1 = depth
      · cases xs with
        | nil => simp at hfull; omega
        | cons y ys => cases ir <;> simp [syncFifo, Elem.step] <;> split <;> simp
      · cases ir <;> simp [syncFifo, Elem.step, hfull]

theorem syncFifo_measure (depth : Nat) (hd : 0 < depth) (z : Tok α) :
    DelMeasure (syncFifo depth z) (fifoInv depth) (fun q => if q.isEmpty then 1 else 0) 1 where
  inv_step := syncFifo_inv_step depth z
  bound q _ := by split <;> omega
  dec q i _ hc := by
    obtain ⟨hv, hr⟩ := hc
    obtain ⟨iv, it, ir⟩ := i
    simp only at hv hr; subst hv; subst hr
    cases q with
    | nil =>
      have h0 : ¬ (0 = depth) := by omega
      simp [syncFifo, Elem.step, Elem.delNow, Elem.out, h0]
    | cons x xs => simp [syncFifo, Elem.delNow, Elem.out]

theorem syncFifoBuffered_measure (depth : Nat) (hd : 1 ≤ depth) (z : Tok α) :
    DelMeasure (syncFifoBuffered depth z) (fbInv depth)
      (fun s => if s.readable then 0 else if s.q.isEmpty then 2 else 1) 2 where
  inv_step := syncFifoBuffered_inv_step depth hd z
  bound s _ := by split <;> (try split) <;> omega
  dec s i _ hc := by
    obtain ⟨hv, hr⟩ := hc
    obtain ⟨iv, it, ir⟩ := i
    obtain ⟨q, rd, dout⟩ := s
    simp only at hv hr; subst hv; subst hr
    have h0 : ¬ (0 = depth) := by omega
    cases rd with
    | true => simp [syncFifoBuffered, Elem.delNow, Elem.out]
    | false =>
      cases q with
      | nil => simp [syncFifoBuffered, Elem.step, Elem.delNow, Elem.out, h0]
      | cons x xs => simp [syncFifoBuffered, Elem.step, Elem.delNow, Elem.out]

/-! ### _UpConverter / Pack -/

def upInv (r : Nat) (s : UpState α π) : Prop := s.demux < r

theorem upConv_inv_step (r : Nat) (hr : 0 < r) (z : α) (p0 : π) (s : UpState α π) (i : In (α × π))
    (h : upInv r s) : upInv r ((upConv r z p0).step s i) := by
  unfold upInv at *
  simp only [upConv, Elem.step]
  split
  · split
    · exact hr
    · rename_i h1 h2
      simp at h2
      omega
  · exact h

/-- While `strobe_all ∧ ¬source.ready`, `load_part` is 0 and nothing is written: no assumption on the producer
    is even needed. -/
theorem upConv_stepStable (r : Nat) (z : α) (p0 : π) : StepStable (upConv r z p0) (fun _ => True) where
  inv_step _ _ _ := trivial
  hold s i i' _ _ := by
    obtain ⟨iv, it, ir⟩ := i
    intro hv hr
    simp only [upConv, Elem.out, Elem.step] at *
    subst hr
    simp only [hv]
    simp [UpState.outTok]

theorem upConv_readyTransparent (r : Nat) (z : α) (p0 : π) :
    ReadyTransparent (upConv r z p0) (upInv r) := by
  intro s v t _
  simp [upConv]

/-- Cycles until the word is complete. -/
def upMu (r : Nat) (s : UpState α π) : Nat := if s.strobe then 0 else r - s.demux

theorem upConv_measure (r : Nat) (hr : 0 < r) (z : α) (p0 : π) :
    DelMeasure (upConv r z p0) (upInv r) (upMu r) r where
  inv_step := upConv_inv_step r hr z p0
  bound s _ := by unfold upMu; split <;> omega
  dec s i hs hc := by
    obtain ⟨hv, hrd⟩ := hc
    obtain ⟨iv, it, ir⟩ := i
    simp only at hv hrd; subst hv; subst hrd
    unfold upInv at hs
    unfold upMu
    cases hst : s.strobe with
    | true => left; simp [upConv, Elem.delNow, Elem.out, hst]
    | false =>
      right
      simp only [upConv, Elem.step, hst]
      by_cases hd : (s.demux + 1 == r || it.last) = true
      · simp [hd]; omega
      · simp only [Bool.not_eq_true] at hd
        simp [hd]; omega

/-! ### StrideConverter (up-converting): an `upConv` plus the param register latched on `load_part` -/

theorem strideUp_inv_step (r : Nat) (hr : 0 < r) (z : α) (p0 : π) (s : UpState α Unit × π) (i : In (α × π))
    (h : upInv r s.1) : upInv r ((strideUp r z p0).step s i).1 :=
  upConv_inv_step r hr z () s.1 ⟨i.valid, ⟨(i.tok.data.1, ()), i.tok.first, i.tok.last⟩, i.ready⟩ h

theorem strideUp_stepStable (r : Nat) (z : α) (p0 : π) : StepStable (strideUp r z p0) (fun _ => True) where
  inv_step _ _ _ := trivial
  hold s i i' _ _ := by
    obtain ⟨iv, it, ir⟩ := i
    obtain ⟨s1, s2⟩ := s
    intro hv hr
    simp only [strideUp, upConv, Elem.out, Elem.step] at *
    subst hr
    simp only [hv]
    simp [UpState.outTok]

theorem strideUp_readyTransparent (r : Nat) (z : α) (p0 : π) :
    ReadyTransparent (strideUp r z p0) (fun s => upInv r s.1) := by
  intro s v t _
  simp [strideUp]

theorem strideUp_measure (r : Nat) (hr : 0 < r) (z : α) (p0 : π) :
    DelMeasure (strideUp r z p0) (fun s => upInv r s.1) (fun s => upMu r s.1) r where
  inv_step s i h := strideUp_inv_step r hr z p0 s i h
  bound s _ := by unfold upMu; split <;> omega
  dec s i hs hc := by
    obtain ⟨hv, hrd⟩ := hc
    obtain ⟨iv, it, ir⟩ := i
    obtain ⟨s1, s2⟩ := s
    simp only at hv hrd hs; subst hv; subst hrd
    unfold upInv at hs
    unfold upMu
    cases hst : s1.strobe with
    | true => left; simp [strideUp, Elem.delNow, Elem.out, hst]
    | false =>
      right
      simp only [strideUp, upConv, Elem.step, hst]
      by_cases hd : (s1.demux + 1 == r || it.last) = true
      · simp [hd]; omega
      · simp only [Bool.not_eq_true] at hd
        simp [hd]; omega

/-! ### _DownConverter / Unpack -/

def downInv (r : Nat) (mux : Nat) : Prop := mux < r

theorem downConv_inv_step (r : Nat) (hr : 0 < r) (z : α) (mux : Nat) (i : In (List α × π))
    (h : downInv r mux) : downInv r ((downConv r z).step mux i) := by
  unfold downInv at *
  simp only [downConv, Elem.step]
  split
  · split
    · exact hr
    · rename_i h1 h2
      simp at h2
      omega
  · exact h

/-- Combinational data path: stable because the stalled producer holds the wide word and `mux` only moves on a
    source handshake. -/
theorem downConv_stepStable (r : Nat) (z : α) : StepStable (downConv (π := π) r z) (fun _ => True) where
  inv_step _ _ _ := trivial
  hold mux i i' _ hin := by
    obtain ⟨iv, it, ir⟩ := i
    obtain ⟨jv, jt, jr⟩ := i'
    intro hv hr
    simp only [downConv, Elem.out, Elem.step, HoldsIn] at *
    subst hr; subst hv
    obtain ⟨h1, h2⟩ := hin rfl (by simp)
    subst h1; subst h2
    simp

theorem downConv_front (r : Nat) (hr : 0 < r) (z : α) :
    Front (downConv (π := π) r z) (downInv r) (fun _ => true) where
  inv_step := downConv_inv_step r hr z
  offers _ _ _ _ := rfl
  heats _ _ _ _ := rfl

theorem downConv_measure (r : Nat) (hr : 0 < r) (z : α) :
    DelMeasure (downConv (π := π) r z) (downInv r) (fun _ => 0) 0 where
  inv_step := downConv_inv_step r hr z
  bound _ _ := Nat.le_refl _
  dec s i _ hc := by
    obtain ⟨hv, hrd⟩ := hc
    left
    simp [downConv, Elem.delNow, Elem.out, hv, hrd]

/-- The sink is served once per `r` cooperative cycles. -/
theorem downConv_acc_dec (r : Nat) (z : α) (mux : Nat) (i : In (List α × π)) (h : downInv r mux) (hc : Coop i) :
    1 ≤ ((downConv r z).accNow mux i).length ∨
      (fun m => r - 1 - m) ((downConv r z).step mux i) < (fun m => r - 1 - m) mux := by
  obtain ⟨hv, hrd⟩ := hc
  obtain ⟨iv, it, ir⟩ := i
  simp only at hv hrd; subst hv; subst hrd
  unfold downInv at h
  by_cases hl : mux + 1 = r
  · left; simp [downConv, Elem.accNow, Elem.out, hl]
  · right; simp [downConv, Elem.step, hl]; omega

/-! ### Cast and other combinational data maps -/

theorem mapElem_stepStable {β : Type} (f : α → β) : StepStable (mapElem f) (fun _ => True) where
  inv_step _ _ _ := trivial
  hold s i i' _ hin := by
    intro hv hr
    obtain ⟨h1, h2⟩ := hin hv hr
    exact ⟨h1, by show mapTok f i'.tok = mapTok f i.tok; rw [h2]⟩

theorem mapElem_measure {β : Type} (f : α → β) : DelMeasure (mapElem f) (fun _ => True) (fun _ => 0) 0 where
  inv_step _ _ _ := trivial
  bound _ _ := Nat.le_refl _
  dec s i _ hc := by
    obtain ⟨hv, hr⟩ := hc
    left
    simp [mapElem, Elem.delNow, Elem.out, hv, hr]

theorem mapElem_front {β : Type} (f : α → β) : Front (mapElem f) (fun _ => True) (fun _ => true) where
  inv_step _ _ _ := trivial
  offers _ _ _ _ := rfl
  heats _ _ _ _ := rfl

/-! ### Gate: `enable` travels with the sink-side wires (token data = (payload, enable)), so the producer
    contract `HoldsIn` covers it: while a token is refused, payload *and* enable are held. -/

theorem gate_stepStable (srd : Bool) (z : α) : StepStable (gate srd z) (fun _ => True) where
  inv_step _ _ _ := trivial
  hold s i i' _ hin := by
    obtain ⟨iv, ⟨⟨ip, ie⟩, ifi, ila⟩, ir⟩ := i
    obtain ⟨jv, jt, jr⟩ := i'
    intro hv hr
    simp only [gate, Elem.out, HoldsIn] at *
    cases ie with
    | false => simp at hv
    | true =>
      simp only [if_true] at hv hin ⊢
      subst hv; subst hr
      obtain ⟨h1, h2⟩ := hin rfl rfl
      subst h1; subst h2
      simp

/-- Cooperative cycle of a gate: valid, ready and enabled. -/
def GateCoop (i : In (α × Bool)) : Prop := Coop i ∧ i.tok.data.2 = true

theorem gate_del_window (srd : Bool) (z : α) (s : Unit) (ins : List (In (α × Bool)))
    (hc : ∀ i ∈ ins, GateCoop i) (hlen : ins.length = 1) : 1 ≤ ((gate srd z).delivered s ins).length := by
  match ins, hlen with
  | [i], _ =>
    obtain ⟨⟨hv, hr⟩, he⟩ := hc i (by simp)
    simp [delivered, delNow, gate, Elem.out, hv, hr, he]

/-! ### Shifter (PipelinedActor, latency 2): `shift` is read combinationally on the output side -/

/-- The extra assumption: while a token waits at the source, the `shift` input is held. -/
def ShiftHeld (s : ShState) (i i' : In (Nat × Nat)) : Prop :=
  s.v2 = true → i.ready = false → i'.tok.data.2 = i.tok.data.2

theorem shifter_stepStable (dw : Nat) : StepStableX (shifter dw) (fun _ => True) ShiftHeld where
  inv_step _ _ _ := trivial
  hold s i i' _ _ hx := by
    obtain ⟨iv, it, ir⟩ := i
    intro hv hr
    simp only [shifter, Elem.out, Elem.step, ShiftHeld] at *
    subst hr
    have := hx hv rfl
    simp [hv, this]

theorem shifter_readyTransparent (dw : Nat) : ReadyTransparent (shifter dw) (fun _ => True) := by
  intro s v t _
  simp [shifter]

theorem shifter_measure (dw : Nat) :
    DelMeasure (shifter dw) (fun _ => True) (fun s => if s.v2 then 0 else if s.v1 then 1 else 2) 2 where
  inv_step _ _ _ := trivial
  bound s _ := by split <;> (try split) <;> omega
  dec s i _ hc := by
    obtain ⟨hv, hr⟩ := hc
    obtain ⟨iv, it, ir⟩ := i
    simp only at hv hr; subst hv; subst hr
    cases h2 : s.v2 <;> cases h1 : s.v1 <;> simp [shifter, Elem.step, Elem.delNow, Elem.out, h1, h2]

/-! ### Delay n = PipeValid ⟫ … ⟫ PipeValid -/

theorem delay_stepStable (z : Tok α) : ∀ n, StepStable (delay z n) (fun _ => True)
  | 0 => wire_stepStable
  | n + 1 =>
    ((pipeValid_stepStable z).comp (delay_stepStable z n)).congr (fun _ => ⟨fun _ => ⟨trivial, trivial⟩, fun _ => trivial⟩)

theorem delay_readyTransparent (z : Tok α) : ∀ n, ReadyTransparent (delay z n) (fun _ => True)
  | 0 => by intro s v t _; rfl
  | n + 1 => by
    intro s v t _
    exact ReadyTransparent.comp (Ia := fun _ => True) (Ib := fun _ => True)
      (fun s v t _ => (pipeValid_back z).ready s v t trivial) (delay_readyTransparent z n) s v t ⟨trivial, trivial⟩

/-- A delivery measure bounded by `n`: a delivery every `n + 1` cooperative cycles. -/
theorem delay_measure (z : Tok α) : ∀ n, ∃ μ, DelMeasure (delay z n) (fun _ => True) μ n
  | 0 => ⟨_, wire_measure⟩
  | n + 1 => by
    obtain ⟨μ, h⟩ := delay_measure z n
    exact ⟨_, ((pipeValid_front z).comp h).congr (fun _ => ⟨fun _ => ⟨trivial, trivial⟩, fun _ => trivial⟩)⟩

/-- Sharper form for the gate: the producer holds valid/payload/first/last of a refused token (`GateHoldsIn`, no
    demand on `enable`), and whoever drives `enable` holds it while a token waits at the *source*
    (`EnableHeld`). -/
def GateHoldsIn (i i' : In (α × Bool)) (sinkReady : Bool) : Prop :=
  i.valid = true → sinkReady = false →
    (i'.valid = true ∧ i'.tok.data.1 = i.tok.data.1 ∧ i'.tok.first = i.tok.first ∧ i'.tok.last = i.tok.last)

def EnableHeld (i i' : In (α × Bool)) (o : Out α) : Prop :=
  o.valid = true → i.ready = false → i'.tok.data.2 = i.tok.data.2

theorem gate_hold_sharp (srd : Bool) (z : α) (i i' : In (α × Bool))
    (hin : GateHoldsIn i i' ((gate srd z).out () i).ready) (hen : EnableHeld i i' ((gate srd z).out () i)) :
    HoldsOut ((gate srd z).out () i) ((gate srd z).out ((gate srd z).step () i) i') i := by
  obtain ⟨iv, ⟨⟨ip, ie⟩, ifi, ila⟩, ir⟩ := i
  obtain ⟨jv, ⟨⟨jp, je⟩, jfi, jla⟩, jr⟩ := i'
  intro hv hr
  simp only [gate, Elem.out, GateHoldsIn, EnableHeld] at *
  cases ie with
  | false => simp at hv
  | true =>
    simp only [if_true] at hv hin hen ⊢
    subst hv; subst hr
    obtain ⟨h1, h2, h3, h4⟩ := hin rfl rfl
    have h5 := hen rfl rfl
    subst h1; subst h2; subst h3; subst h4; subst h5
    simp

/-! ### Pipeline(PipeValid, SyncFIFO, PipeReady): a handshake in every cooperative cycle -/

theorem chain3_hs_window (depth : Nat) (hd : 0 < depth) (z : Tok α)
    (s : PVState α × List (Tok α) × PRState α) (hs : prInv s.2.2) (ins : List (In α))
    (hc : ∀ i ∈ ins, Coop i) (hlen : ins.length = 1) :
    1 ≤ ((pipeValid z).comp ((syncFifo depth z).comp (pipeReady z))).hsCount s ins := by
  match ins, hlen with
  | [i], _ =>
    obtain ⟨hv, hr⟩ := hc i (by simp)
    obtain ⟨iv, it, ir⟩ := i
    obtain ⟨⟨av, at_⟩, q, ⟨bv, bdv, bt⟩⟩ := s
    simp only at hv hr; subst hv; subst hr
    unfold prInv at hs
    simp only at hs
    have h0 : ¬ (0 = depth) := by omega
    unfold hsCount
    cases bv with
    | true =>
      -- PipeReady holds a parked (valid) token: it is delivered
      have hb : bdv = true := hs rfl
      subst hb
      refine Nat.le_trans ?_ (Nat.le_add_left _ _)
      simp [delivered, delNow, Elem.comp, pipeReady, Elem.out]
    | false =>
      cases q with
      | cons x xs =>
        -- the FIFO offers, PipeReady passes it through: delivered
        refine Nat.le_trans ?_ (Nat.le_add_left _ _)
        simp [delivered, delNow, Elem.comp, pipeReady, syncFifo, Elem.out]
      | nil =>
        -- empty FIFO is writable, so PipeValid's consumer is ready: accepted
        refine Nat.le_trans ?_ (Nat.le_add_right _ _)
        simp [accepted, accNow, Elem.comp, pipeValid, syncFifo, Elem.out, h0]

/-! ### The sink is served (AcceptsWithin) for the elements that are not ready-transparent -/

theorem pipeReady_acc_dec (z : Tok α) (s : PRState α) (i : In α) (hs : prInv s) (hc : Coop i) :
    1 ≤ ((pipeReady z).accNow s i).length ∨
      (fun s : PRState α => if s.valid then 1 else 0) ((pipeReady z).step s i) <
        (fun s : PRState α => if s.valid then 1 else 0) s := by
  obtain ⟨hv, hr⟩ := hc
  obtain ⟨iv, it, ir⟩ := i
  obtain ⟨sv, sdv, st⟩ := s
  simp only at hv hr; subst hv; subst hr
  cases sv <;> simp [pipeReady, Elem.step, Elem.accNow, Elem.out]

theorem syncFifo_acc_dec (depth : Nat) (hd : 0 < depth) (z : Tok α) (q : List (Tok α)) (i : In α)
    (hq : fifoInv depth q) (hc : Coop i) :
    1 ≤ ((syncFifo depth z).accNow q i).length ∨
      (fun q : List (Tok α) => if q.length = depth then 1 else 0) ((syncFifo depth z).step q i) <
        (fun q : List (Tok α) => if q.length = depth then 1 else 0) q := by
  obtain ⟨hv, hr⟩ := hc
  obtain ⟨iv, it, ir⟩ := i
  simp only at hv hr; subst hv; subst hr
  unfold fifoInv at hq
  by_cases hfull : q.length = depth
  · right
    cases q with
    | nil => simp at hfull; omega
    | cons x xs =>
      have h1 : ¬ (xs.length = depth) := by simp at hfull; omega
      simp [syncFifo, Elem.step, hfull, h1]
  · left
    simp [syncFifo, Elem.accNow, Elem.out, hfull]

theorem syncFifoBuffered_acc_dec (depth : Nat) (hd : 2 ≤ depth) (z : Tok α) (s : FBState α) (i : In α)
    (hs : fbInv depth s) (hc : Coop i) :
    1 ≤ ((syncFifoBuffered depth z).accNow s i).length ∨
      (fun s : FBState α => if s.q.length = depth then 1 else 0) ((syncFifoBuffered depth z).step s i) <
        (fun s : FBState α => if s.q.length = depth then 1 else 0) s := by
  obtain ⟨hv, hr⟩ := hc
  obtain ⟨iv, it, ir⟩ := i
  obtain ⟨q, rd, dout⟩ := s
  obtain ⟨h1, h2⟩ := hs
  simp only at hv hr h1 h2; subst hv; subst hr
  by_cases hfull : q.length = depth
  · right
    -- a full inner FIFO (≥ 2 words) implies the output register is occupied: it is taken, the inner FIFO pops
    have hrd : rd = true := by
      cases rd with
      | true => rfl
      | false => have := h2 rfl; omega
    subst hrd
    cases q with
    | nil => simp at hfull; omega
    | cons x xs =>
      have h3 : ¬ (xs.length = depth) := by simp at hfull; omega
      simp [syncFifoBuffered, Elem.step, hfull, h3]
  · left
    simp [syncFifoBuffered, Elem.accNow, Elem.out, hfull]

theorem wire_readyTransparent : ReadyTransparent (wire (α := α)) (fun _ => True) := fun _ _ _ _ => rfl

theorem mapElem_readyTransparent {β : Type} (f : α → β) : ReadyTransparent (mapElem f) (fun _ => True) :=
  fun _ _ _ _ => rfl

/-! ### Offer measures and idle-monotonicity (inputs of `OfferMeasure.comp`) -/

theorem upConv_offer (r : Nat) (hr : 0 < r) (z : α) (p0 : π) :
    OfferMeasure (upConv r z p0) (upInv r) (upMu r) r where
  inv_step := upConv_inv_step r hr z p0
  bound s _ := by unfold upMu; split <;> omega
  dec s i hs hv := by
    obtain ⟨iv, it, ir⟩ := i
    simp only at hv; subst hv
    unfold upInv at hs
    unfold upMu
    cases hst : s.strobe with
    | true => left; simp [upConv, hst]
    | false =>
      right
      simp only [upConv, Elem.step, hst]
      by_cases hd : (s.demux + 1 == r || it.last) = true
      · simp [hd]; omega
      · simp only [Bool.not_eq_true] at hd
        cases ir <;> simp [hd] <;> omega

theorem upConv_idleMono (r : Nat) (z : α) (p0 : π) : IdleMono (upConv r z p0) (upInv r) (upMu r) := by
  intro s i hs hrd
  obtain ⟨iv, it, ir⟩ := i
  simp only at hrd; subst hrd
  unfold upInv at hs
  unfold upMu
  cases hst : s.strobe with
  | true => left; simp [upConv, Elem.delNow, Elem.out, hst]
  | false =>
    right
    simp only [upConv, Elem.step, hst]
    cases iv with
    | false => simp
    | true =>
      by_cases hd : (s.demux + 1 == r || it.last) = true
      · simp [hd]
      · simp only [Bool.not_eq_true] at hd
        simp [hd]; omega

theorem pipeReady_idleMono (z : Tok α) : IdleMono (pipeReady z) prInv (fun _ => 0) :=
  fun _ _ _ _ => Or.inr (Nat.le_refl _)

theorem pipeValid_idleMono (z : Tok α) : IdleMono (pipeValid z) (fun _ => True) (fun s => if s.valid then 0 else 1) := by
  intro s i _ hrd
  obtain ⟨sv, st⟩ := s
  obtain ⟨iv, it, ir⟩ := i
  simp only at hrd; subst hrd
  cases sv <;> cases iv <;> simp [pipeValid, Elem.step, Elem.delNow, Elem.out]

theorem syncFifoBuffered_offer (depth : Nat) (hd : 1 ≤ depth) (z : Tok α) :
    OfferMeasure (syncFifoBuffered depth z) (fbInv depth)
      (fun s => if s.readable then 0 else if s.q.isEmpty then 2 else 1) 2 where
  inv_step := syncFifoBuffered_inv_step depth hd z
  bound s _ := by split <;> (try split) <;> omega
  dec s i _ hv := by
    obtain ⟨iv, it, ir⟩ := i
    obtain ⟨q, rd, dout⟩ := s
    simp only at hv; subst hv
    have h0 : ¬ (0 = depth) := by omega
    cases rd with
    | true => left; simp [syncFifoBuffered]
    | false =>
      right
      cases q with
      | nil => cases ir <;> simp [syncFifoBuffered, Elem.step, h0]
      | cons x xs => cases ir <;> simp [syncFifoBuffered, Elem.step]

end Litex.Stream
