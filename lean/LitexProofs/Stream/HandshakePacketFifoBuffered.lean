import LitexProofs.Stream.HandshakePacketFifo
import LitexProofs.Packet.FifoBuffered
/-
  C04 progress for `packet.PacketFIFO(buffered=True)` (two Migen `SyncFIFOBuffered`; model of b-c16:
  `packetFifoBuffered`, valid for `payload_depth ≥ 2`, `param_depth + 1 ≥ 2`).

  View: `storedPay` / `storedPar` = output register followed by the inner FIFO.  On these lists the buffered FIFO does
  what the plain one does (pop the head on a delivery, append on an acceptance); what differs is *when* the source is
  valid (`parV`, the param output register) — a param pushed into an empty queue needs one cycle to reach it.
  Hence: a handshake in every cooperative cycle (K = 1) and a delivery at least every `payload_depth + 2`.
-/
namespace Litex.Packet
open Litex.Stream Litex.Stream.Elem

/-! ### What one cycle does to the stored lists -/

theorem storedPay_pop (s : PFBState) (r : Bool) :
    storedPay (pfbPop s r) = if (s.payV && s.parV && r) then (storedPay s).tail else storedPay s := by
  obtain ⟨payQ, payV, payD, parQ, parV, parD⟩ := s
  cases payV <;> cases parV <;> cases r <;> cases payQ <;> simp [storedPay, pfbPop]

theorem storedPar_pop (s : PFBState) (r : Bool) :
    storedPar (pfbPop s r) = if (s.parV && s.payD.2 && r) then (storedPar s).tail else storedPar s := by
  obtain ⟨payQ, payV, payD, parQ, parV, parD⟩ := s
  cases parV <;> cases r <;> cases hd : payD.2 <;> cases parQ <;> simp [storedPar, pfbPop, hd]

/-- After the read side, an empty output register means an empty inner FIFO. -/
theorem pfbPop_payQ_nil (s : PFBState) (r : Bool) (h : (pfbPop s r).payV = false) : (pfbPop s r).payQ = [] := by
  obtain ⟨payQ, payV, payD, parQ, parV, parD⟩ := s
  cases payV <;> cases parV <;> cases r <;> cases payQ <;> simp_all [pfbPop]

theorem pfbPop_parQ_nil (s : PFBState) (r : Bool) (h : (pfbPop s r).parV = false) : (pfbPop s r).parQ = [] := by
  obtain ⟨payQ, payV, payD, parQ, parV, parD⟩ := s
  cases parV <;> cases r <;> cases hd : payD.2 <;> cases parQ <;> simp_all [pfbPop]

def pfbAcc (pd qd : Nat) (s : PFBState) (i : In PBeat) : Bool :=
  i.valid && (s.payQ.length != pd && s.parQ.length != qd)

theorem storedPay_step (pd qd : Nat) (s : PFBState) (i : In PBeat) :
    storedPay ((packetFifoBuffered pd qd).step s i) =
      storedPay (pfbPop s i.ready) ++ (if pfbAcc pd qd s i then [payOf i.tok] else []) := by
  rw [pfb_step_eq]
  unfold pfbAcc
  cases (i.valid && (s.payQ.length != pd && s.parQ.length != qd)) <;> simp [storedPay]

theorem storedPar_step (pd qd : Nat) (s : PFBState) (i : In PBeat) :
    storedPar ((packetFifoBuffered pd qd).step s i) =
      storedPar (pfbPop s i.ready) ++ (if (pfbAcc pd qd s i && i.tok.last) then [i.tok.data.param] else []) := by
  rw [pfb_step_eq]
  unfold pfbAcc
  cases (i.valid && (s.payQ.length != pd && s.parQ.length != qd) && i.tok.last) <;> simp [storedPar]

theorem step_payV (pd qd : Nat) (s : PFBState) (i : In PBeat) :
    ((packetFifoBuffered pd qd).step s i).payV = (pfbPop s i.ready).payV := by rw [pfb_step_eq]

theorem step_parV (pd qd : Nat) (s : PFBState) (i : In PBeat) :
    ((packetFifoBuffered pd qd).step s i).parV = (pfbPop s i.ready).parV := by rw [pfb_step_eq]

theorem step_payQ (pd qd : Nat) (s : PFBState) (i : In PBeat) :
    ((packetFifoBuffered pd qd).step s i).payQ =
      (pfbPop s i.ready).payQ ++ (if pfbAcc pd qd s i then [payOf i.tok] else []) := by
  rw [pfb_step_eq]; unfold pfbAcc
  cases (i.valid && (s.payQ.length != pd && s.parQ.length != qd)) <;> simp

theorem step_parQ (pd qd : Nat) (s : PFBState) (i : In PBeat) :
    ((packetFifoBuffered pd qd).step s i).parQ =
      (pfbPop s i.ready).parQ ++ (if (pfbAcc pd qd s i && i.tok.last) then [i.tok.data.param] else []) := by
  rw [pfb_step_eq]; unfold pfbAcc
  cases (i.valid && (s.payQ.length != pd && s.parQ.length != qd) && i.tok.last) <;> simp

/-! ### Invariant -/

/-- Occupancy; one stored param per stored last beat; the open packet leaves room for its last beat; the source is
    valid only with payload data; an empty output register has at most the word written in the previous cycle behind
    it; a param that has not reached its output register yet belongs to a packet that is completely stored and alone. -/
def pfbInv (pd qd : Nat) (s : PFBState) : Prop :=
  (s.payQ.length ≤ pd ∧ s.parQ.length ≤ qd) ∧
  (storedPar s).length = nLast (storedPay s) ∧
  tailLen (storedPay s) + 1 ≤ pd ∧
  (s.parV = true → s.payV = true) ∧
  (s.payV = false → s.payQ.length ≤ 1) ∧
  (s.parV = false → s.parQ.length ≤ 1) ∧
  (s.parV = false → s.parQ ≠ [] → (storedPay s).length ≤ pd)

def PfbLegal (pd : Nat) (s : PFBState) (i : In PBeat) : Prop :=
  i.valid = true → i.tok.last = false → tailLen (storedPay s) + 2 ≤ pd

def PfbCoop (pd : Nat) (s : PFBState) (i : In PBeat) : Prop := Coop i ∧ PfbLegal pd s i

/-- The read side on the stored lists: the plain FIFO's `pf_pop`. -/
theorem pfb_pop_abs (s : PFBState) (r : Bool) (h2 : (storedPar s).length = nLast (storedPay s))
    (h4 : s.parV = true → s.payV = true) :
    (storedPar (pfbPop s r)).length = nLast (storedPay (pfbPop s r)) ∧
    tailLen (storedPay (pfbPop s r)) = tailLen (storedPay s) := by
  rw [storedPay_pop, storedPar_pop]
  obtain ⟨payQ, payV, payD, parQ, parV, parD⟩ := s
  simp only at h4
  cases parV with
  | false => simpa using h2
  | true =>
    have hpv : payV = true := h4 rfl
    subst hpv
    cases r with
    | false => simpa using h2
    | true =>
      simp only [storedPay, storedPar, if_true, List.singleton_append] at h2 ⊢
      have hp := pf_pop (payD :: payQ) (parD :: parQ) true h2
      simp only [List.isEmpty_cons, Bool.not_false, Bool.and_self, Bool.and_true, if_true, List.tail_cons,
        List.headD_cons, Bool.true_and] at hp
      simp only [Bool.and_self, Bool.and_true, Bool.true_and, if_true, List.tail_cons]
      exact ⟨hp.1, hp.2.1⟩

theorem nLast_nil : nLast ([] : List (Nat × Bool)) = 0 := rfl

theorem nLast_zero_len (l : List (Nat × Bool)) (h : nLast l = 0) : tailLen l = l.length := by
  have := foldl_noLast l 0 h
  unfold tailLen; omega

theorem packetFifoBuffered_inv_step (pd qd : Nat) (s : PFBState) (i : In PBeat)
    (h : pfbInv pd qd s) (hl : PfbLegal pd s i) : pfbInv pd qd ((packetFifoBuffered pd qd).step s i) := by
  obtain ⟨h1, h2, h3, h4, _, _, _⟩ := h
  obtain ⟨q2, q3⟩ := pfb_pop_abs s i.ready h2 h4
  have hb := packetFifoBuffered_bound_step pd qd s i h1
  have hpayV := step_payV pd qd s i
  have hparV := step_parV pd qd s i
  have hsp := storedPay_step pd qd s i
  have hsr := storedPar_step pd qd s i
  have hroom : pfbAcc pd qd s i = true → i.valid = true ∧ s.payQ.length ≠ pd ∧ s.parQ.length ≠ qd := by
    intro ha
    unfold pfbAcc at ha
    simp only [Bool.and_eq_true, bne_iff_ne, ne_eq] at ha
    exact ⟨ha.1, ha.2.1, ha.2.2⟩
  -- abstract part after the write
  have hJ23 : (storedPar ((packetFifoBuffered pd qd).step s i)).length = nLast (storedPay ((packetFifoBuffered pd qd).step s i)) ∧
      tailLen (storedPay ((packetFifoBuffered pd qd).step s i)) + 1 ≤ pd := by
    rw [hsp, hsr]
    cases hacc : pfbAcc pd qd s i with
    | false => simp only [Bool.false_and, Bool.false_eq_true, if_false, List.append_nil]; exact ⟨q2, by omega⟩
    | true =>
      obtain ⟨hv, _, _⟩ := hroom hacc
      cases hlast : i.tok.last with
      | true =>
        simp only [Bool.and_self, if_true, List.length_append, List.length_singleton, nLast_append, tailLen_append,
          payOf, hlast]
        exact ⟨by omega, by omega⟩
      | false =>
        have := hl hv hlast
        simp only [Bool.and_false, Bool.false_eq_true, if_false, if_true, List.append_nil, nLast_append,
          tailLen_append, payOf, hlast]
        exact ⟨by omega, by omega⟩
  -- flags
  have hJ4 : ((packetFifoBuffered pd qd).step s i).parV = true → ((packetFifoBuffered pd qd).step s i).payV = true := by
    rw [hpayV, hparV]
    intro hp
    -- a valid param register after the read side means a stored param, hence a stored last beat
    cases hn' : (pfbPop s i.ready).payV with
    | true => rfl
    | false =>
      exfalso
      have hq := pfbPop_payQ_nil s i.ready hn'
      have : storedPay (pfbPop s i.ready) = [] := by simp [storedPay, hn', hq]
      rw [this, nLast_nil] at q2
      simp [storedPar, hp] at q2
  have hJ5 : ((packetFifoBuffered pd qd).step s i).payV = false → ((packetFifoBuffered pd qd).step s i).payQ.length ≤ 1 := by
    rw [hpayV, step_payQ]
    intro hp
    rw [pfbPop_payQ_nil s i.ready hp]
    split <;> simp
  have hJ6 : ((packetFifoBuffered pd qd).step s i).parV = false → ((packetFifoBuffered pd qd).step s i).parQ.length ≤ 1 := by
    rw [hparV, step_parQ]
    intro hp
    rw [pfbPop_parQ_nil s i.ready hp]
    split <;> simp
  have hJ7 : ((packetFifoBuffered pd qd).step s i).parV = false → ((packetFifoBuffered pd qd).step s i).parQ ≠ [] →
      (storedPay ((packetFifoBuffered pd qd).step s i)).length ≤ pd := by
    rw [hparV, step_parQ, hsp]
    intro hp hne
    have hq := pfbPop_parQ_nil s i.ready hp
    have hR : storedPar (pfbPop s i.ready) = [] := by simp [storedPar, hp, hq]
    rw [hR] at q2
    have hn0 : nLast (storedPay (pfbPop s i.ready)) = 0 := by simpa using q2.symm
    have hlen := nLast_zero_len _ hn0
    rw [hq] at hne
    cases hacc : pfbAcc pd qd s i with
    | false => simp [hacc] at hne
    | true => simp only [if_true, List.length_append, List.length_singleton]; omega
  exact ⟨hb, hJ23.1, hJ23.2, hJ4, hJ5, hJ6, hJ7⟩

theorem pfbInv_init (pd qd : Nat) (hpd : 1 ≤ pd) : pfbInv pd qd (packetFifoBuffered pd qd).init := by
  simp [pfbInv, packetFifoBuffered, storedPay, storedPar, nLast, tailLen]; omega

/-! ### No deadlock: a handshake in every cooperative cycle -/

theorem packetFifoBuffered_hs_step (pd qd : Nat) (hpd : 2 ≤ pd) (hqd : 2 ≤ qd) (s : PFBState) (i : In PBeat)
    (h : pfbInv pd qd s) (hc : PfbCoop pd s i) :
    1 ≤ ((packetFifoBuffered pd qd).accNow s i).length + ((packetFifoBuffered pd qd).delNow s i).length := by
  obtain ⟨⟨h1a, h1b⟩, h2, h3, h4, h5, h6, h7⟩ := h
  obtain ⟨⟨hv, hr⟩, _⟩ := hc
  rw [packetFifoBuffered_accNow]
  by_cases hrd : (s.payQ.length != pd && s.parQ.length != qd) = true
  · simp [hv, hrd]
  · -- a queue is full: then the source is valid
    have hpv : s.parV = true := by
      cases hn' : s.parV with
      | true => rfl
      | false =>
        exfalso
        have hq := h6 hn'
        have hfull : s.payQ.length = pd := by
          simp only [Bool.and_eq_true, bne_iff_ne, ne_eq] at hrd
          by_cases hA : s.payQ.length = pd
          · exact hA
          · exact absurd ⟨hA, by omega⟩ hrd
        have hpayV : s.payV = true := by
          cases hn2 : s.payV with
          | true => rfl
          | false =>
            have := h5 hn2
            omega
        have hlen : (storedPay s).length = pd + 1 := by simp [storedPay, hpayV, hfull]
        have hpos : 0 < nLast (storedPay s) := nLast_pos_of_tail_lt _ (by omega)
        have hne : s.parQ ≠ [] := by
          intro hnil
          simp [storedPar, hn', hnil] at h2
          omega
        have := h7 hn' hne
        omega
    refine Nat.le_trans ?_ (Nat.le_add_left _ _)
    simp [Elem.delNow, Elem.out, packetFifoBuffered, hpv, hr]

/-! ### No livelock: a delivery at least every `payload_depth + 2` cooperative cycles -/

def pfbMu (pd : Nat) (s : PFBState) : Nat :=
  if s.parV then 0 else if s.parQ.isEmpty then pd - tailLen (storedPay s) + 1 else 1

theorem packetFifoBuffered_del_dec (pd qd : Nat) (hqd : 1 ≤ qd) (s : PFBState) (i : In PBeat)
    (h : pfbInv pd qd s) (hc : PfbCoop pd s i) :
    1 ≤ ((packetFifoBuffered pd qd).delNow s i).length ∨
      pfbMu pd ((packetFifoBuffered pd qd).step s i) < pfbMu pd s := by
  obtain ⟨⟨h1a, h1b⟩, h2, h3, h4, h5, h6, h7⟩ := h
  obtain ⟨⟨hv, hr⟩, hl⟩ := hc
  cases hpv : s.parV with
  | true => left; simp [Elem.delNow, Elem.out, packetFifoBuffered, hpv, hr]
  | false =>
    right
    have hparV' : ((packetFifoBuffered pd qd).step s i).parV = (pfbPop s i.ready).parV := step_parV pd qd s i
    cases hq : s.parQ with
    | cons p ps =>
      -- the param moves into its output register
      have : (pfbPop s i.ready).parV = true := by simp [pfbPop, hq, hpv]
      unfold pfbMu
      rw [hparV', this, hpv, hq]
      simp
    | nil =>
      -- nothing complete is stored: everything is the open packet, there is room, the beat is accepted
      have hR : storedPar s = [] := by simp [storedPar, hpv, hq]
      have hn0 : nLast (storedPay s) = 0 := by rw [hR] at h2; simpa using h2.symm
      have htl := nLast_zero_len _ hn0
      have hplen : s.payQ.length ≤ (storedPay s).length := by simp [storedPay]
      have hacc : pfbAcc pd qd s i = true := by
        unfold pfbAcc
        have e1 : s.payQ.length ≠ pd := by omega
        have e2 : s.parQ.length ≠ qd := by rw [hq]; simp; omega
        simp [hv, e1, e2]
      have hpop : (pfbPop s i.ready).parV = false := by simp [pfbPop, hq, hpv]
      have hpopQ : (pfbPop s i.ready).parQ = [] := pfbPop_parQ_nil s i.ready hpop
      have hsp := storedPay_step pd qd s i
      have hpp : storedPay (pfbPop s i.ready) = storedPay s := by
        rw [storedPay_pop]; simp [hpv]
      unfold pfbMu
      rw [hparV', hpop, hpv, hq, step_parQ, hpopQ, hsp, hpp, hacc]
      cases hlast : i.tok.last with
      | true =>
        simp
        omega
      | false =>
        have := hl hv hlast
        simp [tailLen_append, payOf, hlast]
        omega

theorem pfbInv_reach (pd qd : Nat) (hpd : 1 ≤ pd) (pre : List (In PBeat))
    (hpre : RunC (packetFifoBuffered pd qd) (PfbLegal pd) (packetFifoBuffered pd qd).init pre) :
    pfbInv pd qd ((packetFifoBuffered pd qd).runFrom (packetFifoBuffered pd qd).init pre) :=
  inv_runFromC _ (pfbInv pd qd) (PfbLegal pd) (fun s i h hl => packetFifoBuffered_inv_step pd qd s i h hl) pre _
    (pfbInv_init pd qd hpd) hpre

theorem packetFifoBuffered_progress_run (pd qd : Nat) (hpd : 2 ≤ pd) (hqd : 2 ≤ qd) (s : PFBState)
    (hs : pfbInv pd qd s) (ins : List (In PBeat)) (hins : RunC (packetFifoBuffered pd qd) (PfbCoop pd) s ins)
    (n : Nat) (hn : n * 1 ≤ ins.length) : n ≤ (packetFifoBuffered pd qd).hsCount s ins :=
  count_ge_of_windowS _ (pfbInv pd qd) (PfbCoop pd) (fun s i h hc => packetFifoBuffered_inv_step pd qd s i h hc.2)
    (packetFifoBuffered pd qd).hsCount (hsCount_append _) 1
    (fun s ins hs hc hl => by
      match ins, hl with
      | [i], _ =>
        have := packetFifoBuffered_hs_step pd qd hpd hqd s i hs hc.1
        simpa [hsCount, accepted, delivered] using this)
    n s ins hs hins hn

theorem packetFifoBuffered_delivers_run (pd qd : Nat) (hqd : 1 ≤ qd) (s : PFBState)
    (hs : pfbInv pd qd s) (ins : List (In PBeat)) (hins : RunC (packetFifoBuffered pd qd) (PfbCoop pd) s ins)
    (n : Nat) (hn : n * (pd + 1 + 1) ≤ ins.length) : n ≤ ((packetFifoBuffered pd qd).delivered s ins).length :=
  count_ge_of_windowS _ (pfbInv pd qd) (PfbCoop pd) (fun s i h hc => packetFifoBuffered_inv_step pd qd s i h hc.2)
    (fun s ins => ((packetFifoBuffered pd qd).delivered s ins).length) (by intro s a b; simp [delivered_append])
    (pd + 1 + 1)
    (fun s ins hs hc hl =>
      window_of_measureS _ (pfbInv pd qd) (PfbCoop pd)
        (fun s i h hc => packetFifoBuffered_inv_step pd qd s i h hc.2)
        (fun s i => ((packetFifoBuffered pd qd).delNow s i).length)
        (fun s ins => ((packetFifoBuffered pd qd).delivered s ins).length)
        (by intro s i is; simp [delivered]) (pfbMu pd)
        (fun s i h hc => packetFifoBuffered_del_dec pd qd hqd s i h hc) (pd + 1) s ins hs
        (by unfold pfbMu; split <;> (try split) <;> omega) hc hl)
    n s ins hs hins hn

end Litex.Packet
