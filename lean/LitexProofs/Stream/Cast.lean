import LitexProofs.Stream.Stride
/-
  `Cast` with `reverse_from` / `reverse_to` as a bit permutation: `castFn` has a two-sided inverse, namely the
  cast in the opposite direction with the two flags swapped.
-/
namespace Litex.Stream
open Litex

/-- `Cat(*sigs)` of the (possibly reversed) signal list of a layout. -/
def castPack (r : Bool) (ws : List Nat) (x : Nat) : Nat := cat ((phys r ws).zip (phys r (fieldsOf ws x)))

/-- The (possibly reversed) signal list of a layout assigned from raw bits, read back in layout order. -/
def castUnpack (r : Bool) (ws : List Nat) (raw : Nat) : Nat := cat (ws.zip (phys r (fieldsOf (phys r ws) raw)))

theorem castFn_eq (rf rt : Bool) (wf wt : List Nat) (x : Nat) :
    castFn rf rt wf wt x = castUnpack rt wt (castPack rf wf x) := rfl

theorem fieldPos_go_length : ∀ (ws : List Nat) (off : Nat), (fieldPos.go off ws).length = ws.length
  | [], _ => rfl
  | w :: ws, off => by simp [fieldPos.go, fieldPos_go_length ws (off + w)]

@[simp] theorem fieldsOf_length (ws : List Nat) (x : Nat) : (fieldsOf ws x).length = ws.length := by
  simp [fieldsOf, fieldPos, fieldPos_go_length]

theorem reverse_zip' {α β : Type} (l : List α) (l' : List β) (h : l.length = l'.length) :
    (l.zip l').reverse = l.reverse.zip l'.reverse := by
  rw [List.zip_eq_zipWith, List.zip_eq_zipWith, List.reverse_zipWith h]

def modPair (p : Nat × Nat) : Nat := p.2 % 2 ^ p.1

/-- `cat` truncates every value to its width anyway. -/
theorem cat_zip_mod : ∀ (ws vs : List Nat), cat (ws.zip ((ws.zip vs).map modPair)) = cat (ws.zip vs)
  | [], _ => by simp [cat]
  | _ :: _, [] => by simp [cat]
  | w :: ws, v :: vs => by
    simp only [List.zip_cons_cons, List.map_cons, cat_cons, modPair, Nat.mod_mod, cat_zip_mod ws vs]

/-- Fields read back from a word assembled from (width, value) pairs. -/
theorem fields_of_cat_go : ∀ (ws vs : List Nat) (off c : Nat), vs.length = ws.length → c < 2 ^ off →
    (fieldPos.go off ws).map (fun (j, w) => slice j w (c + 2 ^ off * cat (ws.zip vs))) = (ws.zip vs).map modPair
  | [], _, _, _, _, _ => by simp [fieldPos.go]
  | w :: ws, [], _, _, h, _ => by simp at h
  | w :: ws, v :: vs, off, c, h, hc => by
    simp only [fieldPos.go, List.map_cons, List.zip_cons_cons, cat_cons, modPair]
    set R := cat (ws.zip vs) with hR
    have hm : v % 2 ^ w < 2 ^ w := Nat.mod_lt _ (Nat.two_pow_pos w)
    have hY : c + 2 ^ off * (v % 2 ^ w + 2 ^ w * R) = (c + 2 ^ off * (v % 2 ^ w)) + 2 ^ (off + w) * R := by
      rw [Nat.pow_add]; ring
    have hc' : c + 2 ^ off * (v % 2 ^ w) < 2 ^ (off + w) := by
      rw [Nat.pow_add]
      calc c + 2 ^ off * (v % 2 ^ w) < 2 ^ off + 2 ^ off * (v % 2 ^ w) := by omega
        _ = 2 ^ off * (v % 2 ^ w + 1) := by ring
        _ ≤ 2 ^ off * 2 ^ w := Nat.mul_le_mul_left _ hm
    congr 1
    · have := slice_shift 0 w off c (v % 2 ^ w + 2 ^ w * R) hc
      rw [Nat.add_zero] at this
      rw [this, slice_add_high 0 w w _ R (by omega), slice_zero, trunc, Nat.mod_mod]
    · rw [hY]
      exact fields_of_cat_go ws vs (off + w) _ (by simpa using h) hc'

theorem fieldsOf_cat (ws vs : List Nat) (h : vs.length = ws.length) :
    fieldsOf ws (cat (ws.zip vs)) = (ws.zip vs).map modPair := by
  have := fields_of_cat_go ws vs 0 0 h (by simp)
  simpa [fieldsOf, fieldPos] using this

theorem sumW_append (a b : List Nat) : sumW (a ++ b) = sumW a + sumW b := by
  induction a with
  | nil => simp [sumW]
  | cons w ws ih => simp [sumW, ih]; ring

theorem sumW_phys (r : Bool) (ws : List Nat) : sumW (phys r ws) = sumW ws := by
  cases r
  · rfl
  · simp only [phys, if_true]
    induction ws with
    | nil => rfl
    | cons w ws ih => rw [List.reverse_cons, sumW_append, ih]; simp [sumW]; ring

theorem phys_phys {α : Type} (r : Bool) (l : List α) : phys r (phys r l) = l := by
  cases r <;> simp [phys]

@[simp] theorem phys_length {α : Type} (r : Bool) (l : List α) : (phys r l).length = l.length := by
  cases r <;> simp [phys]

theorem phys_zip_map (r : Bool) (ws vs : List Nat) (h : vs.length = ws.length) :
    phys r ((ws.zip vs).map modPair) = ((phys r ws).zip (phys r vs)).map modPair := by
  cases r
  · rfl
  · simp only [phys, if_true]
    rw [← List.map_reverse, reverse_zip' ws vs h.symm]

/-- Packing what was unpacked gives the raw bits back. -/
theorem castPack_unpack (r : Bool) (ws : List Nat) (raw : Nat) :
    castPack r ws (castUnpack r ws raw) = raw % 2 ^ sumW ws := by
  unfold castPack castUnpack
  rw [fieldsOf_cat ws _ (by simp), phys_zip_map r ws _ (by simp), cat_zip_mod, phys_phys, cat_fieldsOf, sumW_phys]

/-- Unpacking what was packed gives the layout's bits back. -/
theorem castUnpack_pack (r : Bool) (ws : List Nat) (x : Nat) :
    castUnpack r ws (castPack r ws x) = x % 2 ^ sumW ws := by
  unfold castPack castUnpack
  rw [fieldsOf_cat (phys r ws) _ (by simp), phys_zip_map r (phys r ws) (phys r (fieldsOf ws x)) (by simp),
    phys_phys, phys_phys, cat_zip_mod, cat_fieldsOf]

theorem catWidth_zip : ∀ (a b : List Nat), b.length = a.length → catWidth (a.zip b) = sumW a
  | [], _, _ => by simp [catWidth, sumW]
  | _ :: _, [], hb => by simp at hb
  | w :: ws, v :: vs, hb => by simp [catWidth, sumW, catWidth_zip ws vs (by simpa using hb)]

theorem castPack_lt (r : Bool) (ws : List Nat) (x : Nat) : castPack r ws x < 2 ^ sumW ws := by
  unfold castPack
  have h := cat_lt ((phys r ws).zip (phys r (fieldsOf ws x)))
  rwa [catWidth_zip _ _ (by simp), sumW_phys] at h

theorem castFn_lt (rf rt : Bool) (wf wt : List Nat) (x : Nat) : castFn rf rt wf wt x < 2 ^ sumW wt := by
  rw [castFn_eq]
  unfold castUnpack
  have h := cat_lt (wt.zip (phys rt (fieldsOf (phys rt wt) (castPack rf wf x))))
  rwa [catWidth_zip _ _ (by simp)] at h

/-- **`cast(b→a) ∘ cast(a→b) = id`** on the `Σw` bits of layout `a`: the inverse of a cast is the cast in the
    opposite direction with `reverse_from` and `reverse_to` exchanged. -/
theorem castFn_inverse (rf rt : Bool) (wf wt : List Nat) (hw : sumW wf = sumW wt) (x : Nat) :
    castFn rt rf wt wf (castFn rf rt wf wt x) = x % 2 ^ sumW wf := by
  rw [castFn_eq, castFn_eq, castPack_unpack, ← hw, Nat.mod_eq_of_lt (castPack_lt rf wf x), castUnpack_pack]

end Litex.Stream
