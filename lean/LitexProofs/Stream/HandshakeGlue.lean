import LitexProofs.Stream.HandshakeLive
import LitexModel.Stream.Monitored
/-
  C04 — glue of stream.py: a Monitor on the source endpoint is transparent for the handshake; the class selection
  of `Converter` always yields a ratio ≥ 1 (the side condition of the converter theorems); BufferizeEndpoints
  without PipeReady keeps `sink.ready` following `source.ready`.
-/
namespace Litex.Stream
open Elem
variable {α β σ : Type}

/-! ### Monitor transparency -/

theorem monitored_out (e : Elem α β σ) (w : Nat) (cfg : MonCfg) (df : Bool) (s : σ × MonState) (i : In α) :
    (monitored e w cfg df).out s i = e.out s.1 i := rfl

theorem monitored_step_fst (e : Elem α β σ) (w : Nat) (cfg : MonCfg) (df : Bool) (s : σ × MonState) (i : In α) :
    ((monitored e w cfg df).step s i).1 = e.step s.1 i := rfl

theorem monitored_stepStable {e : Elem α β σ} {Inv : σ → Prop} (h : StepStable e Inv) (w : Nat) (cfg : MonCfg)
    (df : Bool) : StepStable (monitored e w cfg df) (fun s => Inv s.1) where
  inv_step s i hs := h.inv_step s.1 i hs
  hold s i i' hs hin := h.hold s.1 i i' hs hin

theorem monitored_live {e : Elem α β σ} {Inv : σ → Prop} {μ : σ → Nat} {B : Nat} (h : Live e Inv μ B) (w : Nat)
    (cfg : MonCfg) (df : Bool) : Live (monitored e w cfg df) (fun s => Inv s.1) (fun s => μ s.1) B where
  inv_step s i hs := h.inv_step s.1 i hs
  bound s hs := h.bound s.1 hs
  off s i hs hv := h.off s.1 i hs hv
  mono s i hs := h.mono s.1 i hs

theorem monitored_good {e : Elem α β σ} {Inv : σ → Prop} {μ : σ → Nat} {B : Nat} (h : Good e Inv μ B) (w : Nat)
    (cfg : MonCfg) (df : Bool) : Good (monitored e w cfg df) (fun s => Inv s.1) (fun s => μ s.1) B :=
  ⟨monitored_stepStable h.stable w cfg df, monitored_live h.live w cfg df⟩

theorem monitored_delMeasure {e : Elem α β σ} {Inv : σ → Prop} {μ : σ → Nat} {B : Nat} (h : DelMeasure e Inv μ B)
    (w : Nat) (cfg : MonCfg) (df : Bool) :
    DelMeasure (monitored e w cfg df) (fun s => Inv s.1) (fun s => μ s.1) B where
  inv_step s i hs := h.inv_step s.1 i hs
  bound s hs := h.bound s.1 hs
  dec s i hs hc := h.dec s.1 i hs hc


/-- The whole trace of handshake outputs of a monitored element is the trace of the element alone. -/
theorem monitored_outs (e : Elem α β σ) (w : Nat) (cfg : MonCfg) (df : Bool) :
    ∀ (ins : List (In α)) (s : σ × MonState), (monitored e w cfg df).outs s ins = e.outs s.1 ins := by
  intro ins
  induction ins with
  | nil => intro s; rfl
  | cons i is ih =>
    intro s
    simp only [outs_cons]
    rw [ih]
    rfl

/-- … and the monitor's token counter counts exactly the source handshakes (until it saturates). -/
theorem monitor_tokens_next (w : Nat) (cfg : MonCfg) (df : Bool) (s : MonState) (i : MonIn)
    (ht : cfg.tokens = true) (hr : i.reset = false) (hsat : s.tokens.count + 1 < 2 ^ w) :
    ((monitor w cfg df).next s i).tokens.count = s.tokens.count + (if i.valid && i.ready then 1 else 0) := by
  have h1 : s.tokens.count ≠ 2 ^ w - 1 := by omega
  have h2 : (s.tokens.count + 1) % 2 ^ w = s.tokens.count + 1 := Nat.mod_eq_of_lt hsat
  cases hv : (i.valid && i.ready) <;> simp only [monitor, monOpt, monCounterNext, ht, hr, hv] <;> simp [h1, h2]

/-! ### Converter: the class selection yields a usable ratio -/

theorem converterKind_ratio (nf nt : Nat) (hf : 0 < nf) (ht : 0 < nt) (k : ConvKind) (r : Nat)
    (h : converterKind nf nt = some (k, r)) :
    0 < r ∧ (k = .up → nt = r * nf) ∧ (k = .down → nf = r * nt) ∧ (k = .ident → nf = nt ∧ r = 1) := by
  unfold converterKind at h
  by_cases h1 : nf > nt
  · simp only [h1, if_true] at h
    by_cases h2 : (nf % nt != 0) = true
    · simp [h2] at h
    · simp only [h2] at h
      simp only [Bool.false_eq_true, if_false, Option.some.injEq, Prod.mk.injEq] at h
      obtain ⟨hk, hr⟩ := h
      subst hk; subst hr
      have hm : nf % nt = 0 := by simpa using h2
      have hdiv : nf = nf / nt * nt := by
        have := Nat.div_add_mod nf nt
        rw [hm] at this
        rw [Nat.mul_comm]; omega
      refine ⟨Nat.div_pos (by omega) ht, ?_, ?_, ?_⟩
      · intro h; cases h
      · intro _; exact hdiv
      · intro h; cases h
  · simp only [h1, if_false] at h
    by_cases h3 : nf < nt
    · simp only [h3, if_true] at h
      by_cases h2 : (nt % nf != 0) = true
      · simp [h2] at h
      · simp only [h2] at h
        simp only [Bool.false_eq_true, if_false, Option.some.injEq, Prod.mk.injEq] at h
        obtain ⟨hk, hr⟩ := h
        subst hk; subst hr
        have hm : nt % nf = 0 := by simpa using h2
        have hdiv : nt = nt / nf * nf := by
          have := Nat.div_add_mod nt nf
          rw [hm] at this
          rw [Nat.mul_comm]; omega
        refine ⟨Nat.div_pos (by omega) hf, ?_, ?_, ?_⟩
        · intro _; exact hdiv
        · intro h; cases h
        · intro h; cases h
    · simp only [h3, if_false, Option.some.injEq, Prod.mk.injEq] at h
      obtain ⟨hk, hr⟩ := h
      subst hk; subst hr
      refine ⟨by omega, ?_, ?_, ?_⟩
      · intro h; cases h
      · intro h; cases h
      · intro _; exact ⟨by omega, rfl⟩

/-! ### BufferizeEndpoints without PipeReady around a ready-transparent element -/

theorem bufferStages_rt (pv : Bool) : ∀ st ∈ bufferStages pv false, stageRT st := by
  intro st h
  cases pv <;> simp [bufferStages] at h
  subst h; trivial

theorem bufferize_readyTransparent {β σ : Type} (bs bd pv : Bool) (zi : Tok α) (zo : Tok β) {e : Elem α β σ}
    {Inv : σ → Prop} (he : ReadyTransparent e Inv) :
    ReadyTransparent (bufferize bs bd pv false zi zo e)
      (fun s => pipeInv (if bs then bufferStages pv false else []) s.1 ∧ Inv s.2.1 ∧
                pipeInv (if bd then bufferStages pv false else []) s.2.2) := by
  have hs : ∀ st ∈ (if bs then bufferStages pv false else []), stageRT st := by
    intro st h; cases bs
    · simp at h
    · exact bufferStages_rt pv st (by simpa using h)
  have hd : ∀ st ∈ (if bd then bufferStages pv false else []), stageRT st := by
    intro st h; cases bd
    · simp at h
    · exact bufferStages_rt pv st (by simpa using h)
  exact ReadyTransparent.comp (stages_readyTransparent zi _ hs)
    (ReadyTransparent.comp he (stages_readyTransparent zo _ hd))

end Litex.Stream
