import LitexModel.Packet.Arbiter
/-
  C04 progress for `packet.Dispatcher` (model of b-c16, `LitexModel/Packet/Arbiter.lean`): when every slave is
  ready the master is ready in that very cycle — whatever the state (first beat or inside a packet) and whatever
  the selector, including a selector value that addresses no slave (the `default` case drains the packet).
-/
namespace Litex.Packet

theorem dispTarget_lt (m : Nat) (oneHot : Bool) (sel k : Nat) (h : dispTarget m oneHot sel = some k) : k < m := by
  have := List.mem_of_find?_eq_some h
  simpa using this

theorem dispReady_of_all_ready (m : Nat) (oneHot : Bool) (s : DispState) (i : DispIn)
    (hr : ∀ k, k < m → i.readys.getD k false = true) : dispReady m oneHot s i = true := by
  unfold dispReady
  cases h : dispTarget m oneHot (dispSel s i) with
  | none => rfl
  | some k => exact hr k (dispTarget_lt m oneHot _ k h)

end Litex.Packet
