import LitexProofs.Stream.HandshakeRoute
import LitexProofs.Stream.Handshake
/-
  C04 — `stream.Crossbar(layout, n)` wired as a crossbar (`demux.source_k → mux.sink_k`): the two selectors travel
  with the sink-side wires (token data = (payload, demux.sel, mux.sel)), so the producer contract covers them: while a
  token is refused, payload and both selectors are held (the same convention as for `Gate`).
-/
namespace Litex.Stream
open Elem
variable {α : Type}

theorem getD_replicate_false (n k : Nat) : (List.replicate n false).getD k false = false := by
  by_cases h : k < n <;> simp [List.getD_eq_getElem?_getD, List.getElem?_replicate, h]

/-- With a stalling consumer no sink of the multiplexer is ready, hence the demultiplexer's sink is not. -/
theorem crossbarOut_ready_false (n : Nat) (z : Tok α) (seld selm : Nat) (v : Bool) (t : Tok α) :
    (crossbarOut n z seld selm v t false).ready = false := by
  simp only [crossbarOut, demuxOut, muxOut]
  by_cases hm : selm < n
  · simp only [hm, if_true, Bool.and_false]
    by_cases hd : seld < n
    · rw [getD_map_range n seld _ false hd]; simp
    · simp [hd]
  · simp only [hm, if_false]
    rw [getD_replicate_false]; simp

theorem crossbarOut_valid (n : Nat) (z : Tok α) (seld selm : Nat) (v : Bool) (t : Tok α) (r : Bool) :
    (crossbarOut n z seld selm v t r).valid = (decide (selm < n) && (selm == seld) && v) ∧
    ((crossbarOut n z seld selm v t r).valid = true → (crossbarOut n z seld selm v t r).tok = t) := by
  simp only [crossbarOut, demuxOut, muxOut]
  by_cases hm : selm < n
  · simp only [hm, if_true]
    rw [getD_map_range n selm _ (false, z) hm]
    by_cases he : (selm == seld) = true
    · simp [he]
    · simp [he]
  · simp [hm]

theorem crossbar_stepStable (n : Nat) (z : α) : StepStable (crossbar n z) (fun _ => True) where
  inv_step _ _ _ := trivial
  hold s i i' _ hin := by
    intro hv hrd
    have hvalid := crossbarOut_valid n ⟨z, false, false⟩ i.tok.data.2.1 i.tok.data.2.2 i.valid
      ⟨i.tok.data.1, i.tok.first, i.tok.last⟩ false
    have hv0 : (crossbarOut n ⟨z, false, false⟩ i.tok.data.2.1 i.tok.data.2.2 i.valid
      ⟨i.tok.data.1, i.tok.first, i.tok.last⟩ false).valid = true := hv
    have hv' : i.valid = true := by
      rw [hvalid.1] at hv0
      simp only [Bool.and_eq_true] at hv0
      exact hv0.2
    have hready : ((crossbar n z).out s i).ready = false := by
      show (crossbarOut n ⟨z, false, false⟩ i.tok.data.2.1 i.tok.data.2.2 i.valid
        ⟨i.tok.data.1, i.tok.first, i.tok.last⟩ i.ready).ready = false
      rw [hrd]; exact crossbarOut_ready_false _ _ _ _ _ _
    obtain ⟨h1, h2⟩ := hin hv' hready
    show ((crossbar n z).fwd () i'.valid i'.tok).1 = true ∧
      ((crossbar n z).fwd () i'.valid i'.tok).2 = ((crossbar n z).fwd () i.valid i.tok).2
    have hv2 : ((crossbar n z).fwd () i.valid i.tok).1 = true := hv
    rw [h1, h2]
    rw [hv'] at hv2
    rw [hv']
    exact ⟨hv2, rfl⟩

/-- Cooperative cycle of a crossbar: valid, ready, and both selectors name the same existing port. -/
def XbarCoop (n : Nat) (i : In (α × Nat × Nat)) : Prop :=
  Coop i ∧ i.tok.data.2.2 = i.tok.data.2.1 ∧ i.tok.data.2.2 < n

theorem crossbar_del_window (n : Nat) (z : α) (s : Unit) (ins : List (In (α × Nat × Nat)))
    (hc : ∀ i ∈ ins, XbarCoop n i) (hlen : ins.length = 1) : 1 ≤ ((crossbar n z).delivered s ins).length := by
  match ins, hlen with
  | [i], _ =>
    obtain ⟨⟨hv, hr⟩, he, hlt⟩ := hc i (by simp)
    have hvalid := (crossbarOut_valid n ⟨z, false, false⟩ i.tok.data.2.1 i.tok.data.2.2 i.valid
      ⟨i.tok.data.1, i.tok.first, i.tok.last⟩ false).1
    have : ((crossbar n z).out s i).valid = true := by
      show (crossbarOut n ⟨z, false, false⟩ i.tok.data.2.1 i.tok.data.2.2 i.valid
        ⟨i.tok.data.1, i.tok.first, i.tok.last⟩ false).valid = true
      rw [hvalid, hv, he]; simp [he ▸ hlt]
    simp [delivered, delNow, this, hr]

end Litex.Stream
