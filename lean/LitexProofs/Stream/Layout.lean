import LitexModel.Stream.NumG
/-
  Layout layer: the bit placement used by the numeric adapters (and by the real converters) is consistent with
  the lane lists of the control-path models.
-/
namespace Litex.Stream
open Litex

theorem cat_cons (w v : Nat) (rest : List (Nat × Nat)) : cat ((w, v) :: rest) = v % 2 ^ w + 2 ^ w * cat rest := rfl

/-- Bits `[n*nb, (n+1)*nb)` of a packed word are lane `n` (truncated to the lane width). -/
theorem packLanes_slice (nb : Nat) : ∀ (lanes : List Nat) (n : Nat), n < lanes.length →
    slice (n * nb) nb (packLanes nb lanes) = lanes.getD n 0 % 2 ^ nb
  | [], n, h => by simp at h
  | v :: vs, 0, _ => by
    simp [packLanes, cat_cons, slice, Nat.add_mul_mod_self_left]
  | v :: vs, n + 1, h => by
    have ih := packLanes_slice nb vs n (by simpa using h)
    have hlt : v % 2 ^ nb < 2 ^ nb := Nat.mod_lt _ (Nat.two_pow_pos nb)
    have hdiv : (v % 2 ^ nb + 2 ^ nb * cat (vs.map fun v => (nb, v))) / 2 ^ nb = cat (vs.map fun v => (nb, v)) := by
      rw [Nat.add_mul_div_left _ _ (Nat.two_pow_pos nb), Nat.div_eq_of_lt hlt, Nat.zero_add]
    simp only [packLanes, slice, List.map_cons, cat_cons] at ih ⊢
    rw [show (n + 1) * nb = nb + n * nb by rw [Nat.succ_mul, Nat.add_comm], Nat.pow_add, ← Nat.div_div_eq_div_mul,
      hdiv, ih]
    simp

/-- Physical placement with `reverse`: logical lane `i` sits in physical lane `r-1-i`. -/
theorem phys_getD (rev : Bool) (lanes : List Nat) (i : Nat) (h : i < lanes.length) :
    (phys rev lanes).getD (if rev then lanes.length - 1 - i else i) 0 = lanes.getD i 0 := by
  cases rev
  · simp [phys]
  · simp only [phys, if_true, List.getD_eq_getElem?_getD]
    rw [List.getElem?_reverse (by omega)]
    congr 2
    omega

/-- `upconv_layout`: in the word produced by an up-converter (`encUp`), the bits of physical lane
    `n = reverse ? r-1-i : i` are logical sub-word `i`. -/
theorem upconv_layout (nb : Nat) (rev : Bool) (lanes : List Nat) (i : Nat) (h : i < lanes.length) :
    slice ((if rev then lanes.length - 1 - i else i) * nb) nb (packLanes nb (phys rev lanes)) =
      lanes.getD i 0 % 2 ^ nb := by
  have hlen : (phys rev lanes).length = lanes.length := by cases rev <;> simp [phys]
  rw [packLanes_slice nb (phys rev lanes) _ (by rw [hlen]; split <;> omega), phys_getD rev lanes i h]

/-- Unpacking a packed word gives the lanes back (a down-converter behind an up-converter sees the same lanes). -/
theorem unpack_pack (nb : Nat) (lanes : List Nat) :
    unpackLanes nb lanes.length (packLanes nb lanes) = lanes.map (· % 2 ^ nb) := by
  apply List.ext_getElem
  · simp [unpackLanes]
  · intro n h1 h2
    have hn : n < lanes.length := by simpa [unpackLanes] using h1
    simp only [unpackLanes, List.getElem_map, List.getElem_range]
    rw [packLanes_slice nb lanes n hn]
    simp [List.getD_eq_getElem?_getD, hn]

/-! ### Cast without reversal is the identity on the raw bits -/

theorem cat_fields (x : Nat) : ∀ (ws : List Nat) (off : Nat),
    cat (ws.zip ((fieldPos.go off ws).map fun (o, w) => slice o w x)) = slice off (sumW ws) x
  | [], off => by simp [fieldPos.go, cat, sumW, slice, Nat.mod_one]
  | w :: ws, off => by
    have ih := cat_fields x ws (off + w)
    simp only [fieldPos.go, List.map_cons, List.zip_cons_cons, cat_cons, sumW, ih]
    simp only [slice]
    rw [Nat.mod_mod, Nat.pow_add 2 off w, ← Nat.div_div_eq_div_mul, Nat.pow_add 2 w (sumW ws), Nat.mod_mul]

theorem cat_fieldsOf (ws : List Nat) (x : Nat) : cat (ws.zip (fieldsOf ws x)) = x % 2 ^ sumW ws := by
  have := cat_fields x ws 0
  simpa [fieldsOf, fieldPos, slice] using this

/-- `Cast` without `reverse_from/reverse_to`: the packed source number is the packed sink number (the layouts
    only re-label the same raw bits). -/
theorem castFn_id (wsFrom wsTo : List Nat) (hw : sumW wsFrom = sumW wsTo) (x : Nat) :
    castFn false false wsFrom wsTo x = x % 2 ^ sumW wsFrom := by
  simp only [castFn, phys, Bool.false_eq_true, if_false]
  rw [cat_fieldsOf, cat_fieldsOf, ← hw, Nat.mod_mod]

end Litex.Stream
