import LitexModel.Stream.Conv
import LitexModel.Stream.Route
import LitexModel.Stream.Pipe
import LitexProofs.Stream.Basic
import LitexProofs.Stream.Conv
import LitexProofs.Stream.Sim
/-
  Step lemmas: SyncFIFOBuffered, Gate, Cast (`mapElem`), Delay n, StrideConverter (up), Shifter.
-/
namespace Litex.Stream
open Elem
variable {α β π : Type}

/-! ### SyncFIFOBuffered -/

def FBState.inflight (s : FBState α) : List (Tok α) := (if s.readable then [s.dout] else []) ++ s.q

def fbRel (depth : Nat) (s : FBState α) (a d : List (Tok α)) : Prop :=
  s.q.length ≤ depth ∧ a = d ++ s.inflight

theorem syncFifoBuffered_step (depth : Nat) (z : Tok α) (s : FBState α) (a d : List (Tok α)) (i : In α)
    (h : fbRel depth s a d) :
    fbRel depth ((syncFifoBuffered depth z).step s i) (a ++ (syncFifoBuffered depth z).accNow s i)
      (d ++ (syncFifoBuffered depth z).delNow s i) := by
  obtain ⟨q, rd, dout⟩ := s
  obtain ⟨iv, it, ir⟩ := i
  obtain ⟨hl, h2⟩ := h
  subst h2
  unfold fbRel
  cases q with
  | nil =>
    cases rd <;> cases iv <;> cases ir <;>
      simp [syncFifoBuffered, Elem.step, Elem.accNow, Elem.delNow, Elem.out, FBState.inflight] <;>
      (try split) <;> simp_all <;> omega
  | cons x xs =>
    have hl' : xs.length + 1 ≤ depth := by simpa using hl
    by_cases hfull : xs.length + 1 = depth
    · cases rd <;> cases iv <;> cases ir <;>
        simp [syncFifoBuffered, Elem.step, Elem.accNow, Elem.delNow, Elem.out, FBState.inflight, hfull] <;> omega
    · cases rd <;> cases iv <;> cases ir <;>
        simp [syncFifoBuffered, Elem.step, Elem.accNow, Elem.delNow, Elem.out, FBState.inflight, hfull] <;> omega

/-! ### Gate -/

/-- Delivered = the tokens accepted while enabled; without `sink_ready_when_disabled` nothing is ever accepted
    while disabled. -/
def gateRel (srd : Bool) (_ : Unit) (a : List (Tok (α × Bool))) (d : List (Tok α)) : Prop :=
  d = (a.filter (·.data.2)).map (mapTok (·.1)) ∧ (srd = false → ∀ t ∈ a, t.data.2 = true)

theorem gate_step (srd : Bool) (z : α) (s : Unit) (a : List (Tok (α × Bool))) (d : List (Tok α))
    (i : In (α × Bool)) (h : gateRel srd s a d) :
    gateRel srd ((gate srd z).step s i) (a ++ (gate srd z).accNow s i) (d ++ (gate srd z).delNow s i) := by
  obtain ⟨iv, ⟨⟨td, te⟩, tf, tl⟩, ir⟩ := i
  unfold gateRel at *
  obtain ⟨h, h2⟩ := h
  subst h
  cases iv <;> cases ir <;> cases te <;> cases srd <;>
    simp_all [gate, Elem.accNow, Elem.delNow, Elem.out, mapTok]
  rintro t (ht | rfl)
  · exact h2 t ht
  · rfl

/-! ### Cast and other combinational data maps -/

def mapRel (f : α → β) (_ : Unit) (a : List (Tok α)) (d : List (Tok β)) : Prop := d = a.map (mapTok f)

theorem mapElem_step (f : α → β) (s : Unit) (a : List (Tok α)) (d : List (Tok β)) (i : In α)
    (h : mapRel f s a d) :
    mapRel f ((mapElem f).step s i) (a ++ (mapElem f).accNow s i) (d ++ (mapElem f).delNow s i) := by
  obtain ⟨iv, it, ir⟩ := i
  unfold mapRel at *
  subst h
  cases iv <;> cases ir <;> simp [mapElem, Elem.accNow, Elem.delNow, Elem.out]

/-! ### Delay n -/

def delayRel : (n : Nat) → DelayState α n → List (Tok α) → List (Tok α) → Prop
  | 0, _, a, d => a = d
  | n + 1, s, a, d => ∃ mid, pvRel s.1 a mid ∧ delayRel n s.2 mid d

theorem delay_step (z : Tok α) : ∀ (n : Nat) (s : DelayState α n) (a d : List (Tok α)) (i : In α),
    delayRel n s a d →
    delayRel n ((delay z n).step s i) (a ++ (delay z n).accNow s i) (d ++ (delay z n).delNow s i)
  | 0, s, a, d, i, h => wire_step s a d i h
  | n + 1, s, a, d, i, h =>
    comp_rel (pipeValid z) (delay z n) pvRel (delayRel n) (pipeValid_step z) (delay_step z n) s a d i h

theorem delayRel_init (z : Tok α) : ∀ n, delayRel n (delay z n).init [] []
  | 0 => rfl
  | n + 1 => ⟨[], by simp [pvRel, delay, comp, pipeValid, PVState.inflight], delayRel_init z n⟩

theorem delayRel_inflight : ∀ (n : Nat) (s : DelayState α n) (a d : List (Tok α)),
    delayRel n s a d → ∃ fl, a = d ++ fl ∧ fl.length ≤ n
  | 0, _, a, d, h => ⟨[], by simpa [delayRel] using h, by simp⟩
  | n + 1, s, a, d, ⟨mid, h1, h2⟩ => by
    obtain ⟨fl, hfl, hlen⟩ := delayRel_inflight n s.2 mid d h2
    refine ⟨fl ++ s.1.inflight, ?_, ?_⟩
    · rw [h1, hfl, List.append_assoc]
    · simp only [List.length_append, PVState.inflight]
      split <;> simp <;> omega

/-! ### StrideConverter (up) is an `upConv` whose param register is kept beside the converter -/

def strideUpMap (s : UpState α Unit × π) : UpState α π :=
  { demux := s.1.demux, strobe := s.1.strobe, lanes := s.1.lanes, param := s.2,
    first := s.1.first, last := s.1.last, vtc := s.1.vtc }

theorem strideUp_sim (r : Nat) (z : α) (p0 : π) (ins : List (In (α × π))) :
    (strideUp r z p0).accepted (strideUp r z p0).init ins = (upConv r z p0).accepted (upConv r z p0).init ins ∧
    (strideUp r z p0).delivered (strideUp r z p0).init ins = (upConv r z p0).delivered (upConv r z p0).init ins ∧
    strideUpMap ((strideUp r z p0).runFrom (strideUp r z p0).init ins) =
      (upConv r z p0).runFrom (upConv r z p0).init ins := by
  have h := sim_run (strideUp r z p0) (upConv r z p0) strideUpMap
    (by intro s v t; rfl) (by intro s v t rdy; rfl)
    (by
      intro s v t rdy
      obtain ⟨⟨dm, st, ln, pu, fi, la, vt⟩, p⟩ := s
      simp only [strideUp, upConv, strideUpMap])
    ins (strideUp r z p0).init
  exact h

/-! ### PipelinedActor, any latency (the `ce_pipeline` lemma) -/

/-- Tokens in the stages, oldest (last stage) first. -/
def paInflight (s : List (Bool × Tok α)) : List (Tok α) := ((s.filter (·.1)).map (·.2)).reverse

theorem paInflight_concat (s : List (Bool × Tok α)) (x : Bool × Tok α) :
    paInflight (s ++ [x]) = (if x.1 then [x.2] else []) ++ paInflight s := by
  unfold paInflight
  cases hx : x.1 <;> simp [List.filter_append, hx]

theorem paInflight_cons (s : List (Bool × Tok α)) (x : Bool × Tok α) :
    paInflight (x :: s) = paInflight s ++ (if x.1 then [x.2] else []) := by
  unfold paInflight
  cases hx : x.1 <;> simp [List.filter_cons, hx]

theorem paInflight_length_le (s : List (Bool × Tok α)) : (paInflight s).length ≤ s.length := by
  simp only [paInflight, List.length_reverse, List.length_map]
  exact List.length_filter_le _ _

theorem dropLast_cons_concat {β : Type} (y x : β) (l : List β) : (y :: (l ++ [x])).dropLast = y :: l := by
  rw [← List.cons_append, List.dropLast_concat]

def paRel (L : Nat) (s : List (Bool × Tok α)) (a d : List (Tok α)) : Prop :=
  s.length = L ∧ a = d ++ paInflight s

theorem pipeActor_step (L : Nat) (z : Tok α) (s : List (Bool × Tok α)) (a d : List (Tok α)) (i : In α)
    (h : paRel L s a d) :
    paRel L ((pipeActor L z).step s i) (a ++ (pipeActor L z).accNow s i) (d ++ (pipeActor L z).delNow s i) := by
  obtain ⟨iv, ⟨td, tf, tl⟩, ir⟩ := i
  obtain ⟨hl, h2⟩ := h
  subst h2
  rcases List.eq_nil_or_concat s with rfl | ⟨init, x, rfl⟩
  · -- L = 0: combinational
    refine ⟨by simpa [pipeActor, Elem.step] using hl, ?_⟩
    cases iv <;> cases ir <;> cases tf <;> cases tl <;>
      simp [pipeActor, Elem.step, Elem.accNow, Elem.delNow, Elem.out, paIn, paInflight]
  · obtain ⟨xv, xt⟩ := x
    have hlast : (init ++ [(xv, xt)]).getLast? = some (xv, xt) := by simp
    refine ⟨?_, ?_⟩
    · simp only [pipeActor, Elem.step, hlast, Option.getD_some]
      split
      · rw [← hl]
        simp [dropLast_cons_concat]
      · exact hl
    · cases xv <;> cases iv <;> cases ir <;>
        simp [pipeActor, Elem.step, Elem.accNow, Elem.delNow, Elem.out, hlast, paInflight_concat, paInflight_cons,
          dropLast_cons_concat, paIn]

/-! ### Shifter (PipelinedActor, latency 2) -/

/-- What the sink token looks like inside the pipeline (data truncated to `dw` bits, `shift` dropped). -/
def shNorm (dw : Nat) (t : Tok (Nat × Nat)) : Tok Nat := { data := t.data.1 % 2 ^ dw, first := t.first, last := t.last }

def ShState.inflight (s : ShState) : List (Tok Nat) :=
  (if s.v2 then [{ data := s.rlo, first := s.f2, last := s.l2 }] else []) ++
  (if s.v1 then [{ data := s.rhi, first := s.f1, last := s.l1 }] else [])

/-- `q` is token `p` seen through the shifter's window: same flags, data = `r[sh : sh+dw]` where the low half of
    `r` is `p.data` and the high half whatever followed on the sink. -/
def ShiftOf (dw : Nat) (p q : Tok Nat) : Prop :=
  q.first = p.first ∧ q.last = p.last ∧ ∃ hi sh, q.data = shOut dw p.data hi sh

def shList (dw : Nat) : List (Tok Nat) → List (Tok Nat) → Prop
  | [], [] => True
  | p :: ps, q :: qs => ShiftOf dw p q ∧ shList dw ps qs
  | _, _ => False

theorem shList_snoc (dw : Nat) : ∀ (ps qs : List (Tok Nat)) (p q : Tok Nat),
    shList dw ps qs → ShiftOf dw p q → shList dw (ps ++ [p]) (qs ++ [q])
  | [], [], p, q, _, h => ⟨h, trivial⟩
  | [], _ :: _, _, _, h, _ => h.elim
  | _ :: _, [], _, _, h, _ => h.elim
  | _ :: ps, _ :: qs, p, q, h, hq => ⟨h.1, shList_snoc dw ps qs p q h.2 hq⟩

theorem shList_length (dw : Nat) : ∀ (ps qs : List (Tok Nat)), shList dw ps qs → ps.length = qs.length
  | [], [], _ => rfl
  | [], _ :: _, h => h.elim
  | _ :: _, [], h => h.elim
  | _ :: ps, _ :: qs, h => by simp [shList_length dw ps qs h.2]

def shRel (dw : Nat) (s : ShState) (a : List (Tok (Nat × Nat))) (d : List (Tok Nat)) : Prop :=
  ∃ dpre, a.map (shNorm dw) = dpre ++ s.inflight ∧ shList dw dpre d

theorem shifter_step (dw : Nat) (s : ShState) (a : List (Tok (Nat × Nat))) (d : List (Tok Nat))
    (i : In (Nat × Nat)) (h : shRel dw s a d) :
    shRel dw ((shifter dw).step s i) (a ++ (shifter dw).accNow s i) (d ++ (shifter dw).delNow s i) := by
  obtain ⟨v1, v2, f1, f2, l1, l2, rlo, rhi⟩ := s
  obtain ⟨iv, ⟨⟨td, tsh⟩, tf, tl⟩, ir⟩ := i
  obtain ⟨dpre, h1, h2⟩ := h
  by_cases hdel : v2 = true ∧ ir = true
  · obtain ⟨hv2, hir⟩ := hdel
    subst hv2 hir
    refine ⟨dpre ++ [{ data := rlo, first := f2, last := l2 }], ?_, ?_⟩
    · cases v1 <;> cases iv <;>
        simp_all [shifter, Elem.step, Elem.accNow, Elem.delNow, Elem.out, ShState.inflight, shNorm]
    · have : (shifter dw).delNow ⟨v1, true, f1, f2, l1, l2, rlo, rhi⟩ ⟨iv, ⟨(td, tsh), tf, tl⟩, true⟩ =
          [{ data := shOut dw rlo rhi tsh, first := f2, last := l2 }] := rfl
      rw [this]
      exact shList_snoc dw _ _ _ _ h2 ⟨rfl, rfl, rhi, tsh, rfl⟩
  · refine ⟨dpre, ?_, ?_⟩
    · cases v1 <;> cases v2 <;> cases iv <;> cases ir <;>
        simp_all [shifter, Elem.step, Elem.accNow, Elem.delNow, Elem.out, ShState.inflight, shNorm]
    · have : (shifter dw).delNow ⟨v1, v2, f1, f2, l1, l2, rlo, rhi⟩ ⟨iv, ⟨(td, tsh), tf, tl⟩, ir⟩ = [] := by
        cases v2 <;> cases ir <;> simp_all [shifter, Elem.delNow, Elem.out]
      rw [this, List.append_nil]
      exact h2

/-- With `shift = 0` the window is the token itself. -/
theorem shOut_zero (dw lo hi : Nat) (hdw : 0 < dw) (hlo : lo < 2 ^ dw) : shOut dw lo hi 0 = lo := by
  simp [shOut, hdw, Nat.add_mul_mod_self_right, Nat.mod_eq_of_lt hlo]

/-- For any `shift < dw`, bits `[0, dw-shift)` of the output are bits `[shift, dw)` of the token. -/
theorem shOut_low (dw lo hi sh : Nat) (hsh : sh < dw) (hlo : lo < 2 ^ dw) :
    shOut dw lo hi sh % 2 ^ (dw - sh) = lo / 2 ^ sh := by
  have hpow : 2 ^ dw = 2 ^ (dw - sh) * 2 ^ sh := by rw [← Nat.pow_add]; congr 1; omega
  have hdvd : 2 ^ (dw - sh) ∣ 2 ^ dw := ⟨2 ^ sh, hpow⟩
  have hdiv : (lo + hi * 2 ^ dw) / 2 ^ sh = lo / 2 ^ sh + hi * 2 ^ (dw - sh) := by
    rw [hpow, ← Nat.mul_assoc, Nat.add_mul_div_right _ _ (Nat.two_pow_pos sh)]
  have hsmall : lo / 2 ^ sh < 2 ^ (dw - sh) := by
    rw [Nat.div_lt_iff_lt_mul (Nat.two_pow_pos sh), ← hpow]; exact hlo
  simp only [shOut, hsh, if_true]
  rw [Nat.mod_mod_of_dvd _ hdvd, hdiv, Nat.add_mul_mod_self_right, Nat.mod_eq_of_lt hsmall]

end Litex.Stream
