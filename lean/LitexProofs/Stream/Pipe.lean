import LitexModel.Stream.Conv
import LitexModel.Stream.Route
import LitexModel.Stream.Pipe
import LitexProofs.Stream.Basic
import LitexProofs.Stream.Conv
import LitexProofs.Stream.Sim
/-
  Step lemmas: SyncFIFOBuffered, Gate, Cast (`mapElem`), Delay n, StrideConverter (up), Shifter.
-/
namespace Litex.Stream
open Elem
variable {α β π : Type}

/-! ### SyncFIFOBuffered -/

def FBState.inflight (s : FBState α) : List (Tok α) := (if s.readable then [s.dout] else []) ++ s.q

def fbRel (depth : Nat) (s : FBState α) (a d : List (Tok α)) : Prop :=
  s.q.length ≤ depth ∧ a = d ++ s.inflight

theorem syncFifoBuffered_step (depth : Nat) (z : Tok α) (s : FBState α) (a d : List (Tok α)) (i : In α)
    (h : fbRel depth s a d) :
    fbRel depth ((syncFifoBuffered depth z).step s i) (a ++ (syncFifoBuffered depth z).accNow s i)
      (d ++ (syncFifoBuffered depth z).delNow s i) := by
  obtain ⟨q, rd, dout⟩ := s
  obtain ⟨iv, it, ir⟩ := i
  obtain ⟨hl, h2⟩ := h
  subst h2
  unfold fbRel
  cases q with
  | nil =>
    cases rd <;> cases iv <;> cases ir <;>
      simp [syncFifoBuffered, Elem.step, Elem.accNow, Elem.delNow, Elem.out, FBState.inflight] <;>
      (try split) <;> simp_all <;> omega
  | cons x xs =>
    have hl' : xs.length + 1 ≤ depth := by simpa using hl
    by_cases hfull : xs.length + 1 = depth
    · cases rd <;> cases iv <;> cases ir <;>
        simp [syncFifoBuffered, Elem.step, Elem.accNow, Elem.delNow, Elem.out, FBState.inflight, hfull] <;> omega
    · cases rd <;> cases iv <;> cases ir <;>
        simp [syncFifoBuffered, Elem.step, Elem.accNow, Elem.delNow, Elem.out, FBState.inflight, hfull] <;> omega

/-! ### Gate -/

/-- Delivered = the tokens accepted while enabled; without `sink_ready_when_disabled` nothing is ever accepted
    while disabled. -/
def gateRel (srd : Bool) (_ : Unit) (a : List (Tok (α × Bool))) (d : List (Tok α)) : Prop :=
  d = (a.filter (·.data.2)).map (mapTok (·.1)) ∧ (srd = false → ∀ t ∈ a, t.data.2 = true)

theorem gate_step (srd : Bool) (z : α) (s : Unit) (a : List (Tok (α × Bool))) (d : List (Tok α))
    (i : In (α × Bool)) (h : gateRel srd s a d) :
    gateRel srd ((gate srd z).step s i) (a ++ (gate srd z).accNow s i) (d ++ (gate srd z).delNow s i) := by
  obtain ⟨iv, ⟨⟨td, te⟩, tf, tl⟩, ir⟩ := i
  unfold gateRel at *
  obtain ⟨h, h2⟩ := h
  subst h
  cases iv <;> cases ir <;> cases te <;> cases srd <;>
    simp_all [gate, Elem.accNow, Elem.delNow, Elem.out, mapTok]
  rintro t (ht | rfl)
  · exact h2 t ht
  · rfl

/-! ### Cast and other combinational data maps -/

def mapRel (f : α → β) (_ : Unit) (a : List (Tok α)) (d : List (Tok β)) : Prop := d = a.map (mapTok f)

theorem mapElem_step (f : α → β) (s : Unit) (a : List (Tok α)) (d : List (Tok β)) (i : In α)
    (h : mapRel f s a d) :
    mapRel f ((mapElem f).step s i) (a ++ (mapElem f).accNow s i) (d ++ (mapElem f).delNow s i) := by
  obtain ⟨iv, it, ir⟩ := i
  unfold mapRel at *
  subst h
  cases iv <;> cases ir <;> simp [mapElem, Elem.accNow, Elem.delNow, Elem.out]

/-! ### Delay n -/

def delayRel : (n : Nat) → DelayState α n → List (Tok α) → List (Tok α) → Prop
  | 0, _, a, d => a = d
  | n + 1, s, a, d => ∃ mid, pvRel s.1 a mid ∧ delayRel n s.2 mid d

theorem delay_step (z : Tok α) : ∀ (n : Nat) (s : DelayState α n) (a d : List (Tok α)) (i : In α),
    delayRel n s a d →
    delayRel n ((delay z n).step s i) (a ++ (delay z n).accNow s i) (d ++ (delay z n).delNow s i)
  | 0, s, a, d, i, h => wire_step s a d i h
  | n + 1, s, a, d, i, h =>
    comp_rel (pipeValid z) (delay z n) pvRel (delayRel n) (pipeValid_step z) (delay_step z n) s a d i h

theorem delayRel_init (z : Tok α) : ∀ n, delayRel n (delay z n).init [] []
  | 0 => rfl
  | n + 1 => ⟨[], by simp [pvRel, delay, comp, pipeValid, PVState.inflight], delayRel_init z n⟩

theorem delayRel_inflight : ∀ (n : Nat) (s : DelayState α n) (a d : List (Tok α)),
    delayRel n s a d → ∃ fl, a = d ++ fl ∧ fl.length ≤ n
  | 0, _, a, d, h => ⟨[], by simpa [delayRel] using h, by simp⟩
  | n + 1, s, a, d, ⟨mid, h1, h2⟩ => by
    obtain ⟨fl, hfl, hlen⟩ := delayRel_inflight n s.2 mid d h2
    refine ⟨fl ++ s.1.inflight, ?_, ?_⟩
    · rw [h1, hfl, List.append_assoc]
    · simp only [List.length_append, PVState.inflight]
      split <;> simp <;> omega

/-! ### StrideConverter (up) is an `upConv` whose param register is kept beside the converter -/

def strideUpMap (s : UpState α Unit × π) : UpState α π :=
  { demux := s.1.demux, strobe := s.1.strobe, lanes := s.1.lanes, param := s.2,
    first := s.1.first, last := s.1.last, vtc := s.1.vtc }

theorem strideUp_sim (r : Nat) (z : α) (p0 : π) (ins : List (In (α × π))) :
    (strideUp r z p0).accepted (strideUp r z p0).init ins = (upConv r z p0).accepted (upConv r z p0).init ins ∧
    (strideUp r z p0).delivered (strideUp r z p0).init ins = (upConv r z p0).delivered (upConv r z p0).init ins ∧
    strideUpMap ((strideUp r z p0).runFrom (strideUp r z p0).init ins) =
      (upConv r z p0).runFrom (upConv r z p0).init ins := by
  have h := sim_run (strideUp r z p0) (upConv r z p0) strideUpMap
    (by intro s v t; rfl) (by intro s v t rdy; rfl)
    (by
      intro s v t rdy
      obtain ⟨⟨dm, st, ln, pu, fi, la, vt⟩, p⟩ := s
      simp only [strideUp, upConv, strideUpMap])
    ins (strideUp r z p0).init
  exact h

end Litex.Stream
