import LitexProofs.Stream.HandshakePacketizer
/-
  C04 — stability of `packet.Packetizer` for EVERY header length (aligned or not, any number of header words).

  With `source.ready = 0` no register moves (`sink_d` is loaded on `source.ready` only; IDLE rewrites `count` with the
  value it is not looking at), and every state shows either registers or the refused — hence held — sink token.
  One exception, which is why the statement carries `FlushHeld`: in UNALIGNED-DATA-COPY, while the residue beat of a
  packet is flushed (`sink_d.last = 1`), `source.valid` is high *without* `sink.valid`, and the upper bytes of
  `source.data` (padding behind the packet's last byte) are wired to the sink data lines of a producer that is not
  offering anything.  If those lines move while the flush beat waits, `source.data` moves (negative witness in
  `LitexProps/C04.lean`).
-/
namespace Litex.Packet
open Litex Litex.Stream Litex.Stream.Elem

/-- While the flush beat waits (`sink_d.last`, no sink token, consumer stalls) the idle sink data lines are held. -/
def FlushHeld (c : PkCfg) (s : PkState) (i i' : In HBeat) : Prop :=
  s.st = .ucopy → s.dLast = true → i.valid = false → i.ready = false →
    i'.tok.data.data % 2 ^ c.dw = i.tok.data.data % 2 ^ c.dw

theorem packetizer_stepStableX (c : PkCfg) : StepStableX (packetizer c) (fun _ => True) (FlushHeld c) where
  inv_step _ _ _ := trivial
  hold s i i' _ hin hx := by
    obtain ⟨st, sr, cnt, fi, dd, dl⟩ := s
    obtain ⟨iv, it, ir⟩ := i
    obtain ⟨jv, jt, jr⟩ := i'
    intro hv hr
    simp only at hr; subst hr
    cases st with
    | hdr =>
      simp only [packetizer, Elem.out, Elem.step] at hv ⊢
      simp
    | idle =>
      simp only [packetizer, Elem.out, Elem.step, HoldsIn] at hv hin ⊢
      cases iv with
      | false => simp at hv
      | true =>
        obtain ⟨h1, h2⟩ := hin rfl (by simp)
        subst h1; subst h2
        simp
    | acopy =>
      simp only [packetizer, Elem.out, Elem.step, HoldsIn] at hv hin ⊢
      cases iv with
      | false => simp at hv
      | true =>
        obtain ⟨h1, h2⟩ := hin rfl (by simp)
        subst h1; subst h2
        simp
    | ucopy =>
      simp only [packetizer, Elem.out, Elem.step, HoldsIn] at hv hin ⊢
      cases iv with
      | true =>
        obtain ⟨h1, h2⟩ := hin rfl (by simp)
        subst h1; subst h2
        simp
      | false =>
        have hdl : dl = true := by simpa using hv
        have hd : jt.data.data % 2 ^ c.dw = it.data.data % 2 ^ c.dw := hx rfl hdl rfl rfl
        subst hdl
        simp [PkCfg.pkUData, hd]

theorem packetizer_keepsContractX (c : PkCfg) : KeepsContractX (packetizer c) (FlushHeld c) :=
  keepsContractX_of_stepStable (packetizer_stepStableX c) trivial

/-- In every state and for every header length a cooperative cycle delivers a beat (header word, payload beat or
    flush beat).  Note that this is *not* "the sink is served": see the negative witness in `LitexProps/C04.lean`
    (open finding C16-packetizer-unaligned-single-beat: the same packet is delivered for ever). -/
theorem packetizer_measure_all (c : PkCfg) : DelMeasure (packetizer c) (fun _ => True) (fun _ => 0) 0 where
  inv_step _ _ _ := trivial
  bound _ _ := Nat.le_refl _
  dec s i _ hc := by
    obtain ⟨hv, hr⟩ := hc
    obtain ⟨st, sr, cnt, fi, dd, dl⟩ := s
    obtain ⟨iv, it, ir⟩ := i
    simp only at hv hr; subst hv; subst hr
    left
    cases st <;> simp [packetizer, Elem.delNow, Elem.out]

/-! ### Aligned Packetizer: the sink is served (W header words, then every cooperative cycle accepts a beat) -/

def pkAInv (c : PkCfg) (s : PkState) : Prop :=
  s.st ≠ .ucopy ∧ (s.st = .hdr → 1 ≤ s.count ∧ s.count < c.W)

theorem packetizer_ainv_step (c : PkCfg) (ha : c.aligned = true) (hW : 1 ≤ c.W) (s : PkState) (i : In HBeat)
    (h : pkAInv c s) : pkAInv c ((packetizer c).step s i) := by
  obtain ⟨st, sr, cnt, fi, dd, dl⟩ := s
  obtain ⟨iv, it, ir⟩ := i
  obtain ⟨h1, h3⟩ := h
  simp only at h1 h3
  have hcm := W_le_cntMod c
  unfold pkAInv
  cases st with
  | ucopy => exact absurd rfl h1
  | idle =>
    cases iv <;> cases ir
    · simp [packetizer, Elem.step, ha]
    · simp [packetizer, Elem.step, ha]
    · simp [packetizer, Elem.step, ha]
    · by_cases hw1 : c.W = 1
      · simp [packetizer, Elem.step, ha, PkCfg.copy, hw1]
      · have : (c.W == 1) = false := by simpa using hw1
        simp [packetizer, Elem.step, ha, PkCfg.copy, this]; omega
  | hdr =>
    obtain ⟨h4, h5⟩ := h3 rfl
    cases ir with
    | false => simp [packetizer, Elem.step, ha]; omega
    | true =>
      by_cases hlast : cnt + 1 = c.W
      · simp [packetizer, Elem.step, ha, PkCfg.copy, hlast]
      · have hmod : (cnt + 1) % c.cntMod = cnt + 1 := Nat.mod_eq_of_lt (by omega)
        simp [packetizer, Elem.step, ha, hlast, hmod]; omega
  | acopy =>
    simp only [packetizer, Elem.step, ha]
    split <;> simp

/-- Cycles until the sink is ready again: the header words still to be sent. -/
def pkAMu (c : PkCfg) (s : PkState) : Nat :=
  match s.st with
  | .idle => c.W
  | .hdr => c.W - s.count
  | _ => 0

theorem packetizer_acc_dec (c : PkCfg) (ha : c.aligned = true) (hW : 1 ≤ c.W) (s : PkState) (i : In HBeat)
    (hs : pkAInv c s) (hc : Coop i) :
    1 ≤ ((packetizer c).accNow s i).length ∨ pkAMu c ((packetizer c).step s i) < pkAMu c s := by
  obtain ⟨hv, hr⟩ := hc
  obtain ⟨st, sr, cnt, fi, dd, dl⟩ := s
  obtain ⟨iv, it, ir⟩ := i
  obtain ⟨h1, h3⟩ := hs
  simp only at hv hr h1 h3; subst hv; subst hr
  have hcm := W_le_cntMod c
  cases st with
  | ucopy => exact absurd rfl h1
  | acopy => left; simp [packetizer, Elem.accNow, Elem.out]
  | idle =>
    right
    by_cases hw1 : c.W = 1
    · simp [packetizer, Elem.step, ha, PkCfg.copy, hw1, pkAMu]
    · have : (c.W == 1) = false := by simpa using hw1
      simp [packetizer, Elem.step, ha, PkCfg.copy, this, pkAMu]; omega
  | hdr =>
    right
    obtain ⟨h4, h5⟩ := h3 rfl
    by_cases hlast : cnt + 1 = c.W
    · simp [packetizer, Elem.step, ha, PkCfg.copy, hlast, pkAMu]; omega
    · have hmod : (cnt + 1) % c.cntMod = cnt + 1 := Nat.mod_eq_of_lt (by omega)
      simp [packetizer, Elem.step, ha, hlast, hmod, pkAMu]; omega

theorem packetizer_acceptsWithin (c : PkCfg) (ha : c.aligned = true) (hW : 1 ≤ c.W) :
    AcceptsWithin (packetizer c) (c.W + 1) :=
  acceptsWithin_of_measure _ (pkAInv c) (by simp [pkAInv, packetizer, PkState.reset])
    (packetizer_ainv_step c ha hW) (pkAMu c) c.W
    (fun s _ => by unfold pkAMu; split <;> omega)
    (fun s i hs hc => packetizer_acc_dec c ha hW s i hs hc)

end Litex.Packet
