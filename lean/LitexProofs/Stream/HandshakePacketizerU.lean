import LitexProofs.Stream.HandshakePacketizer
/-
  C04 — stability of `packet.Packetizer` for EVERY header length (aligned or not, any number of header words).

  With `source.ready = 0` no register moves (`sink_d` is loaded on `source.ready` only; IDLE rewrites `count` with the
  value it is not looking at), and every state shows either registers or the refused — hence held — sink token.
  The flush beat of UNALIGNED-DATA-COPY (`sink_d.last`, not the first copy beat: `source.valid` high *without*
  `sink.valid`) shows registers only since the fix of C04-packetizer-flush-padding-unstable
  (`If(~sink_d.last | fsm_from_idle, source.data[leftover*8:].eq(sink.data))`); before it the upper (padding) lanes
  followed the sink data lines of a producer that offers nothing — `pkUDataPre` is that old expression, kept for the
  witness in `LitexProps/C04.lean`.
  One corner remains, inside the open finding C16-packetizer-unaligned-single-beat: the FIRST copy beat of a one-beat
  packet (`fsm_from_idle ∧ sink_d.last`) is valid through `sink_d.last` as well, and its upper lanes are the sink data
  lines (they carry the packet's payload).  A producer that offered that beat must still be offering it (IDLE and
  HEADER-SEND refuse it); if it has *broken* the contract and withdrawn, the lanes follow idle lines.  `FirstBeatHeld`
  excludes exactly that: in this state, with no sink token and a stalling consumer, the sink data lines are held.
-/
namespace Litex.Packet
open Litex Litex.Stream Litex.Stream.Elem

/-- `source.data` of UNALIGNED-DATA-COPY as it was BEFORE the fix (upper lanes always from the sink data lines). -/
def PkCfg.pkUDataPre (c : PkCfg) (s : PkState) (d : Nat) : Nat :=
  let lw := max (8 * c.L) 1
  let low := if s.fromIdle then c.srFrom ((if c.W == 1 then 1 else 2) * c.dw) s.sr
             else s.dData / 2 ^ (min ((c.B - c.L) * 8) (c.dw - 1))
  low % 2 ^ lw + 2 ^ (8 * c.L) * (d % 2 ^ (c.dw - 8 * c.L))

/-- The fix changes nothing outside the genuine flush beat. -/
theorem pkUData_eq_pre (c : PkCfg) (s : PkState) (d : Nat) (h : s.dLast = false ∨ s.fromIdle = true) :
    c.pkUData s d = c.pkUDataPre s d := by
  rcases h with h | h <;> simp [PkCfg.pkUData, PkCfg.pkUDataPre, h]

/-- On the genuine flush beat the source data is a function of the registers alone. -/
theorem pkUData_flush (c : PkCfg) (s : PkState) (d d' : Nat) (h : s.dLast = true) (hf : s.fromIdle = false) :
    c.pkUData s d = c.pkUData s d' := by
  simp [PkCfg.pkUData, h, hf]

/-- First copy beat of a one-beat packet whose producer has withdrawn, consumer stalling: the sink data lines are held. -/
def FirstBeatHeld (c : PkCfg) (s : PkState) (i i' : In HBeat) : Prop :=
  s.st = .ucopy → s.fromIdle = true → s.dLast = true → i.valid = false → i.ready = false →
    i'.tok.data.data % 2 ^ c.dw = i.tok.data.data % 2 ^ c.dw

theorem packetizer_stepStableX (c : PkCfg) : StepStableX (packetizer c) (fun _ => True) (FirstBeatHeld c) where
  inv_step _ _ _ := trivial
  hold s i i' _ hin hx := by
    obtain ⟨st, sr, cnt, fi, dd, dl⟩ := s
    obtain ⟨iv, it, ir⟩ := i
    obtain ⟨jv, jt, jr⟩ := i'
    intro hv hr
    simp only at hr; subst hr
    cases st with
    | hdr =>
      simp only [packetizer, Elem.out, Elem.step] at hv ⊢
      simp
    | idle =>
      simp only [packetizer, Elem.out, Elem.step, HoldsIn] at hv hin ⊢
      cases iv with
      | false => simp at hv
      | true =>
        obtain ⟨h1, h2⟩ := hin rfl (by simp)
        subst h1; subst h2
        simp
    | acopy =>
      simp only [packetizer, Elem.out, Elem.step, HoldsIn] at hv hin ⊢
      cases iv with
      | false => simp at hv
      | true =>
        obtain ⟨h1, h2⟩ := hin rfl (by simp)
        subst h1; subst h2
        simp
    | ucopy =>
      simp only [packetizer, Elem.out, Elem.step, HoldsIn] at hv hin ⊢
      cases iv with
      | true =>
        obtain ⟨h1, h2⟩ := hin rfl (by simp)
        subst h1; subst h2
        simp
      | false =>
        have hdl : dl = true := by simpa using hv
        cases hfi : fi with
        | false =>
          subst hdl; subst hfi
          simp [PkCfg.pkUData]
        | true =>
          have hd : jt.data.data % 2 ^ c.dw = it.data.data % 2 ^ c.dw := hx rfl hfi hdl rfl rfl
          subst hdl; subst hfi
          simp [PkCfg.pkUData, hd]

theorem packetizer_keepsContractX (c : PkCfg) : KeepsContractX (packetizer c) (FirstBeatHeld c) :=
  keepsContractX_of_stepStable (packetizer_stepStableX c) trivial

/-- In every state and for every header length a cooperative cycle delivers a beat (header word, payload beat or
    flush beat).  Note that this is *not* "the sink is served": see the negative witness in `LitexProps/C04.lean`
    (open finding C16-packetizer-unaligned-single-beat: the same packet is delivered for ever). -/
theorem packetizer_measure_all (c : PkCfg) : DelMeasure (packetizer c) (fun _ => True) (fun _ => 0) 0 where
  inv_step _ _ _ := trivial
  bound _ _ := Nat.le_refl _
  dec s i _ hc := by
    obtain ⟨hv, hr⟩ := hc
    obtain ⟨st, sr, cnt, fi, dd, dl⟩ := s
    obtain ⟨iv, it, ir⟩ := i
    simp only at hv hr; subst hv; subst hr
    left
    cases st <;> simp [packetizer, Elem.delNow, Elem.out]

/-! ### Aligned Packetizer: the sink is served (W header words, then every cooperative cycle accepts a beat) -/

def pkAInv (c : PkCfg) (s : PkState) : Prop :=
  s.st ≠ .ucopy ∧ (s.st = .hdr → 1 ≤ s.count ∧ s.count < c.W)

theorem packetizer_ainv_step (c : PkCfg) (ha : c.aligned = true) (hW : 1 ≤ c.W) (s : PkState) (i : In HBeat)
    (h : pkAInv c s) : pkAInv c ((packetizer c).step s i) := by
  obtain ⟨st, sr, cnt, fi, dd, dl⟩ := s
  obtain ⟨iv, it, ir⟩ := i
  obtain ⟨h1, h3⟩ := h
  simp only at h1 h3
  have hcm := W_le_cntMod c
  unfold pkAInv
  cases st with
  | ucopy => exact absurd rfl h1
  | idle =>
    cases iv <;> cases ir
    · simp [packetizer, Elem.step, ha]
    · simp [packetizer, Elem.step, ha]
    · simp [packetizer, Elem.step, ha]
    · by_cases hw1 : c.W = 1
      · simp [packetizer, Elem.step, ha, PkCfg.copy, hw1]
      · have : (c.W == 1) = false := by simpa using hw1
        simp [packetizer, Elem.step, ha, PkCfg.copy, this]; omega
  | hdr =>
    obtain ⟨h4, h5⟩ := h3 rfl
    cases ir with
    | false => simp [packetizer, Elem.step, ha]; omega
    | true =>
      by_cases hlast : cnt + 1 = c.W
      · simp [packetizer, Elem.step, ha, PkCfg.copy, hlast]
      · have hmod : (cnt + 1) % c.cntMod = cnt + 1 := Nat.mod_eq_of_lt (by omega)
        simp [packetizer, Elem.step, ha, hlast, hmod]; omega
  | acopy =>
    simp only [packetizer, Elem.step, ha]
    split <;> simp

/-- Cycles until the sink is ready again: the header words still to be sent. -/
def pkAMu (c : PkCfg) (s : PkState) : Nat :=
  match s.st with
  | .idle => c.W
  | .hdr => c.W - s.count
  | _ => 0

theorem packetizer_acc_dec (c : PkCfg) (ha : c.aligned = true) (hW : 1 ≤ c.W) (s : PkState) (i : In HBeat)
    (hs : pkAInv c s) (hc : Coop i) :
    1 ≤ ((packetizer c).accNow s i).length ∨ pkAMu c ((packetizer c).step s i) < pkAMu c s := by
  obtain ⟨hv, hr⟩ := hc
  obtain ⟨st, sr, cnt, fi, dd, dl⟩ := s
  obtain ⟨iv, it, ir⟩ := i
  obtain ⟨h1, h3⟩ := hs
  simp only at hv hr h1 h3; subst hv; subst hr
  have hcm := W_le_cntMod c
  cases st with
  | ucopy => exact absurd rfl h1
  | acopy => left; simp [packetizer, Elem.accNow, Elem.out]
  | idle =>
    right
    by_cases hw1 : c.W = 1
    · simp [packetizer, Elem.step, ha, PkCfg.copy, hw1, pkAMu]
    · have : (c.W == 1) = false := by simpa using hw1
      simp [packetizer, Elem.step, ha, PkCfg.copy, this, pkAMu]; omega
  | hdr =>
    right
    obtain ⟨h4, h5⟩ := h3 rfl
    by_cases hlast : cnt + 1 = c.W
    · simp [packetizer, Elem.step, ha, PkCfg.copy, hlast, pkAMu]; omega
    · have hmod : (cnt + 1) % c.cntMod = cnt + 1 := Nat.mod_eq_of_lt (by omega)
      simp [packetizer, Elem.step, ha, hlast, hmod, pkAMu]; omega

theorem packetizer_acceptsWithin (c : PkCfg) (ha : c.aligned = true) (hW : 1 ≤ c.W) :
    AcceptsWithin (packetizer c) (c.W + 1) :=
  acceptsWithin_of_measure _ (pkAInv c) (by simp [pkAInv, packetizer, PkState.reset])
    (packetizer_ainv_step c ha hW) (pkAMu c) c.W
    (fun s _ => by unfold pkAMu; split <;> omega)
    (fun s i hs hc => packetizer_acc_dec c ha hW s i hs hc)

end Litex.Packet
