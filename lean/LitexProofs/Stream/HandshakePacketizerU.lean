import LitexProofs.Stream.HandshakePacketizer
/-
  C04 — stability of `packet.Packetizer` for EVERY header length (aligned or not, any number of header words).

  With `source.ready = 0` no register moves (`sink_d` is loaded on `source.ready` only; IDLE rewrites `count` with the
  value it is not looking at), and every state shows either registers or the refused — hence held — sink token.
  One exception, which is why the statement carries `FlushHeld`: in UNALIGNED-DATA-COPY, while the residue beat of a
  packet is flushed (`sink_d.last = 1`), `source.valid` is high *without* `sink.valid`, and the upper bytes of
  `source.data` (padding behind the packet's last byte) are wired to the sink data lines of a producer that is not
  offering anything.  If those lines move while the flush beat waits, `source.data` moves (negative witness in
  `LitexProps/C04.lean`).
-/
namespace Litex.Packet
open Litex Litex.Stream Litex.Stream.Elem

/-- While the flush beat waits (`sink_d.last`, no sink token, consumer stalls) the idle sink data lines are held. -/
def FlushHeld (c : PkCfg) (s : PkState) (i i' : In HBeat) : Prop :=
  s.st = .ucopy → s.dLast = true → i.valid = false → i.ready = false →
    i'.tok.data.data % 2 ^ c.dw = i.tok.data.data % 2 ^ c.dw

theorem packetizer_stepStableX (c : PkCfg) : StepStableX (packetizer c) (fun _ => True) (FlushHeld c) where
  inv_step _ _ _ := trivial
  hold s i i' _ hin hx := by
    obtain ⟨st, sr, cnt, fi, dd, dl⟩ := s
    obtain ⟨iv, it, ir⟩ := i
    obtain ⟨jv, jt, jr⟩ := i'
    intro hv hr
    simp only at hr; subst hr
    cases st with
    | hdr =>
      simp only [packetizer, Elem.out, Elem.step] at hv ⊢
      simp
    | idle =>
      simp only [packetizer, Elem.out, Elem.step, HoldsIn] at hv hin ⊢
      cases iv with
      | false => simp at hv
      | true =>
        obtain ⟨h1, h2⟩ := hin rfl (by simp)
        subst h1; subst h2
        simp
    | acopy =>
      simp only [packetizer, Elem.out, Elem.step, HoldsIn] at hv hin ⊢
      cases iv with
      | false => simp at hv
      | true =>
        obtain ⟨h1, h2⟩ := hin rfl (by simp)
        subst h1; subst h2
        simp
    | ucopy =>
      simp only [packetizer, Elem.out, Elem.step, HoldsIn] at hv hin ⊢
      cases iv with
      | true =>
        obtain ⟨h1, h2⟩ := hin rfl (by simp)
        subst h1; subst h2
        simp
      | false =>
        have hdl : dl = true := by simpa using hv
        have hd : jt.data.data % 2 ^ c.dw = it.data.data % 2 ^ c.dw := hx rfl hdl rfl rfl
        subst hdl
        simp [PkCfg.pkUData, hd]

theorem packetizer_keepsContractX (c : PkCfg) : KeepsContractX (packetizer c) (FlushHeld c) :=
  keepsContractX_of_stepStable (packetizer_stepStableX c) trivial

/-- In every state and for every header length a cooperative cycle delivers a beat (header word, payload beat or
    flush beat).  Note that this is *not* "the sink is served": see the negative witness in `LitexProps/C04.lean`
    (open finding C16-packetizer-unaligned-single-beat: the same packet is delivered for ever). -/
theorem packetizer_measure_all (c : PkCfg) : DelMeasure (packetizer c) (fun _ => True) (fun _ => 0) 0 where
  inv_step _ _ _ := trivial
  bound _ _ := Nat.le_refl _
  dec s i _ hc := by
    obtain ⟨hv, hr⟩ := hc
    obtain ⟨st, sr, cnt, fi, dd, dl⟩ := s
    obtain ⟨iv, it, ir⟩ := i
    simp only at hv hr; subst hv; subst hr
    left
    cases st <;> simp [packetizer, Elem.delNow, Elem.out]

end Litex.Packet
