import LitexModel.Stream.Core
/-
  C04 — generic lifting lemmas for the valid/ready handshake contract and for progress.

  * Stability.  `StableIn e s ins`: the producer keeps the stream contract along `ins` (it looks at the element's
    own `sink.ready`, computed from the running state).  `StableOut e s ins`: the element keeps the contract on
    its source.  A one-cycle lemma (`StepStable`) lifts to every input list (`stable_of_step`), and composes
    through `a ⟫ b` (`StepStable.comp`, `comp_stable`).
  * Progress.  A window lemma ("every `K` cooperative cycles from an invariant state contain a handshake /
    a delivery") lifts to "`n * K` cooperative cycles contain at least `n` of them" (`count_ge_of_window`).
-/
namespace Litex.Stream
namespace Elem
variable {α β γ σ τ : Type}

/-! ### Stability -/

/-- Producer contract along `i :: ins` when the element is in state `s` at cycle `i`: at every cycle
    boundary, a token that was offered and not accepted is offered again unchanged. -/
def StableInFrom (e : Elem α β σ) : σ → In α → List (In α) → Prop
  | _, _, [] => True
  | s, i, i' :: is => HoldsIn i i' (e.out s i).ready ∧ StableInFrom e (e.step s i) i' is

def StableIn (e : Elem α β σ) (s : σ) : List (In α) → Prop
  | [] => True
  | i :: is => StableInFrom e s i is

/-- Source contract along `i :: ins`: whenever `source.valid ∧ ¬source.ready`, the next cycle shows
    `source.valid` and the same token (payload, param, first, last). -/
def StableOutFrom (e : Elem α β σ) : σ → In α → List (In α) → Prop
  | _, _, [] => True
  | s, i, i' :: is =>
    HoldsOut (e.out s i) (e.out (e.step s i) i') i ∧ StableOutFrom e (e.step s i) i' is

def StableOut (e : Elem α β σ) (s : σ) : List (In α) → Prop
  | [] => True
  | i :: is => StableOutFrom e s i is

/-- One-cycle handshake stability in the states satisfying the inductive invariant `Inv`. -/
structure StepStable (e : Elem α β σ) (Inv : σ → Prop) : Prop where
  inv_step : ∀ s i, Inv s → Inv (e.step s i)
  hold : ∀ s i i', Inv s → HoldsIn i i' (e.out s i).ready →
    HoldsOut (e.out s i) (e.out (e.step s i) i') i

theorem stableFrom_of_step {e : Elem α β σ} {Inv : σ → Prop} (h : StepStable e Inv) :
    ∀ (ins : List (In α)) (s : σ) (i : In α), Inv s → StableInFrom e s i ins → StableOutFrom e s i ins := by
  intro ins
  induction ins with
  | nil => intro s i _ _; trivial
  | cons i' is ih =>
    intro s i hs hin
    exact ⟨h.hold s i i' hs hin.1, ih (e.step s i) i' (h.inv_step s i hs) hin.2⟩

/-- **Stability lifting.**  A one-cycle stability lemma gives stability along every input list (every
    valid/ready schedule and token sequence) of a contract-obeying producer, from every invariant state. -/
theorem stable_of_step {e : Elem α β σ} {Inv : σ → Prop} (h : StepStable e Inv)
    (s : σ) (hs : Inv s) (ins : List (In α)) (hin : StableIn e s ins) : StableOut e s ins := by
  cases ins with
  | nil => trivial
  | cons i is => exact stableFrom_of_step h is s i hs hin

/-! #### Index form of the two contracts (what a waveform viewer would check) -/

/-- Outputs cycle by cycle. -/
def outs (e : Elem α β σ) (s : σ) (ins : List (In α)) : List (Out β) := e.toMachine.traceFrom s ins

@[simp] theorem outs_nil (e : Elem α β σ) (s : σ) : e.outs s [] = [] := rfl
@[simp] theorem outs_cons (e : Elem α β σ) (s : σ) (i : In α) (is : List (In α)) :
    e.outs s (i :: is) = e.out s i :: e.outs (e.step s i) is := rfl

theorem stableOutFrom_index (e : Elem α β σ) :
    ∀ (is : List (In α)) (s : σ) (i : In α), StableOutFrom e s i is →
      ∀ (t : Nat) (o o' : Out β) (x : In α),
        (e.outs s (i :: is))[t]? = some o → (e.outs s (i :: is))[t + 1]? = some o' →
        (i :: is)[t]? = some x → HoldsOut o o' x := by
  intro is
  induction is with
  | nil =>
    intro s i _ t o o' x _ h2 _
    simp at h2
  | cons i' is ih =>
    intro s i h t o o' x h1 h2 h3
    cases t with
    | zero =>
      simp at h1 h2 h3
      subst h1; subst h2; subst h3
      exact h.1
    | succ t =>
      simp only [outs_cons, List.getElem?_cons_succ] at h1 h2 h3
      exact ih (e.step s i) i' h.2 t o o' x (by simpa using h1) (by simpa using h2) h3

/-- **Index form of `StableOut`.**  At every cycle `t` of the run: if `source.valid` was high and `source.ready`
    low, then at `t+1` `source.valid` is high and the source token is unchanged. -/
theorem stableOut_index (e : Elem α β σ) (s : σ) (ins : List (In α)) (h : StableOut e s ins)
    (t : Nat) (o o' : Out β) (x : In α)
    (h1 : (e.outs s ins)[t]? = some o) (h2 : (e.outs s ins)[t + 1]? = some o') (h3 : ins[t]? = some x) :
    o.valid = true → x.ready = false → (o'.valid = true ∧ o'.tok = o.tok) := by
  cases ins with
  | nil => simp at h3
  | cons i is => exact stableOutFrom_index e is s i h t o o' x h1 h2 h3

theorem stableInFrom_of_index (e : Elem α β σ) :
    ∀ (is : List (In α)) (s : σ) (i : In α),
      (∀ (t : Nat) (x x' : In α) (o : Out β),
        (i :: is)[t]? = some x → (i :: is)[t + 1]? = some x' → (e.outs s (i :: is))[t]? = some o →
        HoldsIn x x' o.ready) → StableInFrom e s i is := by
  intro is
  induction is with
  | nil => intro s i _; trivial
  | cons i' is ih =>
    intro s i h
    refine ⟨h 0 i i' (e.out s i) rfl rfl rfl, ih (e.step s i) i' ?_⟩
    intro t x x' o h1 h2 h3
    exact h (t + 1) x x' o (by simpa using h1) (by simpa using h2) (by simpa using h3)

/-- **Index form of `StableIn`** (sufficient direction): a producer that, at every cycle `t`, re-offers at `t+1`
    the token it offered at `t` when `sink.ready` was low, satisfies `StableIn`. -/
theorem stableIn_of_index (e : Elem α β σ) (s : σ) (ins : List (In α))
    (h : ∀ (t : Nat) (x x' : In α) (o : Out β),
        ins[t]? = some x → ins[t + 1]? = some x' → (e.outs s ins)[t]? = some o →
        x.valid = true → o.ready = false → (x'.valid = true ∧ x'.tok = x.tok)) : StableIn e s ins := by
  cases ins with
  | nil => trivial
  | cons i is => exact stableInFrom_of_index e is s i h

/-! #### Composition -/

/-- **Stability composes (one-cycle form).**  `a.source` feeds `b.sink`: `a`'s source contract is exactly `b`'s
    producer contract. -/
theorem StepStable.comp {a : Elem α β σ} {b : Elem β γ τ} {Ia : σ → Prop} {Ib : τ → Prop}
    (ha : StepStable a Ia) (hb : StepStable b Ib) :
    StepStable (a.comp b) (fun s => Ia s.1 ∧ Ib s.2) where
  inv_step s i h := by
    rw [comp_step]
    exact ⟨ha.inv_step s.1 _ h.1, hb.inv_step s.2 _ h.2⟩
  hold s i i' h hin := by
    have h1 : HoldsOut (a.out s.1 (compInA a b s i))
        (a.out (a.step s.1 (compInA a b s i)) (compInA a b ((a.comp b).step s i) i')) (compInA a b s i) :=
      ha.hold s.1 (compInA a b s i) (compInA a b ((a.comp b).step s i) i') h.1 hin
    have h2 : HoldsIn (compInB a b s i) (compInB a b ((a.comp b).step s i) i')
        (b.out s.2 (compInB a b s i)).ready := h1
    exact hb.hold s.2 (compInB a b s i) (compInB a b ((a.comp b).step s i) i') h.2 h2

/-- **Stability of `a ⟫ b` from stability of `a` and of `b`**, for every input list. -/
theorem comp_stable {a : Elem α β σ} {b : Elem β γ τ} {Ia : σ → Prop} {Ib : τ → Prop}
    (ha : StepStable a Ia) (hb : StepStable b Ib) (s : σ × τ) (hsa : Ia s.1) (hsb : Ib s.2)
    (ins : List (In α)) (hin : StableIn (a.comp b) s ins) : StableOut (a.comp b) s ins :=
  stable_of_step (ha.comp hb) s ⟨hsa, hsb⟩ ins hin

/-! ### Progress -/

/-- A cooperative cycle: the producer offers and the consumer accepts. -/
def Coop (i : In α) : Prop := i.valid = true ∧ i.ready = true

/-- Number of sink handshakes plus source handshakes along a run. -/
def hsCount (e : Elem α β σ) (s : σ) (ins : List (In α)) : Nat :=
  (e.accepted s ins).length + (e.delivered s ins).length

theorem accepted_append (e : Elem α β σ) (s : σ) (a b : List (In α)) :
    e.accepted s (a ++ b) = e.accepted s a ++ e.accepted (e.runFrom s a) b := by
  induction a generalizing s with
  | nil => simp [accepted]
  | cons i is ih => simp [accepted, ih, List.append_assoc]

theorem delivered_append (e : Elem α β σ) (s : σ) (a b : List (In α)) :
    e.delivered s (a ++ b) = e.delivered s a ++ e.delivered (e.runFrom s a) b := by
  induction a generalizing s with
  | nil => simp [delivered]
  | cons i is ih => simp [delivered, ih, List.append_assoc]

theorem hsCount_append (e : Elem α β σ) (s : σ) (a b : List (In α)) :
    e.hsCount s (a ++ b) = e.hsCount s a + e.hsCount (e.runFrom s a) b := by
  simp [hsCount, accepted_append, delivered_append]; omega

theorem inv_runFrom (e : Elem α β σ) (Inv : σ → Prop) (hstep : ∀ s i, Inv s → Inv (e.step s i))
    (ins : List (In α)) (s : σ) (h : Inv s) : Inv (e.runFrom s ins) :=
  Machine.invariant_runFrom e.toMachine Inv hstep ins s h

/-- An invariant that holds at reset and is preserved by every cycle holds in every reachable state. -/
theorem inv_reachable (e : Elem α β σ) (Inv : σ → Prop) (h0 : Inv e.init)
    (hstep : ∀ s i, Inv s → Inv (e.step s i)) (ins : List (In α)) : Inv (e.runFrom e.init ins) :=
  inv_runFrom e Inv hstep ins e.init h0

/-- **Window lifting.**  Let `cnt` be an additive count along runs (handshakes, deliveries) and `C` the
    cooperation assumption on a cycle (`Coop`, possibly strengthened, e.g. "and the gate is enabled").  If every
    window of exactly `K` cooperative cycles from an invariant state counts at least one, then `n * K`
    cooperative cycles count at least `n`: the count grows without bound. -/
theorem count_ge_of_window (e : Elem α β σ) (Inv : σ → Prop) (hstep : ∀ s i, Inv s → Inv (e.step s i))
    (C : In α → Prop) (cnt : σ → List (In α) → Nat)
    (hadd : ∀ s a b, cnt s (a ++ b) = cnt s a + cnt (e.runFrom s a) b)
    (K : Nat)
    (hwin : ∀ s ins, Inv s → (∀ i ∈ ins, C i) → ins.length = K → 1 ≤ cnt s ins) :
    ∀ (n : Nat) (s : σ) (ins : List (In α)), Inv s → (∀ i ∈ ins, C i) → n * K ≤ ins.length →
      n ≤ cnt s ins := by
  intro n
  induction n with
  | zero => intro s ins _ _ _; exact Nat.zero_le _
  | succ n ih =>
    intro s ins hs hc hlen
    have hK : K ≤ ins.length := by
      have : K ≤ (n + 1) * K := Nat.le_mul_of_pos_left K (Nat.succ_pos n)
      omega
    have hsplit : ins = ins.take K ++ ins.drop K := (List.take_append_drop K ins).symm
    rw [hsplit, hadd]
    have h1 : 1 ≤ cnt s (ins.take K) :=
      hwin s (ins.take K) hs (fun i hi => hc i (List.mem_of_mem_take hi)) (by simp [List.length_take]; omega)
    have h2 : n ≤ cnt (e.runFrom s (ins.take K)) (ins.drop K) := by
      apply ih _ _ (inv_runFrom e Inv hstep _ s hs) (fun i hi => hc i (List.mem_of_mem_drop hi))
      simp only [List.length_drop]
      have : (n + 1) * K = n * K + K := by rw [Nat.succ_mul]
      omega
    omega

/-- Deliveries grow without bound: instance of `count_ge_of_window` for `delivered`. -/
theorem delivered_ge_of_window (e : Elem α β σ) (Inv : σ → Prop) (hstep : ∀ s i, Inv s → Inv (e.step s i))
    (C : In α → Prop) (K : Nat)
    (hwin : ∀ s ins, Inv s → (∀ i ∈ ins, C i) → ins.length = K → 1 ≤ (e.delivered s ins).length)
    (n : Nat) (s : σ) (ins : List (In α)) (hs : Inv s) (hc : ∀ i ∈ ins, C i) (hlen : n * K ≤ ins.length) :
    n ≤ (e.delivered s ins).length :=
  count_ge_of_window e Inv hstep C (fun s ins => (e.delivered s ins).length)
    (by intro s a b; simp [delivered_append]) K hwin n s ins hs hc hlen

/-- Handshakes grow without bound: instance of `count_ge_of_window` for `hsCount`. -/
theorem hsCount_ge_of_window (e : Elem α β σ) (Inv : σ → Prop) (hstep : ∀ s i, Inv s → Inv (e.step s i))
    (C : In α → Prop) (K : Nat)
    (hwin : ∀ s ins, Inv s → (∀ i ∈ ins, C i) → ins.length = K → 1 ≤ e.hsCount s ins)
    (n : Nat) (s : σ) (ins : List (In α)) (hs : Inv s) (hc : ∀ i ∈ ins, C i) (hlen : n * K ≤ ins.length) :
    n ≤ e.hsCount s ins :=
  count_ge_of_window e Inv hstep C e.hsCount (hsCount_append e) K hwin n s ins hs hc hlen

/-- Sink handshakes grow without bound: instance of `count_ge_of_window` for `accepted`. -/
theorem accepted_ge_of_window (e : Elem α β σ) (Inv : σ → Prop) (hstep : ∀ s i, Inv s → Inv (e.step s i))
    (C : In α → Prop) (K : Nat)
    (hwin : ∀ s ins, Inv s → (∀ i ∈ ins, C i) → ins.length = K → 1 ≤ (e.accepted s ins).length)
    (n : Nat) (s : σ) (ins : List (In α)) (hs : Inv s) (hc : ∀ i ∈ ins, C i) (hlen : n * K ≤ ins.length) :
    n ≤ (e.accepted s ins).length :=
  count_ge_of_window e Inv hstep C (fun s ins => (e.accepted s ins).length)
    (by intro s a b; simp [accepted_append]) K hwin n s ins hs hc hlen

/-! #### Windows from a decreasing measure -/

/-- **Measure lemma.**  `now s i` counts the events of interest in one cycle (`cnt` sums it).  If in every
    cooperative cycle from an invariant state either an event happens or the measure `μ` strictly decreases, then
    every window of `n + 1` cooperative cycles from a state with `μ ≤ n` contains an event. -/
theorem window_of_measure (e : Elem α β σ) (Inv : σ → Prop) (hstep : ∀ s i, Inv s → Inv (e.step s i))
    (C : In α → Prop) (now : σ → In α → Nat) (cnt : σ → List (In α) → Nat)
    (hcnt : ∀ s i is, cnt s (i :: is) = now s i + cnt (e.step s i) is)
    (μ : σ → Nat)
    (hdec : ∀ s i, Inv s → C i → 1 ≤ now s i ∨ μ (e.step s i) < μ s) :
    ∀ (n : Nat) (s : σ) (ins : List (In α)), Inv s → μ s ≤ n → (∀ i ∈ ins, C i) → ins.length = n + 1 →
      1 ≤ cnt s ins := by
  intro n
  induction n with
  | zero =>
    intro s ins hs hμ hc hlen
    match ins, hlen with
    | [i], _ =>
      rw [hcnt]
      rcases hdec s i hs (hc i (by simp)) with h | h
      · omega
      · omega
  | succ n ih =>
    intro s ins hs hμ hc hlen
    match ins, hlen with
    | i :: is, hl =>
      rw [hcnt]
      rcases hdec s i hs (hc i (by simp)) with h | h
      · omega
      · have := ih (e.step s i) is (hstep s i hs) (by omega) (fun j hj => hc j (by simp [hj]))
          (by simpa using hl)
        omega

/-- Delivery window from a measure bounded by `B` on invariant states: `K' = B + 1`. -/
theorem del_window_of_measure (e : Elem α β σ) (Inv : σ → Prop) (hstep : ∀ s i, Inv s → Inv (e.step s i))
    (C : In α → Prop) (μ : σ → Nat) (B : Nat) (hB : ∀ s, Inv s → μ s ≤ B)
    (hdec : ∀ s i, Inv s → C i → 1 ≤ (e.delNow s i).length ∨ μ (e.step s i) < μ s)
    (s : σ) (ins : List (In α)) (hs : Inv s) (hc : ∀ i ∈ ins, C i) (hlen : ins.length = B + 1) :
    1 ≤ (e.delivered s ins).length :=
  window_of_measure e Inv hstep C (fun s i => (e.delNow s i).length) (fun s ins => (e.delivered s ins).length)
    (by intro s i is; simp [delivered]) μ hdec B s ins hs (hB s hs) hc hlen

/-- Sink-handshake window from a measure bounded by `B`. -/
theorem acc_window_of_measure (e : Elem α β σ) (Inv : σ → Prop) (hstep : ∀ s i, Inv s → Inv (e.step s i))
    (C : In α → Prop) (μ : σ → Nat) (B : Nat) (hB : ∀ s, Inv s → μ s ≤ B)
    (hdec : ∀ s i, Inv s → C i → 1 ≤ (e.accNow s i).length ∨ μ (e.step s i) < μ s)
    (s : σ) (ins : List (In α)) (hs : Inv s) (hc : ∀ i ∈ ins, C i) (hlen : ins.length = B + 1) :
    1 ≤ (e.accepted s ins).length :=
  window_of_measure e Inv hstep C (fun s i => (e.accNow s i).length) (fun s ins => (e.accepted s ins).length)
    (by intro s i is; simp [accepted]) μ hdec B s ins hs (hB s hs) hc hlen

/-! ### The C04 statements about one element, quantified over every reachable state -/

/-- **Handshake contract.**  From every state reachable from reset (by *any* inputs `pre`), along every
    continuation `ins` on which the producer keeps the contract, the element keeps it on its source. -/
def KeepsContract (e : Elem α β σ) : Prop :=
  ∀ pre ins : List (In α), StableIn e (e.runFrom e.init pre) ins → StableOut e (e.runFrom e.init pre) ins

/-- **No deadlock** (under the cooperation assumption `C` on every cycle).  From every reachable state, `n * K`
    cooperative cycles contain at least `n` handshakes (sink or source): one in every window of `K` cycles. -/
def ProgressWithinC (e : Elem α β σ) (C : In α → Prop) (K : Nat) : Prop :=
  ∀ pre ins : List (In α), (∀ i ∈ ins, C i) → ∀ n, n * K ≤ ins.length →
    n ≤ e.hsCount (e.runFrom e.init pre) ins

/-- **No livelock.**  From every reachable state, `n * K` cooperative cycles deliver at least `n` tokens at the
    source: deliveries grow without bound, at least one every `K` cycles. -/
def DeliversWithinC (e : Elem α β σ) (C : In α → Prop) (K : Nat) : Prop :=
  ∀ pre ins : List (In α), (∀ i ∈ ins, C i) → ∀ n, n * K ≤ ins.length →
    n ≤ (e.delivered (e.runFrom e.init pre) ins).length

/-- The sink is served: from every reachable state, `n * K` cooperative cycles accept at least `n` tokens. -/
def AcceptsWithinC (e : Elem α β σ) (C : In α → Prop) (K : Nat) : Prop :=
  ∀ pre ins : List (In α), (∀ i ∈ ins, C i) → ∀ n, n * K ≤ ins.length →
    n ≤ (e.accepted (e.runFrom e.init pre) ins).length

/-- `C = Coop`: valid = 1 and ready = 1 in every cycle, arbitrary tokens. -/
abbrev ProgressWithin (e : Elem α β σ) (K : Nat) : Prop := ProgressWithinC e Coop K
abbrev DeliversWithin (e : Elem α β σ) (K : Nat) : Prop := DeliversWithinC e Coop K
abbrev AcceptsWithin (e : Elem α β σ) (K : Nat) : Prop := AcceptsWithinC e Coop K

theorem keepsContract_of_stepStable {e : Elem α β σ} {Inv : σ → Prop} (h : StepStable e Inv)
    (h0 : Inv e.init) : KeepsContract e :=
  fun pre ins hin => stable_of_step h _ (inv_reachable e Inv h0 h.inv_step pre) ins hin

theorem progressWithin_of_window (e : Elem α β σ) (Inv : σ → Prop) (h0 : Inv e.init)
    (hstep : ∀ s i, Inv s → Inv (e.step s i)) {C : In α → Prop} (K : Nat)
    (hwin : ∀ s ins, Inv s → (∀ i ∈ ins, C i) → ins.length = K → 1 ≤ e.hsCount s ins) :
    ProgressWithinC e C K :=
  fun pre ins hc n hn =>
    hsCount_ge_of_window e Inv hstep C K hwin n _ ins (inv_reachable e Inv h0 hstep pre) hc hn

theorem deliversWithin_of_window (e : Elem α β σ) (Inv : σ → Prop) (h0 : Inv e.init)
    (hstep : ∀ s i, Inv s → Inv (e.step s i)) {C : In α → Prop} (K : Nat)
    (hwin : ∀ s ins, Inv s → (∀ i ∈ ins, C i) → ins.length = K → 1 ≤ (e.delivered s ins).length) :
    DeliversWithinC e C K :=
  fun pre ins hc n hn =>
    delivered_ge_of_window e Inv hstep C K hwin n _ ins (inv_reachable e Inv h0 hstep pre) hc hn

theorem acceptsWithin_of_window (e : Elem α β σ) (Inv : σ → Prop) (h0 : Inv e.init)
    (hstep : ∀ s i, Inv s → Inv (e.step s i)) {C : In α → Prop} (K : Nat)
    (hwin : ∀ s ins, Inv s → (∀ i ∈ ins, C i) → ins.length = K → 1 ≤ (e.accepted s ins).length) :
    AcceptsWithinC e C K :=
  fun pre ins hc n hn =>
    accepted_ge_of_window e Inv hstep C K hwin n _ ins (inv_reachable e Inv h0 hstep pre) hc hn

/-- A delivery is a handshake: `DeliversWithin` implies `ProgressWithin` with the same bound. -/
theorem DeliversWithinC.progress {e : Elem α β σ} {C : In α → Prop} {K : Nat} (h : DeliversWithinC e C K) :
    ProgressWithinC e C K :=
  fun pre ins hc n hn => Nat.le_trans (h pre ins hc n hn) (Nat.le_add_left _ _)

/-- So is a sink handshake. -/
theorem AcceptsWithinC.progress {e : Elem α β σ} {C : In α → Prop} {K : Nat} (h : AcceptsWithinC e C K) :
    ProgressWithinC e C K :=
  fun pre ins hc n hn => Nat.le_trans (h pre ins hc n hn) (Nat.le_add_right _ _)

/-- Delivery bound from a measure: `K' = B + 1`. -/
theorem deliversWithin_of_measure (e : Elem α β σ) (Inv : σ → Prop) (h0 : Inv e.init)
    (hstep : ∀ s i, Inv s → Inv (e.step s i)) {C : In α → Prop} (μ : σ → Nat) (B : Nat)
    (hB : ∀ s, Inv s → μ s ≤ B)
    (hdec : ∀ s i, Inv s → C i → 1 ≤ (e.delNow s i).length ∨ μ (e.step s i) < μ s) :
    DeliversWithinC e C (B + 1) :=
  deliversWithin_of_window e Inv h0 hstep (B + 1)
    (fun s ins hs hc hl => del_window_of_measure e Inv hstep C μ B hB hdec s ins hs hc hl)

theorem acceptsWithin_of_measure (e : Elem α β σ) (Inv : σ → Prop) (h0 : Inv e.init)
    (hstep : ∀ s i, Inv s → Inv (e.step s i)) {C : In α → Prop} (μ : σ → Nat) (B : Nat)
    (hB : ∀ s, Inv s → μ s ≤ B)
    (hdec : ∀ s i, Inv s → C i → 1 ≤ (e.accNow s i).length ∨ μ (e.step s i) < μ s) :
    AcceptsWithinC e C (B + 1) :=
  acceptsWithin_of_window e Inv h0 hstep (B + 1)
    (fun s ins hs hc hl => acc_window_of_measure e Inv hstep C μ B hB hdec s ins hs hc hl)

/-! ### Stability under an extra, explicit assumption on the environment

  `Shifter` reads its `shift` input combinationally on the output side, `Gate`/`Multiplexer`/`Demultiplexer` route
  by `enable`/`sel`: these elements are *designed* to change their source when that control input changes.  Their
  contract theorem carries the assumption `X s i i'` on each cycle boundary (typically: "the control input is
  held while a token waits at the source"). -/

def StableInFromX (e : Elem α β σ) (X : σ → In α → In α → Prop) : σ → In α → List (In α) → Prop
  | _, _, [] => True
  | s, i, i' :: is => HoldsIn i i' (e.out s i).ready ∧ X s i i' ∧ StableInFromX e X (e.step s i) i' is

def StableInX (e : Elem α β σ) (X : σ → In α → In α → Prop) (s : σ) : List (In α) → Prop
  | [] => True
  | i :: is => StableInFromX e X s i is

structure StepStableX (e : Elem α β σ) (Inv : σ → Prop) (X : σ → In α → In α → Prop) : Prop where
  inv_step : ∀ s i, Inv s → Inv (e.step s i)
  hold : ∀ s i i', Inv s → HoldsIn i i' (e.out s i).ready → X s i i' →
    HoldsOut (e.out s i) (e.out (e.step s i) i') i

theorem stableFromX_of_step {e : Elem α β σ} {Inv : σ → Prop} {X : σ → In α → In α → Prop}
    (h : StepStableX e Inv X) :
    ∀ (ins : List (In α)) (s : σ) (i : In α), Inv s → StableInFromX e X s i ins → StableOutFrom e s i ins := by
  intro ins
  induction ins with
  | nil => intro s i _ _; trivial
  | cons i' is ih =>
    intro s i hs hin
    exact ⟨h.hold s i i' hs hin.1 hin.2.1, ih (e.step s i) i' (h.inv_step s i hs) hin.2.2⟩

theorem stableX_of_step {e : Elem α β σ} {Inv : σ → Prop} {X : σ → In α → In α → Prop}
    (h : StepStableX e Inv X) (s : σ) (hs : Inv s) (ins : List (In α)) (hin : StableInX e X s ins) :
    StableOut e s ins := by
  cases ins with
  | nil => trivial
  | cons i is => exact stableFromX_of_step h is s i hs hin

/-- Contract under the extra boundary assumption `X`, from every reachable state. -/
def KeepsContractX (e : Elem α β σ) (X : σ → In α → In α → Prop) : Prop :=
  ∀ pre ins : List (In α), StableInX e X (e.runFrom e.init pre) ins → StableOut e (e.runFrom e.init pre) ins

theorem keepsContractX_of_stepStable {e : Elem α β σ} {Inv : σ → Prop} {X : σ → In α → In α → Prop}
    (h : StepStableX e Inv X) (h0 : Inv e.init) : KeepsContractX e X :=
  fun pre ins hin => stableX_of_step h _ (inv_reachable e Inv h0 h.inv_step pre) ins hin

/-- Change of invariant (pointwise equivalent). -/
theorem StepStable.congr {e : Elem α β σ} {Inv Inv' : σ → Prop} (h : StepStable e Inv)
    (hiff : ∀ s, Inv' s ↔ Inv s) : StepStable e Inv' where
  inv_step s i hs := (hiff _).2 (h.inv_step s i ((hiff s).1 hs))
  hold s i i' hs hin := h.hold s i i' ((hiff s).1 hs) hin

end Elem
end Litex.Stream
