import LitexProofs.Stream.Handshake
/-
  C04 — progress through serial composition `a ⟫ b`.

  A *delivery measure* `μ` (bounded by `B` on invariant states; in every cooperative cycle a delivery happens or
  `μ` strictly decreases) gives "a delivery in every window of `B + 1` cooperative cycles".  Measures compose:

  * `Front.comp`: `a ⟫ b` when `a` is a *front* element — one cycle after any cycle with `sink.valid` it offers
    (given `sink.valid` again): `PipeValid`, `PipeReady`, wire, FIFOs of depth ≥ 2, down-converters;
  * `Back.comp`:  `a ⟫ b` when `b` is a *back* element — ready whenever its consumer is, `source.valid` a
    function of the state, full right after accepting: `PipeValid`.

  These two cover the compositions `stream.py` builds itself: `Buffer` (PipeValid ⟫ PipeReady), `Delay n`
  (PipeValid chains), `BufferizeEndpoints` (PipeValid ⟫ X ⟫ PipeValid), and any `Pipeline` whose elements but the
  last are front elements.
-/
namespace Litex.Stream
namespace Elem
variable {α β γ σ τ : Type}

structure DelMeasure (e : Elem α β σ) (Inv : σ → Prop) (μ : σ → Nat) (B : Nat) : Prop where
  inv_step : ∀ s i, Inv s → Inv (e.step s i)
  bound : ∀ s, Inv s → μ s ≤ B
  dec : ∀ s i, Inv s → Coop i → 1 ≤ (e.delNow s i).length ∨ μ (e.step s i) < μ s

theorem DelMeasure.delivers {e : Elem α β σ} {Inv : σ → Prop} {μ : σ → Nat} {B : Nat}
    (h : DelMeasure e Inv μ B) (h0 : Inv e.init) : DeliversWithin e (B + 1) :=
  deliversWithin_of_measure e Inv h0 h.inv_step μ B h.bound h.dec

/-- A measure can be weakened to a larger bound and transported along an equivalent invariant. -/
theorem DelMeasure.congr {e : Elem α β σ} {Inv Inv' : σ → Prop} {μ : σ → Nat} {B : Nat}
    (h : DelMeasure e Inv μ B) (hiff : ∀ s, Inv' s ↔ Inv s) : DelMeasure e Inv' μ B where
  inv_step s i hs := (hiff _).2 (h.inv_step s i ((hiff s).1 hs))
  bound s hs := h.bound s ((hiff s).1 hs)
  dec s i hs hc := h.dec s i ((hiff s).1 hs) hc

/-- Front elements. -/
structure Front (a : Elem α β σ) (Ia : σ → Prop) (hot : σ → Bool) : Prop where
  inv_step : ∀ s i, Ia s → Ia (a.step s i)
  offers : ∀ s t, Ia s → hot s = true → (a.fwd s true t).1 = true
  heats : ∀ s i, Ia s → i.valid = true → hot (a.step s i) = true

/-- Back elements. -/
structure Back (b : Elem β γ τ) (Ib : τ → Prop) (full : τ → Bool) : Prop where
  inv_step : ∀ s i, Ib s → Ib (b.step s i)
  ready : ∀ s v t, Ib s → b.bwd s v t true = true
  valid : ∀ s v t, Ib s → (b.fwd s v t).1 = full s
  fills : ∀ s i, Ib s → 1 ≤ (b.accNow s i).length → full (b.step s i) = true

theorem Front.comp {a : Elem α β σ} {b : Elem β γ τ} {Ia : σ → Prop} {Ib : τ → Prop} {hot : σ → Bool}
    {μ : τ → Nat} {B : Nat} (ha : Front a Ia hot) (hb : DelMeasure b Ib μ B) :
    DelMeasure (a.comp b) (fun s => Ia s.1 ∧ Ib s.2) (fun s => if hot s.1 then μ s.2 else B + 1) (B + 1) where
  inv_step s i h := by
    rw [comp_step]
    exact ⟨ha.inv_step s.1 _ h.1, hb.inv_step s.2 _ h.2⟩
  bound s h := by
    have := hb.bound s.2 h.2
    show (if hot s.1 then μ s.2 else B + 1) ≤ B + 1
    split <;> omega
  dec s i h hc := by
    obtain ⟨hv, hr⟩ := hc
    have hhot' : hot ((a.comp b).step s i).1 = true := by
      rw [comp_step]
      exact ha.heats s.1 (compInA a b s i) h.1 hv
    have hInvB' : Ib (b.step s.2 (compInB a b s i)) := hb.inv_step s.2 _ h.2
    show 1 ≤ ((a.comp b).delNow s i).length ∨
      (if hot ((a.comp b).step s i).1 then μ ((a.comp b).step s i).2 else B + 1) <
        (if hot s.1 then μ s.2 else B + 1)
    rw [hhot', comp_delNow]
    simp only [if_true]
    rw [comp_step]
    show 1 ≤ (b.delNow s.2 (compInB a b s i)).length ∨
      μ (b.step s.2 (compInB a b s i)) < (if hot s.1 then μ s.2 else B + 1)
    cases hh : hot s.1 with
    | true =>
      have hcoopB : Coop (compInB a b s i) := by
        refine ⟨?_, hr⟩
        show (a.fwd s.1 i.valid i.tok).1 = true
        rw [hv]
        exact ha.offers s.1 i.tok h.1 hh
      rcases hb.dec s.2 (compInB a b s i) h.2 hcoopB with h1 | h1
      · exact Or.inl h1
      · exact Or.inr (by simpa using h1)
    | false =>
      have := hb.bound _ hInvB'
      exact Or.inr (by simp; omega)

theorem Back.comp {a : Elem α β σ} {b : Elem β γ τ} {Ia : σ → Prop} {Ib : τ → Prop} {full : τ → Bool}
    {μ : σ → Nat} {B : Nat} (ha : DelMeasure a Ia μ B) (hb : Back b Ib full) :
    DelMeasure (a.comp b) (fun s => Ia s.1 ∧ Ib s.2) (fun s => if full s.2 then 0 else μ s.1 + 1) (B + 1) where
  inv_step s i h := by
    rw [comp_step]
    exact ⟨ha.inv_step s.1 _ h.1, hb.inv_step s.2 _ h.2⟩
  bound s h := by
    have := ha.bound s.1 h.1
    show (if full s.2 then 0 else μ s.1 + 1) ≤ B + 1
    split <;> omega
  dec s i h hc := by
    obtain ⟨hv, hr⟩ := hc
    show 1 ≤ ((a.comp b).delNow s i).length ∨
      (if full ((a.comp b).step s i).2 then 0 else μ ((a.comp b).step s i).1 + 1) <
        (if full s.2 then 0 else μ s.1 + 1)
    rw [comp_delNow, comp_step]
    show 1 ≤ (b.delNow s.2 (compInB a b s i)).length ∨
      (if full (b.step s.2 (compInB a b s i)) then 0 else μ (a.step s.1 (compInA a b s i)) + 1) <
        (if full s.2 then 0 else μ s.1 + 1)
    cases hf : full s.2 with
    | true =>
      left
      have hval : (b.out s.2 (compInB a b s i)).valid = true := by
        show (b.fwd s.2 _ _).1 = true
        rw [hb.valid s.2 _ _ h.2]; exact hf
      have hrdy : (compInB a b s i).ready = true := hr
      simp [delNow, hval, hrdy]
    | false =>
      have hcoopA : Coop (compInA a b s i) := by
        refine ⟨hv, ?_⟩
        show b.bwd s.2 _ _ i.ready = true
        rw [hr]
        exact hb.ready s.2 _ _ h.2
      rcases ha.dec s.1 (compInA a b s i) h.1 hcoopA with h1 | h1
      · right
        rw [comp_mid] at h1
        rw [hb.fills s.2 (compInB a b s i) h.2 h1]
        simp
      · right
        simp only [Bool.false_eq_true, if_false]
        split <;> omega

/-! ### Ready-transparent elements: the sink is served in every cooperative cycle -/

/-- `sink.ready` is high whenever `source.ready` is. -/
def ReadyTransparent (e : Elem α β σ) (Inv : σ → Prop) : Prop := ∀ s v t, Inv s → e.bwd s v t true = true

theorem ReadyTransparent.comp {a : Elem α β σ} {b : Elem β γ τ} {Ia : σ → Prop} {Ib : τ → Prop}
    (ha : ReadyTransparent a Ia) (hb : ReadyTransparent b Ib) :
    ReadyTransparent (a.comp b) (fun s => Ia s.1 ∧ Ib s.2) := by
  intro s v t h
  show a.bwd s.1 v t (b.bwd s.2 _ _ true) = true
  rw [hb s.2 _ _ h.2]
  exact ha s.1 v t h.1

theorem ReadyTransparent.accepts {e : Elem α β σ} {Inv : σ → Prop} (h : ReadyTransparent e Inv)
    (h0 : Inv e.init) (hstep : ∀ s i, Inv s → Inv (e.step s i)) : AcceptsWithin e 1 :=
  acceptsWithin_of_window e Inv h0 hstep 1 (by
    intro s ins hs hc hlen
    match ins, hlen with
    | [i], _ =>
      obtain ⟨hv, hr⟩ := hc i (by simp)
      have : (e.out s i).ready = true := by
        show e.bwd s i.valid i.tok i.ready = true
        rw [hr]; exact h s _ _ hs
      simp [accepted, accNow, hv, this])

/-! ### General serial composition: bounded response on both sides

  `OfferMeasure a Ia ν Na`: while the producer offers (valid = 1, any `source.ready`), `a` offers on its source or
  its offer measure `ν ≤ Na` strictly decreases — `a` answers a steady supply with an offer within `Na + 1` cycles.
  `DelMeasure b Ib μ Bb` + `IdleMono`: under a ready consumer `b`'s delivery measure never increases in a cycle
  without a delivery, whatever is (or is not) offered to it.
  Then `a ⟫ b` has the delivery measure `μ_b · (Na + 1) + ν_a`: a delivery in every window of
  `(Bb + 1) · (Na + 1)` cooperative cycles.  (The product is unavoidable: think of two cascaded up-converters.)
  Every element with a delivery measure in this development is idle-monotone; the front elements are the case
  `Na ≤ 1`, so this subsumes `Front.comp` up to the bound. -/

structure OfferMeasure (a : Elem α β σ) (Ia : σ → Prop) (ν : σ → Nat) (Na : Nat) : Prop where
  inv_step : ∀ s i, Ia s → Ia (a.step s i)
  bound : ∀ s, Ia s → ν s ≤ Na
  dec : ∀ s i, Ia s → i.valid = true → (a.fwd s true i.tok).1 = true ∨ ν (a.step s i) < ν s

/-- Under a ready consumer the delivery measure does not increase in a cycle without a delivery. -/
def IdleMono (b : Elem β γ τ) (Ib : τ → Prop) (μ : τ → Nat) : Prop :=
  ∀ s i, Ib s → i.ready = true → 1 ≤ (b.delNow s i).length ∨ μ (b.step s i) ≤ μ s

theorem OfferMeasure.comp {a : Elem α β σ} {b : Elem β γ τ} {Ia : σ → Prop} {Ib : τ → Prop}
    {ν : σ → Nat} {Na : Nat} {μ : τ → Nat} {Bb : Nat}
    (ha : OfferMeasure a Ia ν Na) (hb : DelMeasure b Ib μ Bb) (hm : IdleMono b Ib μ) :
    DelMeasure (a.comp b) (fun s => Ia s.1 ∧ Ib s.2) (fun s => μ s.2 * (Na + 1) + ν s.1)
      (Bb * (Na + 1) + Na) where
  inv_step s i h := by
    rw [comp_step]
    exact ⟨ha.inv_step s.1 _ h.1, hb.inv_step s.2 _ h.2⟩
  bound s h := by
    have h1 := ha.bound s.1 h.1
    have h2 : μ s.2 * (Na + 1) ≤ Bb * (Na + 1) := Nat.mul_le_mul_right _ (hb.bound s.2 h.2)
    show μ s.2 * (Na + 1) + ν s.1 ≤ Bb * (Na + 1) + Na
    omega
  dec s i h hc := by
    obtain ⟨hv, hr⟩ := hc
    show 1 ≤ ((a.comp b).delNow s i).length ∨
      μ ((a.comp b).step s i).2 * (Na + 1) + ν ((a.comp b).step s i).1 < μ s.2 * (Na + 1) + ν s.1
    rw [comp_delNow, comp_step]
    show 1 ≤ (b.delNow s.2 (compInB a b s i)).length ∨
      μ (b.step s.2 (compInB a b s i)) * (Na + 1) + ν (a.step s.1 (compInA a b s i)) < μ s.2 * (Na + 1) + ν s.1
    have hνb : ν (a.step s.1 (compInA a b s i)) ≤ Na := ha.bound _ (ha.inv_step s.1 _ h.1)
    rcases ha.dec s.1 (compInA a b s i) h.1 hv with hoff | hdec
    · -- `a` offers: `b` sees a cooperative cycle
      have hcoopB : Coop (compInB a b s i) := by
        refine ⟨?_, hr⟩
        show (a.fwd s.1 i.valid i.tok).1 = true
        rw [hv]; exact hoff
      rcases hb.dec s.2 (compInB a b s i) h.2 hcoopB with h1 | h1
      · exact Or.inl h1
      · right
        have h2 : (μ (b.step s.2 (compInB a b s i)) + 1) * (Na + 1) ≤ μ s.2 * (Na + 1) :=
          Nat.mul_le_mul_right _ h1
        rw [Nat.succ_mul] at h2
        omega
    · -- `a` is still working towards an offer: its measure drops, `b`'s does not rise
      rcases hm s.2 (compInB a b s i) h.2 hr with h1 | h1
      · exact Or.inl h1
      · right
        have h2 : μ (b.step s.2 (compInB a b s i)) * (Na + 1) ≤ μ s.2 * (Na + 1) := Nat.mul_le_mul_right _ h1
        omega

end Elem
end Litex.Stream
