import LitexProofs.Stream.HandshakeLive
import LitexModel.Stream.Pipe
/-
  C04 — `PipelinedActor(latency = L)` for EVERY `L` (control path of `BinaryActor`/`PipelinedActor`:
  `pipe_ce = source.ready | ~valid_L` gates every stage register, `sink.ready = pipe_ce`).

  Stability: while `valid_L ∧ ¬source.ready`, `pipe_ce = 0` and no register moves.
  Progress: the number of trailing empty stages (`trail`) is a `Live` measure bounded by `L`: under a steady supply it
  drops by one per cycle until stage `L` is valid.  Window `L + 1`.
-/
namespace Litex.Stream
open Elem
variable {α : Type}

/-- Number of trailing stages (towards the source) that hold no token. -/
def trail : List (Bool × Tok α) → Nat
  | [] => 0
  | x :: l => if trail l = l.length ∧ x.1 = false then l.length + 1 else trail l

theorem trail_le : ∀ l : List (Bool × Tok α), trail l ≤ l.length
  | [] => Nat.le_refl _
  | x :: l => by
    have := trail_le l
    simp only [trail, List.length_cons]
    split <;> omega

theorem trail_cons_valid (p : Bool × Tok α) (l : List (Bool × Tok α)) (hp : p.1 = true) : trail (p :: l) = trail l := by
  simp [trail, hp]

theorem trail_cons_le (p : Bool × Tok α) (l : List (Bool × Tok α)) : trail (p :: l) ≤ trail l + 1 := by
  simp only [trail]
  split
  · rename_i h
    omega
  · omega

theorem trail_concat_invalid (x : Bool × Tok α) (hx : x.1 = false) :
    ∀ l : List (Bool × Tok α), trail (l ++ [x]) = trail l + 1
  | [] => by simp [trail, hx]
  | y :: l => by
    have ih := trail_concat_invalid x hx l
    simp only [List.cons_append, trail, ih, List.length_append, List.length_cons, List.length_nil]
    by_cases h : trail l = l.length ∧ y.1 = false
    · have h' : trail l + 1 = l.length + 0 + 1 ∧ y.1 = false := ⟨by omega, h.2⟩
      rw [if_pos h, if_pos h']
    · have h' : ¬ (trail l + 1 = l.length + 0 + 1 ∧ y.1 = false) := by
        intro hh; exact h ⟨by omega, hh.2⟩
      rw [if_neg h, if_neg h']

theorem trail_concat_valid (x : Bool × Tok α) (hx : x.1 = true) :
    ∀ l : List (Bool × Tok α), trail (l ++ [x]) = 0
  | [] => by simp [trail, hx]
  | y :: l => by
    have ih := trail_concat_valid x hx l
    simp only [List.cons_append, trail, ih, List.length_append, List.length_cons, List.length_nil]
    have : ¬ ((0 : Nat) = l.length + 0 + 1 ∧ y.1 = false) := by
      intro hh; omega
    rw [if_neg this]

theorem list_nil_or_concat (l : List (Bool × Tok α)) : l = [] ∨ ∃ init x, l = init ++ [x] := by
  cases l with
  | nil => exact Or.inl rfl
  | cons a t => exact Or.inr ⟨(a :: t).dropLast, (a :: t).getLast (by simp), (List.dropLast_concat_getLast (by simp)).symm⟩

theorem pipeActor_out_concat (L : Nat) (z : Tok α) (init : List (Bool × Tok α)) (x : Bool × Tok α) (v : Bool) (t : Tok α) :
    (pipeActor L z).fwd (init ++ [x]) v t = x := by
  simp [pipeActor]

theorem pipeActor_next_concat (L : Nat) (z : Tok α) (init : List (Bool × Tok α)) (x : Bool × Tok α) (v : Bool) (t : Tok α)
    (r : Bool) :
    (pipeActor L z).next (init ++ [x]) v t r = if r || !x.1 then paIn v t :: init else init ++ [x] := by
  have h : (paIn v t :: (init ++ [x])).dropLast = paIn v t :: init := by
    rw [← List.cons_append, List.dropLast_concat]
  simp only [pipeActor, List.getLast?_append, List.getLast?_singleton, Option.some_or, Option.getD_some, h]

theorem pipeActor_stepStable (L : Nat) (z : Tok α) : StepStable (pipeActor L z) (fun _ => True) where
  inv_step _ _ _ := trivial
  hold s i i' _ hin := by
    intro hv hrd
    rcases list_nil_or_concat s with hs | ⟨init, x, hs⟩
    · subst hs
      -- latency 0: combinational, the producer contract carries over
      have hv' : i.valid = true := by
        have : ((pipeActor L z).out [] i).valid = (paIn i.valid i.tok).1 := by simp [pipeActor, Elem.out]
        rw [this] at hv
        simpa [paIn] using hv
      have hready : ((pipeActor L z).out [] i).ready = false := by
        simp [pipeActor, Elem.out, paIn, hrd, hv']
      obtain ⟨h1, h2⟩ := hin hv' hready
      have hst : (pipeActor L z).step [] i = [] := by
        simp [pipeActor, Elem.step]
      rw [hst]
      simp only [pipeActor, Elem.out, List.getLast?_nil, Option.getD_none]
      rw [h1, h2, hv']
      exact ⟨by simp [paIn], rfl⟩
    · subst hs
      have hx : x.1 = true := by
        have : ((pipeActor L z).out (init ++ [x]) i).valid = x.1 := by
          simp only [Elem.out]; rw [pipeActor_out_concat]
        rw [this] at hv; exact hv
      have hst : (pipeActor L z).step (init ++ [x]) i = init ++ [x] := by
        show (pipeActor L z).next (init ++ [x]) i.valid i.tok i.ready = _
        rw [pipeActor_next_concat]
        simp [hrd, hx]
      rw [hst]
      simp only [Elem.out]
      rw [pipeActor_out_concat, pipeActor_out_concat]
      exact ⟨hx, rfl⟩

def paInv (L : Nat) (s : List (Bool × Tok α)) : Prop := s.length = L

theorem pipeActor_inv_step (L : Nat) (z : Tok α) (s : List (Bool × Tok α)) (i : In α) (h : paInv L s) :
    paInv L ((pipeActor L z).step s i) := by
  unfold paInv at *
  simp only [pipeActor, Elem.step]
  split
  · simp [List.length_dropLast, h]
  · exact h

theorem pipeActor_live (L : Nat) (z : Tok α) : Live (pipeActor L z) (paInv L) trail L where
  inv_step := pipeActor_inv_step L z
  bound s hs := by
    have := trail_le s
    unfold paInv at hs
    omega
  off s i _ hv := by
    rcases list_nil_or_concat s with hs | ⟨init, x, hs⟩
    · subst hs
      left
      simp [pipeActor, paIn]
    · subst hs
      rw [pipeActor_out_concat]
      cases hx : x.1 with
      | true => exact Or.inl rfl
      | false =>
        right
        show trail ((pipeActor L z).next (init ++ [x]) i.valid i.tok i.ready) < _
        rw [pipeActor_next_concat, trail_concat_invalid x hx]
        simp only [hx, Bool.not_false, Bool.or_true, if_true]
        rw [trail_cons_valid _ _ (by simp [paIn, hv])]
        omega
  mono s i _ := by
    rcases list_nil_or_concat s with hs | ⟨init, x, hs⟩
    · subst hs
      right
      have hst : (pipeActor L z).step [] i = [] := by simp [pipeActor, Elem.step]
      rw [hst]
      exact Nat.le_refl _
    · subst hs
      rw [pipeActor_out_concat]
      cases hx : x.1 with
      | true => exact Or.inl rfl
      | false =>
        right
        show trail ((pipeActor L z).next (init ++ [x]) i.valid i.tok i.ready) ≤ _
        rw [pipeActor_next_concat, trail_concat_invalid x hx]
        simp only [hx, Bool.not_false, Bool.or_true, if_true]
        exact trail_cons_le _ _

theorem pipeActor_good (L : Nat) (z : Tok α) : Good (pipeActor L z) (paInv L) trail L :=
  ⟨(pipeActor_stepStable L z).strengthen (pipeActor_inv_step L z), pipeActor_live L z⟩

theorem pipeActor_readyTransparent (L : Nat) (z : Tok α) : ReadyTransparent (pipeActor L z) (paInv L) := by
  intro s v t _
  simp [pipeActor]

end Litex.Stream
