import LitexProofs.Stream.Handshake
/-
  Progress under a cooperation assumption that may look at the element's state (`C : σ → In α → Prop`), e.g.
  "the producer keeps its packets within the FIFO's payload depth".  `RunC e C s ins`: every cycle of the run
  from `s` satisfies `C` at the state reached.  Same lifting lemmas as in `Handshake.lean`.
-/
namespace Litex.Stream
namespace Elem
variable {α β σ : Type}

def RunC (e : Elem α β σ) (C : σ → In α → Prop) : σ → List (In α) → Prop
  | _, [] => True
  | s, i :: is => C s i ∧ RunC e C (e.step s i) is

theorem runC_append (e : Elem α β σ) (C : σ → In α → Prop) (s : σ) (a b : List (In α)) :
    RunC e C s (a ++ b) ↔ RunC e C s a ∧ RunC e C (e.runFrom s a) b := by
  induction a generalizing s with
  | nil => simp [RunC]
  | cons i is ih => simp [RunC, ih, and_assoc]

theorem inv_runFromC (e : Elem α β σ) (Inv : σ → Prop) (C : σ → In α → Prop)
    (hstep : ∀ s i, Inv s → C s i → Inv (e.step s i)) :
    ∀ (ins : List (In α)) (s : σ), Inv s → RunC e C s ins → Inv (e.runFrom s ins) := by
  intro ins
  induction ins with
  | nil => intro s h _; exact h
  | cons i is ih => intro s h hr; exact ih _ (hstep s i h hr.1) hr.2

theorem window_of_measureS (e : Elem α β σ) (Inv : σ → Prop) (C : σ → In α → Prop)
    (hstep : ∀ s i, Inv s → C s i → Inv (e.step s i))
    (now : σ → In α → Nat) (cnt : σ → List (In α) → Nat)
    (hcnt : ∀ s i is, cnt s (i :: is) = now s i + cnt (e.step s i) is)
    (μ : σ → Nat)
    (hdec : ∀ s i, Inv s → C s i → 1 ≤ now s i ∨ μ (e.step s i) < μ s) :
    ∀ (n : Nat) (s : σ) (ins : List (In α)), Inv s → μ s ≤ n → RunC e C s ins → ins.length = n + 1 →
      1 ≤ cnt s ins := by
  intro n
  induction n with
  | zero =>
    intro s ins hs hμ hc hlen
    match ins, hlen with
    | [i], _ =>
      rw [hcnt]
      rcases hdec s i hs hc.1 with h | h <;> omega
  | succ n ih =>
    intro s ins hs hμ hc hlen
    match ins, hlen with
    | i :: is, hl =>
      rw [hcnt]
      rcases hdec s i hs hc.1 with h | h
      · omega
      · have := ih (e.step s i) is (hstep s i hs hc.1) (by omega) hc.2 (by simpa using hl)
        omega

theorem count_ge_of_windowS (e : Elem α β σ) (Inv : σ → Prop) (C : σ → In α → Prop)
    (hstep : ∀ s i, Inv s → C s i → Inv (e.step s i))
    (cnt : σ → List (In α) → Nat)
    (hadd : ∀ s a b, cnt s (a ++ b) = cnt s a + cnt (e.runFrom s a) b)
    (K : Nat)
    (hwin : ∀ s ins, Inv s → RunC e C s ins → ins.length = K → 1 ≤ cnt s ins) :
    ∀ (n : Nat) (s : σ) (ins : List (In α)), Inv s → RunC e C s ins → n * K ≤ ins.length → n ≤ cnt s ins := by
  intro n
  induction n with
  | zero => intro s ins _ _ _; exact Nat.zero_le _
  | succ n ih =>
    intro s ins hs hc hlen
    have hK : K ≤ ins.length := by
      have : K ≤ (n + 1) * K := Nat.le_mul_of_pos_left K (Nat.succ_pos n)
      omega
    have hsplit : ins = ins.take K ++ ins.drop K := (List.take_append_drop K ins).symm
    rw [hsplit] at hc
    rw [runC_append] at hc
    rw [hsplit, hadd]
    have h1 : 1 ≤ cnt s (ins.take K) := hwin s (ins.take K) hs hc.1 (by simp [List.length_take]; omega)
    have h2 : n ≤ cnt (e.runFrom s (ins.take K)) (ins.drop K) := by
      apply ih _ _ (inv_runFromC e Inv C hstep _ s hs hc.1) hc.2
      simp only [List.length_drop]
      have : (n + 1) * K = n * K + K := by rw [Nat.succ_mul]
      omega
    omega

/-- Deliveries under a state-dependent cooperation assumption: from every state reached from reset by a run
    satisfying `C`, `n * K` further cycles satisfying `C` deliver at least `n` tokens. -/
def DeliversWithinS (e : Elem α β σ) (C : σ → In α → Prop) (K : Nat) : Prop :=
  ∀ pre ins : List (In α), RunC e C e.init (pre ++ ins) → ∀ n, n * K ≤ ins.length →
    n ≤ (e.delivered (e.runFrom e.init pre) ins).length

def ProgressWithinS (e : Elem α β σ) (C : σ → In α → Prop) (K : Nat) : Prop :=
  ∀ pre ins : List (In α), RunC e C e.init (pre ++ ins) → ∀ n, n * K ≤ ins.length →
    n ≤ e.hsCount (e.runFrom e.init pre) ins

theorem deliversWithinS_of_measure (e : Elem α β σ) (Inv : σ → Prop) (C : σ → In α → Prop) (h0 : Inv e.init)
    (hstep : ∀ s i, Inv s → C s i → Inv (e.step s i)) (μ : σ → Nat) (B : Nat) (hB : ∀ s, Inv s → μ s ≤ B)
    (hdec : ∀ s i, Inv s → C s i → 1 ≤ (e.delNow s i).length ∨ μ (e.step s i) < μ s) :
    DeliversWithinS e C (B + 1) := by
  intro pre ins hrun n hn
  rw [runC_append] at hrun
  have hs := inv_runFromC e Inv C hstep pre e.init h0 hrun.1
  exact count_ge_of_windowS e Inv C hstep (fun s ins => (e.delivered s ins).length)
    (by intro s a b; simp [delivered_append]) (B + 1)
    (fun s ins hs hc hl => window_of_measureS e Inv C hstep (fun s i => (e.delNow s i).length)
      (fun s ins => (e.delivered s ins).length) (by intro s i is; simp [delivered]) μ hdec B s ins hs (hB s hs) hc hl)
    n _ ins hs hrun.2 hn

theorem progressWithinS_of_step (e : Elem α β σ) (Inv : σ → Prop) (C : σ → In α → Prop) (h0 : Inv e.init)
    (hstep : ∀ s i, Inv s → C s i → Inv (e.step s i))
    (hhs : ∀ s i, Inv s → C s i → 1 ≤ (e.accNow s i).length + (e.delNow s i).length) :
    ProgressWithinS e C 1 := by
  intro pre ins hrun n hn
  rw [runC_append] at hrun
  have hs := inv_runFromC e Inv C hstep pre e.init h0 hrun.1
  exact count_ge_of_windowS e Inv C hstep e.hsCount (hsCount_append e) 1
    (fun s ins hs hc hl => by
      match ins, hl with
      | [i], _ =>
        have := hhs s i hs hc.1
        simpa [hsCount, accepted, delivered] using this)
    n _ ins hs hrun.2 hn

end Elem
end Litex.Stream
