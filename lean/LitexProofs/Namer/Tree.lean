import LitexModel.Namer.Tree
import LitexProofs.Namer.Strings
/-
  Facts about the hierarchical naming stage (`Tree.lean`): every signal with a non-empty back-trace gets a
  non-empty name ending in its leaf step, names built from legal step names are legal, and the list-at-once
  functions executed by the driver equal the per-signal definitions the theorems are stated for.
-/
namespace Litex.Namer

/-! ### the leaf step is always used -/

theorem mem_child {node : List Path} {k : Key} {r : String} {rest : Path} (h : (k, r) :: rest ∈ node) :
    rest ∈ child node k := by
  simp only [child, List.mem_filterMap]
  exact ⟨(k, r) :: rest, h, by simp⟩

theorem hasOwn_of_nil_mem {node : List Path} (h : [] ∈ node) : hasOwn node = true := by
  simp only [hasOwn, List.any_eq_true]
  exact ⟨[], h, rfl⟩

/-- The elements of a name are texts of the signal's own steps. -/
theorem elems_subset (fuel : Nat) : ∀ (p : Path) (node : List Path), ∀ e ∈ elems fuel node p, e ∈ p.map (·.2)
  | [], _, e, h => by simp [elems] at h
  | (k, r) :: rest, node, e, h => by
    simp only [elems, List.mem_append] at h
    rcases h with h | h
    · split at h
      · simp only [List.mem_singleton] at h; simp [h]
      · simp at h
    · have := elems_subset fuel rest (child node k) e h
      simp only [List.map_cons, List.mem_cons]
      exact Or.inr this

/-- `buildDict_nonempty`, tree level: the node a signal ends in has signals of its own, so its step is used. -/
theorem elems_ne_nil (fuel : Nat) : ∀ (p : Path) (node : List Path), p ≠ [] → p ∈ node → elems fuel node p ≠ []
  | [], _, h, _ => absurd rfl h
  | [(k, r)], node, _, hm => by
    have : useName fuel node k = true := by
      simp only [useName, Bool.or_eq_true]
      exact Or.inl (hasOwn_of_nil_mem (mem_child hm))
    simp [elems, this]
  | (k, r) :: q :: rest, node, _, hm => by
    have ih := elems_ne_nil fuel (q :: rest) (child node k) (by simp) (mem_child hm)
    simp only [elems] at ih ⊢
    intro h
    exact ih (List.append_eq_nil_iff.mp h).2

theorem treeName_legal {paths : List Path} {p : Path} (hne : p ≠ []) (hm : p ∈ paths)
    (hl : ∀ kr ∈ p, isIdent kr.2 = true) : isIdent (treeName paths p) = true := by
  apply isIdent_intercalate (elems_ne_nil _ p paths hne hm)
  intro e he
  have := elems_subset _ p paths e he
  simp only [List.mem_map] at this
  obtain ⟨kr, hkr, rfl⟩ := this
  exact hl kr hkr

theorem keyedPath_ne_nil : ∀ (node : List (Bool × List Step)) (bt : List Step), bt ≠ [] → keyedPath node bt ≠ []
  | _, [], h => absurd rfl h
  | _, (_, _) :: _, _ => by simp [keyedPath]

theorem keyedPath_legal : ∀ (node : List (Bool × List Step)) (bt : List Step),
    (∀ st ∈ bt, isIdent st.1 = true) → ∀ kr ∈ keyedPath node bt, isIdent kr.2 = true
  | _, [], _, kr, h => by simp [keyedPath] at h
  | node, (nm, num) :: rest, hl, kr, h => by
    simp only [keyedPath, List.mem_cons] at h
    have hnm : isIdent nm = true := hl (nm, num) (by simp)
    rcases h with h | h
    · split at h
      · rw [h]; exact isIdent_append_nat hnm _
      · rw [h]; exact hnm
    · exact keyedPath_legal _ rest (fun st hst => hl st (by simp [hst])) kr h

theorem pass2Name_legal {g : List GSig} {s : GSig} (hs : s ∈ g) (hne : s.bt ≠ [])
    (hl : ∀ st ∈ s.bt, isIdent st.1 = true) : isIdent (pass2Name g s) = true := by
  unfold pass2Name pass2With
  apply treeName_legal (keyedPath_ne_nil _ _ hne)
  · exact List.mem_map.mpr ⟨s, hs, rfl⟩
  · exact keyedPath_legal _ _ hl

theorem disambiguate_legal (nm : List (GSig × String)) (sn : GSig × String) (h : isIdent sn.2 = true) :
    isIdent (disambiguate nm sn) = true := by
  unfold disambiguate
  simp only
  split
  · exact isIdent_append_nat h _
  · exact h

/-- Every name of a group dictionary is a legal identifier when the step names are. -/
theorem groupName_legal {g : List GSig} {s : GSig} (hs : s ∈ g) (hne : s.bt ≠ [])
    (hl : ∀ st ∈ s.bt, isIdent st.1 = true) : isIdent (groupName g s) = true :=
  disambiguate_legal _ _ (pass2Name_legal hs hne hl)

/-! ### list-at-once versions = per-signal definitions -/

theorem named_eq (g : List GSig) : named g = g.map fun t => (t, pass2Name g t) := rfl

theorem groupNames_eq (g : List GSig) : groupNames g = g.map (groupName g) := by
  simp only [groupNames, named_eq, List.map_map]
  rfl

theorem depthOf_le (sigs : List Sig) : ∀ fuel i, depthOf sigs fuel i ≤ fuel
  | 0, _ => by simp [depthOf]
  | fuel + 1, i => by
    simp only [depthOf]
    split
    · split
      · have := depthOf_le sigs fuel ‹_›; omega
      · omega
    · omega

theorem mem_groupOf {sigs : List Sig} {i : Nat} {s : Sig} (h : sigs[i]? = some s) :
    s.g ∈ groupOf sigs (depthOf sigs sigs.length i) := by
  simp only [groupOf, List.mem_map, List.mem_filter]
  exact ⟨(s, i), ⟨List.mem_zipIdx_iff_getElem?.mpr h, by simp⟩, rfl⟩

theorem find_zip_map {α β : Type} [DecidableEq α] (f : α → β) (x : α) :
    ∀ (g : List α), x ∈ g → ((g.zip (g.map f)).find? fun e => e.1 == x).map (·.2) = some (f x)
  | [], h => by simp at h
  | a :: g, h => by
    by_cases hax : a = x
    · subst hax; simp
    · have hx : x ∈ g := by
        rcases List.mem_cons.mp h with h | h
        · exact absurd h.symm hax
        · exact h
      have : (a == x) = false := by simpa using hax
      simp only [List.map_cons, List.zip_cons_cons, List.find?_cons, this]
      exact find_zip_map f x g hx

theorem localNames_getElem? (sigs : List Sig) (i : Nat) (hi : i < sigs.length) :
    (localNames sigs)[i]? = some (localName sigs i) := by
  obtain ⟨s, hs⟩ : ∃ s, sigs[i]? = some s := ⟨sigs[i], by simp [hi]⟩
  have hd : depthOf sigs sigs.length i < sigs.length + 1 := by
    have := depthOf_le sigs sigs.length i; omega
  simp only [localNames, List.getElem?_map, List.getElem?_range hi, Option.map_some, hs, localName,
    List.getElem?_range hd, groupNames_eq]
  have := find_zip_map (groupName (groupOf sigs (depthOf sigs sigs.length i))) s.g _ (mem_groupOf hs)
  cases hf : List.find? (fun e => e.1 == s.g)
      ((groupOf sigs (depthOf sigs sigs.length i)).zip
        (List.map (groupName (groupOf sigs (depthOf sigs sigs.length i))) (groupOf sigs (depthOf sigs sigs.length i)))) with
  | none => simp [hf] at this
  | some e => simp [hf] at this; simp [this]

theorem hierName_congr (sigs : List Sig) (loc₁ loc₂ : Nat → String)
    (h : ∀ j, j < sigs.length → loc₁ j = loc₂ j) :
    ∀ fuel i, hierName sigs loc₁ fuel i = hierName sigs loc₂ fuel i
  | 0, _ => rfl
  | fuel + 1, i => by
    simp only [hierName]
    cases hs : sigs[i]? with
    | none => rfl
    | some s =>
      have hi : i < sigs.length := by
        rcases Nat.lt_or_ge i sigs.length with h | h
        · exact h
        · simp [List.getElem?_eq_none h] at hs
      simp only [h i hi, hierName_congr sigs loc₁ loc₂ h fuel]

/-- The dictionary computed at once (what the driver runs) is the per-signal `buildDict`. -/
theorem dictList_getElem? (sigs : List Sig) (i : Nat) (hi : i < sigs.length) :
    (dictList sigs)[i]? = some (buildDict sigs i) := by
  simp only [dictList, buildDict, List.getElem?_map, List.getElem?_range hi, Option.map_some]
  congr 1
  apply hierName_congr
  intro j hj
  simp [localNames_getElem? sigs j hj]

theorem dictList_length (sigs : List Sig) : (dictList sigs).length = sigs.length := by
  simp [dictList]

theorem baseList_getElem? (sigs : List Sig) (i : Nat) (hi : i < sigs.length) :
    (baseList sigs)[i]? = some (baseOf sigs i) := by
  have h1 : sigs[i]? = some sigs[i] := by simp [hi]
  have hz : (sigs.zip (dictList sigs))[i]? = some (sigs[i], buildDict sigs i) :=
    List.getElem?_zip_eq_some.mpr ⟨h1, dictList_getElem? sigs i hi⟩
  simp only [baseList, List.getElem?_map, hz, Option.map_some, baseOf, h1]

/-! ### legality of the whole dictionary -/

/-- Side condition: every signal has a non-empty back-trace whose step names are legal identifiers (what
    Migen's tracer and `Signal(name=…)` produce), and legal `name_override`s. -/
def LegalSigs (sigs : List Sig) : Prop :=
  ∀ s ∈ sigs, s.bt ≠ [] ∧ (∀ st ∈ s.bt, isIdent st.1 = true) ∧ ∀ o, s.override = some o → isIdent o = true

theorem localName_legal {sigs : List Sig} (h : LegalSigs sigs) {i : Nat} (hi : i < sigs.length) :
    isIdent (localName sigs i) = true := by
  have hs : sigs[i]? = some sigs[i] := by simp [hi]
  have hm : sigs[i] ∈ sigs := List.getElem_mem hi
  simp only [localName, hs]
  exact groupName_legal (mem_groupOf hs) (h _ hm).1 (h _ hm).2.1

theorem hierName_legal {sigs : List Sig} {loc : Nat → String}
    (hloc : ∀ j, j < sigs.length → isIdent (loc j) = true) :
    ∀ fuel i, hierName sigs loc fuel i = "" ∨ isIdent (hierName sigs loc fuel i) = true
  | 0, _ => Or.inl rfl
  | fuel + 1, i => by
    simp only [hierName]
    split
    · exact Or.inl rfl
    · rename_i s hs
      have hi : i < sigs.length := by
        rcases Nat.lt_or_ge i sigs.length with h | h
        · exact h
        · simp [List.getElem?_eq_none h] at hs
      right
      split
      · rename_i p hr
        rcases hierName_legal hloc fuel p with h | h
        · rw [h]
          have : ("" : String) ++ "_" ++ loc i = "_" ++ loc i := by simp
          rw [this]
          unfold isIdent
          rw [String.toList_append]
          exact isIdentL_append (by decide) (all_isIdChar_of_isIdentL (hloc i hi))
        · exact isIdent_join h (hloc i hi)
      · exact hloc i hi

theorem buildDict_legal' {sigs : List Sig} (h : LegalSigs sigs) {i : Nat} (hi : i < sigs.length) :
    isIdent (buildDict sigs i) = true := by
  have hs : sigs[i]? = some sigs[i] := by simp [hi]
  rcases hierName_legal (sigs := sigs) (loc := localName sigs) (fun j hj => localName_legal h hj)
      (sigs.length + 1) i with h0 | h1
  · -- the name is never empty for a valid index
    exfalso
    have hl := localName_legal h hi
    simp only [hierName, hs] at h0
    split at h0
    · have := congrArg String.toList h0
      simp [String.toList_append] at this
    · rw [h0] at hl
      exact absurd hl (by decide)
  · exact h1

theorem baseOf_legal {sigs : List Sig} (h : LegalSigs sigs) {i : Nat} (hi : i < sigs.length) :
    isIdent (baseOf sigs i) = true := by
  have hs : sigs[i]? = some sigs[i] := by simp [hi]
  have hm : sigs[i] ∈ sigs := List.getElem_mem hi
  simp only [baseOf, hs]
  cases ho : sigs[i].override with
  | none => simpa using buildDict_legal' h hi
  | some o => simpa using (h _ hm).2.2 o ho

end Litex.Namer
