import LitexModel.Namer.Ident
import LitexModel.Namer.Ieee1364
import LitexModel.Generated.Keywords
/-
  Kernel-checked facts about the regenerated keyword table (kept in their own file: the two `decide +kernel`
  runs take ~20 s and only need to be redone when the table or `Core.lean` changes).
-/
namespace Litex.Namer

theorem keywords_wellformed_table : kwWellformed keywords = true := by decide +kernel

theorem keywords_cover_1364_table : ∀ k ∈ ieee1364_2005, k ∈ keywords := by decide +kernel

end Litex.Namer
