import LitexProofs.Namer.Strings
import Batteries.Data.List.Perm
/-
  The repaired `get_name` (`getNameFixed`): every issued identifier was not a dictionary key before and is one
  afterwards — hence identifiers are pairwise distinct and never reserved, for every input.
-/
namespace Litex.Namer

variable {kw : List String} {base : SigId → String}

theorem used_iff_mem {ns : NsF} {b : String} : ns.used b = true ↔ b ∈ ns.counts.map Prod.fst := by
  simp only [NsF.used, List.lookup_isSome_iff, beq_iff_eq, List.mem_map]
  constructor
  · rintro ⟨p, hp, rfl⟩; exact ⟨p, hp, rfl⟩
  · rintro ⟨p, hp, rfl⟩; exact ⟨p, hp, rfl⟩

/-- If the loop result is still a used numbered name, every candidate tried was used. -/
theorem skipUsed_bad (ns : NsF) (b : String) :
    ∀ fuel n, 0 < n → 0 < skipUsed ns b fuel n ∧
      (ns.used (suffixed b (skipUsed ns b fuel n)) = true →
        ∀ i, i ≤ fuel → ns.used (suffixed b (n + i)) = true) := by
  intro fuel
  induction fuel with
  | zero =>
    intro n hn
    refine ⟨by simpa [skipUsed] using hn, ?_⟩
    intro h i hi
    have : i = 0 := by omega
    subst this
    simpa [skipUsed] using h
  | succ fuel ih =>
    intro n hn
    by_cases hu : ns.used (suffixed b n) = true
    · have hstep : skipUsed ns b (fuel + 1) n = skipUsed ns b fuel (n + 1) := by
        simp [skipUsed, hn, hu]
      rw [hstep]
      obtain ⟨hpos, hall⟩ := ih (n + 1) (by omega)
      refine ⟨hpos, ?_⟩
      intro h i hi
      cases i with
      | zero => simpa using hu
      | succ i =>
        have := hall h i (by omega)
        rwa [show n + 1 + i = n + (i + 1) by omega] at this
    · have hstep : skipUsed ns b (fuel + 1) n = n := by
        simp [skipUsed, hu]
      rw [hstep]
      exact ⟨hn, fun h => absurd h hu⟩

/-- Pigeonhole: the loop always ends on a free candidate (or on 0). -/
theorem skipUsed_free (ns : NsF) (b : String) (n : Nat) :
    let n' := skipUsed ns b (ns.counts.length + 1) n
    n ≤ n' ∧ (0 < n → 0 < n' ∧ ns.used (suffixed b n') = false) ∧ (n = 0 → n' = 0) := by
  intro n'
  have hmono : ∀ fuel m, m ≤ skipUsed ns b fuel m := by
    intro fuel
    induction fuel with
    | zero => intro m; simp [skipUsed]
    | succ fuel ih =>
      intro m
      simp only [skipUsed]
      split
      · have := ih (m + 1); omega
      · omega
  refine ⟨hmono _ n, ?_, ?_⟩
  · intro hn
    obtain ⟨hpos, hall⟩ := skipUsed_bad ns b (ns.counts.length + 1) n hn
    refine ⟨hpos, ?_⟩
    cases hu : ns.used (suffixed b n') with
    | false => rfl
    | true =>
      exfalso
      have hall' := hall hu
      -- ns.counts.length + 2 distinct used names
      let cand : List String := (List.range (ns.counts.length + 2)).map fun i => suffixed b (n + i)
      have hsub : cand ⊆ ns.counts.map Prod.fst := by
        intro x hx
        simp only [cand, List.mem_map, List.mem_range] at hx
        obtain ⟨i, hi, rfl⟩ := hx
        exact used_iff_mem.mp (hall' i (by omega))
      have hnodup : cand.Nodup := by
        simp only [cand, List.Nodup, List.pairwise_map]
        refine List.Pairwise.imp ?_ (List.nodup_range (n := ns.counts.length + 2))
        intro i j hij heq
        have := (suffixed_inj_pos (by omega) (by omega) heq).2
        omega
      have hlen := (List.subperm_of_subset hnodup hsub).length_le
      simp [cand] at hlen
      omega
  · intro h0
    subst h0
    simp [n', skipUsed]

/-- Invariant of the repaired namespace. -/
structure InvF (kw : List String) (base : SigId → String) (ns : NsF) : Prop where
  /-- every issued identifier is a dictionary key -/
  issued_used : ∀ s n, ns.sigs.lookup s = some n → ns.used (suffixed (base s) n) = true
  /-- stored counters are positive (so `counts.get(b, 0) = 0` iff `b` is not a key) -/
  pos : ∀ b v, ns.counts.lookup b = some v → 1 ≤ v
  /-- issued identifiers are pairwise distinct -/
  distinct : ∀ s t n m, ns.sigs.lookup s = some n → ns.sigs.lookup t = some m →
    suffixed (base s) n = suffixed (base t) m → s = t
  /-- keywords are keys -/
  kw_used : ∀ k, k ∈ kw → ns.used k = true
  /-- no issued identifier is a keyword -/
  not_kw : ∀ s n, ns.sigs.lookup s = some n → suffixed (base s) n ∉ kw

theorem InvF.init : InvF kw base (NsF.init kw) where
  issued_used := by intro s n h; simp [NsF.init] at h
  pos := by
    intro b v h
    simp only [NsF.init] at h
    obtain ⟨l₁, l₂, hl, -⟩ := List.lookup_eq_some_iff.mp h
    have : (b, v) ∈ kw.map fun k => (k, 1) := by rw [hl]; simp
    simp only [List.mem_map, Prod.mk.injEq] at this
    obtain ⟨_, _, _, rfl⟩ := this
    omega
  distinct := by intro s t n m h; simp [NsF.init] at h
  kw_used := by
    intro k hk
    exact used_iff_mem.mpr (by simp only [NsF.init, List.map_map, List.mem_map]; exact ⟨k, hk, rfl⟩)
  not_kw := by intro s n h; simp [NsF.init] at h

theorem lookup_cons_sig (t s : SigId) (v : Nat) (l : List (SigId × Nat)) :
    ((s, v) :: l).lookup t = if t = s then some v else l.lookup t := by
  rw [List.lookup_cons]
  by_cases h : t = s
  · subst h; simp
  · have : (t == s) = false := by simpa using h
    simp [this, h]

theorem getNameFixed_named {ns : NsF} {b : String} {s : SigId} {n : Nat} (h : ns.sigs.lookup s = some n) :
    getNameFixed ns b s = (ns, suffixed b n) := by
  simp [getNameFixed, h]

/-- The number chosen for a fresh signal. -/
def freshNum (ns : NsF) (b : String) : Nat := skipUsed ns b (ns.counts.length + 1) (ns.count b)

theorem getNameFixed_fresh {ns : NsF} {b : String} {s : SigId} (h : ns.sigs.lookup s = none) :
    (getNameFixed ns b s).2 = suffixed b (freshNum ns b) ∧
    (getNameFixed ns b s).1.sigs = (s, freshNum ns b) :: ns.sigs ∧
    (getNameFixed ns b s).1.counts =
      (if freshNum ns b > 0 then (suffixed b (freshNum ns b), 1) :: (b, freshNum ns b + 1) :: ns.counts
       else (b, freshNum ns b + 1) :: ns.counts) := by
  simp [getNameFixed, h, freshNum]

/-- The identifier chosen for a fresh signal is not a key of the old dictionary. -/
theorem fresh_not_used {ns : NsF} (h : InvF kw base ns) (b : String) :
    ns.used (suffixed b (freshNum ns b)) = false := by
  have hf := skipUsed_free ns b (ns.count b)
  simp only at hf
  by_cases h0 : ns.count b = 0
  · have : freshNum ns b = 0 := hf.2.2 h0
    rw [this, suffixed_zero]
    cases hl : ns.counts.lookup b with
    | none => simp [NsF.used, hl]
    | some v =>
      have := h.pos b v hl
      simp [NsF.count, hl] at h0
      omega
  · exact (hf.2.1 (by omega)).2

theorem used_mono_counts {ns : NsF} {b : String} {s : SigId} (x : String) (hx : ns.used x = true) :
    (getNameFixed ns b s).1.used x = true := by
  cases hs : ns.sigs.lookup s with
  | some n => simpa [getNameFixed_named hs] using hx
  | none =>
    rw [used_iff_mem] at hx ⊢
    rw [(getNameFixed_fresh hs).2.2]
    split <;> simp [hx]

theorem InvF.step {ns : NsF} (h : InvF kw base ns) (s : SigId) :
    InvF kw base (getNameFixed ns (base s) s).1 := by
  cases hs : ns.sigs.lookup s with
  | some m => rw [getNameFixed_named hs]; exact h
  | none =>
    obtain ⟨-, hsigs, hcounts⟩ := getNameFixed_fresh (b := base s) hs
    have hfree := fresh_not_used h (base s)
    -- the new identifier differs from every identifier issued before
    have hnew : ∀ t m, ns.sigs.lookup t = some m →
        suffixed (base t) m ≠ suffixed (base s) (freshNum ns (base s)) := by
      intro t m ht heq
      have := h.issued_used t m ht
      rw [heq, hfree] at this
      exact absurd this (by decide)
    have hlook : ∀ t, (getNameFixed ns (base s) s).1.sigs.lookup t =
        if t = s then some (freshNum ns (base s)) else ns.sigs.lookup t := by
      intro t
      rw [hsigs, lookup_cons_sig]
    have hnewused : (getNameFixed ns (base s) s).1.used (suffixed (base s) (freshNum ns (base s))) = true := by
      rw [used_iff_mem, hcounts]
      by_cases hp : freshNum ns (base s) > 0
      · simp [hp]
      · have : freshNum ns (base s) = 0 := by omega
        simp [this, suffixed_zero]
    refine ⟨?_, ?_, ?_, ?_, ?_⟩
    · intro t n ht
      rw [hlook] at ht
      by_cases hts : t = s
      · subst hts
        simp only [if_true, Option.some.injEq] at ht
        subst ht
        exact hnewused
      · simp only [hts, if_false] at ht
        exact used_mono_counts _ (h.issued_used t n ht)
    · intro b v hb
      rw [hcounts] at hb
      split at hb
      · rw [List.lookup_cons] at hb
        split at hb
        · cases hb; omega
        · rw [List.lookup_cons] at hb
          split at hb
          · cases hb; omega
          · exact h.pos b v hb
      · rw [List.lookup_cons] at hb
        split at hb
        · cases hb; omega
        · exact h.pos b v hb
    · intro t u n m ht hu heq
      rw [hlook] at ht hu
      by_cases hts : t = s <;> by_cases hus : u = s
      · rw [hts, hus]
      · subst hts
        simp only [if_true, Option.some.injEq] at ht
        simp only [hus, if_false] at hu
        subst ht
        exact absurd heq.symm (hnew u m hu)
      · subst hus
        simp only [if_true, Option.some.injEq] at hu
        simp only [hts, if_false] at ht
        subst hu
        exact absurd heq (hnew t n ht)
      · simp only [hts, hus, if_false] at ht hu
        exact h.distinct t u n m ht hu heq
    · intro k hk
      exact used_mono_counts _ (h.kw_used k hk)
    · intro t n ht
      rw [hlook] at ht
      by_cases hts : t = s
      · subst hts
        simp only [if_true, Option.some.injEq] at ht
        subst ht
        intro hk
        have := h.kw_used _ hk
        rw [hfree] at this
        exact absurd this (by decide)
      · simp only [hts, if_false] at ht
        exact h.not_kw t n ht

theorem InvF.runFrom {ns : NsF} (h : InvF kw base ns) (reqs : List SigId) :
    InvF kw base (runFromF base ns reqs) := by
  induction reqs generalizing ns with
  | nil => exact h
  | cons s rest ih => exact ih (h.step s)

theorem getNameFixed_answer (ns : NsF) (b : String) (s : SigId) :
    ∃ n, (getNameFixed ns b s).1.sigs.lookup s = some n ∧ (getNameFixed ns b s).2 = suffixed b n := by
  cases h : ns.sigs.lookup s with
  | some n => exact ⟨n, by simp [getNameFixed_named h, h]⟩
  | none =>
    obtain ⟨h1, h2, -⟩ := getNameFixed_fresh (b := b) h
    exact ⟨freshNum ns b, by simp [h2], h1⟩

theorem getNameFixed_keeps {ns : NsF} {b : String} {s t : SigId} {n : Nat} (h : ns.sigs.lookup t = some n) :
    (getNameFixed ns b s).1.sigs.lookup t = some n := by
  cases hs : ns.sigs.lookup s with
  | some m => simp [getNameFixed_named hs, h]
  | none =>
    rw [(getNameFixed_fresh hs).2.1, lookup_cons_sig]
    have : t ≠ s := by rintro rfl; simp [hs] at h
    simp [this, h]

theorem runFromF_keeps {ns : NsF} {t : SigId} {n : Nat} (reqs : List SigId) (h : ns.sigs.lookup t = some n) :
    (runFromF base ns reqs).sigs.lookup t = some n := by
  induction reqs generalizing ns with
  | nil => exact h
  | cons s rest ih => exact ih (getNameFixed_keeps h)

theorem answersFromF_spec (ns : NsF) (reqs : List SigId) :
    ∀ s a, (s, a) ∈ answersFromF base ns reqs →
      ∃ n, (runFromF base ns reqs).sigs.lookup s = some n ∧ a = suffixed (base s) n := by
  induction reqs generalizing ns with
  | nil => intro s a h; simp [answersFromF] at h
  | cons r rest ih =>
    intro s a h
    simp only [answersFromF, List.mem_cons, Prod.mk.injEq] at h
    rcases h with ⟨rfl, rfl⟩ | h
    · obtain ⟨n, hn, ha⟩ := getNameFixed_answer ns (base s) s
      exact ⟨n, runFromF_keeps rest hn, ha⟩
    · exact ih _ s a h

theorem answersFromF_mem_reqs (ns : NsF) (reqs : List SigId) :
    ∀ s a, (s, a) ∈ answersFromF base ns reqs → s ∈ reqs := by
  induction reqs generalizing ns with
  | nil => intro s a h; simp [answersFromF] at h
  | cons r rest ih =>
    intro s a h
    simp only [answersFromF, List.mem_cons, Prod.mk.injEq] at h
    rcases h with ⟨rfl, _⟩ | h
    · simp
    · exact List.mem_cons_of_mem _ (ih _ s a h)

end Litex.Namer
