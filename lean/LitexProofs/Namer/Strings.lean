import LitexModel.Namer.Core
/-
  String facts behind C02: the shape of a suffixed name, its injectivity, legality of joined/suffixed names.
  Everything is proved on `String.toList`.
-/
namespace Litex.Namer

theorem toList_toString_nat (n : Nat) : (toString n).toList = Nat.toDigits 10 n := by
  rw [Nat.toString_eq_repr, Nat.toList_repr]

theorem suffixed_zero (b : String) : suffixed b 0 = b := by simp [suffixed]

theorem suffixed_pos (b : String) {n : Nat} (h : 0 < n) : suffixed b n = b ++ "_" ++ toString n := by
  simp [suffixed, h]

theorem toList_suffixed_pos (b : String) {n : Nat} (h : 0 < n) :
    (suffixed b n).toList = b.toList ++ '_' :: Nat.toDigits 10 n := by
  rw [suffixed_pos b h]
  simp [String.toList_append]

theorem toDigits_inj {n m : Nat} (h : Nat.toDigits 10 n = Nat.toDigits 10 m) : n = m := by
  have hn := Nat.ofDigitChars_ten_toDigits (n := n)
  have hm := Nat.ofDigitChars_ten_toDigits (n := m)
  rw [h] at hn
  omega

/-- A list splits in only one way at a separator that does not occur to its right. -/
theorem split_unique {α : Type} {a : α} :
    ∀ {l₁ l₂ r₁ r₂ : List α}, l₁ ++ a :: r₁ = l₂ ++ a :: r₂ → a ∉ r₁ → a ∉ r₂ → l₁ = l₂ ∧ r₁ = r₂
  | [], [], _, _, h, _, _ => by simp_all
  | [], y :: l₂, r₁, r₂, h, h₁, _ => by
    simp only [List.nil_append, List.cons_append, List.cons.injEq] at h
    exact absurd (h.2 ▸ (by simp : a ∈ l₂ ++ a :: r₂)) h₁
  | x :: l₁, [], r₁, r₂, h, _, h₂ => by
    simp only [List.nil_append, List.cons_append, List.cons.injEq] at h
    exact absurd (h.2 ▸ (by simp : a ∈ l₁ ++ a :: r₁)) h₂
  | x :: l₁, y :: l₂, r₁, r₂, h, h₁, h₂ => by
    simp only [List.cons_append, List.cons.injEq] at h
    obtain ⟨hl, hr⟩ := split_unique h.2 h₁ h₂
    exact ⟨by rw [h.1, hl], hr⟩

/-- Two suffixed names are equal only if base and number are equal. -/
theorem suffixed_inj_pos {b b' : String} {n m : Nat} (hn : 0 < n) (hm : 0 < m)
    (h : suffixed b n = suffixed b' m) : b = b' ∧ n = m := by
  have h' := congrArg String.toList h
  rw [toList_suffixed_pos b hn, toList_suffixed_pos b' hm] at h'
  obtain ⟨hb, hd⟩ := split_unique h' Nat.underscore_not_in_toDigits Nat.underscore_not_in_toDigits
  exact ⟨String.toList_inj.mp hb, toDigits_inj hd⟩

theorem takeWhile_append_stop {α : Type} (p : α → Bool) (l r : List α) (a : α)
    (hl : ∀ x ∈ l, p x = true) (ha : p a = false) : (l ++ a :: r).takeWhile p = l := by
  induction l with
  | nil => simp [ha]
  | cons x l ih =>
    have hx : p x = true := hl x (by simp)
    simp only [List.cons_append, List.takeWhile_cons, hx, if_true]
    rw [ih (fun y hy => hl y (by simp [hy]))]

/-- A suffixed name ends in `_<digits>`. -/
theorem endsInSuffix_suffixed (b : String) {n : Nat} (h : 0 < n) : endsInSuffix (suffixed b n) = true := by
  unfold endsInSuffix endsInSuffixL
  rw [toList_suffixed_pos b h]
  have hrev : (b.toList ++ '_' :: Nat.toDigits 10 n).reverse
      = (Nat.toDigits 10 n).reverse ++ '_' :: b.toList.reverse := by simp
  rw [hrev]
  have htw : ((Nat.toDigits 10 n).reverse ++ '_' :: b.toList.reverse).takeWhile Char.isDigit
      = (Nat.toDigits 10 n).reverse := by
    apply takeWhile_append_stop
    · intro x hx
      exact Nat.isDigit_of_mem_toDigits (by decide) (by decide) (List.mem_reverse.mp hx)
    · decide
  simp only [htw]
  have hne : (Nat.toDigits 10 n).reverse ≠ [] := by simp [Nat.toDigits_ne_nil]
  simp

/-! ### legality -/

theorem isIdChar_of_isIdStart {c : Char} (h : isIdStart c = true) : isIdChar c = true := by
  simp only [isIdStart, isIdChar, Char.isAlphanum, Bool.or_eq_true] at *
  rcases h with h | h
  · exact Or.inl (Or.inl h)
  · exact Or.inr h

theorem isIdChar_of_isDigit {c : Char} (h : c.isDigit = true) : isIdChar c = true := by
  simp [isIdChar, Char.isAlphanum, h]

theorem isIdChar_underscore : isIdChar '_' = true := by decide

theorem isIdentL_iff {l : List Char} :
    isIdentL l = true ↔ ∃ c cs, l = c :: cs ∧ isIdStart c = true ∧ ∀ x ∈ cs, isIdChar x = true := by
  cases l with
  | nil => simp [isIdentL]
  | cons c cs =>
    simp only [isIdentL, List.all_eq_true, Bool.and_eq_true]
    constructor
    · rintro ⟨h1, h2⟩
      exact ⟨c, cs, rfl, h1, h2⟩
    · rintro ⟨c', cs', h, h1, h2⟩
      cases h
      exact ⟨h1, h2⟩

theorem all_isIdChar_of_isIdentL {l : List Char} (h : isIdentL l = true) : ∀ x ∈ l, isIdChar x = true := by
  obtain ⟨c, cs, rfl, hc, hcs⟩ := isIdentL_iff.mp h
  intro x hx
  rcases List.mem_cons.mp hx with rfl | hx
  · exact isIdChar_of_isIdStart hc
  · exact hcs x hx

/-- Appending identifier characters keeps an identifier legal. -/
theorem isIdentL_append {l r : List Char} (h : isIdentL l = true) (hr : ∀ x ∈ r, isIdChar x = true) :
    isIdentL (l ++ r) = true := by
  obtain ⟨c, cs, rfl, hc, hcs⟩ := isIdentL_iff.mp h
  refine isIdentL_iff.mpr ⟨c, cs ++ r, by simp, hc, ?_⟩
  intro x hx
  rcases List.mem_append.mp hx with hx | hx
  · exact hcs x hx
  · exact hr x hx

/-- `sig_name += f"_{n}"` keeps a legal name legal. -/
theorem isIdent_suffixed {b : String} (h : isIdent b = true) (n : Nat) : isIdent (suffixed b n) = true := by
  by_cases hn : 0 < n
  · unfold isIdent
    rw [toList_suffixed_pos b hn]
    apply isIdentL_append h
    intro x hx
    rcases List.mem_cons.mp hx with rfl | hx
    · exact isIdChar_underscore
    · exact isIdChar_of_isDigit (Nat.isDigit_of_mem_toDigits (by decide) (by decide) hx)
  · have : n = 0 := by omega
    subst this
    rwa [suffixed_zero]

/-- `f"{a}_{b}"` of two legal names is legal. -/
theorem isIdent_join {a b : String} (ha : isIdent a = true) (hb : isIdent b = true) :
    isIdent (a ++ "_" ++ b) = true := by
  unfold isIdent at *
  have : (a ++ "_" ++ b).toList = a.toList ++ ('_' :: b.toList) := by simp [String.toList_append]
  rw [this]
  apply isIdentL_append ha
  intro x hx
  rcases List.mem_cons.mp hx with rfl | hx
  · exact isIdChar_underscore
  · exact all_isIdChar_of_isIdentL hb x hx

/-- Appending a decimal number (element index, DUID rank) keeps a legal name legal. -/
theorem isIdent_append_nat {a : String} (ha : isIdent a = true) (k : Nat) :
    isIdent (a ++ toString k) = true := by
  unfold isIdent at *
  rw [String.toList_append, toList_toString_nat]
  apply isIdentL_append ha
  intro x hx
  exact isIdChar_of_isDigit (Nat.isDigit_of_mem_toDigits (by decide) (by decide) hx)

/-- `"_".join(elements)` of legal elements (at least one) is legal. -/
theorem isIdent_intercalate : ∀ {l : List String}, l ≠ [] → (∀ e ∈ l, isIdent e = true) →
    isIdent ("_".intercalate l) = true
  | [e], _, h => by simpa using h e (by simp)
  | e :: f :: l, _, h => by
    rw [String.intercalate_cons_cons]
    have ih := isIdent_intercalate (l := f :: l) (by simp) (fun x hx => h x (by simp [hx]))
    exact isIdent_join (h e (by simp)) ih

end Litex.Namer
