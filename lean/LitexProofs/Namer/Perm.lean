import LitexModel.Namer.Tree
import Mathlib.Data.List.Dedup
/-
  Order independence of the hierarchical naming stage: Python iterates *sets* of signals
  (`_build_signal_groups` returns sets, `name_dict` is filled in set order); the group dictionary does not
  depend on that order.
-/
namespace Litex.Namer
open List

theorem dedup_eq {α : Type} [DecidableEq α] (l : List α) : dedup l = l.dedup := by
  induction l with
  | nil => rfl
  | cons a l ih =>
    by_cases h : a ∈ l
    · simp [dedup, h, ih, List.dedup_cons_of_mem h]
    · simp [dedup, h, ih, List.dedup_cons_of_notMem h]

theorem mem_dedup_iff {α : Type} [DecidableEq α] {a : α} {l : List α} : a ∈ dedup l ↔ a ∈ l := by
  rw [dedup_eq]; exact List.mem_dedup

theorem perm_dedup {α : Type} [DecidableEq α] {l₁ l₂ : List α} (h : l₁ ~ l₂) : dedup l₁ ~ dedup l₂ := by
  rw [dedup_eq, dedup_eq]; exact h.dedup

theorem any_congr_mem {α : Type} {l₁ l₂ : List α} (h : ∀ x, x ∈ l₁ ↔ x ∈ l₂) (p : α → Bool) :
    l₁.any p = l₂.any p := by
  rw [Bool.eq_iff_iff]
  simp only [List.any_eq_true]
  constructor
  · rintro ⟨x, hx, hp⟩; exact ⟨x, (h x).mp hx, hp⟩
  · rintro ⟨x, hx, hp⟩; exact ⟨x, (h x).mpr hx, hp⟩

theorem any_congr_fun {α : Type} {l : List α} {p q : α → Bool} (h : ∀ x ∈ l, p x = q x) :
    l.any p = l.any q := by
  induction l with
  | nil => rfl
  | cons a l ih =>
    simp only [List.any_cons, h a (by simp), ih (fun x hx => h x (by simp [hx]))]

theorem child_perm {n₁ n₂ : List Path} (h : n₁ ~ n₂) (k : Key) : child n₁ k ~ child n₂ k :=
  h.filterMap _

theorem hasOwn_perm {n₁ n₂ : List Path} (h : n₁ ~ n₂) : hasOwn n₁ = hasOwn n₂ :=
  any_congr_mem (fun _ => h.mem_iff) _

theorem childKeys_mem_perm {n₁ n₂ : List Path} (h : n₁ ~ n₂) (k : Key) :
    k ∈ childKeys n₁ ↔ k ∈ childKeys n₂ := by
  simp only [childKeys, mem_dedup_iff]
  exact (h.filterMap _).mem_iff

theorem inter_congr {a a' b b' : List (List Key)} (ha : ∀ x, x ∈ a ↔ x ∈ a') (hb : ∀ x, x ∈ b ↔ x ∈ b') :
    inter a b = inter a' b' := by
  unfold inter
  rw [any_congr_mem ha]
  apply any_congr_fun
  intro x _
  rw [Bool.eq_iff_iff]
  simp only [List.contains_iff_mem]
  exact hb x

/-- The flag computed inside `req` is `useName`. -/
theorem req_flag (fuel : Nat) (node : List Path) (k : Key) :
    (hasOwn (child node k) ||
      ((childKeys node).map fun k => (k, req fuel k (child node k))).any
        (fun ks' => ks'.1 != k && inter (req fuel k (child node k)) ks'.2)) = useName fuel node k := by
  simp only [useName, List.any_map]
  rfl

theorem mem_req_succ (fuel : Nat) (name : Key) (node : List Path) (x : List Key) :
    x ∈ req (fuel + 1) name node ↔
      (hasOwn node = true ∧ x = [name]) ∨
      ∃ k, k ∈ childKeys node ∧
        ((useName fuel node k = true ∧ ∃ y, y ∈ req fuel k (child node k) ∧ x = k :: y) ∨
         (useName fuel node k = false ∧ x ∈ req fuel k (child node k))) := by
  have hout : ∀ x, x ∈ (((childKeys node).map fun k => (k, req fuel k (child node k))).flatMap fun ks =>
        if hasOwn (child node ks.1) ||
            ((childKeys node).map fun k => (k, req fuel k (child node k))).any
              (fun ks' => ks'.1 != ks.1 && inter ks.2 ks'.2)
        then ks.2.map (ks.1 :: ·) else ks.2) ↔
      ∃ k, k ∈ childKeys node ∧
        ((useName fuel node k = true ∧ ∃ y, y ∈ req fuel k (child node k) ∧ x = k :: y) ∨
         (useName fuel node k = false ∧ x ∈ req fuel k (child node k))) := by
    intro x
    simp only [List.mem_flatMap, List.mem_map]
    constructor
    · rintro ⟨ks, ⟨k, hk, rfl⟩, hx⟩
      refine ⟨k, hk, ?_⟩
      simp only [req_flag] at hx
      cases hu : useName fuel node k with
      | true =>
        simp only [hu, if_true, List.mem_map] at hx
        obtain ⟨y, hy, rfl⟩ := hx
        exact Or.inl ⟨rfl, y, hy, rfl⟩
      | false =>
        simp only [hu] at hx
        exact Or.inr ⟨rfl, by simpa using hx⟩
    · rintro ⟨k, hk, h⟩
      refine ⟨(k, req fuel k (child node k)), ⟨k, hk, rfl⟩, ?_⟩
      simp only [req_flag]
      rcases h with ⟨hu, y, hy, rfl⟩ | ⟨hu, hx⟩
      · simp only [hu, if_true, List.mem_map]
        exact ⟨y, hy, rfl⟩
      · simpa [hu] using hx
  simp only [req]
  split
  · rename_i ho
    simp only [List.mem_cons, hout, ho, true_and]
  · rename_i ho
    simp only [hout, ho]
    simp

/-- Membership in `required_names` given that it is order independent one level down. -/
def ReqInv (fuel : Nat) : Prop :=
  ∀ (name : Key) (n₁ n₂ : List Path), n₁ ~ n₂ → ∀ x, x ∈ req fuel name n₁ ↔ x ∈ req fuel name n₂

theorem useName_perm_of {fuel : Nat} (hP : ReqInv fuel) {n₁ n₂ : List Path} (h : n₁ ~ n₂) (k : Key) :
    useName fuel n₁ k = useName fuel n₂ k := by
  simp only [useName]
  rw [hasOwn_perm (child_perm h k)]
  congr 1
  rw [any_congr_mem (childKeys_mem_perm h)]
  apply any_congr_fun
  intro k' _
  congr 1
  exact inter_congr (hP k _ _ (child_perm h k)) (hP k' _ _ (child_perm h k'))

theorem reqInv : ∀ fuel, ReqInv fuel
  | 0 => by intro name n₁ n₂ _ x; simp [req]
  | fuel + 1 => by
    intro name n₁ n₂ h x
    have ih := reqInv fuel
    rw [mem_req_succ, mem_req_succ, hasOwn_perm h]
    apply or_congr Iff.rfl
    apply exists_congr
    intro k
    rw [childKeys_mem_perm h k, useName_perm_of ih h k]
    apply and_congr Iff.rfl
    apply or_congr
    · apply and_congr Iff.rfl
      apply exists_congr
      intro y
      rw [ih k _ _ (child_perm h k) y]
    · rw [ih k _ _ (child_perm h k) x]

theorem useName_perm (fuel : Nat) {n₁ n₂ : List Path} (h : n₁ ~ n₂) (k : Key) :
    useName fuel n₁ k = useName fuel n₂ k := useName_perm_of (reqInv fuel) h k

theorem elems_perm (fuel : Nat) : ∀ (p : Path) {n₁ n₂ : List Path}, n₁ ~ n₂ → elems fuel n₁ p = elems fuel n₂ p
  | [], _, _, _ => rfl
  | (k, r) :: rest, n₁, n₂, h => by
    simp only [elems, useName_perm fuel h k, elems_perm fuel rest (child_perm h k)]

theorem fuelOf_perm {n₁ n₂ : List Path} (h : n₁ ~ n₂) : fuelOf n₁ = fuelOf n₂ := by
  simp only [fuelOf, (h.map List.length).sum_nat]

theorem treeName_perm {n₁ n₂ : List Path} (h : n₁ ~ n₂) (p : Path) : treeName n₁ p = treeName n₂ p := by
  simp only [treeName, fuelOf_perm h, elems_perm _ p h]

theorem pass1Name_perm {g₁ g₂ : List GSig} (h : g₁ ~ g₂) (s : GSig) : pass1Name g₁ s = pass1Name g₂ s :=
  treeName_perm (h.map _) _

theorem map_perm_congr {α β : Type} {l₁ l₂ : List α} (h : l₁ ~ l₂) {f₁ f₂ : α → β} (hf : ∀ x, f₁ x = f₂ x) :
    l₁.map f₁ ~ l₂.map f₂ := by
  have : f₁ = f₂ := funext hf
  subst this
  exact h.map _

theorem tagged_perm {g₁ g₂ : List GSig} (h : g₁ ~ g₂) : tagged g₁ ~ tagged g₂ := by
  simp only [tagged]
  apply map_perm_congr h
  intro t
  have hn : g₁.map (pass1Name g₁) ~ g₂.map (pass1Name g₂) := map_perm_congr h (pass1Name_perm h)
  rw [pass1Name_perm h t, (hn.filter _).length_eq]

theorem keyedPath_perm : ∀ (bt : List Step) {n₁ n₂ : List (Bool × List Step)}, n₁ ~ n₂ →
    keyedPath n₁ bt = keyedPath n₂ bt
  | [], _, _, _ => rfl
  | (nm, num) :: rest, n₁, n₂, h => by
    have hsub := h.filter fun cb => cb.2.head?.map (·.1) == some nm
    have hnums := perm_dedup (hsub.filterMap fun cb => cb.2.head?.map (·.2))
    simp only [keyedPath]
    rw [keyedPath_perm rest (hsub.map fun cb => (cb.1, cb.2.tail))]
    rw [any_congr_mem (fun _ => hsub.mem_iff), hsub.length_eq, hnums.length_eq, (hnums.filter _).length_eq]

theorem pass2Name_perm {g₁ g₂ : List GSig} (h : g₁ ~ g₂) (s : GSig) : pass2Name g₁ s = pass2Name g₂ s := by
  simp only [pass2Name, pass2With]
  have ht := tagged_perm h
  rw [keyedPath_perm s.bt ht]
  apply treeName_perm
  exact map_perm_congr h (fun t => keyedPath_perm t.bt ht)

theorem named_perm {g₁ g₂ : List GSig} (h : g₁ ~ g₂) : named g₁ ~ named g₂ := by
  show (g₁.map fun t => (t, pass2Name g₁ t)) ~ (g₂.map fun t => (t, pass2Name g₂ t))
  exact map_perm_congr h (fun t => by rw [pass2Name_perm h t])

theorem disambiguate_perm {nm₁ nm₂ : List (GSig × String)} (h : nm₁ ~ nm₂) (sn : GSig × String) :
    disambiguate nm₁ sn = disambiguate nm₂ sn := by
  have hs := h.filter fun tn => tn.2 == sn.2
  simp only [disambiguate, hs.length_eq, (hs.filter _).length_eq]

/-- The dictionary of a `related`-group does not depend on the order in which its signals are listed. -/
theorem groupName_perm {g₁ g₂ : List GSig} (h : g₁ ~ g₂) (s : GSig) : groupName g₁ s = groupName g₂ s := by
  simp only [groupName, pass2Name_perm h s, disambiguate_perm (named_perm h)]

end Litex.Namer
