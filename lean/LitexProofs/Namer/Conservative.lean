import LitexProofs.Namer.GetName
import LitexProofs.Namer.Fixed
/-
  The proposed fix is conservative: for request sequences outside the defect region (no suffix-shaped base
  name, well-formed keyword table) the repaired `get_name` gives exactly the answers of the current one.
-/
namespace Litex.Namer

variable {kw : List String} {base : SigId → String}

/-- `x` is a numbered identifier issued so far (these are the extra dictionary keys of the repaired method). -/
def Marked (base : SigId → String) (ns : Ns) (x : String) : Prop :=
  ∃ t m, ns.sigs t = some m ∧ 0 < m ∧ x = suffixed (base t) m

structure Sim (kw : List String) (base : SigId → String) (done : List SigId) (ns : Ns) (nf : NsF) : Prop where
  inv : Inv kw base done ns
  invF : InvF kw base nf
  sigs_eq : ∀ s, nf.sigs.lookup s = ns.sigs s
  counts_eq : ∀ b, Marked base ns b ∨ nf.count b = ns.counts b
  keys : ∀ x, nf.used x = true → x ∈ kw ∨ x ∈ done.map base ∨ Marked base ns x

theorem count_init (kw : List String) (b : String) :
    (NsF.init kw).count b = if b ∈ kw then 1 else 0 := by
  simp only [NsF.count, NsF.init]
  induction kw with
  | nil => simp
  | cons k kw ih =>
    simp only [List.map_cons, List.lookup_cons, List.mem_cons]
    by_cases h : b = k
    · subst h; simp
    · have : (b == k) = false := by simpa using h
      simp only [this, h, false_or]
      exact ih

theorem Sim.init : Sim kw base [] (Ns.init kw) (NsF.init kw) where
  inv := Inv.init
  invF := InvF.init
  sigs_eq := by intro s; simp [NsF.init, Ns.init]
  counts_eq := by intro b; right; simp [count_init, Ns.init]
  keys := by
    intro x hx
    left
    have := used_iff_mem.mp hx
    simpa [NsF.init, List.map_map] using this

theorem skipUsed_stop {nf : NsF} {b : String} {n : Nat} (fuel : Nat)
    (h : n = 0 ∨ nf.used (suffixed b n) = false) : skipUsed nf b (fuel + 1) n = n := by
  rcases h with h | h
  · subst h; simp [skipUsed]
  · simp [skipUsed, h]

theorem Marked.mono {ns : Ns} {b : String} {s : SigId} {x : String} (h : Marked base ns x) :
    Marked base (getName ns b s).1 x := by
  obtain ⟨t, m, ht, hm, rfl⟩ := h
  exact ⟨t, m, getName_keeps ht, hm, rfl⟩

theorem Sim.step {reqs done : List SigId} {ns : Ns} {nf : NsF} (h : Sim kw base done ns nf)
    (hw : kwWellformed kw = true) (hshape : noSuffixShapedBase (reqs.map base) = true)
    (s : SigId) (hdone : ∀ t ∈ done, t ∈ reqs) (hs : s ∈ reqs) (hlen : done.length < reqs.length) :
    (getNameFixed nf (base s) s).2 = (getName ns (base s) s).2 ∧
    Sim kw base (done ++ [s]) (getName ns (base s) s).1 (getNameFixed nf (base s) s).1 := by
  have hbase : ∀ t m, ns.sigs t = some m → base t ∈ reqs.map base ∧ m ≤ (reqs.map base).length := by
    intro t m ht
    refine ⟨List.mem_map_of_mem (hdone t (h.inv.named t m ht)), ?_⟩
    have h1 := h.inv.lt_count t m ht
    have h2 := h.inv.bound (base t)
    simp only [List.length_map]; omega
  have hsb : base s ∈ reqs.map base := List.mem_map_of_mem hs
  -- a requested base name is never a numbered identifier
  have hnotmarked : ∀ u, u ∈ reqs → ¬ Marked base ns (base u) := by
    rintro u hu ⟨t, m, ht, hm, heq⟩
    rw [suffixed_pos _ hm] at heq
    exact noSuffixShapedBase_spec hshape (List.mem_map_of_mem hu) (hbase t m ht).1 hm (hbase t m ht).2 heq
  cases hsig : ns.sigs s with
  | some m =>
    have hf : nf.sigs.lookup s = some m := by rw [h.sigs_eq, hsig]
    rw [getName_named hsig, getNameFixed_named hf]
    refine ⟨rfl, ⟨?_, h.invF, h.sigs_eq, h.counts_eq, ?_⟩⟩
    · have := h.inv.step s
      rwa [getName_named hsig] at this
    · intro x hx
      rcases h.keys x hx with hk | hk | hk
      · exact Or.inl hk
      · exact Or.inr (Or.inl (by simp [hk]))
      · exact Or.inr (Or.inr hk)
  | none =>
    have hf : nf.sigs.lookup s = none := by rw [h.sigs_eq, hsig]
    obtain ⟨hans, hsigs, hcounts⟩ := getNameFixed_fresh (b := base s) hf
    have hcnt : nf.count (base s) = ns.counts (base s) := by
      rcases h.counts_eq (base s) with hm | hc
      · exact absurd hm (hnotmarked s hs)
      · exact hc
    -- the loop stops immediately
    have hfresh : freshNum nf (base s) = ns.counts (base s) := by
      unfold freshNum
      rw [hcnt]
      apply skipUsed_stop
      by_cases hn : ns.counts (base s) = 0
      · exact Or.inl hn
      · right
        have hpos : 0 < ns.counts (base s) := by omega
        cases hu : nf.used (suffixed (base s) (ns.counts (base s))) with
        | false => rfl
        | true =>
          exfalso
          rcases h.keys _ hu with hk | hk | hk
          · -- a keyword never ends in _<digits>
            simp only [kwWellformed, List.all_eq_true, Bool.and_eq_true, Bool.not_eq_true'] at hw
            have h2 := (hw _ hk).2
            rw [endsInSuffix_suffixed _ hpos] at h2
            exact absurd h2 (by decide)
          · -- a requested base is never base_n
            obtain ⟨u, hu', hue⟩ := List.mem_map.mp hk
            have hb := h.inv.bound (base s)
            rw [suffixed_pos _ hpos] at hue
            refine noSuffixShapedBase_spec hshape (List.mem_map_of_mem (hdone u hu')) hsb hpos ?_ hue
            simp only [List.length_map]; omega
          · -- numbers of the same base are below its counter
            obtain ⟨t, m, ht, hm, heq⟩ := hk
            obtain ⟨hb, hnm⟩ := suffixed_inj_pos hpos hm heq
            have := h.inv.lt_count t m ht
            rw [← hb] at this
            omega
    refine ⟨by rw [hans, hfresh, getName_fresh_name hsig], ?_⟩
    have hmark_new : 0 < ns.counts (base s) →
        Marked base (getName ns (base s) s).1 (suffixed (base s) (ns.counts (base s))) := by
      intro hpos
      exact ⟨s, ns.counts (base s), by simp [getName_fresh_sigs hsig], hpos, rfl⟩
    refine ⟨h.inv.step s, h.invF.step s, ?_, ?_, ?_⟩
    · intro t
      rw [hsigs, lookup_cons_sig, getName_fresh_sigs hsig, hfresh, h.sigs_eq]
    · intro b
      by_cases hb1 : b = base s
      · right
        subst hb1
        rw [getName_fresh_counts hsig]
        simp only [NsF.count, hcounts, hfresh, if_true]
        by_cases hpos : ns.counts (base s) > 0
        · have hne : base s ≠ suffixed (base s) (ns.counts (base s)) := by
            intro he
            have := congrArg String.toList he
            rw [toList_suffixed_pos _ hpos] at this
            have := congrArg List.length this
            simp at this
          have : (base s == suffixed (base s) (ns.counts (base s))) = false := by simpa using hne
          simp [hpos, List.lookup_cons, this]
        · simp [hpos, List.lookup_cons]
      · by_cases hb2 : 0 < ns.counts (base s) ∧ b = suffixed (base s) (ns.counts (base s))
        · left
          rw [hb2.2]
          exact hmark_new hb2.1
        · rcases h.counts_eq b with hm | hc
          · exact Or.inl hm.mono
          · right
            rw [getName_fresh_counts hsig]
            simp only [hb1, if_false]
            rw [← hc]
            simp only [NsF.count, hcounts, hfresh]
            have e1 : (b == base s) = false := by simpa using hb1
            by_cases hpos : ns.counts (base s) > 0
            · have hne : b ≠ suffixed (base s) (ns.counts (base s)) := fun he => hb2 ⟨hpos, he⟩
              have e2 : (b == suffixed (base s) (ns.counts (base s))) = false := by simpa using hne
              simp [hpos, List.lookup_cons, e1, e2]
            · simp [hpos, List.lookup_cons, e1]
    · intro x hx
      rw [used_iff_mem, hcounts, hfresh] at hx
      have hcase : x = suffixed (base s) (ns.counts (base s)) ∧ 0 < ns.counts (base s) ∨ x = base s ∨
          x ∈ nf.counts.map Prod.fst := by
        split at hx
        · rename_i hpos
          simp only [List.map_cons, List.mem_cons] at hx
          rcases hx with hx | hx | hx
          · exact Or.inl ⟨hx, hpos⟩
          · exact Or.inr (Or.inl hx)
          · exact Or.inr (Or.inr hx)
        · simp only [List.map_cons, List.mem_cons] at hx
          rcases hx with hx | hx
          · exact Or.inr (Or.inl hx)
          · exact Or.inr (Or.inr hx)
      rcases hcase with ⟨rfl, hpos⟩ | rfl | hx
      · exact Or.inr (Or.inr (hmark_new hpos))
      · exact Or.inr (Or.inl (by simp))
      · rcases h.keys x (used_iff_mem.mpr hx) with hk | hk | hk
        · exact Or.inl hk
        · exact Or.inr (Or.inl (by simp [hk]))
        · exact Or.inr (Or.inr hk.mono)

theorem answers_eq_of_sim {reqs : List SigId} (hw : kwWellformed kw = true)
    (hshape : noSuffixShapedBase (reqs.map base) = true) :
    ∀ (rest done : List SigId) (ns : Ns) (nf : NsF), done ++ rest = reqs → Sim kw base done ns nf →
      answersFromF base nf rest = answersFrom base ns rest
  | [], _, _, _, _, _ => rfl
  | s :: rest, done, ns, nf, hsplit, h => by
    have hdone : ∀ t ∈ done, t ∈ reqs := by intro t ht; rw [← hsplit]; simp [ht]
    have hs : s ∈ reqs := by rw [← hsplit]; simp
    have hlen : done.length < reqs.length := by rw [← hsplit]; simp
    obtain ⟨hans, hsim⟩ := h.step hw hshape s hdone hs hlen
    simp only [answersFromF, answersFrom, hans]
    congr 1
    exact answers_eq_of_sim hw hshape rest (done ++ [s]) _ _ (by simp [← hsplit]) hsim

end Litex.Namer
