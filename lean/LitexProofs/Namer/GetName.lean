import LitexProofs.Namer.Strings
/-
  Invariants of `SignalNamespace.get_name` (model: `getName`) along arbitrary request sequences.
-/
namespace Litex.Namer

variable {kw : List String} {base : SigId → String}

/-- What `getName` does, case by case. -/
theorem getName_named {ns : Ns} {b : String} {s : SigId} {n : Nat} (h : ns.sigs s = some n) :
    getName ns b s = (ns, suffixed b n) := by
  simp [getName, h]

theorem getName_fresh_sigs {ns : Ns} {b : String} {s : SigId} (h : ns.sigs s = none) (t : SigId) :
    (getName ns b s).1.sigs t = if t = s then some (ns.counts b) else ns.sigs t := by
  simp [getName, h]

theorem getName_fresh_counts {ns : Ns} {b : String} {s : SigId} (h : ns.sigs s = none) (b' : String) :
    (getName ns b s).1.counts b' = if b' = b then ns.counts b + 1 else ns.counts b' := by
  simp [getName, h]

theorem getName_fresh_name {ns : Ns} {b : String} {s : SigId} (h : ns.sigs s = none) :
    (getName ns b s).2 = suffixed b (ns.counts b) := by
  simp [getName, h]

/-- After a request the signal is named, and the answer is the suffixed base with its recorded number. -/
theorem getName_answer (ns : Ns) (b : String) (s : SigId) :
    ∃ n, (getName ns b s).1.sigs s = some n ∧ (getName ns b s).2 = suffixed b n := by
  cases h : ns.sigs s with
  | some n => exact ⟨n, by simp [getName_named h, h]⟩
  | none => exact ⟨ns.counts b, by simp [getName_fresh_sigs h], getName_fresh_name h⟩

/-- A recorded number is never changed by a later request. -/
theorem getName_keeps {ns : Ns} {b : String} {s t : SigId} {n : Nat} (h : ns.sigs t = some n) :
    (getName ns b s).1.sigs t = some n := by
  cases hs : ns.sigs s with
  | some m => simp [getName_named hs, h]
  | none =>
    rw [getName_fresh_sigs hs]
    have : t ≠ s := by rintro rfl; simp [hs] at h
    simp [this, h]

theorem runFrom_keeps {ns : Ns} {t : SigId} {n : Nat} (reqs : List SigId) (h : ns.sigs t = some n) :
    (runFrom base ns reqs).sigs t = some n := by
  induction reqs generalizing ns with
  | nil => exact h
  | cons s rest ih => exact ih (getName_keeps h)

theorem runFrom_append (ns : Ns) (l₁ l₂ : List SigId) :
    runFrom base ns (l₁ ++ l₂) = runFrom base (runFrom base ns l₁) l₂ := by
  induction l₁ generalizing ns with
  | nil => rfl
  | cons s rest ih => exact ih _

/-- Every answer is the suffixed base with the number recorded in the final namespace. -/
theorem answersFrom_spec (ns : Ns) (reqs : List SigId) :
    ∀ s a, (s, a) ∈ answersFrom base ns reqs →
      ∃ n, (runFrom base ns reqs).sigs s = some n ∧ a = suffixed (base s) n := by
  induction reqs generalizing ns with
  | nil => intro s a h; simp [answersFrom] at h
  | cons r rest ih =>
    intro s a h
    simp only [answersFrom, List.mem_cons, Prod.mk.injEq] at h
    rcases h with ⟨rfl, rfl⟩ | h
    · obtain ⟨n, hn, ha⟩ := getName_answer ns (base s) s
      exact ⟨n, runFrom_keeps rest hn, ha⟩
    · exact ih _ s a h

theorem answersFrom_mem_reqs (ns : Ns) (reqs : List SigId) :
    ∀ s a, (s, a) ∈ answersFrom base ns reqs → s ∈ reqs := by
  induction reqs generalizing ns with
  | nil => intro s a h; simp [answersFrom] at h
  | cons r rest ih =>
    intro s a h
    simp only [answersFrom, List.mem_cons, Prod.mk.injEq] at h
    rcases h with ⟨rfl, _⟩ | h
    · simp
    · exact List.mem_cons_of_mem _ (ih _ s a h)

/-- Invariant of the namespace after the requests `done` (in any order, with repetitions). -/
structure Inv (kw : List String) (base : SigId → String) (done : List SigId) (ns : Ns) : Prop where
  /-- a recorded number is below the counter of its base -/
  lt_count : ∀ s n, ns.sigs s = some n → n < ns.counts (base s)
  /-- two signals with the same base never carry the same number -/
  distinct : ∀ s t n, ns.sigs s = some n → ns.sigs t = some n → base s = base t → s = t
  /-- keyword counters never drop below their seed -/
  kw_seed : ∀ b, b ∈ kw → 1 ≤ ns.counts b
  /-- a signal whose base is a keyword never carries number 0 -/
  kw_pos : ∀ s n, ns.sigs s = some n → base s ∈ kw → 1 ≤ n
  /-- counters are bounded by the number of requests served -/
  bound : ∀ b, ns.counts b ≤ done.length + 1
  /-- only requested signals are named -/
  named : ∀ s n, ns.sigs s = some n → s ∈ done

theorem Inv.init : Inv kw base [] (Ns.init kw) where
  lt_count := by intro s n h; simp [Ns.init] at h
  distinct := by intro s t n h; simp [Ns.init] at h
  kw_seed := by intro b hb; simp [Ns.init, hb]
  kw_pos := by intro s n h; simp [Ns.init] at h
  bound := by intro b; simp only [Ns.init]; split <;> omega
  named := by intro s n h; simp [Ns.init] at h

theorem Inv.step {done : List SigId} {ns : Ns} (h : Inv kw base done ns) (s : SigId) :
    Inv kw base (done ++ [s]) (getName ns (base s) s).1 := by
  cases hs : ns.sigs s with
  | some m =>
    rw [getName_named hs]
    exact { h with
      bound := fun b => by have := h.bound b; simp only [List.length_append, List.length_singleton]; omega
      named := fun t n ht => by simp [h.named t n ht] }
  | none =>
    refine ⟨?_, ?_, ?_, ?_, ?_, ?_⟩
    · intro t n ht
      rw [getName_fresh_sigs hs] at ht
      rw [getName_fresh_counts hs]
      by_cases hts : t = s
      · subst hts; simp at ht; subst ht; simp
      · simp only [hts, if_false] at ht
        have := h.lt_count t n ht
        by_cases hb : base t = base s
        · rw [hb] at this ⊢; simp; omega
        · simp [hb]; omega
    · intro t u n ht hu hb
      rw [getName_fresh_sigs hs] at ht hu
      by_cases hts : t = s <;> by_cases hus : u = s
      · rw [hts, hus]
      · subst hts
        simp only [if_true, Option.some.injEq] at ht
        simp only [hus, if_false] at hu
        have := h.lt_count u n hu
        rw [← hb] at this; omega
      · subst hus
        simp only [if_true, Option.some.injEq] at hu
        simp only [hts, if_false] at ht
        have := h.lt_count t n ht
        rw [hb] at this; omega
      · simp only [hts, hus, if_false] at ht hu
        exact h.distinct t u n ht hu hb
    · intro b hb
      rw [getName_fresh_counts hs]
      have := h.kw_seed b hb
      split <;> omega
    · intro t n ht hb
      rw [getName_fresh_sigs hs] at ht
      by_cases hts : t = s
      · subst hts
        simp only [if_true, Option.some.injEq] at ht
        have := h.kw_seed (base t) hb
        omega
      · simp only [hts, if_false] at ht
        exact h.kw_pos t n ht hb
    · intro b
      rw [getName_fresh_counts hs]
      have h1 := h.bound b
      have h2 := h.bound (base s)
      simp only [List.length_append, List.length_singleton]
      by_cases hb : b = base s
      · subst hb; simp; omega
      · simp [hb]; omega
    · intro t n ht
      rw [getName_fresh_sigs hs] at ht
      by_cases hts : t = s
      · simp [hts]
      · simp only [hts, if_false] at ht
        simp [h.named t n ht]

theorem Inv.runFrom {done : List SigId} {ns : Ns} (h : Inv kw base done ns) (reqs : List SigId) :
    Inv kw base (done ++ reqs) (runFrom base ns reqs) := by
  induction reqs generalizing done ns with
  | nil => simpa [Litex.Namer.runFrom] using h
  | cons s rest ih =>
    have := ih (h.step s)
    simpa [Litex.Namer.runFrom, List.append_assoc] using this

theorem Inv.run (reqs : List SigId) : Inv kw base reqs (run kw base reqs) := by
  simpa [Litex.Namer.run] using (Inv.init (kw := kw) (base := base)).runFrom reqs

/-- The only way two named signals can share an identifier: one carries number 0 and its base is the other
    one's base followed by `_m`, `m` the other one's (positive) number. -/
theorem collision_shape {done : List SigId} {ns : Ns} (h : Inv kw base done ns) {s t : SigId} {n m : Nat}
    (hs : ns.sigs s = some n) (ht : ns.sigs t = some m) (hne : s ≠ t)
    (heq : suffixed (base s) n = suffixed (base t) m) :
    (n = 0 ∧ 0 < m ∧ base s = base t ++ "_" ++ toString m) ∨
    (m = 0 ∧ 0 < n ∧ base t = base s ++ "_" ++ toString n) := by
  by_cases hn : 0 < n <;> by_cases hm : 0 < m
  · obtain ⟨hb, hnm⟩ := suffixed_inj_pos hn hm heq
    subst hnm
    exact absurd (h.distinct s t n hs ht hb) hne
  · have : m = 0 := by omega
    subst this
    right
    rw [suffixed_zero, suffixed_pos _ hn] at heq
    exact ⟨rfl, hn, heq.symm⟩
  · have : n = 0 := by omega
    subst this
    left
    rw [suffixed_zero, suffixed_pos _ hm] at heq
    exact ⟨rfl, hm, heq⟩
  · have hn0 : n = 0 := by omega
    have hm0 : m = 0 := by omega
    subst hn0 hm0
    rw [suffixed_zero, suffixed_zero] at heq
    exact absurd (h.distinct s t 0 hs ht heq) hne

theorem noSuffixShapedBase_spec {bases : List String} (h : noSuffixShapedBase bases = true)
    {b b' : String} (hb : b ∈ bases) (hb' : b' ∈ bases) {k : Nat} (hk1 : 1 ≤ k) (hk2 : k ≤ bases.length) :
    b ≠ b' ++ "_" ++ toString k := by
  simp only [noSuffixShapedBase, List.all_eq_true, List.mem_range, bne_iff_ne, ne_eq] at h
  have := h b hb b' hb' (k - 1) (by omega)
  rwa [show k - 1 + 1 = k by omega] at this

end Litex.Namer
