import LitexProofs.Namer.Fixed
import LitexProofs.Namer.Tree
import LitexModel.Namer.Emit
/-
  C02 — lemmas about the ordered-emission model (`LitexModel/Namer/Emit.lean`): a stable sort of a
  permutation gives the same list when the keys identify the elements; the orders used by the generator are
  total orders; legality of the generated base names.
-/
namespace Litex.Namer
open List

/-! ### The stable sort -/

theorem insertBy_perm {α : Type} (le : α → α → Bool) (a : α) : ∀ l : List α, insertBy le a l ~ a :: l
  | [] => Perm.refl _
  | b :: l => by
    simp only [insertBy]
    split
    · exact Perm.refl _
    · exact ((insertBy_perm le a l).cons b).trans (Perm.swap a b l)

theorem isort_perm {α : Type} (le : α → α → Bool) : ∀ l : List α, isort le l ~ l
  | [] => Perm.refl _
  | a :: l => (insertBy_perm le a _).trans ((isort_perm le l).cons a)

theorem insertBy_pairwise {α : Type} {le : α → α → Bool}
    (trans : ∀ a b c, le a b = true → le b c = true → le a c = true)
    (total : ∀ a b, le a b = true ∨ le b a = true) (a : α) :
    ∀ l : List α, l.Pairwise (fun x y => le x y = true) → (insertBy le a l).Pairwise (fun x y => le x y = true)
  | [], _ => by simp [insertBy]
  | b :: l, h => by
    simp only [insertBy]
    split
    next hab =>
      refine Pairwise.cons ?_ h
      intro x hx
      rcases mem_cons.mp hx with rfl | hx
      · exact hab
      · exact trans _ _ _ hab (rel_of_pairwise_cons h hx)
    next hab =>
      have hba : le b a = true := by
        rcases total a b with h1 | h1
        · exact absurd h1 hab
        · exact h1
      refine Pairwise.cons ?_ (insertBy_pairwise trans total a l h.tail)
      intro x hx
      rcases mem_cons.mp ((insertBy_perm le a l).subset hx) with rfl | hx
      · exact hba
      · exact rel_of_pairwise_cons h hx

theorem isort_pairwise {α : Type} {le : α → α → Bool}
    (trans : ∀ a b c, le a b = true → le b c = true → le a c = true)
    (total : ∀ a b, le a b = true ∨ le b a = true) :
    ∀ l : List α, (isort le l).Pairwise (fun x y => le x y = true)
  | [] => Pairwise.nil
  | a :: l => insertBy_pairwise trans total a _ (isort_pairwise trans total l)

/-- **Permutation invariance of `sorted(..., key=…)`**: when the key order is a total order and the key
    identifies the element among the listed ones, every listing order gives the same sorted list. -/
theorem sortedBy_perm {α κ : Type} {leK : κ → κ → Bool} {key : α → κ}
    (trans : ∀ a b c, leK a b = true → leK b c = true → leK a c = true)
    (total : ∀ a b, leK a b = true ∨ leK b a = true)
    (antisymm : ∀ a b, leK a b = true → leK b a = true → a = b)
    {l₁ l₂ : List α} (h : l₁ ~ l₂) (hinj : ∀ a ∈ l₁, ∀ b ∈ l₁, key a = key b → a = b) :
    sortedBy leK key l₁ = sortedBy leK key l₂ := by
  unfold sortedBy
  have t' : ∀ a b c : α, leK (key a) (key b) = true → leK (key b) (key c) = true → leK (key a) (key c) = true :=
    fun a b c => trans _ _ _
  have o' : ∀ a b : α, leK (key a) (key b) = true ∨ leK (key b) (key a) = true := fun a b => total _ _
  refine Perm.eq_of_pairwise (le := fun a b => leK (key a) (key b) = true) ?_
    (isort_pairwise t' o' l₁) (isort_pairwise t' o' l₂)
    ((isort_perm _ l₁).trans (h.trans (isort_perm _ l₂).symm))
  intro a b ha hb hab hba
  have ha' : a ∈ l₁ := (isort_perm _ l₁).subset ha
  have hb' : b ∈ l₁ := h.symm.subset ((isort_perm _ l₂).subset hb)
  exact hinj a ha' b hb' (antisymm _ _ hab hba)

theorem sortedBy_perm_list {α κ : Type} (leK : κ → κ → Bool) (key : α → κ) (l : List α) :
    sortedBy leK key l ~ l := isort_perm _ l

/-- A list that is already sorted is left alone (so emission is idempotent). -/
theorem isort_of_pairwise {α : Type} {le : α → α → Bool} :
    ∀ l : List α, l.Pairwise (fun x y => le x y = true) → isort le l = l
  | [], _ => rfl
  | a :: l, h => by
    rw [isort, isort_of_pairwise l h.tail]
    cases l with
    | nil => rfl
    | cons b l =>
      have : le a b = true := rel_of_pairwise_cons h mem_cons_self
      simp [insertBy, this]

/-! ### The orders -/

theorem strLe_trans (a b c : String) : strLe a b = true → strLe b c = true → strLe a c = true := by
  simp only [strLe, decide_eq_true_eq]; exact String.le_trans
theorem strLe_total (a b : String) : strLe a b = true ∨ strLe b a = true := by
  simp only [strLe, decide_eq_true_eq]; exact String.le_total a b
theorem strLe_antisymm (a b : String) : strLe a b = true → strLe b a = true → a = b := by
  simp only [strLe, decide_eq_true_eq]; exact String.le_antisymm

theorem natLe_trans (a b c : Nat) : natLe a b = true → natLe b c = true → natLe a c = true := by
  simp only [natLe, decide_eq_true_eq]; omega
theorem natLe_total (a b : Nat) : natLe a b = true ∨ natLe b a = true := by
  simp only [natLe, decide_eq_true_eq]; omega
theorem natLe_antisymm (a b : Nat) : natLe a b = true → natLe b a = true → a = b := by
  simp only [natLe, decide_eq_true_eq]; omega

theorem AVal.le_trans (a b c : AVal) : AVal.le a b = true → AVal.le b c = true → AVal.le a c = true := by
  cases a <;> cases b <;> cases c <;> simp only [AVal.le, decide_eq_true_eq] <;>
    first | exact strLe_trans _ _ _ | omega | simp
theorem AVal.le_total (a b : AVal) : AVal.le a b = true ∨ AVal.le b a = true := by
  cases a <;> cases b <;> simp only [AVal.le, decide_eq_true_eq] <;>
    first | exact strLe_total _ _ | omega | simp
theorem AVal.le_antisymm (a b : AVal) : AVal.le a b = true → AVal.le b a = true → a = b := by
  cases a <;> cases b <;> simp only [AVal.le, decide_eq_true_eq] <;> intro h1 h2
  · exact congrArg _ (strLe_antisymm _ _ h1 h2)
  · exact absurd h2 (by simp)
  · exact absurd h1 (by simp)
  · exact congrArg _ (by omega)

theorem keyLe_trans (a b c : String × AVal) : keyLe a b = true → keyLe b c = true → keyLe a c = true := by
  unfold keyLe
  intro h1 h2
  by_cases hab : a.1 = b.1 <;> by_cases hbc : b.1 = c.1
  · rw [if_pos hab] at h1; rw [if_pos hbc] at h2; rw [if_pos (hab.trans hbc)]
    exact AVal.le_trans _ _ _ h1 h2
  · rw [if_neg hbc] at h2
    have : ¬ a.1 = c.1 := by rw [hab]; exact hbc
    rw [if_neg this, hab]; exact h2
  · rw [if_neg hab] at h1
    have : ¬ a.1 = c.1 := by rw [← hbc]; exact hab
    rw [if_neg this, ← hbc]; exact h1
  · rw [if_neg hab] at h1; rw [if_neg hbc] at h2
    have h3 := strLe_trans _ _ _ h1 h2
    by_cases hac : a.1 = c.1
    · exfalso
      rw [← hac] at h2
      exact hab (strLe_antisymm _ _ h1 h2)
    · rw [if_neg hac]; exact h3

theorem keyLe_total (a b : String × AVal) : keyLe a b = true ∨ keyLe b a = true := by
  unfold keyLe
  by_cases hab : a.1 = b.1
  · simp only [hab, if_true]; exact AVal.le_total _ _
  · have : ¬ b.1 = a.1 := fun h => hab h.symm
    simp only [hab, this, if_false]; exact strLe_total _ _

theorem keyLe_antisymm (a b : String × AVal) : keyLe a b = true → keyLe b a = true → a = b := by
  unfold keyLe
  intro h1 h2
  by_cases hab : a.1 = b.1
  · simp only [hab, if_true] at h1 h2
    exact Prod.ext hab (AVal.le_antisymm _ _ h1 h2)
  · have : ¬ b.1 = a.1 := fun h => hab h.symm
    simp only [hab, this, if_false] at h1 h2
    exact absurd (strLe_antisymm _ _ h1 h2) hab

/-- Among well-formed attributes the sort key identifies the attribute. -/
theorem Attr.key_inj {a b : Attr} (ha : a.named = true) (hb : b.named = true) (h : a.key = b.key) : a = b := by
  cases a <;> cases b <;> simp_all [Attr.key, Attr.named]

/-! ### Namespace facts used by the emission theorems -/

section
variable {base : SigId → String}

/-- Every requested object is named in the final namespace state. -/
theorem runFromF_named {ns : NsF} : ∀ (reqs : List SigId) {s : SigId}, s ∈ reqs →
    ∃ n, (runFromF base ns reqs).sigs.lookup s = some n := by
  intro reqs
  induction reqs generalizing ns with
  | nil => intro s hs; simp at hs
  | cons r rest ih =>
    intro s hs
    by_cases hsr : s = r
    · subst hsr
      obtain ⟨n, hn, -⟩ := getNameFixed_answer ns (base s) s
      exact ⟨n, runFromF_keeps rest hn⟩
    · rcases List.mem_cons.mp hs with h | h
      · exact absurd h hsr
      · exact ih h

/-- All answers given for one object are the same identifier (repaired `get_name`). -/
theorem answersFromF_functional (ns : NsF) (reqs : List SigId) (s : SigId) (a b : String)
    (ha : (s, a) ∈ answersFromF base ns reqs) (hb : (s, b) ∈ answersFromF base ns reqs) : a = b := by
  obtain ⟨n, hn, rfl⟩ := answersFromF_spec ns reqs s a ha
  obtain ⟨m, hm, rfl⟩ := answersFromF_spec ns reqs s b hb
  rw [hn] at hm
  cases hm
  rfl
end

/-! ### ClockSignal / ResetSignal resolution -/

theorem resolve_clk_sound {cds : List Cd} {c : String} {i : Nat} (h : resolve cds (.clk c) = some i) :
    ∃ d ∈ cds, d.name = c ∧ d.clk = i := by
  simp only [resolve, Option.map_eq_some_iff] at h
  obtain ⟨d, hd, rfl⟩ := h
  exact ⟨d, List.mem_of_find?_eq_some hd, by simpa using List.find?_some hd, rfl⟩

theorem resolve_rst_sound {cds : List Cd} {c : String} {i : Nat} (h : resolve cds (.rst c) = some i) :
    ∃ d ∈ cds, d.name = c ∧ d.rst = some i := by
  simp only [resolve, Option.bind_eq_some_iff] at h
  obtain ⟨d, hd, hr⟩ := h
  exact ⟨d, List.mem_of_find?_eq_some hd, by simpa using List.find?_some hd, hr⟩

/-! ### IO naming step -/

theorem ioOverride_idem (s : Sig) : ioOverride (ioOverride s) = ioOverride s := by
  unfold ioOverride
  cases ho : s.override with
  | some o => simp [ho]
  | none =>
    cases hl : s.bt.getLast? with
    | none => simp [ho, hl]
    | some st =>
      obtain ⟨n, k⟩ := st
      by_cases hn : n = "" <;> simp [ho, hl, hn]

theorem ioOverride_bt (s : Sig) : (ioOverride s).bt = s.bt ∧ (ioOverride s).duid = s.duid ∧
    (ioOverride s).related = s.related := by
  unfold ioOverride
  cases ho : s.override with
  | some o => simp
  | none =>
    cases hl : s.bt.getLast? with
    | none => simp
    | some st =>
      obtain ⟨n, k⟩ := st
      by_cases hn : n = "" <;> simp [hn]

/-- The override after the step: kept when set, else the last back-trace name when that is non-empty. -/
theorem ioOverride_override (s : Sig) :
    (ioOverride s).override =
      match s.override with
      | some o => some o
      | none => match s.bt.getLast? with
        | some (n, _) => if n = "" then none else some n
        | none => none := by
  unfold ioOverride
  cases ho : s.override with
  | some o => simp [ho]
  | none =>
    cases hl : s.bt.getLast? with
    | none => simp [ho]
    | some st =>
      obtain ⟨n, k⟩ := st
      by_cases hn : n = "" <;> simp [ho, hn]

theorem ioOverride_legal {s : Sig}
    (h : s.bt ≠ [] ∧ (∀ st ∈ s.bt, isIdent st.1 = true) ∧ ∀ o, s.override = some o → isIdent o = true) :
    (ioOverride s).bt ≠ [] ∧ (∀ st ∈ (ioOverride s).bt, isIdent st.1 = true) ∧
      ∀ o, (ioOverride s).override = some o → isIdent o = true := by
  rw [(ioOverride_bt s).1]
  refine ⟨h.1, h.2.1, ?_⟩
  intro o
  rw [ioOverride_override]
  cases ho : s.override with
  | some o' => simp only [Option.some.injEq]; rintro rfl; exact h.2.2 _ ho
  | none =>
    cases hl : s.bt.getLast? with
    | none => simp
    | some st =>
      obtain ⟨n, k⟩ := st
      by_cases hn : n = ""
      · simp [hn]
      · simp only [hn, if_false, Option.some.injEq]
        rintro rfl
        exact h.2.1 (n, k) (List.mem_of_getLast? hl)

/-! ### Legality of the generated base names -/

theorem isIdent_append_chars {a : String} (ha : isIdent a = true) (r : String)
    (hr : ∀ x ∈ r.toList, isIdChar x = true) : isIdent (a ++ r) = true := by
  unfold isIdent at *
  rw [String.toList_append]
  exact isIdentL_append ha hr

theorem isIdent_append_digits {a : String} (ha : isIdent a = true) (n : Nat) :
    isIdent (a ++ toString n) = true := isIdent_append_nat ha n

theorem adrBase_legal {m : String} (h : isIdent m = true) (n : Nat) : isIdent (adrBase m n) = true := by
  unfold adrBase
  exact isIdent_append_digits (isIdent_append_chars h "_adr" (by decide)) n

theorem datBase_legal {m : String} (h : isIdent m = true) (n : Nat) : isIdent (datBase m n) = true := by
  unfold datBase
  exact isIdent_append_digits (isIdent_append_chars h "_dat" (by decide)) n

theorem cdClkBase_legal {c : String} (h : isIdent c = true) : isIdent (cdClkBase c) = true :=
  isIdent_append_chars h "_clk" (by decide)

theorem cdRstBase_legal {c : String} (h : isIdent c = true) : isIdent (cdRstBase c) = true :=
  isIdent_append_chars h "_rst" (by decide)

theorem Obj.base_legal {o : Obj} (h : o.legal = true) : isIdent o.base = true := by
  cases o <;> simp only [Obj.legal] at h <;> simp only [Obj.base]
  · exact h
  · exact h
  · exact h
  · exact adrBase_legal h _
  · exact datBase_legal h _
  · exact cdClkBase_legal h
  · exact cdRstBase_legal h

end Litex.Namer
