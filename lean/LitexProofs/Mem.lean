import LitexModel.Mem
/-
  Lemmas about the byte-memory specification `LitexModel/Mem.lean`: effect of one masked write, the
  "last enabled write wins" characterisation of a write history, and the numeric word view round trips.
-/
namespace Litex
namespace Mem

theorem writeMasked_apply (m : Mem) (base : Nat) (sel : List Bool) (dat : List Byte) (a : Nat) :
    m.writeMasked base sel dat a =
      if base ≤ a ∧ sel.getD (a - base) false = true then dat.getD (a - base) 0 else m a := rfl

theorem writeMasked_selected (m : Mem) (base : Nat) (sel : List Bool) (dat : List Byte) (i : Nat)
    (h : sel.getD i false = true) : m.writeMasked base sel dat (base + i) = dat.getD i 0 := by
  rw [writeMasked_apply]; simp only [Nat.add_sub_cancel_left, Nat.le_add_right, true_and, h, if_true]

theorem writeMasked_unselected (m : Mem) (base : Nat) (sel : List Bool) (dat : List Byte) (i : Nat)
    (h : sel.getD i false = false) : m.writeMasked base sel dat (base + i) = m (base + i) := by
  rw [writeMasked_apply]; simp only [Nat.add_sub_cancel_left, h]; simp

theorem writeMasked_below (m : Mem) (base : Nat) (sel : List Bool) (dat : List Byte) (a : Nat)
    (h : a < base) : m.writeMasked base sel dat a = m a := by
  rw [writeMasked_apply]
  have : ¬ base ≤ a := by omega
  simp only [this, false_and, if_false]

theorem getD_of_length_le {α : Type} (l : List α) (i : Nat) (d : α) (h : l.length ≤ i) : l.getD i d = d := by
  simp [List.getD_eq_getElem?_getD, List.getElem?_eq_none h]

theorem writeMasked_above (m : Mem) (base : Nat) (sel : List Bool) (dat : List Byte) (a : Nat)
    (h : base + sel.length ≤ a) : m.writeMasked base sel dat a = m a := by
  rw [writeMasked_apply]
  have h2 : sel.length ≤ a - base := by omega
  rw [getD_of_length_le sel _ false h2]; simp

/-- A write with no lane selected changes nothing. -/
theorem writeMasked_none (m : Mem) (base : Nat) (sel : List Bool) (dat : List Byte)
    (h : ∀ i, sel.getD i false = false) : m.writeMasked base sel dat = m := by
  funext a; rw [writeMasked_apply, h]; simp

@[simp] theorem readBytes_length (m : Mem) (base n : Nat) : (m.readBytes base n).length = n := by
  simp [readBytes]

theorem readBytes_getD (m : Mem) (base n i : Nat) (h : i < n) : (m.readBytes base n).getD i 0 = m (base + i) := by
  simp [readBytes, List.getD_eq_getElem?_getD, h]

theorem apply_eq (m : Mem) (w : Write) (a : Nat) :
    m.apply w a = if w.enables a then w.byteAt a else m a := by
  unfold apply; rw [writeMasked_apply]
  simp [Write.enables, Write.byteAt]

theorem applyAll_cons (m : Mem) (w : Write) (ws : List Write) : m.applyAll (w :: ws) = (m.apply w).applyAll ws := rfl

theorem applyAll_append (m : Mem) (a b : List Write) : m.applyAll (a ++ b) = (m.applyAll a).applyAll b := by
  simp [applyAll, List.foldl_append]

theorem lastEnabled_cons (init : Mem) (w : Write) (ws : List Write) (a : Nat) :
    lastEnabled init (w :: ws) a = lastEnabled (init.apply w) ws a := by
  unfold lastEnabled
  rw [List.reverse_cons, List.find?_append]
  cases h : List.find? (fun w => w.enables a) ws.reverse with
  | some x => simp
  | none =>
    simp only [Option.none_or, List.find?_cons, List.find?_nil]
    rw [apply_eq]
    cases h2 : w.enables a <;> simp

/-- **Last enabled write wins**: replaying the writes in order yields, at every byte, the data of the last
    write that enabled this byte, or the initial content if none did. -/
theorem applyAll_eq_lastEnabled (init : Mem) (ws : List Write) (a : Nat) :
    init.applyAll ws a = lastEnabled init ws a := by
  induction ws generalizing init with
  | nil => simp [applyAll, lastEnabled]
  | cons w ws ih => rw [applyAll_cons, lastEnabled_cons, ih]

end Mem

@[simp] theorem wordBytes_length (n w : Nat) : (wordBytes n w).length = n := by
  induction n generalizing w with
  | zero => rfl
  | succ n ih => simp [wordBytes, ih]

@[simp] theorem selBits_length (n s : Nat) : (selBits n s).length = n := by
  induction n generalizing s with
  | zero => rfl
  | succ n ih => simp [selBits, ih]

/-- Splitting a word into `n` lanes and reassembling gives the word modulo `256^n`. -/
theorem bytesWord_wordBytes (n w : Nat) : bytesWord (wordBytes n w) = w % 256 ^ n := by
  induction n generalizing w with
  | zero => simp [wordBytes, bytesWord, Nat.mod_one]
  | succ n ih =>
    simp only [wordBytes, bytesWord, ih, Nat.mod_mod]
    rw [Nat.pow_succ, Nat.mul_comm (256 ^ n) 256, Nat.mod_mul]

theorem bitsSel_selBits (n s : Nat) : bitsSel (selBits n s) = s % 2 ^ n := by
  induction n generalizing s with
  | zero => simp [selBits, bitsSel, Nat.mod_one]
  | succ n ih =>
    simp only [selBits, bitsSel, ih]
    rw [Nat.pow_succ, Nat.mul_comm (2 ^ n) 2, Nat.mod_mul]
    have : s % 2 = 0 ∨ s % 2 = 1 := by omega
    rcases this with h | h <;> simp [h]

end Litex
