import LitexProofs.Cdc.Reset
/-
  Common reset through real (two-flop, asynchronously preset) reset synchronisers: the two domains leave reset at
  different times.  Simulation argument: once each side's pointers have been zeroed, the crossing — with the
  not-yet-flushed synchroniser flops of a domain that is still in reset read as 0 — is step for step a plain FIFO
  started from its initial state whose producer/consumer is held off while its domain is in reset.
-/
namespace Litex.Cdc
variable {α : Type}

theorem afStepR2_common (k : Nat) (b : Bool) (z : α) (s : AFState α) (i : AFIn α) (r : Bool) :
    afStepR2 k b z s i r r = afStepR k b z s i r := rfl

/-- Synchroniser flops of a domain that is still in reset, not yet flushed, read as 0. -/
def patch (aw ar : ARSState) (s : AFState α) : AFState α :=
  { s with cw1 := if aw.m1 then 0 else s.cw1, cw2 := if aw.rst then 0 else s.cw2,
           pr1 := if ar.m1 then 0 else s.pr1, pr2 := if ar.rst then 0 else s.pr2 }

def maskIn (aw ar : ARSState) (i : AFIn α) : AFIn α :=
  { i with valid := i.valid && !aw.rst, ready := i.ready && !ar.rst }

/-- A reachable synchroniser state after a preset: `m1` implies `rst`. -/
def ARSOk (s : ARSState) : Prop := s.m1 = true → s.rst = true

theorem arsOk_step (s : ARSState) (t : Bool) (h : ARSOk s) : ARSOk (arsStep s t false) := by
  obtain ⟨m, r⟩ := s
  cases t <;> cases m <;> cases r <;> simp_all [ARSOk, arsStep]

section
variable (k : Nat) (b : Bool) (z : α)

/-- Zeroed-side facts are kept while the domain stays in reset. -/
theorem sync_keep (s : AFState α) (i : AFIn α) (aw ar : ARSState)
    (hw : aw.rst = true → WZero k z s) (hr : ar.rst = true → RZero s) (okw : ARSOk aw) (okr : ARSOk ar) :
    ((arsStep aw i.tw false).rst = true → WZero k z (afStepR2 k b z s i aw.rst ar.rst)) ∧
    ((arsStep ar i.tr false).rst = true → RZero (afStepR2 k b z s i aw.rst ar.rst)) := by
  obtain ⟨mw, rw⟩ := aw
  obtain ⟨mr, rr⟩ := ar
  constructor
  · intro h
    cases htw : i.tw
    · have : rw = true := by simpa [arsStep, htw] using h
      subst this
      obtain ⟨a1, a2, a3⟩ := hw rfl
      exact ⟨by simp [afStepR2, htw, a1], by simp [afStepR2, htw, a2], by simp [afStepR2, htw, a3]⟩
    · have hm : mw = true := by simpa [arsStep, htw] using h
      have : rw = true := okw hm
      subst this
      exact ⟨by simp [afStepR2, htw], by simp [afStepR2, htw, gray], by simp [afStepR2, htw]⟩
  · intro h
    cases htr : i.tr
    · have : rr = true := by simpa [arsStep, htr] using h
      subst this
      obtain ⟨a1, a2, a3, a4⟩ := hr rfl
      exact ⟨by simp [afStepR2, htr, a1], by simp [afStepR2, htr, a2], by simp [afStepR2, htr, a3],
        by simp [afStepR2, htr, a4, ire]⟩
    · have hm : mr = true := by simpa [arsStep, htr] using h
      have : rr = true := okr hm
      subst this
      exact ⟨by simp [afStepR2, htr], by simp [afStepR2, htr, gray], by simp [afStepR2, htr],
        by simp [afStepR2, htr]⟩

/-- **The simulation step.** -/
theorem sync_sim (s : AFState α) (i : AFIn α) (aw ar : ARSState)
    (hw : aw.rst = true → WZero k z s) (hr : ar.rst = true → RZero s) (okw : ARSOk aw) (okr : ARSOk ar) :
    patch (arsStep aw i.tw false) (arsStep ar i.tr false) (afStepR2 k b z s i aw.rst ar.rst) =
      afStep k b z (patch aw ar s) (maskIn aw ar i) := by
  obtain ⟨mw, rw⟩ := aw
  obtain ⟨mr, rr⟩ := ar
  obtain ⟨tw, tr, mmw, mmr, v, d, rdy⟩ := i
  obtain ⟨pbin, pq, cw1, cw2, mem, cbin, cq, pr1, pr2, radr, bval, bdat⟩ := s
  cases rw
  · have : mw = false := by cases mw <;> simp_all [ARSOk]
    subst this
    cases rr
    · have : mr = false := by cases mr <;> simp_all [ARSOk]
      subst this
      cases tw <;> cases tr <;>
        simp [patch, maskIn, afStepR2, afStep, arsStep, pbinN, cbinN, wce, rce, writable, ireadable, ire, memOut]
    · obtain ⟨a1, a2, a3, a4⟩ := hr rfl
      simp only at a1 a2 a3 a4
      subst a1 a2 a3 a4
      cases tw <;> cases tr <;> cases mr <;> cases b <;>
        simp [patch, maskIn, afStepR2, afStep, arsStep, pbinN, cbinN, wce, rce, writable, ireadable, ire, memOut,
          gray]
  · obtain ⟨w1, w2, w3⟩ := hw rfl
    simp only at w1 w2 w3
    subst w1 w2 w3
    cases rr
    · have : mr = false := by cases mr <;> simp_all [ARSOk]
      subst this
      cases tw <;> cases tr <;> cases mw <;>
        simp [patch, maskIn, afStepR2, afStep, arsStep, pbinN, cbinN, wce, rce, writable, ireadable, ire, memOut,
          gray]
    · obtain ⟨a1, a2, a3, a4⟩ := hr rfl
      simp only at a1 a2 a3 a4
      subst a1 a2 a3 a4
      cases tw <;> cases tr <;> cases mw <;> cases mr <;> cases b <;>
        simp [patch, maskIn, afStepR2, afStep, arsStep, pbinN, cbinN, wce, rce, writable, ireadable, ire, memOut,
          gray]

end

end Litex.Cdc

namespace Litex.Cdc
variable {α : Type}

section
variable (k : Nat) (b : Bool) (z : α)

theorem crStep_false_f (S : CRState α) (i : AFIn α) :
    (crStep k b z S i false).f = afStepR2 k b z S.f i S.aw.rst S.ar.rst := by
  simp [crStep, arsOut]

/-- The whole release phase (raw reset low) is a plain FIFO run on the patched state with masked inputs. -/
theorem sync_run (ys : List (AFIn α)) : ∀ (S : CRState α), ARSOk S.aw → ARSOk S.ar →
    (S.aw.rst = true → WZero k z S.f) → (S.ar.rst = true → RZero S.f) →
    patch (crRun k b z false S ys).aw (crRun k b z false S ys).ar (crRun k b z false S ys).f =
      runFrom k b z (patch S.aw S.ar S.f) (crMasked S.aw S.ar ys) := by
  induction ys with
  | nil => intro S _ _ _ _; rfl
  | cons i is ih =>
    intro S okw okr hw hr
    simp only [crRun, crMasked, runFrom]
    have hk := sync_keep k b z S.f i S.aw S.ar hw hr okw okr
    have hs := sync_sim k b z S.f i S.aw S.ar hw hr okw okr
    have := ih (crStep k b z S i false) (arsOk_step _ _ okw) (arsOk_step _ _ okr)
      (by rw [crStep_false_f]; exact hk.1) (by rw [crStep_false_f]; exact hk.2)
    rw [this]
    simp only [crStep, arsOut, Bool.false_or]
    rw [hs]
    rfl

/-- Two edges of its clock after the raw reset has fallen, a synchroniser has released its domain. -/
theorem ars_release_w (ys : List (AFIn α)) : ∀ (S : CRState α),
    (2 ≤ writeTicks ys ∨ (1 ≤ writeTicks ys ∧ S.aw.m1 = false) ∨ S.aw = ⟨false, false⟩) →
    (crRun k b z false S ys).aw = ⟨false, false⟩ := by
  induction ys with
  | nil => intro S h; simp [writeTicks] at h; simpa [crRun] using h
  | cons i is ih =>
    intro S h
    simp only [crRun]
    apply ih
    rcases hS : S.aw with ⟨m, r⟩
    cases htw : i.tw <;> simp [crStep, arsStep, writeTicks, htw, hS] at h ⊢
    · rcases h with h | h | h
      · left; exact h
      · right; left; exact h
      · right; right; exact h
    · rcases h with h | h | h
      · right; left; omega
      · right; right; exact h
      · right; right; exact h.1

theorem ars_release_r (ys : List (AFIn α)) : ∀ (S : CRState α),
    (2 ≤ readTicks ys ∨ (1 ≤ readTicks ys ∧ S.ar.m1 = false) ∨ S.ar = ⟨false, false⟩) →
    (crRun k b z false S ys).ar = ⟨false, false⟩ := by
  induction ys with
  | nil => intro S h; simp [readTicks] at h; simpa [crRun] using h
  | cons i is ih =>
    intro S h
    simp only [crRun]
    apply ih
    rcases hS : S.ar with ⟨m, r⟩
    cases htr : i.tr <;> simp [crStep, arsStep, readTicks, htr, hS] at h ⊢
    · rcases h with h | h | h
      · left; exact h
      · right; left; exact h
      · right; right; exact h
    · rcases h with h | h | h
      · right; left; omega
      · right; right; exact h
      · right; right; exact h.1

/-- While the raw reset is high both domains are in reset: the FIFO part runs as `runRst`, and both synchronisers
    end preset. -/
theorem crRun_true (xs : List (AFIn α)) : ∀ (S : CRState α),
    (crRun k b z true S xs).f = runRst k b z S.f xs ∧
    (xs ≠ [] → (crRun k b z true S xs).aw = ⟨true, true⟩ ∧ (crRun k b z true S xs).ar = ⟨true, true⟩) := by
  induction xs with
  | nil => intro S; simp [crRun, runRst]
  | cons i is ih =>
    intro S
    simp only [crRun, runRst]
    obtain ⟨h1, h2⟩ := ih (crStep k b z S i true)
    refine ⟨by rw [h1]; simp [crStep, arsOut, afStepR2_common], fun _ => ?_⟩
    cases is with
    | nil => simp [crRun, crStep, arsStep]
    | cons j js => exact h2 (by simp)

theorem patch_released (s : AFState α) : patch ⟨false, false⟩ ⟨false, false⟩ s = s := by
  cases s; simp [patch]

theorem patch_zero (s : AFState α) (hw : WZero k z s) (hr : RZero s) :
    patch ⟨true, true⟩ ⟨true, true⟩ s = { afInit k z with bdat := s.bdat } := by
  obtain ⟨w1, w2, w3⟩ := hw
  obtain ⟨r1, r2, r3, r4⟩ := hr
  cases s
  simp_all [patch, afInit]

/-- The initial state with an arbitrary word in the reset-less output register satisfies the invariant. -/
theorem inv_init' (d : α) : AFInv k b { afInit k z with bdat := d } (gInit (α := α)) := by
  constructor <;> simp [afInit, gInit, gray_zero]

end
end Litex.Cdc
