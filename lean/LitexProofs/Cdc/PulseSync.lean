import LitexModel.Cdc.BusSync
import Mathlib.Tactic.Ring
/-
  PulseSynchronizer: pulse accounting.
-/
namespace Litex.Cdc

theorem psFlight_le (s : PSState) : psFlight s ≤ 3 := by
  obtain ⟨tog, r1, r2, tor⟩ := s
  cases tog <;> cases r1 <;> cases r2 <;> cases tor <;> decide

/-- One instant never creates an output pulse out of nothing. -/
theorem ps_step_le (s : PSState) (x : PSIn) :
    (if x.tO && psOut s then 1 else 0) + psFlight (psStep s x) ≤ psFlight s + (if x.ti && x.i then 1 else 0) := by
  obtain ⟨tog, r1, r2, tor⟩ := s
  obtain ⟨ti, tO, m, i⟩ := x
  cases tog <;> cases r1 <;> cases r2 <;> cases tor <;> cases ti <;> cases tO <;> cases m <;> cases i <;> decide

/-- … and loses none if the previous toggle has been caught by the first flop (`tog = r1`) before the next. -/
theorem ps_step_eq (s : PSState) (x : PSIn) (h : (x.ti && x.i) = true → s.tog = s.r1) :
    (if x.tO && psOut s then 1 else 0) + psFlight (psStep s x) = psFlight s + (if x.ti && x.i then 1 else 0) := by
  obtain ⟨tog, r1, r2, tor⟩ := s
  obtain ⟨ti, tO, m, i⟩ := x
  revert h
  cases tog <;> cases r1 <;> cases r2 <;> cases tor <;> cases ti <;> cases tO <;> cases m <;> cases i <;> decide

theorem ps_seen_le (xs : List PSIn) : ∀ s, psSeen s xs + psFlight (psRun s xs) ≤ psFlight s + psSent xs := by
  induction xs with
  | nil => intro s; simp [psSeen, psRun, psSent]
  | cons x xs ih =>
    intro s
    have h1 := ps_step_le s x
    have h2 := ih (psStep s x)
    simp only [psSeen, psRun, psSent]
    omega

theorem pend_step (s : PSState) (x : PSIn) (pend : Bool) (hp : pend = (s.tog != s.r1))
    (h : (x.ti && x.i) = true → pend = false) :
    pendNext pend x = ((psStep s x).tog != (psStep s x).r1) := by
  obtain ⟨tog, r1, r2, tor⟩ := s
  obtain ⟨ti, tO, m, i⟩ := x
  subst hp
  revert h
  cases tog <;> cases r1 <;> cases r2 <;> cases tor <;> cases ti <;> cases tO <;> cases m <;> cases i <;> decide

theorem ps_seen_eq (xs : List PSIn) : ∀ s pend, pend = (s.tog != s.r1) → PSpaced pend xs →
    psSeen s xs + psFlight (psRun s xs) = psFlight s + psSent xs := by
  induction xs with
  | nil => intro s _ _ _; simp [psSeen, psRun, psSent]
  | cons x xs ih =>
    intro s pend hp hs
    obtain ⟨h0, hs'⟩ := hs
    have hcaught : (x.ti && x.i) = true → s.tog = s.r1 := by
      intro hx
      have := h0 hx
      rw [hp] at this
      simpa using this
    have h1 := ps_step_eq s x hcaught
    have h2 := ih (psStep s x) _ (pend_step s x pend hp h0) hs'
    simp only [psSeen, psRun, psSent]
    omega

/-- An o-clock edge without a new input pulse shifts the chain by one. -/
theorem ps_shift (s : PSState) (x : PSIn) (h : x.tO = true ∧ (x.ti && x.i) = false) :
    psStep s x = { tog := s.tog, r1 := s.tog, r2 := s.r1, tor := s.r2 } := by
  obtain ⟨ti, tO, m, i⟩ := x
  simp only at h
  obtain ⟨rfl, h⟩ := h
  cases ti <;> cases i <;> cases m <;> simp_all [psStep]

/-- After three o-clock edges without a new input pulse nothing is in flight any more. -/
theorem ps_drain (s : PSState) (x1 x2 x3 : PSIn) (h1 : x1.tO = true ∧ (x1.ti && x1.i) = false)
    (h2 : x2.tO = true ∧ (x2.ti && x2.i) = false) (h3 : x3.tO = true ∧ (x3.ti && x3.i) = false) :
    psFlight (psStep (psStep (psStep s x1) x2) x3) = 0 := by
  rw [ps_shift s x1 h1, ps_shift _ x2 h2, ps_shift _ x3 h3]
  simp [psFlight]

/-! ### Exact minimum pulse spacing as a function of the clock ratio -/

/-- With at most `R` i-edges between two o-edges, pulses separated by `R + 1` pulse-free i-edges are `PSpaced`:
    an o-clock edge falls strictly between any two of them. -/
theorem pspaced_of_gap (R : Nat) (xs : List PSIn) : ∀ (q c : Nat) (pend : Bool), q ≤ R → (pend = true → c ≤ q) →
    PBurst R q xs → PGap (R + 1) c xs → PSpaced pend xs := by
  induction xs with
  | nil => intros; trivial
  | cons x xs ih =>
    intro q c pend hq hj hb hg
    obtain ⟨ti, tO, m, i⟩ := x
    simp only [PBurst, PGap] at hb hg
    refine ⟨?_, ?_⟩
    · intro hx
      simp only at hx
      rw [if_pos hx] at hg
      cases pend
      · rfl
      · have := hj rfl; omega
    · cases hp : (ti && i)
      · rw [hp] at hg
        simp only [Bool.false_eq_true, if_false] at hg
        cases tO
        · cases ti
          · simp only [Bool.false_eq_true, if_false] at hb hg
            exact ih q c _ hq (by simpa [pendNext, hp] using hj) hb hg
          · simp only [Bool.false_eq_true, if_false, if_true] at hb hg
            exact ih (q + 1) (c + 1) _ (by omega) (by simp [pendNext, hp]; intro h; have := hj h; omega) hb.2 hg
        · simp only [if_true] at hb
          exact ih 0 _ _ (by omega) (by simp [pendNext, hp]) hb hg
      · rw [hp] at hg
        simp only [if_true] at hg
        cases tO
        · have hti : ti = true := by cases ti <;> simp_all
          subst hti
          simp only [Bool.false_eq_true, if_false, if_true] at hb
          exact ih (q + 1) 0 _ (by omega) (by intro _; omega) hb.2 hg.2
        · simp only [if_true] at hb
          exact ih 0 0 _ (by omega) (by intro _; omega) hb hg.2

theorem ps_idle_step (s : PSState) : psStep s ⟨true, false, false, false⟩ = s := by
  cases s; simp [psStep]

theorem ps_idle_run (n : Nat) (s : PSState) (rest : List PSIn) :
    psRun s (List.replicate n ⟨true, false, false, false⟩ ++ rest) = psRun s rest ∧
    psSeen s (List.replicate n ⟨true, false, false, false⟩ ++ rest) = psSeen s rest ∧
    psSent (List.replicate n ⟨true, false, false, false⟩ ++ rest) = psSent rest := by
  induction n with
  | zero => simp
  | succ n ih =>
    simp only [List.replicate_succ, List.cons_append, psRun, psSeen, psSent, ps_idle_step]
    simpa using ih

theorem pburst_idle (R n : Nat) (rest : List PSIn) : ∀ q, q + n ≤ R → PBurst R (q + n) rest →
    PBurst R q (List.replicate n ⟨true, false, false, false⟩ ++ rest) := by
  induction n with
  | zero => intro q _ h; simpa using h
  | succ n ih =>
    intro q hq h
    simp only [List.replicate_succ, List.cons_append, PBurst, Bool.false_eq_true, if_false, if_true]
    exact ⟨by omega, ih (q + 1) (by omega) (by rw [show q + 1 + n = q + (n + 1) by omega]; exact h)⟩

theorem pgap_idle (g n : Nat) (rest : List PSIn) : ∀ c, PGap g (c + n) rest →
    PGap g c (List.replicate n ⟨true, false, false, false⟩ ++ rest) := by
  induction n with
  | zero => intro c h; simpa using h
  | succ n ih =>
    intro c h
    simp only [List.replicate_succ, List.cons_append, PGap, Bool.and_false, Bool.false_eq_true, if_false, if_true]
    exact ih (c + 1) (by rw [show c + 1 + n = c + (n + 1) by omega]; exact h)

def decPBurst (R : Nat) : (q : Nat) → (xs : List PSIn) → Decidable (PBurst R q xs)
  | _, [] => isTrue trivial
  | q, x :: xs =>
    have := decPBurst R 0 xs
    have := decPBurst R (q + 1) xs
    have := decPBurst R q xs
    show Decidable (if x.tO then PBurst R 0 xs else if x.ti then q < R ∧ PBurst R (q + 1) xs else PBurst R q xs)
      from inferInstance

instance (R q : Nat) (xs : List PSIn) : Decidable (PBurst R q xs) := decPBurst R q xs

def decPGap (n : Nat) : (c : Nat) → (xs : List PSIn) → Decidable (PGap n c xs)
  | _, [] => isTrue trivial
  | c, x :: xs =>
    have := decPGap n 0 xs
    have := decPGap n (if x.ti then c + 1 else c) xs
    show Decidable (if x.ti && x.i then n ≤ c ∧ PGap n 0 xs else PGap n (if x.ti then c + 1 else c) xs)
      from inferInstance

instance (n c : Nat) (xs : List PSIn) : Decidable (PGap n c xs) := decPGap n c xs

/-- The tight schedule: drift bound `R` respected, the two pulses `R` pulse-free i-edges apart (one fewer than
    `pspaced_of_gap` asks for) — and both pulses are lost. -/
theorem ps_tight (R : Nat) :
    PBurst R 0 (psTight R) ∧ PGap R R (psTight R) ∧ psSent (psTight R) = 2 ∧
    psSeen psInit (psTight R) = 0 ∧ psFlight (psRun psInit (psTight R)) = 0 := by
  unfold psTight
  refine ⟨?_, ?_, ?_, ?_, ?_⟩
  · simp only [List.cons_append, List.nil_append, PBurst, if_true]
    exact pburst_idle R R _ 0 (by omega) (by simp [PBurst])
  · simp only [List.cons_append, List.nil_append, PGap, Bool.and_self, if_true]
    exact ⟨le_refl _, pgap_idle R R _ 0 (by simp [PGap])⟩
  · simp only [List.cons_append, List.nil_append, psSent]
    rw [(ps_idle_run R psInit _).2.2]
    simp [psSent]
  · simp only [List.cons_append, List.nil_append, psSeen]
    rw [(ps_idle_run R _ _).2.1]
    decide
  · simp only [List.cons_append, List.nil_append, psRun]
    rw [(ps_idle_run R _ _).1]
    decide

end Litex.Cdc
