import LitexModel.Cdc.BusSync
import Mathlib.Tactic.Ring
/-
  PulseSynchronizer: pulse accounting.
-/
namespace Litex.Cdc

theorem psFlight_le (s : PSState) : psFlight s ≤ 3 := by
  obtain ⟨tog, r1, r2, tor⟩ := s
  cases tog <;> cases r1 <;> cases r2 <;> cases tor <;> decide

/-- One instant never creates an output pulse out of nothing. -/
theorem ps_step_le (s : PSState) (x : PSIn) :
    (if x.tO && psOut s then 1 else 0) + psFlight (psStep s x) ≤ psFlight s + (if x.ti && x.i then 1 else 0) := by
  obtain ⟨tog, r1, r2, tor⟩ := s
  obtain ⟨ti, tO, m, i⟩ := x
  cases tog <;> cases r1 <;> cases r2 <;> cases tor <;> cases ti <;> cases tO <;> cases m <;> cases i <;> decide

/-- … and loses none if the previous toggle has been caught by the first flop (`tog = r1`) before the next. -/
theorem ps_step_eq (s : PSState) (x : PSIn) (h : (x.ti && x.i) = true → s.tog = s.r1) :
    (if x.tO && psOut s then 1 else 0) + psFlight (psStep s x) = psFlight s + (if x.ti && x.i then 1 else 0) := by
  obtain ⟨tog, r1, r2, tor⟩ := s
  obtain ⟨ti, tO, m, i⟩ := x
  revert h
  cases tog <;> cases r1 <;> cases r2 <;> cases tor <;> cases ti <;> cases tO <;> cases m <;> cases i <;> decide

theorem ps_seen_le (xs : List PSIn) : ∀ s, psSeen s xs + psFlight (psRun s xs) ≤ psFlight s + psSent xs := by
  induction xs with
  | nil => intro s; simp [psSeen, psRun, psSent]
  | cons x xs ih =>
    intro s
    have h1 := ps_step_le s x
    have h2 := ih (psStep s x)
    simp only [psSeen, psRun, psSent]
    omega

theorem pend_step (s : PSState) (x : PSIn) (pend : Bool) (hp : pend = (s.tog != s.r1))
    (h : (x.ti && x.i) = true → pend = false) :
    pendNext pend x = ((psStep s x).tog != (psStep s x).r1) := by
  obtain ⟨tog, r1, r2, tor⟩ := s
  obtain ⟨ti, tO, m, i⟩ := x
  subst hp
  revert h
  cases tog <;> cases r1 <;> cases r2 <;> cases tor <;> cases ti <;> cases tO <;> cases m <;> cases i <;> decide

theorem ps_seen_eq (xs : List PSIn) : ∀ s pend, pend = (s.tog != s.r1) → PSpaced pend xs →
    psSeen s xs + psFlight (psRun s xs) = psFlight s + psSent xs := by
  induction xs with
  | nil => intro s _ _ _; simp [psSeen, psRun, psSent]
  | cons x xs ih =>
    intro s pend hp hs
    obtain ⟨h0, hs'⟩ := hs
    have hcaught : (x.ti && x.i) = true → s.tog = s.r1 := by
      intro hx
      have := h0 hx
      rw [hp] at this
      simpa using this
    have h1 := ps_step_eq s x hcaught
    have h2 := ih (psStep s x) _ (pend_step s x pend hp h0) hs'
    simp only [psSeen, psRun, psSent]
    omega

/-- An o-clock edge without a new input pulse shifts the chain by one. -/
theorem ps_shift (s : PSState) (x : PSIn) (h : x.tO = true ∧ (x.ti && x.i) = false) :
    psStep s x = { tog := s.tog, r1 := s.tog, r2 := s.r1, tor := s.r2 } := by
  obtain ⟨ti, tO, m, i⟩ := x
  simp only at h
  obtain ⟨rfl, h⟩ := h
  cases ti <;> cases i <;> cases m <;> simp_all [psStep]

/-- After three o-clock edges without a new input pulse nothing is in flight any more. -/
theorem ps_drain (s : PSState) (x1 x2 x3 : PSIn) (h1 : x1.tO = true ∧ (x1.ti && x1.i) = false)
    (h2 : x2.tO = true ∧ (x2.ti && x2.i) = false) (h3 : x3.tO = true ∧ (x3.ti && x3.i) = false) :
    psFlight (psStep (psStep (psStep s x1) x2) x3) = 0 := by
  rw [ps_shift s x1 h1, ps_shift _ x2 h2, ps_shift _ x3 h3]
  simp [psFlight]

end Litex.Cdc
