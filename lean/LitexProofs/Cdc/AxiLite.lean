import LitexModel.Cdc.AxiLite
import LitexProofs.Cdc.AsyncFifo
namespace Litex.Cdc
variable {α : Type}

theorem ax_step_ch (k : Nat) (z : α) (c : AxChan) (s : AxState α) (x : AxIn α) :
    (axStep k z s x).ch c = afStep k false z (s.ch c) (axChanIn c x) := by
  cases c <;> rfl

/-- Channel `c` of the product behaves as a single FIFO on the schedule projected to that channel. -/
theorem ax_run_ch (k : Nat) (z : α) (c : AxChan) (xs : List (AxIn α)) : ∀ s : AxState α,
    (axRun k z s xs).ch c = runFrom k false z (s.ch c) (xs.map (axChanIn c)) := by
  induction xs with
  | nil => intro s; rfl
  | cons x xs ih => intro s; simp only [axRun, List.map_cons, runFrom, ih, ax_step_ch]

theorem ax_accepted_ch (k : Nat) (z : α) (c : AxChan) (xs : List (AxIn α)) : ∀ s : AxState α,
    axAccepted k z c s xs = accepted k false z (s.ch c) (xs.map (axChanIn c)) := by
  induction xs with
  | nil => intro s; rfl
  | cons x xs ih => intro s; simp only [axAccepted, List.map_cons, accepted, ih, ax_step_ch]

theorem ax_delivered_ch (k : Nat) (z : α) (c : AxChan) (xs : List (AxIn α)) : ∀ s : AxState α,
    axDelivered k z c s xs = delivered k false z (s.ch c) (xs.map (axChanIn c)) := by
  induction xs with
  | nil => intro s; rfl
  | cons x xs ih => intro s; simp only [axDelivered, List.map_cons, delivered, ih, ax_step_ch]

theorem ax_init_ch (k : Nat) (z : α) (c : AxChan) : (axInit k z).ch c = afInit k z := by cases c <;> rfl

end Litex.Cdc
