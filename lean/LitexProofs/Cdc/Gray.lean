import LitexModel.Cdc.AsyncFifo
import Mathlib.Tactic.Ring
/-
  Gray-code facts used by the clock-domain-crossing proofs.  All widths are unbounded / parametric:
  the statements are about `Nat.testBit`.
-/
namespace Litex.Cdc

theorem gray_testBit (n i : Nat) : (gray n).testBit i = (n.testBit i ^^ n.testBit (i + 1)) := by
  simp [gray, Nat.testBit_xor, Nat.testBit_shiftRight, Nat.add_comm]

theorem gray_zero : gray 0 = 0 := by simp [gray]

theorem gray_lt {w n : Nat} (h : n < 2 ^ w) : gray n < 2 ^ w := by
  unfold gray
  apply Nat.xor_lt_two_pow h
  rw [Nat.shiftRight_eq_div_pow]
  exact lt_of_le_of_lt (Nat.div_le_self _ _) h

/-- Incrementing flips exactly the bits `0..t` for some `t`. -/
theorem succ_testBit (n : Nat) : ∃ t, ∀ i, (n + 1).testBit i = (n.testBit i ^^ decide (i ≤ t)) := by
  induction n using Nat.strongRecOn with
  | _ n ih =>
    rcases Nat.even_or_odd' n with ⟨m, rfl | rfl⟩
    · refine ⟨0, fun i => ?_⟩
      cases i with
      | zero => simp [Nat.testBit_zero]
      | succ j =>
        simp only [Nat.testBit_succ]
        have h1 : (2 * m + 1) / 2 = m := by omega
        have h2 : 2 * m / 2 = m := by omega
        simp [h1, h2]
    · obtain ⟨t, ht⟩ := ih m (by omega)
      refine ⟨t + 1, fun i => ?_⟩
      cases i with
      | zero => simp [Nat.testBit_zero]; omega
      | succ j =>
        simp only [Nat.testBit_succ]
        have h1 : (2 * m + 1 + 1) / 2 = m + 1 := by omega
        have h2 : (2 * m + 1) / 2 = m := by omega
        rw [h1, h2, ht j]
        simp

/-- `b` is `a` with exactly bit `j` flipped. -/
def FlipAt (j a b : Nat) : Prop := ∀ i, b.testBit i = (a.testBit i ^^ decide (i = j))

/-- Successive Gray codes differ in exactly one bit (unbounded width). -/
theorem gray_succ_flip (n : Nat) : ∃ j, FlipAt j (gray n) (gray (n + 1)) := by
  obtain ⟨t, ht⟩ := succ_testBit n
  refine ⟨t, fun i => ?_⟩
  rw [gray_testBit, gray_testBit, ht i, ht (i + 1)]
  by_cases h1 : i ≤ t <;> by_cases h2 : i + 1 ≤ t <;> by_cases h3 : i = t <;>
    simp [h1, h2, h3] <;> omega

theorem gray_two_pow_sub_one (w : Nat) (hw : 1 ≤ w) : gray (2 ^ w - 1) = 2 ^ (w - 1) := by
  apply Nat.eq_of_testBit_eq
  intro i
  rw [gray_testBit, Nat.testBit_two_pow_sub_one, Nat.testBit_two_pow_sub_one, Nat.testBit_two_pow]
  by_cases h1 : i < w <;> by_cases h2 : i + 1 < w <;> by_cases h3 : w - 1 = i <;> simp [h1, h2, h3] <;> omega

/-- Successive Gray codes of a wrapping `w`-bit counter differ in exactly one bit, also across the wrap. -/
theorem gray_succ_flip_mod (w n : Nat) (hw : 1 ≤ w) :
    ∃ j, FlipAt j (gray (n % 2 ^ w)) (gray ((n + 1) % 2 ^ w)) := by
  by_cases h : n % 2 ^ w + 1 < 2 ^ w
  · have : (n + 1) % 2 ^ w = n % 2 ^ w + 1 := by
      rw [Nat.add_mod, Nat.mod_eq_of_lt (a := n % 2 ^ w + 1 % 2 ^ w)]
      · rw [Nat.mod_eq_of_lt (a := 1)]; exact Nat.one_lt_two_pow (by omega)
      · rw [Nat.mod_eq_of_lt (a := 1)]; exact h; exact Nat.one_lt_two_pow (by omega)
    rw [this]
    exact gray_succ_flip _
  · have hlt : n % 2 ^ w < 2 ^ w := Nat.mod_lt _ (Nat.two_pow_pos w)
    have hm : n % 2 ^ w = 2 ^ w - 1 := by omega
    have : (n + 1) % 2 ^ w = 0 := by
      rw [Nat.add_mod, hm]
      have : 1 % 2 ^ w = 1 := Nat.mod_eq_of_lt (Nat.one_lt_two_pow (by omega))
      rw [this]
      have : 2 ^ w - 1 + 1 = 2 ^ w := by have := Nat.two_pow_pos w; omega
      rw [this, Nat.mod_self]
    rw [this, hm, gray_zero, gray_two_pow_sub_one w hw]
    refine ⟨w - 1, fun i => ?_⟩
    rw [Nat.testBit_two_pow]
    by_cases h3 : w - 1 = i
    · simp [h3]
    · have h4 : ¬ i = w - 1 := fun h4 => h3 h4.symm
      simp [h3, h4]

/-- **Sampling a changing Gray pointer.**  If `a` and `b` differ in exactly one bit, any word each of whose
    bits is the corresponding bit of `a` or of `b` is `a` or `b`. -/
theorem flip_mixture {j a b r : Nat} (hf : FlipAt j a b)
    (hr : ∀ i, r.testBit i = a.testBit i ∨ r.testBit i = b.testBit i) : r = a ∨ r = b := by
  rcases hr j with hj | hj
  · left
    apply Nat.eq_of_testBit_eq
    intro i
    by_cases hij : i = j
    · rw [hij, hj]
    · rcases hr i with h | h
      · exact h
      · rw [h, hf i]; simp [hij]
  · right
    apply Nat.eq_of_testBit_eq
    intro i
    by_cases hij : i = j
    · rw [hij, hj]
    · rcases hr i with h | h
      · rw [h, hf i]; simp [hij]
      · exact h

theorem mix_testBit (m a b i : Nat) :
    (mix m a b).testBit i = if m.testBit i then b.testBit i else a.testBit i := by
  simp only [mix, Nat.testBit_xor, Nat.testBit_and]
  cases m.testBit i <;> cases a.testBit i <;> cases b.testBit i <;> rfl

theorem mix_flip {j a b : Nat} (hf : FlipAt j a b) (m : Nat) : mix m a b = a ∨ mix m a b = b := by
  apply flip_mixture hf
  intro i
  rw [mix_testBit]
  cases m.testBit i <;> simp

theorem mix_same (m a : Nat) : mix m a a = a := by simp [mix]

/-- Whatever bits a synchroniser flop catches from a `w`-bit Gray counter that is being incremented in the
    same instant, it holds the old or the new pointer value. -/
theorem gray_sample_mix_mod (w n m : Nat) (hw : 1 ≤ w) :
    mix m (gray (n % 2 ^ w)) (gray ((n + 1) % 2 ^ w)) = gray (n % 2 ^ w) ∨
    mix m (gray (n % 2 ^ w)) (gray ((n + 1) % 2 ^ w)) = gray ((n + 1) % 2 ^ w) := by
  obtain ⟨j, hj⟩ := gray_succ_flip_mod w n hw
  exact mix_flip hj m

/-! ### Gray is injective -/

theorem gray_div_two (a : Nat) : gray a / 2 = gray (a / 2) := by
  unfold gray
  rw [Nat.xor_div_two, Nat.shiftRight_eq_div_pow, Nat.shiftRight_eq_div_pow]

theorem xor_cancel_right' (a c : Nat) : (a ^^^ c) ^^^ c = a := by
  rw [Nat.xor_assoc, Nat.xor_self, Nat.xor_zero]

theorem gray_injective : ∀ a b : Nat, gray a = gray b → a = b := by
  intro a
  induction a using Nat.strongRecOn with
  | _ a ih =>
    intro b h
    have h2 : gray (a / 2) = gray (b / 2) := by rw [← gray_div_two, ← gray_div_two, h]
    have ea : a = gray a ^^^ (a / 2) := by
      unfold gray; rw [Nat.shiftRight_eq_div_pow]; simp [xor_cancel_right']
    have eb : b = gray b ^^^ (b / 2) := by
      unfold gray; rw [Nat.shiftRight_eq_div_pow]; simp [xor_cancel_right']
    by_cases ha : a = 0
    · subst ha
      have hg : gray b = 0 := by rw [← h, gray_zero]
      rw [hg, Nat.zero_xor] at eb
      omega
    · have := ih (a / 2) (by omega) (b / 2) h2
      rw [ea, eb, h, this]

/-! ### `writable` on Gray pointers -/

/-- Adding `2^k` modulo `2^(k+1)` flips exactly bit `k`. -/
theorem add_half_flip (k b : Nat) (hb : b < 2 ^ (k + 1)) : FlipAt k b ((b + 2 ^ k) % 2 ^ (k + 1)) := by
  intro i
  rw [Nat.testBit_mod_two_pow, Nat.add_comm b]
  rcases Nat.lt_trichotomy i k with h | h | h
  · rw [Nat.testBit_two_pow_add_gt h]
    have : i < k + 1 := by omega
    have h2 : ¬ i = k := by omega
    simp [this, h2]
  · subst h
    rw [Nat.testBit_two_pow_add_eq]
    simp
  · have h1 : ¬ i < k + 1 := by omega
    have h2 : ¬ i = k := by omega
    have : b.testBit i = false := Nat.testBit_lt_two_pow (lt_of_lt_of_le hb (Nat.pow_le_pow_right (by omega) (by omega)))
    simp [h1, h2, this]

/-- Migen's `writable` expression on two Gray pointers of width `k+1`. -/
def wrBits (k pq cw2 : Nat) : Bool :=
  (pq.testBit k == cw2.testBit k) || (pq.testBit (k - 1) == cw2.testBit (k - 1)) ||
    (pq % 2 ^ (k - 1) != cw2 % 2 ^ (k - 1))

/-- If the write pointer is exactly `2^k` ahead of the (synchronised) read pointer, `writable` is false. -/
theorem full_not_writable (k a b : Nat) (hk : 1 ≤ k) (hb : b < 2 ^ (k + 1))
    (ha : a = (b + 2 ^ k) % 2 ^ (k + 1)) : wrBits k (gray a) (gray b) = false := by
  have hf := add_half_flip k b hb
  rw [← ha] at hf
  have hg : ∀ i, (gray a).testBit i = ((gray b).testBit i ^^ (decide (i = k) ^^ decide (i + 1 = k))) := by
    intro i
    rw [gray_testBit, gray_testBit, hf i, hf (i + 1)]
    cases b.testBit i <;> cases b.testBit (i + 1) <;> cases decide (i = k) <;> cases decide (i + 1 = k) <;> rfl
  have hlow : gray a % 2 ^ (k - 1) = gray b % 2 ^ (k - 1) := by
    apply Nat.eq_of_testBit_eq
    intro i
    rw [Nat.testBit_mod_two_pow, Nat.testBit_mod_two_pow, hg i]
    by_cases h : i < k - 1
    · have h1 : ¬ i = k := by omega
      have h2 : ¬ i + 1 = k := by omega
      simp [h1, h2]
    · simp [h]
  have hk1 : (gray a).testBit k = !(gray b).testBit k := by
    rw [hg k]
    simp
  have hk2 : (gray a).testBit (k - 1) = !(gray b).testBit (k - 1) := by
    rw [hg (k - 1)]
    have h1 : ¬ k - 1 = k := by omega
    have h2 : k - 1 + 1 = k := by omega
    simp [h1, h2]
  unfold wrBits
  rw [hk1, hk2, hlow]
  cases (gray b).testBit k <;> cases (gray b).testBit (k - 1) <;> simp

theorem mod_ne_of_lt_of_lt {a b n : Nat} (h1 : a < b) (h2 : b < a + n) : a % n ≠ b % n := by
  intro h
  have : (b - a) % n = 0 := Nat.sub_mod_eq_zero_of_mod_eq h.symm
  have hd : n ∣ b - a := Nat.dvd_of_mod_eq_zero this
  have := Nat.le_of_dvd (by omega) hd
  omega


end Litex.Cdc
